/-
Helper lemmas for the totality theorems of the HTTP value classes (Model/HttpValues.lean), in the calculus of
Proofs/Builtins.lean (`Post`: never a panic, the heap stays well-formed, a value is the address of a cell).
The index expressions `values[0]`, `values[1]`, `values[2]` of the two Go constructors are the `goPanic` arms of the model; they
are unreachable because `ValidateLeastParams` (repaired: commit ac9b960) has answered `ok`, which fixes the number of values.
-/
import ZnVerif.Proofs.BuiltinMembers
import ZnVerif.Proofs.Validate
import ZnVerif.Model.HttpValues
set_option linter.unusedSectionVars false
set_option linter.unusedVariables false
set_option linter.unusedSimpArgs false

namespace ZnVerif.Proofs.HttpValues
open ZnVerif.Model ZnVerif.Model.HttpValues ZnVerif.Proofs.Builtins ZnVerif.Model.Validate

variable {ν : Type} [NumOps ν]

/-! ## what `ValidateLeastParams` = ok says about the number of values -/

/-- a mandatory pattern (no suffix): the value is there, the rest is checked from the next index -/
theorem least_mandatory {vs : List VKind} {idx : Nat} {t name : String} {rest : List String}
    (hp : parsePat t = some (name, "")) (h : validateLeastFrom true true vs idx (t :: rest) = .ok) :
    idx < vs.length ∧ validateLeastFrom true true vs (idx + 1) rest = .ok := by
  unfold validateLeastFrom at h
  rw [hp] at h
  dsimp only at h
  rw [if_neg (by decide), if_neg (by decide)] at h
  cases hv : vs[idx]? with
  | none => rw [hv] at h; simp at h
  | some v =>
    rw [hv] at h
    dsimp only at h
    have hlt : idx < vs.length := by
      rcases Nat.lt_or_ge idx vs.length with hl | hg
      · exact hl
      · rw [List.getElem?_eq_none hg] at hv; cases hv
    cases ho : validateOne true v t with
    | ok => rw [ho] at h; exact ⟨hlt, h⟩
    | err c => rw [ho] at h; cases h
    | panic => rw [ho] at h; cases h

/-- an optional last pattern (`?`): no value left, or exactly one -/
theorem least_optional_last {vs : List VKind} {idx : Nat} {t name : String}
    (hp : parsePat t = some (name, "?")) (h : validateLeastFrom true true vs idx [t] = .ok) :
    idx = vs.length ∨ idx + 1 = vs.length := by
  unfold validateLeastFrom at h
  rw [hp] at h
  dsimp only at h
  rw [if_neg (by decide), if_pos (by decide)] at h
  split at h
  · next he => exact .inl (by simpa using he)
  · split at h
    · next he => exact .inr (by simpa using he)
    · cases h

/-- two mandatory values and an optional third: two or three values -/
theorem least_two_three {vs : List VKind} {t1 t2 t3 n1 n2 n3 : String}
    (h1 : parsePat t1 = some (n1, "")) (h2 : parsePat t2 = some (n2, "")) (h3 : parsePat t3 = some (n3, "?"))
    (h : validateLeast true true vs [t1, t2, t3] = .ok) : vs.length = 2 ∨ vs.length = 3 := by
  unfold validateLeast at h
  obtain ⟨_, h⟩ := least_mandatory h1 h
  obtain ⟨_, h⟩ := least_mandatory h2 h
  rcases least_optional_last h3 h with h | h
  · exact .inl h.symm
  · exact .inr h.symm

theorem request_patterns_ok (vs : List VKind) (h : validateLeast true true vs requestPatterns = .ok) :
    vs.length = 2 ∨ vs.length = 3 :=
  least_two_three (n1 := "string") (n2 := "string") (n3 := "any") (by decide) (by decide) (by decide) h

theorem response_patterns_ok (vs : List VKind) (h : validateLeast true true vs responsePatterns = .ok) :
    vs.length = 2 ∨ vs.length = 3 :=
  least_two_three (n1 := "number") (n2 := "any") (n3 := "hashmap") (by decide) (by decide) (by decide) h

/-! ## the pieces -/

theorem ro_mapM_getCell {s : VM ν} : ∀ (vals : List Addr), (∀ v ∈ vals, v < s.heap.size) →
    RO (vals.mapM getCell) s (fun cells => cells.length = vals.length)
  | [], _ => by rw [List.mapM_nil]; exact RO.pure rfl
  | v :: rest, hv => by
    rw [List.mapM_cons]
    obtain ⟨c, hc⟩ := get_of_lt_size (hv v List.mem_cons_self)
    refine RO.bind (RO.getCell hc) (fun c' _ => ?_)
    refine RO.bind (ro_mapM_getCell rest (fun x hx => hv x (List.mem_cons_of_mem _ hx))) (fun cs hcs => ?_)
    exact RO.pure (by simp [hcs])

/-- `ValidateLeastParams`: read-only, never a panic (Properties/C10 `validate_least_params_total`); `ok` fixes the number of values -/
theorem ro_validateLeastM {s : VM ν} (vals : List Addr) (hv : ∀ v ∈ vals, v < s.heap.size) (pats : List String)
    (hp : ∀ p ∈ pats, (parsePat p).isSome = true)
    (hlen : ∀ vs : List VKind, validateLeast true true vs pats = .ok → vs.length = 2 ∨ vs.length = 3) :
    RO (validateLeastM vals pats) s (fun _ => vals.length = 2 ∨ vals.length = 3) := by
  unfold validateLeastM
  refine RO.bind (ro_mapM_getCell vals hv) (fun cells hcells => ?_)
  have hnp := ZnVerif.Proofs.Validate.validateLeastFrom_guarded (cells.map vkind) pats 0 hp
  cases ho : validateLeast true true (cells.map vkind) pats with
  | ok =>
    refine RO.pure ?_
    have := hlen _ ho
    rw [List.length_map, hcells] at this
    exact this
  | err c => exact RO.rtErr c
  | panic => exact absurd ho hnp

/-- `self.SetProperty(name, v)` with the error dropped -/
theorem post_setPropIgnore {s : VM ν} (hs : HeapOk s.heap) {self v : Addr} (name : String) (ha : self < s.heap.size)
    (hv : v < s.heap.size) : Post Ext s (fun _ _ => True) (setPropIgnore self name v s) := by
  unfold setPropIgnore Model.tryCatch
  have h := post_setProperty name hs ha hv
  rcases hr : setProperty self name v s with ⟨r, s'⟩
  rw [hr] at h
  cases r with
  | ok u => exact ⟨h.1, h.2.1, trivial⟩
  | err e => exact ⟨h.1, h.2, trivial⟩
  | panic => exact h
  | fuel => exact h
  | unmodelled => exact h

theorem post_contentTypeHeader {s : VM ν} (hs : HeapOk s.heap) (ct : String) :
    Post Ext s (fun r s' => r < s'.heap.size) (contentTypeHeader ct s) := by
  unfold contentTypeHeader
  refine Post.bind (post_newStr hs ct).ofPre (fun v s1 hs1 _ hv => ?_)
  refine (post_alloc_lt hs1 (newHashMapCell_ok [("Content-Type", v)] (fun p hp => ?_))).ofPre
  simp at hp
  subst hp
  exact hv

theorem ro_reify : ∀ (n : Nat) {s : VM ν} {a : Nat}, HeapOk s.heap → a < s.heap.size → RO (reify n a) s (fun _ => True) := by
  intro n
  induction n with
  | zero => intro s a _ _; exact RO.fuel
  | succ n ih =>
    intro s a hs ha
    obtain ⟨c, hc⟩ := get_of_lt_size ha
    have hok := hs a c hc
    unfold reify
    refine RO.bind (RO.getCell hc) (fun c' hc' => ?_)
    subst hc'
    cases c' with
    | arr items =>
      exact RO.bind (RO.mapM (P := fun _ _ => True) (fun x hx => ih hs (hok x hx))) (fun _ _ => RO.pure trivial)
    | hm vals order =>
      refine RO.bind (RO.mapM (P := fun _ _ => True) (fun k hk => ?_)) (fun _ _ => RO.pure trivial)
      have hsome := hok.2.1 k hk
      cases hl : lookup k vals with
      | none => rw [hl] at hsome; cases hsome
      | some v => exact RO.bind (ih hs (hok.1 (k, v) (mem_of_lookup hl))) (fun _ _ => RO.pure trivial)
    | _ => exact RO.pure trivial

/-- `ElementToJSONString`: a fresh text or the JSON exception -/
theorem post_elementToJSON (C : Json.NumCodec ν) (n : Nat) {s : VM ν} (hs : HeapOk s.heap) {a : Addr} (ha : a < s.heap.size) :
    Post Ext s (fun r s' => r < s'.heap.size) (elementToJSON C n a s) := by
  unfold elementToJSON
  refine RO.post_bind hs (ro_reify n hs ha) (fun jv _ => ?_)
  unfold Json.elementToJSONString
  cases Json.marshalElement C jv with
  | error e => exact (post_throwException hs _).ofPre
  | ok t => exact (post_newStr hs _).ofPre

theorem post_newObject (n : Nat) {s : VM ν} (hs : HeapOk s.heap) {cv : Addr} (hcv : IsCls s.heap cv) :
    Post Ext s (fun r s' => r < s'.heap.size) (newObject n cv s) := by
  obtain ⟨nm, ctor, props, methods, hc⟩ := hcv
  have hok := hs cv _ hc
  unfold newObject
  refine RO.post_bind hs (RO.getCell hc) (fun c' hc' => ?_)
  subst hc'
  dsimp only
  refine Post.bind (post_mapM (R := Ext) (P := fun (b : String × Addr) s => b.2 < s.heap.size)
    (fun b s s' h e => Nat.lt_of_lt_of_le h e.size) props s hs (fun p hpm s' hs' r' => ?_)) (fun props' s1 hs1 e1 hprops => ?_)
  · exact Post.bind (post_dup n hs' (Nat.lt_of_lt_of_le (hok.1 p hpm) r'.size)).ofPre (fun v s2 hs2 _ hv => Post.pure hs2 hv)
  · have hcls : IsCls s1.heap cv := e1.cls cv ⟨nm, ctor, props, methods, hc⟩
    exact (post_alloc_lt hs1 (c := .obj cv props') ⟨hcls, hprops⟩).ofPre

/-- the body both constructors share: header dictionary, then 头部 and 内容 -/
theorem post_setBody {s : VM ν} (hs : HeapOk s.heap) {self body : Addr} (ct : String) (ha : self < s.heap.size)
    (hb : body < s.heap.size) :
    Post Ext s (fun _ _ => True) ((do
      let hd ← contentTypeHeader ct
      setPropIgnore self "头部" hd
      setPropIgnore self "内容" body : M ν Unit) s) := by
  refine Post.bind (post_contentTypeHeader hs ct) (fun hd s1 hs1 e1 hhd => ?_)
  refine Post.bind (post_setPropIgnore hs1 "头部" (Nat.lt_of_lt_of_le ha e1.size) hhd) (fun _ s2 hs2 e2 _ => ?_)
  exact post_setPropIgnore hs2 "内容" (Nat.lt_of_lt_of_le ha (Nat.le_trans e1.size e2.size))
    (Nat.lt_of_lt_of_le hb (Nat.le_trans e1.size e2.size))

theorem post_jsonBody (C : Json.NumCodec ν) (n : Nat) {s : VM ν} (hs : HeapOk s.heap) {self v : Addr} (ct : String)
    (ha : self < s.heap.size) (hv : v < s.heap.size) :
    Post Ext s (fun _ _ => True) ((do
      let body ← elementToJSON C n v
      let hd ← contentTypeHeader ct
      setPropIgnore self "头部" hd
      setPropIgnore self "内容" body : M ν Unit) s) := by
  refine Post.bind (post_elementToJSON C n hs hv) (fun body s1 hs1 e1 hbody => ?_)
  exact post_setBody hs1 ct (Nat.lt_of_lt_of_le ha e1.size) hbody

/-! ## the two constructors -/

theorem post_requestBody (C : Json.NumCodec ν) (n : Nat) {s : VM ν} (hs : HeapOk s.heap) {self : Addr} (ha : self < s.heap.size)
    (v0 v1 : Addr) {rest : List Addr} (hlen : (v0 :: v1 :: rest).length = 2 ∨ (v0 :: v1 :: rest).length = 3)
    (hv : ∀ v ∈ rest, v < s.heap.size) :
    Post Ext s (fun _ _ => True) (requestBody C n self (v0 :: v1 :: rest) rest s) := by
  unfold requestBody
  match rest, hlen, hv with
  | [], _, _ => rw [if_neg (by simp)]; exact Post.pure hs trivial
  | [v2], _, hv =>
    rw [if_pos (by simp)]
    dsimp only
    have hv2 : v2 < s.heap.size := hv v2 (by simp)
    obtain ⟨c, hc⟩ := get_of_lt_size hv2
    refine RO.post_bind hs (RO.getCell hc) (fun c' hc' => ?_)
    subst hc'
    cases c' with
    | str t => exact post_setBody hs "text/plain" ha hv2
    | hm vals order => exact post_jsonBody C n hs "application/json" ha hv2
    | _ => exact Post.pure hs trivial
  | _ :: _ :: _, hl, _ => simp at hl

theorem post_requestCtor (C : Json.NumCodec ν) (n : Nat) {s : VM ν} (hs : HeapOk s.heap) {self : Addr} (ha : self < s.heap.size)
    {values : List Addr} (hv : ∀ v ∈ values, v < s.heap.size) :
    Post Ext s (fun r s' => r < s'.heap.size) (requestCtor C n self values s) := by
  unfold requestCtor
  refine RO.post_bind hs (ro_validateLeastM values hv requestPatterns (by decide) request_patterns_ok) (fun _ hlen => ?_)
  match values, hlen, hv with
  | [], hl, _ => simp at hl
  | [_], hl, _ => simp at hl
  | v0 :: v1 :: rest, hlen, hv =>
    dsimp only
    refine Post.bind (post_setPropIgnore hs "方法" ha (hv v0 (by simp))) (fun _ s1 hs1 e1 _ => ?_)
    refine Post.bind (post_setPropIgnore hs1 "URL" (Nat.lt_of_lt_of_le ha e1.size)
      (Nat.lt_of_lt_of_le (hv v1 (by simp)) e1.size)) (fun _ s2 hs2 e2 _ => ?_)
    have ha2 : self < s2.heap.size := Nat.lt_of_lt_of_le ha (Nat.le_trans e1.size e2.size)
    refine Post.bind (post_requestBody C n hs2 ha2 v0 v1 hlen
      (fun v hvm => Nat.lt_of_lt_of_le (hv v (by simp [hvm])) (Nat.le_trans e1.size e2.size))) (fun _ s3 hs3 e3 _ => ?_)
    exact Post.pure hs3 (Nat.lt_of_lt_of_le ha2 e3.size)

theorem post_responseBody (C : Json.NumCodec ν) (n : Nat) {s : VM ν} (hs : HeapOk s.heap) {self v1 : Addr} (ha : self < s.heap.size)
    (h1 : v1 < s.heap.size) : Post Ext s (fun _ _ => True) (responseBody C n self v1 s) := by
  unfold responseBody
  obtain ⟨c, hc⟩ := get_of_lt_size h1
  refine RO.post_bind hs (RO.getCell hc) (fun c' hc' => ?_)
  subst hc'
  cases c' with
  | str t => exact post_setBody hs "text/plain" ha h1
  | hm vals order => exact post_jsonBody C n hs "application/json" ha h1
  | arr items => exact post_jsonBody C n hs "application/json" ha h1
  | _ => exact post_jsonBody C n hs "text/plain" ha h1

theorem post_overrideHeaders {s : VM ν} (hs : HeapOk s.heap) {self : Addr} (ha : self < s.heap.size)
    (v0 v1 : Addr) {rest : List Addr} (hlen : (v0 :: v1 :: rest).length = 2 ∨ (v0 :: v1 :: rest).length = 3)
    (hv : ∀ v ∈ rest, v < s.heap.size) :
    Post Ext s (fun _ _ => True) (overrideHeaders self (v0 :: v1 :: rest) rest s) := by
  unfold overrideHeaders
  match rest, hlen, hv with
  | [], _, _ => rw [if_neg (by simp)]; exact Post.pure hs trivial
  | [v2], _, hv => rw [if_pos (by simp)]; exact post_setPropIgnore hs "头部" ha (hv v2 (by simp))
  | _ :: _ :: _, hl, _ => simp at hl

theorem post_responseCtor (C : Json.NumCodec ν) (n : Nat) {s : VM ν} (hs : HeapOk s.heap) {self : Addr} (ha : self < s.heap.size)
    {values : List Addr} (hv : ∀ v ∈ values, v < s.heap.size) :
    Post Ext s (fun r s' => r < s'.heap.size) (responseCtor C n self values s) := by
  unfold responseCtor
  refine RO.post_bind hs (ro_validateLeastM values hv responsePatterns (by decide) response_patterns_ok) (fun _ hlen => ?_)
  match values, hlen, hv with
  | [], hl, _ => simp at hl
  | [_], hl, _ => simp at hl
  | v0 :: v1 :: rest, hlen, hv =>
    dsimp only
    refine Post.bind (post_setPropIgnore hs "状态码" ha (hv v0 (by simp))) (fun _ s1 hs1 e1 _ => ?_)
    have ha1 : self < s1.heap.size := Nat.lt_of_lt_of_le ha e1.size
    refine Post.bind (post_responseBody C n hs1 ha1 (Nat.lt_of_lt_of_le (hv v1 (by simp)) e1.size)) (fun _ s2 hs2 e2 _ => ?_)
    have ha2 : self < s2.heap.size := Nat.lt_of_lt_of_le ha1 e2.size
    refine Post.bind (post_overrideHeaders hs2 ha2 v0 v1 hlen
      (fun v hvm => Nat.lt_of_lt_of_le (hv v (by simp [hvm])) (Nat.le_trans e1.size e2.size))) (fun _ s3 hs3 e3 _ => ?_)
    exact Post.pure hs3 (Nat.lt_of_lt_of_le ha2 e3.size)

end ZnVerif.Proofs.HttpValues
