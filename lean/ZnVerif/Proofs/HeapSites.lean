/-
The copying sites of the evaluator (令 declarations, assignment, loop variables, object construction) and
literal evaluation, stated against the heap vocabulary of Proofs/Heap.lean.
-/
import ZnVerif.Proofs.HeapFrames
set_option linter.unusedSectionVars false
set_option linter.unusedVariables false

namespace ZnVerif.Model

variable {ν : Type} [NumOps ν]

/-! ## names: `vm.FindElement` as a function of the state -/

/-- the address a name denotes: predefined names first, then the current module's scope, innermost symbol first -/
def resolve (nm : String) (s : VM ν) : Option Addr :=
  match lookup nm s.globals with
  | some a => some a
  | none => (getScope s.csModuleID s).bind fun sc => (sc.find nm).map (·.val)

theorem findElement_eq (nm : String) (s : VM ν) :
    findElement nm s = (match resolve nm s with | some a => Res.ok a | none => Res.err (.rt 42), s) := by
  unfold findElement resolve
  simp only [bind, getVM, currentScope]
  cases lookup nm s.globals with
  | some a => rfl
  | none =>
    dsimp only
    cases getScope s.csModuleID s with
    | none => rfl
    | some sc =>
      dsimp only [Option.bind]
      cases hf : sc.find nm <;> rfl

theorem resolve_sameBut {s s' : VM ν} (h : SameBut s s') (nm : String) : resolve nm s' = resolve nm s := by
  unfold SameBut at h
  rw [h]
  rfl

theorem find?_putScope_any (mid : Int) (sc : Scope) : ∀ (l : List (Int × Scope)), l.any (·.1 == mid) = true →
    (l.map fun p => if p.1 == mid then (mid, sc) else p).find? (·.1 == mid) = some (mid, sc) := by
  intro l
  induction l with
  | nil => intro h; simp at h
  | cons p ps ih =>
    intro h
    cases hb : (p.1 == mid) with
    | true =>
      simp only [List.map_cons, List.find?_cons, hb, if_true]
      simp
    | false =>
      have : ps.any (·.1 == mid) = true := by
        rw [List.any_cons, hb, Bool.false_or] at h; exact h
      simp only [List.map_cons, List.find?_cons, hb, Bool.false_eq_true, if_false]
      exact ih this

theorem find?_putScope_none (mid : Int) (sc : Scope) : ∀ (l : List (Int × Scope)), l.any (·.1 == mid) = false →
    (l ++ [(mid, sc)]).find? (·.1 == mid) = some (mid, sc) := by
  intro l
  induction l with
  | nil => intro _; simp
  | cons p ps ih =>
    intro h
    rw [List.any_cons, Bool.or_eq_false_iff] at h
    simp only [List.cons_append, List.find?_cons, h.1]
    exact ih h.2

theorem getScope_putScope (mid : Int) (sc : Scope) (s : VM ν) : getScope mid (putScope mid sc s) = some sc := by
  unfold getScope putScope
  by_cases h : s.scopes.any (·.1 == mid) = true
  · rw [if_pos h]; simp only; rw [find?_putScope_any mid sc _ h]; rfl
  · rw [if_neg h]; simp only; rw [find?_putScope_none mid sc _ (Bool.eq_false_iff.2 h)]; rfl

theorem putScope_sameHeap (mid : Int) (sc : Scope) (s : VM ν) :
    (putScope mid sc s).heap = s.heap ∧ (putScope mid sc s).globals = s.globals ∧
    (putScope mid sc s).csModuleID = s.csModuleID := by
  unfold putScope
  split <;> exact ⟨rfl, rfl, rfl⟩

/-- resolving a name after the current scope was replaced by `sc'` -/
theorem resolve_putScope (nm : String) (sc' : Scope) (s : VM ν) :
    resolve nm (putScope s.csModuleID sc' s) =
      match lookup nm s.globals with
      | some a => some a
      | none => (sc'.find nm).map (·.val) := by
  unfold resolve
  rw [(putScope_sameHeap _ _ _).2.1, (putScope_sameHeap _ _ _).2.2, getScope_putScope]
  rfl

/-- `declareElement` succeeded: the name is not predefined, the current scope got one more symbol on top -/
theorem declareElement_ok_inv {name : String} {v : Addr} {c : Bool} {ext : Option Int} {s s' : VM ν}
    (h : declareElement name v c ext s = (.ok (), s')) :
    ∃ sc, getScope s.csModuleID s = some sc ∧ lookup name s.globals = none ∧
      s' = putScope s.csModuleID { sc with syms := { name, depth := sc.depth, isConst := c, ext, val := v } :: sc.syms } s := by
  unfold declareElement at h
  simp only [bind, currentScope, getVM] at h
  cases hs : getScope s.csModuleID s with
  | none => rw [hs] at h; simp [rtErr, throwE] at h
  | some sc =>
    rw [hs] at h
    simp only at h
    cases hg : lookup name s.globals with
    | some a => rw [hg] at h; simp [rtErr, throwE] at h
    | none =>
      rw [hg] at h
      simp only [Scope.declare] at h
      cases hsc : Scope.declare.scan sc name sc.syms with
      | true => rw [hsc] at h; simp [throwE] at h
      | false =>
        rw [hsc] at h
        simp [putCurrentScope, modifyVM] at h
        exact ⟨sc, rfl, rfl, h.symm⟩
theorem declareElement_heap {name : String} {v : Addr} {c : Bool} {ext : Option Int} {s s' : VM ν}
    (h : declareElement name v c ext s = (.ok (), s')) : s'.heap = s.heap := by
  rcases declareElement_ok_inv h with ⟨sc, _, _, rfl⟩
  exact (putScope_sameHeap _ _ _).1

theorem resolve_declare_self {name : String} {v : Addr} {c : Bool} {ext : Option Int} {s s' : VM ν}
    (h : declareElement name v c ext s = (.ok (), s')) : resolve name s' = some v := by
  rcases declareElement_ok_inv h with ⟨sc, _, hg, rfl⟩
  rw [resolve_putScope, hg]
  simp [Scope.find]

theorem resolve_declare_other {name : String} {v : Addr} {c : Bool} {ext : Option Int} {s s' : VM ν}
    (h : declareElement name v c ext s = (.ok (), s')) {nm : String} (hne : nm ≠ name) : resolve nm s' = resolve nm s := by
  rcases declareElement_ok_inv h with ⟨sc, hs, hg, rfl⟩
  rw [resolve_putScope]
  unfold resolve
  rw [hs]
  cases lookup nm s.globals with
  | some a => rfl
  | none => simp [Scope.find, Ne.symm hne]

theorem set_go_spec (name : String) (v : Addr) : ∀ (syms syms' : List Sym), Scope.set.go name v syms = some (.ok syms') →
    (syms'.find? (·.name == name)).map (·.val) = some v ∧
    ∀ nm, nm ≠ name → (syms'.find? (·.name == nm)).map (·.val) = (syms.find? (·.name == nm)).map (·.val) := by
  intro syms
  induction syms with
  | nil => intro syms' h; simp [Scope.set.go] at h
  | cons sy rest ih =>
    intro syms' h
    simp only [Scope.set.go] at h
    by_cases hn : (sy.name == name) = true
    · rw [if_pos hn] at h
      by_cases hc : sy.isConst = true
      · simp [hc] at h
      · simp [hc] at h
        subst h
        have hn' : sy.name = name := by simpa using hn
        refine ⟨by simp [hn'], fun nm hne => ?_⟩
        have : ¬ sy.name = nm := by rw [hn']; exact Ne.symm hne
        simp [this]
    · rw [if_neg hn] at h
      cases hg : Scope.set.go name v rest with
      | none => rw [hg] at h; simp at h
      | some r =>
        rw [hg] at h
        cases r with
        | error e => simp at h
        | ok rest' =>
          simp at h
          subst h
          rcases ih rest' hg with ⟨q1, q2⟩
          have hn' : ¬ sy.name = name := by simpa using hn
          refine ⟨by simpa [hn'] using q1, fun nm hne => ?_⟩
          by_cases hm : sy.name = nm
          · simp [hm]
          · simpa [hm] using q2 nm hne

theorem setElement_ok_inv {name : String} {v : Addr} {s s' : VM ν} (h : setElement name v s = (.ok (), s')) :
    ∃ sc syms', getScope s.csModuleID s = some sc ∧ Scope.set.go name v sc.syms = some (.ok syms') ∧
      s' = putScope s.csModuleID { sc with syms := syms' } s := by
  unfold setElement at h
  simp only [bind, currentScope] at h
  cases hs : getScope s.csModuleID s with
  | none => rw [hs] at h; simp [rtErr, throwE] at h
  | some sc =>
    rw [hs] at h
    simp only [Scope.set] at h
    cases hg : Scope.set.go name v sc.syms with
    | none => rw [hg] at h; simp [throwE] at h
    | some r =>
      rw [hg] at h
      cases r with
      | error e => simp [throwE] at h
      | ok syms' =>
        simp [putCurrentScope, modifyVM] at h
        exact ⟨sc, syms', rfl, hg, h.symm⟩

theorem setElement_heap {name : String} {v : Addr} {s s' : VM ν} (h : setElement name v s = (.ok (), s')) :
    s'.heap = s.heap := by
  rcases setElement_ok_inv h with ⟨sc, syms', _, _, rfl⟩
  exact (putScope_sameHeap _ _ _).1

theorem resolve_set_self {name : String} {v : Addr} {s s' : VM ν} (h : setElement name v s = (.ok (), s'))
    (hg : lookup name s.globals = none) : resolve name s' = some v := by
  rcases setElement_ok_inv h with ⟨sc, syms', _, hgo, rfl⟩
  rw [resolve_putScope, hg]
  exact (set_go_spec name v _ _ hgo).1

theorem resolve_set_other {name : String} {v : Addr} {s s' : VM ν} (h : setElement name v s = (.ok (), s'))
    {nm : String} (hne : nm ≠ name) : resolve nm s' = resolve nm s := by
  rcases setElement_ok_inv h with ⟨sc, syms', hs, hgo, rfl⟩
  rw [resolve_putScope]
  unfold resolve
  rw [hs]
  cases lookup nm s.globals with
  | some a => rfl
  | none => exact (set_go_spec name v _ _ hgo).2 nm hne

/-- a successful `matchIDName` answers the literal itself and does not touch the state -/
theorem matchIDName_ok_inv {lit nm : String} {s s' : VM ν} (h : matchIDName lit s = (.ok nm, s')) : nm = lit ∧ s' = s := by
  unfold matchIDName matchIDType at h
  simp only [bind] at h
  cases hp : tryParseNumber (strCps lit) <;> rw [hp] at h <;> simp [throwE, pure] at h
  exact ⟨h.1.symm, h.2.symm⟩

theorem pure_ok_inv {α} {a b : α} {s s' : VM ν} (h : (pure a : M ν α) s = (.ok b, s')) : b = a ∧ s' = s := by
  simp only [pure] at h
  injection h with h1 h2
  injection h1 with h1
  exact ⟨h1.symm, h2.symm⟩

theorem Disj.ext {h h' : Array (Cell ν)} (e : Ext h h') {a b : Addr} (va : Valid h a) (vb : Valid h b) (d : Disj h a b) :
    Disj h' a b := (Sep.grow ⟨va, vb, d⟩ e).disj

/-! ## 令: the declaration chain -/

/-- one step of the `foldlM` of `evalStmt … (.varDecl …)`: the next name gets a duplicate of the previous value -/
def declStep (n : Nat) (isConst : Bool) (cur : Addr) (v : Ident) : M ν Addr := do
  let name ← matchIDName v.lit
  let cur' ← dup n cur
  declareElement name cur' isConst
  pure cur'

/-- one `names 为 expr` group of a 令 statement -/
def declPair (n : Nat) (p : Nat × List Ident × Expr) : M ν Unit :=
  if p.1 == 1 || p.1 == 3 then do
    let obj ← evalExpr n p.2.2
    let _ ← p.2.1.foldlM (declStep n (p.1 == 3)) obj
  else pure ()

/-- the model's 令 statement, with the two loops named -/
theorem evalStmt_varDecl (n ln : Nat) (pairs : List (Nat × List Ident × Expr)) :
    evalStmt (ν := ν) (n+1) (.varDecl ln pairs) = (do
      setTopFrame fun fr => { fr with line := ln, started := true }
      pairs.forM (declPair n)
      newNull) := by
  simp only [evalStmt]
  rfl

/-- what a run of the declaration chain established: one address per name, each reading as `t`, valid, with every
copied-kind cell allocated at or after `old`, pairwise without a common copied-kind cell, and bound to its name -/
structure Copies (n : Nat) (old : Nat) (t : Tree ν) (names : List String) (bs : List Addr) (s' : VM ν) : Prop where
  len : bs.length = names.length
  each : ∀ b ∈ bs, content n s'.heap b = some t ∧ Valid s'.heap b ∧ Fresh old s'.heap b
  apart : bs.Pairwise (Disj s'.heap)
  bound : names.Nodup → ∀ p ∈ names.zip bs, resolve p.1 s' = some p.2

theorem Copies.grow {n old : Nat} {t : Tree ν} {names : List String} {bs : List Addr} {s s' : VM ν}
    (c : Copies n old t names bs s) (hs : SameBut s s') (e : Ext s.heap s'.heap) : Copies n old t names bs s' := by
  refine ⟨c.len, fun b hb => ?_, ?_, fun hnd p hp => ?_⟩
  · rcases c.each b hb with ⟨h1, h2, h3⟩
    exact ⟨content_ext e n b t h1, h2.ext e, h3.ext e h2⟩
  · have := c.apart
    have hall : ∀ b ∈ bs, Valid s.heap b := fun b hb => (c.each b hb).2.1
    clear c
    induction this with
    | nil => exact .nil
    | @cons b bs' hb _ ih =>
      refine .cons (fun b' hb' => ?_) (ih (fun x hx => hall x (by simp [hx])))
      exact Disj.ext e (hall b (by simp)) (hall b' (by simp [hb'])) (hb b' hb')
  · rw [resolve_sameBut hs]; exact c.bound hnd p hp

theorem declChain_spec (n : Nat) (c : Bool) :
    ∀ (vars : List Ident) (cur : Addr) (s s' : VM ν) (t : Tree ν) (last : Addr),
      content n s.heap cur = some t →
      vars.foldlM (declStep n c) cur s = (.ok last, s') →
      ∃ bs, Ext s.heap s'.heap ∧ Copies n s.heap.size t (vars.map (·.lit)) bs s' ∧
        (∀ nm, nm ∉ vars.map (·.lit) → resolve nm s' = resolve nm s) ∧ content n s'.heap last = some t := by
  intro vars
  induction vars with
  | nil =>
    intro cur s s' t last ht h
    rw [List.foldlM_nil] at h
    rcases pure_ok_inv h with ⟨rfl, rfl⟩
    exact ⟨[], Ext.refl _, ⟨rfl, by simp, .nil, by simp⟩, fun _ _ => rfl, ht⟩
  | cons v vs ih =>
    intro cur s s' t last ht h
    rw [List.foldlM_cons] at h
    rcases bind_ok_inv _ _ _ _ _ h with ⟨b, s2, hstep, hrest⟩
    unfold declStep at hstep
    rcases bind_ok_inv _ _ _ _ _ hstep with ⟨name, s0, hname, hs1⟩
    rcases matchIDName_ok_inv hname with ⟨e1, e2⟩
    subst e1
    rw [e2] at hs1
    rcases bind_ok_inv _ _ _ _ _ hs1 with ⟨b', s1, hdup, hs2⟩
    rcases bind_ok_inv _ _ _ _ _ hs2 with ⟨u, s2', hdecl, hs3⟩
    rcases pure_ok_inv hs3 with ⟨e3, e4⟩
    subst e3; subst e4
    have hp := dup_post ht hdup
    have hheap : s2.heap = s1.heap := declareElement_heap hdecl
    have hcb : content n s2.heap b = some t := by rw [hheap]; exact hp.cont
    rcases ih b s2 s' t last hcb hrest with ⟨bs, hext, hc, hoth, hlast⟩
    have hvb : Valid s2.heap b := by rw [hheap]; exact hp.valid
    have e02 : Ext s.heap s2.heap := by rw [hheap]; exact hp.ext
    refine ⟨b :: bs, e02.trans hext, ⟨by simp [hc.len], ?_, ?_, ?_⟩, ?_, hlast⟩
    · intro x hx
      rcases List.mem_cons.1 hx with rfl | hx
      · refine ⟨content_ext hext n _ t hcb, hvb.ext hext, ?_⟩
        have : Fresh s.heap.size s2.heap x := by rw [hheap]; exact hp.fresh
        exact this.ext hext hvb
      · rcases hc.each x hx with ⟨h1, h2, h3⟩
        exact ⟨h1, h2, h3.mono e02.1⟩
    · refine .cons (fun b' hb' => ?_) hc.apart
      rcases hc.each b' hb' with ⟨_, h2, h3⟩
      exact (sep_child_of_fresh hext hvb h2 h3).2
    · intro hnd p hp'
      simp only [List.map_cons, List.zip_cons_cons] at hp' hnd
      rw [List.nodup_cons] at hnd
      rcases List.mem_cons.1 hp' with rfl | hp'
      · show resolve v.lit s' = some b
        rw [hoth v.lit hnd.1]
        exact resolve_declare_self hdecl
      · exact hc.bound hnd.2 p hp'
    · intro nm hnm
      simp only [List.map_cons, List.mem_cons, not_or] at hnm
      rw [hoth nm hnm.2, resolve_declare_other hdecl hnm.1, resolve_sameBut hp.same]

/-- **令 stores copies.**  After `令 x₁、…、x_k 为 e` (or 恒为) succeeded, where `e` evaluated to a readable value `t` at
`obj`: there is one address per name, all reading as `t`; every number / text / boolean / list / dictionary cell below any
of them was allocated after `e` was evaluated; no two of them — and none of them and `obj` — have such a cell in common;
and (for distinct names) each name denotes its own address. -/
theorem varDecl_spec (n ln ty : Nat) (vars : List Ident) (e : Expr) (s s' : VM ν) (r : Addr)
    (hty : ty = 1 ∨ ty = 3)
    (h : evalStmt (n+1) (.varDecl ln [(ty, vars, e)]) s = (.ok r, s')) :
    ∃ s0 obj s1, setTopFrame (fun fr => { fr with line := ln, started := true }) s = (.ok (), s0) ∧ evalExpr n e s0 = (.ok obj, s1) ∧
      ∀ t, content n s1.heap obj = some t →
        ∃ bs, Ext s1.heap s'.heap ∧ Copies n s1.heap.size t (vars.map (·.lit)) bs s' ∧ ∀ b ∈ bs, Disj s'.heap obj b := by
  rw [evalStmt_varDecl] at h
  rcases bind_ok_inv _ _ _ _ _ h with ⟨u, s0, h0, h1⟩
  rcases bind_ok_inv _ _ _ _ _ h1 with ⟨u', s2, hfor, hnull⟩
  simp only [List.forM] at hfor
  rcases bind_ok_inv _ _ _ _ _ hfor with ⟨u'', s2', hpair, hp0⟩
  rcases pure_ok_inv hp0 with ⟨_, e1⟩
  subst e1
  have hb : ((ty, vars, e).1 == 1 || (ty, vars, e).1 == 3) = true := by rcases hty with rfl | rfl <;> rfl
  unfold declPair at hpair
  rw [if_pos hb] at hpair
  rcases bind_ok_inv _ _ _ _ _ hpair with ⟨obj, s1, hobj, hpair1⟩
  rcases bind_ok_inv _ _ _ _ _ hpair1 with ⟨last, s2'', hchain, hp1⟩
  rcases pure_ok_inv hp1 with ⟨_, e2⟩
  subst e2
  have hg : Grow s2 s' := (pres_newNull (R := Grow)).run _ _ _ hnull
  refine ⟨s0, obj, s1, h0, hobj, ?_⟩
  intro t ht
  rcases declChain_spec n _ vars obj s1 s2 t last ht hchain with ⟨bs, hext, hc, _, _⟩
  refine ⟨bs, hext.trans hg.2, hc.grow hg.1 hg.2, fun b hb => ?_⟩
  rcases (hc.grow hg.1 hg.2).each b hb with ⟨_, h2, h3⟩
  exact (sep_child_of_fresh (hext.trans hg.2) (content_valid n ht) h2 h3).2

/-! ## assignment -/

theorem getCell_ok_inv {a : Addr} {c : Cell ν} {s s' : VM ν} (h : getCell a s = (.ok c, s')) : s.heap[a]? = some c ∧ s' = s := by
  unfold getCell at h
  cases hc : s.heap[a]? with
  | none => rw [hc] at h; simp at h
  | some c0 => rw [hc] at h; simp at h; exact ⟨by rw [h.1], h.2.symm⟩

theorem setCell_ok_inv {a : Addr} {c : Cell ν} {s s' : VM ν} (h : setCell a c s = (.ok (), s')) :
    a < s.heap.size ∧ s' = { s with heap := s.heap.set! a c } := by
  unfold setCell at h
  by_cases hlt : a < s.heap.size
  · rw [if_pos hlt] at h; injection h with _ h2; exact ⟨hlt, h2.symm⟩
  · rw [if_neg hlt] at h; injection h with h1 _; cases h1

/-- the model's assignment expression -/
theorem evalExpr_assign (n ln : Nat) (target rhs : Expr) :
    evalExpr (ν := ν) (n+1) (.assign ln target rhs) = (do
      let vr ← evalExpr n rhs
      let vr ← dup n vr
      match target with
      | .id i => do
        let name ← matchIDName i.lit
        setElement name vr
        pure vr
      | .member _ _ _ mt _ _ =>
        if mt == 1 || mt == 2 then do
          let iv ← memberIV n target
          reduceLHS iv vr
          pure vr
        else rtErr 72
      | _ => rtErr 70) := by
  simp only [evalExpr]
  rfl

/-- `x = e`: the value of the expression is the duplicate `r` of what `e` evaluated to, and `x` now denotes `r` -/
theorem assign_id_spec (n ln : Nat) (i : Ident) (rhs : Expr) (s s' : VM ν) (r : Addr)
    (h : evalExpr (n+1) (.assign ln (.id i) rhs) s = (.ok r, s')) :
    ∃ vr s1 s2, evalExpr n rhs s = (.ok vr, s1) ∧ dup n vr s1 = (.ok r, s2) ∧ s'.heap = s2.heap ∧
      (lookup i.lit s2.globals = none → resolve i.lit s' = some r) ∧
      (∀ nm, nm ≠ i.lit → resolve nm s' = resolve nm s2) := by
  rw [evalExpr_assign] at h
  rcases bind_ok_inv _ _ _ _ _ h with ⟨vr, s1, hrhs, h1⟩
  rcases bind_ok_inv _ _ _ _ _ h1 with ⟨r', s2, hdup, h2⟩
  simp only at h2
  rcases bind_ok_inv _ _ _ _ _ h2 with ⟨name, s3, hname, h3⟩
  rcases matchIDName_ok_inv hname with ⟨e1, e2⟩
  subst e1
  rw [e2] at h3
  rcases bind_ok_inv _ _ _ _ _ h3 with ⟨u, s4, hset, h4⟩
  rcases pure_ok_inv h4 with ⟨e3, e4⟩
  subst e3
  rw [e4]
  exact ⟨vr, s1, s2, hrhs, hdup, setElement_heap hset, fun hg => resolve_set_self hset hg,
    fun nm hne => resolve_set_other hset hne⟩

/-- `c#i = e` / `c#{k} = e` / `c 之 p = e`: what is handed to the store (`reduceLHS`) is the duplicate `r` -/
theorem assign_member_spec (n ln l rt mt : Nat) (root : Expr) (mid : Option Ident) (idx rhs : Expr) (s s' : VM ν) (r : Addr)
    (h : evalExpr (n+1) (.assign ln (.member l rt root mt mid idx) rhs) s = (.ok r, s')) :
    ∃ vr s1 s2 iv s3, evalExpr n rhs s = (.ok vr, s1) ∧ dup n vr s1 = (.ok r, s2) ∧
      memberIV n (.member l rt root mt mid idx) s2 = (.ok iv, s3) ∧ reduceLHS iv r s3 = (.ok (), s') := by
  rw [evalExpr_assign] at h
  rcases bind_ok_inv _ _ _ _ _ h with ⟨vr, s1, hrhs, h1⟩
  rcases bind_ok_inv _ _ _ _ _ h1 with ⟨r', s2, hdup, h2⟩
  simp only at h2
  by_cases hmt : (mt == 1 || mt == 2) = true
  · rw [if_pos hmt] at h2
    rcases bind_ok_inv _ _ _ _ _ h2 with ⟨iv, s3, hiv, h3⟩
    rcases bind_ok_inv _ _ _ _ _ h3 with ⟨u, s4, hred, h4⟩
    rcases pure_ok_inv h4 with ⟨e3, e4⟩
    subst e3
    rw [e4]
    exact ⟨vr, s1, s2, iv, s3, hrhs, hdup, hiv, hred⟩
  · rw [if_neg hmt] at h2
    simp [rtErr, throwE] at h2

/-- element store: the list cell gets exactly the given address at position `idx` (1-based) -/
theorem reduceLHS_arr_spec (root : Addr) (nm : String) (idx : Int) (v : Addr) (s s' : VM ν)
    (h : reduceLHS (1, root, nm, idx) v s = (.ok (), s')) :
    ∃ items, s.heap[root]? = some (.arr items) ∧ ¬ (idx - 1 < 0 ∨ idx - 1 ≥ items.length) ∧
      s' = { s with heap := s.heap.set! root (.arr (items.set (idx - 1).toNat v)) } := by
  simp only [reduceLHS] at h
  rw [if_pos (by rfl)] at h
  rcases bind_ok_inv _ _ _ _ _ h with ⟨c, s1, hc, h1⟩
  rcases getCell_ok_inv hc with ⟨hc', e⟩
  rw [e] at h1
  cases c <;> simp only [rtErr, throwE] at h1 <;> try (injection h1 with h1 _; cases h1)
  rename_i items
  by_cases hb : (idx - 1 < 0 ∨ idx - 1 ≥ items.length)
  · rw [if_pos hb] at h1; injection h1 with h1 _; cases h1
  · rw [if_neg hb] at h1
    exact ⟨items, hc', hb, (setCell_ok_inv h1).2⟩

/-- key store: the dictionary cell gets exactly the given address under the key (HashMap.AppendKVPair) -/
theorem reduceLHS_hm_spec (root : Addr) (key : String) (idx : Int) (v : Addr) (s s' : VM ν)
    (h : reduceLHS (2, root, key, idx) v s = (.ok (), s')) :
    ∃ vals order, s.heap[root]? = some (.hm vals order) ∧
      s' = { s with heap := s.heap.set! root (.hm (hmAppend vals order key v).1 (hmAppend vals order key v).2) } := by
  simp only [reduceLHS] at h
  rw [if_neg (by decide), if_pos (by rfl)] at h
  rcases bind_ok_inv _ _ _ _ _ h with ⟨c, s1, hc, h1⟩
  rcases getCell_ok_inv hc with ⟨hc', e⟩
  rw [e] at h1
  cases c <;> simp only [rtErr, throwE] at h1 <;> try (injection h1 with h1 _; cases h1)
  rename_i vals order
  exact ⟨vals, order, hc', (setCell_ok_inv h1).2⟩

/-! ## loop variables -/

/-- what the loop does with the outcome of one pass (`true` = stop) -/
def iterOutcome (r : Res Unit) : M ν Bool :=
  match r with
  | .err .sigContinue => pure false
  | .err .sigBreak => pure true
  | .ok _ => do
    match ← getReturnValue with
    | some _ => pure true
    | none => pure false
  | .err e => throwE e
  | .panic => goPanic
  | .fuel => outOfFuel
  | .unmodelled => notModelled

/-- one pass of `以 x 遍历 …` -/
def iterPass1 (n : Nat) (vn : String) (body : Option (List Stmt)) (v : Addr) : M ν Bool :=
  tryCatch (do
    let b ← dup n v
    setElement vn b
    let _ ← evalPureStmtBlock n body
    pure ()) iterOutcome

theorem evalStmt_iterate1 (n ln : Nat) (e : Expr) (x : Ident) (body : Option (List Stmt)) :
    evalStmt (ν := ν) (n+1) (.iterate ln e [x] body) = (do
      setTopFrame fun fr => { fr with line := ln, started := true }
      withScope do
        let target ← evalExpr n e
        let vn ← matchIDName x.lit
        let nl ← newNull
        declareElement vn nl false
        match ← getCell target with
        | .arr items =>
          untilIdxM (fun i v => do
            let idx ← newNum (NumOps.ofInt (i + 1))
            iterPass1 n vn body v) 0 items
        | .hm _ order =>
          untilM (fun k => do
            match ← getCell target with
            | .hm vals _ =>
              match lookup k vals with
              | some v => do
                let ks ← newStr k
                iterPass1 n vn body v
              | none => pure false
            | _ => goPanic) order
        | _ => rtErr 80
      newNull) := by
  simp only [evalStmt]
  rfl

/-- one pass of `以 k、x 遍历 …` -/
def iterPass2 (n : Nat) (kn vn : String) (body : Option (List Stmt)) (key v : Addr) : M ν Bool :=
  tryCatch (do
    let b ← dup n v
    setElement kn key
    setElement vn b
    let _ ← evalPureStmtBlock n body
    pure ()) iterOutcome

theorem evalStmt_iterate2 (n ln : Nat) (e : Expr) (k x : Ident) (body : Option (List Stmt)) :
    evalStmt (ν := ν) (n+1) (.iterate ln e [k, x] body) = (do
      setTopFrame fun fr => { fr with line := ln, started := true }
      withScope do
        let target ← evalExpr n e
        let kn ← matchIDName k.lit
        let vn ← matchIDName x.lit
        let n1 ← newNull
        declareElement kn n1 false
        let n2 ← newNull
        declareElement vn n2 false
        match ← getCell target with
        | .arr items =>
          untilIdxM (fun i v => do
            let idx ← newNum (NumOps.ofInt (i + 1))
            iterPass2 n kn vn body idx v) 0 items
        | .hm _ order =>
          untilM (fun k => do
            match ← getCell target with
            | .hm vals _ =>
              match lookup k vals with
              | some v => do
                let ks ← newStr k
                iterPass2 n kn vn body ks v
              | none => pure false
            | _ => goPanic) order
        | _ => rtErr 80
      newNull) := by
  simp only [evalStmt]
  rfl

/-- a pass on a readable element `v`: the loop variable is set to a separate duplicate `b` before the body runs -/
theorem iterPass1_spec (n : Nat) (vn : String) (body : Option (List Stmt)) (v : Addr) (s : VM ν) (t : Tree ν)
    (ht : content n s.heap v = some t) :
    ∃ b s1, dup n v s = (.ok b, s1) ∧ DupPost n s t b s1 ∧
      iterPass1 n vn body v s = tryCatch (do
        setElement vn b
        let _ ← evalPureStmtBlock n body
        pure ()) iterOutcome s1 := by
  rcases dup_spec n v s t ht with ⟨b, s1, hd, hp⟩
  refine ⟨b, s1, hd, hp, ?_⟩
  simp only [iterPass1, tryCatch, bind, hd]

theorem iterPass2_spec (n : Nat) (kn vn : String) (body : Option (List Stmt)) (key v : Addr) (s : VM ν) (t : Tree ν)
    (ht : content n s.heap v = some t) :
    ∃ b s1, dup n v s = (.ok b, s1) ∧ DupPost n s t b s1 ∧
      iterPass2 n kn vn body key v s = tryCatch (do
        setElement kn key
        setElement vn b
        let _ ← evalPureStmtBlock n body
        pure ()) iterOutcome s1 := by
  rcases dup_spec n v s t ht with ⟨b, s1, hd, hp⟩
  refine ⟨b, s1, hd, hp, ?_⟩
  simp only [iterPass2, tryCatch, bind, hd]

/-! ## object construction -/

/-- what `construct` does after the instance cell exists -/
def constructTail (n : Nat) (ctor : Ctor) (params : List Addr) (inst : Addr) : M ν Addr :=
  match ctor with
  | .default => pure inst
  | .exception => do
    validateExact params ["string"]
    match params with
    | [m] =>
      match ← getCell m with
      | .str msg => alloc (.exc msg)
      | _ => goPanic
    | _ => goPanic
  | .user mid exec => do
    pushFrame { moduleId := mid, callType := 2, this := some inst }
    let _ ← evalExecBlock n exec params
    popFrame
    pure inst

theorem construct_eq (n : Nat) (cv : Addr) (params : List Addr) (s : VM ν) (nm : String) (ctor : Ctor)
    (props meths : List (String × Addr)) (hc : s.heap[cv]? = some (.cls nm ctor props meths)) :
    construct (n+1) cv params s = ((do
      let props' ← props.mapM fun (p : String × Addr) => do let v ← dup n p.2; pure (p.1, v)
      let inst ← alloc (.obj cv props')
      constructTail n ctor params inst) : M ν Addr) s := by
  simp only [construct, bind, getCell, hc]
  rfl

theorem pairs_mapM_ok (F : Addr → M ν Addr) : ∀ (props : List (String × Addr)) (s s' : VM ν) (vs : List Addr),
    List.mapM F (props.map Prod.snd) s = (.ok vs, s') →
    List.mapM (m := M ν) (fun (p : String × Addr) => do let v ← F p.2; pure (p.1, v)) props s = (Res.ok ((props.map Prod.fst).zip vs), s') := by
  intro props
  induction props with
  | nil => intro s s' vs h; simp [pure] at h ⊢; exact h.2
  | cons p ps ih =>
    intro s s' vs h
    rcases mapM_cons_inv F _ _ _ _ _ h with ⟨b, bs, s1, h1, h2, rfl⟩
    refine mapM_cons_ok _ _ _ _ s1 _ _ _ ?_ (ih s1 s' bs h2)
    simp [bind, h1, pure]

/-- **`新建` copies the defaults.**  Every default property value is duplicated: the new object's property values read
like the type's defaults, and every copied-kind cell below them is freshly allocated (so no earlier object of the
type, and not the type itself, has such a cell in common with the new object). -/
theorem construct_spec (n : Nat) (cv : Addr) (params : List Addr) (s : VM ν) (nm : String) (ctor : Ctor)
    (props meths : List (String × Addr)) (hc : s.heap[cv]? = some (.cls nm ctor props meths))
    (ts : List (Tree ν)) (hts : (props.map Prod.snd).mapM (content n s.heap) = some ts) :
    ∃ vs s1, Grow s s1 ∧ vs.mapM (content n s1.heap) = some ts ∧
      (∀ v ∈ vs, Valid s1.heap v ∧ Fresh s.heap.size s1.heap v) ∧
      construct (n+1) cv params s =
        constructTail n ctor params s1.heap.size { s1 with heap := s1.heap.push (.obj cv ((props.map Prod.fst).zip vs)) } := by
  rcases dup_list n (dup_spec n) (props.map Prod.snd) s ts hts with ⟨vs, s1, hmap, hsame, hext, hcont, hall⟩
  refine ⟨vs, s1, ⟨hsame, hext⟩, hcont, hall, ?_⟩
  rw [construct_eq n cv params s nm ctor props meths hc]
  have := pairs_mapM_ok (dup n) props s s1 vs hmap
  simp only [bind] at this ⊢
  erw [this]
  rfl

/-! ## property writes on objects -/

theorem lookup_assocSet_self {β} (k : String) (v : β) : ∀ (l : List (String × β)), lookup k (assocSet k v l) = some v := by
  intro l
  induction l with
  | nil => simp [assocSet, lookup]
  | cons p ps ih =>
    rcases p with ⟨k', v'⟩
    by_cases hk : k = k'
    · simp [assocSet, lookup, hk]
    · simp [assocSet, lookup, hk, ih]

/-- a successful property write replaces the object's cell by the same object with the property set -/
theorem setProperty_obj_spec (o : Addr) (name : String) (v : Addr) (s s' : VM ν) (cls : Addr) (props : List (String × Addr))
    (hc : s.heap[o]? = some (.obj cls props)) (h : setProperty o name v s = (.ok (), s')) :
    s' = { s with heap := s.heap.set! o (.obj cls (assocSet name v props)) } := by
  unfold setProperty at h
  simp only [bind, getCell, hc] at h
  cases hl : lookup name props with
  | none => rw [hl] at h; simp [rtErr, throwE] at h
  | some old => rw [hl] at h; exact (setCell_ok_inv h).2

/-- reading a property of an object cell -/
theorem getProperty_obj (n : Nat) (o : Addr) (name : String) (v : Addr) (s : VM ν) (cls : Addr) (props : List (String × Addr))
    (hc : s.heap[o]? = some (.obj cls props)) (hn : name ≠ "自身") (hl : lookup name props = some v) :
    getProperty n o name s = (.ok v, s) := by
  unfold getProperty
  simp only [bind, getCell, hc]
  first
    | (rw [hl]; rfl)
    | (split
       · exact absurd rfl hn
       · rw [hl]; rfl)

/-! ## the default values of a type declaration (`compileClass`) -/

/-- one `其 ‹名› 为 ‹值›` line of a type declaration (verbatim from `evalClassDecl`): the value is evaluated, and the type
keeps a copy of it (`ref.DefineProperty(propID, value.DuplicateValue(element))`) -/
def propDefault (n : Nat) (p : Option Ident × Expr) : M ν (String × Addr) :=
        match p.1 with
        | some pid => do
          let v ← evalExpr n p.2
          let v' ← dup n v
          pure (pid.lit, v')
        | none => goPanic

/-- what `evalClassDecl` does with the evaluated defaults (verbatim) -/
def classTail (cm : Option (Nat × Module)) (cname : String) (methods : List Stmt) (propVals : List (String × Addr)) :
    M ν Unit := do
      let propMap := propVals.foldl (fun acc kv => assocSet kv.1 kv.2 acc) []
      let meths ← methods.mapM fun m =>
        match m with
        | .funcDecl _ (some mn) _ exec => do let f ← alloc (.fn (.user exec)); pure (mn.lit, f)
        | _ => goPanic
      let methMap := meths.foldl (fun acc kv => assocSet kv.1 kv.2 acc) []
      let cv ← alloc (.cls cname .default propMap methMap)
      declareElement cname cv true
      match cm with
      | some (i, _) => addExport i cname cv
      | none => goPanic

theorem evalClassDecl_eq (n ln : Nat) (name : Option Ident) (props : List (Option Ident × Expr)) (methods getters : List Stmt) :
    evalClassDecl (ν := ν) (n+1) (.classDecl ln name props methods getters) = (do
      let cm ← currentModule
      let cname ← matchIDNameOpt name
      let propVals ← props.mapM (propDefault n)
      classTail cm cname methods propVals) := by
  simp only [evalClassDecl]
  rfl

end ZnVerif.Model
