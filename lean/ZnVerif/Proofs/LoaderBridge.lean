/-
Translation of the source fragment of the abstract loader (`Model/Modules.lean`: imports, markers, definitions, uses,
assignments) into syntax trees of the evaluator model, and the observables the two loaders are compared on.
-/
import ZnVerif.Model.Modules
import ZnVerif.Model.Interp

namespace ZnVerif.Proofs.LoaderBridge
open ZnVerif.Model

def nameStr (n : Modules.Name) : String := String.ofList (n.map Char.ofNat)

/-- `目/丙.zn` -/
def pathStr (p : Modules.Path) : String := joinWith "/" (p.map nameStr)

def ident (n : Modules.Name) : Ident := ⟨0, nameStr n⟩

def toImport (i : Modules.Imp) : Import :=
  { line := 0, libType := 2, name := some (nameStr i.name), items := i.items.map ident }

def toUse : Modules.Use → Stmt
  | .call n => .expr (.call 0 (some (ident n)) [] none)
  | .new n => .expr (.new 0 (some (ident n)) [])

/-- `（显示：“k”）` -/
def showMark (k : Nat) : Stmt := .expr (.call 0 (some ⟨0, "显示"⟩) [.str 0 (toString k)] none)

def defBody (d : Modules.Def) : Option ExecBlock := some (.mk [] (some (showMark d.mark :: d.uses.map toUse)) [])

def toStmts : Modules.Item → List Stmt
  | .marker k => [showMark k]
  | .use u => [toUse u]
  | .assign n => [.expr (.assign 0 (.id (ident n)) (.str 0 "1"))]
  | .defn d =>
    match d.kind with
    | .method => [.funcDecl 0 (some (ident d.name)) 1 (defBody d)]
    | .type => [.classDecl 0 (some (ident d.name)) [] [] [], .funcDecl 0 (some (ident d.name)) 3 (defBody d)]

/-- a module without statements has no exec block (`program.ExecBlock == nil`) -/
def toProgram (src : Modules.ModuleSrc) : Program :=
  { imports := src.imports.map toImport,
    exec := match src.body with
      | [] => none
      | items => some (.mk [] (some (items.flatMap toStmts)) []) }

def toFileTable (files : Modules.Files) : FileTable := files.map fun f => (pathStr f.1, toProgram f.2)
def toLibTable (libs : Modules.Libs) : LibTable := libs.map fun l => (nameStr l.1, l.2.map nameStr)

/-! observables -/

/-- final error code of the abstract loader (`none` = the run completed; method errors are displayed with code 0) -/
def absCode (o : Modules.Outcome) : Option (Option Nat) :=
  match o.err with
  | none => some none
  | some (.code n) => some (some n)
  | some _ => none            -- panic / fuel / unsupported: outside the comparison

variable {ν : Type} [NumOps ν]

def interpCode (r : Res Addr) : Option (Option Nat) :=
  match r with
  | .ok _ => some none
  | .err (.rt n) => some (some n)
  | .err _ => some (some 0)
  | _ => none

/-- modules in allocation order (= order in which their program sections were entered) -/
def absModules (o : Modules.Outcome) : List String := o.vm.modules.map fun m => nameStr m.name
def interpModules (s : VM ν) : List String := s.modules.toList.map (·.name)

/-- displayed markers -/
def absTrace (o : Modules.Outcome) : List String := o.trace.map toString
def interpTrace (s : VM ν) : List String := s.out.reverse

end ZnVerif.Proofs.LoaderBridge
