/-
Helper lemmas for C15, collected:
  ModulesDfs    the colour DFS decides cycles (sound, complete, terminating)
  ModulesBasic  association lists, frame properties of body execution
  ModulesLoad   loader invariants: import stack + closed modules are topologically sorted; graph ⊆ static imports
  ModulesPath   finder = resolve; static relation in model terms ↔ spec terms
  ModulesFuel   the loader never exhausts its fuel
  ModulesScope  scope discipline: calls restore every scope; effects of the declaring primitives
  ModulesEnv    what the loader leaves in every module's scope (imports, own exports)
  ModulesView   reading those scopes: which names resolve to what
  ModulesFile   names ↔ files: plain path components, name ↦ path injective (repaired finder), every FILE's body at most once
-/
import ZnVerif.Proofs.ModulesDfs
import ZnVerif.Proofs.ModulesBasic
import ZnVerif.Proofs.ModulesLoad
import ZnVerif.Proofs.ModulesPath
import ZnVerif.Proofs.ModulesFuel
import ZnVerif.Proofs.ModulesScope
import ZnVerif.Proofs.ModulesEnv
import ZnVerif.Proofs.ModulesView
import ZnVerif.Proofs.ModulesFile
