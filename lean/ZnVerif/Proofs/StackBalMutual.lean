/-
Call-stack balance of the evaluator model, part 3: the induction on fuel over the mutual block.
`allBal n` : every expression / call / constructor / method body at fuel `n` is `BalNS`, every statement and block is
`Bal`, and `handleException` is balanced relative to the stack of the protected body's entry (`HSpec`).
-/
import ZnVerif.Proofs.StackBalRules
set_option linter.unusedSectionVars false
set_option linter.unusedSimpArgs false
set_option linter.unusedVariables false

namespace ZnVerif.Proofs.StackBal
open ZnVerif.Model ZnVerif.Proofs.Calls

variable {ν : Type} [NumOps ν]

/-- outcome `o` of something started (directly or after failed calls) above the stack `st0`: frames only added above
`st0`; a normal end leaves `st0` (up to `line` / `ret`); never a loop signal if `ns` -/
def PostRel {β} (st0 : List Frame) (o : Res β × VM ν) : Prop :=
  Ext st0 o.2.stack ∧ (resIsOk o.1 = true → SameStack st0 o.2.stack)

/-- `handleException` relative to the protected body's entry stack `st0` (`blockDepth = st0.length`), started from a
state that has the frames of failed calls above `st0`: frames only above `st0`, and a handled exception ends with
exactly `st0` -/
def HSpec (n : Nat) : Prop :=
  ∀ (bm : Int) (bd : Nat) (catches : List (Option Ident × Option (List Stmt))) (e : Err) (st0 : List Frame)
    (s : VM ν), Ext st0 s.stack → st0.length = bd →
    PostRel st0 (handleException n bm bd catches e s) ∧ (CsInv s → CsInv (handleException n bm bd catches e s).2)

structure AllBal (n : Nat) : Prop where
  evalExpr : ∀ e, BalNS (evalExpr (ν := ν) n e)
  memberIV : ∀ e, BalNS (memberIV (ν := ν) n e)
  execFunction : ∀ f t ps, BalNS (execFunction (ν := ν) n f t ps)
  execDirectFunction : ∀ f ps, BalNS (execDirectFunction (ν := ν) n f ps)
  execMethodFunction : ∀ r f ps, BalNS (execMethodFunction (ν := ν) n r f ps)
  construct : ∀ c ps, BalNS (construct (ν := ν) n c ps)
  evalExecBlock : ∀ b ps, BalNS (evalExecBlock (ν := ν) n b ps)
  handleException : HSpec (ν := ν) n
  evalStmtBlock : ∀ b, Bal (evalStmtBlock (ν := ν) n b)
  evalPureStmtBlock : ∀ b, Bal (evalPureStmtBlock (ν := ν) n b)
  evalStmt : ∀ st, Bal (evalStmt (ν := ν) n st)
  evalClassDecl : ∀ st, BalNS (evalClassDecl (ν := ν) n st)
  evalFuncDecl : ∀ st, BalNS (evalFuncDecl (ν := ν) n st)
  evalCtorDecl : ∀ st, BalNS (evalCtorDecl (ν := ν) n st)

/-! ## tactics -/

/-- side condition of the `tryCatch` rules: the handler re-raises what is neither a value nor a loop signal -/
macro "recov_tac" : tactic => `(tactic| (
  intro r hr s
  cases r <;> first
    | rfl
    | (simp [okOrSig, resIsOk, resIsSig] at hr; done)
    | (rename_i e; cases e <;> first
        | rfl
        | (simp [okOrSig, resIsOk, resIsSig, isSig] at hr; done))))

syntax "bal_prim" : tactic

macro_rules | `(tactic| bal_prim) => `(tactic| first
  | with_reducible apply BalNS.push
  | with_reducible apply BalIn.pop | with_reducible apply BalIn.rtErr | with_reducible apply BalIn.goPanic
  | with_reducible apply BalNS.bind | with_reducible apply Bal.bind | with_reducible apply BalIn.bind
  | ((with_reducible (refine Bal.tryCatch ?_ ?_ ?_)); rotate_right; recov_tac)
  | ((with_reducible (refine BalNS.tryCatch ?_ ?_ ?_)); rotate_right; recov_tac)
  | with_reducible apply Bal.withScope | with_reducible apply BalNS.withScope
  | with_reducible apply BalNS.mapM | with_reducible apply Bal.mapM
  | with_reducible apply BalNS.forM | with_reducible apply Bal.forM
  | with_reducible apply BalNS.foldlM | with_reducible apply Bal.foldlM
  | with_reducible apply Bal.untilM | with_reducible apply Bal.untilIdxM | with_reducible apply Bal.whileM
  | with_reducible apply Bal.firstM
  | ((with_reducible (apply BalNS.setTopFrame)); intro _; rfl)
  | ((with_reducible (apply Bal.setTopFrame)); intro _; rfl)
  | with_reducible apply Bal.throwE | with_reducible apply Bal.liftRes
  | ((with_reducible (apply BalNS.throwE)); rfl)
  | ((with_reducible (apply BalNS.liftRes)); assumption)
  | ((with_reducible (apply BalNS.ofQuiet)); quiet_prim) | ((with_reducible (apply Bal.ofQuiet)); quiet_prim))

macro "bal_tac" : tactic => `(tactic| repeat' (first
  | assumption | bal_prim | quiet_prim | intro _ | split | dsimp only))

macro "bal_ih" ih:ident : tactic => `(tactic| repeat' (first
  | assumption
  | with_reducible exact AllBal.evalExpr $ih _ | with_reducible exact (AllBal.evalExpr $ih _).toBal
  | with_reducible exact AllBal.memberIV $ih _ | with_reducible exact (AllBal.memberIV $ih _).toBal
  | with_reducible exact AllBal.execFunction $ih _ _ _ | with_reducible exact (AllBal.execFunction $ih _ _ _).toBal
  | with_reducible exact AllBal.execDirectFunction $ih _ _
  | with_reducible exact (AllBal.execDirectFunction $ih _ _).toBal
  | with_reducible exact AllBal.execMethodFunction $ih _ _ _
  | with_reducible exact (AllBal.execMethodFunction $ih _ _ _).toBal
  | with_reducible exact AllBal.construct $ih _ _ | with_reducible exact (AllBal.construct $ih _ _).toBal
  | with_reducible exact AllBal.evalExecBlock $ih _ _ | with_reducible exact (AllBal.evalExecBlock $ih _ _).toBal
  | with_reducible exact AllBal.evalStmtBlock $ih _ | with_reducible exact AllBal.evalPureStmtBlock $ih _
  | with_reducible exact AllBal.evalStmt $ih _
  | with_reducible exact AllBal.evalClassDecl $ih _ | with_reducible exact (AllBal.evalClassDecl $ih _).toBal
  | with_reducible exact AllBal.evalFuncDecl $ih _ | with_reducible exact (AllBal.evalFuncDecl $ih _).toBal
  | with_reducible exact AllBal.evalCtorDecl $ih _ | with_reducible exact (AllBal.evalCtorDecl $ih _).toBal
  | bal_prim | quiet_prim | intro _ | split | dsimp only))

/-! ## pieces outside the fuel pattern -/

theorem Quiet.reduceRHS (n : Nat) (iv : Nat × Addr × String × Int) : Quiet (reduceRHS (ν := ν) n iv) := by
  obtain ⟨k, r, nm, i⟩ := iv
  simp only [Model.reduceRHS]
  quiet_tac

theorem Quiet.reduceLHS (iv : Nat × Addr × String × Int) (v : Addr) : Quiet (reduceLHS (ν := ν) iv v) := by
  obtain ⟨k, r, nm, i⟩ := iv
  simp only [Model.reduceLHS]
  quiet_tac

macro_rules | `(tactic| quiet_prim) => `(tactic| with_reducible (first
  | apply Quiet.builtinMethod | apply Quiet.reduceRHS | apply Quiet.reduceLHS))

theorem Bal.stmtsLoop {evalOne : Stmt → M ν Addr} (h : ∀ st, Bal (evalOne st)) :
    ∀ (l : List Stmt) (last : Option Addr), Bal (stmtsLoop evalOne last l)
  | [], last => Bal.pure _
  | st :: rest, last => by
    unfold Model.stmtsLoop
    have ih := Bal.stmtsLoop h rest
    bal_tac
    all_goals first | exact h _ | exact ih _

macro_rules | `(tactic| bal_prim) => `(tactic| with_reducible apply Bal.stmtsLoop)

end ZnVerif.Proofs.StackBal
