/-
Helper lemmas that carry facts about the spec (`Proofs/ScopeSpec.lean`) over to the model through the
simulation (`Proofs/Scope.lean`), plus arithmetic of the bracketing conditions.  Core Lean only.
-/
import ZnVerif.Proofs.Scope
import ZnVerif.Proofs.ScopeSpec

namespace ZnVerif.Proofs.Scope
open ZnVerif.SymTab ZnVerif.Spec.Scopes ZnVerif.Proofs.ScopeSpec

variable {α : Type}

/-! ### bracketing conditions -/

theorem finalDepth_shift (ops : List (Op α)) : ∀ (k k' d : Nat),
    finalDepth k ops = some k' → finalDepth (k + d) ops = some (k' + d) := by
  induction ops with
  | nil => intro k k' d h; simp only [finalDepth, Option.some.injEq] at h ⊢; omega
  | cons op ops ih =>
    intro k k' d h
    cases op with
    | beginScope =>
      simp only [finalDepth] at h ⊢
      have := ih (k + 1) k' d h
      rw [show k + d + 1 = k + 1 + d by omega]; exact this
    | endScope =>
      cases k with
      | zero => simp [finalDepth] at h
      | succ k =>
        simp only [finalDepth] at h
        have := ih k k' d h
        rw [show k + 1 + d = (k + d) + 1 by omega]
        simp only [finalDepth]; exact this
    | declare n v => simp only [finalDepth] at h ⊢; exact ih k k' d h
    | declareConst n v => simp only [finalDepth] at h ⊢; exact ih k k' d h
    | declareExternal n v m => simp only [finalDepth] at h ⊢; exact ih k k' d h
    | assign n v => simp only [finalDepth] at h ⊢; exact ih k k' d h
    | lookup n => simp only [finalDepth] at h ⊢; exact ih k k' d h
    | lookupM n => simp only [finalDepth] at h ⊢; exact ih k k' d h

theorem finalDepth_append (a b : List (Op α)) : ∀ (d : Nat),
    finalDepth d (a ++ b) = (finalDepth d a).bind (fun d' => finalDepth d' b) := by
  induction a with
  | nil => intro d; rfl
  | cons op a ih =>
    intro d
    cases op with
    | endScope =>
      cases d with
      | zero => rfl
      | succ d => simp only [List.cons_append, finalDepth]; exact ih d
    | beginScope => simp only [List.cons_append, finalDepth]; exact ih (d + 1)
    | declare n v => simp only [List.cons_append, finalDepth]; exact ih d
    | declareConst n v => simp only [List.cons_append, finalDepth]; exact ih d
    | declareExternal n v m => simp only [List.cons_append, finalDepth]; exact ih d
    | assign n v => simp only [List.cons_append, finalDepth]; exact ih d
    | lookup n => simp only [List.cons_append, finalDepth]; exact ih d
    | lookupM n => simp only [List.cons_append, finalDepth]; exact ih d

theorem extAtRoot_noExt (ops : List (Op α)) : ∀ (d : Nat), (∀ op ∈ ops, Op.isExt op = false) → extAtRoot d ops = true := by
  induction ops with
  | nil => intro d _; rfl
  | cons op ops ih =>
    intro d h
    have hrest := fun d => ih d (fun o ho => h o (by simp [ho]))
    have hop := h op (by simp)
    cases op <;> simp_all [extAtRoot, Op.isExt]

theorem finalDepth_declOf (d : Nat) (name : String) (v : α) (c : Bool) (ops : List (Op α)) :
    finalDepth d (declOf name v c :: ops) = finalDepth d ops := by
  cases c <;> rfl

theorem isExt_declOf (name : String) (v : α) (c : Bool) : Op.isExt (declOf name v c) = false := by
  cases c <;> rfl

/-! ### from the spec to the model -/

/-- a failed operation leaves the receiver as it was -/
theorem step_err_unchanged {σ σ' : Scope α} {op : Op α} {c : Nat} (h : σ.step op = .ok (σ', .err c)) : σ' = σ := by
  have hofErr : ∀ (x : GoRes (Scope α)), σ.ofErr x = .ok (σ', .err c) → σ' = σ := by
    intro x hx
    cases x <;> simp [Scope.ofErr] at hx
    exact hx.1.symm
  cases op with
  | beginScope => simp [Scope.step] at h
  | endScope => simp only [Scope.step] at h; cases he : σ.endScope <;> simp [he] at h
  | declare n v => exact hofErr _ h
  | declareConst n v => exact hofErr _ h
  | declareExternal n v m => exact hofErr _ h
  | assign n v => exact hofErr _ h
  | lookup n =>
    simp only [Scope.step] at h
    cases hg : σ.getValue n with
    | ok o => cases o <;> simp [hg] at h
    | err c => simp [hg] at h
    | panic => simp [hg] at h
  | lookupM n =>
    simp only [Scope.step] at h
    cases hg : σ.getValueWithModuleID n with
    | ok o => obtain ⟨o1, o2⟩ := o; cases o1 <;> simp [hg] at h
    | err c => simp [hg] at h
    | panic => simp [hg] at h

/-- histories of plain block bodies (no imports), started anywhere: the model follows the spec -/
theorem run_transfer {σ : Scope α} {d : Nat} (h : Sim σ d) (ops : List (Op α)) (k' : Nat)
    (hfd : finalDepth 0 ops = some k') (hne : ∀ op ∈ ops, Op.isExt op = false) :
    ∃ σ' rs, σ.run ops = .ok (σ', rs) ∧ Sim σ' (k' + d) ∧ run (abs σ) ops = some (abs σ', rs) := by
  have := finalDepth_shift ops 0 k' d hfd
  rw [Nat.zero_add] at this
  exact run_sim ops σ d (k' + d) h this (extAtRoot_noExt ops d hne)

def lookRes : Option (Binding α) → Res α
  | none => .undefined
  | some b => .val b.value

theorem spec_lookup (st : Stack α) (n : String) : step st (.lookup n) = some (st, lookRes (lookupB st n)) := by
  simp only [step]; cases lookupB st n <;> rfl

/-- what a lookup on the model answers, in terms of the abstraction -/
theorem model_lookup {σ : Scope α} {d : Nat} (h : Sim σ d) (n : String) :
    σ.step (.lookup n) = .ok (σ, lookRes (lookupB (abs σ) n)) := by
  obtain ⟨r, h1, h2⟩ := sim_lookup h n
  rw [spec_lookup] at h2
  simp only [Option.some.injEq, Prod.mk.injEq, true_and] at h2
  rw [h1, h2]

/-- if the spec rejects an operation with code `c`, so does the model, and the model state is untouched -/
theorem model_step_err {σ : Scope α} {d : Nat} (h : Sim σ d) (op : Op α) (hok : opOK d op) (st : Stack α) (c : Nat)
    (hs : step (abs σ) op = some (st, .err c)) : σ.step op = .ok (σ, .err c) := by
  obtain ⟨σ', r, h1, _, h2⟩ := step_sim h op hok
  rw [hs] at h2
  simp only [Option.some.injEq, Prod.mk.injEq] at h2
  rw [← h2.2] at h1
  rw [h1, step_err_unchanged h1]

theorem abs_ne_nil {σ : Scope α} {d : Nat} (h : Sim σ d) : abs σ ≠ [] := by
  rw [abs_eq h]
  obtain ⟨f, rest, hf⟩ := absAux_ne d (live σ)
  rw [hf]; simp

theorem abs_new : abs (Scope.new : Scope α) = initial := rfl

theorem opOK_declOf (d : Nat) (name : String) (v : α) (c : Bool) : opOK d (declOf name v c) := by
  cases c <;> exact True.intro

end ZnVerif.Proofs.Scope
