/-
`step_good`, part 2: ParseBasicExpr, arrays / dictionaries, calls, method chains, 新建.
-/
import ZnVerif.Proofs.ParserGoodExpr

namespace ZnVerif.Proofs.ParserGood
open ZnVerif.Model ZnVerif.Model.Parser ZnVerif.Generated.Tokens ZnVerif.Generated.ParserTables
open ZnVerif.Spec.Grammar ZnVerif.Proofs.ParserHoare

variable {σ : Type} {ops : LexOps σ} {B : Nat} {μ : σ → Nat} {I : σ → Prop} (hl : LexOK ops B μ I) {n : Nat} {rec : Rec σ}
  (hg : Good ops B μ I n rec)
include hl hg

omit hg in
/-- `得到 ID`, optional -/
theorem optYield_sat {s : PState σ} {Q : Option Ident → PState σ → Prop} {F : Prop}
    (hs : Inv ops B I s)
    (hk : ∀ y s', Inv ops B I s' → m μ s' ≤ m μ s → q s ≤ q s' → Q y s')
    (hF : n ≤ m μ s → F) :
    Sat (optYield Variant.fixed ops n s) Q (ErrOK B) F := by
  unfold optYield
  simp only [sat_bind]
  apply tryConsume_sat hl hs (by decide)
  · intro s1 hi1 hm1 hq1 _
    simp only [sat_pure]
    exact hk none s1 hi1 hm1 hq1
  · intro tk s1 hi1 hm1 hq1 _ _
    simp only [sat_bind]
    apply parseID_sat hl hi1
    · intro i s2 hi2 hm2 hq2
      simp only [sat_pure]
      exact hk (some i) s2 hi2 (by omega) (by have := q_le_one s; omega)
    · intro h; apply hF; omega
  · exact hF

theorem pBasic_good (s : PState σ) (hs : Inv ops B I s) :
    Sat (pBasic Variant.fixed ops n rec s) (Post ops B μ I .basic s) (ErrOK B) (n + 1 < need μ .basic s) := by
  unfold pBasic
  simp only [sat_bind]
  apply tryConsume_sat hl hs (by decide)
  · intro s1 hi1 _ _ _
    exact errPeek_sat hi1 (by decide)
  · intro tk s1 hi1 hm1 hq1 hmem _
    simp only [sat_bind]
    -- whatever the branch returns gets its line set
    have fin : ∀ e s2, Inv ops B I s2 → m μ s2 ≤ m μ s1 → 1 ≤ q s2 → CExpr e →
        Sat ((do let l ← lineOf ops tk; pure (e.setLine l) : PM σ Expr) s2) (Post ops B μ I .basic s) (ErrOK B)
          (n + 1 < need μ .basic s) := by
      intro e s2 hi2 hm2 hq2 hc
      simp only [sat_bind]
      apply lineOf_sat
      intro l
      simp only [sat_pure]
      exact post_lt hi2 (by omega) hq2 (cexpr_setLine l hc)
    rw [sat_ite]
    refine ⟨fun _ => ?_, fun _ => ?_⟩
    · simp only [sat_bind]
      apply newID_sat
      intro i
      simp only [sat_pure]
      exact fin _ s1 hi1 (Nat.le_refl _) (by omega) (.id _)
    rw [sat_ite]
    refine ⟨fun _ => ?_, fun _ => ?_⟩
    · apply newString_sat
      intro l' str
      exact fin _ s1 hi1 (Nat.le_refl _) (by omega) (.str _ _)
    rw [sat_ite]
    refine ⟨fun _ => ?_, fun _ => ?_⟩
    · apply hg.callS .array rfl hi1 trivial
      · intro e s2 hi2 hm2 hq2 hc2
        exact fin e s2 hi2 (by omega) (by omega) hc2
      · fuel_tac
    rw [sat_ite]
    refine ⟨fun _ => ?_, fun _ => ?_⟩
    · simp only [sat_bind]
      apply hg.callS (.expr true) rfl hi1 trivial
      · intro e s2 hi2 hm2 hq2 hc2
        apply consume_sat hl hi2 (by decide)
        · intro s3 hi3 hm3 hq3
          simp only [sat_pure]
          exact fin e s3 hi3 (by omega) (by omega) hc2
        · fuel_tac
      · fuel_tac
    rw [sat_ite]
    refine ⟨fun _ => ?_, fun _ => ?_⟩
    · simp only [sat_bind]
      apply tryConsume_sat hl hi1 (by decide)
      · intro s2 hi2 hm2 hq2 _
        apply hg.callS (.funcCall true) rfl hi2 trivial
        · intro e s3 hi3 hm3 hq3 hc3
          exact fin e s3 hi3 (by omega) (by omega) (ccall_cexpr hc3)
        · fuel_tac
      · intro tk2 s2 hi2 hm2 hq2 _ _
        apply hg.callS .objNew rfl hi2 trivial
        · intro e s3 hi3 hm3 hq3 hc3
          exact fin e s3 hi3 (by omega) (by omega) hc3
        · fuel_tac
      · fuel_tac
    rw [sat_ite]
    refine ⟨fun _ => ?_, fun _ => ?_⟩
    · apply hg.callS .memberFuncCall rfl hi1 trivial
      · intro e s2 hi2 hm2 hq2 hc2
        exact fin e s2 hi2 (by omega) (by omega) hc2
      · fuel_tac
    · -- unreachable: the token type is one of the six
      exfalso
      simp only [basicValidTypes, List.mem_cons, List.not_mem_nil, or_false] at hmem
      simp only [cTypeIdentifier, cTypeString, cTypeArrayQuoteL, cTypeStmtQuoteL, cTypeFuncQuoteL, cTypeVarOneW] at *
      omega
  · fuel_tac

theorem pArrayNonEmpty_good (s s0 : PState σ) (hs : Inv ops B I s) (hm0 : m μ s ≤ m μ s0) (_hq0 : q s0 ≤ q s) :
    Sat (pArrayNonEmpty ops n rec s) (Post ops B μ I .array s0) (ErrOK B) (n + 1 < need μ .array s0) := by
  unfold pArrayNonEmpty
  simp only [sat_bind]
  apply hg.callS (.expr false) rfl hs trivial
  · intro e1 s1 hi1 hm1 hq1 hc1
    apply tryConsume_sat hl hi1 (by decide)
    · intro s2 hi2 hm2 hq2 _
      apply hg.callS (.arrayLoop [e1]) rfl hi2 (by intro e he; simp at he; subst he; exact hc1)
      · intro r s3 hi3 hm3 hq3 hc3
        exact post_lt hi3 (by omega) (by omega) hc3
      · fuel_tac
    · intro tk s2 hi2 hm2 hq2 _ _
      simp only
      rw [sat_ite]
      refine ⟨fun _ => ?_, fun _ => ?_⟩
      · simp only [sat_pure]
        exact post_lt hi2 (by omega) (by omega) (.arr _ _ (by intro e he; simp at he; subst he; exact hc1))
      rw [sat_ite]
      refine ⟨fun _ => ?_, fun _ => ?_⟩
      · simp only [sat_bind]
        apply hg.callS (.expr false) rfl hi2 trivial
        · intro r s3 hi3 hm3 hq3 hc3
          simp only [sat_unsetFlag]
          have hi3' : Inv ops B I { s3 with flag := false } := ⟨hi3.lex, hi3.p2, hi3.p1, hi3.lines, hi3.nonempty⟩
          apply hg.callS (.hashLoop [(e1, r)]) rfl hi3'
            (by intro kv hkv; simp at hkv; subst hkv; exact ⟨hc1, hc3⟩)
          · intro r' s4 hi4 hm4 hq4 hc4
            exact post_lt hi4 (by change m μ s4 < m μ s3 at hm4; omega) (by omega) hc4
          · intro hfuel; simp only [need, rank] at hfuel ⊢; change n < 24 * m μ s3 + 10 at hfuel; omega
        · fuel_tac
      · apply hg.callS (.arrayLoop []) rfl hi2 (by intro e he; simp at he)
        · intro r s3 hi3 hm3 hq3 hc3
          exact post_lt hi3 (by omega) (by omega) hc3
        · fuel_tac
    · fuel_tac
  · fuel_tac

theorem pArray_good (s : PState σ) (hs : Inv ops B I s) :
    Sat (pArray Variant.fixed ops n rec s) (Post ops B μ I .array s) (ErrOK B) (n + 1 < need μ .array s) := by
  unfold pArray
  simp only [sat_bind]
  apply tryConsume_sat hl hs (by decide)
  · intro s1 hi1 hm1 hq1 _
    exact pArrayNonEmpty_good hl hg s1 s hi1 hm1 hq1
  · intro tk s1 hi1 hm1 hq1 _ _
    simp only
    rw [sat_ite]
    refine ⟨fun _ => ?_, fun _ => ?_⟩
    · simp only [sat_bind]
      apply lineOf_sat
      intro l
      simp only [sat_pure]
      exact post_lt hi1 hm1 (by omega) (.arr _ _ (by intro e he; simp at he))
    rw [sat_ite]
    refine ⟨fun _ => ?_, fun _ => ?_⟩
    · simp only [sat_bind]
      apply consume_sat hl hi1 (by decide)
      · intro s2 hi2 hm2 hq2
        apply lineOf_sat
        intro l
        simp only [sat_pure]
        exact post_lt hi2 (by omega) (by omega) (.hm _ _ (by intro e he; simp at he) (by intro e he; simp at he))
      · fuel_tac
    · exact pArrayNonEmpty_good hl hg s1 s hi1 (by omega) (by have := q_le_one s; omega)
  · fuel_tac

theorem pArrayLoop_good (items : List Expr) (s : PState σ) (hs : Inv ops B I s) (hpre : ∀ e ∈ items, CExpr e) :
    Sat (pArrayLoop ops n rec items s) (Post ops B μ I (.arrayLoop items) s) (ErrOK B) (n + 1 < need μ (.arrayLoop items) s) := by
  unfold pArrayLoop
  simp only [sat_bind]
  apply hg.callS (.expr false) rfl hs trivial
  · intro e s1 hi1 hm1 hq1 hc1
    have hall : ∀ x ∈ items ++ [e], CExpr x := by
      intro x hx
      simp only [List.mem_append, List.mem_singleton] at hx
      rcases hx with hx | rfl
      · exact hpre x hx
      · exact hc1
    apply tryConsume_sat hl hi1 (by decide)
    · intro s2 hi2 hm2 hq2 _
      apply hg.callS (.arrayLoop _) rfl hi2 hall
      · intro r s3 hi3 hm3 hq3 hc3
        exact post_lt hi3 (by omega) (by omega) hc3
      · fuel_tac
    · intro tk s2 hi2 hm2 hq2 _ _
      simp only [sat_pure]
      exact post_lt hi2 (by omega) (by omega) (.arr _ _ hall)
    · fuel_tac
  · fuel_tac

theorem pHashLoop_good (kvs : List (Expr × Expr)) (s : PState σ) (hs : Inv ops B I s)
    (hpre : ∀ kv ∈ kvs, CExpr kv.1 ∧ CExpr kv.2) :
    Sat (pHashLoop Variant.fixed ops n rec kvs s) (Post ops B μ I (.hashLoop kvs) s) (ErrOK B) (n + 1 < need μ (.hashLoop kvs) s) := by
  unfold pHashLoop
  simp only [sat_bind]
  apply tryConsume_sat hl hs (by decide)
  · intro s1 hi1 hm1 hq1 _
    simp only [sat_bind]
    apply hg.callS (.expr false) rfl hi1 trivial
    · intro k s2 hi2 hm2 hq2 hc2
      apply consume_sat hl hi2 (by decide)
      · intro s3 hi3 hm3 hq3
        apply hg.callS (.expr false) rfl hi3 trivial
        · intro x s4 hi4 hm4 hq4 hc4
          simp only [sat_unsetFlag]
          have hi4' : Inv ops B I { s4 with flag := false } := ⟨hi4.lex, hi4.p2, hi4.p1, hi4.lines, hi4.nonempty⟩
          apply hg.callS (.hashLoop _) rfl hi4' (by
            intro kv hkv
            simp only [List.mem_append, List.mem_singleton] at hkv
            rcases hkv with hkv | rfl
            · exact hpre kv hkv
            · exact ⟨hc2, hc4⟩)
          · intro r s5 hi5 hm5 hq5 hc5
            exact post_lt hi5 (by change m μ s5 < m μ s4 at hm5; omega) (by omega) hc5
          · intro hfuel; simp only [need, rank] at hfuel ⊢; change n < 24 * m μ s4 + 10 at hfuel; omega
        · fuel_tac
      · fuel_tac
    · fuel_tac
  · intro tk s1 hi1 hm1 hq1 _ _
    simp only [sat_pure]
    exact post_lt hi1 hm1 (by omega) (.hm _ _ (fun kv h => (hpre kv h).1) (fun kv h => (hpre kv h).2))
  · fuel_tac

theorem pFuncCall_good (y : Bool) (s : PState σ) (hs : Inv ops B I s) :
    Sat (pFuncCall Variant.fixed ops n rec y s) (Post ops B μ I (.funcCall y) s) (ErrOK B) (n + 1 < need μ (.funcCall y) s) := by
  unfold pFuncCall
  simp only [sat_bind]
  apply parseID_sat hl hs
  · intro name s1 hi1 hm1 hq1
    -- after the parameter list
    have rest : ∀ ps s2, Inv ops B I s2 → m μ s2 ≤ m μ s1 → 1 ≤ q s2 → (∀ p ∈ ps, CExpr p) →
        Sat ((do
          consume Variant.fixed ops n [cTypeFuncQuoteR]
          let y ← (if y then optYield Variant.fixed ops n else pure none)
          pure (Expr.call 0 (some name) ps y) : PM σ Expr) s2)
          (Post ops B μ I (.funcCall y) s) (ErrOK B) (n + 1 < need μ (.funcCall y) s) := by
      intro ps s2 hi2 hm2 hq2 hps
      simp only [sat_bind]
      apply consume_sat hl hi2 (by decide)
      · intro s3 hi3 hm3 hq3
        rw [sat_ite]
        refine ⟨fun _ => ?_, fun _ => ?_⟩
        · apply optYield_sat hl hi3
          · intro yv s4 hi4 hm4 hq4
            simp only [sat_pure]
            exact post_lt hi4 (by omega) (by omega) (.mk _ _ _ _ hps)
          · fuel_tac
        · simp only [sat_pure]
          exact post_lt hi3 (by omega) (by omega) (.mk _ _ _ _ hps)
      · fuel_tac
    apply tryConsume_sat hl hi1 (by decide)
    · intro s2 hi2 hm2 hq2 _
      have := rest [] s2 hi2 hm2 (by omega) (by intro p hp; simp at hp)
      simpa only [sat_bind, sat_pure] using this
    · intro tk s2 hi2 hm2 hq2 _ _
      simp only
      apply hg.callS (.commaExprs []) rfl hi2 (by intro p hp; simp at hp)
      · intro ps s3 hi3 hm3 hq3 hc3
        have := rest ps s3 hi3 (by omega) (by omega) hc3.2
        simpa only [sat_bind, sat_pure] using this
      · fuel_tac
    · fuel_tac
  · fuel_tac

theorem pCommaExprs_good (acc : List Expr) (s : PState σ) (hs : Inv ops B I s) (hpre : ∀ e ∈ acc, CExpr e) :
    Sat (pCommaExprs ops n rec acc s) (Post ops B μ I (.commaExprs acc) s) (ErrOK B) (n + 1 < need μ (.commaExprs acc) s) := by
  unfold pCommaExprs
  simp only [sat_bind]
  apply hg.callS (.expr true) rfl hs trivial
  · intro e s1 hi1 hm1 hq1 hc1
    have hall : ∀ x ∈ acc ++ [e], CExpr x := by
      intro x hx
      simp only [List.mem_append, List.mem_singleton] at hx
      rcases hx with hx | rfl
      · exact hpre x hx
      · exact hc1
    apply tryConsume_sat hl hi1 (by decide)
    · intro s2 hi2 hm2 hq2 _
      simp only [sat_pure]
      exact post_lt hi2 (by omega) (by omega) ⟨by simp, hall⟩
    · intro tk s2 hi2 hm2 hq2 _ _
      apply hg.callS (.commaExprs _) rfl hi2 hall
      · intro r s3 hi3 hm3 hq3 hc3
        exact post_lt hi3 (by omega) (by omega) hc3
      · fuel_tac
    · fuel_tac
  · fuel_tac

theorem pCommaIds_good (acc : List Ident) (s : PState σ) (hs : Inv ops B I s) :
    Sat (pCommaIds Variant.fixed ops n rec acc s) (Post ops B μ I (.commaIds acc) s) (ErrOK B) (n + 1 < need μ (.commaIds acc) s) := by
  unfold pCommaIds
  simp only [sat_bind]
  apply parseID_sat hl hs
  · intro i s1 hi1 hm1 hq1
    apply tryConsume_sat hl hi1 (by decide)
    · intro s2 hi2 hm2 hq2 _
      simp only [sat_pure]
      exact post_lt hi2 (by omega) (by omega) (by show acc ++ [i] ≠ []; simp)
    · intro tk s2 hi2 hm2 hq2 _ _
      apply hg.callS (.commaIds _) rfl hi2 trivial
      · intro r s3 hi3 hm3 hq3 hc3
        exact post_lt hi3 (by omega) (by omega) hc3
      · fuel_tac
    · fuel_tac
  · fuel_tac

theorem pChainLoop_good (chain : List Expr) (s : PState σ) (hs : Inv ops B I s)
    (hpre : chain ≠ [] ∧ ∀ f ∈ chain, CCall f) :
    Sat (pChainLoop Variant.fixed ops n rec chain s) (Post ops B μ I (.chainLoop chain) s) (ErrOK B) (n + 1 < need μ (.chainLoop chain) s) := by
  unfold pChainLoop
  simp only [sat_bind]
  apply tryConsume_sat hl hs (by decide)
  · intro s1 hi1 hm1 hq1 _
    simp only [sat_pure]
    exact post_le rfl hi1 hm1 hq1 (fun h => h.elim) hpre
  · intro tk s1 hi1 hm1 hq1 _ _
    simp only [sat_bind]
    apply consume_sat hl hi1 (by decide)
    · intro s2 hi2 hm2 hq2
      apply hg.callS (.funcCall false) rfl hi2 trivial
      · intro f s3 hi3 hm3 hq3 hc3
        apply hg.callN (.chainLoop _) hi3 (by
          refine ⟨by simp, ?_⟩
          intro x hx
          simp only [List.mem_append, List.mem_singleton] at hx
          rcases hx with hx | rfl
          · exact hpre.2 x hx
          · exact hc3)
        · intro r s4 hi4 hm4 hq4 hc4
          exact post_le rfl hi4 (by omega) (by have := q_le_one s; omega) (fun h => h.elim) hc4
        · fuel_tac
      · fuel_tac
    · fuel_tac
  · fuel_tac

theorem pMemberFuncCall_good (s : PState σ) (hs : Inv ops B I s) :
    Sat (pMemberFuncCall Variant.fixed ops n rec s) (Post ops B μ I .memberFuncCall s) (ErrOK B) (n + 1 < need μ .memberFuncCall s) := by
  unfold pMemberFuncCall
  simp only [sat_bind]
  apply hg.callS (.expr true) rfl hs trivial
  · intro root s1 hi1 hm1 hq1 hc1
    apply consume_sat hl hi1 (by decide)
    · intro s2 hi2 hm2 hq2
      apply hg.callS (.funcCall false) rfl hi2 trivial
      · intro f s3 hi3 hm3 hq3 hc3
        apply hg.callN (.chainLoop [f]) hi3 ⟨by simp, by intro x hx; simp at hx; subst hx; exact hc3⟩
        · intro chain s4 hi4 hm4 hq4 hc4
          apply optYield_sat hl hi4
          · intro y s5 hi5 hm5 hq5
            simp only [sat_pure]
            exact post_lt hi5 (by omega) (by omega) (.mcall _ _ _ _ hc1 hc4.1 hc4.2)
          · fuel_tac
        · fuel_tac
      · fuel_tac
    · fuel_tac
  · fuel_tac

theorem pObjNew_good (s : PState σ) (hs : Inv ops B I s) :
    Sat (pObjNew Variant.fixed ops n rec s) (Post ops B μ I .objNew s) (ErrOK B) (n + 1 < need μ .objNew s) := by
  unfold pObjNew
  simp only [sat_bind]
  apply parseID_sat hl hs
  · intro cls s1 hi1 hm1 hq1
    apply tryConsume_sat hl hi1 (by decide)
    · intro s2 hi2 hm2 hq2 _
      simp only [sat_bind]
      apply consume_sat hl hi2 (by decide)
      · intro s3 hi3 hm3 hq3
        simp only [sat_pure]
        exact post_lt hi3 (by omega) (by omega) (.new _ _ _ (by intro p hp; simp at hp))
      · fuel_tac
    · intro tk s2 hi2 hm2 hq2 _ _
      simp only [sat_bind]
      apply hg.callS (.commaExprs []) rfl hi2 (by intro p hp; simp at hp)
      · intro ps s3 hi3 hm3 hq3 hc3
        apply consume_sat hl hi3 (by decide)
        · intro s4 hi4 hm4 hq4
          simp only [sat_pure]
          exact post_lt hi4 (by omega) (by omega) (.new _ _ _ hc3.2)
        · fuel_tac
      · fuel_tac
    · fuel_tac
  · fuel_tac

end ZnVerif.Proofs.ParserGood
