/-
C18, line table — the comment scanners (`注：…`, `注123：…`, `注：“…”`, `注：「…」`, `//`, `/* */`): every line break
inside a multi-line comment is recorded, a one-line comment stops before the line break, a failed comment
attempt consumes nothing.  Invariant: `LinesInv.Good` (Proofs/LinesInv.lean).  Core Lean only.
-/
import ZnVerif.Proofs.LinesBlank

namespace ZnVerif.Model
open ZnVerif.Generated ZnVerif.Generated.Tokens
open Spec.Lines

namespace LinesInv
variable {S : Array Nat}

theorem nb_of_not' {c : Nat} (h : ¬ (c == runeCR || c == runeLF) = true) : isBreak c = false :=
  Bool.eq_false_iff.mpr h

/-- leaving a loop that had the cursor on the last consumed character -/
theorem Good.adv {l : Lexer} (g : Good S 1 l) : Good S 0 l.adv := ⟨g.src, g.bl, g.inv.same rfl rfl⟩

/-- the line-break pass of the multi-line scanners (`parseString`, `parseComment`): the cursor is on the last
consumed character, the next one is CR or LF; a two-character break is consumed whole, the cursor stays on its
last character, and the line that starts after it is recorded -/
theorem Good.break1 {l : Lexer} (g : Good S 1 l) (hbr : isBreak l.adv.cur = true) (l2 : Lexer)
    (hl2 : (if isPair l.adv.cur l.adv.peek = true then l.adv.adv else l.adv) = l2) :
    Good S 1 (l2.pushLine { indents := 0, startIdx := l2.cursor + 1 }) := by
  have hcu : l.adv.cur = charAt l.src (l.cursor + 1) := rfl
  have hpk : l.adv.peek = charAt l.src (l.cursor + 1 + 1) := rfl
  cases hp : isPair l.adv.cur l.adv.peek with
  | true =>
    rw [hp] at hl2; simp only [↓reduceIte] at hl2
    subst hl2
    refine ⟨g.src, g.bl, ?_⟩
    show At _ (l.cursor + 1 + 2)
    exact g.inv.pair rfl (by rw [starts_pushLine]; rfl) (by rw [← hcu, ← hpk]; exact hp)
  | false =>
    rw [hp] at hl2; simp only [Bool.false_eq_true, ↓reduceIte] at hl2
    subst hl2
    refine ⟨g.src, g.bl, ?_⟩
    show At _ (l.cursor + 1 + 1)
    exact g.inv.single rfl (by rw [starts_pushLine]; rfl) (by rw [← hcu]; exact hbr)
      (by rw [← hcu, ← hpk]; exact hp)

theorem Good.adv1 {l : Lexer} (g : Good S 1 l) (h : isBreak l.adv.cur = false) : Good S 1 l.adv :=
  (Frame.adv1 (l := l) h).good g

theorem skipDigits_frame (l : Lexer) (h0 : isBreak l.cur = false) : Frame 0 l (skipDigits l) := by
  induction l using skipDigits.induct with
  | case1 l h ih =>
    rw [skipDigits]; simp only [h, ↓reduceDIte]
    exact (Frame.adv0 h0).trans (ih (nb_of_pred isPureNumber (by decide) (by decide) h))
  | case2 l h =>
    rw [skipDigits]; simp only [h, ↓reduceDIte]
    exact Frame.adv0 h0

/-- one pass of the content loop keeps the invariant (cursor on the last consumed character) -/
theorem parseCommentStep_cont (s cty : Nat) (l : Lexer) (q q' : Nat) (l' : Lexer) (g : Good S 1 l)
    (hs : parseCommentStep s cty l q = (.cont q', l')) : Good S 1 l' := by
  unfold parseCommentStep at hs
  dsimp only at hs
  split at hs
  · cases hs
  · split at hs
    · rename_i hbr
      split at hs
      · cases hs
      · rw [pair_eq] at hs
        cases hs
        exact g.break1 hbr _ rfl
    · rename_i hnb
      have g1 : Good S 1 l.adv := g.adv1 (nb_of_not' hnb)
      repeat' split at hs
      all_goals first | (cases hs; done) | (cases hs; exact g1)

/-- leaving the content loop: the cursor is on the first character after the comment -/
theorem parseCommentStep_done (s cty : Nat) (l : Lexer) (q : Nat) (tk : Token) (l' : Lexer) (g : Good S 1 l)
    (hs : parseCommentStep s cty l q = (.done tk, l')) : Good S 0 l' := by
  unfold parseCommentStep at hs
  dsimp only at hs
  split at hs
  · cases hs; exact g.adv
  · split at hs
    · split at hs
      · cases hs; exact g.adv
      · cases hs
    · rename_i hnb
      have g1 : Good S 1 l.adv := g.adv1 (nb_of_not' hnb)
      have hst : ∀ h : (l.adv.peek == cSlashOp) = true, Good S 0 l.adv.adv.adv := fun h =>
        (g1.adv1 (nb_of_eq (c := l.adv.adv.cur) h (by decide))).adv
      repeat' split at hs
      all_goals first | (cases hs; done) | (cases hs; exact g1.adv) | skip
      rename_i hc
      cases hs
      exact hst (by simp only [Bool.and_eq_true] at hc; exact hc.2)

theorem parseCommentLoop_good (s cty : Nat) (l : Lexer) (q : Nat) (g : Good S 1 l) :
    Good S 0 (parseCommentLoop s cty l q).2 := by
  unfold parseCommentLoop
  exact iterate_inv (step := parseCommentStep s cty) (hc := parseCommentStep_consumes s cty)
    (I := fun l _ => Good S 1 l) (Q := fun _ l' => Good S 0 l')
    (fun l q q' l' g hs => parseCommentStep_cont s cty l q q' l' g hs)
    (fun l q tk l' g hs => parseCommentStep_done s cty l q tk l' g hs) l q g

/-- `parseComment` at `注` or `/`: a comment token and the invariant, or nothing consumed but digits -/
theorem parseComment_good (l : Lexer) (g : Good S 0 l) (h0 : isBreak l.cur = false) :
    (∀ tk l', parseComment l = (some tk, l') → Good S 0 l' ∧ tk.type = cTypeComment) ∧
    (∀ l', parseComment l = (none, l') → Frame 0 l l') := by
  have f1 := skipDigits_frame l h0
  have g1 : Good S 0 (skipDigits l) := f1.good g
  have hcolon : (skipDigits l).cur == cColon → Good S 1 (skipDigits l) := fun h =>
    g1.to1 (nb_of_eq h (by decide))
  have hq1 : (skipDigits l).cur == cColon → (skipDigits l).peek == cLeftDoubleQuoteI → Good S 1 (skipDigits l).adv :=
    fun h h' => (hcolon h).adv1 (nb_of_eq (c := (skipDigits l).adv.cur) h' (by decide))
  have hq2 : (skipDigits l).cur == cColon → (skipDigits l).peek == cLeftDoubleQuoteII → Good S 1 (skipDigits l).adv :=
    fun h h' => (hcolon h).adv1 (nb_of_eq (c := (skipDigits l).adv.cur) h' (by decide))
  have hsl : l.peek == cSlashOp → Good S 1 l.adv := fun h =>
    (g.to1 h0).adv1 (nb_of_eq (c := l.adv.cur) h (by decide))
  have hst : l.peek == cMultiplyOp → Good S 1 l.adv := fun h =>
    (g.to1 h0).adv1 (nb_of_eq (c := l.adv.cur) h (by decide))
  refine ⟨fun tk l' h => ?_, fun l' h => ?_⟩
  · unfold parseComment at h
    dsimp only at h
    split at h
    · split at h
      · rename_i hc
        split at h
        · rename_i hp; cases h
          exact ⟨parseCommentLoop_good _ _ _ _ (hq1 hc hp), (parseCommentLoop_type _ _ _ _).1⟩
        · split at h
          · rename_i hp; cases h
            exact ⟨parseCommentLoop_good _ _ _ _ (hq2 hc hp), (parseCommentLoop_type _ _ _ _).1⟩
          · cases h
            exact ⟨parseCommentLoop_good _ _ _ _ (hcolon hc), (parseCommentLoop_type _ _ _ _).1⟩
      · cases h
    · split at h
      · split at h
        · rename_i hp; cases h
          exact ⟨parseCommentLoop_good _ _ _ _ (hsl hp), (parseCommentLoop_type _ _ _ _).1⟩
        · split at h
          · rename_i hp; cases h
            exact ⟨parseCommentLoop_good _ _ _ _ (hst hp), (parseCommentLoop_type _ _ _ _).1⟩
          · cases h
      · cases h
  · unfold parseComment at h
    dsimp only at h
    split at h
    · split at h
      · split at h
        · cases h
        · split at h <;> cases h
      · cases h; exact f1
    · split at h
      · split at h
        · cases h
        · split at h
          · cases h
          · cases h; exact Frame.refl 0 l
      · cases h; exact Frame.refl 0 l

end LinesInv
end ZnVerif.Model
