/-
Helper lemmas for the input-variable theorems, part 4: `evalExpr` / `memberIV` on a COMPLETE expression (Spec/Grammar `CExpr`: what
the parser returns, C03 `returned_tree_complete`) in a VM that satisfies `VI` never panics, keeps `VI`, and a value is the
address of a cell.  Induction on the fuel; every `goPanic` of the two functions is met by a hypothesis:
  * a missing name / class / member identifier, a chain element that is not a call, `memberIV` on a non-member → `CExpr`;
  * `getCell` of a dangling address → every value and every root is in the heap (`VI`, `Ext`);
  * `| _ => goPanic` after `validateExact` → the validator's own answer;
  * the frame accessors on an empty stack → Proofs/VarInputVM.lean, Proofs/VarInputCalls.lean.
-/
import ZnVerif.Proofs.VarInputCalls
import ZnVerif.Spec.Grammar
set_option linter.unusedSectionVars false
set_option linter.unusedVariables false
set_option linter.unusedSimpArgs false

namespace ZnVerif.Proofs.VarInput
open ZnVerif.Model ZnVerif.Proofs.Builtins ZnVerif.Proofs.Balance ZnVerif.Proofs.Calls ZnVerif.Spec.Grammar

variable {ν : Type} [NumOps ν]

abbrev InHeapQ : Addr → VM ν → Prop := fun r s' => r < s'.heap.size

structure AllV (ν : Type) [NumOps ν] (n : Nat) : Prop where
  evalExpr : ∀ (e : Expr) (s : VM ν), CExpr e → VI s → VPost s InHeapQ (evalExpr n e s)
  memberIV : ∀ (l rt : Nat) (r : Expr) (mt : Nat) (mid : Option Ident) (idx : Expr) (s : VM ν),
    CExpr (.member l rt r mt mid idx) → VI s →
    VPost s (fun (iv : Nat × Addr × String × Int) s' => iv.2.1 < s'.heap.size) (memberIV n (.member l rt r mt mid idx) s)

theorem allV_zero : AllV ν 0 :=
  ⟨fun e s _ hs => by unfold evalExpr; exact VPost.fuel hs, fun l rt r mt mid idx s _ hs => by unfold memberIV; exact VPost.fuel hs⟩

/-- arguments, list items: every one evaluated in turn, all of them still cells at the end -/
theorem vpost_evalList {n : Nat} (ih : AllV ν n) (xs : List Expr) (hxs : ∀ x ∈ xs, CExpr x) {s : VM ν} (hs : VI s) :
    VPost s (fun vs s' => ∀ v ∈ vs, v < s'.heap.size) (xs.mapM (evalExpr n) s) :=
  vpost_mapM (P := InHeapQ) inHeap_stable xs s hs (fun x hx s' hs' _ => ih.evalExpr x s' (hxs x hx) hs')

theorem matchIDNameOpt_some (i : Ident) : matchIDNameOpt (ν := ν) (some i) = matchIDName i.lit := rfl

/-- `得到 y` after a call -/
theorem vpost_yield {s : VM ν} (hs : VI s) (yld : Option Ident) {res : Addr} (hres : res < s.heap.size) :
    VPost s InHeapQ ((match yld with
      | none => pure res
      | some y => do
        let yn ← matchIDName y.lit
        declareElement yn res true
        pure res : M ν Addr) s) := by
  cases yld with
  | none => exact VPost.pure hs hres
  | some y =>
    dsimp only
    refine RO.vpost_bind hs (ro_matchIDName y.lit s) (fun yn _ => ?_)
    refine VPost.bind (vpost_declareElement hs yn hres true none) (fun _ s3 hs3 _ hh => ?_)
    exact VPost.pure hs3 (by show res < s3.heap.size; rw [hh]; exact hres)

theorem evalExpr_succ (n : Nat) (ih : AllV ν n) (e : Expr) (s : VM ν) (hce : CExpr e) (hs : VI s) :
    VPost s InHeapQ (evalExpr (n+1) e s) := by
  cases hce with
  | id i =>
    rw [evalExpr]
    refine RO.vpost_bind hs (ro_matchIDType i.lit s) (fun t _ => ?_)
    cases t with
    | name nm => exact (RO.vpost hs (ro_findElement hs nm)).weaken (fun a s' _ _ q => by rw [q.1]; exact q.2)
    | number x => exact vpost_newNum hs x
  | str l t => rw [evalExpr]; exact vpost_newStr hs t
  | arr l xs hxs =>
    rw [evalExpr]
    refine VPost.bind (vpost_evalList ih xs hxs hs) (fun vs s1 hs1 _ hvs => ?_)
    exact vpost_alloc_lt hs1 (c := .arr vs) hvs trivial
  | hm l kvs hk hv =>
    rw [evalExpr]
    refine VPost.bind (vpost_mapM (P := fun (b : String × Addr) s => b.2 < s.heap.size)
      (fun b s s' h e => Nat.lt_of_lt_of_le h e.size) kvs s hs (fun kv hkv s' hs' _ => ?_)) (fun pairs s1 hs1 _ hp => ?_)
    · have hv2 := hv kv hkv
      obtain ⟨k, v⟩ := kv
      have hbody : ∀ key : String, VPost s' (fun (b : String × Addr) s => b.2 < s.heap.size)
          ((do let a ← evalExpr n v; pure (key, a) : M ν (String × Addr)) s') := fun key =>
        VPost.bind (ih.evalExpr v s' hv2 hs') (fun a s2 hs2 _ hvv => VPost.pure hs2 hvv)
      cases k with
      | str _ t => exact hbody t
      | id i => exact RO.vpost_bind hs' (ro_matchIDType i.lit s') (fun _ _ => hbody i.lit)
      | _ => exact VPost.rtErr _ hs'
    · exact vpost_alloc_lt hs1 (newHashMapCell_ok pairs hp) (plain_newHashMapCell pairs)
  | assign l t rhs hassign hct hcr =>
    rw [evalExpr]
    refine VPost.bind (ih.evalExpr rhs s hcr hs) (fun vr0 s1 hs1 _ hvr0 => ?_)
    refine VPost.bind (vpost_dup n hs1 hvr0) (fun vr s2 hs2 _ hvr => ?_)
    cases t with
    | id i =>
      dsimp only
      refine RO.vpost_bind hs2 (ro_matchIDName i.lit s2) (fun nm _ => ?_)
      refine VPost.bind (vpost_setElement hs2 nm hvr) (fun _ s3 hs3 _ hh => ?_)
      exact VPost.pure hs3 (by show vr < s3.heap.size; rw [hh]; exact hvr)
    | member ml rt r mt mid idx =>
      dsimp only
      split
      · refine VPost.bind (ih.memberIV ml rt r mt mid idx s2 hct hs2) (fun iv s3 hs3 e3 hiv => ?_)
        obtain ⟨kind, root, name, ix⟩ := iv
        have hvr3 : vr < s3.heap.size := Nat.lt_of_lt_of_le hvr e3.size
        refine VPost.bind (VPost.ofPost hs3 (kr_reduceLHS (kind, root, name, ix) vr)
          (post_reduceLHS kind name ix hs3.heap hiv hvr3)) (fun _ s4 hs4 e4 _ => ?_)
        exact VPost.pure hs4 (Nat.lt_of_lt_of_le hvr3 e4.size)
      · exact VPost.rtErr _ hs2
    | _ => exact VPost.rtErr _ hs2
  | logic l ty a b _ hca hcb =>
    rw [evalExpr]
    split
    · refine VPost.bind (ih.evalExpr a s hca hs) (fun lv s1 hs1 _ hlv => ?_)
      refine vpost_getCell_bind hs1 hlv (fun c hc => ?_)
      cases c with
      | bool lb =>
        dsimp only
        split
        · exact vpost_newBool hs1 _
        · split
          · exact vpost_newBool hs1 _
          · refine VPost.bind (ih.evalExpr b s1 hcb hs1) (fun rv s2 hs2 _ hrv => ?_)
            refine vpost_getCell_bind hs2 hrv (fun c2 hc2 => ?_)
            cases c2 with
            | bool rb => exact vpost_newBool hs2 _
            | _ => exact VPost.rtErr _ hs2
      | _ => exact VPost.rtErr _ hs1
    · refine VPost.bind (ih.evalExpr a s hca hs) (fun lv s1 hs1 _ hlv => ?_)
      refine VPost.bind (ih.evalExpr b s1 hcb hs1) (fun rv s2 hs2 e2 hrv => ?_)
      have hlv2 : lv < s2.heap.size := Nat.lt_of_lt_of_le hlv e2.size
      split
      · refine RO.vpost_bind hs2 (ro_compareXEQ n hs2.heap hlv2 hrv) (fun bb _ => ?_)
        exact vpost_newBool hs2 _
      · split
        · refine RO.vpost_bind hs2 (ro_compareXEQ n hs2.heap hlv2 hrv) (fun bb _ => ?_)
          exact vpost_newBool hs2 _
        · split
          · refine vpost_getCell_bind hs2 hlv2 (fun c hc => ?_)
            cases c with
            | num x =>
              dsimp only
              refine vpost_getCell_bind hs2 hrv (fun c2 hc2 => ?_)
              cases c2 with
              | num y => exact vpost_newBool hs2 _
              | _ => exact VPost.rtErr _ hs2
            | _ => exact VPost.rtErr _ hs2
          · exact VPost.rtErr _ hs2
  | arith l ty a b _ hca hcb =>
    rw [evalExpr]
    split
    · refine VPost.bind (ih.evalExpr a s hca hs) (fun lv s1 hs1 _ hlv => ?_)
      refine VPost.bind (ih.evalExpr b s1 hcb hs1) (fun rv s2 hs2 e2 hrv => ?_)
      have hlv2 : lv < s2.heap.size := Nat.lt_of_lt_of_le hlv e2.size
      refine vpost_getCell_bind hs2 hlv2 (fun c hc => ?_)
      refine vpost_getCell_bind hs2 hrv (fun c2 hc2 => ?_)
      split
      · split
        · exact VPost.rtErr _ hs2
        · exact vpost_newNum hs2 _
      · exact VPost.notModelled hs2
      · exact VPost.rtErr _ hs2
    · refine VPost.bind (ih.evalExpr a s hca hs) (fun lv s1 hs1 _ hlv => ?_)
      refine vpost_getCell_bind hs1 hlv (fun c hc => ?_)
      cases c with
      | num x =>
        dsimp only
        refine VPost.bind (ih.evalExpr b s1 hcb hs1) (fun rv s2 hs2 _ hrv => ?_)
        refine vpost_getCell_bind hs2 hrv (fun c2 hc2 => ?_)
        cases c2 with
        | num y =>
          dsimp only
          repeat' split
          all_goals first | exact vpost_newNum hs2 _ | exact VPost.rtErr _ hs2
        | _ => exact VPost.rtErr _ hs2
      | _ => exact VPost.rtErr _ hs1
  | memberDot l r i hcr =>
    rw [evalExpr]
    refine VPost.bind (ih.memberIV l 1 r 1 (some i) .nil s (.memberDot l r i hcr) hs) (fun iv s1 hs1 _ hiv => ?_)
    obtain ⟨kind, root, name, ix⟩ := iv
    exact (VPost.ofPost hs1 (kr_reduceRHS n _) (post_reduceRHS n kind name ix hs1.heap hiv).ofPre).weaken (fun _ _ _ _ q => q.1)
  | memberThis l i =>
    rw [evalExpr]
    refine VPost.bind (ih.memberIV l 2 .nil 1 (some i) .nil s (.memberThis l i) hs) (fun iv s1 hs1 _ hiv => ?_)
    obtain ⟨kind, root, name, ix⟩ := iv
    exact (VPost.ofPost hs1 (kr_reduceRHS n _) (post_reduceRHS n kind name ix hs1.heap hiv).ofPre).weaken (fun _ _ _ _ q => q.1)
  | memberIdx l r idx hcr hci =>
    rw [evalExpr]
    refine VPost.bind (ih.memberIV l 1 r 2 none idx s (.memberIdx l r idx hcr hci) hs) (fun iv s1 hs1 _ hiv => ?_)
    obtain ⟨kind, root, name, ix⟩ := iv
    exact (VPost.ofPost hs1 (kr_reduceRHS n _) (post_reduceRHS n kind name ix hs1.heap hiv).ofPre).weaken (fun _ _ _ _ q => q.1)
  | call l nm ps y hps =>
    rw [evalExpr]
    rw [matchIDNameOpt_some]
    refine RO.vpost_bind hs (ro_matchIDName nm.lit s) (fun fname _ => ?_)
    refine VPost.bind (vpost_evalList ih ps hps hs) (fun vals s1 hs1 _ hvals => ?_)
    refine VPost.bind (vpost_execDirectFunction n hs1 fname hvals) (fun res s2 hs2 _ hres => ?_)
    exact vpost_yield hs2 y hres
  | mcall l r c y hcr hne hcc =>
    rw [evalExpr]
    refine VPost.bind (ih.evalExpr r s hcr hs) (fun rv s1 hs1 _ hrv => ?_)
    refine VPost.bind (vpost_foldlM (P := InHeapQ) c rv s1 hs1 hrv (fun f hf cur s' hs' _ hcur => ?_)) (fun last s2 hs2 _ hlast => ?_)
    · cases hcc f hf with
      | mk cl cn cps cy hcps =>
        dsimp only
        rw [matchIDNameOpt_some]
        refine RO.vpost_bind hs' (ro_matchIDName cn.lit s') (fun fname _ => ?_)
        refine VPost.bind (vpost_evalList ih cps hcps hs') (fun vals s3 hs3 e3 hvals => ?_)
        exact vpost_execMethodFunction n hs3 (Nat.lt_of_lt_of_le hcur e3.size) fname hvals
    · exact vpost_yield hs2 y hlast
  | new l c ps hps =>
    rw [evalExpr]
    rw [matchIDNameOpt_some]
    refine RO.vpost_bind hs (ro_matchIDName c.lit s) (fun cname _ => ?_)
    refine RO.vpost_bind hs (ro_findElement hs cname) (fun cv hcv => ?_)
    refine vpost_getCell_bind hs hcv (fun cell hcell => ?_)
    cases cell with
    | cls cn ct cp cm =>
      dsimp only
      refine VPost.bind (vpost_evalList ih ps hps hs) (fun vals s1 hs1 e1 hvals => ?_)
      exact vpost_construct n hs1 (e1.cls cv ⟨cn, ct, cp, cm, hcell⟩) hvals
    | num x =>
      dsimp only
      refine VPost.bind (vpost_evalList ih ps hps hs) (fun vals s1 hs1 e1 hvals => ?_)
      refine RO.vpost_bind hs1 (ro_validateExact _ hvals) (fun _ hval => ?_)
      obtain ⟨p, rfl, _⟩ := exact1 hval
      exact VPost.pure hs1 (hvals p (by simp))
    | _ => exact VPost.rtErr _ hs

theorem memberIV_succ (n : Nat) (ih : AllV ν n) (l rt : Nat) (r : Expr) (mt : Nat) (mid : Option Ident) (idx : Expr) (s : VM ν)
    (hce : CExpr (.member l rt r mt mid idx)) (hs : VI s) :
    VPost s (fun (iv : Nat × Addr × String × Int) s' => iv.2.1 < s'.heap.size) (memberIV (n+1) (.member l rt r mt mid idx) s) := by
  cases hce with
  | memberThis _ i =>
    rw [memberIV]
    dsimp only
    rw [if_pos (by decide)]
    refine RO.vpost_bind hs (ro_getThis hs) (fun o ho => ?_)
    cases o with
    | none => exact VPost.rtErr _ hs
    | some t => exact VPost.pure hs (ho t rfl)
  | memberDot _ _ i hcr =>
    rw [memberIV]
    dsimp only
    rw [if_neg (by decide), if_pos (by decide)]
    refine VPost.bind (ih.evalExpr r s hcr hs) (fun rv s1 hs1 _ hrv => ?_)
    rw [if_pos (by decide)]
    exact VPost.pure hs1 hrv
  | memberIdx _ _ _ hcr hci =>
    rw [memberIV]
    dsimp only
    rw [if_neg (by decide), if_pos (by decide)]
    refine VPost.bind (ih.evalExpr r s hcr hs) (fun rv s1 hs1 _ hrv => ?_)
    rw [if_neg (by decide), if_pos (by decide)]
    refine VPost.bind (ih.evalExpr idx s1 hci hs1) (fun iv s2 hs2 e2 hiv => ?_)
    have hrv2 : rv < s2.heap.size := Nat.lt_of_lt_of_le hrv e2.size
    refine vpost_getCell_bind hs2 hrv2 (fun c hc => ?_)
    cases c with
    | arr items =>
      dsimp only
      refine vpost_getCell_bind hs2 hiv (fun c2 hc2 => ?_)
      cases c2 with
      | num x => exact VPost.pure hs2 hrv2
      | _ => exact VPost.rtErr _ hs2
    | hm vals order =>
      dsimp only
      refine vpost_getCell_bind hs2 hiv (fun c2 hc2 => ?_)
      cases c2 with
      | num x => exact VPost.pure hs2 hrv2
      | str t => exact VPost.pure hs2 hrv2
      | _ => exact VPost.rtErr _ hs2
    | _ => exact VPost.rtErr _ hs2

/-- the evaluator-level fact: for every fuel, a complete expression evaluated in a state that satisfies `VI` never panics -/
theorem allV : ∀ n : Nat, AllV ν n
  | 0 => allV_zero
  | n+1 => ⟨evalExpr_succ n (allV n), memberIV_succ n (allV n)⟩

end ZnVerif.Proofs.VarInput
