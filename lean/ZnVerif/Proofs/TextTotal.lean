/-
C10, text methods: inside the fragment the model covers (`TextFragment`) a text method applied to any argument list
ends with a value or with an error — never `unmodelled`, never out of fuel (the text methods use none).  `Ends m` is
compositional like `NoSig` (Proofs/LoopSignals.lean); panics are excluded by `post_builtinMethod`
(Proofs/BuiltinMembers.lean) on well-formed heaps.
-/
import ZnVerif.Proofs.BuiltinMembers
set_option linter.unusedSectionVars false
set_option linter.unusedVariables false

namespace ZnVerif.Proofs.TextTotal
open ZnVerif.Model ZnVerif.Proofs.Builtins

variable {ν : Type} [NumOps ν]

/-- an outcome that is a value, an error or a panic -/
def Res.decided {α} : Res α → Prop
  | .unmodelled => False
  | .fuel => False
  | _ => True

/-- `m` never answers `unmodelled` or `fuel` -/
structure Ends {α} (m : M ν α) : Prop where
  out : ∀ s, Res.decided (m s).1

theorem Ends.pure {α} (a : α) : Ends (pure a : M ν α) := ⟨fun _ => trivial⟩

theorem Ends.bind {α β} {m : M ν α} {f : α → M ν β} (hm : Ends m) (hf : ∀ a, Ends (f a)) : Ends (m >>= f) := by
  constructor
  intro s
  rw [bind_apply]
  have h1 := hm.out s
  rcases hms : m s with ⟨r, s1⟩
  rw [hms] at h1
  cases r with
  | ok a => exact (hf a).out s1
  | err e => trivial
  | panic => trivial
  | fuel => exact h1
  | unmodelled => exact h1

theorem Ends.throwE {α} (e : Err) : Ends (throwE e : M ν α) := ⟨fun _ => trivial⟩
theorem Ends.rtErr {α} (c : Nat) : Ends (rtErr c : M ν α) := ⟨fun _ => trivial⟩
theorem Ends.goPanic {α} : Ends (goPanic : M ν α) := ⟨fun _ => trivial⟩
theorem Ends.alloc (c : Cell ν) : Ends (alloc c) := ⟨fun _ => trivial⟩
theorem Ends.newBool (b : Bool) : Ends (newBool b : M ν Addr) := Ends.alloc _
theorem Ends.newNum (x : ν) : Ends (newNum x : M ν Addr) := Ends.alloc _
theorem Ends.newStr (x : String) : Ends (newStr x : M ν Addr) := Ends.alloc _
theorem Ends.getCell (a : Addr) : Ends (getCell a : M ν (Cell ν)) := by
  constructor; intro s; unfold Model.getCell; split <;> trivial
theorem Ends.setCell (a : Addr) (c : Cell ν) : Ends (setCell a c) := by
  constructor; intro s; unfold Model.setCell; split <;> trivial

theorem Ends.forM {α} {f : α → M ν PUnit} (hf : ∀ a, Ends (f a)) : ∀ xs : List α, Ends (xs.forM f)
  | [] => Ends.pure _
  | x :: xs => by
    have e : (x :: xs).forM f = (do f x; xs.forM f) := rfl
    rw [e]
    exact Ends.bind (hf x) fun _ => Ends.forM hf xs

theorem Ends.mapM {α β} {f : α → M ν β} (hf : ∀ a, Ends (f a)) : ∀ xs : List α, Ends (xs.mapM f)
  | [] => by rw [List.mapM_nil]; exact Ends.pure _
  | x :: xs => by
    rw [List.mapM_cons]
    exact Ends.bind (hf x) fun _ => Ends.bind (Ends.mapM hf xs) fun _ => Ends.pure _

theorem Ends.validateOne (a : Addr) (ty : String) : Ends (validateOne a ty : M ν Unit) := by
  unfold Model.validateOne
  refine Ends.bind (Ends.getCell a) fun c => ?_
  split
  · exact Ends.pure _
  · exact Ends.rtErr _

theorem Ends.validateAll (vals : List Addr) (ty : String) : Ends (validateAll vals ty : M ν Unit) :=
  Ends.forM (fun a => Ends.validateOne a ty) vals

theorem Ends.validateExact (vals : List Addr) (tys : List String) : Ends (validateExact vals tys : M ν Unit) := by
  unfold Model.validateExact
  split
  · exact Ends.rtErr _
  · exact Ends.forM (fun (p : Addr × String) => Ends.validateOne p.1 p.2) _

syntax "ends_leaf" : tactic
macro_rules | `(tactic| ends_leaf) => `(tactic| first
  | exact Ends.pure _ | exact Ends.rtErr _ | exact Ends.goPanic | exact Ends.throwE _
  | exact Ends.getCell _ | exact Ends.setCell _ _ | exact Ends.alloc _ | exact Ends.newBool _
  | exact Ends.newNum _ | exact Ends.newStr _ | exact Ends.validateExact _ _ | exact Ends.validateAll _ _
  | assumption)
macro "ends" : tactic => `(tactic| repeat' (first
  | with_reducible ends_leaf | with_reducible apply Ends.bind | with_reducible apply Ends.mapM
  | intro _ | dsimp only | split))

/-- the fragment of the text methods the model covers: case mapping of texts whose characters are ASCII or without case,
    转换数值 on texts that (after the rewrite of `*^` / `*10^`) are not one of the spellings `strconv.ParseFloat` accepts
    beyond plain decimal numerals and cannot be out of range -/
def TextFragment (t : String) (name : String) : Prop :=
  (name = "转小写-英文" → (TextOps.toLower (textBytes t)).isSome = true) ∧
  (name = "转大写-英文" → (TextOps.toUpper (textBytes t)).isSome = true) ∧
  (name = "转换数值" → TextOps.atofClass (TextOps.atoiRewrite (textBytes t)) ≠ .special)

/-- every method name on a text receiver, every argument list: inside the fragment the outcome is decided -/
theorem ends_text (n : Nat) (a : Addr) (name : String) (vals : List Addr) (t : String) (s : VM ν)
    (hc : s.heap[a]? = some (.str t)) (hf : TextFragment t name) :
    Res.decided (builtinMethod n a name vals s).1 := by
  unfold builtinMethod
  rw [bind_apply, getCell_apply hc]
  dsimp only
  split
  -- 拼接, 匹配, 匹配开头, 匹配结尾, 替换, 分隔, 取样, 去除空格
  iterate 8
    · refine Ends.out (m := _) ?_ s
      ends
  -- 转小写-英文
  · have h := hf.1 rfl
    cases hl : TextOps.toLower (textBytes t) with
    | none => rw [hl] at h; cases h
    | some r => exact (Ends.newStr _).out s
  -- 转大写-英文
  · have h := hf.2.1 rfl
    cases hl : TextOps.toUpper (textBytes t) with
    | none => rw [hl] at h; cases h
    | some r => exact (Ends.newStr _).out s
  -- 格式化
  · refine Ends.out (m := _) ?_ s
    ends
  -- 转换数值
  · have h := hf.2.2 rfl
    refine Ends.out (m := _) ?_ s
    refine Ends.bind (Ends.setCell _ _) fun _ => ?_
    cases hk : TextOps.atofClass (TextOps.atoiRewrite (textBytes t)) with
    | number => exact Ends.newNum _
    | syntaxErr => exact Ends.bind (Ends.alloc _) fun _ => Ends.throwE _
    | special => exact absurd hk h
  · trivial

end ZnVerif.Proofs.TextTotal
