/-
Zones: a typing discipline on heap addresses used for the program-level closure of C07 (Properties/C07.lean,
`copies_independent_program_level`).

A zone `Z` splits the addresses into *tainted* ones (`Z.T` — the addresses the mutating side of a program may ever hold),
*writable* ones (`Z.W ⊆ Z.T` — the tainted addresses that may be overwritten) and the rest, whose cells are pinned to a
fixed heap `Z.fix`.  `ZInv Z h`: every non-writable cell of `h` is the pinned one, every cell at a tainted address is a
plain data cell all of whose links are tainted again, and every address not yet allocated is writable.

`Tight Z Q m`: started in a heap that satisfies the zone invariant, every run of `m` — whatever its outcome — changes
nothing but the heap and leaves every non-writable cell pinned; a successful run re-establishes the invariant and
answers a value satisfying `Q`.  The rules below are a small Hoare calculus for this judgment over the monad `M ν`
(same shape as `Pres` in HeapFrames.lean, plus a postcondition on the answered value).
-/
import ZnVerif.Proofs.HeapStores
set_option linter.unusedSectionVars false
set_option linter.unusedVariables false

namespace ZnVerif.Model

variable {ν : Type} [NumOps ν]

structure Zone (ν : Type) where
  /-- tainted addresses -/
  T : Addr → Prop
  /-- writable addresses -/
  W : Addr → Prop
  /-- the heap the non-writable cells are pinned to -/
  fix : Array (Cell ν)
  /-- writable addresses are tainted -/
  wt : ∀ i, W i → T i
  /-- a tainted address that is not writable holds 空 (the one kind `dup` shares) -/
  nul : ∀ i c, T i → ¬ W i → fix[i]? = some c → c = .null

/-- a plain data cell (not an object, method, type or exception) whose links are all tainted -/
def okCell (Z : Zone ν) (c : Cell ν) : Prop := c.isRefKind = false ∧ ∀ x ∈ c.children, Z.T x

structure ZInv (Z : Zone ν) (h : Array (Cell ν)) : Prop where
  keep : ∀ i, ¬ Z.W i → h[i]? = Z.fix[i]?
  ok : ∀ i c, Z.T i → h[i]? = some c → okCell Z c
  fresh : ∀ i, h.size ≤ i → Z.W i

structure Tight (Z : Zone ν) {α : Type} (Q : α → Prop) (m : M ν α) : Prop where
  run : ∀ s r s', ZInv Z s.heap → m s = (r, s') →
    SameBut s s' ∧ (∀ i, ¬ Z.W i → s'.heap[i]? = Z.fix[i]?) ∧ ∀ a, r = .ok a → ZInv Z s'.heap ∧ Q a

section rules
variable {Z : Zone ν} {α β : Type}

theorem Tight.weaken {Q Q' : α → Prop} {m : M ν α} (h : Tight Z Q m) (hq : ∀ a, Q a → Q' a) : Tight Z Q' m := by
  constructor
  intro s r s' hi hm
  rcases h.run s r s' hi hm with ⟨h1, h2, h3⟩
  exact ⟨h1, h2, fun a ha => ⟨(h3 a ha).1, hq a (h3 a ha).2⟩⟩

/-- an operation that never changes the state -/
theorem tight_of_const {Q : α → Prop} {m : M ν α} (hm : ∀ s, (m s).2 = s) (hq : ∀ s a, ZInv Z s.heap → (m s).1 = .ok a → Q a) :
    Tight Z Q m := by
  constructor
  intro s r s' hi h
  have h1 := hm s
  have h2 := hq s
  rw [h] at h1 h2
  simp only at h1 h2
  subst h1
  exact ⟨SameBut.refl _, hi.keep, fun a ha => ⟨hi, h2 a hi ha⟩⟩

theorem tight_pure {Q : α → Prop} (a : α) (h : Q a) : Tight Z Q (pure a : M ν α) :=
  tight_of_const (fun _ => rfl) (fun s b _ hb => by
    simp only [pure] at hb; injection hb with hb; subst hb; exact h)

theorem tight_fail {Q : α → Prop} {m : M ν α} (hm : ∀ s, (m s).2 = s) (hf : ∀ s a, (m s).1 ≠ .ok a) : Tight Z Q m :=
  tight_of_const hm (fun s a _ h => absurd h (hf s a))

theorem tight_throwE {Q : α → Prop} (e : Err) : Tight Z Q (throwE e : M ν α) :=
  tight_fail (fun _ => rfl) (fun _ _ h => by simp [throwE] at h)
theorem tight_rtErr {Q : α → Prop} (c : Nat) : Tight Z Q (rtErr c : M ν α) := tight_throwE _
theorem tight_goPanic {Q : α → Prop} : Tight Z Q (goPanic : M ν α) :=
  tight_fail (fun _ => rfl) (fun _ _ h => by simp [goPanic] at h)
theorem tight_outOfFuel {Q : α → Prop} : Tight Z Q (outOfFuel : M ν α) :=
  tight_fail (fun _ => rfl) (fun _ _ h => by simp [outOfFuel] at h)
theorem tight_notModelled {Q : α → Prop} : Tight Z Q (notModelled : M ν α) :=
  tight_fail (fun _ => rfl) (fun _ _ h => by simp [notModelled] at h)

theorem tight_bind {Q : α → Prop} {Q' : β → Prop} {m : M ν α} {f : α → M ν β}
    (hm : Tight Z Q m) (hf : ∀ a, Q a → Tight Z Q' (f a)) : Tight Z Q' (m >>= f) := by
  constructor
  intro s r s' hi h
  simp only [bind] at h
  cases h1 : m s with | mk r1 s1 =>
  rw [h1] at h
  rcases hm.run s r1 s1 hi h1 with ⟨g1, g2, g3⟩
  cases r1 with
  | ok a =>
    rcases g3 a rfl with ⟨hi1, hq⟩
    rcases (hf a hq).run s1 r s' hi1 h with ⟨k1, k2, k3⟩
    exact ⟨g1.trans k1, k2, k3⟩
  | err e => simp at h; rw [← h.2, ← h.1]; exact ⟨g1, g2, fun a ha => by cases ha⟩
  | panic => simp at h; rw [← h.2, ← h.1]; exact ⟨g1, g2, fun a ha => by cases ha⟩
  | fuel => simp at h; rw [← h.2, ← h.1]; exact ⟨g1, g2, fun a ha => by cases ha⟩
  | unmodelled => simp at h; rw [← h.2, ← h.1]; exact ⟨g1, g2, fun a ha => by cases ha⟩

/-- a read-only operation (`Pres Same`) is tight, with no information about its answer -/
theorem tight_of_same {m : M ν α} (p : Pres Same m) : Tight Z (fun _ => True) m := by
  constructor
  intro s r s' hi h
  have := p.run s r s' h
  unfold Same at this
  subst this
  exact ⟨SameBut.refl _, hi.keep, fun a _ => ⟨hi, trivial⟩⟩

theorem tight_getCell (a : Addr) (ha : Z.T a) : Tight Z (okCell Z) (getCell a : M ν (Cell ν)) :=
  tight_of_const (fun s => by unfold getCell; cases s.heap[a]? <;> rfl) (fun s c hi h => by
    unfold getCell at h
    cases hc : s.heap[a]? with
    | none => rw [hc] at h; simp at h
    | some c0 => rw [hc] at h; simp at h; subst h; exact hi.ok a c0 ha hc)

theorem ZInv.push {h : Array (Cell ν)} (hi : ZInv Z h) {c : Cell ν} (hc : okCell Z c) : ZInv Z (h.push c) := by
  refine ⟨fun i hw => ?_, fun i c' ht hc' => ?_, fun i hle => hi.fresh i (by simp at hle; omega)⟩
  · have hlt : i < h.size := by
      rcases Nat.lt_or_ge i h.size with hlt | hge
      · exact hlt
      · exact absurd (hi.fresh i hge) hw
    rw [(Ext.push h c).2 i hlt]
    exact hi.keep i hw
  · rw [Array.getElem?_push] at hc'
    split at hc'
    · injection hc' with e; subst e; exact hc
    · exact hi.ok i c' ht hc'

theorem ZInv.set {h : Array (Cell ν)} (hi : ZInv Z h) {a : Addr} {c : Cell ν} (ha : Z.W a) (hc : okCell Z c) :
    ZInv Z (h.set! a c) := by
  refine ⟨fun i hw => ?_, fun i c' ht hc' => ?_, fun i hle => hi.fresh i (by simpa using hle)⟩
  · have hne : a ≠ i := by rintro rfl; exact hw ha
    rw [get_set_ne h a i c hne]
    exact hi.keep i hw
  · by_cases hai : a = i
    · subst hai
      rw [get_set_self_inv h a c c' hc']; exact hc
    · rw [get_set_ne h a i c hai] at hc'
      exact hi.ok i c' ht hc'

theorem tight_alloc (c : Cell ν) (hc : okCell Z c) : Tight Z Z.T (alloc c : M ν Addr) := by
  constructor
  intro s r s' hi h
  simp only [alloc] at h
  injection h with h1 h2
  subst h2
  refine ⟨SameBut.push s c, (hi.push hc).keep, fun a ha => ⟨hi.push hc, ?_⟩⟩
  rw [← h1] at ha
  injection ha with ha
  subst ha
  exact Z.wt _ (hi.fresh _ (Nat.le_refl _))

theorem tight_setCell (a : Addr) (c : Cell ν) (ha : Z.W a) (hc : okCell Z c) : Tight Z (fun _ => True) (setCell a c : M ν Unit) := by
  constructor
  intro s r s' hi h
  simp only [setCell] at h
  split at h
  · injection h with h1 h2
    subst h2
    exact ⟨rfl, (hi.set ha hc).keep, fun _ _ => ⟨hi.set ha hc, trivial⟩⟩
  · injection h with h1 h2
    subst h2
    exact ⟨SameBut.refl _, hi.keep, fun a ha => by rw [← h1] at ha; cases ha⟩

theorem tight_mapM {Q : β → Prop} {f : α → M ν β} (l : List α) (hf : ∀ x ∈ l, Tight Z Q (f x)) :
    Tight Z (fun bs => ∀ b ∈ bs, Q b) (l.mapM f) := by
  induction l with
  | nil => rw [List.mapM_nil]; exact tight_pure _ (by simp)
  | cons x xs ih =>
    rw [List.mapM_cons]
    refine tight_bind (hf x (by simp)) (fun b hb => tight_bind (ih (fun y hy => hf y (by simp [hy]))) (fun bs hbs => ?_))
    exact tight_pure _ (by
      intro y hy
      rcases List.mem_cons.1 hy with rfl | hy
      · exact hb
      · exact hbs y hy)

theorem tight_ite {c : Prop} [Decidable c] {Q : α → Prop} {m1 m2 : M ν α} (h1 : Tight Z Q m1) (h2 : Tight Z Q m2) :
    Tight Z Q (if c then m1 else m2) := by
  split <;> assumption

end rules

/-! ## automation -/

theorem okCell_arr {Z : Zone ν} {items : List Addr} : okCell Z (.arr items : Cell ν) ↔ ∀ x ∈ items, Z.T x := by
  simp [okCell, Cell.isRefKind, Cell.children]
theorem okCell_hm {Z : Zone ν} {vals : List (String × Addr)} {order : List String} :
    okCell Z (.hm vals order : Cell ν) ↔ ∀ x ∈ vals.map Prod.snd, Z.T x := by
  simp [okCell, Cell.isRefKind, Cell.children]
theorem okCell_num {Z : Zone ν} (x : ν) : okCell Z (.num x : Cell ν) := by simp [okCell, Cell.isRefKind, Cell.children]
theorem okCell_str {Z : Zone ν} (x : String) : okCell Z (.str x : Cell ν) := by simp [okCell, Cell.isRefKind, Cell.children]
theorem okCell_bool {Z : Zone ν} (x : Bool) : okCell Z (.bool x : Cell ν) := by simp [okCell, Cell.isRefKind, Cell.children]
theorem okCell_null {Z : Zone ν} : okCell Z (.null : Cell ν) := by simp [okCell, Cell.isRefKind, Cell.children]

theorem okCell_insert {Z : Zone ν} {items items' : List Addr} {idx : Int} {x : Addr} (h : okCell Z (.arr items : Cell ν))
    (hx : Z.T x) (he : insertArrayValue items idx x = .ok items') : okCell Z (.arr items' : Cell ν) :=
  okCell_arr.2 fun y hy => by
    rcases mem_insertArrayValue he hy with h' | rfl
    · exact okCell_arr.1 h y h'
    · exact hx
theorem okCell_dropLast {Z : Zone ν} {items : List Addr} (h : okCell Z (.arr items : Cell ν)) :
    okCell Z (.arr items.dropLast : Cell ν) :=
  okCell_arr.2 fun y hy => okCell_arr.1 h y (mem_of_mem_dropLast' hy)
theorem okCell_hmAppend {Z : Zone ν} {vals : List (String × Addr)} {order : List String} {k : String} {x : Addr}
    (h : okCell Z (.hm vals order : Cell ν)) (hx : Z.T x) :
    okCell Z (.hm (hmAppend vals order k x).1 (hmAppend vals order k x).2 : Cell ν) :=
  okCell_hm.2 fun y hy => by
    rcases snd_mem_hmAppend hy with h' | rfl
    · exact okCell_hm.1 h y h'
    · exact hx
theorem okCell_assocErase {Z : Zone ν} {vals : List (String × Addr)} {order order' : List String} {k : String}
    (h : okCell Z (.hm vals order : Cell ν)) : okCell Z (.hm (assocErase k vals) order' : Cell ν) :=
  okCell_hm.2 fun y hy => okCell_hm.1 h y (snd_mem_assocErase hy)
theorem okCell_set {Z : Zone ν} {items : List Addr} {k : Nat} {x : Addr} (h : okCell Z (.arr items : Cell ν)) (hx : Z.T x) :
    okCell Z (.arr (items.set k x) : Cell ν) :=
  okCell_arr.2 fun y hy => by
    rcases mem_of_mem_set hy with h' | rfl
    · exact okCell_arr.1 h y h'
    · exact hx

/-- side conditions of the leaves: membership in the tainted set, well-typedness of the stored cell -/
syntax "tside" : tactic
macro_rules
  | `(tactic| tside) => `(tactic| first
      | assumption
      | exact trivial
      | exact okCell_num _ | exact okCell_str _ | exact okCell_bool _ | exact okCell_null
      | solve_by_elim
      | exact okCell_insert (by assumption) (by assumption) (by assumption)
      | exact okCell_dropLast (by assumption)
      | exact okCell_hmAppend (by assumption) (by assumption)
      | exact okCell_assocErase (by assumption)
      | (simp only [okCell_arr, okCell_hm, List.mem_cons, List.mem_append, List.mem_singleton, List.not_mem_nil,
           or_false, false_or, forall_eq_or_imp, forall_eq] at *; done)
      | (simp only [okCell_arr, okCell_hm, List.mem_cons, List.mem_append, List.mem_singleton, List.not_mem_nil,
           or_false, false_or, forall_eq_or_imp, forall_eq] at *; grind)
      | (simp only [okCell_arr, okCell_hm, List.mem_cons, List.mem_append, List.mem_singleton, List.not_mem_nil,
           or_false, false_or, forall_eq_or_imp, forall_eq, List.mem_flatten] at *; grind))

theorem tight_newNull {Z : Zone ν} : Tight Z Z.T (newNull : M ν Addr) := tight_alloc _ okCell_null
theorem tight_newBool {Z : Zone ν} (b : Bool) : Tight Z Z.T (newBool b : M ν Addr) := tight_alloc _ (okCell_bool _)
theorem tight_newNum {Z : Zone ν} (x : ν) : Tight Z Z.T (newNum x : M ν Addr) := tight_alloc _ (okCell_num _)
theorem tight_newStr {Z : Zone ν} (x : String) : Tight Z Z.T (newStr x : M ν Addr) := tight_alloc _ (okCell_str _)

theorem Tight.toTrue {Z : Zone ν} {α : Type} {Q : α → Prop} {m : M ν α} (h : Tight Z Q m) : Tight Z (fun _ => True) m :=
  h.weaken (fun _ _ => trivial)

syntax "tight_leaf0" : tactic
macro_rules
  | `(tactic| tight_leaf0) => `(tactic| first
      | with_reducible exact tight_throwE _ | with_reducible exact tight_rtErr _
      | with_reducible exact tight_goPanic | with_reducible exact tight_outOfFuel
      | with_reducible exact tight_notModelled
      | with_reducible exact tight_pure _ trivial
      | with_reducible exact tight_pure _ (by tside)
      | with_reducible exact tight_getCell _ (by tside)
      | with_reducible exact tight_setCell _ _ (by tside) (by tside)
      | with_reducible exact tight_alloc _ (by tside)
      | with_reducible exact tight_newNull | with_reducible exact tight_newBool _
      | with_reducible exact tight_newNum _ | with_reducible exact tight_newStr _
      | with_reducible exact tight_of_same (validateOne_same _ _)
      | with_reducible exact tight_of_same (validateExact_same _ _)
      | with_reducible exact tight_of_same (validateAll_same _ _)
      | with_reducible exact tight_of_same (display_same _ _)
      | with_reducible exact tight_of_same (compareXEQ_same _ _ _))

syntax "tight_leaf" : tactic
macro_rules
  | `(tactic| tight_leaf) => `(tactic| first
      | tight_leaf0
      | (with_reducible apply Tight.toTrue; tight_leaf0))

syntax "tight_step" : tactic
macro_rules
  | `(tactic| tight_step) => `(tactic| first
      | with_reducible apply tight_bind
      | (intro _ _; try dsimp only)
      | tight_leaf
      | with_reducible apply tight_mapM
      | split)

macro "tight_auto" : tactic => `(tactic| repeat' tight_step)

theorem lookup_mem_snd {β} {k : String} {v : β} : ∀ {l : List (String × β)}, lookup k l = some v → v ∈ l.map Prod.snd := by
  intro l
  induction l with
  | nil => intro h; simp [lookup] at h
  | cons p ps ih =>
    intro h
    rcases p with ⟨k', v'⟩
    by_cases hk : k = k'
    · simp [lookup, hk] at h; simp [h]
    · simp [lookup, hk] at h; simp; exact .inr (by simpa using ih h)

/-- the links of a cell built by `NewHashMap` are among the given values -/
theorem newHashMapCell_children (kvs : List (String × Addr)) :
    ∀ x ∈ (newHashMapCell kvs : Cell ν).children, x ∈ kvs.map Prod.snd := by
  have key : ∀ (l : List (String × Addr)) (acc : List (String × Addr) × List String),
      ∀ x ∈ (l.foldl (fun (acc : List (String × Addr) × List String) kv =>
        match lookup kv.1 acc.1 with
        | some _ => (assocSet kv.1 kv.2 acc.1, acc.2)
        | none => (acc.1 ++ [kv], acc.2 ++ [kv.1])) acc).1.map Prod.snd, x ∈ acc.1.map Prod.snd ∨ x ∈ l.map Prod.snd := by
    intro l
    induction l with
    | nil => intro acc x hx; exact .inl hx
    | cons p ps ih =>
      intro acc x hx
      rw [List.foldl_cons] at hx
      rcases ih _ x hx with h | h
      · split at h
        · rcases snd_mem_assocSet h with h | h
          · exact .inl h
          · exact .inr (by simp [h])
        · simp only [List.map_append, List.mem_append, List.map_cons, List.map_nil, List.mem_singleton] at h
          rcases h with h | h
          · exact .inl h
          · exact .inr (by simp [h])
      · exact .inr (by simp only [List.map_cons, List.mem_cons]; exact .inr h)
  intro x hx
  simp only [newHashMapCell, Cell.children] at hx
  rcases key kvs ([], []) x hx with h | h
  · simp at h
  · exact h

theorem okCell_newHashMapCell {Z : Zone ν} (kvs : List (String × Addr)) (h : ∀ p ∈ kvs, Z.T p.2) :
    okCell Z (newHashMapCell kvs : Cell ν) := by
  refine ⟨?_, fun x hx => ?_⟩
  · simp only [newHashMapCell]; rfl
  · have := newHashMapCell_children (ν := ν) kvs x hx
    rcases List.mem_map.1 this with ⟨p, hp, rfl⟩
    exact h p hp

/-- `DuplicateValue` of a tainted value answers a tainted value -/
theorem tight_dup (Z : Zone ν) : ∀ (n : Nat) (a : Addr), Z.T a → Tight Z Z.T (dup n a : M ν Addr) := by
  intro n
  induction n with
  | zero => intro a _; exact tight_outOfFuel
  | succ n ih =>
    intro a ha
    unfold dup
    refine tight_bind (tight_getCell a ha) (fun c hc => ?_)
    split
    · exact tight_newBool _
    · exact tight_newStr _
    · exact tight_newNum _
    · exact tight_pure _ ha
    · rename_i items
      refine tight_bind (tight_mapM items (fun x hx => ih x (okCell_arr.1 hc x hx))) (fun vs hvs => ?_)
      exact tight_alloc _ (okCell_arr.2 hvs)
    · rename_i vals order
      refine tight_bind (Q := fun kvs => ∀ p ∈ kvs, Z.T p.2) (tight_mapM order (fun k _ => ?_)) (fun kvs hkvs => ?_)
      · split
        · rename_i v hl
          exact tight_bind (ih v (okCell_hm.1 hc v (lookup_mem_snd hl))) (fun v' hv' => tight_pure _ hv')
        · exact tight_goPanic
      · exact tight_alloc _ (okCell_newHashMapCell kvs hkvs)
    all_goals exact tight_pure _ ha

macro_rules
  | `(tactic| tight_leaf0) => `(tactic| with_reducible exact tight_dup _ _ _ (by tside))

theorem tight_goGet (Z : Zone ν) : ∀ (l : List Addr) (cur : Addr), Z.T cur → (∀ k ∈ l, Z.T k) →
    Tight Z Z.T (builtinMethod.goGet cur l : M ν Addr) := by
  intro l
  induction l with
  | nil => intro cur hc _; unfold builtinMethod.goGet; exact tight_pure _ hc
  | cons k rest ih =>
    intro cur hc hl
    unfold builtinMethod.goGet
    refine tight_bind (tight_getCell k (hl k (by simp))) (fun ck _ => ?_)
    split
    · refine tight_bind (tight_getCell cur hc) (fun cc hcc => ?_)
      split
      · split
        · rename_i v hv
          exact ih v (okCell_hm.1 hcc v (lookup_mem_snd hv)) (fun k' hk' => hl k' (by simp [hk']))
        · exact tight_newNull
      · exact tight_newNull
    · exact tight_goPanic

macro_rules
  | `(tactic| tight_leaf0) => `(tactic| first
      | with_reducible exact tight_of_same (goContains_pres _ _ _)
      | with_reducible exact tight_of_same (goFind_pres _ _ _ _)
      | with_reducible exact tight_of_same (goArith_pres _ _ _ _)
      | with_reducible exact tight_goGet _ _ _ (by tside) (by tside))

/-- `value.ThrowException`: the run fails after allocating the exception value — nothing but the heap changes, the pinned
cells stay (a failed run owes no more) -/
theorem tight_throwException {Z : Zone ν} {α : Type} {Q : α → Prop} (msg : String) :
    Tight Z Q (throwException msg : M ν α) := by
  constructor
  intro s r s' hi h
  have hrun : (throwException msg : M ν α) s =
      (.err (.sigExc s.heap.size), { s with heap := s.heap.push (.exc msg) }) := rfl
  rw [hrun] at h
  injection h with h1 h2
  subst h2
  refine ⟨SameBut.push s _, fun i hw => ?_, fun a ha => by rw [← h1] at ha; cases ha⟩
  have hlt : i < s.heap.size := by
    rcases Nat.lt_or_ge i s.heap.size with hlt | hge
    · exact hlt
    · exact absurd (hi.fresh i hge) hw
  show (s.heap.push (.exc msg))[i]? = _
  rw [(Ext.push s.heap _).2 i hlt]
  exact hi.keep i hw

macro_rules
  | `(tactic| tight_step) => `(tactic| with_reducible exact tight_throwException _)

set_option maxHeartbeats 1600000 in
/-- **every built-in method, on a writable receiver with tainted arguments**: whatever its name, its arguments and its
outcome, it changes nothing but the heap, leaves the pinned cells alone, and — when it succeeds — every cell it wrote or
allocated is a data cell whose links are tainted (old links of the receiver, duplicates, or new cells) -/
theorem builtinMethod_tight (Z : Zone ν) (n : Nat) (a : Addr) (name : String) (vals : List Addr)
    (ha : Z.W a) (hv : ∀ v ∈ vals, Z.T v) : Tight Z (fun _ => True) (builtinMethod n a name vals : M ν Addr) := by
  have hta : Z.T a := Z.wt a ha
  unfold builtinMethod
  tight_auto

end ZnVerif.Model
