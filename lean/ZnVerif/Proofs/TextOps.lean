/-
Helper lemmas for C14: 取样 (index arithmetic + positions) and 分隔 (byte-level cutting never lands
inside a character).
-/
import ZnVerif.Proofs.TextUtf8
import ZnVerif.Spec.TextOps

namespace ZnVerif.Proofs.TextOps
open ZnVerif.Model ZnVerif.Spec
open ZnVerif.Proofs.TextUtf8

/-! ### positions -/

theorem pick_empty {α : Type} (a b : Int) (h : a > b) : ∀ (cs : List α) (p : Int), TextOps.pick a b p cs = [] := by
  intro cs
  induction cs with
  | nil => intro p; rfl
  | cons c r ih =>
    intro p
    have : ¬ (a ≤ p ∧ p ≤ b) := by omega
    simp [TextOps.pick, this, ih]

theorem pick_beyond {α : Type} (a b : Int) : ∀ (cs : List α) (p : Int), p > b → TextOps.pick a b p cs = [] := by
  intro cs
  induction cs with
  | nil => intro p _; rfl
  | cons c r ih =>
    intro p hp
    have : ¬ (a ≤ p ∧ p ≤ b) := by omega
    simp [TextOps.pick, this, ih (p + 1) (by omega)]

theorem isPrefixOf_cons_cons (a b : Nat) (l m : List Nat) :
    (a :: l).isPrefixOf (b :: m) = (a == b && l.isPrefixOf m) := rfl

/-- from the start position on, the kept elements are a prefix -/
theorem pick_take {α : Type} (a b : Int) : ∀ (cs : List α) (p : Int), a ≤ p →
    TextOps.pick a b p cs = cs.take (b - p + 1).toNat := by
  intro cs
  induction cs with
  | nil => intro p _; simp [TextOps.pick]
  | cons c r ih =>
    intro p hp
    by_cases hb : p ≤ b
    · have e : (b - p + 1).toNat = (b - (p + 1) + 1).toNat + 1 := by omega
      simp [TextOps.pick, hp, hb, ih (p + 1) (by omega), e]
    · have e : (b - p + 1).toNat = 0 := by omega
      have : ¬ (a ≤ p ∧ p ≤ b) := by omega
      rw [TextOps.pick, if_neg this, e, pick_beyond a b r (p + 1) (by omega)]
      rfl

/-- before the start position the elements are skipped -/
theorem pick_drop {α : Type} (a b : Int) : ∀ (cs : List α) (p : Int), p ≤ a →
    TextOps.pick a b p cs = TextOps.pick a b a (cs.drop (a - p).toNat) := by
  intro cs
  induction cs with
  | nil => intro p _; simp [TextOps.pick]
  | cons c r ih =>
    intro p hp
    by_cases he : p = a
    · subst he; simp
    · have hlt : p < a := by omega
      have : ¬ (a ≤ p ∧ p ≤ b) := by omega
      have e : (a - p).toNat = (a - (p + 1)).toNat + 1 := by omega
      rw [TextOps.pick, if_neg this, ih (p + 1) (by omega), e]
      rfl

theorem pick_map {α β : Type} (f : α → β) (a b : Int) : ∀ (cs : List α) (p : Int),
    TextOps.pick a b p (cs.map f) = (TextOps.pick a b p cs).map f := by
  intro cs
  induction cs with
  | nil => intro p; rfl
  | cons c r ih =>
    intro p
    by_cases h : a ≤ p ∧ p ≤ b <;> simp [TextOps.pick, h, ih]

theorem slice_map {α β : Type} (f : α → β) (cs : List α) (i j : Int) :
    Spec.TextOps.slice (cs.map f) i j = (Spec.TextOps.slice cs i j).map (List.map f) := by
  unfold Spec.TextOps.slice
  simp only [List.length_map]
  split
  · rfl
  · split
    · rfl
    · simp [Except.map, pick_map]

def liftErr : Spec.TextOps.SliceErr → Model.TextOps.SliceErr
  | .startIndex => .startIndex
  | .endIndex => .endIndex

/-- `strExecSlice` (rune version) on an encoded text = the spec's positions a..b, encoded -/
theorem slice_encode (t : List Nat) (hv : ValidText t) (i j : Int) :
    Model.TextOps.slice (Model.TextOps.encode t) i j =
      match Spec.TextOps.slice t i j with
      | .ok r => .ok (Model.TextOps.encode r)
      | .error e => .error (liftErr e) := by
  unfold Model.TextOps.slice Spec.TextOps.slice Spec.TextOps.position
  rw [runes_encode t hv]
  dsimp only
  have hpos : (if i < 0 then (t.length : Int) + i + 1 else i) = (if i < 0 then (t.length : Int) + 1 + i else i) := by
    split <;> omega
  rw [hpos]
  generalize ha : (if i < 0 then (t.length : Int) + 1 + i else i) = a
  by_cases h1 : a < 1
  · simp [h1, liftErr]
  · rw [if_neg h1, if_neg h1]
    by_cases h2 : j > (t.length : Int)
    · simp [h2, liftErr]
    · rw [if_neg h2, if_neg h2]
      have hposj : (if j < 0 then (t.length : Int) + j + 1 else j) = (if j < 0 then (t.length : Int) + 1 + j else j) := by
        split <;> omega
      rw [hposj]
      generalize hb : (if j < 0 then (t.length : Int) + 1 + j else j) = b
      have hbn : b ≤ t.length := by
        rw [← hb]; split <;> omega
      dsimp only
      by_cases h3 : a > b
      · rw [if_pos h3, pick_empty a b h3]
        rfl
      · rw [if_neg h3]
        have hg : 0 ≤ a - 1 ∧ a - 1 ≤ b ∧ b ≤ (t.length : Int) := by omega
        rw [if_pos hg]
        rw [pick_drop a b t 1 (by omega), pick_take a b _ a (Int.le_refl a)]
        have e : (b - (a - 1)).toNat = (b - a + 1).toNat := by omega
        rw [e]

/-! ### 分隔: cutting bytes = cutting characters -/

theorem isPrefixOf_iff (a b : List Nat) : a.isPrefixOf b = true ↔ ∃ r, b = a ++ r := by
  rw [List.isPrefixOf_iff_prefix]
  constructor
  · rintro ⟨r, h⟩; exact ⟨r, h.symm⟩
  · rintro ⟨r, h⟩; exact ⟨r, h.symm⟩

/-- an occurrence of the encoded separator at a character boundary is an occurrence of the separator -/
theorem prefix_encode : ∀ (sep t : List Nat), ValidText sep → ValidText t →
    ((Model.TextOps.encode sep).isPrefixOf (Model.TextOps.encode t) = sep.isPrefixOf t) := by
  intro sep
  induction sep with
  | nil => intro t _ _; simp [encode_nil]
  | cons s sep ih =>
    intro t hvs hvt
    obtain ⟨hs, hvs'⟩ := (validText_cons s sep).1 hvs
    cases t with
    | nil =>
      have := encodeRune_ne_nil s
      cases he : Model.TextOps.encodeRune s with
      | nil => exact absurd he this
      | cons b bs => simp [encode_cons, he, encode_nil, List.isPrefixOf]
    | cons c t =>
      obtain ⟨hc, hvt'⟩ := (validText_cons c t).1 hvt
      by_cases hsc : s = c
      · subst hsc
        have : (Model.TextOps.encode (s :: sep)).isPrefixOf (Model.TextOps.encode (s :: t)) =
            (Model.TextOps.encode sep).isPrefixOf (Model.TextOps.encode t) := by
          rw [encode_cons, encode_cons]
          apply Bool.eq_iff_iff.2
          rw [isPrefixOf_iff, isPrefixOf_iff]
          constructor
          · rintro ⟨r, h⟩
            rw [List.append_assoc] at h
            exact ⟨r, List.append_cancel_left h⟩
          · rintro ⟨r, h⟩
            exact ⟨r, by rw [h, List.append_assoc]⟩
        rw [this, ih t hvs' hvt']
        simp [List.isPrefixOf]
      · have h1 : (s :: sep).isPrefixOf (c :: t) = false := by
          simp [List.isPrefixOf, hsc]
        rw [h1]
        apply Bool.eq_false_iff.2
        intro h
        rw [isPrefixOf_iff] at h
        obtain ⟨r, h⟩ := h
        rw [encode_cons, encode_cons, List.append_assoc] at h
        exact hsc (encode_prefix_cons s c hs hc _ _ h.symm).1

/-- passing over `m` more bytes of a found separator -/
theorem splitGo_skip (sep : List Nat) : ∀ (xs : List Nat) (skip : Nat) (cur ys : List Nat),
    Model.TextOps.splitGo sep (xs.length + skip) cur (xs ++ ys) = Model.TextOps.splitGo sep skip cur ys := by
  intro xs
  induction xs with
  | nil => intro skip cur ys; simp
  | cons x xs ih =>
    intro skip cur ys
    have : (x :: xs).length + skip = (xs.length + skip) + 1 := by simp; omega
    rw [this, List.cons_append, Model.TextOps.splitGo, ih]

/-- the encoded separator starts with a lead byte, so it is not found at continuation bytes: they join the piece -/
theorem splitGo_conts (sep : List Nat) (b0 : Nat) (sb : List Nat) (hsep : sep = b0 :: sb)
    (hb0 : Model.TextOps.isCont b0 = false) :
    ∀ (xs : List Nat), (∀ x ∈ xs, Model.TextOps.isCont x = true) → ∀ (cur ys : List Nat),
    Model.TextOps.splitGo sep 0 cur (xs ++ ys) = Model.TextOps.splitGo sep 0 (cur ++ xs) ys := by
  intro xs
  induction xs with
  | nil => intro _ cur ys; simp
  | cons x xs ih =>
    intro hx cur ys
    have hx0 : Model.TextOps.isCont x = true := hx x (by simp)
    have hne : b0 ≠ x := by
      intro h; rw [h] at hb0; rw [hb0] at hx0; exact absurd hx0 (by simp)
    have hnp : sep.isPrefixOf (x :: (xs ++ ys)) = false := by
      rw [hsep]; simp [List.isPrefixOf, hne]
    rw [List.cons_append, Model.TextOps.splitGo, hnp]
    simp only [Bool.false_eq_true, if_false]
    rw [ih (fun y hy => hx y (by simp [hy]))]
    simp

/-- the byte-level cutting of an encoded text by an encoded (non-empty) separator yields exactly the encoded
pieces of the character-level cutting: no cut lands inside a character -/
theorem splitGo_encode (sep : List Nat) (hsep : sep ≠ []) (hvs : ValidText sep) :
    ∀ (t : List Nat), ValidText t → ∀ (k : Nat) (cur : List Nat), k ≤ t.length →
    Model.TextOps.splitGo (Model.TextOps.encode sep) (Model.TextOps.encode (t.take k)).length (Model.TextOps.encode cur)
        (Model.TextOps.encode t) =
      (Spec.TextOps.splitOn sep k cur t).map Model.TextOps.encode := by
  -- the encoded separator starts with a lead byte
  obtain ⟨s0, sep', rfl⟩ := List.exists_cons_of_ne_nil hsep
  obtain ⟨hs0, hvs'⟩ := (validText_cons s0 sep').1 hvs
  obtain ⟨b0, sb, hb, hb0, _⟩ := encodeRune_shape s0 hs0
  have hesep : Model.TextOps.encode (s0 :: sep') = b0 :: (sb ++ Model.TextOps.encode sep') := by
    rw [encode_cons, hb]; rfl
  intro t
  induction t with
  | nil =>
    intro _ k cur hk
    simp at hk; subst hk
    simp [encode_nil, Model.TextOps.splitGo, Spec.TextOps.splitOn]
  | cons c t ih =>
    intro hvt k cur hk
    obtain ⟨hc, hvt'⟩ := (validText_cons c t).1 hvt
    obtain ⟨c0, cb, hcb, hc0, hcconts⟩ := encodeRune_shape c hc
    cases k with
    | succ k =>
      -- still passing over a separator: the whole character is skipped
      have hk' : k ≤ t.length := by simp at hk; omega
      have e1 : (Model.TextOps.encode ((c :: t).take (k + 1))).length =
          (Model.TextOps.encodeRune c).length + (Model.TextOps.encode (t.take k)).length := by
        simp [encode_cons]
      rw [e1, encode_cons c t, splitGo_skip, ih hvt' k cur hk']
      simp [Spec.TextOps.splitOn]
    | zero =>
      simp only [List.take_zero, encode_nil, List.length_nil]
      by_cases hp : (s0 :: sep').isPrefixOf (c :: t) = true
      · -- the separator is here: both sides cut
        have hpe : (Model.TextOps.encode (s0 :: sep')).isPrefixOf (Model.TextOps.encode (c :: t)) = true := by
          rw [prefix_encode _ _ hvs hvt]; exact hp
        have hp0 := hp
        rw [isPrefixOf_cons_cons, Bool.and_eq_true, beq_iff_eq] at hp
        obtain ⟨hsc, hpt⟩ := hp
        subst hsc
        have hp : (s0 :: sep').isPrefixOf (s0 :: t) = true := by
          rw [isPrefixOf_cons_cons, hpt]; simp
        obtain ⟨r, hr⟩ := (isPrefixOf_iff sep' t).1 hpt
        have hlen : sep'.length ≤ t.length := by rw [hr]; simp
        have htake : t.take sep'.length = sep' := by rw [hr]; simp
        rw [Spec.TextOps.splitOn, if_pos hp]
        rw [encode_cons s0 t, hb] at hpe ⊢
        rw [List.cons_append] at hpe ⊢
        rw [Model.TextOps.splitGo, if_pos hpe]
        simp only [List.map_cons]
        congr 1
        -- the rest of the separator's bytes are skipped
        have hskip : (Model.TextOps.encode (s0 :: sep')).length - 1 =
            sb.length + (Model.TextOps.encode (t.take sep'.length)).length := by
          rw [hesep, htake]; simp
        have := ih hvt' sep'.length [] hlen
        rw [encode_nil] at this
        rw [hskip, splitGo_skip, this]
        simp
      · -- no separator here: the character joins the current piece, byte by byte
        have hp' : (s0 :: sep').isPrefixOf (c :: t) = false := Bool.eq_false_iff.2 hp
        have hpe : (Model.TextOps.encode (s0 :: sep')).isPrefixOf (Model.TextOps.encode (c :: t)) = false := by
          rw [prefix_encode _ _ hvs hvt]; exact hp'
        rw [Spec.TextOps.splitOn, if_neg hp]
        rw [encode_cons c t, hcb] at hpe ⊢
        rw [List.cons_append] at hpe ⊢
        rw [Model.TextOps.splitGo, if_neg (by rw [hpe]; simp)]
        rw [splitGo_conts _ b0 _ hesep hb0 cb hcconts]
        have := ih hvt' 0 (cur ++ [c]) (Nat.zero_le _)
        simp only [List.take_zero, encode_nil, List.length_nil] at this
        rw [← this, encode_append, encode_cons c [], encode_nil, hcb]
        simp

/-- `strExecSplit` on encoded texts = the spec's pieces, encoded -/
theorem split_encode (t sep : List Nat) (hvt : ValidText t) (hvs : ValidText sep) :
    Model.TextOps.split (Model.TextOps.encode t) (Model.TextOps.encode sep) =
      (Spec.TextOps.split t sep).map Model.TextOps.encode := by
  unfold Model.TextOps.split Spec.TextOps.split
  by_cases hs : sep = []
  · subst hs
    simp only [encode_nil, if_true]
    rw [explode_encode t hvt]
    simp [Model.TextOps.encode]
  · have hne : Model.TextOps.encode sep ≠ [] := by
      obtain ⟨s0, sep', rfl⟩ := List.exists_cons_of_ne_nil hs
      rw [encode_cons]
      intro h
      exact encodeRune_ne_nil s0 (List.append_eq_nil_iff.1 h).1
    rw [if_neg hne, if_neg hs]
    have := splitGo_encode sep hs hvs t hvt 0 [] (Nat.zero_le _)
    simpa [encode_nil] using this

/-! ### joining the pieces gives the text back -/

theorem join_cons_ne (sep p : List Nat) (ps : List (List Nat)) (h : ps ≠ []) :
    TextOps.join sep (p :: ps) = p ++ sep ++ TextOps.join sep ps := by
  cases ps with
  | nil => exact absurd rfl h
  | cons q r => rfl

theorem splitOn_ne_nil (sep : List Nat) : ∀ (t : List Nat) (k : Nat) (cur : List Nat),
    TextOps.splitOn sep k cur t ≠ [] := by
  intro t
  induction t with
  | nil => intro k cur; simp [TextOps.splitOn]
  | cons c t ih =>
    intro k cur
    cases k with
    | succ k => simp [TextOps.splitOn, ih]
    | zero =>
      simp only [TextOps.splitOn]
      split
      · simp
      · exact ih 0 _

/-- joined by the separator, the pieces are the text (the part of the separator still being passed over is
accounted for by `k`) -/
theorem join_splitOn (sep : List Nat) (hsep : sep ≠ []) : ∀ (t : List Nat) (k : Nat) (cur : List Nat), k ≤ t.length →
    TextOps.join sep (TextOps.splitOn sep k cur t) = cur ++ t.drop k := by
  intro t
  induction t with
  | nil => intro k cur hk; simp at hk; subst hk; simp [TextOps.splitOn, TextOps.join]
  | cons c t ih =>
    intro k cur hk
    cases k with
    | succ k =>
      simp only [TextOps.splitOn, List.drop_succ_cons]
      exact ih k cur (by simp at hk; omega)
    | zero =>
      simp only [TextOps.splitOn, List.drop_zero]
      by_cases hp : sep.isPrefixOf (c :: t) = true
      · rw [if_pos hp, join_cons_ne _ _ _ (splitOn_ne_nil sep t _ _)]
        obtain ⟨r, hr⟩ := (isPrefixOf_iff sep (c :: t)).1 hp
        cases sep with
        | nil => exact absurd rfl hsep
        | cons s sep' =>
          simp at hr
          obtain ⟨rfl, hr⟩ := hr
          have hlen : sep'.length ≤ t.length := by rw [hr]; simp
          simp only [List.length_cons, Nat.add_sub_cancel]
          rw [ih sep'.length [] hlen, hr]
          simp
      · rw [if_neg hp, ih 0 (cur ++ [c]) (Nat.zero_le _)]
        simp

end ZnVerif.Proofs.TextOps
