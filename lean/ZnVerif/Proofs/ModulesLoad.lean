/-
Helper lemmas for C15: the invariants of the loader (Model.Modules.loadModule / evalImport / evalProgram).

* `LInv` — control invariant at the points where imports are processed: the list "modules on the import stack
  (outermost first), then closed modules (most recently closed first)" is topologically sorted for the dependency
  graph, consecutive stack entries are linked by an edge, every registered module is on the stack or closed.
  Hence: an import of a module on the stack closes a cycle (→ the DFS answers true → 63), an import of a closed
  module does not.
* `SInv` — state invariant (holds at every state, also where a run fails): registry ↔ module names, every edge
  is a static import of a module reachable from the main module, every module body started at most once and
  after its imports were done.
-/
import ZnVerif.Proofs.ModulesBasic
import ZnVerif.Proofs.ModulesDfs

namespace ZnVerif.Proofs.Modules
open ZnVerif.Model.Modules
open ZnVerif.Spec.ModuleSem (Walk HasCycle)
open ZnVerif.Proofs.ModulesDfs

/-! ### stack linkage -/

/-- consecutive entries (top first) are joined by an edge from the lower to the upper one -/
def Linked (g : Graph) : List Nat → Prop
  | [] => True
  | [_] => True
  | a :: b :: r => (b, a) ∈ g ∧ Linked g (b :: r)

theorem Linked.tail {g : Graph} {a : Nat} {r : List Nat} (h : Linked g (a :: r)) : Linked g r := by
  cases r with
  | nil => trivial
  | cons b r => exact h.2

theorem Linked.mono {g g' : Graph} (hs : ∀ e, e ∈ g → e ∈ g') : ∀ {l : List Nat}, Linked g l → Linked g' l
  | [], _ => trivial
  | [_], _ => trivial
  | _ :: b :: r, h => ⟨hs _ h.1, Linked.mono hs (l := b :: r) h.2⟩

theorem linked_walk {g : Graph} : ∀ {r : List Nat} {t x : Nat}, Linked g (t :: r) → x ∈ t :: r → Walk g x t
  | [], t, x, _, hx => by
    rcases List.mem_cons.1 hx with rfl | h
    · exact Walk.refl _
    · cases h
  | b :: r, t, x, hl, hx => by
    rcases List.mem_cons.1 hx with rfl | h
    · exact Walk.refl _
    · exact Walk.snoc (linked_walk (r := r) hl.2 h) hl.1

/-! ### keeping a list topologically sorted while the graph grows -/

theorem topo_add_edge_away {g : Graph} {a b : Nat} : ∀ {c : List Nat}, Topo g c → a ∉ c → Topo (g ++ [(a, b)]) c
  | [], _, _ => trivial
  | x :: c, ht, ha => by
    have hxa : x ≠ a := fun h => ha (h ▸ List.mem_cons_self ..)
    refine ⟨?_, topo_add_edge_away ht.2 (fun h => ha (List.mem_cons_of_mem _ h))⟩
    intro y hy
    rcases List.mem_append.1 hy with h | h
    · exact ht.1 y h
    · simp at h; exact absurd h.1 hxa

theorem topo_add_edge {g : Graph} {a b : Nat} {c : List Nat} : ∀ {p : List Nat}, Topo g (p ++ c) → a ∉ c → b ∈ c →
    Topo (g ++ [(a, b)]) (p ++ c)
  | [], ht, ha, _ => topo_add_edge_away ht ha
  | x :: p, ht, ha, hb => by
    refine ⟨?_, topo_add_edge (p := p) ht.2 ha hb⟩
    intro y hy
    rcases List.mem_append.1 hy with h | h
    · exact ht.1 y h
    · simp at h; rw [h.2]; exact List.mem_append_right _ hb

/-- a new node `n` without outgoing edges is inserted in front of the closed part, together with an edge into it -/
theorem topo_insert {g : Graph} {a n : Nat} {c : List Nat} (hn : ∀ x y, (x, y) ∈ g → x ≠ n) (hnc : n ∉ c) (han : a ≠ n) :
    ∀ {p : List Nat}, Topo g (p ++ c) → a ∉ c → Topo (g ++ [(a, n)]) (p ++ n :: c)
  | [], ht, ha => by
    refine ⟨?_, topo_add_edge_away ht ha⟩
    intro y hy
    rcases List.mem_append.1 hy with h | h
    · exact absurd rfl (hn _ _ h)
    · simp at h; exact absurd h.1.symm han
  | x :: p, ht, ha => by
    refine ⟨?_, topo_insert hn hnc han (p := p) ht.2 ha⟩
    intro y hy
    rcases List.mem_append.1 hy with h | h
    · rcases List.mem_append.1 (ht.1 y h) with h' | h'
      · exact List.mem_append_left _ h'
      · exact List.mem_append_right _ (List.mem_cons_of_mem _ h')
    · simp at h; rw [h.2]; exact List.mem_append_right _ (List.mem_cons_self ..)

/-- the same without a new edge (the main module) -/
theorem topo_insert_noedge {g : Graph} {n : Nat} {c : List Nat} (hn : ∀ x y, (x, y) ∈ g → x ≠ n) :
    ∀ {p : List Nat}, Topo g (p ++ c) → Topo g (p ++ n :: c)
  | [], ht => ⟨fun y hy => absurd rfl (hn _ _ hy), ht⟩
  | x :: p, ht => by
    refine ⟨?_, topo_insert_noedge hn (p := p) ht.2⟩
    intro y hy
    rcases List.mem_append.1 (ht.1 y hy) with h' | h'
    · exact List.mem_append_left _ h'
    · exact List.mem_append_right _ (List.mem_cons_of_mem _ h')

/-! ### the event log -/

def closedOf : List Ev → List Nat
  | [] => []
  | .done m :: r => m :: closedOf r
  | .lib m :: r => m :: closedOf r
  | _ :: r => closedOf r

def bodiesOf : List Ev → List Nat
  | [] => []
  | .body m :: r => m :: bodiesOf r
  | _ :: r => bodiesOf r

theorem mem_closedOf {x : Nat} : ∀ {l : List Ev}, x ∈ closedOf l ↔ (Ev.done x ∈ l ∨ Ev.lib x ∈ l)
  | [] => by simp [closedOf]
  | e :: r => by
    cases e <;> simp [closedOf, mem_closedOf (l := r)]
    · rename_i m; constructor
      · rintro (h | h | h)
        · exact Or.inl (Or.inl h)
        · exact Or.inl (Or.inr h)
        · exact Or.inr h
      · rintro ((h | h) | h)
        · exact Or.inl h
        · exact Or.inr (Or.inl h)
        · exact Or.inr (Or.inr h)
    · rename_i m; constructor
      · rintro (h | h | h)
        · exact Or.inr (Or.inl h)
        · exact Or.inl h
        · exact Or.inr (Or.inr h)
      · rintro (h | h | h)
        · exact Or.inr (Or.inl h)
        · exact Or.inl h
        · exact Or.inr (Or.inr h)

theorem mem_bodiesOf {x : Nat} : ∀ {l : List Ev}, x ∈ bodiesOf l ↔ Ev.body x ∈ l
  | [] => by simp [bodiesOf]
  | e :: r => by
    cases e <;> simp [bodiesOf, mem_bodiesOf (l := r)]

/-! ### monotone growth of the loader state -/

structure Ext (vm vm' : VM) : Prop where
  names : ∃ l, namesOf vm' = namesOf vm ++ l
  graph : ∀ e, e ∈ vm.graph → e ∈ vm'.graph
  nameMap : ∀ n id, assoc n vm.nameMap = some id → assoc n vm'.nameMap = some id
  log : ∃ l, vm'.log = l ++ vm.log

theorem Ext.rfl' (vm : VM) : Ext vm vm := ⟨⟨[], by simp⟩, fun _ h => h, fun _ _ h => h, ⟨[], by simp⟩⟩

theorem Ext.trans {a b c : VM} (h1 : Ext a b) (h2 : Ext b c) : Ext a c := by
  obtain ⟨l1, e1⟩ := h1.names
  obtain ⟨l2, e2⟩ := h2.names
  obtain ⟨m1, f1⟩ := h1.log
  obtain ⟨m2, f2⟩ := h2.log
  exact ⟨⟨l1 ++ l2, by rw [e2, e1, List.append_assoc]⟩, fun e h => h2.graph e (h1.graph e h),
    fun n id h => h2.nameMap n id (h1.nameMap n id h), ⟨m2 ++ m1, by rw [f2, f1, List.append_assoc]⟩⟩

theorem Ext.of_same {vm vm' : VM} (h : Same vm vm') : Ext vm vm' :=
  ⟨⟨[], by rw [h.names]; simp⟩, fun _ he => h.graph ▸ he, fun _ _ hn => h.nameMap ▸ hn, ⟨[], by rw [h.log]; simp⟩⟩

theorem Ext.names_get {vm vm' : VM} (h : Ext vm vm') {i : Nat} {n : Name} (hi : (namesOf vm)[i]? = some n) :
    (namesOf vm')[i]? = some n := by
  obtain ⟨l, e⟩ := h.names
  rw [e, List.getElem?_append_left]
  · exact hi
  · exact (List.getElem?_eq_some_iff.1 hi).1

theorem Ext.length_le {vm vm' : VM} (h : Ext vm vm') : (namesOf vm).length ≤ (namesOf vm').length := by
  obtain ⟨l, e⟩ := h.names
  rw [e, List.length_append]; omega

theorem Ext.mem_log {vm vm' : VM} (h : Ext vm vm') {e : Ev} (he : e ∈ vm.log) : e ∈ vm'.log := by
  obtain ⟨l, e'⟩ := h.log
  rw [e']; exact List.mem_append_right _ he

theorem ext_record (vm : VM) (e : Ev) : Ext vm (vm.record e) :=
  ⟨⟨[], by simp [namesOf, VM.record]⟩, fun _ h => h, fun _ _ h => h, ⟨[e], rfl⟩⟩

end ZnVerif.Proofs.Modules

namespace ZnVerif.Proofs.Modules
open ZnVerif.Model.Modules
open ZnVerif.Spec.ModuleSem (Walk HasCycle)
open ZnVerif.Proofs.ModulesDfs

/-! ### the static import relation, in the model's own terms (names, finder) -/

/-- the source the loader runs for the module registered under the name `n` -/
def msrc (files : Files) (mainSrc : ModuleSrc) (n : Name) : Option ModuleSrc :=
  if n = mainName then some mainSrc else
  match finder .repaired files (parseLibName n) with
  | .src s => some s
  | _ => none

def MImports (files : Files) (mainSrc : ModuleSrc) (a b : Name) : Prop :=
  ∃ src imp, msrc files mainSrc a = some src ∧ imp ∈ src.imports ∧ imp.name = b ∧
    (parseLibName b).libType = .custom

inductive MReach (files : Files) (mainSrc : ModuleSrc) : Name → Prop
  | main : MReach files mainSrc mainName
  | step {a b : Name} : MReach files mainSrc a → MImports files mainSrc a b → MReach files mainSrc b

theorem libType_cases (n : Name) : (parseLibName n).libType = .std ∨ (parseLibName n).libType = .custom := by
  unfold parseLibName
  cases n with
  | nil => exact Or.inr rfl
  | cons c r =>
    by_cases h : c = chAt
    · simp [h]
    · simp [h]

theorem parseLibName_originalName (n : Name) : (parseLibName n).originalName = n := by
  unfold parseLibName
  cases n with
  | nil => rfl
  | cons c r => by_cases h : c = chAt <;> simp [h]

theorem mainName_custom : (parseLibName mainName).libType = .custom := by decide

theorem MReach.custom {files : Files} {mainSrc : ModuleSrc} {n : Name} (h : MReach files mainSrc n) :
    (parseLibName n).libType = .custom := by
  cases h with
  | main => exact mainName_custom
  | step _ hi => obtain ⟨_, _, _, _, _, hc⟩ := hi; exact hc

/-! ### invariants -/

structure SInv (files : Files) (mainSrc : ModuleSrc) (vm : VM) : Prop where
  main0 : (namesOf vm)[0]? = some mainName
  nodup : (namesOf vm).Nodup
  regName : ∀ n id, assoc n vm.nameMap = some id → (namesOf vm)[id]? = some n
  regAll : ∀ i n, (namesOf vm)[i]? = some n → assoc n vm.nameMap = some i
  edges : ∀ a b, (a, b) ∈ vm.graph → ∃ na nb, (namesOf vm)[a]? = some na ∧ (namesOf vm)[b]? = some nb ∧
      MReach files mainSrc na ∧ ((parseLibName nb).libType = .std ∨ MImports files mainSrc na nb)
  bodies : (bodiesOf vm.log).Nodup
  logBound : ∀ x, Ev.body x ∈ vm.log → x < (namesOf vm).length
  before : ∀ l1 m l2, vm.log = l1 ++ Ev.body m :: l2 → ∀ nm src, (namesOf vm)[m]? = some nm →
      msrc files mainSrc nm = some src → ∀ imp, imp ∈ src.imports → (parseLibName imp.name).libType = .custom →
        ∃ id, assoc imp.name vm.nameMap = some id ∧ Ev.done id ∈ l2 ∧ (m, id) ∈ vm.graph
  doneBody : ∀ x, Ev.done x ∈ vm.log → Ev.body x ∈ vm.log
  libStd : ∀ x, Ev.lib x ∈ vm.log → ∃ n, (namesOf vm)[x]? = some n ∧ (parseLibName n).libType = .std
  doneReach : ∀ x, Ev.done x ∈ vm.log → ∃ n, (namesOf vm)[x]? = some n ∧ MReach files mainSrc n ∧
      ∃ src, msrc files mainSrc n = some src

structure LInv (files : Files) (mainSrc : ModuleSrc) (vm : VM) (stack : List Nat) : Prop where
  topo : Topo vm.graph (stack.reverse ++ closedOf vm.log)
  src : ∀ a b, (a, b) ∈ vm.graph → a ∈ stack ∨ a ∈ closedOf vm.log
  linked : Linked vm.graph stack
  nodup : stack.Nodup
  disj : ∀ x, x ∈ stack → x ∉ closedOf vm.log
  reg : ∀ n id, assoc n vm.nameMap = some id → id ∈ stack ∨ id ∈ closedOf vm.log
  cbound : ∀ x, x ∈ closedOf vm.log → x < (namesOf vm).length
  sreach : ∀ x, x ∈ stack → ∃ nx, (namesOf vm)[x]? = some nx ∧ MReach files mainSrc nx ∧
    ∃ src, msrc files mainSrc nx = some src
  nobody : ∀ x, x ∈ stack → Ev.body x ∉ vm.log

theorem SInv.of_same {files : Files} {mainSrc : ModuleSrc} {vm vm' : VM} (hs : Same vm vm')
    (h : SInv files mainSrc vm) : SInv files mainSrc vm' := by
  obtain ⟨h1, h2, h3, h3', h4, h5, h6, h7, h8, h9, h10⟩ := h
  constructor
  · rw [hs.names]; exact h1
  · rw [hs.names]; exact h2
  · rw [hs.names, hs.nameMap]; exact h3
  · rw [hs.names, hs.nameMap]; exact h3'
  · rw [hs.names, hs.graph]; exact h4
  · rw [hs.log]; exact h5
  · rw [hs.names, hs.log]; exact h6
  · rw [hs.names, hs.log, hs.nameMap, hs.graph]; exact h7
  · rw [hs.log]; exact h8
  · rw [hs.names, hs.log]; exact h9
  · rw [hs.names, hs.log]; exact h10

theorem LInv.of_same {files : Files} {mainSrc : ModuleSrc} {vm vm' : VM} {st : List Nat} (hs : Same vm vm')
    (h : LInv files mainSrc vm st) : LInv files mainSrc vm' st := by
  obtain ⟨h1, h2, h3, h4, h5, h6, h7, h8, h9⟩ := h
  constructor
  · rw [hs.graph, hs.log]; exact h1
  · rw [hs.graph, hs.log]; exact h2
  · rw [hs.graph]; exact h3
  · exact h4
  · rw [hs.log]; exact h5
  · rw [hs.nameMap, hs.log]; exact h6
  · rw [hs.names, hs.log]; exact h7
  · rw [hs.names]; exact h8
  · rw [hs.log]; exact h9

/-- a lib-named module has no outgoing edge -/
theorem SInv.no_edge_from_std {files : Files} {mainSrc : ModuleSrc} {vm : VM} (h : SInv files mainSrc vm)
    {x : Nat} {n : Name} (hx : (namesOf vm)[x]? = some n) (hn : (parseLibName n).libType = .std) :
    ∀ a b, (a, b) ∈ vm.graph → a ≠ x := by
  intro a b he hax
  obtain ⟨na, _, h1, _, h3, _⟩ := h.edges a b he
  rw [hax, hx] at h1
  injection h1 with h1
  have := h3.custom
  rw [← h1, hn] at this
  cases this

end ZnVerif.Proofs.Modules

namespace ZnVerif.Proofs.Modules
open ZnVerif.Model.Modules
open ZnVerif.Spec.ModuleSem (Walk HasCycle)
open ZnVerif.Proofs.ModulesDfs

/-! ### primitive steps of the loader -/

theorem namesOf_length (vm : VM) : (namesOf vm).length = vm.modules.length := by simp [namesOf]

theorem allocate_fresh {vm : VM} {n : Name} (h : assoc n vm.nameMap = none) :
    (vm.allocateModule n).2 = (namesOf vm).length ∧
    namesOf (vm.allocateModule n).1 = namesOf vm ++ [n] ∧
    (vm.allocateModule n).1.graph = (match vm.cs with
      | some s => vm.graph ++ [(s, (namesOf vm).length)]
      | none => vm.graph) ∧
    (vm.allocateModule n).1.nameMap = aset n (namesOf vm).length vm.nameMap ∧
    (vm.allocateModule n).1.log = vm.log ∧ (vm.allocateModule n).1.stack = vm.stack ∧
    (vm.allocateModule n).1.cs = some (namesOf vm).length := by
  unfold VM.allocateModule VM.findModuleByName
  rw [h]
  cases hcs : vm.cs <;> simp [VM.addModule, namesOf, hcs]

theorem allocate_existing {vm : VM} {n : Name} {id : Nat} (h : assoc n vm.nameMap = some id) :
    vm.allocateModule n = (vm, id) := by
  unfold VM.allocateModule VM.findModuleByName
  rw [h]

theorem cons_eq_append_body {e : Ev} {log l1 l2 : List Ev} {m : Nat} (he : e ≠ Ev.body m)
    (h : e :: log = l1 ++ Ev.body m :: l2) : ∃ l1', l1 = e :: l1' ∧ log = l1' ++ Ev.body m :: l2 := by
  cases l1 with
  | nil => simp at h; exact absurd h.1 he
  | cons a l1' =>
    simp at h
    exact ⟨l1', by rw [h.1], h.2⟩

theorem getElem?_lt {α} {l : List α} {i : Nat} {a : α} (h : l[i]? = some a) : i < l.length :=
  (List.getElem?_eq_some_iff.1 h).1

theorem getElem?_append_one {α} {l : List α} {a b : α} {i : Nat} (h : (l ++ [a])[i]? = some b) :
    l[i]? = some b ∨ (i = l.length ∧ b = a) := by
  by_cases hi : i < l.length
  · rw [List.getElem?_append_left hi] at h; exact Or.inl h
  · rw [List.getElem?_append_right (Nat.le_of_not_lt hi)] at h
    cases hk : i - l.length with
    | zero =>
      rw [hk] at h; simp at h
      exact Or.inr ⟨by omega, h.symm⟩
    | succ k => rw [hk] at h; simp at h

theorem mem_of_getElem? {α} {l : List α} {i : Nat} {a : α} (h : l[i]? = some a) : a ∈ l :=
  List.mem_of_getElem? h

/-- allocating a new module `n` on behalf of the module `top` that imports it -/
theorem SInv.alloc {files : Files} {mainSrc : ModuleSrc} {vm vm' : VM} {n nt : Name} {top : Nat}
    (h : SInv files mainSrc vm) (hfresh : assoc n vm.nameMap = none)
    (hnames : namesOf vm' = namesOf vm ++ [n])
    (hgraph : vm'.graph = vm.graph ++ [(top, (namesOf vm).length)])
    (hmap : vm'.nameMap = aset n (namesOf vm).length vm.nameMap)
    (hlog : vm'.log = vm.log)
    (htop : (namesOf vm)[top]? = some nt) (hreach : MReach files mainSrc nt)
    (himp : (parseLibName n).libType = .std ∨ MImports files mainSrc nt n) : SInv files mainSrc vm' := by
  have hnotin : n ∉ namesOf vm := by
    intro hm
    obtain ⟨i, hi⟩ := List.getElem?_of_mem hm
    rw [h.regAll i n hi] at hfresh; cases hfresh
  have hold : ∀ {i : Nat} {k : Name}, (namesOf vm)[i]? = some k → (namesOf vm')[i]? = some k := by
    intro i k hk
    rw [hnames, List.getElem?_append_left (getElem?_lt hk)]; exact hk
  constructor
  · exact hold h.main0
  · rw [hnames, List.nodup_append]
    refine ⟨h.nodup, by simp, ?_⟩
    intro a ha b hb
    simp at hb; subst hb
    intro hab; subst hab; exact hnotin ha
  · intro k id hk
    rw [hmap, assoc_aset] at hk
    by_cases hkn : k = n
    · simp [hkn] at hk; subst hk; subst hkn
      rw [hnames]; simp
    · simp [hkn] at hk; exact hold (h.regName k id hk)
  · intro i k hk
    rw [hnames] at hk
    rw [hmap, assoc_aset]
    rcases getElem?_append_one hk with hk' | ⟨hi, hkn⟩
    · have : k ≠ n := fun hkn => hnotin (hkn ▸ mem_of_getElem? hk')
      simp [this]; exact h.regAll i k hk'
    · simp [hkn, hi]
  · intro a b he
    rw [hgraph] at he
    rcases List.mem_append.1 he with he | he
    · obtain ⟨na, nb, h1, h2, h3, h4⟩ := h.edges a b he
      exact ⟨na, nb, hold h1, hold h2, h3, h4⟩
    · simp at he
      obtain ⟨rfl, rfl⟩ := he
      refine ⟨nt, n, hold htop, ?_, hreach, himp⟩
      rw [hnames]; simp
  · rw [hlog]; exact h.bodies
  · intro x hx
    rw [hlog] at hx
    rw [hnames, List.length_append]
    have := h.logBound x hx; omega
  · intro l1 m l2 hl nm src hnm hsrc imp himp' hc
    rw [hlog] at hl
    have hm : m < (namesOf vm).length := h.logBound m (by rw [hl]; simp)
    have hnm' : (namesOf vm)[m]? = some nm := by
      rw [hnames, List.getElem?_append_left hm] at hnm; exact hnm
    obtain ⟨id, h1, h2, h3⟩ := h.before l1 m l2 hl nm src hnm' hsrc imp himp' hc
    refine ⟨id, ?_, h2, ?_⟩
    · rw [hmap, assoc_aset]
      have : imp.name ≠ n := by
        intro hk; rw [hk, hfresh] at h1; cases h1
      simp [this]; exact h1
    · rw [hgraph]; exact List.mem_append_left _ h3
  · rw [hlog]; exact h.doneBody
  · intro x hx
    rw [hlog] at hx
    obtain ⟨k, hk, hs⟩ := h.libStd x hx
    exact ⟨k, hold hk, hs⟩
  · intro x hx
    rw [hlog] at hx
    obtain ⟨k, hk, hs⟩ := h.doneReach x hx
    exact ⟨k, hold hk, hs⟩

/-- recording an event that is neither `body` nor `done` nor `lib` -/
theorem SInv.record_enter {files : Files} {mainSrc : ModuleSrc} {vm : VM} (h : SInv files mainSrc vm) (x : Nat) :
    SInv files mainSrc (vm.record (.enter x)) := by
  obtain ⟨h1, h2, h3, h3', h4, h5, h6, h7, h8, h9, h10⟩ := h
  refine ⟨h1, h2, h3, h3', h4, h5, ?_, ?_, ?_, ?_, ?_⟩
  · intro y hy
    simp [VM.record] at hy
    exact h6 y hy
  · intro l1 m l2 hl
    obtain ⟨l1', _, hl'⟩ := cons_eq_append_body (by simp) hl
    exact h7 l1' m l2 hl'
  · intro y hy
    simp [VM.record] at hy
    exact List.mem_cons_of_mem _ (h8 y hy)
  · intro y hy
    simp [VM.record] at hy
    exact h9 y hy
  · intro y hy
    simp [VM.record] at hy
    exact h10 y hy

theorem SInv.record_lib {files : Files} {mainSrc : ModuleSrc} {vm : VM} (h : SInv files mainSrc vm) {x : Nat} {n : Name}
    (hx : (namesOf vm)[x]? = some n) (hs : (parseLibName n).libType = .std) :
    SInv files mainSrc (vm.record (.lib x)) := by
  obtain ⟨h1, h2, h3, h3', h4, h5, h6, h7, h8, h9, h10⟩ := h
  refine ⟨h1, h2, h3, h3', h4, h5, ?_, ?_, ?_, ?_, ?_⟩
  · intro y hy
    simp [VM.record] at hy
    exact h6 y hy
  · intro l1 m l2 hl
    obtain ⟨l1', _, hl'⟩ := cons_eq_append_body (by simp) hl
    exact h7 l1' m l2 hl'
  · intro y hy
    simp [VM.record] at hy
    exact List.mem_cons_of_mem _ (h8 y hy)
  · intro y hy
    simp [VM.record] at hy
    rcases hy with rfl | hy
    · exact ⟨n, hx, hs⟩
    · exact h9 y hy
  · intro y hy
    simp [VM.record] at hy
    exact h10 y hy

theorem SInv.record_done {files : Files} {mainSrc : ModuleSrc} {vm : VM} (h : SInv files mainSrc vm) {x : Nat}
    (hx : Ev.body x ∈ vm.log) {nx : Name} (hnx : (namesOf vm)[x]? = some nx) (hreach : MReach files mainSrc nx)
    {sx : ModuleSrc} (hsx : msrc files mainSrc nx = some sx) :
    SInv files mainSrc (vm.record (.done x)) := by
  obtain ⟨h1, h2, h3, h3', h4, h5, h6, h7, h8, h9, h10⟩ := h
  refine ⟨h1, h2, h3, h3', h4, h5, ?_, ?_, ?_, ?_, ?_⟩
  · intro y hy
    simp [VM.record] at hy
    exact h6 y hy
  · intro l1 m l2 hl
    obtain ⟨l1', _, hl'⟩ := cons_eq_append_body (by simp) hl
    exact h7 l1' m l2 hl'
  · intro y hy
    simp [VM.record] at hy
    rcases hy with rfl | hy
    · exact List.mem_cons_of_mem _ hx
    · exact List.mem_cons_of_mem _ (h8 y hy)
  · intro y hy
    simp [VM.record] at hy
    exact h9 y hy
  · intro y hy
    simp [VM.record] at hy
    rcases hy with rfl | hy
    · exact ⟨nx, hnx, hreach, sx, hsx⟩
    · exact h10 y hy

theorem SInv.record_body {files : Files} {mainSrc : ModuleSrc} {vm : VM} (h : SInv files mainSrc vm) {m : Nat}
    {nm : Name} {src : ModuleSrc} (hnm : (namesOf vm)[m]? = some nm) (hsrc : msrc files mainSrc nm = some src)
    (hnb : Ev.body m ∉ vm.log)
    (himps : ∀ imp, imp ∈ src.imports → (parseLibName imp.name).libType = .custom →
      ∃ id, assoc imp.name vm.nameMap = some id ∧ Ev.done id ∈ vm.log ∧ (m, id) ∈ vm.graph) :
    SInv files mainSrc (vm.record (.body m)) := by
  obtain ⟨h1, h2, h3, h3', h4, h5, h6, h7, h8, h9, h10⟩ := h
  refine ⟨h1, h2, h3, h3', h4, ?_, ?_, ?_, ?_, ?_, ?_⟩
  · show (bodiesOf (Ev.body m :: vm.log)).Nodup
    simp only [bodiesOf, List.nodup_cons]
    exact ⟨fun hm => hnb (mem_bodiesOf.1 hm), h5⟩
  · intro y hy
    simp [VM.record] at hy
    rcases hy with rfl | hy
    · exact getElem?_lt hnm
    · exact h6 y hy
  · intro l1 m' l2 hl nm' src' hnm' hsrc' imp himp hc
    cases l1 with
    | nil =>
      simp [VM.record] at hl
      obtain ⟨rfl, rfl⟩ := hl
      have : nm' = nm := by
        have hh : (namesOf vm)[m]? = some nm' := hnm'
        rw [hnm] at hh; injection hh with hh; exact hh.symm
      subst this
      rw [hsrc] at hsrc'; injection hsrc' with hsrc'; subst hsrc'
      exact himps imp himp hc
    | cons a l1' =>
      simp [VM.record] at hl
      exact h7 l1' m' l2 hl.2 nm' src' hnm' hsrc' imp himp hc
  · intro y hy
    simp [VM.record] at hy
    exact List.mem_cons_of_mem _ (h8 y hy)
  · intro y hy
    simp [VM.record] at hy
    exact h9 y hy
  · intro y hy
    simp [VM.record] at hy
    exact h10 y hy

end ZnVerif.Proofs.Modules

namespace ZnVerif.Proofs.Modules
open ZnVerif.Model.Modules
open ZnVerif.Spec.ModuleSem (Walk HasCycle)
open ZnVerif.Proofs.ModulesDfs

theorem LInv.lt_of_stack {files : Files} {mainSrc : ModuleSrc} {vm : VM} {st : List Nat} (h : LInv files mainSrc vm st)
    {x : Nat} (hx : x ∈ st) : x < (namesOf vm).length := by
  obtain ⟨_, hn, _⟩ := h.sreach x hx
  exact getElem?_lt hn

theorem LInv.src_lt {files : Files} {mainSrc : ModuleSrc} {vm : VM} {st : List Nat} (h : LInv files mainSrc vm st)
    {a b : Nat} (he : (a, b) ∈ vm.graph) : a < (namesOf vm).length := by
  rcases h.src a b he with ha | ha
  · exact h.lt_of_stack ha
  · exact h.cbound a ha

/-- a new module is pushed on the import stack -/
theorem LInv.push_new {files : Files} {mainSrc : ModuleSrc} {vm vm' : VM} {n : Name} {top : Nat} {rest : List Nat}
    (h : LInv files mainSrc vm (top :: rest))
    (hnames : namesOf vm' = namesOf vm ++ [n])
    (hgraph : vm'.graph = vm.graph ++ [(top, (namesOf vm).length)])
    (hmap : vm'.nameMap = aset n (namesOf vm).length vm.nameMap)
    (hlog : vm'.log = Ev.enter (namesOf vm).length :: vm.log)
    (hlb : ∀ x, Ev.body x ∈ vm.log → x < (namesOf vm).length)
    (hreach : MReach files mainSrc n) {sn : ModuleSrc} (hsn : msrc files mainSrc n = some sn) :
    LInv files mainSrc vm' ((namesOf vm).length :: top :: rest) := by
  have hclosed : closedOf vm'.log = closedOf vm.log := by rw [hlog]; rfl
  have htoplt : top < (namesOf vm).length := h.lt_of_stack (List.mem_cons_self ..)
  have hNc : (namesOf vm).length ∉ closedOf vm.log := fun hc => Nat.lt_irrefl _ (h.cbound _ hc)
  have hNs : (namesOf vm).length ∉ top :: rest := fun hc => Nat.lt_irrefl _ (h.lt_of_stack hc)
  have hold : ∀ {i : Nat} {k : Name}, (namesOf vm)[i]? = some k → (namesOf vm')[i]? = some k := by
    intro i k hk
    rw [hnames, List.getElem?_append_left (getElem?_lt hk)]; exact hk
  constructor
  · rw [hclosed, hgraph]
    have := topo_insert (g := vm.graph) (a := top) (n := (namesOf vm).length) (c := closedOf vm.log)
      (fun x y he hx => Nat.lt_irrefl _ (hx ▸ h.src_lt he)) hNc (Nat.ne_of_lt htoplt)
      (p := (top :: rest).reverse) h.topo (h.disj top (List.mem_cons_self ..))
    simpa [List.reverse_cons, List.append_assoc] using this
  · intro a b he
    rw [hgraph] at he; rw [hclosed]
    rcases List.mem_append.1 he with he | he
    · rcases h.src a b he with ha | ha
      · exact Or.inl (List.mem_cons_of_mem _ ha)
      · exact Or.inr ha
    · simp at he; rw [he.1]; exact Or.inl (List.mem_cons_of_mem _ (List.mem_cons_self ..))
  · refine ⟨by rw [hgraph]; simp, ?_⟩
    exact Linked.mono (fun e he => by rw [hgraph]; exact List.mem_append_left _ he) h.linked
  · exact List.nodup_cons.2 ⟨hNs, h.nodup⟩
  · intro x hx
    rw [hclosed]
    rcases List.mem_cons.1 hx with rfl | hx
    · exact hNc
    · exact h.disj x hx
  · intro k id hk
    rw [hmap, assoc_aset] at hk
    rw [hclosed]
    by_cases hkn : k = n
    · simp [hkn] at hk; subst hk; exact Or.inl (List.mem_cons_self ..)
    · simp [hkn] at hk
      rcases h.reg k id hk with h' | h'
      · exact Or.inl (List.mem_cons_of_mem _ h')
      · exact Or.inr h'
  · intro x hx
    rw [hclosed] at hx
    rw [hnames, List.length_append]; have := h.cbound x hx; omega
  · intro x hx
    rcases List.mem_cons.1 hx with rfl | hx
    · exact ⟨n, by rw [hnames]; simp, hreach, sn, hsn⟩
    · obtain ⟨nx, h1, h2⟩ := h.sreach x hx
      exact ⟨nx, hold h1, h2⟩
  · intro x hx hb
    rw [hlog] at hb
    simp at hb
    rcases List.mem_cons.1 hx with rfl | hx
    · exact Nat.lt_irrefl _ (hlb _ hb)
    · exact h.nobody x hx hb

end ZnVerif.Proofs.Modules

namespace ZnVerif.Proofs.Modules
open ZnVerif.Model.Modules
open ZnVerif.Spec.ModuleSem (Walk HasCycle)
open ZnVerif.Proofs.ModulesDfs

/-- a library module allocated by this import: closed at once -/
theorem LInv.new_lib {files : Files} {mainSrc : ModuleSrc} {vm vm' : VM} {n : Name} {top : Nat} {rest : List Nat}
    (h : LInv files mainSrc vm (top :: rest))
    (hnames : namesOf vm' = namesOf vm ++ [n])
    (hgraph : vm'.graph = vm.graph ++ [(top, (namesOf vm).length)])
    (hmap : vm'.nameMap = aset n (namesOf vm).length vm.nameMap)
    (hlog : vm'.log = Ev.lib (namesOf vm).length :: vm.log) : LInv files mainSrc vm' (top :: rest) := by
  have hclosed : closedOf vm'.log = (namesOf vm).length :: closedOf vm.log := by rw [hlog]; rfl
  have htoplt : top < (namesOf vm).length := h.lt_of_stack (List.mem_cons_self ..)
  have hNc : (namesOf vm).length ∉ closedOf vm.log := fun hc => Nat.lt_irrefl _ (h.cbound _ hc)
  have hNs : (namesOf vm).length ∉ top :: rest := fun hc => Nat.lt_irrefl _ (h.lt_of_stack hc)
  have hold : ∀ {i : Nat} {k : Name}, (namesOf vm)[i]? = some k → (namesOf vm')[i]? = some k := by
    intro i k hk
    rw [hnames, List.getElem?_append_left (getElem?_lt hk)]; exact hk
  constructor
  · rw [hclosed, hgraph]
    exact topo_insert (g := vm.graph) (a := top) (n := (namesOf vm).length) (c := closedOf vm.log)
      (fun x y he hx => Nat.lt_irrefl _ (hx ▸ h.src_lt he)) hNc (Nat.ne_of_lt htoplt)
      (p := (top :: rest).reverse) h.topo (h.disj top (List.mem_cons_self ..))
  · intro a b he
    rw [hgraph] at he; rw [hclosed]
    rcases List.mem_append.1 he with he | he
    · rcases h.src a b he with ha | ha
      · exact Or.inl ha
      · exact Or.inr (List.mem_cons_of_mem _ ha)
    · simp at he; rw [he.1]; exact Or.inl (List.mem_cons_self ..)
  · exact Linked.mono (fun e he => by rw [hgraph]; exact List.mem_append_left _ he) h.linked
  · exact h.nodup
  · intro x hx
    rw [hclosed]
    intro hc
    rcases List.mem_cons.1 hc with rfl | hc
    · exact hNs hx
    · exact h.disj x hx hc
  · intro k id hk
    rw [hmap, assoc_aset] at hk
    rw [hclosed]
    by_cases hkn : k = n
    · simp [hkn] at hk; subst hk; exact Or.inr (List.mem_cons_self ..)
    · simp [hkn] at hk
      rcases h.reg k id hk with h' | h'
      · exact Or.inl h'
      · exact Or.inr (List.mem_cons_of_mem _ h')
  · intro x hx
    rw [hclosed] at hx
    rw [hnames, List.length_append]
    rcases List.mem_cons.1 hx with rfl | hx
    · simp
    · have := h.cbound x hx; omega
  · intro x hx
    obtain ⟨nx, h1, h2⟩ := h.sreach x hx
    exact ⟨nx, hold h1, h2⟩
  · intro x hx hb
    rw [hlog] at hb
    simp at hb
    exact h.nobody x hx hb

/-- a library module that was allocated before is imported again -/
theorem LInv.old_lib {files : Files} {mainSrc : ModuleSrc} {vm : VM} {id : Nat} {st : List Nat}
    (h : LInv files mainSrc vm st) (hout : ∀ a b, (a, b) ∈ vm.graph → a ≠ id) (hns : id ∉ st)
    (hlt : id < (namesOf vm).length) : LInv files mainSrc (vm.record (.lib id)) st := by
  have hclosed : closedOf (vm.record (.lib id)).log = id :: closedOf vm.log := rfl
  constructor
  · rw [hclosed]; exact topo_insert_noedge hout h.topo
  · intro a b he
    rw [hclosed]
    rcases h.src a b he with ha | ha
    · exact Or.inl ha
    · exact Or.inr (List.mem_cons_of_mem _ ha)
  · exact h.linked
  · exact h.nodup
  · intro x hx
    rw [hclosed]
    intro hc
    rcases List.mem_cons.1 hc with rfl | hc
    · exact hns hx
    · exact h.disj x hx hc
  · intro k i hk
    rw [hclosed]
    rcases h.reg k i hk with h' | h'
    · exact Or.inl h'
    · exact Or.inr (List.mem_cons_of_mem _ h')
  · intro x hx
    rw [hclosed] at hx
    rcases List.mem_cons.1 hx with rfl | hx
    · exact hlt
    · exact h.cbound x hx
  · exact h.sreach
  · intro x hx hb
    simp [VM.record] at hb
    exact h.nobody x hx hb

/-- the current module imports a module that is already closed: one more edge -/
theorem LInv.dep_closed {files : Files} {mainSrc : ModuleSrc} {vm vm' : VM} {top id : Nat} {rest : List Nat}
    (h : LInv files mainSrc vm (top :: rest))
    (hnames : namesOf vm' = namesOf vm)
    (hgraph : vm'.graph = vm.graph ++ [(top, id)])
    (hmap : ∀ k, assoc k vm'.nameMap = assoc k vm.nameMap)
    (hlog : vm'.log = vm.log)
    (hid : id ∈ closedOf vm.log) : LInv files mainSrc vm' (top :: rest) := by
  constructor
  · rw [hlog, hgraph]
    exact topo_add_edge (p := (top :: rest).reverse) h.topo (h.disj top (List.mem_cons_self ..)) hid
  · intro a b he
    rw [hgraph] at he; rw [hlog]
    rcases List.mem_append.1 he with he | he
    · exact h.src a b he
    · simp at he; rw [he.1]; exact Or.inl (List.mem_cons_self ..)
  · exact Linked.mono (fun e he => by rw [hgraph]; exact List.mem_append_left _ he) h.linked
  · exact h.nodup
  · rw [hlog]; exact h.disj
  · intro k i hk
    rw [hmap] at hk; rw [hlog]; exact h.reg k i hk
  · rw [hlog, hnames]; exact h.cbound
  · rw [hnames]; exact h.sreach
  · rw [hlog]; exact h.nobody

/-- the module on top of the import stack has run its body: it becomes the most recently closed module -/
theorem LInv.close {files : Files} {mainSrc : ModuleSrc} {vm vm' : VM} {m : Nat} {rest : List Nat}
    (h : LInv files mainSrc vm (m :: rest))
    (hnames : namesOf vm' = namesOf vm) (hgraph : vm'.graph = vm.graph) (hmap : vm'.nameMap = vm.nameMap)
    (hlog : vm'.log = Ev.done m :: Ev.body m :: vm.log) : LInv files mainSrc vm' rest := by
  have hclosed : closedOf vm'.log = m :: closedOf vm.log := by rw [hlog]; rfl
  have hnd := List.nodup_cons.1 h.nodup
  constructor
  · rw [hclosed, hgraph]
    have := h.topo
    simpa [List.reverse_cons, List.append_assoc] using this
  · intro a b he
    rw [hgraph] at he; rw [hclosed]
    rcases h.src a b he with ha | ha
    · rcases List.mem_cons.1 ha with rfl | ha
      · exact Or.inr (List.mem_cons_self ..)
      · exact Or.inl ha
    · exact Or.inr (List.mem_cons_of_mem _ ha)
  · rw [hgraph]; exact h.linked.tail
  · exact hnd.2
  · intro x hx
    rw [hclosed]
    intro hc
    rcases List.mem_cons.1 hc with rfl | hc
    · exact hnd.1 hx
    · exact h.disj x (List.mem_cons_of_mem _ hx) hc
  · intro k i hk
    rw [hmap] at hk; rw [hclosed]
    rcases h.reg k i hk with h' | h'
    · rcases List.mem_cons.1 h' with rfl | h'
      · exact Or.inr (List.mem_cons_self ..)
      · exact Or.inl h'
    · exact Or.inr (List.mem_cons_of_mem _ h')
  · intro x hx
    rw [hclosed] at hx; rw [hnames]
    rcases List.mem_cons.1 hx with rfl | hx
    · exact h.lt_of_stack (List.mem_cons_self ..)
    · exact h.cbound x hx
  · intro x hx
    rw [hnames]; exact h.sreach x (List.mem_cons_of_mem _ hx)
  · intro x hx hb
    rw [hlog] at hb
    simp at hb
    rcases hb with rfl | hb
    · exact hnd.1 hx
    · exact h.nobody x (List.mem_cons_of_mem _ hx) hb

end ZnVerif.Proofs.Modules

namespace ZnVerif.Proofs.Modules
open ZnVerif.Model.Modules
open ZnVerif.Spec.ModuleSem (Walk HasCycle)
open ZnVerif.Proofs.ModulesDfs

/-- one more edge between two registered modules -/
theorem SInv.dep {files : Files} {mainSrc : ModuleSrc} {vm vm' : VM} {m id : Nat} {nm n : Name}
    (h : SInv files mainSrc vm)
    (hnames : namesOf vm' = namesOf vm) (hgraph : vm'.graph = vm.graph ++ [(m, id)])
    (hmap : ∀ k, assoc k vm'.nameMap = assoc k vm.nameMap) (hlog : vm'.log = vm.log)
    (hm : (namesOf vm)[m]? = some nm) (hid : (namesOf vm)[id]? = some n)
    (hreach : MReach files mainSrc nm) (himp : MImports files mainSrc nm n) : SInv files mainSrc vm' := by
  obtain ⟨h1, h2, h3, h3', h4, h5, h6, h7, h8, h9, h10⟩ := h
  constructor
  · rw [hnames]; exact h1
  · rw [hnames]; exact h2
  · intro k i hk; rw [hmap] at hk; rw [hnames]; exact h3 k i hk
  · intro i k hk; rw [hnames] at hk; rw [hmap]; exact h3' i k hk
  · intro a b he
    rw [hgraph] at he; rw [hnames]
    rcases List.mem_append.1 he with he | he
    · exact h4 a b he
    · simp at he; obtain ⟨rfl, rfl⟩ := he
      exact ⟨nm, n, hm, hid, hreach, Or.inr himp⟩
  · rw [hlog]; exact h5
  · rw [hlog, hnames]; exact h6
  · intro l1 x l2 hl nx src hnx hsrc imp himp' hc
    rw [hlog] at hl; rw [hnames] at hnx
    obtain ⟨i, e1, e2, e3⟩ := h7 l1 x l2 hl nx src hnx hsrc imp himp' hc
    exact ⟨i, by rw [hmap]; exact e1, e2, by rw [hgraph]; exact List.mem_append_left _ e3⟩
  · rw [hlog]; exact h8
  · rw [hlog, hnames]; exact h9
  · rw [hlog, hnames]; exact h10

theorem ext_of_eqs {vm vm' : VM} {l : List Name} {es : Graph} {ev : List Ev}
    (hnames : namesOf vm' = namesOf vm ++ l) (hgraph : vm'.graph = vm.graph ++ es)
    (hmap : ∀ k id, assoc k vm.nameMap = some id → assoc k vm'.nameMap = some id)
    (hlog : vm'.log = ev ++ vm.log) : Ext vm vm' :=
  ⟨⟨l, hnames⟩, fun e he => by rw [hgraph]; exact List.mem_append_left _ he, hmap, ⟨ev, hlog⟩⟩

theorem aset_fresh_mono {vm : VM} {n : Name} {N : Nat} (hfresh : assoc n vm.nameMap = none) :
    ∀ k id, assoc k vm.nameMap = some id → assoc k (aset n N vm.nameMap) = some id := by
  intro k id hk
  rw [assoc_aset]
  have : k ≠ n := fun h => by rw [h, hfresh] at hk; cases hk
  simp [this, hk]

theorem same_addExportsIgnoringDup (m : Nat) : ∀ (l : List (Name × Val)) (vm : VM),
    Same vm (addExportsIgnoringDup m vm l) ∧ (addExportsIgnoringDup m vm l).stack = vm.stack ∧
      (addExportsIgnoringDup m vm l).cs = vm.cs
  | [], vm => ⟨Same.rfl' _, rfl, rfl⟩
  | (n, v) :: r, vm => by
    unfold addExportsIgnoringDup
    cases ha : vm.addExport m n v with
    | none => exact same_addExportsIgnoringDup m r vm
    | some vm1 =>
      dsimp only
      obtain ⟨h1, h2, h3⟩ := same_addExportsIgnoringDup m r vm1
      have st := addExport_stack ha
      exact ⟨(same_addExport ha).trans h1, h2.trans st.1, h3.trans st.2⟩

/-- frame property of the binding of imported names -/
def BindFrame (vm : VM) (r : Res VM) : Prop :=
  match r with
  | .ok vm' => Same vm vm' ∧ vm'.stack = vm.stack ∧ vm'.cs = vm.cs
  | .err e vm' => Same vm vm' ∧ (e = .code 42 ∨ e = .code 43)

theorem declareExternals_frame (mid : Nat) : ∀ (l : List (Name × Val)) (vm : VM),
    BindFrame vm (declareExternals mid vm l)
  | [], vm => by simp [declareExternals, BindFrame, Same.rfl']
  | (n, v) :: r, vm => by
    unfold declareExternals
    cases hd : vm.declareExternal n v mid with
    | err e vm' =>
      obtain ⟨rfl, he⟩ := declareExternal_err hd
      exact ⟨Same.rfl' _, he⟩
    | ok vm1 =>
      dsimp only
      have ih := declareExternals_frame mid r vm1
      have s1 := same_declareExternal hd
      have st := declareExternal_stack hd
      cases hr : declareExternals mid vm1 r with
      | err e vm' => rw [hr] at ih; exact ⟨s1.trans ih.1, ih.2⟩
      | ok vm2 => rw [hr] at ih; exact ⟨s1.trans ih.1, ih.2.1.trans st.1, ih.2.2.trans st.2⟩

theorem bindImports_frame (O : Oracle) (vm : VM) (mid : Nat) (items : List Name) :
    BindFrame vm (bindImports O vm mid items) := by
  unfold bindImports
  cases items with
  | nil => exact declareExternals_frame mid _ vm
  | cons a r => exact declareExternals_frame mid _ vm

theorem redeclareExports_frame : ∀ (l : List (Name × Val)) (vm : VM), BindFrame vm (redeclareExports vm l)
  | [], vm => by simp [redeclareExports, BindFrame, Same.rfl']
  | (n, v) :: r, vm => by
    unfold redeclareExports
    cases hd : vm.declareConst n v with
    | err e vm' =>
      obtain ⟨rfl, he⟩ := declareConst_err hd
      exact ⟨Same.rfl' _, he⟩
    | ok vm1 =>
      dsimp only
      have ih := redeclareExports_frame r vm1
      have s1 := same_declareConst hd
      have st := declareConst_stack hd
      cases hr : redeclareExports vm1 r with
      | err e vm' => rw [hr] at ih; exact ⟨s1.trans ih.1, ih.2⟩
      | ok vm2 => rw [hr] at ih; exact ⟨s1.trans ih.1, ih.2.1.trans st.1, ih.2.2.trans st.2⟩

/-- the order oracle of the DFS enumerates every node -/
def OracleOK (O : Oracle) : Prop := ∀ g v, v ∈ nodes g → v ∈ O.dfsOrder g

theorem checkDependency_cases (O : Oracle) (vm : VM) (n : Name) :
    match checkDependency O vm n with
    | .ok vm' => vm' = vm ∧ (OracleOK O → assoc n vm.nameMap ≠ none → ¬ HasCycle vm.graph)
    | .err e vm' => vm' = vm ∧ (e = .code 63 → HasCycle vm.graph) := by
  unfold checkDependency
  cases hn : assoc n vm.nameMap with
  | none => exact ⟨rfl, fun _ h => absurd rfl h⟩
  | some id =>
    dsimp only
    cases hc : checkCircular vm.graph (O.dfsOrder vm.graph) with
    | none => exact ⟨rfl, fun h => by cases h⟩
    | some b =>
      cases b with
      | true => exact ⟨rfl, fun _ => checkCircular_sound _ _ hc⟩
      | false =>
        refine ⟨rfl, fun hO _ hcyc => ?_⟩
        have := checkCircular_complete vm.graph (O.dfsOrder vm.graph) (hO vm.graph) hcyc
        rw [hc] at this; cases this

end ZnVerif.Proofs.Modules

namespace ZnVerif.Proofs.Modules
open ZnVerif.Model.Modules
open ZnVerif.Spec.ModuleSem (Walk HasCycle)
open ZnVerif.Proofs.ModulesDfs

/-! ### specifications of the loader functions -/

/-- the module whose imports are being processed -/
structure Cur (files : Files) (mainSrc : ModuleSrc) (vm : VM) (m : Nat) (rest : List Nat) (nm : Name)
    (src : ModuleSrc) : Prop where
  stack : vm.stack = m :: rest
  cs : vm.cs = some m
  name : (namesOf vm)[m]? = some nm
  src : msrc files mainSrc nm = some src
  reach : MReach files mainSrc nm

/-- the import statement has been carried out: its module is registered, done, and the edge is recorded -/
def ImpDone (vm : VM) (m : Nat) (imp : Imp) : Prop :=
  (parseLibName imp.name).libType = .custom →
    ∃ id, assoc imp.name vm.nameMap = some id ∧ Ev.done id ∈ vm.log ∧ (m, id) ∈ vm.graph

theorem ImpDone.mono {vm vm' : VM} {m : Nat} {imp : Imp} (he : Ext vm vm') (h : ImpDone vm m imp) :
    ImpDone vm' m imp := by
  intro hc
  obtain ⟨id, h1, h2, h3⟩ := h hc
  exact ⟨id, he.nameMap _ _ h1, he.mem_log h2, he.graph _ h3⟩

def ErrPost (files : Files) (mainSrc : ModuleSrc) (vm : VM) (e : Err) (vm' : VM) : Prop :=
  SInv files mainSrc vm' ∧ Ext vm vm' ∧ (e = .code 63 → HasCycle vm'.graph)

structure OkPost (files : Files) (mainSrc : ModuleSrc) (vm vm' : VM) (m : Nat) (rest : List Nat) : Prop where
  sinv : SInv files mainSrc vm'
  linv : LInv files mainSrc vm' (m :: rest)
  stack : vm'.stack = m :: rest
  cs : vm'.cs = some m
  ext : Ext vm vm'

theorem Cur.mono {files : Files} {mainSrc : ModuleSrc} {vm vm' : VM} {m : Nat} {rest : List Nat} {nm : Name}
    {src : ModuleSrc} (h : Cur files mainSrc vm m rest nm src) (hp : OkPost files mainSrc vm vm' m rest) :
    Cur files mainSrc vm' m rest nm src :=
  ⟨hp.stack, hp.cs, hp.ext.names_get h.name, h.src, h.reach⟩

theorem ErrPost.trans {files : Files} {mainSrc : ModuleSrc} {vm vm1 vm' : VM} {e : Err} (he : Ext vm vm1)
    (h : ErrPost files mainSrc vm1 e vm') : ErrPost files mainSrc vm e vm' :=
  ⟨h.1, he.trans h.2.1, h.2.2⟩

def LoadSpec (files : Files) (mainSrc : ModuleSrc) (load : VM → LibNameInfo → Res (VM × Nat)) : Prop :=
  ∀ (vm : VM) (n : Name) (m : Nat) (rest : List Nat) (nm : Name) (src : ModuleSrc) (imp : Imp),
    SInv files mainSrc vm → LInv files mainSrc vm (m :: rest) → Cur files mainSrc vm m rest nm src →
    imp ∈ src.imports → imp.name = n → assoc n vm.nameMap = none → (parseLibName n).libType = .custom →
    match load vm (parseLibName n) with
    | .ok (vm', id) => OkPost files mainSrc vm vm' m rest ∧ assoc n vm'.nameMap = some id ∧
        Ev.done id ∈ vm'.log ∧ (m, id) ∈ vm'.graph
    | .err e vm' => ErrPost files mainSrc vm e vm'

theorem bind_after {files : Files} {mainSrc : ModuleSrc} {O : Oracle} {vm vm1 : VM} {m : Nat} {rest : List Nat}
    {imp : Imp} (mid : Nat) (hp : OkPost files mainSrc vm vm1 m rest) (hd : ImpDone vm1 m imp) :
    match bindImports O vm1 mid imp.items with
    | .ok vm' => OkPost files mainSrc vm vm' m rest ∧ ImpDone vm' m imp
    | .err e vm' => ErrPost files mainSrc vm e vm' := by
  have hb := bindImports_frame O vm1 mid imp.items
  cases hr : bindImports O vm1 mid imp.items with
  | ok vm2 =>
    rw [hr] at hb
    obtain ⟨hs, hst, hcs⟩ := hb
    exact ⟨⟨hp.sinv.of_same hs, hp.linv.of_same hs, hst.trans hp.stack, hcs.trans hp.cs,
      hp.ext.trans (Ext.of_same hs)⟩, hd.mono (Ext.of_same hs)⟩
  | err e vm2 =>
    rw [hr] at hb
    obtain ⟨hs, he⟩ := hb
    refine ⟨hp.sinv.of_same hs, hp.ext.trans (Ext.of_same hs), ?_⟩
    intro h63; rcases he with rfl | rfl <;> cases h63

theorem addDep_eq {vm : VM} {n : Name} {id m : Nat} (hn : assoc n vm.nameMap = some id) (hcs : vm.cs = some m) :
    namesOf (vm.addModuleDependency n) = namesOf vm ∧
    (vm.addModuleDependency n).graph = vm.graph ++ [(m, id)] ∧
    (∀ k, assoc k (vm.addModuleDependency n).nameMap = assoc k vm.nameMap) ∧
    (vm.addModuleDependency n).log = vm.log ∧ (vm.addModuleDependency n).stack = vm.stack ∧
    (vm.addModuleDependency n).cs = vm.cs := by
  unfold VM.addModuleDependency
  rw [hn]; dsimp only; rw [hcs]
  exact ⟨rfl, rfl, fun k => assoc_aset_idem hn k, rfl, rfl, rfl⟩

/-- an import of an already registered module that passes the cycle check: that module is closed -/
theorem existing_import_done {files : Files} {mainSrc : ModuleSrc} {O : Oracle} (hO : OracleOK O)
    {vm vm2 : VM} {m id : Nat} {rest : List Nat} {n : Name}
    (hS : SInv files mainSrc vm) (hL : LInv files mainSrc vm (m :: rest)) (hcs : vm.cs = some m)
    (hreg : assoc n vm.nameMap = some id) (hty : (parseLibName n).libType = .custom)
    (hc : checkDependency O (vm.addModuleDependency n) n = .ok vm2) : Ev.done id ∈ vm.log := by
  obtain ⟨dnames, dgraph, dmap, dlog, dstack, dcs⟩ := addDep_eq hreg hcs
  have hidn : (namesOf vm)[id]? = some n := hS.regName _ _ hreg
  have hcd := checkDependency_cases O (vm.addModuleDependency n) n
  rw [hc] at hcd
  obtain ⟨_, hno⟩ := hcd
  have hnocyc : ¬ HasCycle (vm.addModuleDependency n).graph := hno hO (by rw [dmap, hreg]; simp)
  have hnotstack : id ∉ m :: rest := by
    intro hmem
    apply hnocyc
    rw [dgraph]
    refine ⟨m, id, by simp, ?_⟩
    exact Walk.mono (fun e he => List.mem_append_left _ he) (linked_walk hL.linked hmem)
  have hclosed : id ∈ closedOf vm.log := by
    rcases hL.reg _ _ hreg with h | h
    · exact absurd h hnotstack
    · exact h
  rcases mem_closedOf.1 hclosed with h | h
  · exact h
  · obtain ⟨k, hk, hs⟩ := hS.libStd id h
    rw [hidn] at hk; injection hk with hk
    rw [← hk, hty] at hs; cases hs

theorem evalImport_spec {files : Files} {mainSrc : ModuleSrc} {O : Oracle} {libs : Libs}
    {load : VM → LibNameInfo → Res (VM × Nat)} (hO : OracleOK O) (hload : LoadSpec files mainSrc load)
    {vm : VM} {m : Nat} {rest : List Nat} {nm : Name} {src : ModuleSrc} {imp : Imp}
    (hS : SInv files mainSrc vm) (hL : LInv files mainSrc vm (m :: rest)) (hC : Cur files mainSrc vm m rest nm src)
    (himp : imp ∈ src.imports) :
    match evalImport O libs load vm imp with
    | .ok vm' => OkPost files mainSrc vm vm' m rest ∧ ImpDone vm' m imp
    | .err e vm' => ErrPost files mainSrc vm e vm' := by
  unfold evalImport
  dsimp only
  cases hty : (parseLibName imp.name).libType with
  | vendor =>
    exact ⟨⟨hS, hL, hC.stack, hC.cs, Ext.rfl' _⟩, fun hc => by rw [hty] at hc; cases hc⟩
  | std =>
    dsimp only
    have hdone : ∀ vm', ImpDone vm' m imp := fun vm' hc => by rw [hty] at hc; cases hc
    cases hreg : assoc imp.name vm.nameMap with
    | none =>
      -- a library module allocated now
      obtain ⟨a2, anames, agraph, amap, alog, astack, acs⟩ := allocate_fresh hreg
      rw [hC.cs] at agraph; dsimp only at agraph
      have hS1 : SInv files mainSrc (vm.allocateModule imp.name).1 :=
        hS.alloc hreg anames agraph amap alog hC.name hC.reach (Or.inl hty)
      have hE1 : Ext vm (vm.allocateModule imp.name).1 :=
        ext_of_eqs anames agraph (by rw [amap]; exact aset_fresh_mono hreg) (by rw [alog]; rfl : _ = [] ++ vm.log)
      cases hlib : assoc imp.name libs with
      | none => exact ⟨hS1, hE1, fun h => by cases h⟩
      | some names =>
        dsimp only
        generalize hex : O.exportOrder (names.map (fun n => (n, Val.native))) = exl
        obtain ⟨s2, st2, cs2⟩ := same_addExportsIgnoringDup (vm.allocateModule imp.name).2 exl
          ((vm.allocateModule imp.name).1.pushFrame (vm.allocateModule imp.name).2)
        have s12 : Same (vm.allocateModule imp.name).1
            (addExportsIgnoringDup (vm.allocateModule imp.name).2
              ((vm.allocateModule imp.name).1.pushFrame (vm.allocateModule imp.name).2) exl) :=
          (same_pushFrame _ _).trans s2
        cases hpop : (addExportsIgnoringDup (vm.allocateModule imp.name).2
            ((vm.allocateModule imp.name).1.pushFrame (vm.allocateModule imp.name).2) exl).popFrame with
        | none => exact ⟨hS1.of_same s12, hE1.trans (Ext.of_same s12), fun h => by cases h⟩
        | some vm3 =>
          dsimp only
          obtain ⟨t, r, hst, hr3, hc3⟩ := popFrame_eq hpop
          rw [st2, pushFrame_stack, astack, hC.stack] at hst
          injection hst with _ hr'
          have s13 : Same (vm.allocateModule imp.name).1 vm3 := s12.trans (same_popFrame hpop)
          have hstack3 : vm3.stack = m :: rest := by rw [hr3, ← hr']
          have hcs3 : vm3.cs = some m := by rw [hc3, ← hr']; rfl
          have hS3 : SInv files mainSrc (vm3.record (.lib (vm.allocateModule imp.name).2)) := by
            apply (hS1.of_same s13).record_lib (n := imp.name) _ hty
            rw [s13.names, anames, a2]; simp
          have hL3 : LInv files mainSrc (vm3.record (.lib (vm.allocateModule imp.name).2)) (m :: rest) := by
            apply hL.new_lib (n := imp.name)
            · show namesOf vm3 = _; rw [s13.names, anames]
            · show vm3.graph = _; rw [s13.graph, agraph]
            · show vm3.nameMap = _; rw [s13.nameMap, amap]
            · show Ev.lib _ :: vm3.log = _; rw [s13.log, alog, a2]
          have hE3 : Ext vm (vm3.record (.lib (vm.allocateModule imp.name).2)) :=
            (hE1.trans (Ext.of_same s13)).trans (ext_record _ _)
          exact bind_after _ ⟨hS3, hL3, hstack3, hcs3, hE3⟩ (hdone _)
    | some id =>
      rw [allocate_existing hreg]
      dsimp only
      cases hlib : assoc imp.name libs with
      | none => exact ⟨hS, Ext.rfl' _, fun h => by cases h⟩
      | some names =>
        dsimp only
        generalize hex : O.exportOrder (names.map (fun n => (n, Val.native))) = exl
        obtain ⟨s2, st2, cs2⟩ := same_addExportsIgnoringDup id exl (vm.pushFrame id)
        have s12 : Same vm (addExportsIgnoringDup id (vm.pushFrame id) exl) := (same_pushFrame _ _).trans s2
        cases hpop : (addExportsIgnoringDup id (vm.pushFrame id) exl).popFrame with
        | none => exact ⟨hS.of_same s12, Ext.of_same s12, fun h => by cases h⟩
        | some vm3 =>
          dsimp only
          obtain ⟨t, r, hst, hr3, hc3⟩ := popFrame_eq hpop
          rw [st2, pushFrame_stack, hC.stack] at hst
          injection hst with _ hr'
          have s13 : Same vm vm3 := s12.trans (same_popFrame hpop)
          have hstack3 : vm3.stack = m :: rest := by rw [hr3, ← hr']
          have hcs3 : vm3.cs = some m := by rw [hc3, ← hr']; rfl
          have hidn : (namesOf vm)[id]? = some imp.name := hS.regName _ _ hreg
          have hS3 : SInv files mainSrc (vm3.record (.lib id)) :=
            (hS.of_same s13).record_lib (n := imp.name) (by rw [s13.names]; exact hidn) hty
          have hL3 : LInv files mainSrc (vm3.record (.lib id)) (m :: rest) := by
            apply (hL.of_same s13).old_lib
            · rw [s13.graph]; exact hS.no_edge_from_std hidn hty
            · intro hmem
              obtain ⟨nx, h1, h2⟩ := hL.sreach id hmem
              rw [hidn] at h1; injection h1 with h1
              have := h2.1.custom; rw [← h1, hty] at this; cases this
            · rw [s13.names]; exact getElem?_lt hidn
          exact bind_after _ ⟨hS3, hL3, hstack3, hcs3, (Ext.of_same s13).trans (ext_record _ _)⟩ (hdone _)
  | custom =>
    dsimp only
    have hMI : MImports files mainSrc nm imp.name := ⟨src, imp, hC.src, himp, rfl, hty⟩
    unfold VM.findModuleByName
    cases hreg : assoc imp.name vm.nameMap with
    | none =>
      dsimp only
      have hl := hload vm imp.name m rest nm src imp hS hL hC himp rfl hreg hty
      cases hr : load vm (parseLibName imp.name) with
      | err e vm' => rw [hr] at hl; exact hl
      | ok p =>
        obtain ⟨vm1, mid⟩ := p
        rw [hr] at hl
        obtain ⟨hp, h1, h2, h3⟩ := hl
        dsimp only
        have hcd := checkDependency_cases O vm1 imp.name
        cases hc : checkDependency O vm1 imp.name with
        | err e vm' =>
          rw [hc] at hcd
          obtain ⟨rfl, h63⟩ := hcd
          exact ⟨hp.sinv, hp.ext, h63⟩
        | ok vm2 =>
          rw [hc] at hcd
          obtain ⟨rfl, _⟩ := hcd
          exact bind_after mid hp (fun _ => ⟨mid, h1, h2, h3⟩)
    | some id =>
      dsimp only
      obtain ⟨dnames, dgraph, dmap, dlog, dstack, dcs⟩ := addDep_eq hreg hC.cs
      have hidn : (namesOf vm)[id]? = some imp.name := hS.regName _ _ hreg
      have hS1 : SInv files mainSrc (vm.addModuleDependency imp.name) :=
        hS.dep dnames dgraph dmap dlog hC.name hidn hC.reach hMI
      have hE1 : Ext vm (vm.addModuleDependency imp.name) :=
        ext_of_eqs (l := []) (by rw [dnames]; simp) dgraph (fun k i hk => by rw [dmap]; exact hk)
          (by rw [dlog]; rfl : _ = [] ++ vm.log)
      have hcd := checkDependency_cases O (vm.addModuleDependency imp.name) imp.name
      cases hc : checkDependency O (vm.addModuleDependency imp.name) imp.name with
      | err e vm' =>
        rw [hc] at hcd
        obtain ⟨rfl, h63⟩ := hcd
        exact ⟨hS1, hE1, h63⟩
      | ok vm2 =>
        rw [hc] at hcd
        obtain ⟨rfl, hno⟩ := hcd
        have hnocyc : ¬ HasCycle (vm.addModuleDependency imp.name).graph :=
          hno hO (by rw [dmap, hreg]; simp)
        have hnotstack : id ∉ m :: rest := by
          intro hmem
          apply hnocyc
          rw [dgraph]
          refine ⟨m, id, by simp, ?_⟩
          exact Walk.mono (fun e he => List.mem_append_left _ he) (linked_walk hL.linked hmem)
        have hclosed : id ∈ closedOf vm.log := by
          rcases hL.reg _ _ hreg with h | h
          · exact absurd h hnotstack
          · exact h
        have hdoneid : Ev.done id ∈ vm.log := by
          rcases mem_closedOf.1 hclosed with h | h
          · exact h
          · obtain ⟨k, hk, hs⟩ := hS.libStd id h
            rw [hidn] at hk; injection hk with hk
            rw [← hk, hty] at hs; cases hs
        have hL1 : LInv files mainSrc (vm.addModuleDependency imp.name) (m :: rest) :=
          hL.dep_closed dnames dgraph dmap dlog hclosed
        refine bind_after id ⟨hS1, hL1, dstack.trans hC.stack, dcs.trans hC.cs, hE1⟩ ?_
        intro _
        exact ⟨id, by rw [dmap]; exact hreg, by rw [dlog]; exact hdoneid, by rw [dgraph]; simp⟩

end ZnVerif.Proofs.Modules

namespace ZnVerif.Proofs.Modules
open ZnVerif.Model.Modules
open ZnVerif.Spec.ModuleSem (Walk HasCycle)
open ZnVerif.Proofs.ModulesDfs

theorem evalImports_spec {files : Files} {mainSrc : ModuleSrc} {O : Oracle} {libs : Libs}
    {load : VM → LibNameInfo → Res (VM × Nat)} (hO : OracleOK O) (hload : LoadSpec files mainSrc load)
    {m : Nat} {rest : List Nat} {nm : Name} {src : ModuleSrc} :
    ∀ (imps : List Imp) (vm : VM), SInv files mainSrc vm → LInv files mainSrc vm (m :: rest) →
      Cur files mainSrc vm m rest nm src → (∀ i, i ∈ imps → i ∈ src.imports) →
      match evalImports O libs load vm imps with
      | .ok vm' => OkPost files mainSrc vm vm' m rest ∧ ∀ i, i ∈ imps → ImpDone vm' m i
      | .err e vm' => ErrPost files mainSrc vm e vm'
  | [], vm, hS, hL, hC, _ => ⟨⟨hS, hL, hC.stack, hC.cs, Ext.rfl' _⟩, fun _ h => by cases h⟩
  | i :: r, vm, hS, hL, hC, hsub => by
    unfold evalImports
    have h1 := evalImport_spec (libs := libs) hO hload hS hL hC (hsub i (List.mem_cons_self ..))
    cases hr : evalImport O libs load vm i with
    | err e vm' => rw [hr] at h1; exact h1
    | ok vm1 =>
      rw [hr] at h1
      obtain ⟨hp, hd⟩ := h1
      dsimp only
      have h2 := evalImports_spec (libs := libs) hO hload r vm1 hp.sinv hp.linv (hC.mono hp)
        (fun j hj => hsub j (List.mem_cons_of_mem _ hj))
      cases hr2 : evalImports O libs load vm1 r with
      | err e vm' => rw [hr2] at h2; exact ErrPost.trans hp.ext h2
      | ok vm2 =>
        rw [hr2] at h2
        obtain ⟨hp2, hd2⟩ := h2
        refine ⟨⟨hp2.sinv, hp2.linv, hp2.stack, hp2.cs, hp.ext.trans hp2.ext⟩, ?_⟩
        intro j hj
        rcases List.mem_cons.1 hj with rfl | hj
        · exact hd.mono hp2.ext
        · exact hd2 j hj

theorem evalProgram_spec {files : Files} {mainSrc : ModuleSrc} {O : Oracle} {libs : Libs} {cf : Nat}
    {load : VM → LibNameInfo → Res (VM × Nat)} (hO : OracleOK O) (hload : LoadSpec files mainSrc load)
    {vm : VM} {m : Nat} {rest : List Nat} {nm : Name} {src : ModuleSrc}
    (hS : SInv files mainSrc vm) (hL : LInv files mainSrc vm (m :: rest)) (hC : Cur files mainSrc vm m rest nm src) :
    match evalProgram O libs cf load vm m src with
    | .ok vm' => SInv files mainSrc vm' ∧ LInv files mainSrc vm' rest ∧ vm'.stack = m :: rest ∧ vm'.cs = some m ∧
        Ext vm vm' ∧ Ev.done m ∈ vm'.log
    | .err e vm' => ErrPost files mainSrc vm e vm' := by
  unfold evalProgram
  have h1 := evalImports_spec (libs := libs) hO hload src.imports vm hS hL hC (fun _ h => h)
  cases hr : evalImports O libs load vm src.imports with
  | err e vm' => rw [hr] at h1; exact h1
  | ok vm1 =>
    rw [hr] at h1
    obtain ⟨hp, hd⟩ := h1
    dsimp only
    have hC1 := hC.mono hp
    have hSb : SInv files mainSrc (vm1.record (.body m)) :=
      hp.sinv.record_body hC1.name hC1.src (hp.linv.nobody m (List.mem_cons_self ..))
        (fun imp hi hc => hd imp hi hc)
    have hf := evalBody_frame cf (vm1.record (.body m)) src.body
    cases hr2 : evalBody cf (vm1.record (.body m)) src.body with
    | err e vm' =>
      rw [hr2] at hf
      obtain ⟨hs, hbe⟩ := hf
      refine ⟨hSb.of_same hs, (hp.ext.trans (ext_record _ _)).trans (Ext.of_same hs), ?_⟩
      intro h63; exact absurd h63 hbe.2.1
    | ok vm2 =>
      rw [hr2] at hf
      obtain ⟨hs, hst, hcs⟩ := hf
      dsimp only
      have hbody : Ev.body m ∈ vm2.log := by rw [hs.log]; exact List.mem_cons_self ..
      refine ⟨(hSb.of_same hs).record_done hbody (nx := nm) (by rw [hs.names]; exact hC1.name) hC1.reach hC1.src, ?_, ?_, ?_, ?_, List.mem_cons_self ..⟩
      · apply hp.linv.close
        · show namesOf vm2 = _; rw [hs.names]; rfl
        · show vm2.graph = _; rw [hs.graph]; rfl
        · show vm2.nameMap = _; rw [hs.nameMap]; rfl
        · show Ev.done m :: vm2.log = _; rw [hs.log]; rfl
      · show vm2.stack = _; rw [hst]; exact hp.stack
      · show vm2.cs = _
        rw [hcs (by show vm1.cs = vm1.stack.head?; rw [hp.cs, hp.stack]; rfl)]; exact hp.cs
      · exact ((hp.ext.trans (ext_record _ _)).trans (Ext.of_same hs)).trans (ext_record _ _)

theorem msrc_of_finder {files : Files} {mainSrc : ModuleSrc} {n : Name} {s : ModuleSrc} (hne : n ≠ mainName)
    (hf : finder .repaired files (parseLibName n) = .src s) : msrc files mainSrc n = some s := by
  unfold msrc; simp [hne, hf]

theorem loadModule_spec {files : Files} {mainSrc : ModuleSrc} {O : Oracle} {libs : Libs} {cf : Nat}
    (hO : OracleOK O) : ∀ f, LoadSpec files mainSrc (loadModule .repaired O files libs cf f)
  | 0 => by
    intro vm n m rest nm src imp hS _ _ _ _ _ _
    exact ⟨hS, Ext.rfl' _, fun h => by cases h⟩
  | f + 1 => by
    intro vm n m rest nm src imp hS hL hC himp hname hreg hty
    unfold loadModule
    cases hfind : finder .repaired files (parseLibName n) with
    | panic => exact ⟨hS, Ext.rfl' _, fun h => by cases h⟩
    | notFound => exact ⟨hS, Ext.rfl' _, fun h => by cases h⟩
    | emptySrc => exact ⟨hS, Ext.rfl' _, fun h => by cases h⟩
    | src s =>
      dsimp only
      rw [parseLibName_originalName]
      have hMI : MImports files mainSrc nm n := ⟨src, imp, hC.src, himp, hname, hty⟩
      have hne : n ≠ mainName := by
        intro h; rw [h, hS.regAll 0 mainName hS.main0] at hreg; cases hreg
      obtain ⟨a2, anames, agraph, amap, alog, astack, acs⟩ := allocate_fresh hreg
      rw [hC.cs] at agraph; dsimp only at agraph
      rw [a2]
      generalize hvm1 : (((vm.allocateModule n).1.pushFrame (namesOf vm).length).record
        (.enter (namesOf vm).length)) = vm1
      have n1 : namesOf vm1 = namesOf vm ++ [n] := by rw [← hvm1]; exact anames
      have g1 : vm1.graph = vm.graph ++ [(m, (namesOf vm).length)] := by rw [← hvm1]; exact agraph
      have m1 : vm1.nameMap = aset n (namesOf vm).length vm.nameMap := by rw [← hvm1]; exact amap
      have l1 : vm1.log = Ev.enter (namesOf vm).length :: vm.log := by
        rw [← hvm1]; show Ev.enter _ :: (vm.allocateModule n).1.log = _; rw [alog]
      have st1 : vm1.stack = (namesOf vm).length :: m :: rest := by
        rw [← hvm1]; show _ :: (vm.allocateModule n).1.stack = _; rw [astack, hC.stack]
      have cs1 : vm1.cs = some (namesOf vm).length := by rw [← hvm1]; rfl
      have hS1 : SInv files mainSrc vm1 := by
        have hSa : SInv files mainSrc (vm.allocateModule n).1 :=
          hS.alloc hreg anames agraph amap alog hC.name hC.reach (Or.inr hMI)
        rw [← hvm1]
        exact (hSa.of_same (same_pushFrame _ _)).record_enter _
      have hreach : MReach files mainSrc n := MReach.step hC.reach hMI
      have hL1 : LInv files mainSrc vm1 ((namesOf vm).length :: m :: rest) :=
        hL.push_new n1 g1 m1 l1 hS.logBound hreach (msrc_of_finder hne hfind)
      have hE1 : Ext vm vm1 :=
        ext_of_eqs n1 g1 (by rw [m1]; exact aset_fresh_mono hreg) (by rw [l1]; rfl : _ = [_] ++ vm.log)
      have hC1 : Cur files mainSrc vm1 (namesOf vm).length (m :: rest) n s :=
        ⟨st1, cs1, by rw [n1]; simp, msrc_of_finder hne hfind, hreach⟩
      have hp := evalProgram_spec (libs := libs) (cf := cf) hO (loadModule_spec (libs := libs) (cf := cf) hO f) hS1 hL1 hC1
      cases hr : evalProgram O libs cf (loadModule .repaired O files libs cf f) vm1 (namesOf vm).length s with
      | err e vm' => rw [hr] at hp; exact ErrPost.trans hE1 hp
      | ok vm2 =>
        rw [hr] at hp
        obtain ⟨hS2, hL2, hst2, hcs2, hE2, hdone2⟩ := hp
        dsimp only
        have hb := redeclareExports_frame (O.exportOrder (vm2.exportsOf (namesOf vm).length)) vm2.beginScope
        cases hr3 : redeclareExports vm2.beginScope (O.exportOrder (vm2.exportsOf (namesOf vm).length)) with
        | err e vm' =>
          rw [hr3] at hb
          obtain ⟨hs, he⟩ := hb
          have hs' : Same vm2 vm' := (same_beginScope vm2).trans hs
          refine ⟨hS2.of_same hs', (hE1.trans hE2).trans (Ext.of_same hs'), ?_⟩
          intro h63; rcases he with rfl | rfl <;> cases h63
        | ok vm3 =>
          rw [hr3] at hb
          obtain ⟨hs, hst3, hcs3⟩ := hb
          have hs' : Same vm2 vm3 := (same_beginScope vm2).trans hs
          dsimp only
          cases hpop : vm3.popFrame with
          | none => exact ⟨hS2.of_same hs', (hE1.trans hE2).trans (Ext.of_same hs'), fun h => by cases h⟩
          | some vm4 =>
            dsimp only
            obtain ⟨t, r, hst, hr4, hc4⟩ := popFrame_eq hpop
            rw [hst3, beginScope_stack, hst2] at hst
            injection hst with _ hr'
            have hs4 : Same vm2 vm4 := hs'.trans (same_popFrame hpop)
            have hE4 : Ext vm vm4 := (hE1.trans hE2).trans (Ext.of_same hs4)
            refine ⟨⟨hS2.of_same hs4, hL2.of_same hs4, by rw [hr4, ← hr'], by rw [hc4, ← hr']; rfl, hE4⟩, ?_, ?_, ?_⟩
            · apply (Ext.of_same hs4).nameMap; apply hE2.nameMap
              rw [m1]; exact assoc_aset_same _ _ _
            · exact (Ext.of_same hs4).mem_log hdone2
            · apply (Ext.of_same hs4).graph; apply hE2.graph
              rw [g1]; simp

end ZnVerif.Proofs.Modules

namespace ZnVerif.Proofs.Modules
open ZnVerif.Model.Modules
open ZnVerif.Spec.ModuleSem (Walk HasCycle)
open ZnVerif.Proofs.ModulesDfs

/-- the state in which the main program's imports start -/
def vmStart : VM := ((VM.init.allocateModule mainName).1.pushFrame (VM.init.allocateModule mainName).2).record
  (.enter (VM.init.allocateModule mainName).2)

theorem vmStart_fields : namesOf vmStart = [mainName] ∧ vmStart.graph = [] ∧ vmStart.nameMap = [(mainName, 0)] ∧
    vmStart.log = [Ev.enter 0] ∧ vmStart.stack = [0] ∧ vmStart.cs = some 0 ∧ (VM.init.allocateModule mainName).2 = 0 := by
  refine ⟨rfl, rfl, rfl, rfl, rfl, rfl, rfl⟩

theorem msrc_main (files : Files) (mainSrc : ModuleSrc) : msrc files mainSrc mainName = some mainSrc := by
  simp [msrc]

theorem start_invariants (files : Files) (mainSrc : ModuleSrc) :
    SInv files mainSrc vmStart ∧ LInv files mainSrc vmStart [0] ∧ Cur files mainSrc vmStart 0 [] mainName mainSrc := by
  obtain ⟨hn, hg, hm, hl, hs, hc, _⟩ := vmStart_fields
  refine ⟨?_, ?_, ?_⟩
  · constructor
    · rw [hn]; rfl
    · rw [hn]; simp
    · intro n id h
      rw [hm] at h
      simp only [assoc] at h
      by_cases hk : mainName = n
      · simp [hk] at h; subst h; rw [hn, ← hk]; rfl
      · simp [hk] at h
    · intro i n h
      rw [hn] at h
      cases i with
      | zero => simp at h; rw [hm, ← h]; simp [assoc]
      | succ k => simp at h
    · intro a b h; rw [hg] at h; cases h
    · rw [hl]; simp [bodiesOf]
    · intro x h; rw [hl] at h; simp at h
    · intro l1 m l2 h
      rw [hl] at h
      cases l1 with
      | nil => simp at h
      | cons a t => simp at h
    · intro x h; rw [hl] at h; simp at h
    · intro x h; rw [hl] at h; simp at h
    · intro x h; rw [hl] at h; simp at h
  · constructor
    · rw [hg, hl]; simp [closedOf, Topo]
    · intro a b h; rw [hg] at h; cases h
    · trivial
    · simp
    · intro x _; rw [hl]; simp [closedOf]
    · intro n id h
      rw [hm] at h
      simp only [assoc] at h
      by_cases hk : mainName = n
      · simp [hk] at h; subst h; exact Or.inl (List.mem_cons_self ..)
      · simp [hk] at h
    · intro x h; rw [hl] at h; simp [closedOf] at h
    · intro x hx
      simp at hx; subst hx
      exact ⟨mainName, by rw [hn]; rfl, MReach.main, mainSrc, msrc_main _ _⟩
    · intro x _ h; rw [hl] at h; simp at h
  · exact ⟨hs, hc, by rw [hn]; rfl, msrc_main _ _, MReach.main⟩

theorem runWith_spec {files : Files} {mainSrc : ModuleSrc} {O : Oracle} {libs : Libs} {lf cf : Nat}
    (hO : OracleOK O) :
    match runWith .repaired O files libs lf cf mainSrc with
    | .ok vm' => SInv files mainSrc vm' ∧ LInv files mainSrc vm' [] ∧ vm'.stack = [] ∧ Ev.done 0 ∈ vm'.log
    | .err e vm' => SInv files mainSrc vm' ∧ (e = .code 63 → HasCycle vm'.graph) := by
  obtain ⟨hS, hL, hC⟩ := start_invariants files mainSrc
  have hp := evalProgram_spec (libs := libs) (cf := cf) hO (loadModule_spec (libs := libs) (cf := cf) hO lf) hS hL hC
  unfold runWith
  dsimp only
  have e0 : (VM.init.allocateModule mainName).2 = 0 := rfl
  change (match evalProgram O libs cf (loadModule .repaired O files libs cf lf) vmStart (VM.init.allocateModule mainName).2 mainSrc with
    | .err e vm' => Res.err e vm'
    | .ok vm2 => match vm2.popFrame with
      | none => Res.err Err.panic vm2
      | some vm3 => Res.ok vm3) |> fun r => (match r with
    | .ok vm' => SInv files mainSrc vm' ∧ LInv files mainSrc vm' [] ∧ vm'.stack = [] ∧ Ev.done 0 ∈ vm'.log
    | .err e vm' => SInv files mainSrc vm' ∧ (e = .code 63 → HasCycle vm'.graph))
  rw [e0]
  cases hr : evalProgram O libs cf (loadModule .repaired O files libs cf lf) vmStart 0 mainSrc with
  | err e vm' => rw [hr] at hp; exact ⟨hp.1, hp.2.2⟩
  | ok vm2 =>
    rw [hr] at hp
    obtain ⟨hS2, hL2, hst2, _, _, hdone⟩ := hp
    dsimp only
    cases hpop : vm2.popFrame with
    | none => exact ⟨hS2, fun h => by cases h⟩
    | some vm3 =>
      dsimp only
      obtain ⟨t, r, hst, hr3, _⟩ := popFrame_eq hpop
      rw [hst2] at hst; injection hst with _ hr'
      have hs := same_popFrame hpop
      exact ⟨hS2.of_same hs, hL2.of_same hs, by rw [hr3, ← hr'], by rw [hs.log]; exact hdone⟩

end ZnVerif.Proofs.Modules

namespace ZnVerif.Proofs.Modules
open ZnVerif.Model.Modules
open ZnVerif.Spec.ModuleSem (Walk HasCycle)
open ZnVerif.Proofs.ModulesDfs

/-! ### from the dependency graph to the static import relation and back -/

inductive MWalk (files : Files) (mainSrc : ModuleSrc) : Name → Name → Prop
  | refl (a : Name) : MWalk files mainSrc a a
  | cons {a b c : Name} : MImports files mainSrc a b → MWalk files mainSrc b c → MWalk files mainSrc a c

/-- a cycle of the static import relation that is reachable from the main module -/
def MCycle (files : Files) (mainSrc : ModuleSrc) : Prop :=
  ∃ a b, MReach files mainSrc a ∧ MImports files mainSrc a b ∧ MWalk files mainSrc b a

theorem walk_to_mwalk {files : Files} {mainSrc : ModuleSrc} {vm : VM} (hS : SInv files mainSrc vm) {x y : Nat}
    (w : Walk vm.graph x y) : ∀ {nx : Name}, (namesOf vm)[x]? = some nx → (∃ z, (y, z) ∈ vm.graph) →
      ∃ ny, (namesOf vm)[y]? = some ny ∧ MWalk files mainSrc nx ny := by
  induction w with
  | refl a => intro nx hx _; exact ⟨nx, hx, MWalk.refl _⟩
  | @cons a b c e w ih =>
    intro nx hx hy
    obtain ⟨na, nb, h1, h2, _, h4⟩ := hS.edges a b e
    rw [hx] at h1; injection h1 with h1; subst h1
    obtain ⟨ny, hny, hw⟩ := ih h2 hy
    refine ⟨ny, hny, MWalk.cons ?_ hw⟩
    rcases h4 with hstd | hi
    · exfalso
      have hno := hS.no_edge_from_std h2 hstd
      cases w with
      | refl => obtain ⟨z, hz⟩ := hy; exact hno _ _ hz rfl
      | cons e' _ => exact hno _ _ e' rfl
    · exact hi

theorem graph_cycle_to_mcycle {files : Files} {mainSrc : ModuleSrc} {vm : VM} (hS : SInv files mainSrc vm)
    (hc : HasCycle vm.graph) : MCycle files mainSrc := by
  obtain ⟨a, b, e, w⟩ := hc
  obtain ⟨na, nb, h1, h2, h3, h4⟩ := hS.edges a b e
  obtain ⟨ny, hny, hw⟩ := walk_to_mwalk hS w h2 ⟨b, e⟩
  rw [h1] at hny; injection hny with hny; subst hny
  rcases h4 with hstd | hi
  · exfalso
    have hno := hS.no_edge_from_std h2 hstd
    cases w with
    | refl => exact hno _ _ e rfl
    | cons e' _ => exact hno _ _ e' rfl
  · exact ⟨na, nb, h3, hi, hw⟩

/-- in a completed run every module reachable through import statements has been loaded, with its edges -/
structure Final (files : Files) (mainSrc : ModuleSrc) (vm : VM) : Prop where
  sinv : SInv files mainSrc vm
  linv : LInv files mainSrc vm []
  done0 : Ev.done 0 ∈ vm.log

theorem Final.imports_done {files : Files} {mainSrc : ModuleSrc} {vm : VM} (h : Final files mainSrc vm)
    {x : Nat} {na nb : Name} (hx : (namesOf vm)[x]? = some na) (hd : Ev.done x ∈ vm.log)
    (hi : MImports files mainSrc na nb) :
    ∃ y, (namesOf vm)[y]? = some nb ∧ Ev.done y ∈ vm.log ∧ (x, y) ∈ vm.graph := by
  obtain ⟨src, imp, hsrc, himp, hname, hc⟩ := hi
  have hb := h.sinv.doneBody x hd
  obtain ⟨l1, l2, hl⟩ := List.append_of_mem hb
  obtain ⟨id, h1, h2, h3⟩ := h.sinv.before l1 x l2 hl na src hx hsrc imp himp (hname ▸ hc)
  refine ⟨id, ?_, ?_, h3⟩
  · rw [← hname]; exact h.sinv.regName _ _ h1
  · rw [hl]; exact List.mem_append_right _ (List.mem_cons_of_mem _ h2)

theorem Final.reach_done {files : Files} {mainSrc : ModuleSrc} {vm : VM} (h : Final files mainSrc vm)
    {n : Name} (hr : MReach files mainSrc n) : ∃ x, (namesOf vm)[x]? = some n ∧ Ev.done x ∈ vm.log := by
  induction hr with
  | main => exact ⟨0, h.sinv.main0, h.done0⟩
  | step _ hi ih =>
    obtain ⟨x, hx, hd⟩ := ih
    obtain ⟨y, hy, hdy, _⟩ := h.imports_done hx hd hi
    exact ⟨y, hy, hdy⟩

theorem Final.mwalk_to_walk {files : Files} {mainSrc : ModuleSrc} {vm : VM} (h : Final files mainSrc vm)
    {na nb : Name} (w : MWalk files mainSrc na nb) : ∀ {x : Nat}, (namesOf vm)[x]? = some na → Ev.done x ∈ vm.log →
      ∃ y, (namesOf vm)[y]? = some nb ∧ Walk vm.graph x y := by
  induction w with
  | refl a => intro x hx _; exact ⟨x, hx, Walk.refl _⟩
  | cons hi _ ih =>
    intro x hx hd
    obtain ⟨y, hy, hdy, he⟩ := h.imports_done hx hd hi
    obtain ⟨z, hz, hw⟩ := ih hy hdy
    exact ⟨z, hz, Walk.cons he hw⟩

theorem Final.no_mcycle {files : Files} {mainSrc : ModuleSrc} {vm : VM} (h : Final files mainSrc vm) :
    ¬ MCycle files mainSrc := by
  rintro ⟨a, b, hr, hi, hw⟩
  obtain ⟨x, hx, hd⟩ := h.reach_done hr
  obtain ⟨y, hy, hdy, he⟩ := h.imports_done hx hd hi
  obtain ⟨z, hz, hwalk⟩ := h.mwalk_to_walk hw hy hdy
  have hzx : z = x := by
    have e1 := h.sinv.regAll z a hz
    have e2 := h.sinv.regAll x a hx
    rw [e1] at e2; injection e2
  subst hzx
  have hno : ¬ HasCycle vm.graph := by
    apply topo_no_cycle (l := closedOf vm.log)
    · have := h.linv.topo; simpa using this
    · intro p q hpq
      rcases h.linv.src p q hpq with h' | h'
      · cases h'
      · exact h'
  exact hno ⟨z, y, he, hwalk⟩

end ZnVerif.Proofs.Modules
