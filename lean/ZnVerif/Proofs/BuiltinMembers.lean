/-
C10: every built-in member of Model/Interp.lean is total on well-formed heaps — it never answers `panic`,
keeps the heap well-formed and hands back an address inside the heap.
-/
import ZnVerif.Proofs.Builtins
set_option linter.unusedSectionVars false
set_option linter.unusedVariables false

namespace ZnVerif.Proofs.Builtins
open ZnVerif.Model

variable {ν : Type} [NumOps ν]

/-- an address inside the heap -/
abbrev InHeap (r : Nat) (s : VM ν) : Prop := r < s.heap.size

theorem post_alloc_lt {s : VM ν} (hs : HeapOk s.heap) {c : Cell ν} (hc : CellOk s.heap c) :
    Post Pre s (fun r s' => r < s'.heap.size) (alloc c s) :=
  (post_alloc hs hc).weaken (fun _ _ _ _ q => q.1)

theorem post_newNull {s : VM ν} (hs : HeapOk s.heap) : Post Pre s (fun r s' => r < s'.heap.size) ((newNull : M ν Addr) s) :=
  post_alloc_lt hs (c := .null) trivial
theorem post_newBool {s : VM ν} (hs : HeapOk s.heap) (b : Bool) : Post Pre s (fun r s' => r < s'.heap.size) ((newBool b : M ν Addr) s) :=
  post_alloc_lt hs (c := .bool b) trivial
theorem post_newNum {s : VM ν} (hs : HeapOk s.heap) (x : ν) : Post Pre s (fun r s' => r < s'.heap.size) ((newNum x : M ν Addr) s) :=
  post_alloc_lt hs (c := .num x) trivial
theorem post_newStr {s : VM ν} (hs : HeapOk s.heap) (t : String) : Post Pre s (fun r s' => r < s'.heap.size) ((newStr t : M ν Addr) s) :=
  post_alloc_lt hs (c := .str t) trivial

theorem mem_of_getLast? {α} {x : α} : ∀ {l : List α}, l.getLast? = some x → x ∈ l
  | [], h => by simp at h
  | [y], h => by simp at h; subst h; simp
  | y :: z :: rest, h => by
    rw [List.getLast?_cons_cons] at h
    exact List.mem_cons_of_mem _ (mem_of_getLast? h)

theorem post_mapM_newStr {s : VM ν} (hs : HeapOk s.heap) {α : Type} (l : List α) (g : α → String) :
    Post Pre s (fun bs s' => ∀ b ∈ bs, b < s'.heap.size) (l.mapM (fun x => (newStr (g x) : M ν Addr)) s) :=
  post_mapM (P := fun b s => b < s.heap.size) lt_stable l s hs (fun x _ s' hs' _ => post_newStr hs' _)

theorem post_getProperty (n : Nat) {s : VM ν} {a : Nat} (name : String) (hs : HeapOk s.heap) (ha : a < s.heap.size) :
    Post Pre s (fun r s' => r < s'.heap.size) (getProperty n a name s) := by
  obtain ⟨c, hc⟩ := get_of_lt_size ha
  have hok := hs a c hc
  unfold getProperty
  refine RO.post_bind hs (RO.getCell hc) (fun c' hc' => ?_)
  subst hc'
  cases c' with
  | arr items =>
    dsimp only
    split
    · exact RO.post_bind hs (ro_display n hs ha) (fun t _ => post_newStr hs t)
    · cases items with
      | nil => exact post_newNull hs
      | cons x rest => exact Post.pure hs (hok x (by simp))
    · cases hl : items.getLast? with
      | none => exact post_newNull hs
      | some x => exact Post.pure hs (hok x (mem_of_getLast? hl))
    · exact post_newNum hs _
    · exact post_newNum hs _
    · exact post_alloc_lt hs (c := .arr items.reverse) (fun x hx => hok x (List.mem_reverse.mp hx))
    · exact Post.rtErr _ hs
  | hm vals order =>
    dsimp only
    split
    · exact post_newNum hs _
    · exact post_newNum hs _
    · exact Post.bind (post_mapM_newStr hs order id) (fun ks s1 hs1 _ hks => post_alloc_lt hs1 (c := .arr ks) hks)
    · refine RO.post_bind hs (RO.mapM (P := fun _ v => v < s.heap.size) (fun k hk => ?_))
        (fun vs hvs => post_alloc_lt hs (c := .arr vs) (All2.right (Q := fun v => v < s.heap.size) (fun _ _ h => h) hvs))
      have hsome := hok.2.1 k hk
      cases hl : lookup k vals with
      | none => rw [hl] at hsome; cases hsome
      | some v => exact RO.pure (hok.1 (k, v) (mem_of_lookup hl))
    · exact Post.rtErr _ hs
  | num x =>
    dsimp only
    split
    · exact post_newStr hs _
    · exact post_newNum hs _
    · exact post_newNum hs _
    · split
      · exact Post.rtErr _ hs
      · exact post_newNum hs _
    · exact Post.rtErr _ hs
  | str t =>
    dsimp only
    split
    · exact post_newNum hs _
    · exact post_newNum hs _
    · exact post_newStr hs _
    · exact Post.bind (post_mapM_newStr hs (TextOps.chars (textBytes t)) (fun c => bytesText c))
        (fun cs s1 hs1 _ hcs => post_alloc_lt hs1 (c := .arr cs) hcs)
    · exact Post.rtErr _ hs
  | bool b =>
    dsimp only
    split
    · exact post_newStr hs _
    · exact Post.rtErr _ hs
  | exc msg =>
    dsimp only
    split
    · exact post_newStr hs _
    · exact Post.rtErr _ hs
  | obj cl props =>
    dsimp only
    split
    · exact Post.pure hs ha
    · cases hl : lookup name props with
      | none => exact Post.rtErr _ hs
      | some v => exact Post.pure hs (hok.2 (name, v) (mem_of_lookup hl))
  | null => exact Post.rtErr _ hs
  | fn f => exact Post.rtErr _ hs
  | cls _ _ _ _ => exact Post.rtErr _ hs


theorem mem_of_mem_dropLast {α} {x : α} {l : List α} (h : x ∈ l.dropLast) : x ∈ l := by
  rw [List.dropLast_eq_take] at h
  exact List.mem_of_mem_take h

theorem notCls_arr {items : List Addr} : ¬ ∃ n ct p m, (Cell.arr items : Cell ν) = Cell.cls n ct p m := by
  rintro ⟨_, _, _, _, h⟩; cases h
theorem notCls_hm {v : List (String × Addr)} {o : List String} : ¬ ∃ n ct p m, (Cell.hm v o : Cell ν) = Cell.cls n ct p m := by
  rintro ⟨_, _, _, _, h⟩; cases h
theorem notCls_obj {c : Addr} {pr : List (String × Addr)} : ¬ ∃ n ct p m, (Cell.obj c pr : Cell ν) = Cell.cls n ct p m := by
  rintro ⟨_, _, _, _, h⟩; cases h
theorem notCls_num {x : ν} : ¬ ∃ n ct p m, (Cell.num x : Cell ν) = Cell.cls n ct p m := by
  rintro ⟨_, _, _, _, h⟩; cases h

/-- overwrite a non-class cell with a well-formed one -/
theorem post_setCell' {s : VM ν} (hs : HeapOk s.heap) {a : Nat} {old c : Cell ν} (ha : s.heap[a]? = some old)
    (hold : ¬ ∃ n ct p m, old = Cell.cls n ct p m) (hc : CellOk s.heap c) :
    Post Ext s (fun _ _ => True) (setCell a c s) :=
  (post_setCell hs ha hold hc).weaken (fun _ _ _ _ _ => trivial)

theorem post_setProperty {s : VM ν} {a v : Nat} (name : String) (hs : HeapOk s.heap) (ha : a < s.heap.size)
    (hv : v < s.heap.size) : Post Ext s (fun _ _ => True) (setProperty a name v s) := by
  obtain ⟨c, hc⟩ := get_of_lt_size ha
  have hok := hs a c hc
  unfold setProperty
  refine RO.post_bind hs (RO.getCell hc) (fun c' hc' => ?_)
  subst hc'
  cases c' with
  | arr items =>
    dsimp only
    split
    · cases items with
      | nil => exact post_setCell' hs hc notCls_arr (c := .arr [v]) (fun x hx => by simp at hx; subst hx; exact hv)
      | cons y rest =>
        refine post_setCell' hs hc notCls_arr (c := .arr (v :: rest)) (fun x hx => ?_)
        rcases List.mem_cons.mp hx with rfl | hx
        · exact hv
        · exact hok x (List.mem_cons_of_mem _ hx)
    · cases items with
      | nil => exact post_setCell' hs hc notCls_arr (c := .arr [v]) (fun x hx => by simp at hx; subst hx; exact hv)
      | cons y rest =>
        refine post_setCell' hs hc notCls_arr (c := .arr ((y :: rest).dropLast ++ [v])) (fun x hx => ?_)
        rcases List.mem_append.mp hx with hx | hx
        · exact hok x (mem_of_mem_dropLast hx)
        · simp at hx; subst hx; exact hv
    · exact Post.rtErr _ hs
  | obj cl props =>
    dsimp only
    cases hl : lookup name props with
    | none => exact Post.rtErr _ hs
    | some old =>
      refine post_setCell' hs hc notCls_obj (c := .obj cl (assocSet name v props)) ⟨hok.1, fun p hp => ?_⟩
      rcases mem_assocSet hp with rfl | hp
      · exact hv
      · exact hok.2 p hp
  | num _ => exact Post.rtErr _ hs
  | str _ => exact Post.rtErr _ hs
  | bool _ => exact Post.rtErr _ hs
  | null => exact Post.rtErr _ hs
  | hm _ _ => exact Post.rtErr _ hs
  | fn _ => exact Post.rtErr _ hs
  | cls _ _ _ _ => exact Post.rtErr _ hs
  | exc _ => exact Post.rtErr _ hs

theorem idx_in_range {len : Nat} {ri : Int} (h : ¬ (ri < 0 ∨ ri ≥ (len : Int))) : ri.toNat < len := by
  omega

theorem post_reduceRHS (n : Nat) {s : VM ν} (kind : Nat) {root : Nat} (name : String) (idx : Int)
    (hs : HeapOk s.heap) (hr : root < s.heap.size) :
    Post Pre s (fun r s' => r < s'.heap.size) (reduceRHS n (kind, root, name, idx) s) := by
  obtain ⟨c, hc⟩ := get_of_lt_size hr
  have hok := hs root c hc
  unfold reduceRHS
  dsimp only
  split
  · refine RO.post_bind hs (RO.getCell hc) (fun c' hc' => ?_)
    subst hc'
    cases c' with
    | arr items =>
      dsimp only
      split
      · exact Post.rtErr _ hs
      · next hcond =>
        have hlt := idx_in_range hcond
        rw [List.getElem?_eq_getElem hlt]
        exact Post.pure hs (hok _ (List.getElem_mem hlt))
    | _ => exact Post.rtErr _ hs
  · split
    · refine RO.post_bind hs (RO.getCell hc) (fun c' hc' => ?_)
      subst hc'
      cases c' with
      | hm vals order =>
        dsimp only
        cases hl : lookup name vals with
        | none => exact Post.rtErr _ hs
        | some v => exact Post.pure hs (hok.1 (name, v) (mem_of_lookup hl))
      | _ => exact Post.rtErr _ hs
    · exact post_getProperty n name hs hr

theorem post_reduceLHS {s : VM ν} (kind : Nat) {root v : Nat} (name : String) (idx : Int)
    (hs : HeapOk s.heap) (hr : root < s.heap.size) (hv : v < s.heap.size) :
    Post Ext s (fun _ _ => True) (reduceLHS (kind, root, name, idx) v s) := by
  obtain ⟨c, hc⟩ := get_of_lt_size hr
  have hok := hs root c hc
  unfold reduceLHS
  dsimp only
  split
  · refine RO.post_bind hs (RO.getCell hc) (fun c' hc' => ?_)
    subst hc'
    cases c' with
    | arr items =>
      dsimp only
      split
      · exact Post.rtErr _ hs
      · refine post_setCell' hs hc notCls_arr (c := .arr (items.set (idx - 1).toNat v)) (fun x hx => ?_)
        rcases List.mem_or_eq_of_mem_set hx with hx | rfl
        · exact hok x hx
        · exact hv
    | _ => exact Post.rtErr _ hs
  · split
    · refine RO.post_bind hs (RO.getCell hc) (fun c' hc' => ?_)
      subst hc'
      cases c' with
      | hm vals order =>
        dsimp only
        exact post_setCell' hs hc notCls_hm (hmAppend_ok (h := s.heap) hok name hv).cellOk
      | _ => exact Post.rtErr _ hs
    · exact post_setProperty name hs hr hv


/-! ## methods -/

theorem Post.bind_pre {α β : Type} {s : VM ν} {m : M ν α} {f : α → M ν β} {Q1 : α → VM ν → Prop} {Q2 : β → VM ν → Prop}
    (h1 : Post Pre s Q1 (m s))
    (h2 : ∀ a s', HeapOk s'.heap → Pre s.heap s'.heap → Q1 a s' → Post Ext s' Q2 (f a s')) :
    Post Ext s Q2 ((m >>= f) s) :=
  Post.bind ((h1.weaken (Q' := fun a s' => Pre s.heap s'.heap ∧ Q1 a s') (fun _ _ _ r q => ⟨r, q⟩)).rel (fun _ _ h => h.ext))
    (fun a s' hs' _ q => h2 a s' hs' q.1 q.2)

theorem Post.ofPre {α : Type} {s : VM ν} {Q : α → VM ν → Prop} {p : Res α × VM ν} (h : Post Pre s Q p) : Post Ext s Q p :=
  h.rel (fun _ _ h => h.ext)

theorem exact1 {Q : Addr × String → Prop} {vals : List Addr} {t : String}
    (h : vals.length = [t].length ∧ ∀ p ∈ vals.zip [t], Q p) : ∃ x, vals = [x] ∧ Q (x, t) := by
  obtain ⟨hl, hq⟩ := h
  match vals, hl with
  | [x], _ => exact ⟨x, rfl, hq (x, t) (by simp)⟩

theorem exact2 {Q : Addr × String → Prop} {vals : List Addr} {t1 t2 : String}
    (h : vals.length = [t1, t2].length ∧ ∀ p ∈ vals.zip [t1, t2], Q p) :
    ∃ x y, vals = [x, y] ∧ Q (x, t1) ∧ Q (y, t2) := by
  obtain ⟨hl, hq⟩ := h
  match vals, hl with
  | [x, y], _ => exact ⟨x, y, rfl, hq (x, t1) (by simp), hq (y, t2) (by simp)⟩

theorem tm_number {c : Cell ν} (h : typeMatches c "number" = true) : ∃ x, c = .num x := by
  cases c <;> first | exact ⟨_, rfl⟩ | (simp [typeMatches] at h)
theorem tm_string {c : Cell ν} (h : typeMatches c "string" = true) : ∃ x, c = .str x := by
  cases c <;> first | exact ⟨_, rfl⟩ | (simp [typeMatches] at h)
theorem tm_array {c : Cell ν} (h : typeMatches c "array" = true) : ∃ x, c = .arr x := by
  cases c <;> first | exact ⟨_, rfl⟩ | (simp [typeMatches] at h)

theorem insertArrayValue_ok (items : List Addr) (idx : Int) (x : Addr)
    (h : ¬ (idx < 0 ∧ (items.length : Int) + idx < 0)) :
    ∃ items', insertArrayValue items idx x = .ok items' ∧ ∀ y ∈ items', y ∈ items ∨ y = x := by
  unfold insertArrayValue
  split
  · exact ⟨_, rfl, fun y hy => by
      rcases List.mem_append.mp hy with hy | hy
      · exact .inl hy
      · simp at hy; exact .inr hy⟩
  · dsimp only
    have key : ∀ j : Int, ¬ j < 0 →
        ∃ items', (if j < 0 then (Res.panic : Res (List Addr)) else .ok (items.take j.toNat ++ [x] ++ items.drop j.toNat)) = .ok items' ∧
          ∀ y ∈ items', y ∈ items ∨ y = x := by
      intro j hj
      rw [if_neg hj]
      refine ⟨_, rfl, fun y hy => ?_⟩
      rcases List.mem_append.mp hy with hy | hy
      · rcases List.mem_append.mp hy with hy | hy
        · exact .inl (List.mem_of_mem_take hy)
        · simp at hy; exact .inr hy
      · exact .inl (List.mem_of_mem_drop hy)
    by_cases hneg : idx < 0
    · rw [if_pos hneg]; exact key _ (by omega)
    · rw [if_neg hneg]; exact key _ hneg

theorem ro_goContains (n : Nat) {s : VM ν} {x : Nat} (hs : HeapOk s.heap) (hx : x < s.heap.size) :
    ∀ items : List Addr, (∀ i ∈ items, i < s.heap.size) → RO (builtinMethod.goContains n x items) s (fun _ => True) := by
  intro items
  induction items with
  | nil => intro _; unfold builtinMethod.goContains; exact RO.pure trivial
  | cons i rest ih =>
    intro hi
    unfold builtinMethod.goContains
    refine RO.bind (ro_compareXEQ n hs (hi i (by simp)) hx) (fun b _ => ?_)
    cases b
    · exact ih (fun j hj => hi j (by simp [hj]))
    · exact RO.pure trivial

theorem ro_goFind (n : Nat) {s : VM ν} {x : Nat} (hs : HeapOk s.heap) (hx : x < s.heap.size) :
    ∀ (items : List Addr) (k : Int), (∀ i ∈ items, i < s.heap.size) → RO (builtinMethod.goFind n x items k) s (fun _ => True) := by
  intro items
  induction items with
  | nil => intro k _; unfold builtinMethod.goFind; exact RO.pure trivial
  | cons i rest ih =>
    intro k hi
    unfold builtinMethod.goFind
    refine RO.bind (ro_compareXEQ n hs (hi i (by simp)) hx) (fun b _ => ?_)
    cases b
    · exact ih _ (fun j hj => hi j (by simp [hj]))
    · exact RO.pure trivial

theorem post_goGet {s : VM ν} (hs : HeapOk s.heap) :
    ∀ (vals : List Addr) (cur : Nat), cur < s.heap.size →
      (∀ v ∈ vals, ∃ c, s.heap[v]? = some c ∧ typeMatches c "string" = true) →
      Post Pre s (fun r s' => r < s'.heap.size) (builtinMethod.goGet (ν := ν) cur vals s) := by
  intro vals
  induction vals with
  | nil => intro cur hcur _; unfold builtinMethod.goGet; exact Post.pure hs hcur
  | cons k rest ih =>
    intro cur hcur hv
    obtain ⟨ck, hck, htm⟩ := hv k (by simp)
    obtain ⟨key, rfl⟩ := tm_string htm
    obtain ⟨cc, hcc⟩ := get_of_lt_size hcur
    have hok := hs cur cc hcc
    unfold builtinMethod.goGet
    refine RO.post_bind hs (RO.getCell hck) (fun c' hc' => ?_)
    subst hc'
    dsimp only
    refine RO.post_bind hs (RO.getCell hcc) (fun c2 hc2 => ?_)
    subst hc2
    cases c2 with
    | hm cv co =>
      dsimp only
      cases hl : lookup key cv with
      | none => exact post_newNull hs
      | some v => exact ih v (hok.1 (key, v) (mem_of_lookup hl)) (fun w hw => hv w (by simp [hw]))
    | _ => exact post_newNull hs

theorem ro_goArith {s : VM ν} (op : ν → ν → ν) (cz : Bool) :
    ∀ (vals : List Addr) (acc : ν), (∀ v ∈ vals, ∃ c, s.heap[v]? = some c ∧ typeMatches c "number" = true) →
      RO (builtinMethod.goArith op cz acc vals) s (fun _ => True) := by
  intro vals
  induction vals with
  | nil => intro acc _; unfold builtinMethod.goArith; exact RO.pure trivial
  | cons v rest ih =>
    intro acc hv
    obtain ⟨c, hc, htm⟩ := hv v (by simp)
    obtain ⟨y, rfl⟩ := tm_number htm
    unfold builtinMethod.goArith
    refine RO.bind (RO.getCell hc) (fun c' hc' => ?_)
    subst hc'
    dsimp only
    split
    · exact RO.rtErr _
    · exact ih _ (fun w hw => hv w (by simp [hw]))

theorem ro_mapM_str {s : VM ν} (l : List Addr) (h : ∀ v ∈ l, ∃ c, s.heap[v]? = some c ∧ typeMatches c "string" = true) :
    RO (l.mapM (fun i => (do match ← getCell i with | .str t => pure t | _ => goPanic : M ν String))) s (fun _ => True) := by
  refine RO.weaken (RO.mapM (P := fun _ _ => True) (fun i hi => ?_)) (fun _ _ => trivial)
  obtain ⟨c, hc, htm⟩ := h i hi
  obtain ⟨t, rfl⟩ := tm_string htm
  refine RO.bind (RO.getCell hc) (fun c' hc' => ?_)
  subst hc'
  exact RO.pure trivial

/-- the texts of validated text arguments, as bytes (格式化) -/
theorem ro_mapM_strBytes {s : VM ν} (l : List Addr) (h : ∀ v ∈ l, ∃ c, s.heap[v]? = some c ∧ typeMatches c "string" = true) :
    RO (l.mapM (fun i => (do match ← getCell i with | .str t => pure (textBytes t) | _ => goPanic : M ν (List Nat)))) s (fun _ => True) := by
  refine RO.weaken (RO.mapM (P := fun _ _ => True) (fun i hi => ?_)) (fun _ _ => trivial)
  obtain ⟨c, hc, htm⟩ := h i hi
  obtain ⟨t, rfl⟩ := tm_string htm
  refine RO.bind (RO.getCell hc) (fun c' hc' => ?_)
  subst hc'
  exact RO.pure trivial

/-- `value.ThrowException`: a fresh 异常 value, then an exception signal — an error outcome, the heap has grown by one cell -/
theorem post_throwException {α : Type} {s : VM ν} {Q : α → VM ν → Prop} (hs : HeapOk s.heap) (msg : String) :
    Post Pre s Q ((throwException msg : M ν α) s) := by
  unfold throwException
  rw [bind_apply, alloc_apply]
  exact ⟨heapOk_push hs (c := .exc msg) trivial, pre_push _ _⟩

/-- the slice expression `ss[startIdx-1 : endIdx]` of `strExecSlice` is never out of range: for every text and every pair of
    `Int`s the model of 取样 answers a text or one of its two exceptions -/
theorem slice_ne_panic (b : List Nat) (i j : Int) : TextOps.slice b i j ≠ .error .panic := by
  intro h
  unfold TextOps.slice at h
  simp only [] at h
  have hn : (0 : Int) ≤ ((TextOps.runes b).length : Int) := Int.natCast_nonneg _
  by_cases hi : i < 0 <;> by_cases hj : j < 0 <;> simp only [hi, hj, if_true, if_false] at h <;>
    (repeat' split at h) <;> first | (cases h; done) | omega

theorem mem_assocErase {β} {k : String} {p : String × β} : ∀ {l : List (String × β)}, p ∈ assocErase k l → p ∈ l
  | [], h => by simp [assocErase] at h
  | (k', v') :: rest, h => by
    unfold assocErase at h
    split at h
    · exact List.mem_cons_of_mem _ h
    · rcases List.mem_cons.mp h with h | h
      · exact h ▸ List.mem_cons_self
      · exact List.mem_cons_of_mem _ (mem_assocErase h)

theorem lookup_assocErase_ne {β} {k k2 : String} (hne : k2 ≠ k) : ∀ {l : List (String × β)},
    (lookup k2 l).isSome = true → (lookup k2 (assocErase k l)).isSome = true
  | [], h => by simp [lookup] at h
  | (k', v') :: rest, h => by
    unfold assocErase
    split
    · next heq =>
      subst heq
      unfold lookup at h
      rw [if_neg hne] at h
      exact h
    · next hne2 =>
      unfold lookup at h ⊢
      split
      · rfl
      · next hne3 => rw [if_neg hne3] at h; exact lookup_assocErase_ne hne h

theorem assocErase_ok {h : Heap ν} {vals : List (String × Addr)} {order : List String} (hok : HmOk h vals order) (k : String) :
    CellOk h (.hm (assocErase k vals) (order.erase k)) := by
  obtain ⟨h1, h2, h3⟩ := hok
  refine ⟨fun p hp => h1 p (mem_assocErase hp), fun k2 hk2 => ?_, h3.erase k⟩
  have := (List.Nodup.mem_erase_iff h3).mp hk2
  exact lookup_assocErase_ne this.1 (h2 k2 this.2)

theorem post_builtinMethod (n : Nat) {s : VM ν} {a : Nat} (name : String) (vals : List Addr)
    (hs : HeapOk s.heap) (ha : a < s.heap.size) (hv : ∀ v ∈ vals, v < s.heap.size) :
    Post Ext s (fun r s' => r < s'.heap.size) (builtinMethod n a name vals s) := by
  obtain ⟨c, hc⟩ := get_of_lt_size ha
  have hok := hs a c hc
  unfold builtinMethod
  refine RO.post_bind hs (RO.getCell hc) (fun c' hc' => ?_)
  subst hc'
  cases c' with
  | arr items =>
    dsimp only
    split
    -- 新增 / 添加
    iterate 2
      · refine RO.post_bind hs (ro_validateExact _ hv) (fun _ hval => ?_)
        obtain ⟨x, p, rfl, ⟨cx, hcx, _⟩, ⟨cp, hcp, htm⟩⟩ := exact2 hval
        obtain ⟨pv, rfl⟩ := tm_number htm
        dsimp only
        refine RO.post_bind hs (RO.getCell hcp) (fun c' hc' => ?_)
        subst hc'
        dsimp only
        split
        · exact Post.rtErr _ hs
        · next hguard =>
          refine Post.bind_pre (post_dup n hs (lt_size_of_get hcx)) (fun x' s1 hs1 pre1 hx' => ?_)
          obtain ⟨items', hins, hmem⟩ := insertArrayValue_ok items (NumOps.toInt pv) x' hguard
          rw [hins]
          dsimp only
          refine Post.bind (post_setCell' hs1 (pre1 _ _ hc) notCls_arr (c := .arr items') (fun y hy => ?_))
            (fun _ s2 hs2 e2 _ => Post.pure hs2 (Nat.lt_of_lt_of_le ha (Nat.le_trans pre1.size e2.size)))
          rcases hmem y hy with hy | rfl
          · exact Nat.lt_of_lt_of_le (hok y hy) pre1.size
          · exact hx'
    -- 前增
    · refine RO.post_bind hs (ro_validateExact _ hv) (fun _ hval => ?_)
      obtain ⟨x, rfl, ⟨cx, hcx, _⟩⟩ := exact1 hval
      dsimp only
      refine Post.bind_pre (post_dup n hs (lt_size_of_get hcx)) (fun x' s1 hs1 pre1 hx' => ?_)
      refine Post.bind (post_setCell' hs1 (pre1 _ _ hc) notCls_arr (c := .arr (x' :: items)) (fun y hy => ?_))
        (fun _ s2 hs2 e2 _ => Post.pure hs2 (Nat.lt_of_lt_of_le ha (Nat.le_trans pre1.size e2.size)))
      rcases List.mem_cons.mp hy with rfl | hy
      · exact hx'
      · exact Nat.lt_of_lt_of_le (hok y hy) pre1.size
    -- 后增
    · refine RO.post_bind hs (ro_validateExact _ hv) (fun _ hval => ?_)
      obtain ⟨x, rfl, ⟨cx, hcx, _⟩⟩ := exact1 hval
      dsimp only
      refine Post.bind_pre (post_dup n hs (lt_size_of_get hcx)) (fun x' s1 hs1 pre1 hx' => ?_)
      refine Post.bind (post_setCell' hs1 (pre1 _ _ hc) notCls_arr (c := .arr (items ++ [x'])) (fun y hy => ?_))
        (fun _ s2 hs2 e2 _ => Post.pure hs2 (Nat.lt_of_lt_of_le ha (Nat.le_trans pre1.size e2.size)))
      rcases List.mem_append.mp hy with hy | hy
      · exact Nat.lt_of_lt_of_le (hok y hy) pre1.size
      · simp at hy; subst hy; exact hx'
    -- 左移
    · cases items with
      | nil =>
        dsimp only
        exact Post.bind (post_setCell' hs hc notCls_arr (c := .arr []) (fun y hy => by cases hy))
          (fun _ s2 hs2 _ _ => (post_newNull hs2).ofPre)
      | cons x rest =>
        dsimp only
        exact Post.bind (post_setCell' hs hc notCls_arr (c := .arr rest) (fun y hy => hok y (List.mem_cons_of_mem _ hy)))
          (fun _ s2 hs2 e2 _ => Post.pure hs2 (Nat.lt_of_lt_of_le (hok x (by simp)) e2.size))
    -- 右移
    · cases hl : items.getLast? with
      | none =>
        dsimp only
        exact Post.bind (post_setCell' hs hc notCls_arr (c := .arr []) (fun y hy => by cases hy))
          (fun _ s2 hs2 _ _ => (post_newNull hs2).ofPre)
      | some x =>
        dsimp only
        exact Post.bind (post_setCell' hs hc notCls_arr (c := .arr items.dropLast) (fun y hy => hok y (mem_of_mem_dropLast hy)))
          (fun _ s2 hs2 e2 _ => Post.pure hs2 (Nat.lt_of_lt_of_le (hok x (mem_of_getLast? hl)) e2.size))
    -- 拼接
    · refine RO.post_bind hs (ro_validateAll "string" hok) (fun _ hitems => ?_)
      refine RO.post_bind hs (ro_validateExact _ hv) (fun _ hval => ?_)
      obtain ⟨cc, rfl, ⟨ccell, hcc, htm⟩⟩ := exact1 hval
      obtain ⟨sep, rfl⟩ := tm_string htm
      dsimp only
      refine RO.post_bind hs (RO.getCell hcc) (fun c' hc' => ?_)
      subst hc'
      dsimp only
      refine RO.post_bind hs (ro_mapM_str items hitems) (fun ss _ => (post_newStr hs _).ofPre)
    -- 合并 (the merged items are stored as copies)
    · refine RO.post_bind hs (ro_validateAll "array" hv) (fun _ hvals => ?_)
      refine Post.bind_pre (post_mapM (P := fun (xs : List Addr) (s : VM ν) => ∀ y ∈ xs, y < s.heap.size)
        (fun xs s s' h p y hy => Nat.lt_of_lt_of_le (h y hy) p.size) vals s hs (fun v hvm s' hs' r' => ?_))
        (fun extra s1 hs1 pre1 hextra => ?_)
      · obtain ⟨cv, hcv, htm⟩ := hvals v hvm
        obtain ⟨xs, rfl⟩ := tm_array htm
        have hcv' := r' _ _ hcv
        refine RO.post_bind hs' (RO.getCell hcv') (fun c' hc' => ?_)
        subst hc'
        exact post_mapM (P := fun b s => b < s.heap.size) lt_stable xs s' hs'
          (fun x hx s'' hs'' r'' => post_dup n hs'' (Nat.lt_of_lt_of_le (hs' v _ hcv' x hx) r''.size))
      · have hres : ∀ y ∈ items ++ extra.flatten, y < s1.heap.size := by
          intro y hy
          rcases List.mem_append.mp hy with hy | hy
          · exact Nat.lt_of_lt_of_le (hok y hy) pre1.size
          · obtain ⟨xs, hxs, hyx⟩ := List.mem_flatten.mp hy
            exact hextra xs hxs y hyx
        refine Post.bind (post_setCell' hs1 (pre1 _ _ hc) notCls_arr (c := .arr (items ++ extra.flatten)) hres) (fun _ s2 hs2 e2 _ => ?_)
        exact (post_alloc_lt hs2 (c := .arr (items ++ extra.flatten)) (fun y hy => Nat.lt_of_lt_of_le (hres y hy) e2.size)).ofPre
    -- 包含
    · refine RO.post_bind hs (ro_validateExact _ hv) (fun _ hval => ?_)
      obtain ⟨x, rfl, ⟨cx, hcx, _⟩⟩ := exact1 hval
      dsimp only
      exact RO.post_bind hs (ro_goContains n hs (lt_size_of_get hcx) items hok) (fun b _ => (post_newBool hs b).ofPre)
    -- 寻找
    · refine RO.post_bind hs (ro_validateExact _ hv) (fun _ hval => ?_)
      obtain ⟨x, rfl, ⟨cx, hcx, _⟩⟩ := exact1 hval
      dsimp only
      exact RO.post_bind hs (ro_goFind n hs (lt_size_of_get hcx) items 0 hok) (fun k _ => (post_newNum hs _).ofPre)
    -- 交换
    · refine RO.post_bind hs (ro_validateExact _ hv) (fun _ hval => ?_)
      obtain ⟨p, q, rfl, ⟨cp, hcp, htp⟩, ⟨cq, hcq, htq⟩⟩ := exact2 hval
      obtain ⟨pv, rfl⟩ := tm_number htp
      obtain ⟨qv, rfl⟩ := tm_number htq
      dsimp only
      refine RO.post_bind hs (RO.getCell hcp) (fun c1 hc1 => ?_)
      subst hc1
      refine RO.post_bind hs (RO.getCell hcq) (fun c2 hc2 => ?_)
      subst hc2
      dsimp only
      split
      · exact Post.rtErr _ hs
      · next h0 =>
        split
        · exact Post.rtErr _ hs
        · next h1 =>
          have l0 := idx_in_range h0
          have l1 := idx_in_range h1
          rw [List.getElem?_eq_getElem l0, List.getElem?_eq_getElem l1]
          dsimp only
          refine Post.bind (post_setCell' hs hc notCls_arr (fun y hy => ?_))
            (fun _ s2 hs2 e2 _ => Post.pure hs2 (Nat.lt_of_lt_of_le ha e2.size))
          rcases List.mem_or_eq_of_mem_set hy with hy | rfl
          · rcases List.mem_or_eq_of_mem_set hy with hy | rfl
            · exact hok y hy
            · exact hok _ (List.getElem_mem l1)
          · exact hok _ (List.getElem_mem l0)
    · exact Post.rtErr _ hs
  | hm vals' order =>
    dsimp only
    split
    -- 读取
    · refine RO.post_bind hs (ro_validateAll "string" hv) (fun _ hvals => ?_)
      exact (post_goGet hs vals a ha hvals).ofPre
    -- 写入
    · refine RO.post_bind hs (ro_validateExact _ hv) (fun _ hval => ?_)
      obtain ⟨k, v, rfl, ⟨ck, hck, htk⟩, ⟨cv, hcv, _⟩⟩ := exact2 hval
      obtain ⟨key, rfl⟩ := tm_string htk
      dsimp only
      refine RO.post_bind hs (RO.getCell hck) (fun c' hc' => ?_)
      subst hc'
      dsimp only
      refine Post.bind_pre (post_dup n hs (lt_size_of_get hcv)) (fun v' s1 hs1 pre1 hv' => ?_)
      have hok1 : HmOk s1.heap vals' order := CellOk.mono pre1.ext (c := .hm vals' order) hok
      refine Post.bind (post_setCell' hs1 (pre1 _ _ hc) notCls_hm (hmAppend_ok hok1 key hv').cellOk)
        (fun _ s2 hs2 e2 _ => Post.pure hs2 (Nat.lt_of_lt_of_le (lt_size_of_get hcv) (Nat.le_trans pre1.size e2.size)))
    -- 移除
    · refine RO.post_bind hs (ro_validateExact _ hv) (fun _ hval => ?_)
      obtain ⟨k, rfl, ⟨ck, hck, htk⟩⟩ := exact1 hval
      obtain ⟨key, rfl⟩ := tm_string htk
      dsimp only
      refine RO.post_bind hs (RO.getCell hck) (fun c' hc' => ?_)
      subst hc'
      dsimp only
      cases hl : lookup key vals' with
      | none => exact (post_newNull hs).ofPre
      | some v =>
        dsimp only
        refine Post.bind (post_setCell' hs hc notCls_hm (c := .hm (assocErase key vals') (order.erase key)) ?_)
          (fun _ s2 hs2 e2 _ => Post.pure hs2 (Nat.lt_of_lt_of_le (hok.1 (key, v) (mem_of_lookup hl)) e2.size))
        exact assocErase_ok hok key
    · exact Post.rtErr _ hs
  | num x =>
    dsimp only
    split
    -- 加 减 乘 除
    iterate 4
      · refine RO.post_bind hs (ro_validateAll "number" hv) (fun _ hvals => ?_)
        exact RO.post_bind hs (ro_goArith _ _ vals x hvals) (fun r _ => (post_newNum hs r).ofPre)
    -- 自增 自减
    iterate 2
      · refine RO.post_bind hs (ro_validateExact _ hv) (fun _ hval => ?_)
        obtain ⟨v, rfl, ⟨cv, hcv, htm⟩⟩ := exact1 hval
        obtain ⟨y, rfl⟩ := tm_number htm
        dsimp only
        refine RO.post_bind hs (RO.getCell hcv) (fun c' hc' => ?_)
        subst hc'
        dsimp only
        exact Post.bind (post_setCell' hs hc notCls_num (c := .num _) trivial)
          (fun _ s2 hs2 e2 _ => Post.pure hs2 (Nat.lt_of_lt_of_le ha e2.size))
    · exact (post_newNum hs _).ofPre
    · exact (post_newNum hs _).ofPre
    · exact Post.rtErr _ hs
  | str t =>
    dsimp only
    split
    -- 拼接
    · refine RO.post_bind hs (ro_validateAll "string" hv) (fun _ hvals => ?_)
      exact RO.post_bind hs (ro_mapM_str vals hvals) (fun ss _ => (post_newStr hs _).ofPre)
    -- 匹配 匹配开头 匹配结尾
    iterate 3
      · refine RO.post_bind hs (ro_validateExact _ hv) (fun _ hval => ?_)
        obtain ⟨v, rfl, ⟨cv, hcv, htm⟩⟩ := exact1 hval
        obtain ⟨y, rfl⟩ := tm_string htm
        dsimp only
        refine RO.post_bind hs (RO.getCell hcv) (fun c' hc' => ?_)
        subst hc'
        exact (post_newBool hs _).ofPre
    -- 替换
    · refine RO.post_bind hs (ro_validateExact _ hv) (fun _ hval => ?_)
      obtain ⟨p, q, rfl, ⟨cp, hcp, htp⟩, ⟨cq, hcq, htq⟩⟩ := exact2 hval
      obtain ⟨o, rfl⟩ := tm_string htp
      obtain ⟨nw, rfl⟩ := tm_string htq
      dsimp only
      refine RO.post_bind hs (RO.getCell hcp) (fun c1 hc1 => ?_)
      subst hc1
      refine RO.post_bind hs (RO.getCell hcq) (fun c2 hc2 => ?_)
      subst hc2
      exact (post_newStr hs _).ofPre
    -- 分隔
    · refine RO.post_bind hs (ro_validateExact _ hv) (fun _ hval => ?_)
      obtain ⟨v, rfl, ⟨cv, hcv, htm⟩⟩ := exact1 hval
      obtain ⟨y, rfl⟩ := tm_string htm
      dsimp only
      refine RO.post_bind hs (RO.getCell hcv) (fun c' hc' => ?_)
      subst hc'
      exact (Post.bind (post_mapM_newStr hs (TextOps.split (textBytes t) (textBytes y)) (fun c => bytesText c))
        (fun cs s1 hs1 _ hcs => post_alloc_lt hs1 (c := .arr cs) hcs)).ofPre
    -- 取样
    · refine RO.post_bind hs (ro_validateExact _ hv) (fun _ hval => ?_)
      obtain ⟨p, q, rfl, ⟨cp, hcp, htp⟩, ⟨cq, hcq, htq⟩⟩ := exact2 hval
      obtain ⟨pv, rfl⟩ := tm_number htp
      obtain ⟨qv, rfl⟩ := tm_number htq
      dsimp only
      refine RO.post_bind hs (RO.getCell hcp) (fun c1 hc1 => ?_)
      subst hc1
      refine RO.post_bind hs (RO.getCell hcq) (fun c2 hc2 => ?_)
      subst hc2
      dsimp only
      cases hsl : TextOps.slice (textBytes t) (NumOps.toInt pv) (NumOps.toInt qv) with
      | ok r => exact (post_newStr hs _).ofPre
      | error e =>
        cases e with
        | startIndex => exact (post_throwException hs _).ofPre
        | endIndex => exact (post_throwException hs _).ofPre
        | panic => exact absurd hsl (slice_ne_panic _ _ _)
    -- 去除空格
    · exact (post_newStr hs _).ofPre
    -- 转小写-英文 转大写-英文
    · cases TextOps.toLower (textBytes t) with
      | some r => exact (post_newStr hs _).ofPre
      | none => exact Post.notModelled hs
    · cases TextOps.toUpper (textBytes t) with
      | some r => exact (post_newStr hs _).ofPre
      | none => exact Post.notModelled hs
    -- 格式化
    · refine RO.post_bind hs (ro_validateAll "string" hv) (fun _ hvals => ?_)
      exact RO.post_bind hs (ro_mapM_strBytes vals hvals) (fun ss _ => (post_newStr hs _).ofPre)
    -- 转换数值: the receiver is overwritten by a text, then a number, an exception, or not modelled
    · refine Post.bind (post_setCell' hs hc (by rintro ⟨_, _, _, _, h⟩; cases h) (c := .str _) trivial) (fun _ s2 hs2 e2 _ => ?_)
      cases TextOps.atofClass (TextOps.atoiRewrite (textBytes t)) with
      | number => exact (post_newNum hs2 _).ofPre
      | syntaxErr => exact (post_throwException hs2 _).ofPre
      | special => exact Post.notModelled hs2
    · exact Post.rtErr _ hs
  | bool _ => exact Post.rtErr _ hs
  | null => exact Post.rtErr _ hs
  | obj _ _ => exact Post.rtErr _ hs
  | fn _ => exact Post.rtErr _ hs
  | cls _ _ _ _ => exact Post.rtErr _ hs
  | exc _ => exact Post.rtErr _ hs

/-! ## constructors, 显示 -/

/-- `ClassModel.Construct` with the default constructor or the constructor of 异常 (a user-defined constructor
    runs user code: evaluator) -/
theorem post_construct (n : Nat) {s : VM ν} {cv : Nat} (params : List Addr) {nm : String} {ctor : Ctor}
    {props methods : List (String × Addr)}
    (hs : HeapOk s.heap) (hc : s.heap[cv]? = some (.cls nm ctor props methods))
    (hctor : ∀ mid exec, ctor ≠ .user mid exec) (hp : ∀ v ∈ params, v < s.heap.size) :
    Post Pre s (fun r s' => r < s'.heap.size) (construct n cv params s) := by
  cases n with
  | zero => exact Post.fuel hs
  | succ n =>
    have hok := hs cv _ hc
    unfold construct
    refine RO.post_bind hs (RO.getCell hc) (fun c' hc' => ?_)
    subst hc'
    dsimp only
    refine Post.bind (post_mapM (P := fun (b : String × Addr) s => b.2 < s.heap.size)
      (fun b s s' h p => Nat.lt_of_lt_of_le h p.size) props s hs (fun p hpm s' hs' r' => ?_)) (fun props' s1 hs1 pre1 hprops => ?_)
    · exact Post.bind (post_dup n hs' (Nat.lt_of_lt_of_le (hok.1 p hpm) r'.size)) (fun v s2 hs2 _ hv => Post.pure hs2 hv)
    · have hcls : IsCls s1.heap cv := ⟨nm, ctor, props, methods, pre1 _ _ hc⟩
      refine Post.bind (post_alloc_lt hs1 (c := .obj cv props') ⟨hcls, hprops⟩) (fun inst s2 hs2 pre2 hinst => ?_)
      cases ctor with
      | default => exact Post.pure hs2 hinst
      | user mid exec => exact absurd rfl (hctor mid exec)
      | exception =>
        dsimp only
        have hp2 : ∀ v ∈ params, v < s2.heap.size :=
          fun v hv => Nat.lt_of_lt_of_le (hp v hv) (Nat.le_trans pre1.size pre2.size)
        refine RO.post_bind hs2 (ro_validateExact _ hp2) (fun _ hval => ?_)
        obtain ⟨m, rfl, ⟨cm, hcm, htm⟩⟩ := exact1 hval
        obtain ⟨msg, rfl⟩ := tm_string htm
        dsimp only
        refine RO.post_bind hs2 (RO.getCell hcm) (fun c' hc' => ?_)
        subst hc'
        exact post_alloc_lt hs2 (c := .exc msg) trivial

/-- 显示 (the predefined display function): every argument is displayed, one line is emitted, 空 is answered -/
theorem post_displayFn (n : Nat) {s : VM ν} (this : Option Addr) (params : List Addr)
    (hs : HeapOk s.heap) (hp : ∀ v ∈ params, v < s.heap.size) :
    Post Pre s (fun r s' => r < s'.heap.size) (execFunction n .display this params s) := by
  cases n with
  | zero => exact Post.fuel hs
  | succ n =>
    unfold execFunction
    dsimp only
    refine RO.post_bind hs (RO.mapM (P := fun _ _ => True) (fun v hv => ro_display n hs (hp v hv))) (fun ss _ => ?_)
    rw [bind_apply]
    show Post Pre s _ (newNull { s with out := joinWith " " ss :: s.out })
    have h2 : HeapOk ({ s with out := joinWith " " ss :: s.out } : VM ν).heap := hs
    exact (post_newNull (s := { s with out := joinWith " " ss :: s.out }) h2)

end ZnVerif.Proofs.Builtins
