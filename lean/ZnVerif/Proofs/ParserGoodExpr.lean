/-
`step_good`, part 1: the expression productions (ParseExpression … ParseBasicExpr, ParseMemberExpr).
-/
import ZnVerif.Proofs.ParserGood

namespace ZnVerif.Proofs.ParserGood
open ZnVerif.Model ZnVerif.Model.Parser ZnVerif.Generated.Tokens ZnVerif.Generated.ParserTables
open ZnVerif.Spec.Grammar ZnVerif.Proofs.ParserHoare

-- the operator tables only yield operator codes of ast.go
theorem logic_valid : ∀ t ∈ lv3ValidTypes, validLogic (lookupD logicTypeMap t 0) := by decide
theorem addsub_valid : ∀ t ∈ addSubTypes, validArith (lookupD addSubOverride t addSubDefault) := by decide
theorem muldiv_valid : ∀ t ∈ mulDivTypes, validArith (lookupD mulDivTypeMap t 0) := by decide

variable {σ : Type} {ops : LexOps σ} {B : Nat} {μ : σ → Nat} {I : σ → Prop} (hl : LexOK ops B μ I) {n : Nat} {rec : Rec σ}
  (hg : Good ops B μ I n rec)
include hl hg

omit hl in
theorem pLv1_good (cfg : Bool) (s : PState σ) (hs : Inv ops B I s) :
    Sat (pLv1 rec cfg s) (Post ops B μ I (.expr cfg) s) (ErrOK B) (n + 1 < need μ (.expr cfg) s) := by
  unfold pLv1
  simp only [sat_bind]
  apply hg.callS (.lv2 cfg) rfl hs trivial
  · intro el s1 hi1 hm1 hq1 hc1
    apply hg.callN (.lv1Tail cfg el) hi1 hc1
    · intro r s2 hi2 hm2 hq2 hc2
      exact post_lt hi2 (by omega) (by omega) hc2
    · fuel_tac
  · fuel_tac

theorem pLv1Tail_good (cfg : Bool) (el : Expr) (s : PState σ) (hs : Inv ops B I s) (hpre : CExpr el) :
    Sat (pLv1Tail ops n rec cfg el s) (Post ops B μ I (.lv1Tail cfg el) s) (ErrOK B) (n + 1 < need μ (.lv1Tail cfg el) s) := by
  unfold pLv1Tail
  simp only [sat_bind]
  apply tryConsume_sat hl hs (by decide)
  · intro s1 hi1 hm1 hq1 _
    simp only [sat_pure]
    exact post_le rfl hi1 hm1 hq1 (fun h => h.elim) hpre
  · intro tk s1 hi1 hm1 hq1 _ _
    simp only [sat_bind]
    apply hg.callS (.lv2 cfg) rfl hi1 trivial
    · intro r s2 hi2 hm2 hq2 hc2
      apply lineOf_sat
      intro l
      apply hg.callN (.lv1Tail cfg _) hi2 (.logic _ _ _ _ (by decide) hpre hc2)
      · intro r' s3 hi3 hm3 hq3 hc3
        exact post_le rfl hi3 (by omega) (by have := q_le_one s; omega) (fun h => h.elim) hc3
      · fuel_tac
    · fuel_tac
  · fuel_tac

omit hl in
theorem pLv2_good (cfg : Bool) (s : PState σ) (hs : Inv ops B I s) :
    Sat (pLv2 rec cfg s) (Post ops B μ I (.lv2 cfg) s) (ErrOK B) (n + 1 < need μ (.lv2 cfg) s) := by
  unfold pLv2
  simp only [sat_bind]
  apply hg.callS (.lv3 cfg) rfl hs trivial
  · intro el s1 hi1 hm1 hq1 hc1
    apply hg.callN (.lv2Tail cfg el) hi1 hc1
    · intro r s2 hi2 hm2 hq2 hc2
      exact post_lt hi2 (by omega) (by omega) hc2
    · fuel_tac
  · fuel_tac

theorem pLv2Tail_good (cfg : Bool) (el : Expr) (s : PState σ) (hs : Inv ops B I s) (hpre : CExpr el) :
    Sat (pLv2Tail ops n rec cfg el s) (Post ops B μ I (.lv2Tail cfg el) s) (ErrOK B) (n + 1 < need μ (.lv2Tail cfg el) s) := by
  unfold pLv2Tail
  simp only [sat_bind]
  apply tryConsume_sat hl hs (by decide)
  · intro s1 hi1 hm1 hq1 _
    simp only [sat_pure]
    exact post_le rfl hi1 hm1 hq1 (fun h => h.elim) hpre
  · intro tk s1 hi1 hm1 hq1 _ _
    simp only [sat_bind]
    apply hg.callS (.lv3 cfg) rfl hi1 trivial
    · intro r s2 hi2 hm2 hq2 hc2
      apply lineOf_sat
      intro l
      apply hg.callN (.lv2Tail cfg _) hi2 (.logic _ _ _ _ (by decide) hpre hc2)
      · intro r' s3 hi3 hm3 hq3 hc3
        exact post_le rfl hi3 (by omega) (by have := q_le_one s; omega) (fun h => h.elim) hc3
      · fuel_tac
    · fuel_tac
  · fuel_tac

theorem pLv3_good (cfg : Bool) (s : PState σ) (hs : Inv ops B I s) :
    Sat (pLv3 ops n rec cfg s) (Post ops B μ I (.lv3 cfg) s) (ErrOK B) (n + 1 < need μ (.lv3 cfg) s) := by
  unfold pLv3
  simp only [sat_bind]
  apply hg.callS (.lv4 cfg) rfl hs trivial
  · intro el s1 hi1 hm1 hq1 hc1
    apply tryConsume_sat hl hi1 (by decide)
    · intro s2 hi2 hm2 hq2 _
      simp only [sat_pure]
      exact post_lt hi2 (by omega) (by omega) hc1
    · intro tk s2 hi2 hm2 hq2 hmem _
      simp only [sat_bind]
      apply hg.callS (.lv4 cfg) rfl hi2 trivial
      · intro r s3 hi3 hm3 hq3 hc3
        apply lineOf_sat
        intro l
        simp only [sat_pure]
        exact post_lt hi3 (by omega) (by omega) (.logic _ _ _ _ (logic_valid _ hmem) hc1 hc3)
      · fuel_tac
    · fuel_tac
  · fuel_tac

theorem pLv4_good (cfg : Bool) (s : PState σ) (hs : Inv ops B I s) :
    Sat (pLv4 Variant.fixed ops n rec cfg s) (Post ops B μ I (.lv4 cfg) s) (ErrOK B) (n + 1 < need μ (.lv4 cfg) s) := by
  unfold pLv4
  simp only [sat_bind]
  apply hg.callS .arith rfl hs trivial
  · intro el s1 hi1 hm1 hq1 hc1
    apply tryConsume_sat hl hi1 (by cases cfg <;> decide)
    · intro s2 hi2 hm2 hq2 _
      simp only [sat_pure]
      exact post_lt hi2 (by omega) (by omega) hc1
    · intro tk s2 hi2 hm2 hq2 hmem _
      simp only
      rw [sat_ite]
      refine ⟨fun ha => ?_, fun _ => errPeek_sat hi2 (by decide)⟩
      simp only [sat_bind]
      apply hg.callS .arith rfl hi2 trivial
      · intro r s3 hi3 hm3 hq3 hc3
        apply lineOf_sat
        intro l
        simp only [sat_pure]
        exact post_lt hi3 (by omega) (by omega) (.assign _ _ _ ha hc1 hc3)
      · fuel_tac
    · fuel_tac
  · fuel_tac

omit hl in
theorem pArith_good (s : PState σ) (hs : Inv ops B I s) :
    Sat (pArith rec s) (Post ops B μ I .arith s) (ErrOK B) (n + 1 < need μ .arith s) := by
  unfold pArith
  simp only [sat_bind]
  apply hg.callS .mulDiv rfl hs trivial
  · intro el s1 hi1 hm1 hq1 hc1
    apply hg.callN (.arithTail el) hi1 hc1
    · intro r s2 hi2 hm2 hq2 hc2
      exact post_lt hi2 (by omega) (by omega) hc2
    · fuel_tac
  · fuel_tac

theorem pArithTail_good (el : Expr) (s : PState σ) (hs : Inv ops B I s) (hpre : CExpr el) :
    Sat (pArithTail ops n rec el s) (Post ops B μ I (.arithTail el) s) (ErrOK B) (n + 1 < need μ (.arithTail el) s) := by
  unfold pArithTail
  simp only [sat_bind]
  apply tryConsume_sat hl hs (by decide)
  · intro s1 hi1 hm1 hq1 _
    simp only [sat_pure]
    exact post_le rfl hi1 hm1 hq1 (fun h => h.elim) hpre
  · intro tk s1 hi1 hm1 hq1 hmem _
    simp only [sat_bind]
    apply hg.callS .mulDiv rfl hi1 trivial
    · intro r s2 hi2 hm2 hq2 hc2
      apply lineOf_sat
      intro l
      apply hg.callN (.arithTail _) hi2 (.arith _ _ _ _ (addsub_valid _ hmem) hpre hc2)
      · intro r' s3 hi3 hm3 hq3 hc3
        exact post_le rfl hi3 (by omega) (by have := q_le_one s; omega) (fun h => h.elim) hc3
      · fuel_tac
    · fuel_tac
  · fuel_tac

omit hl in
theorem pMulDiv_good (s : PState σ) (hs : Inv ops B I s) :
    Sat (pMulDiv rec s) (Post ops B μ I .mulDiv s) (ErrOK B) (n + 1 < need μ .mulDiv s) := by
  unfold pMulDiv
  simp only [sat_bind]
  apply hg.callS .member rfl hs trivial
  · intro el s1 hi1 hm1 hq1 hc1
    apply hg.callN (.mulDivTail el) hi1 hc1
    · intro r s2 hi2 hm2 hq2 hc2
      exact post_lt hi2 (by omega) (by omega) hc2
    · fuel_tac
  · fuel_tac

theorem pMulDivTail_good (el : Expr) (s : PState σ) (hs : Inv ops B I s) (hpre : CExpr el) :
    Sat (pMulDivTail ops n rec el s) (Post ops B μ I (.mulDivTail el) s) (ErrOK B) (n + 1 < need μ (.mulDivTail el) s) := by
  unfold pMulDivTail
  simp only [sat_bind]
  apply tryConsume_sat hl hs (by decide)
  · intro s1 hi1 hm1 hq1 _
    simp only [sat_pure]
    exact post_le rfl hi1 hm1 hq1 (fun h => h.elim) hpre
  · intro tk s1 hi1 hm1 hq1 hmem _
    simp only [sat_bind]
    apply hg.callS .member rfl hi1 trivial
    · intro r s2 hi2 hm2 hq2 hc2
      apply lineOf_sat
      intro l
      apply hg.callN (.mulDivTail _) hi2 (.arith _ _ _ _ (muldiv_valid _ hmem) hpre hc2)
      · intro r' s3 hi3 hm3 hq3 hc3
        exact post_le rfl hi3 (by omega) (by have := q_le_one s; omega) (fun h => h.elim) hc3
      · fuel_tac
    · fuel_tac
  · fuel_tac

omit hg in
/-- `calleeTailParser` consumes the member name -/
theorem calleeTail_sat {hasRoot : Bool} {rootType : Nat} {root : Expr} {s : PState σ} {Q : Expr → PState σ → Prop} {F : Prop}
    (hs : Inv ops B I s)
    (hk : ∀ i l s', Inv ops B I s' → m μ s' < m μ s → q s' = 1 →
      Q (.member l rootType (if hasRoot then root else .nil) cMemberID (some i) .nil) s')
    (hF : n ≤ m μ s → F) :
    Sat (calleeTail Variant.fixed ops n hasRoot rootType root s) Q (ErrOK B) F := by
  unfold calleeTail
  simp only [sat_bind]
  apply tryConsume_sat hl hs (by decide)
  · intro s1 hi1 _ _ _
    exact errPeek_sat hi1 (by decide)
  · intro tk s1 hi1 hm1 hq1 _ _
    simp only [sat_bind]
    apply newID_sat
    intro i
    apply lineOf_sat
    intro l
    simp only [sat_pure]
    exact hk i l s1 hi1 hm1 hq1
  · exact hF

theorem pMember_good (s : PState σ) (hs : Inv ops B I s) :
    Sat (pMember Variant.fixed ops n rec s) (Post ops B μ I .member s) (ErrOK B) (n + 1 < need μ .member s) := by
  unfold pMember
  simp only [sat_bind]
  apply tryConsume_sat hl hs (by decide)
  · intro s1 hi1 hm1 hq1 _
    simp only [sat_bind]
    apply hg.callS .basic rfl hi1 trivial
    · intro e s2 hi2 hm2 hq2 hc2
      apply hg.callN (.memberTail e) hi2 hc2
      · intro r s3 hi3 hm3 hq3 hc3
        exact post_lt hi3 (by omega) (by omega) hc3
      · fuel_tac
    · fuel_tac
  · intro tk s1 hi1 hm1 hq1 _ _
    simp only [sat_bind]
    apply calleeTail_sat hl hi1
    · intro i _ s2 hi2 hm2 hq2
      apply hg.callN (.memberTail _) hi2 (by exact .memberThis _ _)
      · intro r s3 hi3 hm3 hq3 hc3
        exact post_lt hi3 (by omega) (by omega) hc3
      · fuel_tac
    · fuel_tac
  · fuel_tac

theorem pMemberTail_good (e : Expr) (s : PState σ) (hs : Inv ops B I s) (hpre : CExpr e) :
    Sat (pMemberTail Variant.fixed ops n rec e s) (Post ops B μ I (.memberTail e) s) (ErrOK B) (n + 1 < need μ (.memberTail e) s) := by
  unfold pMemberTail
  simp only [sat_bind]
  apply tryConsume_sat hl hs (by decide)
  · intro s1 hi1 hm1 hq1 _
    simp only [sat_pure]
    exact post_le rfl hi1 hm1 hq1 (fun h => h.elim) hpre
  · intro tk s1 hi1 hm1 hq1 _ _
    simp only [sat_bind]
    apply lineOf_sat
    intro l
    rw [sat_ite]
    refine ⟨fun _ => ?_, fun _ => ?_⟩
    · -- `#`
      simp only [sat_bind]
      apply tryConsume_sat hl hi1 (by decide)
      · intro s2 hi2 _ _ _
        exact errPeek_sat hi2 (by decide)
      · intro tk2 s2 hi2 hm2 hq2 _ _
        simp only [sat_bind]
        -- the continuation after the index expression
        have cont : ∀ x s3, Inv ops B I s3 → m μ s3 ≤ m μ s2 → q s3 = 1 → CExpr x →
            Sat (rec (.memberTail (.member l cRootTypeExpr e cMemberIndex none x)) s3)
              (Post ops B μ I (.memberTail e) s) (ErrOK B) (n + 1 < need μ (.memberTail e) s) := by
          intro x s3 hi3 hm3 hq3 hx
          apply hg.callN (.memberTail _) hi3 (by exact .memberIdx _ _ _ hpre hx)
          · intro r s4 hi4 hm4 hq4 hc4
            exact post_le rfl hi4 (by omega) (by have := q_le_one s; omega) (fun h => h.elim) hc4
          · fuel_tac
        rw [sat_ite]
        refine ⟨fun _ => ?_, fun _ => ?_⟩
        · simp only [sat_bind]
          apply newID_sat
          intro i
          simp only [sat_pure]
          exact cont _ s2 hi2 (Nat.le_refl _) hq2 (.id _)
        · rw [sat_ite]
          refine ⟨fun _ => ?_, fun _ => ?_⟩
          · apply newString_sat
            intro l' str
            exact cont _ s2 hi2 (Nat.le_refl _) hq2 (.str _ _)
          · rw [sat_ite]
            refine ⟨fun _ => ?_, fun hne => ?_⟩
            · simp only [sat_bind]
              apply hg.callS (.expr true) rfl hi2 trivial
              · intro x s3 hi3 hm3 hq3 hc3
                apply consume_sat hl hi3 (by decide)
                · intro s4 hi4 hm4 hq4
                  simp only [sat_pure]
                  exact cont x s4 hi4 (by omega) hq4 hc3
                · fuel_tac
              · fuel_tac
            · -- unreachable: the token type is one of the three
              exfalso
              rename_i h1 h2 _ _
              simp only [List.mem_cons, List.mem_singleton, List.not_mem_nil, or_false] at *
              omega
      · fuel_tac
    · rw [sat_ite]
      refine ⟨fun _ => ?_, fun _ => errPeek_sat hi1 (by decide)⟩
      simp only [sat_bind]
      apply calleeTail_sat hl hi1
      · intro i _ s2 hi2 hm2 hq2
        apply hg.callN (.memberTail _) hi2 (by exact .memberDot _ _ _ hpre)
        · intro r s3 hi3 hm3 hq3 hc3
          exact post_le rfl hi3 (by omega) (by have := q_le_one s; omega) (fun h => h.elim) hc3
        · fuel_tac
      · fuel_tac
  · fuel_tac

end ZnVerif.Proofs.ParserGood
