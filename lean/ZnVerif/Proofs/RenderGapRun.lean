/-
C03 at character level, free layout, lexer part 3: the whole token sequence of a document (`renderDoc`), as a `Run`.

`GCtx` is the account kept while walking along the element list: indent type, completed lines, the current line (start, indentation),
the position.  `gstAt src c els j` / `gtkAt c els j` are the lexer state after `j` more TOKENS and the token answered there (the blanks
and line breaks before a token are passed inside the call that answers it); `gstep_ok` (induction on the element list) shows that
`NextToken` follows them and that every step has what a `Run` asks for; `docRun` packs it up.
-/
import ZnVerif.Proofs.RenderGapLayout
import ZnVerif.Proofs.RenderGapLit
import ZnVerif.Proofs.RenderGapMulti
import ZnVerif.Proofs.RenderLexRun
import ZnVerif.Proofs.LexLines

namespace ZnVerif.Proofs.RenderLex
open ZnVerif.Model ZnVerif.Generated ZnVerif.Generated.Tokens
open ZnVerif.Spec ZnVerif.Spec.RenderChars
open ZnVerif.Spec.StmtSyntax (Layout)
open ZnVerif.Proofs.LexRun

/-! ### facts about the line table of a document -/

open ZnVerif.Spec.Lines (lineStarts) in
/-- line starts inside a text come in increasing order -/
theorem lineStarts_sorted : ∀ (n : Nat) (t : List Nat) (pos : Nat), t.length = n → (lineStarts pos t).Pairwise (· < ·) := by
  intro n
  induction n using Nat.strongRecOn with
  | _ n ih =>
    intro t pos hn
    match t, hn with
    | [], _ => simp [lineStarts]
    | [c], _ => unfold lineStarts; split <;> simp
    | c :: d :: r, hn =>
      simp only [lineStarts]
      split
      · rw [List.pairwise_cons]
        refine ⟨fun x hx => (lineStarts_bound _ _ x hx).1, ih r.length (by simp at hn; omega) r _ rfl⟩
      · split
        · rw [List.pairwise_cons]
          refine ⟨fun x hx => (lineStarts_bound _ _ x hx).1, ih (d :: r).length (by simp at hn ⊢; omega) (d :: r) _ rfl⟩
        · exact ih (d :: r).length (by simp at hn ⊢; omega) (d :: r) _ rfl

/-- start indices of a list of lines -/
def starts (L : List LineInfo) : List Nat := L.map (·.startIdx)

theorem lit_starts (s k : Nat) (ls : List Nat) (hd : LineInfo) (tl : List LineInfo) (h : hd.startIdx = (litLines s k ls).2.1) :
    starts ((litLines s k ls).1 ++ hd :: tl) = s :: ls ++ starts tl := by
  have := congrArg starts (litLines_spec s k ls)
  simp only [starts, List.map_append, List.map_cons, List.map_nil, List.map_map] at this ⊢
  have e : (List.map ((fun x => x.startIdx) ∘ scannedLine) ls) = ls := by
    induction ls with
    | nil => rfl
    | cons x xs ih => simp [scannedLine, Function.comp_def] at ih ⊢
  rw [e] at this
  rw [h, show List.map (fun x => x.startIdx) (litLines s k ls).1 ++ (litLines s k ls).2.1 :: List.map (fun x => x.startIdx) tl =
    (List.map (fun x => x.startIdx) (litLines s k ls).1 ++ [(openLine (litLines s k ls).2.1 (litLines s k ls).2.2).startIdx]) ++
      List.map (fun x => x.startIdx) tl by simp [openLine], ← this]
  simp [openLine]

theorem litLines_nil (s k : Nat) : litLines s k [] = ([], s, k) := rfl

theorem litLines_cons_head (s k x : Nat) (xs : List Nat) :
    ∃ rest, (litLines s k (x :: xs)).1 = openLine s k :: rest ∧ (litLines s k (x :: xs)).2.2 = 0 := by
  refine ⟨(litLines x 0 xs).1, rfl, ?_⟩
  show (litLines x 0 xs).2.2 = 0
  generalize hx : x = y
  clear hx
  induction xs generalizing y with
  | nil => rfl
  | cons z zs ih => exact ih z

open ZnVerif.Spec.Lines (lineStarts) in
theorem elLines_head (ind : Indent) (pos s k : Nat) (els : List El) :
    ∃ hd rest, elLines ind pos s k els = hd :: rest ∧ hd.startIdx = s ∧ hd.indents = k := by
  induction els generalizing pos with
  | nil => exact ⟨_, _, rfl, rfl, rfl⟩
  | cons e es ih =>
    cases e with
    | tok it => simp only [elLines]; exact ih _
    | ws c => simp only [elLines]; exact ih _
    | br b k' => exact ⟨_, _, rfl, rfl, rfl⟩
    | lit q t =>
      simp only [elLines]
      cases hls : lineStarts (pos + 1) t with
      | nil => simp only [litLines_nil, List.nil_append]; exact ih _
      | cons x xs =>
        obtain ⟨rest, h1, _⟩ := litLines_cons_head s k x xs
        rw [h1]
        exact ⟨_, _, rfl, rfl, rfl⟩
    | mcmt c =>
      simp only [elLines]
      cases hls : lineStarts (pos + c.pre.length) c.body with
      | nil => simp only [litLines_nil, List.nil_append]; exact ih _
      | cons x xs =>
        obtain ⟨rest, h1, _⟩ := litLines_cons_head s k x xs
        rw [h1]
        exact ⟨_, _, rfl, rfl, rfl⟩

theorem mcmt_len (c : MCmt) : c.chars.length = c.pre.length + c.body.length + c.suf.length ∧ 0 < c.suf.length := by
  cases c <;> simp [MCmt.chars, MCmt.suf] <;> omega

theorem break_len_pos (b : Break) : 0 < b.chars.length := by cases b <;> simp [Break.chars]

open ZnVerif.Spec.Lines (lineStarts) in
/-- the start indices of the line table from a point on: the current line's, then increasing ones beyond the current position -/
theorem elLines_starts (ind : Indent) (pos s k : Nat) (els : List El) :
    ∃ T, starts (elLines ind pos s k els) = s :: T ∧ T.Pairwise (· < ·) ∧ ∀ x ∈ T, pos < x := by
  induction els generalizing pos s k with
  | nil => exact ⟨[], rfl, List.Pairwise.nil, by simp⟩
  | cons e es ih =>
    cases e with
    | tok it =>
      simp only [elLines]
      obtain ⟨T, h1, h2, h3⟩ := ih (pos + (El.chars ind (.tok it)).length) s k
      exact ⟨T, h1, h2, fun x hx => by have := h3 x hx; omega⟩
    | ws c =>
      simp only [elLines]
      obtain ⟨T, h1, h2, h3⟩ := ih (pos + (El.chars ind (.ws c)).length) s k
      exact ⟨T, h1, h2, fun x hx => by have := h3 x hx; omega⟩
    | br br k' =>
      simp only [elLines]
      have hbl := break_len_pos br
      obtain ⟨T, h1, h2, h3⟩ := ih (pos + br.chars.length + ind.width * k') (pos + br.chars.length) k'
      refine ⟨(pos + br.chars.length) :: T, ?_, ?_, ?_⟩
      · simp only [starts, List.map_cons] at h1 ⊢
        rw [h1]; rfl
      · rw [List.pairwise_cons]
        exact ⟨fun x hx => by have := h3 x hx; omega, h2⟩
      · intro x hx
        rcases List.mem_cons.mp hx with rfl | hx
        · omega
        · have := h3 x hx; omega
    | lit q t =>
      simp only [elLines]
      obtain ⟨T, h1, h2, h3⟩ := ih (pos + (t.length + 2)) (litLines s k (lineStarts (pos + 1) t)).2.1
        (litLines s k (lineStarts (pos + 1) t)).2.2
      obtain ⟨hd, tl, he, hhd, _⟩ := elLines_head ind (pos + (t.length + 2)) (litLines s k (lineStarts (pos + 1) t)).2.1
        (litLines s k (lineStarts (pos + 1) t)).2.2 es
      rw [he] at h1 ⊢
      have hT : starts tl = T := by simp only [starts, List.map_cons] at h1; exact (List.cons.inj h1).2
      refine ⟨lineStarts (pos + 1) t ++ T, ?_, ?_, ?_⟩
      · rw [lit_starts s k _ hd tl hhd, hT]; rfl
      · rw [List.pairwise_append]
        refine ⟨lineStarts_sorted _ t _ rfl, h2, ?_⟩
        intro a ha b hb
        have := (lineStarts_bound _ _ a ha).2
        have := h3 b hb
        omega
      · intro x hx
        rcases List.mem_append.mp hx with hx | hx
        · have := (lineStarts_bound _ _ x hx).1; omega
        · have := h3 x hx; omega
    | mcmt c =>
      simp only [elLines]
      obtain ⟨hlen, hsuf⟩ := mcmt_len c
      obtain ⟨T, h1, h2, h3⟩ := ih (pos + c.chars.length) (litLines s k (lineStarts (pos + c.pre.length) c.body)).2.1
        (litLines s k (lineStarts (pos + c.pre.length) c.body)).2.2
      obtain ⟨hd, tl, he, hhd, _⟩ := elLines_head ind (pos + c.chars.length) (litLines s k (lineStarts (pos + c.pre.length) c.body)).2.1
        (litLines s k (lineStarts (pos + c.pre.length) c.body)).2.2 es
      rw [he] at h1 ⊢
      have hT : starts tl = T := by simp only [starts, List.map_cons] at h1; exact (List.cons.inj h1).2
      refine ⟨lineStarts (pos + c.pre.length) c.body ++ T, ?_, ?_, ?_⟩
      · rw [lit_starts s k _ hd tl hhd, hT]; rfl
      · rw [List.pairwise_append]
        refine ⟨lineStarts_sorted _ c.body _ rfl, h2, ?_⟩
        intro a ha b hb
        have := (lineStarts_bound _ _ a ha).2
        have := h3 b hb
        omega
      · intro x hx
        rcases List.mem_append.mp hx with hx | hx
        · have := (lineStarts_bound _ _ x hx).1; omega
        · have := h3 x hx; omega

/-- the line after the current one starts beyond the current position -/
theorem elLines_second (ind : Indent) (pos s k : Nat) (els : List El) :
    ∀ b, (elLines ind pos s k els)[1]? = some b → pos < b.startIdx := by
  intro b hb
  obtain ⟨T, h1, _, h3⟩ := elLines_starts ind pos s k els
  apply h3
  have : (starts (elLines ind pos s k els))[1]? = some b.startIdx := by
    simp only [starts, List.getElem?_map, hb, Option.map_some]
  rw [h1] at this
  simp at this
  exact List.mem_of_getElem? this

theorem elLines_sorted (ind : Indent) (pos s k : Nat) (els : List El) (hs : s ≤ pos) :
    (elLines ind pos s k els).Pairwise (fun a b => a.startIdx < b.startIdx) := by
  obtain ⟨T, h1, h2, h3⟩ := elLines_starts ind pos s k els
  have : (starts (elLines ind pos s k els)).Pairwise (· < ·) := by
    rw [h1, List.pairwise_cons]
    exact ⟨fun x hx => by have := h3 x hx; omega, h2⟩
  exact List.pairwise_map.mp this

/-! ### walking along the element list -/

structure GCtx where
  ity : Nat
  dn : List LineInfo
  s : Nat
  k : Nat
  pos : Nat

namespace GCtx

def state (src : Array Nat) (c : GCtx) : Lexer := bst src c.ity c.dn c.s c.k c.pos

def final (ind : Indent) (src : Array Nat) (c : GCtx) : Lexer := fstI ind src c.ity c.dn c.s c.k c.pos

def next (ind : Indent) (c : GCtx) : El → GCtx
  | .br b k' =>
    ⟨ityAfterI ind c.ity k', c.dn ++ [closedLineI ind c.s c.k c.pos], c.pos + b.chars.length, k',
      c.pos + b.chars.length + ind.width * k'⟩
  | .lit _ t =>
    ⟨c.ity, c.dn ++ (litLines c.s c.k (Lines.lineStarts (c.pos + 1) t)).1, (litLines c.s c.k (Lines.lineStarts (c.pos + 1) t)).2.1,
      (litLines c.s c.k (Lines.lineStarts (c.pos + 1) t)).2.2, c.pos + (t.length + 2)⟩
  | .mcmt m =>
    ⟨c.ity, c.dn ++ (litLines c.s c.k (Lines.lineStarts (c.pos + m.pre.length) m.body)).1,
      (litLines c.s c.k (Lines.lineStarts (c.pos + m.pre.length) m.body)).2.1,
      (litLines c.s c.k (Lines.lineStarts (c.pos + m.pre.length) m.body)).2.2, c.pos + m.chars.length⟩
  | e => { c with pos := c.pos + (e.chars ind).length }

/-- the final line table, as seen from here -/
def table (ind : Indent) (c : GCtx) (els : List El) : List LineInfo := c.dn ++ elLines ind c.pos c.s c.k els

end GCtx

def gstAt (ind : Indent) (src : Array Nat) : GCtx → List El → Nat → Lexer
  | c, _, 0 => c.state src
  | c, [], _ + 1 => c.final ind src
  | c, .tok it :: es, j + 1 => gstAt ind src (c.next ind (.tok it)) es j
  | c, .ws x :: es, j + 1 => gstAt ind src (c.next ind (.ws x)) es (j + 1)
  | c, .br b k :: es, j + 1 => gstAt ind src (c.next ind (.br b k)) es (j + 1)
  | c, .lit q t :: es, j + 1 => gstAt ind src (c.next ind (.lit q t)) es j
  | c, .mcmt m :: es, j + 1 => gstAt ind src (c.next ind (.mcmt m)) es j

/-- the token of a comment that may span lines, at `pos` -/
def mcmtTok (m : MCmt) (pos : Nat) : Token := { type := cTypeComment, startIdx := pos, endIdx := pos + m.chars.length }

/-- the token of a verbatim literal at `pos` -/
def litTok (q : Literal.Quote) (t : List Nat) (pos : Nat) : Token :=
  { type := q.type, literal := t, startIdx := pos, endIdx := pos + (t.length + 2) }

def gtkAt (ind : Indent) : GCtx → List El → Nat → Token
  | c, [], _ => eofTok c.pos
  | c, .tok it :: _, 0 => it.token c.pos
  | c, .tok it :: es, j + 1 => gtkAt ind (c.next ind (.tok it)) es j
  | c, .ws x :: es, j => gtkAt ind (c.next ind (.ws x)) es j
  | c, .br b k :: es, j => gtkAt ind (c.next ind (.br b k)) es j
  | c, .lit q t :: _, 0 => litTok q t c.pos
  | c, .lit q t :: es, j + 1 => gtkAt ind (c.next ind (.lit q t)) es j
  | c, .mcmt m :: _, 0 => mcmtTok m c.pos
  | c, .mcmt m :: es, j + 1 => gtkAt ind (c.next ind (.mcmt m)) es j

/-- the line the token answered there starts on -/
def gslAt (ind : Indent) : GCtx → List El → Nat → Nat
  | c, [], _ => c.dn.length
  | c, .tok _ :: _, 0 => c.dn.length
  | c, .tok it :: es, j + 1 => gslAt ind (c.next ind (.tok it)) es j
  | c, .ws x :: es, j => gslAt ind (c.next ind (.ws x)) es j
  | c, .br b k :: es, j => gslAt ind (c.next ind (.br b k)) es j
  | c, .lit _ _ :: _, 0 => c.dn.length
  | c, .lit q t :: es, j + 1 => gslAt ind (c.next ind (.lit q t)) es j
  | c, .mcmt _ :: _, 0 => c.dn.length
  | c, .mcmt m :: es, j + 1 => gslAt ind (c.next ind (.mcmt m)) es j

theorem gstAt_zero (ind : Indent) (src : Array Nat) (c : GCtx) (els : List El) : gstAt ind src c els 0 = c.state src := by
  cases els with
  | nil => rfl
  | cons e es => cases e <;> rfl

/-- the invariant between two elements -/
structure GInv (ind : Indent) (src : Array Nat) (c : GCtx) (els : List El) : Prop where
  text : here (c.state src) = renderEls ind els
  ity : ItyOKI ind c.ity c.k
  sk : c.s + ind.width * c.k ≤ c.pos
  le : c.pos ≤ src.size
  wf : WFEls ind els

theorem gtable_next (ind : Indent) (c : GCtx) (e : El) (es : List El) : (c.next ind e).table ind es = c.table ind (e :: es) := by
  unfold GCtx.table GCtx.next
  cases e <;> simp [elLines, El.chars]

theorem wfEls_tail {ind : Indent} {e : El} {es : List El} (h : WFEls ind (e :: es)) : WFEls ind es := by
  cases e with
  | tok it => exact h.2.2
  | ws c => exact h.2
  | br b k => exact h.2.2
  | lit q t => exact h.2
  | mcmt m => exact h.2

theorem next_pos (ind : Indent) (c : GCtx) (e : El) : (c.next ind e).pos = c.pos + (e.chars ind).length := by
  cases e with
  | tok it => rfl
  | ws x => rfl
  | br b k => simp [GCtx.next, El.chars, units, Nat.add_assoc]
  | lit q t => simp [GCtx.next, El.chars]
  | mcmt m => rfl

open ZnVerif.Spec.Lines (lineStarts) in
/-- the current line after a token that spans lines: unchanged, or the last line that starts inside it, not indented -/
theorem litLines_lastG (s k p : Nat) (t : List Nat) :
    ((litLines s k (lineStarts p t)).2.1 = s ∧ (litLines s k (lineStarts p t)).2.2 = k) ∨
    ((litLines s k (lineStarts p t)).2.1 ≤ p + t.length ∧ (litLines s k (lineStarts p t)).2.2 = 0) := by
  have hb := lineStarts_bound p t
  generalize lineStarts p t = ls at hb
  cases ls with
  | nil => exact Or.inl ⟨rfl, rfl⟩
  | cons x xs =>
    right
    refine ⟨?_, (litLines_cons_head s k x xs).choose_spec.2⟩
    have : ∀ (ys : List Nat) (y k' : Nat), (∀ z ∈ y :: ys, z ≤ p + t.length) → (litLines y k' ys).2.1 ≤ p + t.length := by
      intro ys
      induction ys with
      | nil => intro y k' h; exact h y List.mem_cons_self
      | cons z zs ih => intro y k' h; exact ih z 0 (fun w hw => h w (List.mem_cons_of_mem _ hw))
    exact this xs x 0 (fun z hz => (hb z hz).2)

open ZnVerif.Spec.Lines (lineStarts) in
/-- the current line after a literal: unchanged, or the last line that starts inside the literal, not indented -/
theorem litLines_last (s k pos : Nat) (t : List Nat) :
    ((litLines s k (lineStarts (pos + 1) t)).2.1 = s ∧ (litLines s k (lineStarts (pos + 1) t)).2.2 = k) ∨
    ((litLines s k (lineStarts (pos + 1) t)).2.1 ≤ pos + 1 + t.length ∧ (litLines s k (lineStarts (pos + 1) t)).2.2 = 0) := by
  have hb := lineStarts_bound (pos + 1) t
  generalize lineStarts (pos + 1) t = ls at hb
  cases ls with
  | nil => exact Or.inl ⟨rfl, rfl⟩
  | cons x xs =>
    right
    refine ⟨?_, (litLines_cons_head s k x xs).choose_spec.2⟩
    -- the current line afterwards starts at one of the line starts
    have : ∀ (ys : List Nat) (y k' : Nat), (∀ z ∈ y :: ys, z ≤ pos + 1 + t.length) → (litLines y k' ys).2.1 ≤ pos + 1 + t.length := by
      intro ys
      induction ys with
      | nil => intro y k' h; exact h y List.mem_cons_self
      | cons z zs ih => intro y k' h; exact ih z 0 (fun w hw => h w (List.mem_cons_of_mem _ hw))
    exact this xs x 0 (fun z hz => (hb z hz).2)

theorem GInv.next {ind : Indent} {src : Array Nat} {c : GCtx} {e : El} {es : List El} (h : GInv ind src c (e :: es)) :
    GInv ind src (c.next ind e) es := by
  obtain ⟨ht, hi, hsk, hle, hw⟩ := h
  have hlen : c.pos + (e.chars ind).length ≤ src.size := by
    have := congrArg List.length ht
    simp [here, GCtx.state, bst, lx, renderEls] at this
    omega
  refine ⟨?_, ?_, ?_, by rw [next_pos]; exact hlen, wfEls_tail hw⟩
  · have e1 : here ((c.next ind e).state src) = (here (c.state src)).drop (e.chars ind).length := by
      show src.toList.drop (c.next ind e).pos = (src.toList.drop c.pos).drop _
      rw [List.drop_drop, next_pos]
    rw [e1, ht]
    simp only [renderEls]
    exact List.drop_left' rfl
  · cases e with
    | tok it => exact hi
    | ws x => exact hi
    | br b k' => exact hi.after k'
    | lit q t =>
      show ItyOKI ind c.ity (litLines c.s c.k (Lines.lineStarts (c.pos + 1) t)).2.2
      rcases litLines_last c.s c.k c.pos t with ⟨_, h2⟩ | ⟨_, h2⟩
      · rw [h2]; exact hi
      · rw [h2]
        rcases hi with h | ⟨h, _⟩
        · exact Or.inl h
        · exact Or.inr ⟨h, rfl⟩
    | mcmt m =>
      show ItyOKI ind c.ity (litLines c.s c.k (Lines.lineStarts (c.pos + m.pre.length) m.body)).2.2
      rcases litLines_lastG c.s c.k (c.pos + m.pre.length) m.body with ⟨_, h2⟩ | ⟨_, h2⟩
      · rw [h2]; exact hi
      · rw [h2]
        rcases hi with h | ⟨h, _⟩
        · exact Or.inl h
        · exact Or.inr ⟨h, rfl⟩
  · cases e with
    | tok it => show c.s + ind.width * c.k ≤ c.pos + _; omega
    | ws x => show c.s + ind.width * c.k ≤ c.pos + _; omega
    | br b k' => show c.pos + b.chars.length + ind.width * k' ≤ c.pos + b.chars.length + ind.width * k'; omega
    | lit q t =>
      show (litLines c.s c.k (Lines.lineStarts (c.pos + 1) t)).2.1 +
        ind.width * (litLines c.s c.k (Lines.lineStarts (c.pos + 1) t)).2.2 ≤ c.pos + (t.length + 2)
      rcases litLines_last c.s c.k c.pos t with ⟨h1, h2⟩ | ⟨h1, h2⟩
      · rw [h1, h2]; omega
      · rw [h2]; omega
    | mcmt m =>
      show (litLines c.s c.k (Lines.lineStarts (c.pos + m.pre.length) m.body)).2.1 +
        ind.width * (litLines c.s c.k (Lines.lineStarts (c.pos + m.pre.length) m.body)).2.2 ≤ c.pos + m.chars.length
      obtain ⟨hlen, _⟩ := mcmt_len m
      rcases litLines_lastG c.s c.k (c.pos + m.pre.length) m.body with ⟨h1, h2⟩ | ⟨h1, h2⟩
      · rw [h1, h2]; omega
      · rw [h2]; omega

/-- blanks and line breaks are passed inside the call that answers the next token -/
theorem nextToken_gap (ind : Indent) (src : Array Nat) (c : GCtx) (e : El) (es : List El) (h : GInv ind src c (e :: es))
    (hg : ∀ it, e ≠ .tok it) (hg' : ∀ q t, e ≠ .lit q t) (hg'' : ∀ m, e ≠ .mcmt m) :
    nextToken (c.state src) = nextToken ((c.next ind e).state src) := by
  apply nextToken_skip _ _ rfl rfl
  cases e with
  | tok it => exact absurd rfl (hg it)
  | lit q t => exact absurd rfl (hg' q t)
  | mcmt m => exact absurd rfl (hg'' m)
  | ws x =>
    have hc : (c.state src).cur = x := by
      have : here (c.state src) = x :: renderEls ind es := by rw [h.text]; rfl
      exact (here_cons this).1
    exact skipBlank_ws _ (by rw [hc]; exact h.wf.1)
  | br b k' =>
    have := skipBlank_brk ind src c.ity c.dn c.s c.k c.pos b k' (renderEls ind es) h.ity h.sk
      (by show here (c.state src) = _; rw [h.text]; simp [renderEls, El.chars])
      h.wf.1 h.wf.2.1
    exact this

theorem nextToken_item (ind : Indent) (src : Array Nat) (c : GCtx) (it : Item) (es : List El) (h : GInv ind src c (.tok it :: es)) :
    nextToken (c.state src) = (.ok (it.token c.pos), (c.next ind (.tok it)).state src) :=
  nextToken_tok it h.wf.1 (renderEls ind es) h.wf.2.1 (c.state src) rfl h.text

theorem nextToken_literal (ind : Indent) (src : Array Nat) (c : GCtx) (q : Literal.Quote) (t : List Nat) (es : List El)
    (h : GInv ind src c (.lit q t :: es)) :
    nextToken (c.state src) = (.ok (litTok q t c.pos), (c.next ind (.lit q t)).state src) :=
  nextToken_lit q t h.wf.1 src c.ity c.dn c.s c.k c.pos (renderEls ind es)
    (by show here (c.state src) = _; rw [h.text]; simp [renderEls, El.chars])

theorem nextToken_mcomment (ind : Indent) (src : Array Nat) (c : GCtx) (m : MCmt) (es : List El)
    (h : GInv ind src c (.mcmt m :: es)) :
    nextToken (c.state src) = (.ok (mcmtTok m c.pos), (c.next ind (.mcmt m)).state src) :=
  nextToken_mcmt m h.wf.1 src c.ity c.dn c.s c.k c.pos (renderEls ind es)
    (by show here (c.state src) = _; rw [h.text]; simp [renderEls, El.chars, MCmt.chars])

theorem gsrc_size {ind : Indent} {src : Array Nat} {c : GCtx} (h : GInv ind src c []) : src.size = c.pos := by
  have := (here_nil h.text).2
  have h2 := h.le
  show src.size = c.pos
  have h3 : src.size ≤ c.pos := this
  omega

theorem gstate_lines (src : Array Nat) (c : GCtx) : (c.state src).lines = (c.dn ++ [openLine c.s c.k]).toArray := rfl

theorem gfinal_lines (ind : Indent) (src : Array Nat) (c : GCtx) :
    (c.final ind src).lines = (c.dn ++ [closedLineI ind c.s c.k c.pos]).toArray := rfl

/-- the table known between two elements against the final table -/
theorem gstate_pre (ind : Indent) (src : Array Nat) (c : GCtx) (els : List El) : ∀ i, i < (c.state src).lines.size →
    (c.state src).lines[i]?.map (·.startIdx) = (c.table ind els)[i]?.map (·.startIdx) ∧
    (c.state src).lines[i]?.map (·.indents) = (c.table ind els)[i]?.map (·.indents) := by
  intro i hi
  obtain ⟨e, rest, he, hes, hek⟩ := elLines_head ind c.pos c.s c.k els
  rw [gstate_lines] at hi ⊢
  unfold GCtx.table
  rw [he]
  simp only [List.size_toArray, List.length_append, List.length_cons, List.length_nil] at hi
  simp only [List.getElem?_toArray]
  by_cases h1 : i < c.dn.length
  · rw [List.getElem?_append_left h1, List.getElem?_append_left h1]; exact ⟨rfl, rfl⟩
  · have : i = c.dn.length := by omega
    subst this
    simp [openLine, hes, hek]

theorem gstate_at (ind : Indent) (c : GCtx) (els : List El) :
    (∃ e, (c.table ind els)[c.dn.length]? = some e ∧ e.startIdx = c.s) ∧
    ∀ b, (c.table ind els)[c.dn.length + 1]? = some b → c.pos < b.startIdx := by
  obtain ⟨e, rest, he, hes, _⟩ := elLines_head ind c.pos c.s c.k els
  constructor
  · exact ⟨e, by unfold GCtx.table; rw [he]; simp, hes⟩
  · intro b hb
    apply elLines_second ind c.pos c.s c.k els b
    unfold GCtx.table at hb
    rw [List.getElem?_append_right (by omega)] at hb
    simpa using hb

/-- a step that ends between two elements, the token on the current line -/
theorem gstepOK_state (ind : Indent) (src : Array Nat) (l : Lexer) (t : Token) (c : GCtx) (els : List El)
    (hstep : nextToken l = (.ok t, c.state src)) (hmono : l.lines.size ≤ c.dn.length + 1)
    (hs : c.s ≤ t.startIdx) (hspan : t.startIdx ≤ t.endIdx) (he : t.endIdx = c.pos) :
    StepOK (c.table ind els) l t c.dn.length (c.state src) := by
  have hsize : (c.state src).lines.size = c.dn.length + 1 := by rw [gstate_lines]; simp
  obtain ⟨⟨e, h1, h1s⟩, h2⟩ := gstate_at ind c els
  refine ⟨hstep, by omega, by omega, gstate_pre ind src c els, by omega, by omega, ?_, ?_, ?_, hspan, ?_⟩
  · intro a ha
    rw [h1] at ha
    cases ha
    rw [h1s]; exact hs
  · intro b hb
    have := h2 b hb
    omega
  · intro a ha
    rw [hsize, Nat.add_sub_cancel, h1] at ha
    cases ha
    rw [h1s]
    omega
  · intro b hb
    rw [hsize] at hb
    rw [he]
    exact h2 b hb

/-- a step that ends after the EOF token -/
theorem gstepOK_final (ind : Indent) (src : Array Nat) (l : Lexer) (c : GCtx) (hsk : c.s + ind.width * c.k ≤ c.pos)
    (hstep : nextToken l = (.ok (eofTok c.pos), c.final ind src)) (hmono : l.lines.size ≤ c.dn.length + 1) :
    StepOK (c.table ind []) l (eofTok c.pos) c.dn.length (c.final ind src) := by
  have hsize : (c.final ind src).lines.size = c.dn.length + 1 := by rw [gfinal_lines]; simp
  have htab : c.table ind [] = c.dn ++ [closedLineI ind c.s c.k c.pos] := rfl
  have hget : (c.dn ++ [closedLineI ind c.s c.k c.pos])[c.dn.length]? = some (closedLineI ind c.s c.k c.pos) := by simp
  have hnone : (c.dn ++ [closedLineI ind c.s c.k c.pos])[c.dn.length + 1]? = none := by
    apply List.getElem?_eq_none; simp
  refine ⟨hstep, by omega, by omega, ?_, by omega, by omega, ?_, ?_, ?_, Nat.le_refl _, ?_⟩
  · intro i _
    rw [gfinal_lines, htab]
    simp
  · intro a ha
    rw [htab, hget] at ha
    cases ha
    show c.s ≤ c.pos
    omega
  · intro b hb
    rw [htab, hnone] at hb
    cases hb
  · intro a ha
    rw [hsize, htab, Nat.add_sub_cancel, hget] at ha
    cases ha
    show c.s ≤ c.pos
    omega
  · intro b hb
    rw [hsize, htab, hnone] at hb
    cases hb

theorem gnext_dn_length (ind : Indent) (c : GCtx) (e : El) : c.dn.length ≤ (c.next ind e).dn.length := by
  cases e <;> simp [GCtx.next]

/-- the step that answers a verbatim literal: the token starts on the current line and ends on the last line that starts inside it -/
theorem gstepOK_lit (ind : Indent) (src : Array Nat) (c : GCtx) (q : Literal.Quote) (t : List Nat) (es : List El)
    (h : GInv ind src c (.lit q t :: es)) :
    StepOK (c.table ind (.lit q t :: es)) (c.state src) (litTok q t c.pos) c.dn.length ((c.next ind (.lit q t)).state src) := by
  have hn := h.next
  have hdn := gnext_dn_length ind c (.lit q t)
  have hsize : ((c.next ind (.lit q t)).state src).lines.size = (c.next ind (.lit q t)).dn.length + 1 := by
    rw [gstate_lines]; simp
  have hsize0 : (c.state src).lines.size = c.dn.length + 1 := by rw [gstate_lines]; simp
  obtain ⟨⟨e0, h01, h0s⟩, h02⟩ := gstate_at ind c (.lit q t :: es)
  obtain ⟨⟨e1, h11, h1s⟩, h12⟩ := gstate_at ind (c.next ind (.lit q t)) es
  rw [gtable_next] at h11 h12
  have hpre := gstate_pre ind src (c.next ind (.lit q t)) es
  rw [gtable_next] at hpre
  have hpos' : (c.next ind (.lit q t)).pos = c.pos + (t.length + 2) := rfl
  refine ⟨nextToken_literal ind src c q t es h, by omega, by omega, hpre, by omega, by omega, ?_, ?_, ?_, ?_, ?_⟩
  · intro a ha
    rw [h01] at ha; cases ha
    rw [h0s]
    show c.s ≤ c.pos
    have := h.sk; omega
  · intro b hb
    exact h02 b hb
  · intro a ha
    rw [hsize, Nat.add_sub_cancel, h11] at ha; cases ha
    rw [h1s]
    show (c.next ind (.lit q t)).s ≤ c.pos + (t.length + 2)
    have := hn.sk
    rw [hpos'] at this
    omega
  · show c.pos ≤ c.pos + (t.length + 2); omega
  · intro b hb
    rw [hsize] at hb
    have := h12 b hb
    rw [hpos'] at this
    exact this

/-- the step that answers a comment that may span lines -/
theorem gstepOK_mcmt (ind : Indent) (src : Array Nat) (c : GCtx) (m : MCmt) (es : List El)
    (h : GInv ind src c (.mcmt m :: es)) :
    StepOK (c.table ind (.mcmt m :: es)) (c.state src) (mcmtTok m c.pos) c.dn.length ((c.next ind (.mcmt m)).state src) := by
  have hn := h.next
  have hdn := gnext_dn_length ind c (.mcmt m)
  have hsize : ((c.next ind (.mcmt m)).state src).lines.size = (c.next ind (.mcmt m)).dn.length + 1 := by
    rw [gstate_lines]; simp
  have hsize0 : (c.state src).lines.size = c.dn.length + 1 := by rw [gstate_lines]; simp
  obtain ⟨⟨e0, h01, h0s⟩, h02⟩ := gstate_at ind c (.mcmt m :: es)
  obtain ⟨⟨e1, h11, h1s⟩, h12⟩ := gstate_at ind (c.next ind (.mcmt m)) es
  rw [gtable_next] at h11 h12
  have hpre := gstate_pre ind src (c.next ind (.mcmt m)) es
  rw [gtable_next] at hpre
  have hpos' : (c.next ind (.mcmt m)).pos = c.pos + m.chars.length := rfl
  refine ⟨nextToken_mcomment ind src c m es h, by omega, by omega, hpre, by omega, by omega, ?_, ?_, ?_, ?_, ?_⟩
  · intro a ha
    rw [h01] at ha; cases ha
    rw [h0s]
    show c.s ≤ c.pos
    have := h.sk; omega
  · intro b hb
    exact h02 b hb
  · intro a ha
    rw [hsize, Nat.add_sub_cancel, h11] at ha; cases ha
    rw [h1s]
    show (c.next ind (.mcmt m)).s ≤ c.pos + m.chars.length
    have := hn.sk
    rw [hpos'] at this
    omega
  · show c.pos ≤ c.pos + m.chars.length; omega
  · intro b hb
    rw [hsize] at hb
    have := h12 b hb
    rw [hpos'] at this
    exact this

/-- **every step along the document** -/
theorem gstep_ok (ind : Indent) (src : Array Nat) : ∀ (els : List El) (c : GCtx) (j : Nat), GInv ind src c els →
    StepOK (c.table ind els) (gstAt ind src c els j) (gtkAt ind c els j) (gslAt ind c els j) (gstAt ind src c els (j + 1)) := by
  intro els
  induction els with
  | nil =>
    intro c j h
    cases j with
    | zero =>
      show StepOK _ (c.state src) (eofTok c.pos) c.dn.length (c.final ind src)
      exact gstepOK_final ind src _ c h.sk
        (nextToken_end ind src c.ity c.dn c.s c.k c.pos h.ity h.sk h.le h.text) (by rw [gstate_lines]; simp)
    | succ j =>
      show StepOK _ (c.final ind src) (eofTok c.pos) c.dn.length (c.final ind src)
      exact gstepOK_final ind src _ c h.sk
        (nextToken_end_again ind src c.ity c.dn c.s c.k c.pos h.ity h.sk (gsrc_size h)) (by rw [gfinal_lines]; simp)
  | cons e es ih =>
    intro c j h
    rw [← gtable_next]
    -- a gap element at the head: the same token, answered from one element further on
    have gap : (∀ it, e ≠ .tok it) → (∀ q t, e ≠ .lit q t) → (∀ m, e ≠ .mcmt m) → gtkAt ind c (e :: es) 0 = gtkAt ind (c.next ind e) es 0 →
        gslAt ind c (e :: es) 0 = gslAt ind (c.next ind e) es 0 →
        gstAt ind src c (e :: es) 1 = gstAt ind src (c.next ind e) es 1 →
        StepOK ((c.next ind e).table ind es) (c.state src) (gtkAt ind c (e :: es) 0) (gslAt ind c (e :: es) 0)
          (gstAt ind src c (e :: es) 1) := by
      intro hg hg' hg'' e1 e3 e2
      have := ih (c.next ind e) 0 h.next
      rw [gstAt_zero] at this
      rw [e1, e2, e3]
      have hsz : (c.state src).lines.size ≤ ((c.next ind e).state src).lines.size := by
        rw [gstate_lines, gstate_lines]
        simp only [List.size_toArray, List.length_append, List.length_cons, List.length_nil]
        have := gnext_dn_length ind c e
        omega
      refine ⟨by rw [nextToken_gap ind src c e es h hg hg' hg'']; exact this.step, this.pos, Nat.le_trans hsz this.mono, this.pre,
        this.sl_lt, ?_, this.onStart, this.beforeNextStart, this.onLast, this.span, this.beforeNext⟩
      have := this.sl_ge
      omega
    cases e with
    | tok it =>
      cases j with
      | zero =>
        have e1 : gstAt ind src c (.tok it :: es) (0 + 1) = (c.next ind (.tok it)).state src := gstAt_zero ind src _ es
        rw [gstAt_zero, e1]
        show StepOK _ (c.state src) (it.token c.pos) c.dn.length ((c.next ind (.tok it)).state src)
        exact gstepOK_state ind src (c.state src) (it.token c.pos) (c.next ind (.tok it)) es (nextToken_item ind src c it es h)
          (by rw [gstate_lines]; simp [GCtx.next]) (by show c.s ≤ c.pos; have := h.sk; omega) (by simp [Item.token])
          (by simp [Item.token, GCtx.next, El.chars])
      | succ j => exact ih (c.next ind (.tok it)) j h.next
    | ws x =>
      cases j with
      | zero => rw [gstAt_zero]; exact gap (fun it => by simp) (fun q t => by simp) (fun m => by simp) rfl rfl rfl
      | succ j => exact ih (c.next ind (.ws x)) (j + 1) h.next
    | br b k' =>
      cases j with
      | zero => rw [gstAt_zero]; exact gap (fun it => by simp) (fun q t => by simp) (fun m => by simp) rfl rfl rfl
      | succ j => exact ih (c.next ind (.br b k')) (j + 1) h.next
    | lit q t =>
      cases j with
      | zero =>
        have e1 : gstAt ind src c (.lit q t :: es) (0 + 1) = (c.next ind (.lit q t)).state src := gstAt_zero ind src _ es
        rw [gstAt_zero, e1, gtable_next]
        exact gstepOK_lit ind src c q t es h
      | succ j => exact ih (c.next ind (.lit q t)) j h.next
    | mcmt m =>
      cases j with
      | zero =>
        have e1 : gstAt ind src c (.mcmt m :: es) (0 + 1) = (c.next ind (.mcmt m)).state src := gstAt_zero ind src _ es
        rw [gstAt_zero, e1, gtable_next]
        exact gstepOK_mcmt ind src c m es h
      | succ j => exact ih (c.next ind (.mcmt m)) j h.next

/-- number of tokens of an element list -/
def tokCount : List El → Nat
  | [] => 0
  | .tok _ :: es => tokCount es + 1
  | .lit _ _ :: es => tokCount es + 1
  | .mcmt _ :: es => tokCount es + 1
  | _ :: es => tokCount es

theorem gtkAt_eof (ind : Indent) (src : Array Nat) : ∀ (els : List El) (c : GCtx) (j : Nat), GInv ind src c els →
    tokCount els ≤ j → gtkAt ind c els j = eofTok src.size := by
  intro els
  induction els with
  | nil => intro c j h _; rw [gsrc_size h]; rfl
  | cons e es ih =>
    intro c j h hj
    cases e with
    | tok it =>
      obtain ⟨j', rfl⟩ : ∃ j', j = j' + 1 := ⟨j - 1, by simp [tokCount] at hj; omega⟩
      exact ih (c.next ind (.tok it)) j' h.next (by simp [tokCount] at hj; omega)
    | ws x => exact ih (c.next ind (.ws x)) j h.next (by simpa [tokCount] using hj)
    | br b k' => exact ih (c.next ind (.br b k')) j h.next (by simpa [tokCount] using hj)
    | lit q t =>
      obtain ⟨j', rfl⟩ : ∃ j', j = j' + 1 := ⟨j - 1, by simp [tokCount] at hj; omega⟩
      exact ih (c.next ind (.lit q t)) j' h.next (by simp [tokCount] at hj; omega)
    | mcmt m =>
      obtain ⟨j', rfl⟩ : ∃ j', j = j' + 1 := ⟨j - 1, by simp [tokCount] at hj; omega⟩
      exact ih (c.next ind (.mcmt m)) j' h.next (by simp [tokCount] at hj; omega)

theorem gtkAt_toks (ind : Indent) : ∀ (els : List El) (c : GCtx),
    (List.range (tokCount els)).map (gtkAt ind c els) = elToks ind c.pos els := by
  intro els
  induction els with
  | nil => intro c; rfl
  | cons e es ih =>
    intro c
    cases e with
    | tok it =>
      simp only [tokCount, List.range_succ_eq_map, List.map_cons, List.map_map, elToks]
      congr 1
      exact ih (c.next ind (.tok it))
    | ws x =>
      have : elToks ind c.pos (.ws x :: es) = elToks ind (c.next ind (.ws x)).pos es := rfl
      rw [this, ← ih]; rfl
    | br b k' =>
      have : elToks ind c.pos (.br b k' :: es) = elToks ind (c.next ind (.br b k')).pos es := by
        simp [elToks, next_pos]
      rw [this, ← ih]; rfl
    | lit q t =>
      simp only [tokCount, List.range_succ_eq_map, List.map_cons, List.map_map, elToks]
      congr 1
      exact ih (c.next ind (.lit q t))
    | mcmt m =>
      simp only [tokCount, List.range_succ_eq_map, List.map_cons, List.map_map, elToks]
      congr 1
      exact ih (c.next ind (.mcmt m))

theorem gstAt_final_lines (ind : Indent) (src : Array Nat) : ∀ (els : List El) (c : GCtx),
    (gstAt ind src c els (tokCount els + 1)).lines = (c.table ind els).toArray := by
  intro els
  induction els with
  | nil => intro c; rfl
  | cons e es ih =>
    intro c
    rw [← gtable_next]
    cases e with
    | tok it => exact ih (c.next ind (.tok it))
    | ws x => exact ih (c.next ind (.ws x))
    | br b k' => exact ih (c.next ind (.br b k'))
    | lit q t => exact ih (c.next ind (.lit q t))
    | mcmt m => exact ih (c.next ind (.mcmt m))

/-! ### the `Run` of a document -/

/-- the account after `parseBeginLex` -/
def gctx0 (ind : Indent) (k0 : Nat) : GCtx := ⟨ityAfterI ind cIndentUnknown k0, [], 0, k0, ind.width * k0⟩

def docSt (ind : Indent) (k0 : Nat) (els : List El) : Nat → Lexer
  | 0 => mkLexer (renderDoc ind k0 els)
  | j + 1 => gstAt ind (renderDoc ind k0 els).toArray (gctx0 ind k0) els (j + 1)

def docTk (ind : Indent) (k0 : Nat) (els : List El) (j : Nat) : Token := gtkAt ind (gctx0 ind k0) els j

def docSl (ind : Indent) (k0 : Nat) (els : List El) (j : Nat) : Nat := gslAt ind (gctx0 ind k0) els j

/-- the first character of the text of well-formed elements is not NUL -/
theorem renderEls_head_ne (ind : Indent) (els : List El) (hw : WFEls ind els) (hne : renderEls ind els ≠ []) :
    (renderEls ind els).headD 0 ≠ 0 := by
  cases els with
  | nil => exact absurd rfl hne
  | cons e es =>
    cases e with
    | tok it =>
      obtain ⟨c, sp, hsp, _, h0, _⟩ := spelling_head0 it hw.1
      simp [renderEls, El.chars, hsp]; exact h0
    | ws x =>
      simp [renderEls, El.chars]
      intro e; have := hw.1; rw [e] at this; revert this; decide
    | br b k => cases b <;> simp [renderEls, El.chars, Break.chars] <;> decide
    | lit q t => cases q <;> simp [renderEls, El.chars] <;> decide
    | mcmt m => cases m <;> simp [renderEls, El.chars, MCmt.chars, MCmt.pre] <;> decide

theorem ginv0 (ind : Indent) (k0 : Nat) (els : List El) (hwf : DocWF ind k0 els) :
    GInv ind (renderDoc ind k0 els).toArray (gctx0 ind k0) els := by
  refine ⟨?_, ItyOKI.after (Or.inr ⟨rfl, rfl⟩ : ItyOKI ind cIndentUnknown 0) k0, by simp [gctx0], ?_, hwf.2.2⟩
  · show (renderDoc ind k0 els).toArray.toList.drop (ind.width * k0) = _
    unfold renderDoc
    exact List.drop_left' (by simp [units])
  · show ind.width * k0 ≤ (renderDoc ind k0 els).toArray.size
    simp [renderDoc, units]

/-- every step of the lexer on the document, the first one included -/
theorem doc_step_ok (ind : Indent) (k0 : Nat) (els : List El) (hwf : DocWF ind k0 els) (j : Nat) :
    StepOK (docLines ind k0 els) (docSt ind k0 els j) (docTk ind k0 els j) (docSl ind k0 els j) (docSt ind k0 els (j + 1)) := by
  have hinv := ginv0 ind k0 els hwf
  have htab : (gctx0 ind k0).table ind els = docLines ind k0 els := by simp [GCtx.table, gctx0, docLines]
  have := (gstep_ok ind (renderDoc ind k0 els).toArray els (gctx0 ind k0) j hinv)
  rw [htab] at this
  cases j with
  | succ j => exact this
  | zero =>
    rw [gstAt_zero] at this
    -- the first call: `parseBeginLex`, then as between tokens
    have h0 : (renderDoc ind k0 els).headD 0 ≠ 0 := by
      unfold renderDoc
      by_cases hk : ind.width * k0 = 0
      · have hu : units ind k0 = [] := by unfold units; rw [hk]; rfl
        rw [hu, List.nil_append]
        apply renderEls_head_ne ind els hwf.2.2
        have := hwf.1
        unfold renderDoc at this
        rw [hu, List.nil_append] at this
        exact this
      · obtain ⟨j', hj⟩ : ∃ j', ind.width * k0 = j' + 1 := ⟨ind.width * k0 - 1, by omega⟩
        unfold units; rw [hj]
        simp [List.replicate_succ]
        exact (indent_char_facts ind).1
    have hbegin := nextToken_begin ind (renderDoc ind k0 els) k0 (renderEls ind els) h0 rfl hwf.2.1
    exact ⟨by show nextToken (mkLexer _) = _; rw [hbegin]; exact this.step, this.pos, by simp [docSt, mkLexer], this.pre,
      this.sl_lt, by simp [docSt, mkLexer], this.onStart, this.beforeNextStart, this.onLast, this.span, this.beforeNext⟩

theorem docLines_sorted (ind : Indent) (k0 : Nat) (els : List El) :
    (docLines ind k0 els).Pairwise (fun a b => a.startIdx < b.startIdx) :=
  elLines_sorted ind _ 0 k0 els (Nat.zero_le _)

theorem docTk_eof (ind : Indent) (k0 : Nat) (els : List El) (hwf : DocWF ind k0 els) (j : Nat) (hj : tokCount els ≤ j) :
    docTk ind k0 els j = (docLayout ind k0 els).eof := by
  have := gtkAt_eof ind (renderDoc ind k0 els).toArray els (gctx0 ind k0) j (ginv0 ind k0 els hwf) hj
  unfold docTk
  rw [this]
  simp [eofTok, Layout.eof, docLayout]

/-- **the lexer on a document, as a `Run`** against the layout the text determines -/
def docRun (ind : Indent) (k0 : Nat) (els : List El) (hwf : DocWF ind k0 els) : Run (docLayout ind k0 els) where
  st := docSt ind k0 els
  tk := docTk ind k0 els
  N := tokCount els
  step j := (doc_step_ok ind k0 els hwf j).step
  eof j hj := docTk_eof ind k0 els hwf j hj
  sorted i j a b hij ha hb := by
    have hs := docLines_sorted ind k0 els
    simp only [docLayout, List.getElem?_toArray] at ha hb
    obtain ⟨hi, rfl⟩ := List.getElem?_eq_some_iff.mp ha
    obtain ⟨hj, rfl⟩ := List.getElem?_eq_some_iff.mp hb
    exact List.pairwise_iff_getElem.mp hs i j hi hj hij
  size_pos j := (doc_step_ok ind k0 els hwf j).pos
  size_mono j := (doc_step_ok ind k0 els hwf (j + 1)).mono
  pre j i hi := by
    have := (doc_step_ok ind k0 els hwf j).pre i hi
    simpa [docLayout] using this
  sline := docSl ind k0 els
  sline_lt j := (doc_step_ok ind k0 els hwf j).sl_lt
  sline_ge j := (doc_step_ok ind k0 els hwf (j + 1)).sl_ge
  onStart j a ha := by
    apply (doc_step_ok ind k0 els hwf j).onStart a
    simpa [docLayout] using ha
  beforeNextStart j b hb := by
    apply (doc_step_ok ind k0 els hwf j).beforeNextStart b
    simpa [docLayout] using hb
  onLast j a ha := by
    apply (doc_step_ok ind k0 els hwf j).onLast a
    simpa [docLayout] using ha
  span j := (doc_step_ok ind k0 els hwf j).span
  beforeNext j b hb := by
    apply (doc_step_ok ind k0 els hwf j).beforeNext b
    simpa [docLayout] using hb

theorem docRun_st0 (ind : Indent) (k0 : Nat) (els : List El) (hwf : DocWF ind k0 els) :
    (docRun ind k0 els hwf).st 0 = mkLexer (renderDoc ind k0 els) := rfl

theorem docRun_toks (ind : Indent) (k0 : Nat) (els : List El) (hwf : DocWF ind k0 els) :
    (docRun ind k0 els hwf).toks = docTokens ind k0 els := by
  show (List.range (tokCount els)).map (gtkAt ind (gctx0 ind k0) els) = _
  rw [gtkAt_toks]
  rfl

theorem docRun_final_lines (ind : Indent) (k0 : Nat) (els : List El) (hwf : DocWF ind k0 els) :
    ((docRun ind k0 els hwf).st (tokCount els + 1)).lines = (docLines ind k0 els).toArray := by
  show (gstAt ind _ (gctx0 ind k0) els (tokCount els + 1)).lines = _
  rw [gstAt_final_lines]
  simp [GCtx.table, gctx0, docLines]

theorem item_type_ne_eof0 (it : Item) (hw : it.WF0) : it.type ≠ cTypeEOF := by
  cases it with
  | name cs => simp [Item.type]; decide
  | kw sp ty => exact item_type_ne_eof (.kw sp ty) hw
  | punct ch ty => exact item_type_ne_eof (.punct ch ty) hw
  | op sp ty => exact item_type_ne_eof (.op sp ty) hw
  | quoted cs => exact item_type_ne_eof (.quoted cs) hw
  | text q t => exact item_type_ne_eof (.text q t) hw
  | cmt c => simp [Item.type]; decide

theorem elToks_types (ind : Indent) : ∀ (els : List El) (pos : Nat), WFEls ind els →
    ∀ t ∈ elToks ind pos els, t.type ≠ cTypeEOF := by
  intro els
  induction els with
  | nil => intro _ _ t ht; simp [elToks] at ht
  | cons e es ih =>
    intro pos hw t ht
    cases e with
    | tok it =>
      simp only [elToks, List.mem_cons] at ht
      rcases ht with rfl | ht
      · exact item_type_ne_eof0 it hw.1
      · exact ih _ hw.2.2 t ht
    | ws x => exact ih _ hw.2 t ht
    | br b k => exact ih _ hw.2.2 t ht
    | lit q x =>
      simp only [elToks, List.mem_cons] at ht
      rcases ht with rfl | ht
      · cases q <;> simp [Literal.Quote.type] <;> decide
      · exact ih _ hw.2 t ht
    | mcmt m =>
      simp only [elToks, List.mem_cons] at ht
      rcases ht with rfl | ht
      · show cTypeComment ≠ cTypeEOF; decide
      · exact ih _ hw.2 t ht

end ZnVerif.Proofs.RenderLex
