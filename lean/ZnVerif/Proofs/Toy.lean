/-
A toy number structure and tiny VM states, used only by the non-vacuity `example`s of C06Eval / C08 / C09
(the theorems themselves hold for every `NumOps ν`).
-/
import ZnVerif.Model.Interp

namespace ZnVerif.Proofs.Toy
open ZnVerif.Model

instance toyNum : NumOps Int where
  add := (· + ·)
  sub := (· - ·)
  mul := (· * ·)
  div := (· / ·)
  floor := id
  ceil := id
  sqrt := id
  eq := (· == ·)
  lt := (· < ·)
  gt := (· > ·)
  le := (· ≤ ·)
  ge := (· ≥ ·)
  isZero := (· == 0)
  leZero := (· ≤ 0)
  ofInt := id
  toInt := id
  parse := fun _ => 0
  fmt := fun _ => "n"

/-- main module 0 with an empty scope, the script frame, one 异常 value at address 0 and 空 at 1 -/
def s0 : VM Int :=
  { heap := #[.exc "boom", .null],
    scopes := [(0, {})],
    stack := [{ moduleId := 0, callType := 1 }],
    csModuleID := 0,
    modules := #[{ name := "主模块", hasProgram := true }] }

/-- `s0` after a call into module 0 failed: its frame is still on the stack -/
def s0Failed : VM Int := { s0 with stack := { moduleId := 0, callType := 2 } :: s0.stack }

/-- a program that has declared `如何f？ 输出 “x”`: the method value at address 0, bound (constant) in module 0 -/
def sF : VM Int :=
  { s0 with
    heap := #[.fn (.user (some (.mk [] (some [.ret 0 (.str 0 "x")]) [])))],
    scopes := [(0, { syms := [{ name := "f", depth := 0, isConst := true, ext := none, val := 0 }], depth := 0 })] }

/-- a number cell at address 0 -/
def sN : VM Int := { s0 with heap := #[.num 5] }

/-- type 点 (address 0) with default property x = 5 (address 1) and a user constructor with an empty body -/
def sC : VM Int :=
  { s0 with heap := #[.cls "点" (.user 0 (some (.mk [] (some []) []))) [("x", 1)] [], .num 5] }

/-- type 点 without methods (address 0, bound in module 0) and one instance (address 1) -/
def sO : VM Int :=
  { s0 with
    heap := #[.cls "点" .default [] [], .obj 0 []],
    scopes := [(0, { syms := [{ name := "点", depth := 0, isConst := true, ext := none, val := 0 }], depth := 0 })] }

/-- the global 显示 (address 0) -/
def sD : VM Int := { s0 with heap := #[.fn .display], globals := [("显示", 0)] }

/-- a program that has declared `如何g？ 结束循环` -/
def sG : VM Int :=
  { s0 with
    heap := #[.fn (.user (some (.mk [] (some [.break 0]) [])))],
    scopes := [(0, { syms := [{ name := "g", depth := 0, isConst := true, ext := none, val := 0 }], depth := 0 })] }

/-- type 点 (0), numbers (1, 2), an instance of 点 with property x = cell 2 (address 3) -/
def sP : VM Int := { s0 with heap := #[.cls "点" .default [("x", 1)] [], .num 5, .num 5, .obj 0 [("x", 2)]] }

end ZnVerif.Proofs.Toy
