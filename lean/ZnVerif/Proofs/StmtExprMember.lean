/-
Token-level round trip with layout, part 2b: expressions — identifiers, texts, `{ e }`, `其 p`, and the steps of a member chain
(`之 p`, `# i`, `# "s"`, `# { e }`).
-/
import ZnVerif.Proofs.StmtExprBase

namespace ZnVerif.Proofs.StmtRT
open ZnVerif.Model ZnVerif.Model.Parser ZnVerif.Generated.Tokens ZnVerif.Generated.ParserTables
open ZnVerif.Spec.StmtSyntax

variable {Y : Layout} {v : Variant}

theorem Send_single (t : Token) (rest : List Token) : Send Y [t] rest = S Y (some t) rest (Y.brk t (Y.peek rest)) := rfl

theorem case_id (t : Token) (ht : t.type = cTypeIdentifier) : C7 v Y (.id (Y.idOf t)) [t] := by
  refine c7_of_basic_plain _ [t] (by simp) (by show t.type ∈ _; rw [ht]; decide) 2 (by unfold D; simp) ?_
  intro p1 rest ho _ n' hn
  obtain ⟨m, rfl⟩ : ∃ m, n' = m + 2 := ⟨n' - 2, by omega⟩
  have e0 : [t] ++ rest = t :: rest := rfl
  rw [e0] at ho ⊢
  show pBasic v (layoutOps Y) (m + 1) _ _ = _
  unfold pBasic
  rw [bind_ok (tryConsume_hit m _ p1 t rest (by rw [ht]; decide) (by rw [ht]; decide) ho)]
  simp only [ht, if_true]
  rfl

theorem case_str (t : Token) (ht : t.type = cTypeString) : C7 v Y (.str (Y.sl t) (runesToString t.literal)) [t] := by
  refine c7_of_basic_plain _ [t] (by simp) (by show t.type ∈ _; rw [ht]; decide) 2 (by unfold D; simp) ?_
  intro p1 rest ho _ n' hn
  obtain ⟨m, rfl⟩ : ∃ m, n' = m + 2 := ⟨n' - 2, by omega⟩
  have e0 : [t] ++ rest = t :: rest := rfl
  rw [e0] at ho ⊢
  show pBasic v (layoutOps Y) (m + 1) _ _ = _
  unfold pBasic
  rw [bind_ok (tryConsume_hit m _ p1 t rest (by rw [ht]; decide) (by rw [ht]; decide) ho)]
  have h1 : ¬ cTypeString = cTypeIdentifier := by decide
  simp only [ht, h1, if_true, if_false]
  rfl

theorem getLast?_brace (l r : Token) (ts : List Token) : (l :: ts ++ [r]).getLast? = some r := by
  have : l :: ts ++ [r] = (l :: ts) ++ [r] := rfl
  rw [this, List.getLast?_append]
  rfl

/-- an inner expression `e` (where `=` assigns) between an opening token and the closing token `r` that stops it -/
theorem inner_expr {e : Expr} {ts : List Token} (Ce : C1 v Y true e ts) (r : Token) (hrc : r.type ≠ cTypeCommaSep)
    (hr1 : r.type ∉ B1 true) (hrp : r.type ≠ cTypePauseCommaSep) (p1 : Option Token) (rest : List Token)
    (ho : Y.InOrder (ts ++ r :: rest)) (hg : Y.Glued (ts ++ [r])) (m : Nat) (hm : 16 * ts.length + 16 ≤ m) :
    parse v (layoutOps Y) m (.expr true) (S Y p1 (ts ++ r :: rest) false) = .ok e (S Y ts.getLast? (r :: rest) false) := by
  have hs : Stop Y (B1 true ++ FO e) ts (r :: rest) := ⟨hrc, Or.inr (not_mem_BFO hr1 hrp)⟩
  rw [c1_done Ce p1 (r :: rest) ho (glued_take ts hg) hs m hm]
  show Res.ok e (S Y ts.getLast? (r :: rest) (Y.jf ts.getLast? r)) = _
  rw [glued_joint ts hg]

/-- `{ e }` -/
theorem case_brace (l r : Token) (e : Expr) (ts : List Token) (hl : l.type = cTypeStmtQuoteL) (hr : r.type = cTypeStmtQuoteR)
    (Fe : Facts Y ts) (Ce : C1 v Y true e ts) : C7 v Y (e.setLine (Y.sl l)) (l :: ts ++ [r]) := by
  refine c7_of_basic_plain _ _ (by simp) (by show l.type ∈ _; rw [hl]; decide) (16 * ts.length + 18)
    (by unfold D; simp only [List.length_append, List.length_cons, List.length_nil]; omega) ?_
  intro p1 rest ho hg n' hn
  obtain ⟨m, rfl⟩ : ∃ m, n' = m + 2 := ⟨n' - 2, by omega⟩
  have hshape : (l :: ts ++ [r]) ++ rest = l :: (ts ++ r :: rest) := by simp
  rw [hshape] at ho ⊢
  have hgl : Y.Glued (l :: ts) := glued_take (l :: ts) (b := [r]) hg
  have hgr : Y.Glued (ts ++ r :: []) := glued_tail (t := l) hg
  have hoi : Y.InOrder (ts ++ r :: rest) := inOrder_tail ho
  have hor : Y.InOrder (r :: rest) := inOrder_drop ts hoi
  have hrc : r.type ≠ cTypeCommaSep := by rw [hr]; decide
  show pBasic v (layoutOps Y) (m + 1) _ _ = _
  unfold pBasic
  rw [bind_ok (tryConsume_hit m _ p1 l (ts ++ r :: rest) (by rw [hl]; decide) (by rw [hl]; decide) ho), brk_mid Fe.ne hgl]
  have h1 : ¬ cTypeStmtQuoteL = cTypeIdentifier := by decide
  have h2 : ¬ cTypeStmtQuoteL = cTypeString := by decide
  have h3 : ¬ cTypeStmtQuoteL = cTypeArrayQuoteL := by decide
  simp only [hl, h1, h2, h3, if_true, if_false]
  have hin := inner_expr Ce r hrc (by rw [hr]; decide) (by rw [hr]; decide) (some l) rest hoi hgr (m + 1) (by omega)
  have hcons := consume_hit (Y := Y) (v := v) m [cTypeStmtQuoteR] ts.getLast? r rest (by simp [hr]) hrc hor
  have hfin : Send Y (l :: ts ++ [r]) rest = S Y (some r) rest (Y.brk r (Y.peek rest)) := by
    unfold Send
    rw [getLast?_brace]
    rfl
  rw [hfin]
  simp only [Bind.bind, PM.bind, hin, hcons, lineOf_S, Pure.pure, PM.pure]

/-- `calleeTailParser` on an identifier -/
theorem calleeTail_hit (m : Nat) (hasRoot : Bool) (rt : Nat) (root : Expr) (p1 : Option Token) (p : Token) (r : List Token)
    (hp : p.type = cTypeIdentifier) (ho : Y.InOrder (p :: r)) :
    calleeTail v (layoutOps Y) (m + 1) hasRoot rt root (S Y p1 (p :: r) false) =
      .ok (.member (Y.sl p) rt (if hasRoot then root else .nil) cMemberID (some (Y.idOf p)) .nil)
        (S Y (some p) r (Y.brk p (Y.peek r))) := by
  unfold calleeTail
  rw [bind_ok (tryConsume_hit m _ p1 p r (by simp [hp]) (by rw [hp]; decide) ho)]
  rfl

/-- `其 p` -/
theorem case_this (kw p : Token) (hk : kw.type = cTypeObjThisW) (hp : p.type = cTypeIdentifier) :
    C7 v Y (.member (Y.sl p) cRootTypeProp .nil cMemberID (some (Y.idOf p)) .nil) [kw, p] := by
  intro cm hcm p1 rest r n hn1 ho hg hs K n' hn
  obtain ⟨m, rfl⟩ : ∃ m, n' = m + 2 := ⟨n' - 2, by unfold D at hn; omega⟩
  have e0 : [kw, p] ++ (cm ++ rest) = kw :: p :: (cm ++ rest) := rfl
  rw [e0] at ho ⊢
  have hgk : Y.Glued [kw, p] := glued_take [kw, p] hg
  show pMember v (layoutOps Y) (m + 1) _ _ = _
  unfold pMember
  rw [bind_ok (tryConsume_hit m _ p1 kw _ (by simp [hk]) (by rw [hk]; decide) ho)]
  dsimp only
  have hb : Y.brk kw (Y.peek (p :: (cm ++ rest))) = false := glued_head hgk
  rw [hb]
  rw [bind_ok (calleeTail_hit m false cRootTypeProp .nil (some kw) p _ hp (inOrder_tail ho))]
  have K' := tail_comma (ts := [kw, p]) hcm hg (inOrder_drop [kw, p] ho) hs.1 hn1 K
  exact K' (m + 1) (by unfold D at hn; omega)

/-- `x 之 p` -/
theorem case_dot (d p : Token) (r : Expr) (tr : List Token) (hd : d.type ∈ [cTypeObjDotW, cTypeObjDotIIW])
    (hp : p.type = cTypeIdentifier) (Cr : C7 v Y r tr) :
    C7 v Y (.member (Y.sl p) cRootTypeExpr r cMemberID (some (Y.idOf p)) .nil) (tr ++ [d, p]) := by
  have hdc : d.type ≠ cTypeCommaSep := by
    intro h; rw [h] at hd; revert hd; decide
  have hdm : d.type ∈ [cTypeMapHash, cTypeObjDotW, cTypeObjDotIIW] := List.mem_cons_of_mem _ hd
  have hdh : ¬ d.type = cTypeMapHash := by
    intro h; rw [h] at hd; revert hd; decide
  have hdd : d.type = cTypeObjDotW ∨ d.type = cTypeObjDotIIW := by simpa using hd
  refine c7_step r _ tr [d, p] Cr (by simp) (by show d.type ∈ _; exact hdm) 2 (by simp) ?_
  intro rest' R n hn1 ho hg K n' hn
  obtain ⟨m, rfl⟩ : ∃ m, n' = m + 2 := ⟨n' - 2, by omega⟩
  have e0 : [d, p] ++ rest' = d :: p :: rest' := rfl
  rw [e0] at ho ⊢
  rw [Send_joint tr d _ (glued_joint tr hg)]
  show pMemberTail v (layoutOps Y) (m + 1) _ r _ = _
  unfold pMemberTail
  rw [bind_ok (tryConsume_hit m _ _ d _ hdm hdc ho)]
  dsimp only
  rw [bind_ok (lineOf_S d _)]
  simp only [hdh, hdd, if_false, if_true]
  have hb : Y.brk d (Y.peek (p :: rest')) = false := glued_head (glued_drop tr hg)
  rw [hb]
  rw [bind_ok (calleeTail_hit m true cRootTypeExpr r (some d) p _ hp (inOrder_tail ho))]
  have hS : Send Y (tr ++ [d, p]) rest' = S Y (some p) rest' (Y.brk p (Y.peek rest')) := by
    rw [Send_append tr (by simp : [d, p] ≠ [])]; rfl
  rw [hS] at K
  exact K (m + 1) (by omega)

/-- `x # i`, the index an identifier or a text: the index node `ix` is what `newID` / `newString` make of the token -/
theorem case_idxTok (h i : Token) (r : Expr) (tr : List Token) (ix : Expr) (hh : h.type = cTypeMapHash)
    (hi : (i.type = cTypeIdentifier ∧ ix = .id (Y.idOf i)) ∨ (i.type = cTypeString ∧ ix = .str (Y.sl i) (runesToString i.literal)))
    (Cr : C7 v Y r tr) :
    C7 v Y (.member (Y.sl h) cRootTypeExpr r cMemberIndex none ix) (tr ++ [h, i]) := by
  have hic : i.type ≠ cTypeCommaSep ∧ i.type ∈ [cTypeIdentifier, cTypeString, cTypeStmtQuoteL] := by
    rcases hi with ⟨h1, _⟩ | ⟨h1, _⟩ <;> rw [h1] <;> decide
  refine c7_step r _ tr [h, i] Cr (by simp) (by show h.type ∈ _; rw [hh]; decide) 2 (by simp) ?_
  intro rest' R n hn1 ho hg K n' hn
  obtain ⟨m, rfl⟩ : ∃ m, n' = m + 2 := ⟨n' - 2, by omega⟩
  have e0 : [h, i] ++ rest' = h :: i :: rest' := rfl
  rw [e0] at ho ⊢
  rw [Send_joint tr h _ (glued_joint tr hg)]
  show pMemberTail v (layoutOps Y) (m + 1) _ r _ = _
  unfold pMemberTail
  rw [bind_ok (tryConsume_hit m _ _ h _ (by rw [hh]; decide) (by rw [hh]; decide) ho)]
  dsimp only
  rw [bind_ok (lineOf_S h _)]
  simp only [hh, if_true]
  have hb : Y.brk h (Y.peek (i :: rest')) = false := glued_head (glued_drop tr hg)
  rw [hb, bind_ok (tryConsume_hit m _ (some h) i _ hic.2 hic.1 (inOrder_tail ho))]
  dsimp only
  have hS : Send Y (tr ++ [h, i]) rest' = S Y (some i) rest' (Y.brk i (Y.peek rest')) := by
    rw [Send_append tr (by simp : [h, i] ≠ [])]; rfl
  rw [hS] at K
  rcases hi with ⟨h1, rfl⟩ | ⟨h1, rfl⟩
  · simp only [h1, if_true]
    rw [bind_ok (show (newID (layoutOps Y) i >>= fun i => pure (Expr.id i)) _ = .ok (Expr.id (Y.idOf i)) _ from rfl)]
    exact K (m + 1) (by omega)
  · have hne : ¬ cTypeString = cTypeIdentifier := by decide
    simp only [h1, hne, if_true, if_false]
    rw [bind_ok (show newString (layoutOps Y) i _ = .ok (Expr.str (Y.sl i) (runesToString i.literal)) _ from rfl)]
    exact K (m + 1) (by omega)

/-- `x # { e }` -/
theorem case_idxExpr (h l rb : Token) (r : Expr) (tr : List Token) (e : Expr) (te : List Token) (hh : h.type = cTypeMapHash)
    (hl : l.type = cTypeStmtQuoteL) (hr : rb.type = cTypeStmtQuoteR) (Cr : C7 v Y r tr) (Fe : Facts Y te)
    (Ce : C1 v Y true e te) :
    C7 v Y (.member (Y.sl h) cRootTypeExpr r cMemberIndex none e) (tr ++ h :: l :: te ++ [rb]) := by
  have hshape : tr ++ h :: l :: te ++ [rb] = tr ++ (h :: l :: te ++ [rb]) := by simp
  rw [hshape]
  refine c7_step r _ tr (h :: l :: te ++ [rb]) Cr (by simp) (by show h.type ∈ _; rw [hh]; decide) (16 * te.length + 20)
    (by simp only [List.length_append, List.length_cons, List.length_nil]; omega) ?_
  intro rest' R n hn1 ho hg K n' hn
  obtain ⟨m, rfl⟩ : ∃ m, n' = m + 2 := ⟨n' - 2, by omega⟩
  have e0 : (h :: l :: te ++ [rb]) ++ rest' = h :: l :: (te ++ rb :: rest') := by simp
  rw [e0] at ho ⊢
  have hgs : Y.Glued (h :: l :: te ++ [rb]) := glued_drop tr hg
  have hrc : rb.type ≠ cTypeCommaSep := by rw [hr]; decide
  rw [Send_joint tr h _ (glued_joint tr hg)]
  show pMemberTail v (layoutOps Y) (m + 1) _ r _ = _
  unfold pMemberTail
  rw [bind_ok (tryConsume_hit m _ _ h _ (by rw [hh]; decide) (by rw [hh]; decide) ho)]
  dsimp only
  rw [bind_ok (lineOf_S h _)]
  simp only [hh, if_true]
  have hb : Y.brk h (Y.peek (l :: (te ++ rb :: rest'))) = false := glued_head hgs
  have ho1 := inOrder_tail ho
  rw [hb, bind_ok (tryConsume_hit m _ (some h) l _ (by rw [hl]; decide) (by rw [hl]; decide) ho1)]
  dsimp only
  have hn1' : ¬ cTypeStmtQuoteL = cTypeIdentifier := by decide
  have hn2' : ¬ cTypeStmtQuoteL = cTypeString := by decide
  simp only [hl, hn1', hn2', if_false, if_true]
  have hgl : Y.Glued (l :: te ++ [rb]) := glued_tail hgs
  have hb2 : Y.brk l (Y.peek (te ++ rb :: rest')) = false := brk_mid Fe.ne (glued_take (l :: te) (b := [rb]) hgl) _
  rw [hb2]
  have hoi := inOrder_tail ho1
  have hin := inner_expr Ce rb hrc (by rw [hr]; decide) (by rw [hr]; decide) (some l) rest' hoi (glued_tail hgl) (m + 1) (by omega)
  have hcons := consume_hit (Y := Y) (v := v) m [cTypeStmtQuoteR] te.getLast? rb rest' (by simp [hr]) hrc (inOrder_drop te hoi)
  have hS : Send Y (tr ++ (h :: l :: te ++ [rb])) rest' = S Y (some rb) rest' (Y.brk rb (Y.peek rest')) := by
    rw [Send_append tr (by simp : h :: l :: te ++ [rb] ≠ [])]
    unfold Send
    rw [show (h :: l :: te ++ [rb]).getLast? = some rb from by
      rw [show h :: l :: te ++ [rb] = (h :: l :: te) ++ [rb] from rfl, getLast?_snoc]]
    rfl
  rw [hS] at K
  simp only [Bind.bind, PM.bind, hin, hcons, Pure.pure, PM.pure]
  exact K (m + 1) (by omega)

end ZnVerif.Proofs.StmtRT
