/-
C02 refinement, the calculus: `SimS V T B s σ m m'` relates a model computation `m` from `s` with a spec
computation `m'` from `σ` when both states may change.  Outcomes (`SOut`):
  model `.ok a`  ↔ spec `.ok v`   with `V s' σ' a v`   (normal completion)
  model `.ok _`  ↔ spec `.ret v`  with `T s' σ' v`     (输出 executed: the model has only set the frame's
                                                         return slot and goes on, the spec propagates `.ret`)
  model signal   ↔ spec `.brk` / `.cont` with `B s' σ'`
  model `.err (.rt c)` ↔ spec `.raise (.fault (specCode c))`,  `.err (.sem c)` ↔ `.fatal c`.
No claim is made when the spec says `unspecified`, or when either side runs out of fuel (model and
spec spend fuel at different rates: the spec's `runStmts` takes a unit per block, the model's display
call three units).
-/
import ZnVerif.Proofs.ExprRefine
import ZnVerif.Proofs.ExprMono
set_option linter.unusedSectionVars false
set_option linter.unusedSimpArgs false

namespace ZnVerif.Proofs
open ZnVerif.Model ZnVerif.Spec

variable {ν : Type} [NumOps ν]

inductive SOut {α α' : Type} (V : VM ν → SState ν → α → α' → Prop) (T : VM ν → SState ν → α → SVal ν → Prop)
    (B : VM ν → SState ν → Prop) (s : VM ν) (σ : SState ν) : Res α → R ν α' → Prop
  | ok {a v} : V s σ a v → SOut V T B s σ (.ok a) (.ok v)
  | ret {a v} : T s σ a v → SOut V T B s σ (.ok a) (.ret v)
  | brk : B s σ → SOut V T B s σ (.err .sigBreak) .brk
  | cont : B s σ → SOut V T B s σ (.err .sigContinue) .cont
  | rt (c : Nat) : SOut V T B s σ (.err (.rt c)) (.raise (.fault (specCode c)))
  | sem (c : Nat) : SOut V T B s σ (.err (.sem c)) (.fatal c)

def SimS {α α' : Type} (V : VM ν → SState ν → α → α' → Prop) (T : VM ν → SState ν → α → SVal ν → Prop)
    (B : VM ν → SState ν → Prop) (s : VM ν) (σ : SState ν) (m : M ν α) (m' : SM ν α') : Prop :=
  (m' σ).1 = .unspecified ∨ (m' σ).1 = .fuel ∨ (m s).1 = .fuel ∨ SOut V T B (m s).2 (m' σ).2 (m s).1 (m' σ).1

section rules
variable {α α' β β' : Type}
  {V : VM ν → SState ν → α → α' → Prop} {T : VM ν → SState ν → α → SVal ν → Prop} {B : VM ν → SState ν → Prop}
  {V2 : VM ν → SState ν → β → β' → Prop} {T2 : VM ν → SState ν → β → SVal ν → Prop} {B2 : VM ν → SState ν → Prop}
  {s : VM ν} {σ : SState ν}

theorem simS_intro {m : M ν α} {m' : SM ν α'} {r s' r' σ'} (h1 : m s = (r, s')) (h2 : m' σ = (r', σ'))
    (h : r' = .unspecified ∨ r' = .fuel ∨ r = .fuel ∨ SOut V T B s' σ' r r') : SimS V T B s σ m m' := by
  unfold SimS; rw [h1, h2]; exact h

theorem simS_elim {m : M ν α} {m' : SM ν α'} (h : SimS V T B s σ m m') :
    ∃ r s' r' σ', m s = (r, s') ∧ m' σ = (r', σ') ∧
      (r' = .unspecified ∨ r' = .fuel ∨ r = .fuel ∨ SOut V T B s' σ' r r') :=
  ⟨_, _, _, _, rfl, rfl, h⟩

/-- sequencing.  `hT`: once the spec has returned (`T`), the rest of the model computation must come to a
normal end keeping the returned state (`T2`) -/
theorem simS_bind {m : M ν α} {m' : SM ν α'} {f : α → M ν β} {f' : α' → SM ν β'}
    (h1 : SimS V T B s σ m m')
    (h2 : ∀ s1 σ1 a v, V s1 σ1 a v → SimS V2 T2 B2 s1 σ1 (f a) (f' v))
    (hT : ∀ s1 σ1 a v, T s1 σ1 a v → (f a s1).1 = .fuel ∨ ∃ b s2, f a s1 = (.ok b, s2) ∧ T2 s2 σ1 b v)
    (hB : ∀ s1 σ1, B s1 σ1 → B2 s1 σ1) :
    SimS V2 T2 B2 s σ (m >>= f) (m' >>= f') := by
  obtain ⟨r, s1, r', σ1, hm, hm', h⟩ := simS_elim h1
  unfold SimS
  rw [M.bind_def, SM.bind_def, hm, hm']
  rcases h with rfl | rfl | rfl | h
  · exact .inl rfl
  · exact .inr (.inl rfl)
  · exact .inr (.inr (.inl rfl))
  · cases h with
    | ok hv => exact h2 _ _ _ _ hv
    | ret ht =>
      rename_i a v
      rcases hT _ _ a v ht with hf | ⟨b, s2, hf, ht2⟩
      · exact .inr (.inr (.inl hf))
      · simp only [hf]; exact .inr (.inr (.inr (.ret ht2)))
    | brk hb => exact .inr (.inr (.inr (.brk (hB _ _ hb))))
    | cont hb => exact .inr (.inr (.inr (.cont (hB _ _ hb))))
    | rt c => exact .inr (.inr (.inr (.rt c)))
    | sem c => exact .inr (.inr (.inr (.sem c)))

theorem simS_pure {a : α} {v : α'} (h : V s σ a v) : SimS V T B s σ (pure a) (pure v) :=
  .inr (.inr (.inr (.ok h)))

theorem simS_rt (c c' : Nat) (h : c' = specCode c) : SimS V T B s σ (rtErr c) (fault c') := by
  subst h; exact .inr (.inr (.inr (.rt c)))

theorem simS_unspec {m : M ν α} : SimS V T B s σ m unspec := .inl rfl

theorem simS_specFuel {m : M ν α} : SimS V T B s σ m (sfail .fuel) := .inr (.inl rfl)

theorem simS_modelFuel {m' : SM ν α'} : SimS V T B s σ outOfFuel m' := .inr (.inr (.inl rfl))

theorem simS_left {m m2 : M ν α} {m' : SM ν α'} (h : m s = m2 s) (h2 : SimS V T B s σ m2 m') : SimS V T B s σ m m' := by
  unfold SimS at h2 ⊢; rw [h]; exact h2

/-- a model-only step to another state -/
theorem simS_step {s0 : VM ν} {m m2 : M ν α} {m' : SM ν α'} (h : m s = m2 s0) (h2 : SimS V T B s0 σ m2 m') : SimS V T B s σ m m' := by
  unfold SimS at h2 ⊢; rw [h]; exact h2

theorem simS_right {m : M ν α} {m' m2' : SM ν α'} (h : m' σ = m2' σ) (h2 : SimS V T B s σ m m2') : SimS V T B s σ m m' := by
  unfold SimS at h2 ⊢; rw [h]; exact h2

theorem simS_weaken {V' : VM ν → SState ν → α → α' → Prop} {T' : VM ν → SState ν → α → SVal ν → Prop} {B' : VM ν → SState ν → Prop}
    {m : M ν α} {m' : SM ν α'}
    (hV : ∀ s σ a v, V s σ a v → V' s σ a v) (hT : ∀ s σ a v, T s σ a v → T' s σ a v) (hB : ∀ s σ, B s σ → B' s σ)
    (h : SimS V T B s σ m m') : SimS V' T' B' s σ m m' := by
  unfold SimS at h ⊢
  rcases h with h | h | h | h
  · exact .inl h
  · exact .inr (.inl h)
  · exact .inr (.inr (.inl h))
  · refine .inr (.inr (.inr ?_))
    generalize (m s).1 = r, (m' σ).1 = r' at h
    cases h with
    | ok h => exact .ok (hV _ _ _ _ h)
    | ret h => exact .ret (hT _ _ _ _ h)
    | brk h => exact .brk (hB _ _ h)
    | cont h => exact .cont (hB _ _ h)
    | rt c => exact .rt c
    | sem c => exact .sem c

theorem simS_getCell {a : Addr} {c : Cell ν} {K : Cell ν → M ν α} {m' : SM ν α'}
    (hc : s.heap[a]? = some c) (h : SimS V T B s σ (K c) m') : SimS V T B s σ (getCell a >>= K) m' :=
  simS_left (getCell_bind K hc) h

end rules

/-! ### expressions inside statements: different fuels on the two sides -/

/-- from the same-fuel expression simulation (exact when the environment is scalar) and the model's fuel
monotonicity: the model at a larger fuel against the spec -/
theorem simS_of_sim {Q : VM ν → Addr → SVal ν → Prop} {T : VM ν → SState ν → Addr → SVal ν → Prop} {B : VM ν → SState ν → Prop}
    {s : VM ν} {σ : SState ν} {n m : Nat} {e : Expr}
    (h : Sim 0 Q s σ (evalExpr m e) (evalE m e)) (hle : m ≤ n) (he : PureExpr e) :
    SimS (fun s' σ' a v => σ' = σ ∧ Frame s s' ∧ Q s' a v) T B s σ (evalExpr n e) (evalE m e) := by
  obtain ⟨r', hm', h⟩ := h
  rcases h with rfl | ⟨r, s1, hm, hF, hO⟩
  · exact .inl (by rw [hm'])
  · cases hO with
    | ok hq =>
      have := evalExpr_mono_le hle e he s _ _ hm (by simp)
      exact simS_intro this hm' (.inr (.inr (.inr (.ok ⟨rfl, hF, hq⟩))))
    | rt c =>
      have := evalExpr_mono_le hle e he s _ _ hm (by simp)
      exact simS_intro this hm' (.inr (.inr (.inr (.rt c))))
    | sem c =>
      have := evalExpr_mono_le hle e he s _ _ hm (by simp)
      exact simS_intro this hm' (.inr (.inr (.inr (.sem c))))
    | fuel => exact .inr (.inl (by rw [hm']))
    | fuelCmp hd => exact absurd rfl hd

end ZnVerif.Proofs
