/-
C02 refinement: the display call `（显示：…）` — `execDirectFunction` on the global 显示 pushes a native
frame, emits the joined `display` strings, allocates 空, pops the frame; the spec emits the joined `showV`.
-/
import ZnVerif.Proofs.StmtRefineSimple
set_option linter.unusedSectionVars false
set_option linter.unusedSimpArgs false

namespace ZnVerif.Proofs
open ZnVerif.Model ZnVerif.Spec

variable {ν : Type} [NumOps ν]

/-- the state after `pushFrame fr` -/
def pushS (fr : Model.Frame) (s : VM ν) : VM ν :=
  match getScope fr.moduleId { s with stack := fr :: s.stack, csModuleID := fr.moduleId } with
  | some _ => { s with stack := fr :: s.stack, csModuleID := fr.moduleId }
  | none => putScope fr.moduleId {} { s with stack := fr :: s.stack, csModuleID := fr.moduleId }

theorem pushFrame_eq (fr : Model.Frame) (s : VM ν) : pushFrame fr s = (.ok (), pushS fr s) := by
  simp only [pushFrame, modifyVM, pushS]
  split <;> rename_i h <;> simp only [h]

theorem pushS_fields (fr : Model.Frame) (s : VM ν) :
    (pushS fr s).heap = s.heap ∧ (pushS fr s).globals = s.globals ∧ (pushS fr s).stack = fr :: s.stack ∧
    (pushS fr s).out = s.out := by
  unfold pushS
  split
  · exact ⟨rfl, rfl, rfl, rfl⟩
  · obtain ⟨f1, f2, f3, _, f5⟩ := putScope_fields { s with stack := fr :: s.stack, csModuleID := fr.moduleId } fr.moduleId {}
    exact ⟨f1, f2, f3, f5⟩

theorem getScope_congr (s s' : VM ν) (h : s'.scopes = s.scopes) (m : Int) : getScope m s' = getScope m s := by
  simp only [getScope, h]

/-- pushing a frame keeps every scope that was there -/
theorem getScope_pushS (fr : Model.Frame) (s : VM ν) (m : Int) (sc : Scope) (h : getScope m s = some sc) :
    getScope m (pushS fr s) = some sc := by
  unfold pushS
  split
  · exact (getScope_congr s _ rfl m).trans h
  · rename_i hn
    unfold putScope
    have hn' : getScope fr.moduleId s = none := (getScope_congr _ s rfl _).symm.trans hn
    have hany : ({ s with stack := fr :: s.stack, csModuleID := fr.moduleId } : VM ν).scopes.any (·.1 == fr.moduleId) = false := by
      simp only [getScope] at hn'
      cases hf : s.scopes.find? (·.1 == fr.moduleId) with
      | some p => rw [hf] at hn'; cases hn'
      | none =>
        have := List.find?_eq_none.1 hf
        simp only [List.any_eq_false]
        intro x hx; exact this x hx
    simp only [hany, Bool.false_eq_true, if_false, getScope, List.find?_append]
    simp only [getScope] at h
    cases hf : s.scopes.find? (·.1 == m) with
    | some p => rw [hf] at h; simpa using h
    | none => rw [hf] at h; cases h

/-- the final state of a display call from `s` that shows `line` -/
def shownS (line : String) (s : VM ν) : VM ν :=
  { pushS { moduleId := -1, callType := 2 } s with
    heap := s.heap.push .null, out := line :: s.out, stack := s.stack, csModuleID := s.csModuleID }

def nativeFr : Model.Frame := { moduleId := -1, callType := 2 }

def execOut (s : VM ν) : Res (List String) → Res Addr × VM ν
  | .ok strs => (.ok s.heap.size, { pushS nativeFr s with
          heap := s.heap.push .null, out := Model.joinWith " " strs :: s.out })
  | .fuel => (.fuel, pushS nativeFr s)
  | .err e => (.err e, pushS nativeFr s)
  | .panic => (.panic, pushS nativeFr s)
  | .unmodelled => (.unmodelled, pushS nativeFr s)

def callOut (s : VM ν) : Res (List String) → Res Addr × VM ν
  | .ok strs => (.ok s.heap.size, shownS (Model.joinWith " " strs) s)
  | .fuel => (.fuel, pushS nativeFr s)
  | .err e => (.err e, pushS nativeFr s)
  | .panic => (.panic, pushS nativeFr s)
  | .unmodelled => (.unmodelled, pushS nativeFr s)

/-- the call, given how the arguments are displayed by `display k` -/
theorem display_call_gen {ω : Addr → Option (SVal ν)} {mid : Int} {D ds} {s : VM ν} {σ : SState ν}
    (hst : StRel ω mid D ds s σ) (k : Nat) (vals : List Addr) (r : Res (List String))
    (hmap : vals.mapM (display k) (pushS { moduleId := -1, callType := 2 } s) = (r, pushS { moduleId := -1, callType := 2 } s)) :
    execDirectFunction (k+2) "显示" vals s = callOut s r := by
  obtain ⟨a, hg, hcell⟩ := hst.display
  obtain ⟨fr0, rest, hstack, hmod⟩ := hst.stack
  obtain ⟨f1, f2, f3, f4⟩ := pushS_fields { moduleId := -1, callType := 2 } s
  have hfind : findElementWithModule "显示" s = (.ok (a, -1), s) := by
    simp only [findElementWithModule, M.bind_def, getVM, hg]; rfl
  have hcell' : (pushS { moduleId := -1, callType := 2 } s).heap[a]? = some (.fn .display) := by rw [f1]; exact hcell
  have hexec : execFunction (k+1) .display none vals (pushS { moduleId := -1, callType := 2 } s) = execOut s r := by
    simp only [execFunction]
    rw [M.bind_def, hmap]
    cases r <;> simp only [emit, modifyVM, M.bind_def, newNull, alloc, f1, f4, execOut, nativeFr]
  rw [execDirectFunction, M.bind_def, hfind]
  simp only []
  rw [M.bind_def, pushFrame_eq]
  simp only []
  rw [getCell_bind _ hcell']
  simp only []
  rw [M.bind_def, hexec]
  cases r <;> simp only [execOut, callOut, nativeFr, M.bind_def, popFrame, f3, hstack, hmod, shownS] <;> rfl

theorem display_call_eq {ω : Addr → Option (SVal ν)} {mid : Int} {D ds} {s : VM ν} {σ : SState ν}
    (hst : StRel ω mid D ds s σ) (j : Nat) {vals : List Addr} {args : List (SVal ν)}
    (hv : Forall2 (fun a v => contentW ω 1 s.heap a = some v) vals args) :
    execDirectFunction (j+3) "显示" vals s =
      (.ok s.heap.size, shownS (Model.joinWith " " (args.map (showV σ.objs 64))) s) := by
  obtain ⟨f1, f2, f3, f4⟩ := pushS_fields { moduleId := -1, callType := 2 } s
  have hω' : ∀ a v, ω a = some v → isOpaque v = true →
      ∃ c, (pushS { moduleId := -1, callType := 2 } s).heap[a]? = some c ∧ OpaqueShow c v := by
    rw [f1]; exact hst.ωok
  have hv' : Forall2 (fun a v => contentW ω 1 (pushS { moduleId := -1, callType := 2 } s).heap a = some v) vals args := by
    rw [f1]; exact hv
  exact display_call_gen hst (j+1) vals _ (display_mapM j σ.objs hω' hv')

/-- with fuel 2 the call works only without arguments -/
theorem display_call_two {ω : Addr → Option (SVal ν)} {mid : Int} {D ds} {s : VM ν} {σ : SState ν}
    (hst : StRel ω mid D ds s σ) (vals : List Addr) :
    (vals = [] ∧ execDirectFunction 2 "显示" vals s = (.ok s.heap.size, shownS (Model.joinWith " " []) s)) ∨
    (execDirectFunction 2 "显示" vals s).1 = .fuel := by
  cases vals with
  | nil => exact .inl ⟨rfl, display_call_gen hst 0 [] (.ok []) rfl⟩
  | cons a rest =>
    refine .inr ?_
    have : (a :: rest).mapM (display (ν := ν) 0) (pushS { moduleId := -1, callType := 2 } s) =
        (.fuel, pushS { moduleId := -1, callType := 2 } s) := by
      rw [List.mapM_cons, M.bind_def]; rfl
    rw [display_call_gen hst 0 (a :: rest) .fuel this]; rfl

theorem display_call_one {ω : Addr → Option (SVal ν)} {mid : Int} {D ds} {s : VM ν} {σ : SState ν}
    (hst : StRel ω mid D ds s σ) (vals : List Addr) : (execDirectFunction 1 "显示" vals s).1 = .fuel := by
  obtain ⟨a, hg, hcell⟩ := hst.display
  obtain ⟨f1, f2, f3, f4⟩ := pushS_fields { moduleId := -1, callType := 2 } s
  have hfind : findElementWithModule "显示" s = (.ok (a, -1), s) := by
    simp only [findElementWithModule, M.bind_def, getVM, hg]; rfl
  have hcell' : (pushS { moduleId := -1, callType := 2 } s).heap[a]? = some (.fn .display) := by rw [f1]; exact hcell
  rw [execDirectFunction, M.bind_def, hfind]
  simp only []
  rw [M.bind_def, pushFrame_eq]
  simp only []
  rw [getCell_bind _ hcell']
  simp only [execFunction, M.bind_def, outOfFuel]

theorem shownS_fields (line : String) (s : VM ν) :
    (shownS line s).heap = s.heap.push .null ∧ (shownS line s).globals = s.globals ∧ (shownS line s).stack = s.stack ∧
    (shownS line s).csModuleID = s.csModuleID ∧ (shownS line s).out = line :: s.out ∧
    (shownS line s).scopes = (pushS { moduleId := -1, callType := 2 } s).scopes :=
  ⟨rfl, (pushS_fields _ s).2.1, rfl, rfl, rfl, rfl⟩

theorem StRel.shown {ω : Addr → Option (SVal ν)} {mid : Int} {D ds} {s : VM ν} {σ : SState ν} (h : StRel ω mid D ds s σ)
    (line : String) : StRel ω mid D ds (shownS line s) { σ with out := line :: σ.out } := by
  obtain ⟨f1, f2, f3, f4, f5, f6⟩ := shownS_fields line s
  have hle : HeapLe s.heap (shownS line s).heap := by rw [f1]; exact HeapLe.push _ _
  refine ⟨by rw [f4]; exact h.cs, ?_, ?_, ?_, ?_, ?_, ?_⟩
  · intro name
    have := h.globals name
    rw [f2]
    cases h1 : lookup name s.globals <;> cases h2 : predefVal (ν := ν) name <;> simp only [h1, h2] at this ⊢
    exact contentW_heap hle this
  · obtain ⟨sc, h1, h2, h3⟩ := h.scope
    refine ⟨sc, ?_, h2, h3.heap hle⟩
    rw [f4, getScope_congr _ _ f6]
    exact getScope_pushS _ s _ sc h1
  · rw [f3, f4]; exact h.stack
  · simp only [f5, h.out]
  · obtain ⟨a, h1, h2⟩ := h.display
    exact ⟨a, by rw [f2]; exact h1, hle _ _ h2⟩
  · intro a v h1 h2
    obtain ⟨c, h3, h4⟩ := h.ωok a v h1 h2
    exact ⟨c, hle _ _ h3, h4⟩

section
variable {ω : Addr → Option (SVal ν)} {mid : Int} {D : Int} {ds : List Int}

theorem Inv.rebase {h0} {s : VM ν} {σ : SState ν} (h : Inv ω mid D ds h0 s σ) : Inv ω mid D ds s.heap s σ :=
  ⟨h.1, HeapLe.refl _, h.2.2⟩

theorem Inv.trans {h0} {s s' : VM ν} {σ σ' : SState ν} (h : Inv ω mid D ds h0 s σ) (h' : Inv ω mid D ds s.heap s' σ') :
    Inv ω mid D ds h0 s' σ' := ⟨h'.1, h.2.1.trans h'.2.1, h'.2.2⟩

/-- the arguments of the display call, left to right -/
theorem simS_args {n m : Nat} (hle : m ≤ n) : ∀ (params : List Expr) (s : VM ν) (σ : SState ν),
    (∀ p ∈ params, PureExpr p ∧ TopScalar p) → Inv ω mid D ds s.heap s σ →
    SimS (fun s' σ' as vs => Inv ω mid D ds s.heap s' σ' ∧ Forall2 (fun a v => contentW ω 1 s'.heap a = some v) as vs) NoT NoB
      s σ (params.mapM (evalExpr n)) (params.mapM (evalE m))
  | [], s, σ, _, hinv => by rw [List.mapM_nil, List.mapM_nil]; exact simS_pure ⟨hinv, .nil⟩
  | p :: ps, s, σ, hp, hinv => by
    rw [List.mapM_cons, List.mapM_cons]
    refine simS_bind (simS_expr_top hinv hle (hp p List.mem_cons_self).1 (hp p List.mem_cons_self).2)
      (fun s1 σ1 a v ⟨hi1, hc1⟩ => ?_) (fun _ _ _ _ h => h.elim) (fun _ _ h => h.elim)
    refine simS_bind (simS_args hle ps s1 σ1 (fun q hq => hp q (List.mem_cons_of_mem _ hq)) hi1.rebase)
      (fun s2 σ2 as vs ⟨hi2, hall⟩ => ?_) (fun _ _ _ _ h => h.elim) (fun _ _ h => h.elim)
    exact simS_pure ⟨hi1.trans hi2, .cons (contentW_heap hi2.2.1 hc1) hall⟩

theorem sim_display {n m : Nat} {h0} {s : VM ν} {σ : SState ν} (hle : m ≤ n) (ln : Nat) (nm : Ident) (params : List Expr)
    (hnm : nm.lit = "显示") (hp : ∀ p ∈ params, PureExpr p ∧ TopScalar p) (hinv : Inv ω mid D ds h0 s σ) :
    SSim ω mid D ds h0 s σ (evalStmt (n+1) (.expr (.call ln (some nm) params none)))
      (execS (m+1) (.expr (.call ln (some nm) params none))) := by
  simp only [evalStmt, execS]
  refine sSim_line _ _ _ hinv fun s0 hinv0 => ?_
  cases m with
  | zero => simp only [evalE]; exact simS_specFuel
  | succ m =>
  cases n with
  | zero => omega
  | succ n =>
  have hname : tryParseNumber (Model.strCps "显示") = .name := by decide
  have h1 : matchIDName (ν := ν) "显示" = pure "显示" := by
    simp only [matchIDName, matchIDType, hname]; rfl
  have h2 : idName (ν := ν) "显示" = pure "显示" := by
    have : Spec.strCps "显示" = Model.strCps "显示" := rfl
    simp only [idName, classifyId, this, hname]; rfl
  simp only [evalExpr, evalE, matchIDNameOpt, idNameOpt, hnm, h1, h2, pure_bind]
  refine simS_bind (simS_args (Nat.le_of_succ_le_succ hle) params s0 σ hp hinv0.rebase)
    (fun s1 σ1 vals args ⟨hi1, hall⟩ => ?_) (fun _ _ _ _ h => h.elim) (fun _ _ h => h.elim)
  have hi1' := hinv0.trans hi1
  -- the spec side: look the name up, emit the line
  have hl : lookupName (ν := ν) "显示" σ1 = (.ok (.builtinFn "显示"), σ1) := by
    simp only [lookupName, predefVal]; rfl
  -- what is left of the model side once the call has returned `res`
  have hdone : ∀ (line : String), line = Spec.joinWith " " (args.map (showV σ1.objs 64)) →
      SOut (VRel ω mid D ds h0 (PVal ω)) (TRel ω mid D ds h0) (BRel ω mid D ds h0) (shownS line s1)
        { σ1 with out := Spec.joinWith " " (args.map (showV σ1.objs 64)) :: σ1.out } (.ok s1.heap.size) (.ok .null) := by
    intro line hline
    subst hline
    obtain ⟨f1, _, f3, _, _, _⟩ := shownS_fields (Spec.joinWith " " (args.map (showV σ1.objs 64))) s1
    refine .ok ⟨hi1'.1.shown _, ?_, ?_, 1, ?_⟩
    · rw [f1]; exact hi1'.2.1.trans (HeapLe.push _ _)
    · rw [slot_of_stack f3]; exact hi1'.2.2
    · rw [f1]; exact contentW_push_new 0 s1.heap .null .null rfl
  refine simS_right (m2' := fun σ => (.ok .null, { σ with out := Spec.joinWith " " (args.map (showV σ.objs 64)) :: σ.out }))
    (by rw [SM.bind_def, hl]; rfl) ?_
  match n with
  | 0 => simp only [execDirectFunction]; exact simS_modelFuel
  | 1 =>
    refine .inr (.inr (.inl ?_))
    rw [M.bind_def]
    have := display_call_one hi1.1 vals
    generalize execDirectFunction 1 "显示" vals s1 = p at this
    obtain ⟨r, s2⟩ := p
    simp only at this; subst this; rfl
  | 2 =>
    rcases display_call_two hi1.1 vals with ⟨rfl, hcall⟩ | hf
    · cases hall
      refine simS_intro (r := .ok s1.heap.size) (s' := shownS (Model.joinWith " " []) s1) (by rw [M.bind_def, hcall]; rfl) rfl
        (.inr (.inr (.inr (hdone _ rfl))))
    · refine .inr (.inr (.inl ?_))
      rw [M.bind_def]
      generalize execDirectFunction 2 "显示" vals s1 = p at hf
      obtain ⟨r, s2⟩ := p
      simp only at hf; subst hf; rfl
  | j+3 =>
    have hcall := display_call_eq hi1.1 j hall
    refine simS_intro (r := .ok s1.heap.size) (s' := shownS (Model.joinWith " " (args.map (showV σ1.objs 64))) s1)
      (by rw [M.bind_def, hcall]; rfl) rfl (.inr (.inr (.inr (hdone _ (joinWith_eq _ _)))))

end

end ZnVerif.Proofs
