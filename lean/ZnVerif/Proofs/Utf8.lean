/-
Helper lemmas for C17 about the modelled `unicode/utf8` functions (Model/Utf8.lean) and the spec's one-character
reader (Spec/Decode.lean):

* normal forms of `utf8DecodeRune` / `fullRune` per lead-byte class and number of bytes present,
* `fullRune_append` — once `FullRune` says yes, neither it nor `DecodeRune` looks at what follows, and the
  decoded size lies inside the buffer (so a decoded prefix is stable under appending the next block),
* `decodeOne_model` — Go's table-driven `DecodeRune` (first-byte table, accept ranges) and the spec's
  "canonical encoding of a scalar value" agree on every input: overlong forms, surrogates, values above
  U+10FFFF, stray continuation bytes, 0xF5.. lead bytes and short sequences are exactly the `(RuneError, 1)` cases.
-/
import ZnVerif.Model.Decode
import ZnVerif.Spec.Decode

namespace ZnVerif.Proofs.Utf8
open ZnVerif ZnVerif.Model ZnVerif.Spec

theorem first_lead {p0 sz lo hi : Nat} (h : first p0 = .lead sz lo hi) :
    (sz = 2 ∨ sz = 3 ∨ sz = 4) := by
  unfold first at h
  repeat' split at h
  all_goals first | (cases h; done) | (cases h; simp)

section
variable {p0 lo hi : Nat}

theorem dec2_1 (hf : first p0 = .lead 2 lo hi) : utf8DecodeRune [p0] = (runeError, 1) := by
  simp [utf8DecodeRune, hf]
theorem dec2_2 (hf : first p0 = .lead 2 lo hi) (b1 r) : utf8DecodeRune (p0 :: b1 :: r) =
    if b1 < lo ∨ hi < b1 then (runeError, 1) else (p0 % 0x20 * 0x40 + b1 % 0x40, 2) := by
  have : ¬ (r.length + 1 + 1 < 2) := by omega
  simp [utf8DecodeRune, hf, this]
theorem full2_1 (hf : first p0 = .lead 2 lo hi) : fullRune [p0] = false := by
  simp [fullRune, hf]
theorem full2_2 (hf : first p0 = .lead 2 lo hi) (b1 r) : fullRune (p0 :: b1 :: r) = true := by
  simp [fullRune, hf]

theorem dec3_1 (hf : first p0 = .lead 3 lo hi) : utf8DecodeRune [p0] = (runeError, 1) := by
  simp [utf8DecodeRune, hf]
theorem dec3_2 (hf : first p0 = .lead 3 lo hi) (b1) : utf8DecodeRune [p0, b1] = (runeError, 1) := by
  simp [utf8DecodeRune, hf]
theorem dec3_3 (hf : first p0 = .lead 3 lo hi) (b1 b2 r) : utf8DecodeRune (p0 :: b1 :: b2 :: r) =
    if b1 < lo ∨ hi < b1 then (runeError, 1) else if !isCont b2 then (runeError, 1)
    else (p0 % 0x10 * 0x1000 + b1 % 0x40 * 0x40 + b2 % 0x40, 3) := by
  have : ¬ (r.length + 1 + 1 + 1 < 3) := by omega
  simp [utf8DecodeRune, hf, this]
theorem full3_1 (hf : first p0 = .lead 3 lo hi) : fullRune [p0] = false := by
  simp [fullRune, hf]
theorem full3_2 (hf : first p0 = .lead 3 lo hi) (b1) : fullRune [p0, b1] = decide (b1 < lo ∨ hi < b1) := by
  simp [fullRune, hf]
theorem full3_3 (hf : first p0 = .lead 3 lo hi) (b1 b2 r) : fullRune (p0 :: b1 :: b2 :: r) = true := by
  simp [fullRune, hf]

theorem dec4_1 (hf : first p0 = .lead 4 lo hi) : utf8DecodeRune [p0] = (runeError, 1) := by
  simp [utf8DecodeRune, hf]
theorem dec4_2 (hf : first p0 = .lead 4 lo hi) (b1) : utf8DecodeRune [p0, b1] = (runeError, 1) := by
  simp [utf8DecodeRune, hf]
theorem dec4_3 (hf : first p0 = .lead 4 lo hi) (b1 b2) : utf8DecodeRune [p0, b1, b2] = (runeError, 1) := by
  simp [utf8DecodeRune, hf]
theorem dec4_4 (hf : first p0 = .lead 4 lo hi) (b1 b2 b3 r) : utf8DecodeRune (p0 :: b1 :: b2 :: b3 :: r) =
    if b1 < lo ∨ hi < b1 then (runeError, 1) else if !isCont b2 then (runeError, 1)
    else if !isCont b3 then (runeError, 1)
    else (p0 % 8 * 0x40000 + b1 % 0x40 * 0x1000 + b2 % 0x40 * 0x40 + b3 % 0x40, 4) := by
  have : ¬ (r.length + 1 + 1 + 1 + 1 < 4) := by omega
  simp [utf8DecodeRune, hf, this]
theorem full4_1 (hf : first p0 = .lead 4 lo hi) : fullRune [p0] = false := by
  simp [fullRune, hf]
theorem full4_2 (hf : first p0 = .lead 4 lo hi) (b1) : fullRune [p0, b1] = decide (b1 < lo ∨ hi < b1) := by
  simp [fullRune, hf]
theorem full4_3 (hf : first p0 = .lead 4 lo hi) (b1 b2) : fullRune [p0, b1, b2] =
    (decide (b1 < lo ∨ hi < b1) || !isCont b2) := by
  simp [fullRune, hf]
theorem full4_4 (hf : first p0 = .lead 4 lo hi) (b1 b2 b3 r) : fullRune (p0 :: b1 :: b2 :: b3 :: r) = true := by
  simp [fullRune, hf]
end


theorem bad1 {p0 sz lo hi : Nat} (hf : first p0 = .lead sz lo hi) {b1 : Nat} (hb : b1 < lo ∨ hi < b1) (r : List Nat) :
    utf8DecodeRune (p0 :: b1 :: r) = (runeError, 1) ∧ fullRune (p0 :: b1 :: r) = true := by
  simp only [utf8DecodeRune, fullRune, hf, hb, if_true]
  constructor <;> split <;> rfl

theorem bad2 {p0 sz lo hi : Nat} (hf : first p0 = .lead sz lo hi) (hs : 3 ≤ sz) {b1 b2 : Nat} (hb : isCont b2 = false)
    (r : List Nat) :
    utf8DecodeRune (p0 :: b1 :: b2 :: r) = (runeError, 1) ∧ fullRune (p0 :: b1 :: b2 :: r) = true := by
  have h2 : ¬ sz ≤ 2 := by omega
  simp only [utf8DecodeRune, fullRune, hf, hb, h2]
  constructor
  · repeat' split
    all_goals first | rfl | simp_all
  · repeat' split
    all_goals first | rfl | simp_all

theorem fullRune_append (buf more : List Nat) (h : fullRune buf = true) :
    fullRune (buf ++ more) = true ∧ utf8DecodeRune (buf ++ more) = utf8DecodeRune buf ∧
      (utf8DecodeRune buf).2 ≤ buf.length := by
  match buf, h with
  | p0 :: rest, h =>
    cases hf : first p0 with
    | ascii => simp [fullRune, utf8DecodeRune, hf]
    | invalid => simp [fullRune, utf8DecodeRune, hf]
    | lead sz lo hi =>
      rcases first_lead hf with rfl | rfl | rfl
      · match rest, h with
        | [], h => simp [full2_1 hf] at h
        | b1 :: r, h =>
          simp only [List.cons_append, full2_2 hf, dec2_2 hf, true_and]
          split <;> simp
      · match rest, h with
        | [], h => simp [full3_1 hf] at h
        | [b1], h =>
          rw [full3_2 hf] at h
          match more with
          | [] => simp [full3_2 hf, h, dec3_2 hf]
          | m :: ms =>
            simp only [List.cons_append, List.nil_append, full3_3 hf, dec3_3 hf, dec3_2 hf, true_and]
            simp at h
            simp [h]
        | b1 :: b2 :: r, h =>
          simp only [List.cons_append, full3_3 hf, dec3_3 hf, true_and]
          repeat' split
          all_goals simp
      · match rest, h with
        | [], h => simp [full4_1 hf] at h
        | [b1], h =>
          rw [full4_2 hf] at h
          have hb : b1 < lo ∨ hi < b1 := by simpa using h
          have := bad1 hf hb more
          have h2 := bad1 hf hb []
          simp only [List.cons_append, List.nil_append, this, h2, true_and]
          simp
        | [b1, b2], h =>
          rw [full4_3 hf] at h
          by_cases hb : b1 < lo ∨ hi < b1
          · have := bad1 hf hb (b2 :: more)
            have h2 := bad1 hf hb [b2]
            simp only [List.cons_append, List.nil_append, this, h2, true_and]
            simp
          · have hc : isCont b2 = false := by simpa [hb] using h
            have := bad2 hf (by omega) (b1 := b1) hc more
            have h2 := bad2 hf (by omega) (b1 := b1) hc []
            simp only [List.cons_append, List.nil_append, this, h2, true_and]
            simp
        | b1 :: b2 :: b3 :: r, h =>
          simp only [List.cons_append, full4_4 hf, dec4_4 hf, true_and]
          repeat' split
          all_goals simp

theorem first_ascii {p0 : Nat} (h : p0 < 0x80) : first p0 = .ascii := by
  unfold first; simp [h]
theorem first_invalid {p0 : Nat} (h : (0x80 ≤ p0 ∧ p0 < 0xC2) ∨ 0xF5 ≤ p0) : first p0 = .invalid := by
  unfold first
  repeat' split
  all_goals first | rfl | omega
theorem first_2 {p0 : Nat} (h : 0xC2 ≤ p0) (h' : p0 < 0xE0) : first p0 = .lead 2 0x80 0xBF := by
  unfold first
  repeat' split
  all_goals first | rfl | omega
theorem first_3 {p0 : Nat} (h : 0xE0 ≤ p0) (h' : p0 < 0xF0) :
    first p0 = .lead 3 (if p0 = 0xE0 then 0xA0 else 0x80) (if p0 = 0xED then 0x9F else 0xBF) := by
  unfold first
  repeat' split
  all_goals first | rfl | omega | simp_all
theorem first_4 {p0 : Nat} (h : 0xF0 ≤ p0) (h' : p0 < 0xF5) :
    first p0 = .lead 4 (if p0 = 0xF0 then 0x90 else 0x80) (if p0 = 0xF4 then 0x8F else 0xBF) := by
  unfold first
  repeat' split
  all_goals first | rfl | omega | simp_all

theorem enc1 (p0 : Nat) (h : p0 < 0x80) : IsScalar p0 ∧ encode p0 = [p0] := by
  unfold IsScalar encode; simp [h]; omega

theorem enc2 (p0 b1 : Nat) (h0 : 0xC0 ≤ p0) (h1 : p0 < 0xE0) :
    (IsScalar (p0 % 0x20 * 0x40 + b1 % 0x40) ∧ encode (p0 % 0x20 * 0x40 + b1 % 0x40) = [p0, b1]) ↔
      (0xC2 ≤ p0 ∧ 0x80 ≤ b1 ∧ b1 ≤ 0xBF) := by
  unfold IsScalar encode
  split
  · simp; omega
  · split
    · simp only [List.cons.injEq, and_true]; omega
    · omega

theorem enc3 (p0 b1 b2 : Nat) (h0 : 0xE0 ≤ p0) (h1 : p0 < 0xF0) :
    (IsScalar (p0 % 0x10 * 0x1000 + b1 % 0x40 * 0x40 + b2 % 0x40) ∧
      encode (p0 % 0x10 * 0x1000 + b1 % 0x40 * 0x40 + b2 % 0x40) = [p0, b1, b2]) ↔
      ((p0 = 0xE0 → 0xA0 ≤ b1) ∧ 0x80 ≤ b1 ∧ (p0 = 0xED → b1 ≤ 0x9F) ∧ b1 ≤ 0xBF ∧ 0x80 ≤ b2 ∧ b2 ≤ 0xBF) := by
  unfold IsScalar encode
  split
  · simp; omega
  · split
    · simp; omega
    · split
      · simp only [List.cons.injEq, and_true]; omega
      · omega

theorem enc4 (p0 b1 b2 b3 : Nat) (h0 : 0xF0 ≤ p0) (h1 : p0 < 0xF8) :
    (IsScalar (p0 % 8 * 0x40000 + b1 % 0x40 * 0x1000 + b2 % 0x40 * 0x40 + b3 % 0x40) ∧
      encode (p0 % 8 * 0x40000 + b1 % 0x40 * 0x1000 + b2 % 0x40 * 0x40 + b3 % 0x40) = [p0, b1, b2, b3]) ↔
      (p0 < 0xF5 ∧ (p0 = 0xF0 → 0x90 ≤ b1) ∧ 0x80 ≤ b1 ∧ (p0 = 0xF4 → b1 ≤ 0x8F) ∧ b1 ≤ 0xBF ∧
        0x80 ≤ b2 ∧ b2 ≤ 0xBF ∧ 0x80 ≤ b3 ∧ b3 ≤ 0xBF) := by
  unfold IsScalar encode
  split
  · simp; omega
  · split
    · simp; omega
    · split
      · simp; omega
      · simp only [List.cons.injEq, and_true]; omega

/-- a sequence shorter than its lead byte announces is nobody's encoding -/
theorem short1 (p0 : Nat) (h : 0x80 ≤ p0) : ¬ (IsScalar p0 ∧ encode p0 = [p0]) := by
  unfold encode
  repeat' split
  all_goals simp
  omega
theorem short2 (p0 b1 : Nat) (h : 0xE0 ≤ p0) :
    ¬ (IsScalar (p0 % 0x20 * 0x40 + b1 % 0x40) ∧ encode (p0 % 0x20 * 0x40 + b1 % 0x40) = [p0, b1]) := by
  unfold encode
  repeat' split
  all_goals simp
  omega
theorem short3 (p0 b1 b2 : Nat) (h : 0xF0 ≤ p0) :
    ¬ (IsScalar (p0 % 0x10 * 0x1000 + b1 % 0x40 * 0x40 + b2 % 0x40) ∧
      encode (p0 % 0x10 * 0x1000 + b1 % 0x40 * 0x40 + b2 % 0x40) = [p0, b1, b2]) := by
  unfold encode
  repeat' split
  all_goals simp
  omega

theorem seqLen_1 {p0 : Nat} (h : p0 < 0x80) : seqLen p0 = 1 := by unfold seqLen; simp [h]
theorem seqLen_0 {p0 : Nat} (h : (0x80 ≤ p0 ∧ p0 < 0xC0) ∨ 0xF8 ≤ p0) : seqLen p0 = 0 := by
  unfold seqLen
  repeat' split
  all_goals first | rfl | omega
theorem seqLen_2 {p0 : Nat} (h : 0xC0 ≤ p0) (h' : p0 < 0xE0) : seqLen p0 = 2 := by
  unfold seqLen
  repeat' split
  all_goals first | rfl | omega
theorem seqLen_3 {p0 : Nat} (h : 0xE0 ≤ p0) (h' : p0 < 0xF0) : seqLen p0 = 3 := by
  unfold seqLen
  repeat' split
  all_goals first | rfl | omega
theorem seqLen_4 {p0 : Nat} (h : 0xF0 ≤ p0) (h' : p0 < 0xF8) : seqLen p0 = 4 := by
  unfold seqLen
  repeat' split
  all_goals first | rfl | omega


theorem dec_ascii {p0 : Nat} (h : p0 < 0x80) (rest : List Nat) : utf8DecodeRune (p0 :: rest) = (p0, 1) := by
  simp [utf8DecodeRune, first_ascii h]
theorem dec_invalid {p0 : Nat} (h : first p0 = .invalid) (rest : List Nat) :
    utf8DecodeRune (p0 :: rest) = (runeError, 1) := by
  simp [utf8DecodeRune, h]


theorem first_3' {p0 : Nat} (h : 0xE0 ≤ p0) (h' : p0 < 0xF0) : ∃ lo hi, first p0 = .lead 3 lo hi ∧
    (p0 = 0xE0 → lo = 0xA0) ∧ (p0 ≠ 0xE0 → lo = 0x80) ∧ (p0 = 0xED → hi = 0x9F) ∧ (p0 ≠ 0xED → hi = 0xBF) := by
  refine ⟨_, _, first_3 h h', ?_, ?_, ?_, ?_⟩ <;> intro hh <;> simp [hh]
theorem first_4' {p0 : Nat} (h : 0xF0 ≤ p0) (h' : p0 < 0xF5) : ∃ lo hi, first p0 = .lead 4 lo hi ∧
    (p0 = 0xF0 → lo = 0x90) ∧ (p0 ≠ 0xF0 → lo = 0x80) ∧ (p0 = 0xF4 → hi = 0x8F) ∧ (p0 ≠ 0xF4 → hi = 0xBF) := by
  refine ⟨_, _, first_4 h h', ?_, ?_, ?_, ?_⟩ <;> intro hh <;> simp [hh]

theorem isCont_iff (b : Nat) : isCont b = true ↔ 0x80 ≤ b ∧ b ≤ 0xBF := by simp [isCont]

/-- Go's table-driven decoder and the spec's "canonical encoding of a scalar" reader agree on every input -/
theorem decodeOne_model (p0 : Nat) (rest : List Nat) :
    decodeOne (p0 :: rest) =
      if (utf8DecodeRune (p0 :: rest)).1 = runeError ∧ (utf8DecodeRune (p0 :: rest)).2 = 1 then none
      else some ((utf8DecodeRune (p0 :: rest)).1, (p0 :: rest).drop (utf8DecodeRune (p0 :: rest)).2) := by
  by_cases h1 : p0 < 0x80
  · have := enc1 p0 h1
    have hne : p0 ≠ runeError := by unfold runeError; omega
    simp [decodeOne, seqLen_1 h1, payload, this, dec_ascii h1, hne]
  by_cases h2 : p0 < 0xC0
  · have hs : seqLen p0 = 0 := seqLen_0 (Or.inl ⟨by omega, h2⟩)
    have hf : first p0 = .invalid := first_invalid (Or.inl ⟨by omega, by omega⟩)
    simp [decodeOne, hs, dec_invalid hf]
  by_cases h3 : p0 < 0xE0
  · have hs : seqLen p0 = 2 := seqLen_2 (by omega) h3
    match rest with
    | [] =>
      have hd : utf8DecodeRune [p0] = (runeError, 1) := by
        by_cases h4 : p0 < 0xC2
        · exact dec_invalid (first_invalid (Or.inl ⟨by omega, h4⟩)) []
        · exact dec2_1 (first_2 (by omega) h3)
      have := short1 p0 (by omega)
      simp [decodeOne, hs, payload, this, hd]
    | b1 :: r =>
      have he := enc2 p0 b1 (by omega) h3
      by_cases h4 : p0 < 0xC2
      · have hd := dec_invalid (first_invalid (Or.inl ⟨by omega, h4⟩)) (b1 :: r)
        have : ¬ (IsScalar (p0 % 0x20 * 0x40 + b1 % 0x40) ∧ encode (p0 % 0x20 * 0x40 + b1 % 0x40) = [p0, b1]) := by
          rw [he]; omega
        simp [decodeOne, hs, payload, this, hd]
      · have hd := dec2_2 (first_2 (by omega) h3) b1 r
        rw [hd]
        simp only [decodeOne, hs, payload, List.take, he]
        by_cases hb : b1 < 0x80 ∨ 0xBF < b1
        · have : ¬ (0xC2 ≤ p0 ∧ 0x80 ≤ b1 ∧ b1 ≤ 0xBF) := by omega
          simp [hb, this]
        · have : (0xC2 ≤ p0 ∧ 0x80 ≤ b1 ∧ b1 ≤ 0xBF) := by omega
          simp [hb, this]
  by_cases h4 : p0 < 0xF0
  · have hs : seqLen p0 = 3 := seqLen_3 (by omega) h4
    obtain ⟨lo, hi, hf, hl1, hl2, hh1, hh2⟩ := first_3' (by omega : 0xE0 ≤ p0) h4
    match rest with
    | [] =>
      have := short1 p0 (by omega)
      simp [decodeOne, hs, payload, this, dec3_1 hf]
    | [b1] =>
      have := short2 p0 b1 (by omega)
      simp [decodeOne, hs, payload, this, dec3_2 hf]
    | b1 :: b2 :: r =>
      have he := enc3 p0 b1 b2 (by omega) h4
      rw [dec3_3 hf]
      simp only [decodeOne, hs, payload, List.take, he]
      by_cases hb : b1 < lo ∨ hi < b1
      · have : ¬ ((p0 = 0xE0 → 0xA0 ≤ b1) ∧ 0x80 ≤ b1 ∧ (p0 = 0xED → b1 ≤ 0x9F) ∧ b1 ≤ 0xBF ∧ 0x80 ≤ b2 ∧ b2 ≤ 0xBF) := by
          omega
        simp [hb, this]
      · by_cases hc : isCont b2 = true
        · have hc' := (isCont_iff b2).mp hc
          have : ((p0 = 0xE0 → 0xA0 ≤ b1) ∧ 0x80 ≤ b1 ∧ (p0 = 0xED → b1 ≤ 0x9F) ∧ b1 ≤ 0xBF ∧ 0x80 ≤ b2 ∧ b2 ≤ 0xBF) := by
            omega
          simp [hb, hc, this]
          exact ⟨this.1, this.2.2.1⟩
        · have hc' : ¬ (0x80 ≤ b2 ∧ b2 ≤ 0xBF) := fun h => hc ((isCont_iff b2).mpr h)
          have : ¬ ((p0 = 0xE0 → 0xA0 ≤ b1) ∧ 0x80 ≤ b1 ∧ (p0 = 0xED → b1 ≤ 0x9F) ∧ b1 ≤ 0xBF ∧ 0x80 ≤ b2 ∧ b2 ≤ 0xBF) := by
            omega
          simp [hb, hc, this]
  by_cases h5 : p0 < 0xF8
  · have hs : seqLen p0 = 4 := seqLen_4 (by omega) h5
    by_cases h6 : p0 < 0xF5
    · obtain ⟨lo, hi, hf, hl1, hl2, hh1, hh2⟩ := first_4' (by omega : 0xF0 ≤ p0) h6
      match rest with
      | [] =>
        have := short1 p0 (by omega)
        simp [decodeOne, hs, payload, this, dec4_1 hf]
      | [b1] =>
        have := short2 p0 b1 (by omega)
        simp [decodeOne, hs, payload, this, dec4_2 hf]
      | [b1, b2] =>
        have := short3 p0 b1 b2 (by omega)
        simp [decodeOne, hs, payload, this, dec4_3 hf]
      | b1 :: b2 :: b3 :: r =>
        have he := enc4 p0 b1 b2 b3 (by omega) h5
        rw [dec4_4 hf]
        simp only [decodeOne, hs, payload, List.take, he]
        by_cases hb : b1 < lo ∨ hi < b1
        · have : ¬ (p0 < 0xF5 ∧ (p0 = 0xF0 → 0x90 ≤ b1) ∧ 0x80 ≤ b1 ∧ (p0 = 0xF4 → b1 ≤ 0x8F) ∧ b1 ≤ 0xBF ∧
              0x80 ≤ b2 ∧ b2 ≤ 0xBF ∧ 0x80 ≤ b3 ∧ b3 ≤ 0xBF) := by omega
          simp [hb, this]
        · by_cases hc : isCont b2 = true
          · by_cases hd : isCont b3 = true
            · have hc' := (isCont_iff b2).mp hc
              have hd' := (isCont_iff b3).mp hd
              have : (p0 < 0xF5 ∧ (p0 = 0xF0 → 0x90 ≤ b1) ∧ 0x80 ≤ b1 ∧ (p0 = 0xF4 → b1 ≤ 0x8F) ∧ b1 ≤ 0xBF ∧
                  0x80 ≤ b2 ∧ b2 ≤ 0xBF ∧ 0x80 ≤ b3 ∧ b3 ≤ 0xBF) := by omega
              simp [hb, hc, hd, this]
              exact ⟨this.2.1, this.2.2.2.1⟩
            · have hd' : ¬ (0x80 ≤ b3 ∧ b3 ≤ 0xBF) := fun h => hd ((isCont_iff b3).mpr h)
              have : ¬ (p0 < 0xF5 ∧ (p0 = 0xF0 → 0x90 ≤ b1) ∧ 0x80 ≤ b1 ∧ (p0 = 0xF4 → b1 ≤ 0x8F) ∧ b1 ≤ 0xBF ∧
                  0x80 ≤ b2 ∧ b2 ≤ 0xBF ∧ 0x80 ≤ b3 ∧ b3 ≤ 0xBF) := by omega
              simp [hb, hc, hd, this]
          · have hc' : ¬ (0x80 ≤ b2 ∧ b2 ≤ 0xBF) := fun h => hc ((isCont_iff b2).mpr h)
            have : ¬ (p0 < 0xF5 ∧ (p0 = 0xF0 → 0x90 ≤ b1) ∧ 0x80 ≤ b1 ∧ (p0 = 0xF4 → b1 ≤ 0x8F) ∧ b1 ≤ 0xBF ∧
                0x80 ≤ b2 ∧ b2 ≤ 0xBF ∧ 0x80 ≤ b3 ∧ b3 ≤ 0xBF) := by omega
            simp [hb, hc, this]
    · have hf : first p0 = .invalid := first_invalid (Or.inr (by omega))
      rw [dec_invalid hf]
      match rest with
      | [] =>
        have := short1 p0 (by omega)
        simp [decodeOne, hs, payload, this]
      | [b1] =>
        have := short2 p0 b1 (by omega)
        simp [decodeOne, hs, payload, this]
      | [b1, b2] =>
        have := short3 p0 b1 b2 (by omega)
        simp [decodeOne, hs, payload, this]
      | b1 :: b2 :: b3 :: r =>
        have he := enc4 p0 b1 b2 b3 (by omega) h5
        have : ¬ (p0 < 0xF5 ∧ (p0 = 0xF0 → 0x90 ≤ b1) ∧ 0x80 ≤ b1 ∧ (p0 = 0xF4 → b1 ≤ 0x8F) ∧ b1 ≤ 0xBF ∧
            0x80 ≤ b2 ∧ b2 ≤ 0xBF ∧ 0x80 ≤ b3 ∧ b3 ≤ 0xBF) := by omega
        simp only [decodeOne, hs, payload, List.take, he]
        simp [this]
  · have hs : seqLen p0 = 0 := seqLen_0 (Or.inr (by omega))
    have hf : first p0 = .invalid := first_invalid (Or.inr (by omega))
    simp [decodeOne, hs, dec_invalid hf]

/-- what `FullRune` refuses (a legal but incomplete sequence) `DecodeRune` alone would call an error -/
theorem not_full_decode {p0 : Nat} {rest : List Nat} (h : fullRune (p0 :: rest) = false) :
    utf8DecodeRune (p0 :: rest) = (runeError, 1) := by
  cases hf : first p0 with
  | ascii => simp [fullRune, hf] at h
  | invalid => simp [fullRune, hf] at h
  | lead sz lo hi =>
    rcases first_lead hf with rfl | rfl | rfl
    · match rest, h with
      | [], _ => exact dec2_1 hf
      | b1 :: r, h => simp [full2_2 hf] at h
    · match rest, h with
      | [], _ => exact dec3_1 hf
      | [b1], _ => exact dec3_2 hf b1
      | b1 :: b2 :: r, h => simp [full3_3 hf] at h
    · match rest, h with
      | [], _ => exact dec4_1 hf
      | [b1], _ => exact dec4_2 hf b1
      | [b1, b2], _ => exact dec4_3 hf b1 b2
      | b1 :: b2 :: b3 :: r, h => simp [full4_4 hf] at h

end ZnVerif.Proofs.Utf8
