/-
Helper lemmas for C14 about the spec itself: the executable template splitter is the unique canonical
decomposition; the executable directive parser decides the documented grammar.
-/
import ZnVerif.Spec.Template

namespace ZnVerif.Proofs.Template
open ZnVerif.Spec.Template

theorem isBrace_false (c : Nat) : isBrace c = false ↔ c ≠ 0x7B ∧ c ≠ 0x7D := by
  simp [isBrace]

theorem isBrace_true (c : Nat) : isBrace c = true ↔ c = 0x7B ∨ c = 0x7D := by
  simp [isBrace]

theorem takeRun_spec (l : List Nat) :
    l = (takeRun l).1 ++ (takeRun l).2 ∧ braceFree (takeRun l).1 ∧
    (∀ c r, (takeRun l).2 = c :: r → isBrace c = true) := by
  induction l with
  | nil => simp [takeRun, braceFree]
  | cons c l ih =>
    unfold takeRun
    by_cases h : isBrace c = true
    · simp only [h, if_true]
      refine ⟨by simp, by simp [braceFree], ?_⟩
      intro x r hx
      simp at hx
      rw [← hx.1]; exact h
    · simp only [h]
      obtain ⟨h1, h2, h3⟩ := ih
      refine ⟨by simp; exact h1, ?_, h3⟩
      intro x hx
      simp at hx
      rcases hx with rfl | hx
      · simpa using h
      · exact h2 x hx

theorem takeRun_length (l : List Nat) : (takeRun l).2.length ≤ l.length := by
  have h := (takeRun_spec l).1
  have : l.length = (takeRun l).1.length + (takeRun l).2.length := by
    conv => lhs; rw [h]
    simp
  omega

/-- a brace-free run followed by the end or a brace is taken whole -/
theorem takeRun_append (a b : List Nat) (ha : braceFree a) (hb : ∀ c r, b = c :: r → isBrace c = true) :
    takeRun (a ++ b) = (a, b) := by
  induction a with
  | nil =>
    cases b with
    | nil => rfl
    | cons c r => simp [takeRun, hb c r rfl]
  | cons x a ih =>
    have hx : isBrace x = false := ha x (by simp)
    have := ih (fun c hc => ha c (by simp [hc]))
    simp [takeRun, hx, this]

/-- soundness: what `split` returns stands for the template and is canonical -/
theorem splitFuel_sound : ∀ (fuel : Nat) (t : List Nat) (segs : List Seg),
    splitFuel fuel t = some segs → unparse segs = t ∧ Canonical segs ∧
      (∀ c r, t = c :: r → isBrace c = false → ∃ s r', segs = .lit s :: r') := by
  intro fuel
  induction fuel with
  | zero => intro t segs h; simp [splitFuel] at h
  | succ n ih =>
    intro t segs h
    cases t with
    | nil =>
      simp [splitFuel] at h
      subst h
      simp [unparse, Canonical]
    | cons c r =>
      obtain ⟨e1, e2, e3⟩ := takeRun_spec r
      by_cases h1 : c = 0x7B
      · subst h1
        simp only [splitFuel, if_true] at h
        generalize hd : (takeRun r).1 = d at *
        generalize hr' : (takeRun r).2 = r' at *
        cases r' with
        | nil => simp at h
        | cons c' r'' =>
          by_cases h2 : c' = 0x7D
          · subst h2
            simp only [if_true] at h
            cases hs : splitFuel n r'' with
            | none => simp [hs] at h
            | some segs' =>
              simp [hs] at h
              subst h
              obtain ⟨u, cn, _⟩ := ih r'' segs' hs
              refine ⟨?_, ?_, ?_⟩
              · simp [unparse, u, e1]
              · exact ⟨e2, cn⟩
              · intro c r hc hb
                simp at hc
                rw [← hc.1] at hb
                simp [isBrace] at hb
          · simp [h2] at h
      by_cases h2 : c = 0x7D
      · subst h2; simp [splitFuel] at h
      · simp only [splitFuel, h1, h2, if_false] at h
        generalize hs : (takeRun r).1 = s at *
        generalize hr' : (takeRun r).2 = r' at *
        cases hsp : splitFuel n r' with
        | none => simp [hsp] at h
        | some segs' =>
          simp [hsp] at h
          subst h
          obtain ⟨u, cn, hd⟩ := ih r' segs' hsp
          refine ⟨?_, ?_, ?_⟩
          · simp [unparse, u, e1]
          · refine ⟨by simp, ?_, ?_, cn⟩
            · intro x hx
              simp at hx
              rcases hx with rfl | hx
              · exact (isBrace_false x).2 ⟨h1, h2⟩
              · exact e2 x hx
            · -- the run is maximal: what follows is the end or starts with a brace, hence is no literal
              cases segs' with
              | nil => trivial
              | cons sg rest =>
                cases sg with
                | hole d => trivial
                | lit s2 =>
                  obtain ⟨hne, hbf, _, _⟩ := cn
                  cases s2 with
                  | nil => exact hne rfl
                  | cons y s2' =>
                    have : r' = y :: (s2' ++ unparse rest) := by rw [← u]; simp [unparse]
                    have hy := e3 y _ this
                    have := hbf y (by simp)
                    rw [hy] at this
                    simp at this
          · intro c' r2 _ _
            exact ⟨_, _, rfl⟩

theorem split_sound (t : List Nat) (segs : List Seg) (h : split t = some segs) :
    unparse segs = t ∧ Canonical segs :=
  let ⟨a, b, _⟩ := splitFuel_sound _ t segs h
  ⟨a, b⟩

theorem unparse_length_lit (s : List Nat) (r : List Seg) : (unparse (.lit s :: r)).length = s.length + (unparse r).length := by
  simp [unparse]

/-- completeness: every canonical segment list is found again from its text -/
theorem splitFuel_complete : ∀ (segs : List Seg) (fuel : Nat), Canonical segs → (unparse segs).length < fuel →
    splitFuel fuel (unparse segs) = some segs := by
  intro segs
  induction segs with
  | nil =>
    intro fuel _ hf
    cases fuel with
    | zero => simp at hf
    | succ n => simp [unparse, splitFuel]
  | cons sg rest ih =>
    intro fuel hc hf
    cases fuel with
    | zero => simp at hf
    | succ n =>
      -- what follows a segment is the end or starts with a brace, unless it is a literal
      have startsBrace : ∀ rest : List Seg, Canonical rest → (match rest with | .lit _ :: _ => False | _ => True) →
          ∀ c r, unparse rest = c :: r → isBrace c = true := by
        intro rest hcr hnl c r hu
        cases rest with
        | nil => simp [unparse] at hu
        | cons sg2 rest2 =>
          cases sg2 with
          | lit _ => exact absurd hnl (by simp)
          | hole d =>
            simp [unparse] at hu
            rw [← hu.1]; simp [isBrace]
      cases sg with
      | hole d =>
        obtain ⟨hd, hcr⟩ := hc
        have hlen : (unparse rest).length < n := by simp [unparse] at hf; omega
        have hb : ∀ c r, (0x7D :: unparse rest) = c :: r → isBrace c = true := by
          intro c r h; simp at h; rw [← h.1]; simp [isBrace]
        simp only [unparse, splitFuel, if_true]
        rw [takeRun_append d _ hd hb]
        simp [ih n hcr hlen]
      | lit s =>
        obtain ⟨hne, hbf, hnl, hcr⟩ := hc
        cases s with
        | nil => exact absurd rfl hne
        | cons x s' =>
          have hx : isBrace x = false := hbf x (by simp)
          obtain ⟨x1, x2⟩ := (isBrace_false x).1 hx
          have hlen : (unparse rest).length < n := by simp [unparse] at hf; omega
          have hs' : braceFree s' := fun c hc => hbf c (by simp [hc])
          simp only [unparse, List.cons_append, splitFuel, x1, x2, if_false]
          rw [takeRun_append s' _ hs' (startsBrace rest hcr hnl)]
          simp [ih n hcr hlen]

/-- `split` is the unique canonical decomposition -/
theorem split_iff (t : List Nat) (segs : List Seg) :
    split t = some segs ↔ (unparse segs = t ∧ Canonical segs) := by
  constructor
  · exact split_sound t segs
  · rintro ⟨rfl, hc⟩
    exact splitFuel_complete segs _ hc (by omega)

/-! ### directives -/

theorem isDigit_iff (c : Nat) : isDigit c = true ↔ 0x30 ≤ c ∧ c ≤ 0x39 := by
  simp [isDigit]

theorem takeDigits_spec (l : List Nat) :
    l = (takeDigits l).1 ++ (takeDigits l).2 ∧ (∀ c ∈ (takeDigits l).1, isDigit c = true) ∧
    (∀ c r, (takeDigits l).2 = c :: r → isDigit c = false) := by
  induction l with
  | nil => simp [takeDigits]
  | cons c l ih =>
    unfold takeDigits
    by_cases h : isDigit c = true
    · simp only [h, if_true]
      obtain ⟨h1, h2, h3⟩ := ih
      refine ⟨by simp; exact h1, ?_, h3⟩
      intro x hx
      simp at hx
      rcases hx with rfl | hx
      · exact h
      · exact h2 x hx
    · simp only [h]
      simp
      simpa using h

theorem takeDigits_append (ds rest : List Nat) (hd : ∀ c ∈ ds, isDigit c = true)
    (hr : ∀ c r, rest = c :: r → isDigit c = false) : takeDigits (ds ++ rest) = (ds, rest) := by
  induction ds with
  | nil =>
    cases rest with
    | nil => rfl
    | cons c r => simp [takeDigits, hr c r rfl]
  | cons x ds ih =>
    have := ih (fun c hc => hd c (by simp [hc]))
    simp [takeDigits, hd x (by simp), this]

theorem parseSuffix_some (plus : Bool) (prec : Option Nat) (l : List Nat) (d : Directive) :
    parseSuffix plus prec l = some d ↔
      d.plus = plus ∧ d.prec = prec ∧
      ((l = [] ∧ d.style = .plain) ∨ (l = [0x45] ∧ d.style = .sci) ∨ (l = [0x25] ∧ d.style = .percent)) := by
  obtain ⟨dp, dq, ds⟩ := d
  match l with
  | [] => simp [parseSuffix]; constructor <;> (intro h; simp_all)
  | [c] =>
    by_cases h3 : c = 0x45
    · subst h3; simp [parseSuffix]; constructor <;> (intro h; simp_all)
    by_cases h4 : c = 0x25
    · subst h4; simp [parseSuffix]; constructor <;> (intro h; simp_all)
    simp [parseSuffix, h3, h4]
  | _ :: _ :: _ => simp [parseSuffix]

theorem parseDirective_noplus (l : List Nat) (h : ∀ c r, l = c :: r → c ≠ 0x2B) :
    parseDirective l = parseFrac false l := by
  cases l with
  | nil => rfl
  | cons c r => simp [parseDirective, h c r rfl]

/-- the executable directive parser decides the documented grammar `[+]?(.D+)?[E%]?` and returns its triple -/
theorem parseDirective_iff (l : List Nat) (d : Directive) : parseDirective l = some d ↔ DirectiveForm l d := by
  constructor
  · intro h
    -- sign
    have key : ∀ (plus : Bool) (l : List Nat), parseFrac plus l = some d →
        ∃ frac suffix prec style, l = frac ++ suffix ∧ d = ⟨plus, prec, style⟩ ∧
          ((frac = [] ∧ prec = none) ∨ (∃ ds, frac = 0x2E :: ds ∧ ds ≠ [] ∧ (∀ c ∈ ds, isDigit c = true) ∧ prec = some (decimal ds))) ∧
          ((suffix = [] ∧ style = .plain) ∨ (suffix = [0x45] ∧ style = .sci) ∨ (suffix = [0x25] ∧ style = .percent)) := by
      intro plus l hl
      by_cases hdot : ∃ r, l = 0x2E :: r
      · obtain ⟨r, rfl⟩ := hdot
        obtain ⟨e1, e2, _⟩ := takeDigits_spec r
        simp only [parseFrac, if_true] at hl
        by_cases hds : (takeDigits r).1 = []
        · simp [hds] at hl
        · simp only [hds, if_false] at hl
          obtain ⟨hp, hq, hs⟩ := (parseSuffix_some _ _ _ _).1 hl
          refine ⟨0x2E :: (takeDigits r).1, (takeDigits r).2, some (decimal (takeDigits r).1), d.style, ?_, ?_, ?_, hs⟩
          · simp; exact e1
          · cases d with
            | mk dp dq dst =>
              simp only at hp hq
              subst hp; subst hq; rfl
          · exact Or.inr ⟨_, rfl, hds, e2, rfl⟩
      · have : parseFrac plus l = parseSuffix plus none l := by
          cases l with
          | nil => rfl
          | cons c r =>
            have : c ≠ 0x2E := fun hc => hdot ⟨r, by rw [hc]⟩
            simp [parseFrac, this]
        rw [this] at hl
        obtain ⟨hp, hq, hs⟩ := (parseSuffix_some _ _ _ _).1 hl
        refine ⟨[], l, none, d.style, by simp, ?_, Or.inl ⟨rfl, rfl⟩, hs⟩
        cases d with
        | mk dp dq dst =>
          simp only at hp hq
          subst hp; subst hq; rfl
    by_cases hp : ∃ r, l = 0x2B :: r
    · obtain ⟨r, rfl⟩ := hp
      have : parseDirective (0x2B :: r) = parseFrac true r := by simp [parseDirective]
      rw [this] at h
      obtain ⟨frac, suffix, prec, style, rfl, rfl, hf, hs⟩ := key true r h
      have := DirectiveForm.mk [0x2B] frac suffix true prec style (Or.inr ⟨rfl, rfl⟩) hf hs
      simpa using this
    · have : parseDirective l = parseFrac false l := by
        cases l with
        | nil => rfl
        | cons c r =>
          have : c ≠ 0x2B := fun hc => hp ⟨r, by rw [hc]⟩
          simp [parseDirective, this]
      rw [this] at h
      obtain ⟨frac, suffix, prec, style, rfl, rfl, hf, hs⟩ := key false l h
      have := DirectiveForm.mk [] frac suffix false prec style (Or.inl ⟨rfl, rfl⟩) hf hs
      simpa using this
  · intro h
    cases h with
    | mk sign frac suffix plus prec style hsign hfrac hsuf =>
      have hsufP : parseSuffix plus prec suffix = some ⟨plus, prec, style⟩ :=
        (parseSuffix_some _ _ _ _).2 ⟨rfl, rfl, hsuf⟩
      have hsufHead : ∀ c r, suffix = c :: r → c = 0x45 ∨ c = 0x25 := by
        intro c r hc
        rcases hsuf with ⟨h, _⟩ | ⟨h, _⟩ | ⟨h, _⟩ <;> rw [h] at hc <;> simp at hc
        · exact Or.inl hc.1.symm
        · exact Or.inr hc.1.symm
      have hfracP : parseFrac plus (frac ++ suffix) = some ⟨plus, prec, style⟩ := by
        rcases hfrac with ⟨rfl, rfl⟩ | ⟨ds, rfl, hne, hds, rfl⟩
        · cases hsx : suffix with
          | nil => rw [hsx] at hsufP; simpa [parseFrac] using hsufP
          | cons c r =>
            have : c ≠ 0x2E := by
              rcases hsufHead c r hsx with h | h <;> omega
            rw [hsx] at hsufP
            simpa [parseFrac, this] using hsufP
        · have hnd : ∀ c r, suffix = c :: r → isDigit c = false := by
            intro c r hc
            rcases hsufHead c r hc with h | h <;> subst h <;> decide
          simp only [List.cons_append, parseFrac, if_true]
          rw [takeDigits_append ds suffix hds hnd]
          simp [hne, hsufP]
      rcases hsign with ⟨rfl, rfl⟩ | ⟨rfl, rfl⟩
      · -- no sign: the text must not start with `+`
        have hhead : ∀ c r, frac ++ suffix = c :: r → c ≠ 0x2B := by
          intro c r hc
          rcases hfrac with ⟨rfl, _⟩ | ⟨ds, rfl, _⟩
          · rcases hsufHead c r (by simpa using hc) with h | h <;> omega
          · simp at hc; omega
        rw [List.nil_append, parseDirective_noplus _ hhead]
        exact hfracP
      · simpa [parseDirective] using hfracP

end ZnVerif.Proofs.Template
