/-
`compareXEQ` (eval.go compareLogicXEQ, model) against `valEq` (spec) on cells that read as spec values.
-/
import ZnVerif.Proofs.Sim
set_option linter.unusedSectionVars false

namespace ZnVerif.Proofs
open ZnVerif.Model ZnVerif.Spec

variable {ν : Type} [NumOps ν]

/-- outcome of the model comparison on fuel `n` against the spec's `valEq n`, for operands readable within `k`;
`pl` = "only plain values are readable" (then error 83 cannot occur) -/
inductive CmpRel (pl : Prop) (n k : Nat) : Res Bool → Option Bool → Prop
  | ok (b : Bool) : CmpRel pl n k (.ok b) (some b)
  | err : ¬ pl → CmpRel pl n k (.err (.rt 83)) none
  | fuel : n < k → CmpRel pl n k .fuel none

theorem CmpRel.succ {pl : Prop} {n k : Nat} {X : Res Bool} {o : Option Bool} (h : CmpRel pl n k X o) :
    CmpRel pl (n+1) (k+1) X o := by
  cases h with
  | ok b => exact .ok b
  | err h => exact .err h
  | fuel h => exact .fuel (Nat.succ_lt_succ h)

theorem foldl_stuck {κ} (F : Option Bool → κ → Option Bool) (hF2 : ∀ r k, r ≠ some true → F r k = r) :
    ∀ (ks : List κ) (r : Option Bool), r ≠ some true → ks.foldl F r = r
  | [], _, _ => rfl
  | k :: ks, r, hr => by
    simp only [List.foldl_cons, hF2 r k hr]
    exact foldl_stuck F hF2 ks r hr

/-- `allM` (stop at the first `false`/error) against a fold that keeps the first answer other than `some true` -/
theorem allM_foldl_sim {ι κ} {pl : Prop} {n k0 : Nat} (s : VM ν) (f : ι → M ν Bool) (g : κ → Option Bool)
    (F : Option Bool → κ → Option Bool) (hF1 : ∀ k, F (some true) k = g k) (hF2 : ∀ r k, r ≠ some true → F r k = r) :
    ∀ (is : List ι) (ks : List κ), Forall2 (fun i k => ∃ X, f i s = (X, s) ∧ CmpRel pl n k0 X (g k)) is ks →
      ∃ X, allM f is s = (X, s) ∧ CmpRel pl n k0 X (ks.foldl F (some true))
  | _, _, .nil => ⟨.ok true, rfl, .ok true⟩
  | i :: is, k :: ks, .cons ⟨X, hX, hR⟩ rest => by
    simp only [List.foldl_cons, hF1, allM]
    rw [M.bind_def, hX]
    generalize hg : g k = gk at hR
    cases hR with
    | ok b =>
      cases b with
      | true =>
        simp only [if_true]
        exact allM_foldl_sim s f g F hF1 hF2 is ks rest
      | false =>
        rw [foldl_stuck F hF2 ks _ (by simp)]
        exact ⟨.ok false, rfl, .ok false⟩
    | err h =>
      rw [foldl_stuck F hF2 ks _ (by simp)]
      exact ⟨_, rfl, .err h⟩
    | fuel hlt =>
      rw [foldl_stuck F hF2 ks _ (by simp)]
      exact ⟨_, rfl, .fuel hlt⟩

theorem Forall2.zip {α β γ δ} {R : α → β → Prop} {S : γ → δ → Prop} :
    ∀ {as bs cs ds}, Forall2 R as bs → Forall2 S cs ds →
      Forall2 (fun (p : α × γ) (q : β × δ) => R p.1 q.1 ∧ S p.2 q.2) (as.zip cs) (bs.zip ds)
  | _, _, _, _, .nil, _ => by simp; exact .nil
  | _, _, _, _, .cons _ _, .nil => by simp; exact .nil
  | _, _, _, _, .cons r rest, .cons s rest' => by
    simp only [List.zip_cons_cons]
    exact .cons ⟨r, s⟩ (Forall2.zip rest rest')

/-! ### the right-hand dictionary: model `lookup` in the cell against spec `lookupA` in the value -/

theorem lookupA_of_forall2 {child : Addr → Option (SVal ν)} (rv : List (String × Addr)) :
    ∀ (ks : List String) (ys : List (String × SVal ν)),
      Forall2 (fun key (kv : String × SVal ν) => kv.1 = key ∧ ∃ a, lookup key rv = some a ∧ child a = some kv.2) ks ys →
      ∀ key, lookupA key ys = if key ∈ ks then (lookup key rv).bind child else none
  | _, _, .nil, key => by simp [lookupA]
  | k0 :: ks, (k1, v1) :: ys, .cons ⟨h1, a, h2, h3⟩ rest, key => by
    subst h1
    by_cases h : key = k1
    · subst h; simp [lookupA, h2, h3]
    · simp [lookupA, h, lookupA_of_forall2 rv ks ys rest key]

theorem right_lookup {child : Addr → Option (SVal ν)} (rv : List (String × Addr)) (ys : List (String × SVal ν))
    (hf : Forall2 (fun key (kv : String × SVal ν) => kv.1 = key ∧ ∃ a, lookup key rv = some a ∧ child a = some kv.2)
      (rv.map Prod.fst) ys) (key : String) :
    (lookup key rv = none ∧ lookupA key ys = none) ∨
    (∃ b v, lookup key rv = some b ∧ lookupA key ys = some v ∧ child b = some v) := by
  have hA := lookupA_of_forall2 rv _ ys hf key
  cases hl : lookup key rv with
  | none =>
    have := (lookup_eq_none_iff key rv).1 hl
    exact .inl ⟨rfl, by rw [hA]; simp [this]⟩
  | some b =>
    have hmem : key ∈ rv.map Prod.fst := by
      apply Classical.byContradiction; intro hn
      rw [(lookup_eq_none_iff key rv).2 hn] at hl; cases hl
    rw [if_pos hmem, hl] at hA
    -- `child b` is defined because `key` occurs in the key order
    have : ∀ (ks : List String) (ys : List (String × SVal ν)),
        Forall2 (fun key (kv : String × SVal ν) => kv.1 = key ∧ ∃ a, lookup key rv = some a ∧ child a = some kv.2) ks ys →
        key ∈ ks → ∃ v, child b = some v := by
      intro ks ys hf
      induction hf with
      | nil => intro h; cases h
      | cons hab _ ih =>
        intro hm
        rcases List.mem_cons.1 hm with rfl | hm
        · obtain ⟨_, a, h2, h3⟩ := hab
          rw [hl] at h2; cases h2; exact ⟨_, h3⟩
        · exact ih hm
    obtain ⟨v, hv⟩ := this _ _ hf hmem
    exact .inr ⟨b, v, rfl, by rw [hA]; simpa using hv, hv⟩

/-! ### scalar left operands on the spec side -/

theorem valEq_opaque_left (n : Nat) (a b : SVal ν) (ha : isOpaque a = true) : valEq (n+1) a b = none := by
  cases a <;> first | (simp only [valEq]; done) | simp [isOpaque] at ha

def stepList (n : Nat) : Option Bool → SVal ν × SVal ν → Option Bool := fun acc p =>
  match acc with
  | some true => valEq n p.1 p.2
  | r => r

def stepDict (n : Nat) (ys : List (String × SVal ν)) : Option Bool → String × SVal ν → Option Bool := fun acc kv =>
  match acc with
  | some true => match lookupA kv.1 ys with
    | some v => valEq n kv.2 v
    | none => some false
  | r => r

theorem valEq_list (n : Nat) (xs ys : List (SVal ν)) : valEq (n+1) (.list xs) (.list ys) =
    if xs.length ≠ ys.length then some false else (xs.zip ys).foldl (stepList n) (some true) := by
  simp only [valEq]; rfl

theorem valEq_dict (n : Nat) (xs ys : List (String × SVal ν)) : valEq (n+1) (.dict xs) (.dict ys) =
    if xs.length ≠ ys.length then some false else xs.foldl (stepDict n ys) (some true) := by
  simp only [valEq]; rfl

theorem stepList_stuck (n : Nat) (r : Option Bool) (p : SVal ν × SVal ν) (hr : r ≠ some true) : stepList n r p = r := by
  cases r with
  | none => rfl
  | some b => cases b <;> simp at hr ⊢ <;> rfl

theorem stepDict_stuck (n : Nat) (ys : List (String × SVal ν)) (r : Option Bool) (p : String × SVal ν) (hr : r ≠ some true) :
    stepDict n ys r p = r := by
  cases r with
  | none => rfl
  | some b => cases b <;> simp at hr ⊢ <;> rfl

/-! ### the comparison -/

theorem cmp_sim (ω : Addr → Option (SVal ν)) (s : VM ν) : ∀ (n k : Nat) (l r : Addr) (a b : SVal ν),
    contentW ω k s.heap l = some a → contentW ω k s.heap r = some b →
    ∃ X, compareXEQ n l r s = (X, s) ∧ CmpRel (∀ x, ω x = none) n k X (valEq n a b)
  | 0, k, l, r, a, b, hl, _ => ⟨.fuel, rfl, .fuel (contentW_pos hl)⟩
  | n+1, 0, l, r, a, b, hl, _ => by simp [contentW] at hl
  | n+1, k+1, l, r, a, b, hl, hr => by
    obtain ⟨cl, hcl, ll⟩ := (contentW_succ_iff ω k _ _ _).1 hl
    obtain ⟨cr, hcr, lr⟩ := (contentW_succ_iff ω k _ _ _).1 hr
    have ih := fun l r a b => cmp_sim ω s n k l r a b
    simp only [compareXEQ]
    rw [getCell_bind _ hcl, getCell_bind _ hcr]
    cases cl <;> simp only [Layer] at ll
    case null | num | str | bool =>
      subst ll
      cases cr <;> simp only [Layer] at lr <;> try subst lr
      all_goals first
        | exact ⟨_, rfl, by simp only [valEq]; exact .ok _⟩
        | (obtain ⟨_, rfl, _⟩ := lr; exact ⟨_, rfl, by simp only [valEq]; exact .ok _⟩)
        | (obtain ⟨_, _, rfl, _⟩ := lr; exact ⟨_, rfl, by simp only [valEq]; exact .ok _⟩)
        | (obtain ⟨_, hop⟩ := lr; cases b <;> simp [isOpaque] at hop <;>
            exact ⟨_, rfl, by simp only [valEq]; exact .ok _⟩)
    case arr xs =>
      obtain ⟨as, rfl, hxs⟩ := ll
      cases cr <;> simp only [Layer] at lr
      case arr ys =>
        obtain ⟨bs, rfl, hys⟩ := lr
        rw [valEq_list]
        simp only [hxs.length_eq, hys.length_eq]
        split
        · exact ⟨_, rfl, .ok _⟩
        · exact allM_foldl_sim (n := n) (k0 := k) s _ (fun (p : SVal ν × SVal ν) => valEq n p.1 p.2) (stepList n)
            (fun _ => rfl) (stepList_stuck n) _ _ ((hxs.zip hys).imp fun p q ⟨h1, h2⟩ => ih _ _ _ _ h1 h2)
            |>.imp fun X hX => ⟨hX.1, hX.2.succ⟩
      all_goals first
        | (subst lr; exact ⟨_, rfl, by simp only [valEq]; exact .ok _⟩)
        | (obtain ⟨_, _, rfl, _⟩ := lr; exact ⟨_, rfl, by simp only [valEq]; exact .ok _⟩)
        | (obtain ⟨_, hop⟩ := lr; cases b <;> simp [isOpaque] at hop <;>
            exact ⟨_, rfl, by simp only [valEq]; exact .ok _⟩)
    case hm lv lo =>
      obtain ⟨hlo, xs, rfl, hxs⟩ := ll
      cases cr <;> simp only [Layer] at lr
      case hm rv ro =>
        obtain ⟨hro, ys, rfl, hys⟩ := lr
        rw [valEq_dict]
        have e1 : lv.length = xs.length := by rw [← hxs.length_eq, hlo]; simp
        have e2 : rv.length = ys.length := by rw [← hys.length_eq, hro]; simp
        simp only [e1, e2]
        split
        · exact ⟨_, rfl, .ok _⟩
        · subst hro
          refine allM_foldl_sim (n := n) (k0 := k) s _
            (fun (kv : String × SVal ν) => match lookupA kv.1 ys with
              | some v => valEq n kv.2 v
              | none => some false) (stepDict n ys)
            (fun _ => rfl) (stepDict_stuck n ys) _ _ (hxs.imp fun key kv ⟨h1, a, h2, h3⟩ => ?_)
            |>.imp fun X hX => ⟨hX.1, hX.2.succ⟩
          subst h1
          rcases right_lookup rv ys hys kv.1 with ⟨hn, hn'⟩ | ⟨b, v, hb, hv, hbv⟩
          · simp only [hn, hn']; exact ⟨_, rfl, .ok _⟩
          · simp only [hb, hv, h2]; exact ih _ _ _ _ h3 hbv
      all_goals first
        | (subst lr; exact ⟨_, rfl, by simp only [valEq]; exact .ok _⟩)
        | (obtain ⟨_, rfl, _⟩ := lr; exact ⟨_, rfl, by simp only [valEq]; exact .ok _⟩)
        | (obtain ⟨_, hop⟩ := lr; cases b <;> simp [isOpaque] at hop <;>
            exact ⟨_, rfl, by simp only [valEq]; exact .ok _⟩)
    all_goals
      obtain ⟨_, hop⟩ := ll
      rename_i hω
      exact ⟨_, rfl, by rw [valEq_opaque_left n a b hop]; exact .err fun h => by rw [h] at hω; cases hω⟩

/-! ### operands of different plain types -/

/-- the plain type of a cell (number, text, boolean, 空, list, dictionary); `none` for objects, methods, types, exceptions -/
def cellTag : Cell ν → Option Nat
  | .num _ => some 0
  | .str _ => some 1
  | .bool _ => some 2
  | .null => some 3
  | .arr _ => some 4
  | .hm _ _ => some 5
  | _ => none

def valTag : SVal ν → Option Nat
  | .num _ => some 0
  | .str _ => some 1
  | .bool _ => some 2
  | .null => some 3
  | .list _ => some 4
  | .dict _ => some 5
  | _ => none

theorem compareXEQ_tags_differ (n : Nat) (s : VM ν) (l r : Addr) (cl cr : Cell ν)
    (hl : s.heap[l]? = some cl) (hr : s.heap[r]? = some cr) (t : Nat)
    (h1 : cellTag cl = some t) (h2 : cellTag cr ≠ some t) : compareXEQ (n+1) l r s = (.ok false, s) := by
  simp only [compareXEQ]
  rw [getCell_bind _ hl, getCell_bind _ hr]
  cases cl <;> simp only [cellTag, Option.some.injEq, reduceCtorEq] at h1 <;> subst h1 <;>
    cases cr <;> first | rfl | exact absurd rfl h2

theorem valEq_tags_differ (n : Nat) (a b : SVal ν) (t : Nat)
    (h1 : valTag a = some t) (h2 : valTag b ≠ some t) : valEq (n+1) a b = some false := by
  cases a <;> simp only [valTag, Option.some.injEq, reduceCtorEq] at h1 <;> subst h1 <;>
    cases b <;> first | (simp only [valEq]; done) | exact absurd rfl h2

end ZnVerif.Proofs
