/-
Completeness of `RetPath` (C02 `return_path_complete`): a block / statement that starts with the return slot of its
frame empty and ends normally with the slot holding `rv` has run along a `RetPath` into a 输出 statement — nothing but
a 输出 statement of the block (at some depth of blocks, 如果 alternatives, 每当 / 遍历 passes) sets the slot of the frame the
block runs in.

Ingredients: `Keep` (Proofs/RetKeep: expressions, calls, constructors, declarations leave the caller's stack — hence
its return slot — alone when they end normally, and never end with a loop signal), and an induction on fuel over
statements and blocks that reads the path off the run.  The induction carries a second fact: a statement / block that
ends with a loop signal leaves the slot empty (otherwise the next pass of the loop that catches the signal would start
with the slot set).
-/
import ZnVerif.Proofs.ControlFlow
import ZnVerif.Proofs.RetKeep
set_option linter.unusedSectionVars false
set_option linter.unusedSimpArgs false
set_option linter.unusedVariables false

namespace ZnVerif.Proofs.RetPathComplete
open ZnVerif.Model ZnVerif.Proofs.ControlFlow
open ZnVerif.Proofs.StackBal (resIsOk resIsSig isSig)
open ZnVerif.Proofs.RetKeep (Keep SameL slotOf)

variable {ν : Type} [NumOps ν]

/-! ## generic inversion lemmas -/

theorem retSlot_eq_slotOf (s : VM ν) : retSlot s = slotOf s.stack := by
  unfold retSlot slotOf
  cases s.stack <;> rfl

/-- what `Keep` says about one run -/
theorem keep_run {α} {m : M ν α} (hk : Keep m) {s s' : VM ν} {r : Res α} (h : m s = (r, s')) :
    (resIsOk r = true → retSlot s' = retSlot s) ∧ resIsSig r = false := by
  have h1 := hk.same s; have h2 := hk.nosig s
  rw [h] at h1 h2
  exact ⟨fun hok => by rw [retSlot_eq_slotOf, retSlot_eq_slotOf]; exact (h1 hok).slot, h2⟩

theorem bind_inv {α β} {m : M ν α} {f : α → M ν β} {s s' : VM ν} {r : Res β} (h : (m >>= f) s = (r, s')) :
    (∃ a s1, m s = (.ok a, s1) ∧ f a s1 = (r, s')) ∨
    (∃ rb, m s = (rb, s') ∧ resIsOk rb = false ∧ resIsOk r = false ∧ resIsSig r = resIsSig rb) := by
  rcases hm : m s with ⟨rb, s1⟩
  cases rb with
  | ok a => exact .inl ⟨a, s1, rfl, by rw [bind_ok hm] at h; exact h⟩
  | err e => rw [bind_err hm] at h; cases h; exact .inr ⟨_, rfl, rfl, rfl, rfl⟩
  | panic =>
    have : (m >>= f) s = (.panic, s1) := by simp [bind, hm]
    rw [this] at h; cases h; exact .inr ⟨_, rfl, rfl, rfl, rfl⟩
  | fuel =>
    have : (m >>= f) s = (.fuel, s1) := by simp [bind, hm]
    rw [this] at h; cases h; exact .inr ⟨_, rfl, rfl, rfl, rfl⟩
  | unmodelled =>
    have : (m >>= f) s = (.unmodelled, s1) := by simp [bind, hm]
    rw [this] at h; cases h; exact .inr ⟨_, rfl, rfl, rfl, rfl⟩

theorem getCell_inv {a : Addr} {s s' : VM ν} {r : Res (Cell ν)} (h : getCell a s = (r, s')) :
    s' = s ∧ ((∃ c, r = .ok c ∧ s.heap[a]? = some c) ∨ (r = .panic)) := by
  unfold getCell at h
  split at h <;> cases h
  · rename_i c hc; exact ⟨rfl, .inl ⟨c, rfl, hc⟩⟩
  · exact ⟨rfl, .inr rfl⟩

theorem getCell_bind_inv {β} {a : Addr} {k : Cell ν → M ν β} {s s' : VM ν} {r : Res β}
    (h : (getCell a >>= k) s = (r, s')) :
    (∃ c, s.heap[a]? = some c ∧ k c s = (r, s')) ∨ (r = .panic ∧ s' = s) := by
  cases hc : s.heap[a]? with
  | some c =>
    have hg : getCell a s = (.ok c, s) := by simp [getCell, hc]
    rw [bind_ok hg] at h
    exact .inl ⟨c, rfl, h⟩
  | none =>
    have hg : (getCell a >>= k) s = (.panic, s) := by simp [getCell, bind, hc]
    rw [hg] at h; cases h
    exact .inr ⟨rfl, rfl⟩

theorem pure_inv {α} {a : α} {s s' : VM ν} {r : Res α} (h : (pure a : M ν α) s = (r, s')) : r = .ok a ∧ s' = s := by
  cases h; exact ⟨rfl, rfl⟩

theorem newNull_inv {s s' : VM ν} {r : Res Addr} (h : newNull s = (r, s')) :
    r = .ok s.heap.size ∧ s' = (newNull s).2 := by
  rw [newNull_eq] at h; cases h; exact ⟨rfl, rfl⟩

/-- evaluating a condition and reading it as a boolean (the shape shared by 如果, 再如, 每当) -/
theorem cond_inv {β} {n : Nat} {c : Expr} {k : Cell ν → M ν β}
    (hk : ∀ cell, (∀ b, cell ≠ .bool b) → ∀ s, k cell s = (.err (.rt 80), s))
    {s s' : VM ν} {r : Res β} (h0 : retSlot s = none)
    (h : (evalExpr n c >>= fun a => getCell a >>= k) s = (r, s')) :
    (∃ a s1 b, evalExpr n c s = (.ok a, s1) ∧ retSlot s1 = none ∧ s1.heap[a]? = some (.bool b) ∧
      k (.bool b) s1 = (r, s')) ∨
    (resIsOk r = false ∧ resIsSig r = false) := by
  have hK := RetKeep.allKeep (ν := ν) n
  rcases bind_inv h with ⟨a, s1, hc, h1⟩ | ⟨rb, hc, -, hnok, hsig⟩
  · have h10 : retSlot s1 = none := by rw [(keep_run (hK.evalExpr c) hc).1 rfl]; exact h0
    rcases getCell_bind_inv h1 with ⟨cell, hcell, h2⟩ | ⟨rfl, rfl⟩
    · by_cases hb : ∃ b, cell = .bool b
      · obtain ⟨b, rfl⟩ := hb
        exact .inl ⟨a, s1, b, hc, h10, hcell, h2⟩
      · rw [hk cell (fun b hbb => hb ⟨b, hbb⟩)] at h2
        cases h2; exact .inr ⟨rfl, rfl⟩
    · exact .inr ⟨rfl, rfl⟩
  · exact .inr ⟨hnok, by rw [hsig]; exact (keep_run (hK.evalExpr c) hc).2⟩

/-! ## what the induction proves -/

/-- the outcome `(r, s')` of evaluating `nd` from `s` (slot empty): a normal end with the slot set came along a
`RetPath`; a loop signal leaves the slot empty -/
def Post {α} (n : Nat) (nd : Node) (s : VM ν) (r : Res α) (s' : VM ν) : Prop :=
  (resIsOk r = true → ∀ rv, retSlot s' = some rv → ∃ sr, RetPath n nd s rv sr s') ∧
  (resIsSig r = true → retSlot s' = none)

def StmtC (ν : Type) [NumOps ν] (n : Nat) : Prop :=
  ∀ (st : Stmt) (s s' : VM ν) (r : Res Addr), retSlot s = none → evalStmt n st s = (r, s') → Post n (.stmt st) s r s'

def BlockC (ν : Type) [NumOps ν] (n : Nat) : Prop :=
  ∀ (b : Option (List Stmt)) (s s' : VM ν) (r : Res (Option Addr)), retSlot s = none →
    evalPureStmtBlock n b s = (r, s') → Post n (.block b) s r s'

/-- a run that cannot have touched the slot and is not a loop signal -/
theorem Post.of_keep {α} {m : M ν α} (hk : Keep m) {n : Nat} {nd : Node} {s s0 s' : VM ν} {r : Res α}
    (h0 : retSlot s0 = none) (h : m s0 = (r, s')) : Post n nd s r s' := by
  obtain ⟨h1, h2⟩ := keep_run hk h
  refine ⟨fun hok rv hrv => ?_, fun hs => ?_⟩
  · rw [h1 hok, h0] at hrv; cases hrv
  · rw [h2] at hs; cases hs

theorem Post.of_fail {α} {n : Nat} {nd : Node} {s s' : VM ν} {r : Res α}
    (h1 : resIsOk r = false) (h2 : resIsSig r = false) : Post n nd s r s' :=
  ⟨fun hok => (by rw [h1] at hok; cases hok), fun hs => (by rw [h2] at hs; cases hs)⟩

theorem Post.of_empty {α} {n : Nat} {nd : Node} {s s' : VM ν} {r : Res α}
    (h1 : retSlot s' = none) : Post n nd s r s' :=
  ⟨fun _ rv hrv => (by rw [h1] at hrv; cases hrv), fun _ => h1⟩

/-! ## blocks -/

theorem stmtsLoop_post {n : Nat} (hS : StmtC ν n) :
    ∀ (stmts : List Stmt) (last : Option Addr) (s s' : VM ν) (r : Res (Option Addr)), retSlot s = none →
      stmtsLoop (evalStmt n) last stmts s = (r, s') →
      (resIsOk r = true → ∀ rv, retSlot s' = some rv →
        ∃ pre st post last1 s1 sr, stmts = pre ++ st :: post ∧ Steps (evalStmt n) last pre s last1 s1 ∧
          isDecl st = false ∧ RetPath n (.stmt st) s1 rv sr s') ∧
      (resIsSig r = true → retSlot s' = none) := by
  intro stmts
  induction stmts with
  | nil =>
    intro last s s' r h0 h
    simp only [stmtsLoop] at h
    obtain ⟨rfl, rfl⟩ := pure_inv h
    exact ⟨fun _ rv hrv => (by rw [h0] at hrv; cases hrv), fun hs => (by cases hs)⟩
  | cons st rest ih =>
    intro last s s' r h0 h
    cases hd : isDecl st with
    | true =>
      have hstep : stmtsLoop (evalStmt n) last (st :: rest) s = stmtsLoop (evalStmt n) last rest s := by
        simp [stmtsLoop, hd, bind, getReturnValue_eq, h0, pure]
      rw [hstep] at h
      obtain ⟨p1, p2⟩ := ih last s s' r h0 h
      refine ⟨fun hok rv hrv => ?_, p2⟩
      obtain ⟨pre, st', post, last1, s1, sr, rfl, hsteps, hnd, hp⟩ := p1 hok rv hrv
      exact ⟨st :: pre, st', post, last1, s1, sr, rfl, .decl hd h0 hsteps, hnd, hp⟩
    | false =>
      rcases he : evalStmt n st s with ⟨r1, s1⟩
      have hP := hS st s s1 r1 h0 he
      cases r1 with
      | ok v =>
        cases hr : retSlot s1 with
        | none =>
          have hstep : stmtsLoop (evalStmt n) last (st :: rest) s = stmtsLoop (evalStmt n) (some v) rest s1 := by
            simp [stmtsLoop, hd, bind, he, getReturnValue_eq, hr, pure]
          rw [hstep] at h
          obtain ⟨p1, p2⟩ := ih (some v) s1 s' r hr h
          refine ⟨fun hok rv hrv => ?_, p2⟩
          obtain ⟨pre, st', post, last1, s2, sr, rfl, hsteps, hnd, hp⟩ := p1 hok rv hrv
          exact ⟨st :: pre, st', post, last1, s2, sr, rfl, .stmt hd he hr hsteps, hnd, hp⟩
        | some rv' =>
          rw [stmtsLoop_hit hd he hr] at h
          cases h
          refine ⟨fun _ rv hrv => ?_, fun hs => (by cases hs)⟩
          obtain ⟨sr, hp⟩ := hP.1 rfl rv hrv
          exact ⟨[], st, rest, last, s, sr, rfl, .nil _ _, hd, hp⟩
      | err e =>
        rw [stmtsLoop_fail hd he] at h
        cases h
        exact ⟨fun hok => (by cases hok), hP.2⟩
      | panic =>
        have : stmtsLoop (evalStmt n) last (st :: rest) s = (.panic, s1) := by simp [stmtsLoop, hd, bind, he]
        rw [this] at h; cases h
        exact ⟨fun hok => (by cases hok), fun hs => (by cases hs)⟩
      | fuel =>
        have : stmtsLoop (evalStmt n) last (st :: rest) s = (.fuel, s1) := by simp [stmtsLoop, hd, bind, he]
        rw [this] at h; cases h
        exact ⟨fun hok => (by cases hok), fun hs => (by cases hs)⟩
      | unmodelled =>
        have : stmtsLoop (evalStmt n) last (st :: rest) s = (.unmodelled, s1) := by simp [stmtsLoop, hd, bind, he]
        rw [this] at h; cases h
        exact ⟨fun hok => (by cases hok), fun hs => (by cases hs)⟩

theorem blockC_succ {n : Nat} (hS : StmtC ν n) : BlockC ν (n+1) := by
  intro b s s' r h0 h
  cases b with
  | none =>
    have : evalPureStmtBlock (ν := ν) (n+1) none s = (.panic, s) := by simp [evalPureStmtBlock, goPanic]
    rw [this] at h; cases h
    exact Post.of_fail rfl rfl
  | some stmts =>
    rw [evalPureStmtBlock_eq, withScope_eq] at h
    rcases hb : stmtsLoop (evalStmt n) none stmts (enterScope s) with ⟨r0, s0⟩
    rw [hb] at h
    cases h
    obtain ⟨p1, p2⟩ := stmtsLoop_post hS stmts none (enterScope s) s0 r0 (by rw [retSlot_enterScope]; exact h0) hb
    refine ⟨fun hok rv hrv => ?_, fun hs => (by rw [retSlot_leaveScope]; exact p2 hs)⟩
    rw [retSlot_leaveScope] at hrv
    obtain ⟨pre, st, post, last1, s1, sr, rfl, hsteps, hnd, hp⟩ := p1 hok rv hrv
    exact ⟨sr, .block hsteps hnd hp⟩

/-! ## 如果 -/

theorem bind_newNull_post {α} {n : Nat} {nd : Node} {m : M ν α} {s0 s1 s' : VM ν} {r : Res Addr}
    (h : (m >>= fun _ => newNull) s1 = (r, s'))
    (hm : ∀ rb s2, m s1 = (rb, s2) →
      (resIsOk rb = true → ∀ rv, retSlot s2 = some rv → ∃ sr, RetPath n nd s0 rv sr (newNull s2).2) ∧
      (resIsSig rb = true → retSlot s2 = none)) :
    Post n nd s0 r s' := by
  rcases bind_inv h with ⟨a, s2, hb, h1⟩ | ⟨rb, hb, -, hnok, hsig⟩
  · obtain ⟨rfl, rfl⟩ := newNull_inv h1
    exact ⟨fun _ rv hrv => (hm _ _ hb).1 rfl rv hrv, fun hs => (by cases hs)⟩
  · exact ⟨fun hok => (by rw [hnok] at hok; cases hok), fun hs => (hm _ _ hb).2 (by rw [← hsig]; exact hs)⟩

theorem firstM_post {n : Nat} (hB : BlockC ν n) (he : Bool) (elseB : Option (List Stmt)) :
    ∀ (others : List (Expr × Option (List Stmt))) (s1 s' : VM ν) (r : Res Unit), retSlot s1 = none →
      firstM (branchOther n) (branchElse n he elseB) others s1 = (r, s') →
      (resIsOk r = true → ∀ rv, retSlot s' = some rv →
        (∃ pre oc ob post s2 s3 b sr, others = pre ++ (oc, ob) :: post ∧ CondsFalse n pre s1 s2 ∧
          evalExpr n oc s2 = (.ok b, s3) ∧ s3.heap[b]? = some (.bool true) ∧ RetPath n (.block ob) s3 rv sr s') ∨
        (he = true ∧ ∃ s2 sr, CondsFalse n others s1 s2 ∧ RetPath n (.block elseB) s2 rv sr s')) ∧
      (resIsSig r = true → retSlot s' = none) := by
  intro others
  induction others with
  | nil =>
    intro s1 s' r h0 h
    simp only [firstM] at h
    unfold branchElse at h
    cases he with
    | false =>
      obtain ⟨rfl, rfl⟩ := pure_inv h
      exact ⟨fun _ rv hrv => (by rw [h0] at hrv; cases hrv), fun hs => (by cases hs)⟩
    | true =>
      simp only [if_true] at h
      rcases bind_inv h with ⟨a, s2, hb, h1⟩ | ⟨rb, hb, -, hnok, hsig⟩
      · obtain ⟨rfl, rfl⟩ := pure_inv h1
        refine ⟨fun _ rv hrv => .inr ⟨rfl, s1, ?_⟩, fun hs => (by cases hs)⟩
        obtain ⟨sr, hp⟩ := (hB elseB s1 _ _ h0 hb).1 rfl rv hrv
        exact ⟨sr, .nil _, hp⟩
      · exact ⟨fun hok => (by rw [hnok] at hok; cases hok),
          fun hs => (hB elseB s1 _ _ h0 hb).2 (by rw [← hsig]; exact hs)⟩
  | cons o os ih =>
    intro s1 s' r h0 h
    simp only [firstM] at h
    rcases bind_inv h with ⟨x, s2, hx, h1⟩ | ⟨rb, hx, -, hnok, hsig⟩
    · -- the alternative answered (`some ()`: its block ran; `none`: its condition was 假)
      unfold branchOther at hx
      rcases cond_inv (k := fun cell => match cell with
          | .bool true => do let _ ← evalPureStmtBlock n o.2; pure (some ())
          | .bool false => pure none
          | _ => rtErr 80)
          (by intro cell hc s; cases cell <;> first | rfl | (rename_i b; exact absurd rfl (hc b)))
          h0 hx with ⟨a, s1', b, hc, h10, hcell, hk⟩ | ⟨hnok, -⟩
      · cases b with
        | true =>
          simp only at hk
          rcases bind_inv hk with ⟨y, s3, hb, h2⟩ | ⟨rb, hb, -, hnok, -⟩
          · obtain ⟨hxe, rfl⟩ := pure_inv h2
            cases hxe
            simp only at h1
            obtain ⟨rfl, rfl⟩ := pure_inv h1
            refine ⟨fun _ rv hrv => .inl ?_, fun hs => (by cases hs)⟩
            obtain ⟨sr, hp⟩ := (hB o.2 s1' _ _ h10 hb).1 rfl rv hrv
            exact ⟨[], o.1, o.2, os, s1, s1', a, sr, rfl, .nil _, hc, hcell, hp⟩
          · cases hnok
        | false =>
          simp only at hk
          obtain ⟨hxe, rfl⟩ := pure_inv hk
          cases hxe
          simp only at h1
          obtain ⟨p1, p2⟩ := ih s2 s' r h10 h1
          refine ⟨fun hok rv hrv => ?_, p2⟩
          rcases p1 hok rv hrv with ⟨pre, oc, ob, post, s3, s4, b, sr, rfl, hcf, hoc, hot, hp⟩ | ⟨hhe, s3, sr, hcf, hp⟩
          · exact .inl ⟨o :: pre, oc, ob, post, s3, s4, b, sr, rfl, .cons hc hcell hcf, hoc, hot, hp⟩
          · exact .inr ⟨hhe, s3, sr, .cons hc hcell hcf, hp⟩
      · cases hnok
    · -- the alternative failed
      refine ⟨fun hok => (by rw [hnok] at hok; cases hok), fun hs => ?_⟩
      rw [hsig] at hs
      unfold branchOther at hx
      rcases cond_inv (k := fun cell => match cell with
          | .bool true => do let _ ← evalPureStmtBlock n o.2; pure (some ())
          | .bool false => pure none
          | _ => rtErr 80)
          (by intro cell hc s; cases cell <;> first | rfl | (rename_i b; exact absurd rfl (hc b)))
          h0 hx with ⟨a, s1', b, hc, h10, hcell, hk⟩ | ⟨-, hns⟩
      · cases b with
        | true =>
          simp only at hk
          rcases bind_inv hk with ⟨y, s3, hb, h2⟩ | ⟨rb', hb, -, -, hsig'⟩
          · obtain ⟨hxe, rfl⟩ := pure_inv h2
            subst hxe; cases hs
          · exact (hB o.2 s1' _ _ h10 hb).2 (by rw [← hsig']; exact hs)
        | false =>
          simp only at hk
          obtain ⟨hxe, rfl⟩ := pure_inv hk
          subst hxe; cases hs
      · rw [hns] at hs; cases hs

theorem branch_post {n : Nat} (hB : BlockC ν n) (ln : Nat) (c : Expr) (ifB : Option (List Stmt))
    (others : List (Expr × Option (List Stmt))) (he : Bool) (elseB : Option (List Stmt)) (s s' : VM ν) (r : Res Addr)
    (h0 : retSlot s = none) (h : evalStmt (n+1) (.branch ln c ifB others he elseB) s = (r, s')) :
    Post (n+1) (.stmt (.branch ln c ifB others he elseB)) s r s' := by
  rw [evalStmt_branch] at h
  have h0' : retSlot (setLine ln s) = none := by rw [retSlot_setLine]; exact h0
  rcases cond_inv (k := fun cell => match cell with
      | .bool true => do let _ ← evalPureStmtBlock n ifB; newNull
      | .bool false => do
        firstM (branchOther n) (branchElse n he elseB) others
        newNull
      | _ => rtErr 80)
      (by intro cell hc s; cases cell <;> first | rfl | (rename_i b; exact absurd rfl (hc b)))
      h0' h with ⟨a, s1, b, hc, h10, hcell, hk⟩ | ⟨hnok, hns⟩
  · cases b with
    | true =>
      simp only at hk
      refine bind_newNull_post hk fun rb s2 hb => ?_
      obtain ⟨p1, p2⟩ := hB ifB s1 s2 rb h10 hb
      refine ⟨fun hok rv hrv => ?_, p2⟩
      obtain ⟨sr, hp⟩ := p1 hok rv hrv
      exact ⟨sr, .branchIf hc hcell hp⟩
    | false =>
      simp only at hk
      refine bind_newNull_post hk fun rb s2 hb => ?_
      obtain ⟨p1, p2⟩ := firstM_post hB he elseB others s1 s2 rb h10 hb
      refine ⟨fun hok rv hrv => ?_, p2⟩
      rcases p1 hok rv hrv with ⟨pre, oc, ob, post, s3, s4, b, sr, rfl, hcf, hoc, hot, hp⟩ | ⟨rfl, s3, sr, hcf, hp⟩
      · exact ⟨sr, .branchOther hc hcell hcf hoc hot hp⟩
      · exact ⟨sr, .branchElse hc hcell hcf hp⟩
  · exact Post.of_fail hnok hns

/-! ## 每当 -/

theorem whileStep_post {n : Nat} (hB : BlockC ν n) {c : Expr} {body : Option (List Stmt)} {s s' : VM ν} {r : Res Bool}
    (h0 : retSlot s = none) (h : whileStep n c body s = (r, s')) :
    (r = .ok true → retSlot s' = none ∧ ∃ a s1 rb, evalExpr n c s = (.ok a, s1) ∧ s1.heap[a]? = some (.bool true) ∧
      evalPureStmtBlock n body s1 = (rb, s') ∧ passVerdict rb s' = some true) ∧
    (r = .ok false → ∀ rv, retSlot s' = some rv → ∃ a s1 sr, evalExpr n c s = (.ok a, s1) ∧
      s1.heap[a]? = some (.bool true) ∧ RetPath n (.block body) s1 rv sr s') ∧
    resIsSig r = false := by
  unfold whileStep at h
  rcases cond_inv (k := fun cell => match cell with
      | .bool true =>
        tryCatch (evalPureStmtBlock n body) fun r =>
          match r with
          | .err .sigContinue => pure true
          | .err .sigBreak => pure false
          | .ok _ => do
            match ← getReturnValue with
            | some _ => pure false
            | none => pure true
          | .err e => throwE e
          | .panic => goPanic
          | .fuel => outOfFuel
          | .unmodelled => notModelled
      | .bool false => pure false
      | _ => rtErr 80)
      (by intro cell hc s; cases cell <;> first | rfl | (rename_i b; exact absurd rfl (hc b)))
      h0 h with ⟨a, s1, b, hc, h10, hcell, hk⟩ | ⟨hnok, hns⟩
  · cases b with
    | false =>
      simp only at hk
      obtain ⟨rfl, rfl⟩ := pure_inv hk
      exact ⟨fun hr => (by cases hr), fun _ rv hrv => (by rw [h10] at hrv; cases hrv), rfl⟩
    | true =>
      simp only [Model.tryCatch] at hk
      rcases hb : evalPureStmtBlock n body s1 with ⟨rb, s2⟩
      rw [hb] at hk
      obtain ⟨p1, p2⟩ := hB body s1 s2 rb h10 hb
      cases rb with
      | ok x =>
        simp only at hk
        cases hrs : retSlot s2 with
        | none =>
          have : r = .ok true ∧ s' = s2 := by
            simp [bind, getReturnValue_eq, hrs, pure] at hk; exact ⟨hk.1.symm, hk.2.symm⟩
          obtain ⟨rfl, rfl⟩ := this
          exact ⟨fun _ => ⟨hrs, a, s1, _, hc, hcell, hb, by simp [passVerdict, hrs]⟩, fun hr => (by cases hr), rfl⟩
        | some rv0 =>
          have : r = .ok false ∧ s' = s2 := by
            simp [bind, getReturnValue_eq, hrs, pure] at hk; exact ⟨hk.1.symm, hk.2.symm⟩
          obtain ⟨rfl, rfl⟩ := this
          refine ⟨fun hr => (by cases hr), fun _ rv hrv => ?_, rfl⟩
          obtain ⟨sr, hp⟩ := p1 rfl rv hrv
          exact ⟨a, s1, sr, hc, hcell, hp⟩
      | err e =>
        cases e with
        | sigContinue =>
          simp only at hk
          obtain ⟨rfl, rfl⟩ := pure_inv hk
          exact ⟨fun _ => ⟨p2 rfl, a, s1, _, hc, hcell, hb, rfl⟩, fun hr => (by cases hr), rfl⟩
        | sigBreak =>
          simp only at hk
          obtain ⟨rfl, rfl⟩ := pure_inv hk
          exact ⟨fun hr => (by cases hr), fun _ rv hrv => (by rw [p2 rfl] at hrv; cases hrv), rfl⟩
        | rt code => cases hk; exact ⟨fun hr => (by cases hr), fun hr => (by cases hr), rfl⟩
        | sem code => cases hk; exact ⟨fun hr => (by cases hr), fun hr => (by cases hr), rfl⟩
        | excErr x => cases hk; exact ⟨fun hr => (by cases hr), fun hr => (by cases hr), rfl⟩
        | sigExc x => cases hk; exact ⟨fun hr => (by cases hr), fun hr => (by cases hr), rfl⟩
        | other => cases hk; exact ⟨fun hr => (by cases hr), fun hr => (by cases hr), rfl⟩
      | panic => cases hk; exact ⟨fun hr => (by cases hr), fun hr => (by cases hr), rfl⟩
      | fuel => cases hk; exact ⟨fun hr => (by cases hr), fun hr => (by cases hr), rfl⟩
      | unmodelled => cases hk; exact ⟨fun hr => (by cases hr), fun hr => (by cases hr), rfl⟩
  · refine ⟨fun hr => ?_, fun hr => ?_, hns⟩ <;> (subst hr; cases hnok)

theorem whileM_post {n : Nat} (hB : BlockC ν n) (ln : Nat) (c : Expr) (body : Option (List Stmt)) :
    ∀ (k : Nat) (s s' : VM ν) (r : Res Unit), retSlot s = none → whileM k (whileTurn n ln c body) s = (r, s') →
      (resIsOk r = true → ∀ rv, retSlot s' = some rv →
        ∃ j s1 a s2 sr, WhilePasses n ln c body j s s1 ∧ j < k ∧ evalExpr n c (setLine ln s1) = (.ok a, s2) ∧
          s2.heap[a]? = some (.bool true) ∧ RetPath n (.block body) s2 rv sr s') ∧
      resIsSig r = false := by
  intro k
  induction k with
  | zero =>
    intro s s' r h0 h
    simp only [whileM] at h
    cases h
    exact ⟨fun hok => (by cases hok), rfl⟩
  | succ k ih =>
    intro s s' r h0 h
    simp only [whileM] at h
    have h0l : retSlot (setLine ln s) = none := by rw [retSlot_setLine]; exact h0
    rcases bind_inv h with ⟨b, s1, hstep, h1⟩ | ⟨rb, hstep, -, hnok, hsig⟩
    · rw [whileTurn_eq] at hstep
      obtain ⟨q1, q2, -⟩ := whileStep_post hB h0l hstep
      cases b with
      | true =>
        simp only [if_true] at h1
        obtain ⟨h10, a, s0, rb, hc, ht, hb, hv⟩ := q1 rfl
        obtain ⟨p1, p2⟩ := ih s1 s' r h10 h1
        refine ⟨fun hok rv hrv => ?_, p2⟩
        obtain ⟨j, s2, a', s3, sr, hp, hj, hc', ht', hpath⟩ := p1 hok rv hrv
        exact ⟨j+1, s2, a', s3, sr, .succ hc ht hb hv hp, by omega, hc', ht', hpath⟩
      | false =>
        simp only [Bool.false_eq_true, if_false] at h1
        obtain ⟨rfl, rfl⟩ := pure_inv h1
        refine ⟨fun _ rv hrv => ?_, rfl⟩
        obtain ⟨a, s0, sr, hc, ht, hpath⟩ := q2 rfl rv hrv
        exact ⟨0, s, a, s0, sr, .zero _, by omega, hc, ht, hpath⟩
    · refine ⟨fun hok => (by rw [hnok] at hok; cases hok), ?_⟩
      rw [whileTurn_eq] at hstep
      rw [hsig]; exact (whileStep_post hB h0l hstep).2.2

theorem while_post {n : Nat} (hB : BlockC ν n) (ln : Nat) (c : Expr) (body : Option (List Stmt)) (s s' : VM ν)
    (r : Res Addr) (h0 : retSlot s = none) (h : evalStmt (n+1) (.while ln c body) s = (r, s')) :
    Post (n+1) (.stmt (.while ln c body)) s r s' := by
  rw [evalStmt_while] at h
  have h0' : retSlot (setLine ln s) = none := by rw [retSlot_setLine]; exact h0
  refine bind_newNull_post h fun rb s2 hb => ?_
  obtain ⟨p1, p2⟩ := whileM_post hB ln c body n (setLine ln s) s2 rb h0' hb
  refine ⟨fun hok rv hrv => ?_, fun hs => (by rw [p2] at hs; cases hs)⟩
  obtain ⟨j, s1, a, s3, sr, hp, hj, hc, ht, hpath⟩ := p1 hok rv hrv
  exact ⟨sr, .while hp hj hc ht hpath⟩

/-! ## 遍历 -/

theorem quiet_iterBind (n nameLen : Nat) (slots : Option String × Option String) (key v : Addr) :
    StackBal.Quiet (iterBind (ν := ν) n nameLen slots key v) := by
  unfold iterBind
  quiet_tac

theorem quiet_iterSlots (names : List Ident) : StackBal.Quiet (iterSlots (ν := ν) names) := by
  unfold iterSlots
  quiet_tac

theorem iterPass_post {n : Nat} (hB : BlockC ν n) {nameLen : Nat} {slots : Option String × Option String}
    {body : Option (List Stmt)} {key v : Addr} {s s' : VM ν} {r : Res Bool}
    (h0 : retSlot s = none) (h : iterPass n nameLen slots body key v s = (r, s')) :
    (r = .ok false → retSlot s' = none ∧ ∃ s1 rb, iterBind n nameLen slots key v s = (.ok (), s1) ∧
      evalPureStmtBlock n body s1 = (rb, s') ∧ passVerdict rb s' = some true) ∧
    (r = .ok true → ∀ rv, retSlot s' = some rv → ∃ s1 sr, iterBind n nameLen slots key v s = (.ok (), s1) ∧
      RetPath n (.block body) s1 rv sr s') ∧
    resIsSig r = false := by
  unfold iterPass at h
  rw [iterRunBody_eq] at h
  simp only [Model.tryCatch] at h
  rcases hbind : iterBind n nameLen slots key v s with ⟨r1, s1⟩
  obtain ⟨k1, k2⟩ := keep_run (Keep.ofQuiet (quiet_iterBind n nameLen slots key v)) hbind
  cases r1 with
  | ok u =>
    have h10 : retSlot s1 = none := by rw [k1 rfl]; exact h0
    rw [bind_ok hbind] at h
    rcases hb : evalPureStmtBlock n body s1 with ⟨rb, s2⟩
    obtain ⟨p1, p2⟩ := hB body s1 s2 rb h10 hb
    cases rb with
    | ok x =>
      rw [bind_ok hb] at h
      simp only [pure] at h
      cases hrs : retSlot s2 with
      | none =>
        have : r = .ok false ∧ s' = s2 := by
          simp [bind, getReturnValue_eq, hrs, pure] at h; exact ⟨h.1.symm, h.2.symm⟩
        obtain ⟨rfl, rfl⟩ := this
        exact ⟨fun _ => ⟨hrs, s1, _, rfl, hb, by simp [passVerdict, hrs]⟩, fun hr => (by cases hr), rfl⟩
      | some rv0 =>
        have : r = .ok true ∧ s' = s2 := by
          simp [bind, getReturnValue_eq, hrs, pure] at h; exact ⟨h.1.symm, h.2.symm⟩
        obtain ⟨rfl, rfl⟩ := this
        refine ⟨fun hr => (by cases hr), fun _ rv hrv => ?_, rfl⟩
        obtain ⟨sr, hp⟩ := p1 rfl rv hrv
        exact ⟨s1, sr, rfl, hp⟩
    | err e =>
      rw [bind_err hb] at h
      cases e with
      | sigContinue =>
        simp only at h
        obtain ⟨rfl, rfl⟩ := pure_inv h
        exact ⟨fun _ => ⟨p2 rfl, s1, _, rfl, hb, rfl⟩, fun hr => (by cases hr), rfl⟩
      | sigBreak =>
        simp only at h
        obtain ⟨rfl, rfl⟩ := pure_inv h
        exact ⟨fun hr => (by cases hr), fun _ rv hrv => (by rw [p2 rfl] at hrv; cases hrv), rfl⟩
      | rt code => cases h; exact ⟨fun hr => (by cases hr), fun hr => (by cases hr), rfl⟩
      | sem code => cases h; exact ⟨fun hr => (by cases hr), fun hr => (by cases hr), rfl⟩
      | excErr x => cases h; exact ⟨fun hr => (by cases hr), fun hr => (by cases hr), rfl⟩
      | sigExc x => cases h; exact ⟨fun hr => (by cases hr), fun hr => (by cases hr), rfl⟩
      | other => cases h; exact ⟨fun hr => (by cases hr), fun hr => (by cases hr), rfl⟩
    | panic =>
      have : ((evalPureStmtBlock n body >>= fun _ => (pure () : M ν Unit)) s1) = (.panic, s2) := by simp [bind, hb]
      rw [this] at h; cases h; exact ⟨fun hr => (by cases hr), fun hr => (by cases hr), rfl⟩
    | fuel =>
      have : ((evalPureStmtBlock n body >>= fun _ => (pure () : M ν Unit)) s1) = (.fuel, s2) := by simp [bind, hb]
      rw [this] at h; cases h; exact ⟨fun hr => (by cases hr), fun hr => (by cases hr), rfl⟩
    | unmodelled =>
      have : ((evalPureStmtBlock n body >>= fun _ => (pure () : M ν Unit)) s1) = (.unmodelled, s2) := by
        simp [bind, hb]
      rw [this] at h; cases h; exact ⟨fun hr => (by cases hr), fun hr => (by cases hr), rfl⟩
  | err e =>
    rw [bind_err hbind] at h
    have hne : isSig e = false := k2
    cases e <;> first
      | (cases hne; done)
      | (cases h; exact ⟨fun hr => (by cases hr), fun hr => (by cases hr), rfl⟩)
  | panic =>
    have : ((iterBind n nameLen slots key v >>= fun _ => evalPureStmtBlock n body >>= fun _ => (pure () : M ν Unit)) s)
        = (.panic, s1) := by simp [bind, hbind]
    rw [this] at h; cases h; exact ⟨fun hr => (by cases hr), fun hr => (by cases hr), rfl⟩
  | fuel =>
    have : ((iterBind n nameLen slots key v >>= fun _ => evalPureStmtBlock n body >>= fun _ => (pure () : M ν Unit)) s)
        = (.fuel, s1) := by simp [bind, hbind]
    rw [this] at h; cases h; exact ⟨fun hr => (by cases hr), fun hr => (by cases hr), rfl⟩
  | unmodelled =>
    have : ((iterBind n nameLen slots key v >>= fun _ => evalPureStmtBlock n body >>= fun _ => (pure () : M ν Unit)) s)
        = (.unmodelled, s1) := by simp [bind, hbind]
    rw [this] at h; cases h; exact ⟨fun hr => (by cases hr), fun hr => (by cases hr), rfl⟩

theorem untilIdxM_post {n : Nat} (hB : BlockC ν n) (nameLen : Nat) (slots : Option String × Option String)
    (body : Option (List Stmt)) :
    ∀ (items : List Addr) (i : Nat) (s s' : VM ν) (r : Res Unit), retSlot s = none →
      untilIdxM (iterListStep n nameLen slots body) i items s = (r, s') →
      (resIsOk r = true → ∀ rv, retSlot s' = some rv →
        ∃ pre x post s3 s4 sr, items = pre ++ x :: post ∧ ListPasses n nameLen slots body i pre s s3 ∧
          iterBind n nameLen slots s3.heap.size x
            (pushCell (.num (NumOps.ofInt (((i + pre.length : Nat) : Int) + 1))) s3) = (.ok (), s4) ∧
          RetPath n (.block body) s4 rv sr s') ∧
      resIsSig r = false := by
  intro items
  induction items with
  | nil =>
    intro i s s' r h0 h
    rw [untilIdxM_nil] at h; cases h
    exact ⟨fun _ rv hrv => (by rw [h0] at hrv; cases hrv), rfl⟩
  | cons x xs ih =>
    intro i s s' r h0 h
    simp only [untilIdxM] at h
    rcases bind_inv h with ⟨b, s1, hstep, h1⟩ | ⟨rb, hstep, -, hnok, hsig⟩
    · unfold iterListStep at hstep
      have hnum : newNum (NumOps.ofInt ((i : Int) + 1)) s =
          (.ok s.heap.size, pushCell (.num (NumOps.ofInt ((i : Int) + 1))) s) := rfl
      rw [bind_ok hnum] at hstep
      obtain ⟨q1, q2, -⟩ := iterPass_post hB (s := pushCell (.num (NumOps.ofInt ((i : Int) + 1))) s) h0 hstep
      cases b with
      | true =>
        simp only [if_true] at h1
        obtain ⟨rfl, rfl⟩ := pure_inv h1
        refine ⟨fun _ rv hrv => ?_, rfl⟩
        obtain ⟨s4, sr, hbind, hp⟩ := q2 rfl rv hrv
        exact ⟨[], x, xs, s, s4, sr, rfl, .nil _ _, by simpa using hbind, hp⟩
      | false =>
        simp only [Bool.false_eq_true, if_false] at h1
        obtain ⟨h10, s0, rb, hbind, hb, hv⟩ := q1 rfl
        obtain ⟨p1, p2⟩ := ih (i+1) s1 s' r h10 h1
        refine ⟨fun hok rv hrv => ?_, p2⟩
        obtain ⟨pre, y, post, s3, s4, sr, rfl, hp, hbind', hpath⟩ := p1 hok rv hrv
        refine ⟨x :: pre, y, post, s3, s4, sr, rfl, .cons hbind hb hv hp, ?_, hpath⟩
        have : i + (x :: pre).length = i + 1 + pre.length := by simp; omega
        rw [this]; exact hbind'
    · refine ⟨fun hok => (by rw [hnok] at hok; cases hok), ?_⟩
      rw [hsig]
      unfold iterListStep at hstep
      have hnum : newNum (NumOps.ofInt ((i : Int) + 1)) s =
          (.ok s.heap.size, pushCell (.num (NumOps.ofInt ((i : Int) + 1))) s) := rfl
      rw [bind_ok hnum] at hstep
      exact (iterPass_post hB (s := pushCell (.num (NumOps.ofInt ((i : Int) + 1))) s) h0 hstep).2.2

/-- one step of the dictionary loop, read back -/
theorem iterDictStep_inv {n : Nat} {nameLen : Nat} {slots : Option String × Option String}
    {body : Option (List Stmt)} {target : Addr} {k : String} {s s' : VM ν} {r : Res Bool}
    (h : iterDictStep n nameLen slots body target k s = (r, s')) :
    (∃ vals ord v, s.heap[target]? = some (.hm vals ord) ∧ lookup k vals = some v ∧
      iterPass n nameLen slots body s.heap.size v (pushCell (.str k) s) = (r, s')) ∨
    (∃ vals ord, s.heap[target]? = some (.hm vals ord) ∧ lookup k vals = none ∧ r = .ok false ∧ s' = s) ∨
    (resIsOk r = false ∧ resIsSig r = false) := by
  unfold iterDictStep at h
  rcases getCell_bind_inv h with ⟨cell, hcell, h1⟩ | ⟨rfl, rfl⟩
  · cases cell <;> first
      | (cases h1; exact .inr (.inr ⟨rfl, rfl⟩))
      | skip
    rename_i vals ord
    simp only at h1
    cases hl : lookup k vals with
    | none =>
      rw [hl] at h1
      obtain ⟨rfl, rfl⟩ := pure_inv h1
      exact .inr (.inl ⟨vals, ord, hcell, hl, rfl, rfl⟩)
    | some v =>
      rw [hl] at h1
      simp only at h1
      have hstr : newStr k s = (.ok s.heap.size, pushCell (.str k) s) := rfl
      rw [bind_ok hstr] at h1
      exact .inl ⟨vals, ord, v, hcell, hl, h1⟩
  · exact .inr (.inr ⟨rfl, rfl⟩)

theorem untilM_post {n : Nat} (hB : BlockC ν n) (nameLen : Nat) (slots : Option String × Option String)
    (body : Option (List Stmt)) (target : Addr) :
    ∀ (keys : List String) (s s' : VM ν) (r : Res Unit), retSlot s = none →
      untilM (iterDictStep n nameLen slots body target) keys s = (r, s') →
      (resIsOk r = true → ∀ rv, retSlot s' = some rv →
        ∃ pre k post s3 vals' ord' v s4 sr, keys = pre ++ k :: post ∧
          DictPasses n nameLen slots body target pre s s3 ∧
          s3.heap[target]? = some (.hm vals' ord') ∧ lookup k vals' = some v ∧
          iterBind n nameLen slots s3.heap.size v (pushCell (.str k) s3) = (.ok (), s4) ∧
          RetPath n (.block body) s4 rv sr s') ∧
      resIsSig r = false := by
  intro keys
  induction keys with
  | nil =>
    intro s s' r h0 h
    rw [untilM_nil] at h; cases h
    exact ⟨fun _ rv hrv => (by rw [h0] at hrv; cases hrv), rfl⟩
  | cons k ks ih =>
    intro s s' r h0 h
    simp only [untilM] at h
    rcases bind_inv h with ⟨b, s1, hstep, h1⟩ | ⟨rb, hstep, -, hnok, hsig⟩
    · rcases iterDictStep_inv hstep with ⟨vals, ord, v, hcell, hl, hpass⟩ | ⟨vals, ord, hcell, hl, hb, hs1⟩ | ⟨hnok, -⟩
      · obtain ⟨q1, q2, -⟩ := iterPass_post hB (s := pushCell (.str k) s) h0 hpass
        cases b with
        | true =>
          simp only [if_true] at h1
          obtain ⟨rfl, rfl⟩ := pure_inv h1
          refine ⟨fun _ rv hrv => ?_, rfl⟩
          obtain ⟨s4, sr, hbind, hp⟩ := q2 rfl rv hrv
          exact ⟨[], k, ks, s, vals, ord, v, s4, sr, rfl, .nil _, hcell, hl, hbind, hp⟩
        | false =>
          simp only [Bool.false_eq_true, if_false] at h1
          obtain ⟨h10, s0, rb, hbind, hb, hv⟩ := q1 rfl
          obtain ⟨p1, p2⟩ := ih s1 s' r h10 h1
          refine ⟨fun hok rv hrv => ?_, p2⟩
          obtain ⟨pre, k', post, s3, vals', ord', v', s4, sr, rfl, hp, hcell', hl', hbind', hpath⟩ := p1 hok rv hrv
          exact ⟨k :: pre, k', post, s3, vals', ord', v', s4, sr, rfl, .cons hcell hl hbind hb hv hp,
            hcell', hl', hbind', hpath⟩
      · -- the key was removed by an earlier pass: skipped, the machine is unchanged
        cases hb
        rw [hs1] at h1
        simp only [Bool.false_eq_true, if_false] at h1
        obtain ⟨p1, p2⟩ := ih s s' r h0 h1
        refine ⟨fun hok rv hrv => ?_, p2⟩
        obtain ⟨pre, k', post, s3, vals', ord', v', s4, sr, rfl, hp, hcell', hl', hbind', hpath⟩ := p1 hok rv hrv
        exact ⟨k :: pre, k', post, s3, vals', ord', v', s4, sr, rfl, .skip hcell hl hp,
          hcell', hl', hbind', hpath⟩
      · cases hnok
    · refine ⟨fun hok => (by rw [hnok] at hok; cases hok), ?_⟩
      rw [hsig]
      rcases iterDictStep_inv hstep with ⟨vals, ord, v, hcell, hl, hpass⟩ | ⟨vals, ord, -, -, hb, -⟩ | ⟨-, hns⟩
      · exact (iterPass_post hB (s := pushCell (.str k) s) h0 hpass).2.2
      · rw [hb]; rfl
      · exact hns

theorem iterate_post {n : Nat} (hB : BlockC ν n) (ln : Nat) (e : Expr) (names : List Ident)
    (body : Option (List Stmt)) (s s' : VM ν) (r : Res Addr) (h0 : retSlot s = none)
    (h : evalStmt (n+1) (.iterate ln e names body) s = (r, s')) :
    Post (n+1) (.stmt (.iterate ln e names body)) s r s' := by
  rw [evalStmt_iterate] at h
  have h0' : retSlot (enterScope (setLine ln s)) = none := by rw [retSlot_enterScope, retSlot_setLine]; exact h0
  have hK := RetKeep.allKeep (ν := ν) n
  refine bind_newNull_post h fun rb sw hw => ?_
  rw [withScope_eq] at hw
  rcases hbody : (do
      let target ← evalExpr n e
      let slots ← iterSlots names
      iterLoop n names.length slots body target : M ν Unit) (enterScope (setLine ln s)) with ⟨rb', s5⟩
  rw [hbody] at hw
  cases hw
  simp only [retSlot_leaveScope]
  -- the three stages of the body
  rcases bind_inv hbody with ⟨target, s1, hT, h1⟩ | ⟨rx, hT, -, hnok, hsig⟩
  · have h10 : retSlot s1 = none := by rw [(keep_run (hK.evalExpr e) hT).1 rfl]; exact h0'
    rcases bind_inv h1 with ⟨slots, s2, hS, h2⟩ | ⟨rx, hS, -, hnok, hsig⟩
    · have h20 : retSlot s2 = none := by
        rw [(keep_run (Keep.ofQuiet (quiet_iterSlots names)) hS).1 rfl]; exact h10
      unfold iterLoop at h2
      rcases getCell_bind_inv h2 with ⟨cell, hcell, h3⟩ | ⟨rfl, rfl⟩
      · cases cell with
        | arr items =>
          simp only at h3
          obtain ⟨p1, p2⟩ := untilIdxM_post hB names.length slots body items 0 s2 s5 rb' h20 h3
          refine ⟨fun hok rv hrv => ?_, fun hs => (by rw [p2] at hs; cases hs)⟩
          obtain ⟨pre, x, post, s3, s4, sr, rfl, hp, hbind, hpath⟩ := p1 hok rv hrv
          exact ⟨sr, .iterList hT hS hcell hp (by simpa using hbind) hpath⟩
        | hm vals order =>
          simp only at h3
          obtain ⟨p1, p2⟩ := untilM_post hB names.length slots body target order s2 s5 rb' h20 h3
          refine ⟨fun hok rv hrv => ?_, fun hs => (by rw [p2] at hs; cases hs)⟩
          obtain ⟨pre, k, post, s3, vals', ord', v, s4, sr, rfl, hp, hcell', hl, hbind, hpath⟩ := p1 hok rv hrv
          exact ⟨sr, .iterDict hT hS hcell hp hcell' hl hbind hpath⟩
        | num x => cases h3; exact ⟨fun hok => (by cases hok), fun hs => (by cases hs)⟩
        | str x => cases h3; exact ⟨fun hok => (by cases hok), fun hs => (by cases hs)⟩
        | bool x => cases h3; exact ⟨fun hok => (by cases hok), fun hs => (by cases hs)⟩
        | null => cases h3; exact ⟨fun hok => (by cases hok), fun hs => (by cases hs)⟩
        | obj x y => cases h3; exact ⟨fun hok => (by cases hok), fun hs => (by cases hs)⟩
        | fn x => cases h3; exact ⟨fun hok => (by cases hok), fun hs => (by cases hs)⟩
        | cls x y z w => cases h3; exact ⟨fun hok => (by cases hok), fun hs => (by cases hs)⟩
        | exc x => cases h3; exact ⟨fun hok => (by cases hok), fun hs => (by cases hs)⟩
      · exact ⟨fun hok => (by cases hok), fun hs => (by cases hs)⟩
    · exact ⟨fun hok => (by rw [hnok] at hok; cases hok),
        fun hs => (by rw [hsig, (keep_run (Keep.ofQuiet (quiet_iterSlots names)) hS).2] at hs; cases hs)⟩
  · exact ⟨fun hok => (by rw [hnok] at hok; cases hok),
      fun hs => (by rw [hsig, (keep_run (hK.evalExpr e) hT).2] at hs; cases hs)⟩

/-! ## 输出, 结束循环, 继续循环 -/

theorem ret_post {n : Nat} (ln : Nat) (e : Expr) (s s' : VM ν) (r : Res Addr) (h0 : retSlot s = none)
    (h : evalStmt (n+1) (.ret ln e) s = (r, s')) : Post (n+1) (.stmt (.ret ln e)) s r s' := by
  have hK := RetKeep.allKeep (ν := ν) n
  rcases he : evalExpr n e (setLine ln s) with ⟨r1, s1⟩
  obtain ⟨k1, k2⟩ := keep_run (hK.evalExpr e) he
  cases r1 with
  | ok v =>
    cases hst : s1.stack with
    | nil =>
      rw [evalStmt_ret, bind_ok he] at h
      have : r = .ok v ∧ s' = s1 := by
        simp [bind, setTopFrame, modifyVM, hst, pure] at h; exact ⟨h.1.symm, h.2.symm⟩
      obtain ⟨rfl, rfl⟩ := this
      exact Post.of_empty (by simp [retSlot, hst])
    | cons fr rest =>
      rw [evalStmt_ret_ok he hst] at h
      cases h
      refine ⟨fun _ rv hrv => ?_, fun hs => (by cases hs)⟩
      have : rv = v := by simp [retSlot] at hrv; exact hrv.symm
      subst this
      exact ⟨_, .ret he hst⟩
  | err e' =>
    rw [evalStmt_ret, bind_err he] at h; cases h
    exact Post.of_fail rfl k2
  | panic =>
    rw [evalStmt_ret] at h
    have : ((evalExpr n e >>= fun v => (setTopFrame fun fr => { fr with ret := some v }) >>= fun _ => pure v : M ν Addr)
        (setLine ln s)) = (.panic, s1) := by simp [bind, he]
    rw [this] at h; cases h; exact Post.of_fail rfl rfl
  | fuel =>
    rw [evalStmt_ret] at h
    have : ((evalExpr n e >>= fun v => (setTopFrame fun fr => { fr with ret := some v }) >>= fun _ => pure v : M ν Addr)
        (setLine ln s)) = (.fuel, s1) := by simp [bind, he]
    rw [this] at h; cases h; exact Post.of_fail rfl rfl
  | unmodelled =>
    rw [evalStmt_ret] at h
    have : ((evalExpr n e >>= fun v => (setTopFrame fun fr => { fr with ret := some v }) >>= fun _ => pure v : M ν Addr)
        (setLine ln s)) = (.unmodelled, s1) := by simp [bind, he]
    rw [this] at h; cases h; exact Post.of_fail rfl rfl

theorem evalStmt_continue (n ln : Nat) (s : VM ν) :
    evalStmt (n+1) (.continue ln) s = (.err .sigContinue, setLine ln s) := by
  simp only [evalStmt, Stmt.line]
  rw [setLine_bind]; rfl

theorem evalStmt_break (n ln : Nat) (s : VM ν) :
    evalStmt (n+1) (.break ln) s = (.err .sigBreak, setLine ln s) := by
  simp only [evalStmt, Stmt.line]
  rw [setLine_bind]; rfl

/-! ## the induction -/

theorem stmtC_succ {n : Nat} (hB : BlockC ν n) : StmtC ν (n+1) := by
  intro st s s' r h0 h
  cases st with
  | varDecl ln pairs => exact Post.of_keep (RetKeep.keep_evalStmt (n+1) _ rfl) h0 h
  | «while» ln c body => exact while_post hB ln c body s s' r h0 h
  | branch ln c ifB others he elseB => exact branch_post hB ln c ifB others he elseB s s' r h0 h
  | empty ln => exact Post.of_keep (RetKeep.keep_evalStmt (n+1) _ rfl) h0 h
  | funcDecl ln name dt exec => exact Post.of_keep (RetKeep.keep_evalStmt (n+1) _ rfl) h0 h
  | classDecl ln name props methods ctor => exact Post.of_keep (RetKeep.keep_evalStmt (n+1) _ rfl) h0 h
  | iterate ln e names body => exact iterate_post hB ln e names body s s' r h0 h
  | ret ln e => exact ret_post ln e s s' r h0 h
  | throw ln cls params => exact Post.of_keep (RetKeep.keep_evalStmt (n+1) _ rfl) h0 h
  | «continue» ln =>
    rw [evalStmt_continue] at h; cases h
    exact Post.of_empty (by rw [retSlot_setLine]; exact h0)
  | «break» ln =>
    rw [evalStmt_break] at h; cases h
    exact Post.of_empty (by rw [retSlot_setLine]; exact h0)
  | expr e => exact Post.of_keep (RetKeep.keep_evalStmt (n+1) _ rfl) h0 h
  | nil => exact Post.of_keep (RetKeep.keep_evalStmt (n+1) _ rfl) h0 h

theorem stmtC_zero : StmtC ν 0 := by
  intro st s s' r h0 h
  have : evalStmt (ν := ν) 0 st s = (.fuel, s) := by simp [evalStmt, outOfFuel]
  rw [this] at h; cases h
  exact Post.of_fail rfl rfl

theorem blockC_zero : BlockC ν 0 := by
  intro b s s' r h0 h
  have : evalPureStmtBlock (ν := ν) 0 b s = (.fuel, s) := by simp [evalPureStmtBlock, outOfFuel]
  rw [this] at h; cases h
  exact Post.of_fail rfl rfl

theorem complete : ∀ n : Nat, StmtC ν n ∧ BlockC ν n
  | 0 => ⟨stmtC_zero, blockC_zero⟩
  | n+1 => ⟨stmtC_succ (complete n).2, blockC_succ (complete n).1⟩

end ZnVerif.Proofs.RetPathComplete
