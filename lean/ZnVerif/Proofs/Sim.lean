/-
A small simulation calculus between the model's state monad `M` and the spec's `SM`:
`Sim d Q s σ m m'` says that the spec computation `m'` leaves the spec state `σ` alone and, unless it is
`unspecified`, the model computation `m` started in `s` only allocates (`Frame`) and ends with the
matching outcome (`OutRel`): values related by `Q`, runtime error ↔ raised fault with the same code,
semantic error ↔ fatal, out of fuel ↔ out of fuel.
-/
import ZnVerif.Proofs.MonadLaws
import ZnVerif.Proofs.Content

set_option linter.unusedSectionVars false

namespace ZnVerif.Proofs
open ZnVerif.Model ZnVerif.Spec

variable {ν : Type} [NumOps ν]

/-- the model state after a pure evaluation: same machine, heap extended -/
structure Frame (s s' : VM ν) : Prop where
  same : s' = { s with heap := s'.heap }
  le : HeapLe s.heap s'.heap

theorem Frame.refl (s : VM ν) : Frame s s := ⟨rfl, HeapLe.refl _⟩

theorem Frame.trans {s s' s'' : VM ν} (a : Frame s s') (b : Frame s' s'') : Frame s s'' := by
  refine ⟨?_, a.le.trans b.le⟩
  have h1 := a.same; have h2 := b.same
  rw [h2, h1]

theorem Frame.push (s : VM ν) (c : Cell ν) : Frame s { s with heap := s.heap.push c } :=
  ⟨rfl, HeapLe.push _ _⟩

/-- the spec semantics reports a non-number right operand of an ordering comparison with code 83, the
evaluator with 84; every other code is the same -/
def specCode (c : Nat) : Nat := if c = 84 then 83 else c

/-- matching outcomes.  `d` is the nesting depth of the values bound in the environment beyond scalars:
only when `d ≠ 0` can the model's structural comparison run out of fuel where the spec's `valEq`
(which answers `none` both for "not comparable" and for "out of fuel") makes `evalE` raise fault 83. -/
inductive OutRel {α α' : Type} (d : Nat) (Q : α → α' → Prop) : Res α → R ν α' → Prop
  | ok {a v} : Q a v → OutRel d Q (.ok a) (.ok v)
  | rt (c : Nat) : OutRel d Q (.err (.rt c)) (.raise (.fault (specCode c)))
  | sem (c : Nat) : OutRel d Q (.err (.sem c)) (.fatal c)
  | fuel : OutRel d Q .fuel .fuel
  | fuelCmp : d ≠ 0 → OutRel d Q .fuel (.raise (.fault 83))

def Sim {α α' : Type} (d : Nat) (Q : VM ν → α → α' → Prop) (s : VM ν) (σ : SState ν) (m : M ν α) (m' : SM ν α') : Prop :=
  ∃ r', m' σ = (r', σ) ∧ (r' = .unspecified ∨ ∃ r s', m s = (r, s') ∧ Frame s s' ∧ OutRel d (Q s') r r')

section rules
variable {α α' β β' : Type} {d : Nat} {Q : VM ν → α → α' → Prop} {Q2 : VM ν → β → β' → Prop}
  {s : VM ν} {σ : SState ν}

theorem sim_bind {m : M ν α} {m' : SM ν α'} {f : α → M ν β} {f' : α' → SM ν β'}
    (h1 : Sim d Q s σ m m')
    (h2 : ∀ s1 a v, Frame s s1 → Q s1 a v → Sim d Q2 s1 σ (f a) (f' v)) :
    Sim d Q2 s σ (m >>= f) (m' >>= f') := by
  obtain ⟨r', hm', h⟩ := h1
  rcases h with rfl | ⟨r, s1, hm, hF, hO⟩
  · exact ⟨.unspecified, by rw [SM.bind_def, hm'], .inl rfl⟩
  · cases hO with
    | ok hq =>
      obtain ⟨r2', hf', h⟩ := h2 s1 _ _ hF hq
      refine ⟨r2', by rw [SM.bind_def, hm']; exact hf', ?_⟩
      rcases h with rfl | ⟨r2, s2, hf, hF2, hO2⟩
      · exact .inl rfl
      · exact .inr ⟨r2, s2, by rw [M.bind_def, hm]; exact hf, hF.trans hF2, hO2⟩
    | rt c =>
      exact ⟨_, by rw [SM.bind_def, hm'], .inr ⟨_, s1, by rw [M.bind_def, hm], hF, .rt c⟩⟩
    | sem c =>
      exact ⟨_, by rw [SM.bind_def, hm'], .inr ⟨_, s1, by rw [M.bind_def, hm], hF, .sem c⟩⟩
    | fuel =>
      exact ⟨_, by rw [SM.bind_def, hm'], .inr ⟨_, s1, by rw [M.bind_def, hm], hF, .fuel⟩⟩
    | fuelCmp hd =>
      exact ⟨_, by rw [SM.bind_def, hm'], .inr ⟨_, s1, by rw [M.bind_def, hm], hF, .fuelCmp hd⟩⟩

theorem sim_pure {a : α} {v : α'} (h : Q s a v) : Sim d Q s σ (pure a) (pure v) :=
  ⟨.ok v, rfl, .inr ⟨.ok a, s, rfl, Frame.refl s, .ok h⟩⟩

theorem sim_rt (c : Nat) : Sim d Q s σ (rtErr c) (fault (specCode c)) :=
  ⟨_, rfl, .inr ⟨_, s, rfl, Frame.refl s, .rt c⟩⟩

theorem sim_rt' (c c' : Nat) (h : c' = specCode c) : Sim d Q s σ (rtErr c) (fault c') := by
  subst h; exact sim_rt c

theorem sim_sem (c : Nat) : Sim d Q s σ (throwE (.sem c)) (sfail (.fatal c)) :=
  ⟨_, rfl, .inr ⟨_, s, rfl, Frame.refl s, .sem c⟩⟩

theorem sim_fuel : Sim d Q s σ outOfFuel (sfail .fuel) :=
  ⟨_, rfl, .inr ⟨_, s, rfl, Frame.refl s, .fuel⟩⟩

theorem sim_unspec {m : M ν α} : Sim d Q s σ m unspec := ⟨_, rfl, .inl rfl⟩

/-- replace the model computation by one that runs the same from `s` -/
theorem sim_left {m m2 : M ν α} {m' : SM ν α'} (h : m s = m2 s) (h2 : Sim d Q s σ m2 m') : Sim d Q s σ m m' := by
  obtain ⟨r', hm', h'⟩ := h2
  exact ⟨r', hm', h'.imp id fun ⟨r, s', hm, x⟩ => ⟨r, s', h ▸ hm, x⟩⟩

theorem sim_right {m : M ν α} {m' m2' : SM ν α'} (h : m' σ = m2' σ) (h2 : Sim d Q s σ m m2') : Sim d Q s σ m m' := by
  obtain ⟨r', hm', h'⟩ := h2
  exact ⟨r', h ▸ hm', h'⟩

theorem sim_weaken {Q' : VM ν → α → α' → Prop} {m : M ν α} {m' : SM ν α'}
    (hq : ∀ s a v, Q s a v → Q' s a v) (h : Sim d Q s σ m m') : Sim d Q' s σ m m' := by
  obtain ⟨r', hm', h'⟩ := h
  refine ⟨r', hm', h'.imp id fun ⟨r, s', hm, hF, hO⟩ => ⟨r, s', hm, hF, ?_⟩⟩
  cases hO with
  | ok h => exact .ok (hq _ _ _ h)
  | rt c => exact .rt c
  | sem c => exact .sem c
  | fuel => exact .fuel
  | fuelCmp hd => exact .fuelCmp hd

theorem getCell_bind {a : Addr} {c : Cell ν} (K : Cell ν → M ν α) (hc : s.heap[a]? = some c) :
    (getCell a >>= K) s = K c s := by
  rw [M.bind_def]; simp [Model.getCell, hc]

/-- a model-only read of a known cell -/
theorem sim_getCell {a : Addr} {c : Cell ν} {K : Cell ν → M ν α} {m' : SM ν α'}
    (hc : s.heap[a]? = some c) (h : Sim d Q s σ (K c) m') : Sim d Q s σ (getCell a >>= K) m' :=
  sim_left (getCell_bind K hc) h

end rules

/-- the value relation of the refinement: the result cell reads (within fuel `k`) as the spec value -/
def Reads (ω : Addr → Option (SVal ν)) (k : Nat) (s : VM ν) (a : Addr) (v : SVal ν) : Prop :=
  contentW ω k s.heap a = some v

theorem Reads.frame {ω : Addr → Option (SVal ν)} {k : Nat} {s s' : VM ν} {a : Addr} {v : SVal ν}
    (h : Reads ω k s a v) (hF : Frame s s') : Reads ω k s' a v := contentW_heap hF.le h

theorem Reads.mono {ω : Addr → Option (SVal ν)} {k k' : Nat} {s : VM ν} {a : Addr} {v : SVal ν}
    (h : Reads ω k s a v) (hk : k ≤ k') : Reads ω k' s a v := contentW_mono hk h

/-- allocation of a cell whose layer reads as `v`, against a spec computation that just answers `v` -/
theorem sim_alloc {d : Nat} {ω : Addr → Option (SVal ν)} {k : Nat} {s : VM ν} {σ : SState ν} (c : Cell ν) (v : SVal ν)
    (hl : Layer ω (contentW ω k (s.heap.push c)) s.heap.size c v) :
    Sim d (Reads ω (k+1)) s σ (alloc c) (pure v) :=
  ⟨.ok v, rfl, .inr ⟨.ok s.heap.size, { s with heap := s.heap.push c }, rfl, Frame.push s c,
    .ok (contentW_push_new k s.heap c v hl)⟩⟩

end ZnVerif.Proofs
