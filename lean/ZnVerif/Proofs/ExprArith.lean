/-
C01 refinement: the arithmetic nodes.
-/
import ZnVerif.Proofs.ExprBase
set_option linter.unusedSectionVars false
set_option linter.unusedSimpArgs false

namespace ZnVerif.Proofs
open ZnVerif.Model ZnVerif.Spec

variable {ν : Type} [NumOps ν]

theorem sim_arith_basic {ω : Addr → Option (SVal ν)} {d n : Nat} (ih : IH ω d n) (ln ty : Nat) (l r : Expr)
    (hty : ty = ArithAdd ∨ ty = ArithSub ∨ ty = ArithMul ∨ ty = ArithDiv ∨ ty = ArithIntDiv) (hl : PureExpr l) (hr : PureExpr r)
    (s : VM ν) (σ : SState ν) (henv : EnvRel ω d s σ) {k : Nat} (hk : 0 < k) :
    Sim d (Reads ω k) s σ (evalExpr (n+1) (.arith ln ty l r)) (evalE (n+1) (.arith ln ty l r)) := by
  simp only [evalExpr, evalE]
  rcases hty with rfl | rfl | rfl | rfl | rfl <;>
  · simp only [ArithAdd, ArithSub, ArithMul, ArithDiv, ArithIntDiv, ArithModulo,
      Nat.reduceBEq, if_true, if_false, Bool.false_eq_true]
    refine sim_bind (ih l s σ hl henv) fun s1 a v hF hq => ?_
    obtain ⟨k', c, hk, hc, hlay⟩ := hq.cell
    refine sim_getCell hc ?_
    cases c <;> simp only [Layer] at hlay
    case num x =>
      subst hlay
      refine sim_bind (ih r s1 σ hr (henv.frame hF)) fun s2 a2 v2 hF2 hq2 => ?_
      obtain ⟨k2, c2, hk2, hc2, hlay2⟩ := hq2.cell
      refine sim_getCell hc2 ?_
      cases c2 <;> simp only [Layer] at hlay2
      case num y =>
        subst hlay2
        first
          | exact sim_alloc_scalar _ _ (by omega) (fun _ _ => rfl)
          | (cases hz : NumOps.isZero y <;> simp only [hz, if_true, if_false, Bool.false_eq_true]
             · exact sim_alloc_scalar _ _ (by omega) (fun _ _ => rfl)
             · exact sim_rt' 90 90 rfl)
      all_goals reject hlay2 v2 with (sim_rt' 80 80 rfl)
    all_goals reject hlay v with (sim_rt' 80 80 rfl)

theorem sim_arith_mod {ω : Addr → Option (SVal ν)} {d n : Nat} (ih : IH ω d n) (ln : Nat) (l r : Expr)
    (hl : PureExpr l) (hr : PureExpr r)
    (s : VM ν) (σ : SState ν) (henv : EnvRel ω d s σ) {k : Nat} (hk : 0 < k) :
    Sim d (Reads ω k) s σ (evalExpr (n+1) (.arith ln ArithModulo l r)) (evalE (n+1) (.arith ln ArithModulo l r)) := by
  simp only [evalExpr, evalE]
  simp only [ArithAdd, ArithSub, ArithMul, ArithDiv, ArithIntDiv, ArithModulo,
      Nat.reduceBEq, if_true, if_false, Bool.false_eq_true]
  refine sim_bind (ih l s σ hl henv) fun s1 a v hF hq => ?_
  obtain ⟨k', c, hk, hc, hlay⟩ := hq.cell
  cases c <;> simp only [Layer] at hlay
  case num x =>
    subst hlay
    simp only []
    refine sim_bind (ih r s1 σ hr (henv.frame hF)) fun s2 a2 v2 hF2 hq2 => ?_
    refine sim_getCell (hF2.le _ _ hc) ?_
    obtain ⟨k2, c2, hk2, hc2, hlay2⟩ := hq2.cell
    refine sim_getCell hc2 ?_
    cases c2 <;> simp only [Layer] at hlay2
    case num y =>
      subst hlay2
      cases hz : NumOps.isZero y <;> simp only [hz, if_true, if_false, Bool.false_eq_true]
      · exact sim_alloc_scalar _ _ (by omega) (fun _ _ => rfl)
      · exact sim_rt' 90 90 rfl
    all_goals reject hlay2 v2 with (sim_rt' 80 80 rfl)
  case str t =>
    subst hlay
    exact sim_unspec
  all_goals
    (first
      | subst hlay
      | (obtain ⟨_, rfl, _⟩ := hlay)
      | (obtain ⟨_, _, rfl, _⟩ := hlay)
      | (obtain ⟨_, hop⟩ := hlay; cases v <;> simp [isOpaque] at hop)) <;>
    (show Sim d _ s1 σ _ (do let _ ← evalE n r; fault 80)
     refine sim_bind (ih r s1 σ hr (henv.frame hF)) fun s2 a2 v2 hF2 hq2 => ?_
     refine sim_getCell (hF2.le _ _ hc) ?_
     obtain ⟨k2, c2, hk2, hc2, hlay2⟩ := hq2.cell
     refine sim_getCell hc2 ?_
     exact sim_rt' 80 80 rfl)

end ZnVerif.Proofs
