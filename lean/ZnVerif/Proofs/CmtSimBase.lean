/-
Comment tokens are invisible to the parser, part 1: the relational logic and the primitives.

Two runs of the parser model over the token-level lexer `layoutOps Y`: the "clean" run on a token list without its comments, and the
"raw" run on the list with the comments, with `K` more fuel in every `next()` (`K` bounds the length of the raw list).  The state of
the clean run is `cl s` (= `s` with `lex := clean s.lex`) where `s` is the state of the raw run.

`Le K r2 r1`  — the clean result `r2` is out of fuel, or both results agree (`ok` with equal values and related states, equal errors,
                both panics).
`R K s x2 x1` — `Le` of `x2 (cl s)` and `x1 s`, given the invariant `s.lex.length ≤ K` of the raw run.
-/
import ZnVerif.Spec.StmtSyntax

namespace ZnVerif.Proofs.CmtSim
open ZnVerif.Model ZnVerif.Model.Parser ZnVerif.Generated.Tokens ZnVerif.Generated.ParserTables
open ZnVerif.Spec.StmtSyntax

def noC (t : Token) : Bool := t.type != cTypeComment
def clean (l : List Token) : List Token := l.filter noC

abbrev St := PState (List Token)

/-- the state of the run on the cleaned list -/
def cl (s : St) : St := { s with lex := clean s.lex }

@[simp] theorem cl_p1 (s : St) : (cl s).p1 = s.p1 := rfl
@[simp] theorem cl_p2 (s : St) : (cl s).p2 = s.p2 := rfl
@[simp] theorem cl_sl1 (s : St) : (cl s).sl1 = s.sl1 := rfl
@[simp] theorem cl_el1 (s : St) : (cl s).el1 = s.el1 := rfl
@[simp] theorem cl_sl2 (s : St) : (cl s).sl2 = s.sl2 := rfl
@[simp] theorem cl_el2 (s : St) : (cl s).el2 = s.el2 := rfl
@[simp] theorem cl_flag (s : St) : (cl s).flag = s.flag := rfl
@[simp] theorem cl_lex (s : St) : (cl s).lex = clean s.lex := rfl

section
variable (Y : Layout)

@[simp] theorem cl_blockCond (d : Nat) (s : St) : blockCond (layoutOps Y) d (cl s) = blockCond (layoutOps Y) d s := rfl
@[simp] theorem cl_peekIndentOf (s : St) : peekIndentOf (layoutOps Y) (cl s) = peekIndentOf (layoutOps Y) s := rfl
@[simp] theorem cl_currIndentOf (s : St) : currIndentOf (layoutOps Y) (cl s) = currIndentOf (layoutOps Y) s := rfl
@[simp] theorem cl_meetStmtBreak (s : St) : meetStmtBreak (cl s) = meetStmtBreak s := rfl

end

/-- clean result versus raw result -/
def Le (K : Nat) {β : Type} (r2 r1 : Res (List Token) β) : Prop :=
  match r2, r1 with
  | .fuel, _ => True
  | .ok a2 s2, .ok a1 s1 => a2 = a1 ∧ s2 = cl s1 ∧ s1.lex.length ≤ K
  | .err e2, .err e1 => e2 = e1
  | .panic, .panic => True
  | _, _ => False

/-- clean computation versus raw computation, from the raw state `s` -/
def R (K : Nat) {β : Type} (s : St) (x2 x1 : PM (List Token) β) : Prop :=
  s.lex.length ≤ K → Le K (x2 (cl s)) (x1 s)

section rules
variable {K : Nat} {β γ : Type} {s : St}

theorem Le.refl_err (e : SynErr) : Le K (.err e : Res (List Token) β) (.err e) := rfl
theorem Le.refl_panic : Le K (.panic : Res (List Token) β) .panic := trivial

theorem R_pure (a : β) : R K s (pure a) (pure a) := fun h => ⟨rfl, rfl, h⟩

theorem R_bind {x2 x1 : PM (List Token) β} {f2 f1 : β → PM (List Token) γ}
    (hx : R K s x2 x1) (hf : ∀ a s', R K s' (f2 a) (f1 a)) : R K s (x2 >>= f2) (x1 >>= f1) := by
  intro hI
  have h := hx hI
  show Le K (PM.bind x2 f2 (cl s)) (PM.bind x1 f1 s)
  unfold PM.bind
  generalize x2 (cl s) = r2 at h ⊢
  generalize x1 s = r1 at h ⊢
  cases r2 <;> cases r1 <;> simp only [Le] at h ⊢
  case ok.ok a2 s2 a1 s1 =>
    obtain ⟨rfl, rfl, h3⟩ := h
    exact hf a2 s1 h3
  all_goals first | exact h | trivial

/-- `getS` hands the clean state to the clean side and the raw state to the raw side -/
theorem R_bind_getS {f2 f1 : St → PM (List Token) γ}
    (hf : R K s (f2 (cl s)) (f1 s)) : R K s (getS >>= f2) (getS >>= f1) := hf

theorem R_ite {c : Prop} [Decidable c] {a2 b2 a1 b1 : PM (List Token) β}
    (ha : c → R K s a2 a1) (hb : ¬ c → R K s b2 b1) : R K s (if c then a2 else b2) (if c then a1 else b1) := by
  by_cases h : c
  · simp only [h, if_true]; exact ha h
  · simp only [h, if_false]; exact hb h

theorem R_throwErr (e : SynErr) : R K s (throwErr e : PM (List Token) β) (throwErr e) := fun _ => rfl
theorem R_goPanic : R K s (goPanic : PM (List Token) β) goPanic := fun _ => trivial

theorem R_modifyS {f : St → St} (hf : ∀ s, f (cl s) = cl (f s)) (hl : ∀ s, (f s).lex = s.lex) :
    R K s (modifyS f) (modifyS f) := fun h => ⟨rfl, hf s, by rw [hl]; exact h⟩

theorem R_unsetFlag : R K s unsetFlag unsetFlag := R_modifyS (fun _ => rfl) (fun _ => rfl)
theorem R_setFlag : R K s setFlag setFlag := R_modifyS (fun _ => rfl) (fun _ => rfl)

theorem R_errPeek (v : Variant) (code : Nat) : R K s (errPeek v code : PM (List Token) β) (errPeek v code) := by
  intro _
  unfold errPeek
  simp only [cl_p1, cl_p2]
  cases s.p1 with
  | none => simp only []; split <;> trivial
  | some t => exact rfl

theorem R_errCurr (v : Variant) : R K s (errCurr v : PM (List Token) β) (errCurr v) := by
  intro _
  unfold errCurr
  simp only [cl_p1, cl_p2]
  cases s.p1 with
  | none => simp only []; split <;> trivial
  | some t => exact rfl

theorem R_endOfStmt (v : Variant) : R K s (endOfStmt v) (endOfStmt v) := by
  intro h
  unfold endOfStmt
  simp only [cl_flag, cl_meetStmtBreak]
  by_cases hc : (s.flag || meetStmtBreak s) = true
  · simp only [hc, if_true]; exact ⟨rfl, rfl, h⟩
  · simp only [hc]; exact R_errPeek v 20 h

end rules

section prims
variable (Y : Layout) {K : Nat} {s : St}

theorem R_lineOf (tk : Token) : R K s (lineOf (layoutOps Y) tk) (lineOf (layoutOps Y) tk) := fun h => ⟨rfl, rfl, h⟩

theorem R_expectBlockIndent : R K s (expectBlockIndent (layoutOps Y)) (expectBlockIndent (layoutOps Y)) := by
  intro h
  unfold expectBlockIndent
  show Le K (match Y.lines[s.sl2]?, Y.lines[s.sl1]? with
      | some pl, some cl' => Res.ok (if pl.indents = cl'.indents + 1 then some pl.indents else none) (cl s)
      | _, _ => .panic)
    (match Y.lines[s.sl2]?, Y.lines[s.sl1]? with
      | some pl, some cl' => Res.ok (if pl.indents = cl'.indents + 1 then some pl.indents else none) s
      | _, _ => .panic)
  split
  · exact ⟨rfl, rfl, h⟩
  · trivial

theorem R_newID (tk : Token) : R K s (newID (layoutOps Y) tk) (newID (layoutOps Y) tk) := by
  unfold newID
  exact R_bind (R_lineOf Y tk) (fun _ _ => R_pure _)

theorem R_newString (tk : Token) : R K s (newString (layoutOps Y) tk) (newString (layoutOps Y) tk) := by
  unfold newString
  exact R_bind (R_lineOf Y tk) (fun _ _ => R_pure _)

-- ---- the one primitive that reads the lexer ------------------------------------------------------------------------

theorem eof_not_comment : ¬ Y.eof.type = cTypeComment := by
  show ¬ cTypeEOF = cTypeComment
  decide

/-- leading comments are skipped, each costs one unit of fuel -/
theorem fetch_clean (m : Nat) : ∀ (l : List Token) (j : Nat), l.length ≤ j →
    ∃ tk l1, fetch (layoutOps Y) (m + 1) (clean l) = .ok tk (clean l1) ∧
      fetch (layoutOps Y) (m + 1 + j) l = .ok tk l1 ∧ l1.length ≤ l.length
  | [], j, _ => by
    refine ⟨Y.eof, [], ?_, ?_, Nat.le_refl _⟩
    · simp only [clean, List.filter_nil, fetch, layoutOps, eof_not_comment, if_false]
    · rw [show m + 1 + j = (m + j) + 1 by omega]
      simp only [fetch, layoutOps, eof_not_comment, if_false]
  | t :: r, j, hj => by
    by_cases hc : t.type = cTypeComment
    · have hcl : clean (t :: r) = clean r := by
        have : noC t = false := by simp [noC, hc]
        simp only [clean, List.filter_cons, this]; rfl
      obtain ⟨j', rfl⟩ : ∃ j', j = j' + 1 := ⟨j - 1, by simp only [List.length_cons] at hj; omega⟩
      obtain ⟨tk, l1, h1, h2, h3⟩ := fetch_clean m r j' (by simp only [List.length_cons] at hj; omega)
      refine ⟨tk, l1, ?_, ?_, ?_⟩
      · rw [hcl]; exact h1
      · rw [show m + 1 + (j' + 1) = (m + 1 + j') + 1 by omega]
        rw [← h2]
        simp only [fetch, layoutOps, hc, if_true]
      · simp only [List.length_cons]; omega
    · have hcl : clean (t :: r) = t :: clean r := by
        have : noC t = true := by simp [noC, hc]
        simp only [clean, List.filter_cons, this]; rfl
      refine ⟨t, r, ?_, ?_, ?_⟩
      · rw [hcl]
        simp only [fetch, layoutOps, hc, if_false]
      · rw [show m + 1 + j = (m + j) + 1 by omega]
        simp only [fetch, layoutOps, hc, if_false]
      · simp only [List.length_cons]; omega

/-- `next()` of the raw run, with `K` more fuel, does what `next()` of the clean run does -/
theorem R_next (m : Nat) : R K s (next (layoutOps Y) m) (next (layoutOps Y) (m + K)) := by
  intro hI
  cases m with
  | zero => simp only [next, fetch]; trivial
  | succ m =>
    obtain ⟨tk, l1, h1, h2, h3⟩ := fetch_clean Y m s.lex K hI
    unfold next
    rw [cl_lex, h1, h2]
    exact ⟨rfl, rfl, by show l1.length ≤ K; omega⟩

theorem R_tryConsumeCore (m : Nat) (tys : List Nat) :
    R K s (tryConsumeCore (layoutOps Y) m tys) (tryConsumeCore (layoutOps Y) (m + K) tys) := by
  unfold tryConsumeCore
  apply R_bind_getS
  simp only [cl_flag, cl_p2]
  apply R_ite
  · intro _; exact R_pure _
  · intro _
    apply R_ite
    · intro _
      exact R_bind (R_next Y m) (fun _ _ => R_pure _)
    · intro _; exact R_pure _

theorem R_tryConsume (m : Nat) (tys : List Nat) :
    R K s (tryConsume (layoutOps Y) m tys) (tryConsume (layoutOps Y) (m + K) tys) := by
  unfold tryConsume
  apply R_bind_getS
  simp only [cl_p2]
  apply R_ite
  · intro _
    exact R_bind (R_next Y m) (fun _ _ => R_tryConsumeCore Y m tys)
  · intro _; exact R_tryConsumeCore Y m tys

/-- the loop `for { tryConsume(tys) }`: the raw run has more fuel per `next()` and at least as many passes -/
theorem R_swallowAll_le (m : Nat) (tys : List Nat) : ∀ (k1 k2 : Nat) (s : St), k1 ≤ k2 →
    R K s (swallowAll (layoutOps Y) m tys k1) (swallowAll (layoutOps Y) (m + K) tys k2)
  | 0, _, _, _ => fun _ => trivial
  | k1 + 1, 0, _, h => absurd h (by omega)
  | k1 + 1, k2 + 1, s, h => by
    unfold swallowAll
    apply R_bind (R_tryConsume Y m tys)
    intro a s'
    cases a with
    | none => exact R_pure _
    | some _ => exact R_swallowAll_le m tys k1 k2 s' (by omega)

theorem R_swallowAll (m : Nat) (tys : List Nat) :
    R K s (swallowAll (layoutOps Y) m tys m) (swallowAll (layoutOps Y) (m + K) tys (m + K)) :=
  R_swallowAll_le Y m tys m (m + K) s (Nat.le_add_right _ _)

theorem R_consume (v : Variant) (m : Nat) (tys : List Nat) :
    R K s (consume v (layoutOps Y) m tys) (consume v (layoutOps Y) (m + K) tys) := by
  unfold consume
  apply R_bind (R_tryConsume Y m tys)
  intro a s'
  cases a with
  | none => exact R_errPeek v 20
  | some _ => exact R_pure _

theorem R_parseID (v : Variant) (m : Nat) :
    R K s (parseID v (layoutOps Y) m) (parseID v (layoutOps Y) (m + K)) := by
  unfold parseID
  apply R_bind (R_tryConsume Y m _)
  intro a s'
  cases a with
  | none => exact R_errPeek v 20
  | some tk => exact R_newID Y tk

theorem R_optYield (v : Variant) (m : Nat) :
    R K s (optYield v (layoutOps Y) m) (optYield v (layoutOps Y) (m + K)) := by
  unfold optYield
  apply R_bind (R_tryConsume Y m _)
  intro a s'
  cases a with
  | none => exact R_pure _
  | some tk => exact R_bind (R_parseID Y v m) (fun _ _ => R_pure _)

theorem R_calleeTail (v : Variant) (m : Nat) (hasRoot : Bool) (rootType : Nat) (root : Expr) :
    R K s (calleeTail v (layoutOps Y) m hasRoot rootType root) (calleeTail v (layoutOps Y) (m + K) hasRoot rootType root) := by
  unfold calleeTail
  apply R_bind (R_tryConsume Y m _)
  intro a s'
  cases a with
  | none => exact R_errPeek v 20
  | some tk => exact R_bind (R_newID Y tk) (fun _ _ => R_bind (R_lineOf Y tk) (fun _ _ => R_pure _))

end prims

/-- the recursive calls of the clean run are matched by those of the raw run -/
def RecOK (K : Nat) (rec2 rec1 : Rec (List Token)) : Prop := ∀ (nt : NT) (s : St), R K s (rec2 nt) (rec1 nt)

end ZnVerif.Proofs.CmtSim
