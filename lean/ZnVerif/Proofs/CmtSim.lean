/-
Comment tokens are invisible to the parser.

`parseLaidOut_comments`: whatever `Parser.Parse` answers (other than still running) on a token list without its comments, it answers
on the list with the comments, given `raw.length` more fuel.  The token-level lexer `layoutOps Y` hands out the comments like any
other token; the parser's `next()` drops them (`fetch`), one unit of fuel each.
-/
import ZnVerif.Proofs.CmtSimStmt

namespace ZnVerif.Proofs.CmtSim
open ZnVerif.Model ZnVerif.Model.Parser ZnVerif.Generated.Tokens ZnVerif.Generated.ParserTables
open ZnVerif.Spec.StmtSyntax

/-- one unfolding of every production -/
theorem R_step (Y : Layout) (v : Variant) {K : Nat} (m : Nat) {rec2 rec1 : Rec (List Token)} (hrec : RecOK K rec2 rec1) :
    RecOK K (step v (layoutOps Y) m rec2) (step v (layoutOps Y) (m + K) rec1) := by
  intro nt s
  cases nt with
  | program => exact R_pProgram Y hrec s
  | programLoop i x im e => exact R_pProgramLoop Y m hrec i x im e s
  | statement => exact R_pStatement Y v m hrec s
  | expr cfg => exact R_pLv1 hrec cfg s
  | lv1Tail cfg el => exact R_pLv1Tail Y m hrec cfg el s
  | lv2 cfg => exact R_pLv2 hrec cfg s
  | lv2Tail cfg el => exact R_pLv2Tail Y m hrec cfg el s
  | lv3 cfg => exact R_pLv3 Y m hrec cfg s
  | lv4 cfg => exact R_pLv4 Y v m hrec cfg s
  | arith => exact R_pArith hrec s
  | arithTail el => exact R_pArithTail Y m hrec el s
  | mulDiv => exact R_pMulDiv hrec s
  | mulDivTail el => exact R_pMulDivTail Y m hrec el s
  | member => exact R_pMember Y v m hrec s
  | memberTail e => exact R_pMemberTail Y v m hrec e s
  | basic => exact R_pBasic Y v m hrec s
  | array => exact R_pArray Y v m hrec s
  | arrayLoop items => exact R_pArrayLoop Y m hrec items s
  | hashLoop kvs => exact R_pHashLoop Y v m hrec kvs s
  | funcCall y => exact R_pFuncCall Y v m hrec y s
  | commaExprs acc => exact R_pCommaExprs Y m hrec acc s
  | commaIds acc => exact R_pCommaIds Y v m hrec acc s
  | memberFuncCall => exact R_pMemberFuncCall Y v m hrec s
  | chainLoop c => exact R_pChainLoop Y v m hrec c s
  | varDecl => exact R_pVarDecl Y v m hrec s
  | varDeclLoop i ps => exact R_pVarDeclLoop Y v m hrec i ps s
  | vdPair => exact R_pVdPair Y v m hrec s
  | objNew => exact R_pObjNew Y v m hrec s
  | whileLoop => exact R_pWhileLoop Y v m hrec s
  | block i => exact R_pBlock hrec i s
  | blockLoop i acc => exact R_pBlockLoop Y hrec i acc s
  | branch => exact R_pBranch Y hrec s
  | branchLoop mi st acc => exact R_pBranchLoop Y v m hrec mi st acc s
  | functionBlock => exact R_pFunctionBlock Y v m hrec s
  | execBlock i => exact R_pExecBlock hrec i s
  | execLoop i st ins ss cs => exact R_pExecLoop Y v m hrec i st ins ss cs s
  | varOneLead => exact R_pVarOneLead Y v m hrec s
  | iteratorRest ids => exact R_pIteratorRest Y v m hrec ids s
  | throwStmt => exact R_pThrow Y v m hrec s
  | throwLoop acc => exact R_pThrowLoop Y m hrec acc s
  | catchStmt => exact R_pCatchStmt Y v m hrec s
  | importStmt => exact R_pImportStmt Y v m hrec s
  | classDecl => exact R_pClassDecl Y v m hrec s
  | classLoop i ps ms gs => exact R_pClassLoop Y v m hrec i ps ms gs s
  | propertyDecl => exact R_pPropertyDecl Y v m hrec s

/-- the raw run of the tagged parser, with `K` more fuel, does what the clean run does -/
theorem R_parse (Y : Layout) (v : Variant) (K : Nat) : ∀ m : Nat,
    RecOK K (parse v (layoutOps Y) m) (parse v (layoutOps Y) (m + K))
  | 0 => fun _ _ _ => trivial
  | m + 1 => by
    rw [show m + 1 + K = (m + K) + 1 by omega]
    exact R_step Y v m (R_parse Y v K m)

/-- `ParseAST`'s first `next()` -/
theorem initState_clean (Y : Layout) (raw : List Token) (n : Nat) :
    Le raw.length (initState (layoutOps Y) n (clean raw)) (initState (layoutOps Y) (n + raw.length) raw) := by
  cases n with
  | zero => simp only [initState, fetch]; trivial
  | succ n =>
    obtain ⟨tk, l1, h1, h2, h3⟩ := fetch_clean Y n raw raw.length (Nat.le_refl _)
    unfold initState
    rw [h1, h2]
    exact ⟨rfl, rfl, h3⟩

/-- whatever the parser answers (other than running out of fuel) on the token list without its comments, it answers on the list
with the comments, given `raw.length` more fuel -/
theorem parseLaidOut_comments (v : Variant) (Y : Layout) (raw : List Token) (n : Nat) :
    (match parseLaidOut v Y n (clean raw) with
     | .outOfFuel => True
     | .tree t => parseLaidOut v Y (n + raw.length) raw = .tree t
     | .synErr e => parseLaidOut v Y (n + raw.length) raw = .synErr e
     | .otherErr => parseLaidOut v Y (n + raw.length) raw = .otherErr) := by
  unfold parseLaidOut parseAST
  have h0 := initState_clean Y raw n
  generalize initState (layoutOps Y) n (clean raw) = r2 at h0 ⊢
  generalize initState (layoutOps Y) (n + raw.length) raw = r1 at h0 ⊢
  cases r2 <;> cases r1 <;> simp only [Le] at h0 ⊢
  case ok.ok a2 s2 a1 s1 =>
    obtain ⟨-, rfl, hI⟩ := h0
    have h1 := R_parse Y v raw.length n .program s1 hI
    generalize parse v (layoutOps Y) n .program (cl s1) = q2 at h1 ⊢
    generalize parse v (layoutOps Y) (n + raw.length) .program s1 = q1 at h1 ⊢
    cases q2 <;> cases q1 <;> simp only [Le] at h1 ⊢
    case ok.ok p2 t2 p1 t1 =>
      obtain ⟨rfl, rfl, -⟩ := h1
      by_cases hc : t1.p2.type ≠ cTypeEOF
      · have he : ((if v.leftoverFix then errPeek v 20 else errCurr v) : PM (List Token) Unit) (cl t1) =
            ((if v.leftoverFix then errPeek v 20 else errCurr v) : PM (List Token) Unit) t1 := by
          cases v.leftoverFix <;> rfl
        have hc' : (cl t1).p2.type ≠ cTypeEOF := hc
        simp only [if_pos hc, if_pos hc', he]
        generalize ((if v.leftoverFix then errPeek v 20 else errCurr v) : PM (List Token) Unit) t1 = r
        cases r <;> rfl
      · have hc' : ¬ (cl t1).p2.type ≠ cTypeEOF := hc
        simp only [if_neg hc, if_neg hc']
    all_goals first | (subst h1; rfl) | trivial
  all_goals first | (subst h0; rfl) | trivial

theorem parseLaidOut_comments_tree (v : Variant) (Y : Layout) (raw : List Token) (n : Nat) (t : Program)
    (h : parseLaidOut v Y n (clean raw) = .tree t) : parseLaidOut v Y (n + raw.length) raw = .tree t := by
  have := parseLaidOut_comments v Y raw n
  rw [h] at this
  exact this

theorem parseLaidOut_comments_synErr (v : Variant) (Y : Layout) (raw : List Token) (n : Nat) (e : SynErr)
    (h : parseLaidOut v Y n (clean raw) = .synErr e) : parseLaidOut v Y (n + raw.length) raw = .synErr e := by
  have := parseLaidOut_comments v Y raw n
  rw [h] at this
  exact this

theorem parseLaidOut_comments_otherErr (v : Variant) (Y : Layout) (raw : List Token) (n : Nat)
    (h : parseLaidOut v Y n (clean raw) = .otherErr) : parseLaidOut v Y (n + raw.length) raw = .otherErr := by
  have := parseLaidOut_comments v Y raw n
  rw [h] at this
  exact this

end ZnVerif.Proofs.CmtSim
