/-
Which part of the machine state each operation of the model may change ("frames"): a small relational
Hoare calculus over the monad `M ν` — `Pres R m` says every run of `m`, whatever its outcome, relates the initial
and the final state by `R` — with combinators for every loop shape of Model/Interp.lean, and its instances:
read-only operations, operations that only allocate, and mutators that write only the receiver's own cell.
-/
import ZnVerif.Proofs.Heap
set_option linter.unusedSectionVars false
set_option linter.unusedVariables false

namespace ZnVerif.Model

variable {ν : Type} [NumOps ν]

/-- every run of `m`, whatever its outcome (value, error, panic, out of fuel), relates initial and final state by `R` -/
structure Pres (R : VM ν → VM ν → Prop) {α : Type} (m : M ν α) : Prop where
  run : ∀ s r s', m s = (r, s') → R s s'

/-- reflexive, transitive relations on machine states -/
class StateRel (R : VM ν → VM ν → Prop) : Prop where
  refl : ∀ s, R s s
  trans : ∀ {a b c}, R a b → R b c → R a c

section combinators
variable {R : VM ν → VM ν → Prop} [StateRel R] {α β : Type}

theorem Pres.mono {R' : VM ν → VM ν → Prop} (hrr : ∀ s s', R s s' → R' s s') {m : M ν α} (p : Pres R m) : Pres R' m :=
  ⟨fun s r s' h => hrr _ _ (p.run s r s' h)⟩

/-- an operation that never changes the state -/
theorem pres_of_const {m : M ν α} (hm : ∀ s, (m s).2 = s) : Pres R m := by
  constructor
  intro s r s' h
  have := hm s
  rw [h] at this
  subst this
  exact StateRel.refl _

theorem pres_pure (a : α) : Pres R (pure a : M ν α) := pres_of_const (fun _ => rfl)
theorem pres_throwE (e : Err) : Pres R (throwE e : M ν α) := pres_of_const (fun _ => rfl)
theorem pres_rtErr (c : Nat) : Pres R (rtErr c : M ν α) := pres_of_const (fun _ => rfl)
theorem pres_goPanic : Pres R (goPanic : M ν α) := pres_of_const (fun _ => rfl)
theorem pres_outOfFuel : Pres R (outOfFuel : M ν α) := pres_of_const (fun _ => rfl)
theorem pres_notModelled : Pres R (notModelled : M ν α) := pres_of_const (fun _ => rfl)
theorem pres_liftRes (r : Res α) : Pres R (liftRes r : M ν α) := pres_of_const (fun _ => rfl)
theorem pres_getVM : Pres R (getVM : M ν (VM ν)) := pres_of_const (fun _ => rfl)
theorem pres_getCell (a : Addr) : Pres R (getCell a : M ν (Cell ν)) :=
  pres_of_const (fun s => by unfold getCell; cases s.heap[a]? <;> rfl)
theorem pres_topFrame : Pres R (topFrame : M ν (Option Frame)) := pres_of_const (fun _ => rfl)
theorem pres_currentScope : Pres R (currentScope : M ν (Option Scope)) := pres_of_const (fun _ => rfl)
theorem pres_stackDepth : Pres R (stackDepth : M ν Nat) := pres_of_const (fun _ => rfl)

theorem pres_bind {m : M ν α} {f : α → M ν β} (hm : Pres R m) (hf : ∀ a, Pres R (f a)) : Pres R (m >>= f) := by
  constructor
  intro s r s' h
  simp only [bind] at h
  cases h1 : m s with | mk r1 s1 =>
  rw [h1] at h
  have h0 := hm.run s r1 s1 h1
  cases r1 with
  | ok a => exact StateRel.trans h0 ((hf a).run s1 r s' h)
  | err e => simp at h; rw [← h.2]; exact h0
  | panic => simp at h; rw [← h.2]; exact h0
  | fuel => simp at h; rw [← h.2]; exact h0
  | unmodelled => simp at h; rw [← h.2]; exact h0

theorem pres_tryCatch {m : M ν α} {k : Res α → M ν β} (hm : Pres R m) (hk : ∀ r, Pres R (k r)) : Pres R (tryCatch m k) := by
  constructor
  intro s r s' h
  simp only [tryCatch] at h
  cases h1 : m s with | mk r1 s1 =>
  rw [h1] at h
  exact StateRel.trans (hm.run s r1 s1 h1) ((hk r1).run s1 r s' h)

theorem pres_modifyVM {f : VM ν → VM ν} (hf : ∀ s, R s (f s)) : Pres R (modifyVM f) := by
  constructor
  intro s r s' h
  simp only [modifyVM] at h
  injection h with _ h2
  rw [← h2]; exact hf s

theorem pres_mapM {f : α → M ν β} (l : List α) (hf : ∀ x, Pres R (f x)) : Pres R (l.mapM f) := by
  induction l with
  | nil => rw [List.mapM_nil]; exact pres_pure _
  | cons x xs ih =>
    rw [List.mapM_cons]
    exact pres_bind (hf x) (fun _ => pres_bind ih (fun _ => pres_pure _))

theorem pres_forM {f : α → M ν PUnit} (l : List α) (hf : ∀ x, Pres R (f x)) : Pres R (l.forM f) := by
  induction l with
  | nil => exact pres_pure _
  | cons x xs ih =>
    simp only [List.forM]
    exact pres_bind (hf x) (fun _ => ih)

theorem pres_foldlM {f : β → α → M ν β} (l : List α) (hf : ∀ b x, Pres R (f b x)) : ∀ b, Pres R (l.foldlM f b) := by
  induction l with
  | nil => intro b; rw [List.foldlM_nil]; exact pres_pure _
  | cons x xs ih =>
    intro b
    rw [List.foldlM_cons]
    exact pres_bind (hf b x) (fun _ => ih _)

theorem pres_allM {f : α → M ν Bool} (l : List α) (hf : ∀ x, Pres R (f x)) : Pres R (allM f l) := by
  induction l with
  | nil => exact pres_pure _
  | cons x xs ih =>
    simp only [allM]
    refine pres_bind (hf x) (fun b => ?_)
    cases b
    · exact pres_pure _
    · exact ih

theorem pres_untilM {f : α → M ν Bool} (l : List α) (hf : ∀ x, Pres R (f x)) : Pres R (untilM f l) := by
  induction l with
  | nil => exact pres_pure _
  | cons x xs ih =>
    simp only [untilM]
    refine pres_bind (hf x) (fun b => ?_)
    cases b
    · exact ih
    · exact pres_pure _

theorem pres_untilIdxM {f : Nat → α → M ν Bool} (l : List α) (hf : ∀ i x, Pres R (f i x)) : ∀ i, Pres R (untilIdxM f i l) := by
  induction l with
  | nil => intro i; exact pres_pure _
  | cons x xs ih =>
    intro i
    simp only [untilIdxM]
    refine pres_bind (hf i x) (fun b => ?_)
    cases b
    · exact ih _
    · exact pres_pure _

theorem pres_whileM {step : M ν Bool} (hs : Pres R step) : ∀ k, Pres R (whileM k step) := by
  intro k
  induction k with
  | zero => exact pres_outOfFuel
  | succ k ih =>
    simp only [whileM]
    refine pres_bind hs (fun b => ?_)
    cases b
    · exact pres_pure _
    · exact ih

theorem pres_firstM {f : α → M ν (Option β)} {d : M ν β} (l : List α) (hf : ∀ x, Pres R (f x)) (hd : Pres R d) :
    Pres R (firstM f d l) := by
  induction l with
  | nil => exact hd
  | cons x xs ih =>
    simp only [firstM]
    refine pres_bind (hf x) (fun b => ?_)
    cases b
    · exact ih
    · exact pres_pure _

theorem pres_ite {c : Prop} [Decidable c] {m1 m2 : M ν α} (h1 : Pres R m1) (h2 : Pres R m2) :
    Pres R (if c then m1 else m2) := by
  split <;> assumption

end combinators

/-- leaves of the calculus that hold for every reflexive-transitive relation; extended below per relation -/
syntax "pres_leaf" : tactic
macro_rules
  | `(tactic| pres_leaf) => `(tactic| first
      | with_reducible exact pres_pure _ | with_reducible exact pres_throwE _ | with_reducible exact pres_rtErr _
      | with_reducible exact pres_goPanic | with_reducible exact pres_outOfFuel
      | with_reducible exact pres_notModelled | with_reducible exact pres_liftRes _ | with_reducible exact pres_getVM
      | with_reducible exact pres_getCell _ | with_reducible exact pres_topFrame
      | with_reducible exact pres_currentScope | with_reducible exact pres_stackDepth | with_reducible assumption)

/-- structural decomposition of a `Pres R (…)` goal along binds, loops, `match` and `if` -/
syntax "pres_step" : tactic
macro_rules
  | `(tactic| pres_step) => `(tactic| first
      | with_reducible apply pres_bind
      | (intro _; try dsimp only)
      | pres_leaf
      | with_reducible apply pres_tryCatch
      | with_reducible apply pres_mapM
      | with_reducible apply pres_forM
      | with_reducible apply pres_foldlM
      | with_reducible apply pres_allM
      | with_reducible apply pres_untilM
      | with_reducible apply pres_untilIdxM
      | with_reducible apply pres_whileM
      | with_reducible apply pres_firstM
      | split)

macro "pres_auto" : tactic => `(tactic| repeat' pres_step)

/-! ## read-only operations -/

/-- the state after equals the state before -/
def Same (s s' : VM ν) : Prop := s' = s
instance : StateRel (Same (ν := ν)) := ⟨fun _ => rfl, fun h1 h2 => by unfold Same at *; rw [h2, h1]⟩

theorem Pres.of_same {R : VM ν → VM ν → Prop} [StateRel R] {α : Type} {m : M ν α} (p : Pres Same m) : Pres R m :=
  p.mono (fun s s' h => by unfold Same at h; rw [h]; exact StateRel.refl _)

theorem display_same : ∀ (n : Nat) (a : Addr), Pres Same (display n a : M ν String) := by
  intro n
  induction n with
  | zero => intro a; exact pres_outOfFuel
  | succ n ih =>
    intro a
    unfold display
    pres_auto
    all_goals with_reducible exact ih _

theorem compareXEQ_same : ∀ (n : Nat) (l r : Addr), Pres Same (compareXEQ n l r : M ν Bool) := by
  intro n
  induction n with
  | zero => intro l r; exact pres_outOfFuel
  | succ n ih =>
    intro l r
    unfold compareXEQ
    pres_auto
    all_goals with_reducible exact ih _ _

theorem validateOne_same (a : Addr) (ty : String) : Pres Same (validateOne a ty : M ν Unit) := by
  unfold validateOne; pres_auto

theorem validateExact_same (vals : List Addr) (tys : List String) : Pres Same (validateExact vals tys : M ν Unit) := by
  unfold validateExact; pres_auto; exact validateOne_same _ _

theorem validateAll_same (vals : List Addr) (ty : String) : Pres Same (validateAll vals ty : M ν Unit) := by
  unfold validateAll; pres_auto; exact validateOne_same _ _

section
variable {R : VM ν → VM ν → Prop} [StateRel R]
theorem pres_display (n : Nat) (a : Addr) : Pres R (display n a : M ν String) := (display_same n a).of_same
theorem pres_compareXEQ (n : Nat) (l r : Addr) : Pres R (compareXEQ n l r : M ν Bool) := (compareXEQ_same n l r).of_same
theorem pres_validateOne (a : Addr) (ty : String) : Pres R (validateOne a ty : M ν Unit) := (validateOne_same a ty).of_same
theorem pres_validateExact (vals : List Addr) (tys : List String) : Pres R (validateExact vals tys : M ν Unit) :=
  (validateExact_same vals tys).of_same
theorem pres_validateAll (vals : List Addr) (ty : String) : Pres R (validateAll vals ty : M ν Unit) :=
  (validateAll_same vals ty).of_same
end

macro_rules
  | `(tactic| pres_leaf) => `(tactic| first
      | with_reducible exact pres_display _ _ | with_reducible exact pres_compareXEQ _ _ _
      | with_reducible exact pres_validateOne _ _ | with_reducible exact pres_validateExact _ _
      | with_reducible exact pres_validateAll _ _)

/-! ## operations that only allocate -/

/-- nothing but the heap differs, and the heap only grew -/
def Grow (s s' : VM ν) : Prop := SameBut s s' ∧ Ext s.heap s'.heap

instance : StateRel (Grow (ν := ν)) := ⟨fun s => ⟨SameBut.refl s, Ext.refl _⟩, fun h1 h2 => ⟨h1.1.trans h2.1, h1.2.trans h2.2⟩⟩

/-- relations that every allocation-only step satisfies -/
class GrowRel (R : VM ν → VM ν → Prop) : Prop extends StateRel R where
  ofGrow : ∀ {s s'}, Grow s s' → R s s'

instance : GrowRel (Grow (ν := ν)) := ⟨fun h => h⟩

theorem alloc_grow (c : Cell ν) : Pres Grow (alloc c) := by
  constructor
  intro s r s' h
  simp only [alloc] at h
  injection h with _ h2
  subst h2
  exact ⟨SameBut.push s c, Ext.push _ _⟩

theorem dup_grow : ∀ (n : Nat) (a : Addr), Pres Grow (dup n a : M ν Addr) := by
  intro n
  induction n with
  | zero => intro a; exact pres_outOfFuel
  | succ n ih =>
    intro a
    unfold dup
    pres_auto
    all_goals first | with_reducible exact ih _ | exact alloc_grow _

section
variable {R : VM ν → VM ν → Prop} [GrowRel R]
theorem pres_alloc (c : Cell ν) : Pres R (alloc c) := (alloc_grow c).mono (fun _ _ => GrowRel.ofGrow)
theorem pres_newNull : Pres R (newNull : M ν Addr) := pres_alloc _
theorem pres_newBool (b : Bool) : Pres R (newBool b : M ν Addr) := pres_alloc _
theorem pres_newNum (x : ν) : Pres R (newNum x : M ν Addr) := pres_alloc _
theorem pres_newStr (x : String) : Pres R (newStr x : M ν Addr) := pres_alloc _
theorem pres_dup (n : Nat) (a : Addr) : Pres R (dup n a : M ν Addr) := (dup_grow n a).mono (fun _ _ => GrowRel.ofGrow)
end

macro_rules
  | `(tactic| pres_leaf) => `(tactic| first
      | with_reducible exact pres_alloc _ | with_reducible exact pres_newNull | with_reducible exact pres_newBool _
      | with_reducible exact pres_newNum _ | with_reducible exact pres_newStr _ | with_reducible exact pres_dup _ _)

/-- `loopSignalToException` (a loop signal that escapes its body becomes an exception value) only allocates -/
theorem pres_loopSignalToException {R : VM ν → VM ν → Prop} [GrowRel R] (e : Err) :
    Pres R (loopSignalToException e : M ν Err) := by
  unfold loopSignalToException
  pres_auto

macro_rules
  | `(tactic| pres_leaf) => `(tactic| with_reducible exact pres_loopSignalToException _)

/-! ## mutators: only the receiver's own cell is written -/

/-- nothing but the heap differs; the heap did not shrink; every old cell other than `a` is unchanged -/
def FrameAt (a : Addr) (s s' : VM ν) : Prop :=
  SameBut s s' ∧ s.heap.size ≤ s'.heap.size ∧ ∀ i, i < s.heap.size → i ≠ a → s'.heap[i]? = s.heap[i]?

instance (a : Addr) : GrowRel (FrameAt (ν := ν) a) where
  refl s := ⟨SameBut.refl s, Nat.le_refl _, fun _ _ _ => rfl⟩
  trans h1 h2 := ⟨h1.1.trans h2.1, Nat.le_trans h1.2.1 h2.2.1, fun i hi hne => by
    rw [h2.2.2 i (Nat.lt_of_lt_of_le hi h1.2.1) hne, h1.2.2 i hi hne]⟩
  ofGrow h := ⟨h.1, h.2.1, fun i hi _ => h.2.2 i hi⟩

theorem setCell_frame (a : Addr) (c : Cell ν) : Pres (FrameAt a) (setCell a c) := by
  constructor
  intro s r s' h
  simp only [setCell] at h
  split at h
  · injection h with _ h2
    subst h2
    exact ⟨rfl, by simp, fun i _ hne => get_set_ne _ _ _ _ (Ne.symm hne)⟩
  · injection h with _ h2
    subst h2
    exact StateRel.refl _

macro_rules
  | `(tactic| pres_leaf) => `(tactic| with_reducible exact setCell_frame _ _)

theorem setProperty_frame (a : Addr) (name : String) (v : Addr) : Pres (FrameAt a) (setProperty a name v : M ν Unit) := by
  unfold setProperty
  pres_auto

theorem goContains_pres {R : VM ν → VM ν → Prop} [StateRel R] (n : Nat) (x : Addr) :
    ∀ l, Pres R (builtinMethod.goContains n x l : M ν Bool) := by
  intro l
  induction l with
  | nil => unfold builtinMethod.goContains; pres_auto
  | cons i rest ih => unfold builtinMethod.goContains; pres_auto

theorem goFind_pres {R : VM ν → VM ν → Prop} [StateRel R] (n : Nat) (x : Addr) :
    ∀ l k, Pres R (builtinMethod.goFind n x l k : M ν Int) := by
  intro l
  induction l with
  | nil => intro k; unfold builtinMethod.goFind; pres_auto
  | cons i rest ih => intro k; unfold builtinMethod.goFind; pres_auto; exact ih _

theorem goGet_pres {R : VM ν → VM ν → Prop} [GrowRel R] :
    ∀ l cur, Pres R (builtinMethod.goGet cur l : M ν Addr) := by
  intro l
  induction l with
  | nil => intro cur; unfold builtinMethod.goGet; pres_auto
  | cons i rest ih => intro cur; unfold builtinMethod.goGet; pres_auto; exact ih _

theorem goArith_pres {R : VM ν → VM ν → Prop} [StateRel R] (op : ν → ν → ν) (cz : Bool) :
    ∀ l acc, Pres R (builtinMethod.goArith op cz acc l : M ν ν) := by
  intro l
  induction l with
  | nil => intro acc; unfold builtinMethod.goArith; pres_auto
  | cons i rest ih => intro acc; unfold builtinMethod.goArith; pres_auto; exact ih _

end ZnVerif.Model
