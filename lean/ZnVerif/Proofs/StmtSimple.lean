/-
Token-level round trip with layout, part 3: the claims (what each production does on a rendering), `ParseStatement` in general,
and the simple statements (expression statement, 令, 输出, 抛出, 结束循环, 继续循环).
-/
import ZnVerif.Proofs.StmtExpr

namespace ZnVerif.Proofs.StmtRT
open ZnVerif.Model ZnVerif.Model.Parser ZnVerif.Generated.Tokens ZnVerif.Generated.ParserTables
open ZnVerif.Spec.StmtSyntax

variable {Y : Layout} {v : Variant}

-- ---- what may follow -----------------------------------------------------------------------------------------------------

/-- what follows a statement whose lines are indented by `d` (`a` = its last token): a statement line break, then the end of
input, or a line indented less, or a line indented alike that does not start with 再如 / 否则; never a comma -/
structure After (Y : Layout) (d : Nat) (a : Option Token) (rest : List Token) : Prop where
  brk : Y.jf a (Y.peek rest) = true
  nc : (Y.peek rest).type ≠ cTypeCommaSep
  dedent : (Y.peek rest).type = cTypeEOF ∨ Y.ind (Y.peek rest) < d ∨
    (Y.ind (Y.peek rest) = d ∧ (Y.peek rest).type ∉ condKeywords)

/-- what follows a block indented by `d`: a statement line break, then the end of input or a line indented less -/
structure AfterB (Y : Layout) (d : Nat) (a : Option Token) (rest : List Token) : Prop where
  brk : Y.jf a (Y.peek rest) = true
  nc : (Y.peek rest).type ≠ cTypeCommaSep
  dedent : (Y.peek rest).type = cTypeEOF ∨ Y.ind (Y.peek rest) < d

theorem AfterB.toAfter {d : Nat} {a : Option Token} {rest : List Token} (h : AfterB Y d a rest) : After Y d a rest :=
  ⟨h.brk, h.nc, h.dedent.elim Or.inl (fun h => Or.inr (Or.inl h))⟩

/-- after a statement at `d`, seen from a block at `d + 1` inside it -/
theorem After.inner {d : Nat} {a : Option Token} {rest : List Token} (h : After Y d a rest) : AfterB Y (d + 1) a rest :=
  ⟨h.brk, h.nc, h.dedent.elim Or.inl (fun h => Or.inr (h.elim (fun h => by omega) (fun h => by omega)))⟩

/-- the block ends here -/
theorem AfterB.ends {d : Nat} {a : Option Token} {rest : List Token} (h : AfterB Y d a rest) :
    (Y.peek rest).type = cTypeEOF ∨ Y.ind (Y.peek rest) ≠ d :=
  h.dedent.elim Or.inl (fun h => Or.inr (by omega))

/-- token types a statement can start with -/
def stmtHeads : List Nat :=
  [cTypeIdentifier, cTypeString, cTypeStmtQuoteL, cTypeDeclareW, cTypeCondW, cTypeFuncW, cTypeReturnW, cTypeWhileLoopW,
   cTypeVarOneW, cTypeIteratorW, cTypeObjDefineW, cTypeThrowErrorW, cTypeBreakW, cTypeContinueW,
   cTypeArrayQuoteL, cTypeFuncQuoteL, cTypeObjThisW, cTypeStmtSep]

theorem stmtHeads_spec : ∀ ty ∈ stmtHeads, ty ≠ cTypeEOF ∧ ty ≠ cTypeCommaSep ∧ ty ≠ cTypeComment ∧ ty ∉ condKeywords ∧
    ty ≠ cTypeCatchErrorW ∧ ty ≠ cTypeInputW ∧ ty ≠ cTypeImportW := by decide

theorem exprHeads_stmtHeads : ∀ ty ∈ exprHeads, ty ∈ stmtHeads ∧ (ty ≠ cTypeVarOneW → ty ∉ stmtValidTypes) := by decide

-- ---- fuel ----------------------------------------------------------------------------------------------------------------

def fS (ts : List Token) : Nat := 16 * ts.length + 20
def fB (ts : List Token) : Nat := 16 * ts.length + 22

-- ---- ParseStatement ------------------------------------------------------------------------------------------------------

/-- the dispatch of `ParseStatement` on the leading keyword -/
def stmtBody {σ : Type} (v : Variant) (ops : LexOps σ) (fuel : Nat) (rec : Rec σ) (tk : Token) : PM σ Stmt :=
  if tk.type = cTypeDeclareW then rec .varDecl
  else if tk.type = cTypeCondW then rec .branch
  else if tk.type = cTypeFuncW then do
    match ← tryConsume ops fuel [cTypeObjNewW] with
    | some _ => do
      let r ← rec .functionBlock
      pure (.funcDecl 0 (some r.1) cDeclareTypeConstructor (some r.2))
    | none => do
      let r ← rec .functionBlock
      pure (.funcDecl 0 (some r.1) cDeclareTypeFunc (some r.2))
  else if tk.type = cTypeReturnW then do
    let e ← rec (.expr true)
    pure (.ret 0 e)
  else if tk.type = cTypeWhileLoopW then rec .whileLoop
  else if tk.type = cTypeVarOneW then rec .varOneLead
  else if tk.type = cTypeIteratorW then rec (.iteratorRest [])
  else if tk.type = cTypeObjDefineW then rec .classDecl
  else if tk.type = cTypeThrowErrorW then rec .throwStmt
  else if tk.type = cTypeBreakW then pure (.break 0)
  else if tk.type = cTypeContinueW then pure (.continue 0)
  else goPanic

theorem pStatement_eq {σ : Type} (v : Variant) (ops : LexOps σ) (fuel : Nat) (rec : Rec σ) :
    pStatement v ops fuel rec = (do
      unsetFlag
      match ← tryConsume ops fuel stmtValidTypes with
      | some tk =>
        if tk.type = cTypeStmtSep then pure (.empty 0)
        else do
          let st ← stmtBody v ops fuel rec tk
          let l ← lineOf ops tk
          endOfStmt v
          pure (st.setLine l)
      | none => do
        let e ← rec (.expr true)
        endOfStmt v
        pure (.expr e)) := rfl

/-- a statement is complete when the flag is set or a `；` (or the end of input) follows -/
theorem endOfStmt_fin (a : Option Token) (rest : List Token) (fl : Bool)
    (h : fl = true ∨ (Y.peek rest).type = cTypeStmtSep) :
    (endOfStmt v : PM (List Token) Unit) (S Y a rest fl) = .ok () (S Y a rest fl) := by
  unfold endOfStmt
  rcases h with h | h
  · simp [S, h]
  · have : meetStmtBreak (S Y a rest fl) = true := by
      unfold meetStmtBreak
      have : (S Y a rest fl).p2.type = cTypeStmtSep := h
      simp [this]
    simp [this]

/-- a statement that starts with a keyword: the keyword's production runs on the state after the keyword, the statement must be
complete afterwards (flag set, or a `；` next), the node gets the keyword's line -/
theorem statement_kw' (m : Nat) (p1 : Option Token) (fl : Bool) (kw : Token) (r : List Token) (st : Stmt)
    (a : Option Token) (rest' : List Token) (fl' : Bool)
    (hkw : kw.type ∈ stmtValidTypes) (hns : kw.type ≠ cTypeStmtSep) (ho : Y.InOrder (kw :: r))
    (hfin : fl' = true ∨ (Y.peek rest').type = cTypeStmtSep)
    (hB : stmtBody v (layoutOps Y) (m + 1) (parse v (layoutOps Y) (m + 1)) kw
            (S Y (some kw) r (Y.brk kw (Y.peek r))) = .ok st (S Y a rest' fl')) :
    parse v (layoutOps Y) (m + 2) .statement (S Y p1 (kw :: r) fl) = .ok (st.setLine (Y.sl kw)) (S Y a rest' fl') := by
  show pStatement v (layoutOps Y) (m + 1) _ _ = _
  rw [pStatement_eq]
  have hnc : kw.type ≠ cTypeCommaSep := by
    intro h; rw [h] at hkw; revert hkw; decide
  rw [bind_ok (unsetFlag_S p1 (kw :: r) fl), bind_ok (tryConsume_hit m _ p1 kw r hkw hnc ho)]
  simp only [hns, if_false]
  rw [bind_ok hB, bind_ok (lineOf_S kw _), bind_ok (endOfStmt_fin a rest' fl' hfin)]
  rfl

theorem statement_kw (m : Nat) (p1 : Option Token) (fl : Bool) (kw : Token) (r : List Token) (st : Stmt)
    (a : Option Token) (rest' : List Token)
    (hkw : kw.type ∈ stmtValidTypes) (hns : kw.type ≠ cTypeStmtSep) (ho : Y.InOrder (kw :: r))
    (hB : stmtBody v (layoutOps Y) (m + 1) (parse v (layoutOps Y) (m + 1)) kw
            (S Y (some kw) r (Y.brk kw (Y.peek r))) = .ok st (S Y a rest' true)) :
    parse v (layoutOps Y) (m + 2) .statement (S Y p1 (kw :: r) fl) = .ok (st.setLine (Y.sl kw)) (S Y a rest' true) :=
  statement_kw' m p1 fl kw r st a rest' true hkw hns ho (Or.inl rfl) hB

section bodies
variable (v : Variant) (ops : LexOps (List Token)) (fuel : Nat) (rec : Rec (List Token)) (tk : Token)

theorem stmtBody_decl (h : tk.type = cTypeDeclareW) : stmtBody v ops fuel rec tk = rec .varDecl := by
  unfold stmtBody; rw [h]; rfl
theorem stmtBody_cond (h : tk.type = cTypeCondW) : stmtBody v ops fuel rec tk = rec .branch := by
  unfold stmtBody; rw [h]; rfl
theorem stmtBody_ret (h : tk.type = cTypeReturnW) :
    stmtBody v ops fuel rec tk = (do let e ← rec (.expr true); pure (.ret 0 e)) := by
  unfold stmtBody; rw [h]; rfl
theorem stmtBody_while (h : tk.type = cTypeWhileLoopW) : stmtBody v ops fuel rec tk = rec .whileLoop := by
  unfold stmtBody; rw [h]; rfl
theorem stmtBody_varOne (h : tk.type = cTypeVarOneW) : stmtBody v ops fuel rec tk = rec .varOneLead := by
  unfold stmtBody; rw [h]; rfl
theorem stmtBody_iter (h : tk.type = cTypeIteratorW) : stmtBody v ops fuel rec tk = rec (.iteratorRest []) := by
  unfold stmtBody; rw [h]; rfl
theorem stmtBody_class (h : tk.type = cTypeObjDefineW) : stmtBody v ops fuel rec tk = rec .classDecl := by
  unfold stmtBody; rw [h]; rfl
theorem stmtBody_throw (h : tk.type = cTypeThrowErrorW) : stmtBody v ops fuel rec tk = rec .throwStmt := by
  unfold stmtBody; rw [h]; rfl
theorem stmtBody_break (h : tk.type = cTypeBreakW) : stmtBody v ops fuel rec tk = pure (.break 0) := by
  unfold stmtBody; rw [h]; rfl
theorem stmtBody_continue (h : tk.type = cTypeContinueW) : stmtBody v ops fuel rec tk = pure (.continue 0) := by
  unfold stmtBody; rw [h]; rfl
theorem stmtBody_func (h : tk.type = cTypeFuncW) : stmtBody v ops fuel rec tk = (do
    match ← tryConsume ops fuel [cTypeObjNewW] with
    | some _ => do
      let r ← rec .functionBlock
      pure (.funcDecl 0 (some r.1) cDeclareTypeConstructor (some r.2))
    | none => do
      let r ← rec .functionBlock
      pure (.funcDecl 0 (some r.1) cDeclareTypeFunc (some r.2))) := by
  unfold stmtBody; rw [h]; rfl
end bodies

-- ---- claims --------------------------------------------------------------------------------------------------------------

/-- `ParseStatement` on a rendering of the statement `s` returns `s`, having consumed exactly the rendering, with the statement
marked complete -/
def CStmt (v : Variant) (Y : Layout) (d : Nat) (s : Stmt) (ts : List Token) : Prop :=
  ∀ p1 rest fl, Y.InOrder (ts ++ rest) → After Y d ts.getLast? rest →
    Stable v Y .statement (S Y p1 (ts ++ rest) fl) (.ok s (S Y ts.getLast? rest true)) (fS ts)

structure StmtFacts (Y : Layout) (ts : List Token) : Prop where
  ne : ts ≠ []
  head : (Y.peek ts).type ∈ stmtHeads

theorem After.send {d : Nat} {ts rest : List Token} (h : After Y d ts.getLast? rest) :
    Send Y ts rest = S Y ts.getLast? rest true := by
  unfold Send; rw [h.brk]

/-- what follows a simple statement: not a comma; a statement line break, or a `；` -/
structure AfterS (Y : Layout) (a : Option Token) (rest : List Token) : Prop where
  nc : (Y.peek rest).type ≠ cTypeCommaSep
  fin : Y.jf a (Y.peek rest) = true ∨ (Y.peek rest).type = cTypeStmtSep

theorem After.toS {d : Nat} {a : Option Token} {rest : List Token} (h : After Y d a rest) : AfterS Y a rest := ⟨h.nc, Or.inl h.brk⟩

theorem AfterS.stop {ts rest : List Token} (h : AfterS Y ts.getLast? rest) (F : List Nat) (hF : cTypeStmtSep ∉ F) :
    Stop Y F ts rest := ⟨h.nc, h.fin.imp id (fun h' => by rw [h']; exact hF)⟩

/-- `ParseStatement` on a rendering of a simple statement `s`, followed by a statement line break or a `；` -/
def CSimple (v : Variant) (Y : Layout) (s : Stmt) (ts : List Token) : Prop :=
  ∀ p1 rest fl, Y.InOrder (ts ++ rest) → AfterS Y ts.getLast? rest →
    Stable v Y .statement (S Y p1 (ts ++ rest) fl) (.ok s (S Y ts.getLast? rest (Y.jf ts.getLast? (Y.peek rest)))) (fS ts)

theorem CSimple.toCStmt {d : Nat} {s : Stmt} {ts : List Token} (h : CSimple v Y s ts) : CStmt v Y d s ts := by
  intro p1 rest fl ho ha
  have := h p1 rest fl ho ha.toS
  rwa [ha.brk] at this

-- ---- identifier lists, argument lists -----------------------------------------------------------------------------------

theorem stop_of_after {d : Nat} {ts rest : List Token} (F : List Nat) (h : After Y d ts.getLast? rest) : Stop Y F ts rest :=
  ⟨h.nc, Or.inl h.brk⟩

theorem linIds_facts {ids : List Ident} {ts : List Token} (h : LinIds Y ids ts) :
    ts ≠ [] ∧ (Y.peek ts).type = cTypeIdentifier := by
  cases h with
  | one t ht => exact ⟨by simp, ht⟩
  | cons t p ids ts ht hp h => exact ⟨by simp, ht⟩

/-- `parsePauseCommaList(parseID)` on `a、b、c` -/
theorem ids_roundtrip {ids : List Ident} {ts : List Token} (h : LinIds Y ids ts) :
    ∀ (p1 : Option Token) (rest : List Token) (acc : List Ident), Y.Glued ts → Y.InOrder (ts ++ rest) →
      Stop Y [cTypePauseCommaSep] ts rest →
      Stable v Y (.commaIds acc) (S Y p1 (ts ++ rest) false) (.ok (acc ++ ids) (Send Y ts rest)) (ts.length + 1) := by
  induction h with
  | one t ht =>
    intro p1 rest acc hg ho hs n' hn
    obtain ⟨m, rfl⟩ : ∃ m, n' = m + 2 := ⟨n' - 2, by simp at hn; omega⟩
    have e0 : [t] ++ rest = t :: rest := rfl
    rw [e0] at ho ⊢
    show pCommaIds v (layoutOps Y) (m + 1) _ acc _ = _
    unfold pCommaIds
    rw [bind_ok (parseID_hit m p1 t rest ht ho)]
    have : S Y (some t) rest (Y.brk t (Y.peek rest)) = Send Y [t] rest := rfl
    rw [this]
    unfold Send
    rw [bind_ok (tryConsume_miss (m + 1) _ _ rest _ hs.2 hs.1)]
    rfl
  | cons t p ids ts ht hp h ih =>
    intro p1 rest acc hg ho hs n' hn
    obtain ⟨m, rfl⟩ : ∃ m, n' = m + 2 := ⟨n' - 2, by simp at hn; omega⟩
    have e0 : (t :: p :: ts) ++ rest = t :: p :: (ts ++ rest) := rfl
    rw [e0] at ho ⊢
    show pCommaIds v (layoutOps Y) (m + 1) _ acc _ = _
    unfold pCommaIds
    have ho' : Y.InOrder (t :: p :: (ts ++ rest)) := ho
    rw [bind_ok (parseID_hit m p1 t _ ht ho')]
    have hb1 : Y.brk t (Y.peek (p :: (ts ++ rest))) = false := glued_head hg
    rw [hb1]
    have hpc : p.type ≠ cTypeCommaSep := by rw [hp]; decide
    have hne := (linIds_facts h).1
    rw [bind_ok (tryConsume_hit m _ (some t) p (ts ++ rest) (by simp [hp]) hpc (inOrder_tail ho'))]
    have hb2 : Y.brk p (Y.peek (ts ++ rest)) = false := by
      rw [peek_append hne]
      cases ts with
      | nil => exact absurd rfl hne
      | cons u r => exact glued_head (glued_tail hg)
    rw [hb2]
    have hs' : Stop Y [cTypePauseCommaSep] ts rest := by
      have e : (t :: p :: ts).getLast? = ts.getLast? := getLast?_append_ne [t, p] hne
      unfold Stop at hs ⊢; rw [e] at hs; exact hs
    have := ih (some p) rest (acc ++ [Y.idOf t]) (glued_tail (glued_tail hg)) (inOrder_tail (inOrder_tail ho')) hs' (m + 1)
      (by simp at hn ⊢; omega)
    show parse v (layoutOps Y) (m + 1) (.commaIds (acc ++ [Y.idOf t])) _ = _
    rw [this]
    have e : (t :: p :: ts).getLast? = ts.getLast? := getLast?_append_ne [t, p] hne
    simp only [Send, e, List.append_assoc, List.singleton_append]

theorem bind_ok2 {α β γ : Type} {x : PM (List Token) α} {f : α → PM (List Token) β} {k : β → PM (List Token) γ}
    {s s' : PState (List Token)} {b : β} (h : (x >>= f) s = .ok b s') : (x >>= fun a => f a >>= k) s = k b s' := by
  have h' : PM.bind x f s = .ok b s' := h
  show PM.bind x (fun a => PM.bind (f a) k) s = _
  unfold PM.bind at h' ⊢
  cases hx : x s with
  | ok a s1 =>
    rw [hx] at h'
    simp only at h' ⊢
    rw [h']
  | err e => rw [hx] at h'; cases h'
  | panic => rw [hx] at h'; cases h'
  | fuel => rw [hx] at h'; cases h'

theorem linArgs_facts {es : List Expr} {ts : List Token} (h : LinArgs Y es ts) :
    ts ≠ [] ∧ (Y.peek ts).type ∈ exprHeads := by
  cases h with
  | one e ts h => exact ⟨(linE_facts h).1, (linE_facts h).2⟩
  | cons p e te es ts h _ hp hr =>
    have hf := linE_facts h
    exact ⟨by simp [hf.1], by rw [peek_append hf.1]; exact hf.2⟩

theorem pauseComma_not_B1 : cTypePauseCommaSep ∉ B1 true := by decide

/-- the argument list of 抛出: the first expression, then `{ 、 expression }` -/
theorem args_roundtrip {es : List Expr} {ts : List Token} (h : LinArgs Y es ts) :
    ∀ (p1 : Option Token) (rest : List Token) (acc : List Expr), Y.Glued ts → Y.InOrder (ts ++ rest) →
      Stop Y (cTypePauseCommaSep :: F1) ts rest →
      ∀ n, 16 * ts.length + 17 ≤ n →
        (parse v (layoutOps Y) n (.expr true) >>= fun e =>
          parse v (layoutOps Y) n (.throwLoop (acc ++ [e]))) (S Y p1 (ts ++ rest) false)
          = .ok (acc ++ es) (Send Y ts rest) := by
  induction h with
  | one e ts h =>
    intro p1 rest acc hg ho hs n hn
    have hs1 : Stop Y F1 ts rest := ⟨hs.1, hs.2.imp id (fun h' hm => h' (List.mem_cons_of_mem _ hm))⟩
    rw [bind_ok (expr_roundtrip (v := v) h hg p1 rest ho hs1 n (by omega))]
    obtain ⟨m, rfl⟩ : ∃ m, n = m + 1 := ⟨n - 1, by omega⟩
    show pThrowLoop (layoutOps Y) m _ _ _ = _
    unfold pThrowLoop Send
    rw [bind_ok (tryConsume_miss m _ _ rest _ (hs.2.imp id (fun h' hm => h' (by simp at hm; simp [hm]))) hs.1)]
    rfl
  | cons p e te es ts h hopen hp hr ih =>
    intro p1 rest acc hg ho hs n hn
    have hf := linE_facts h
    have hne := (linArgs_facts hr).1
    have hpc : p.type ≠ cTypeCommaSep := by rw [hp]; decide
    have ho1 : Y.InOrder (te ++ p :: (ts ++ rest)) := by simpa [List.append_assoc] using ho
    have hFO : FO e = [] := by unfold FO; simp [hopen]
    have hs1 : Stop Y (B1 true ++ FO e) te (p :: (ts ++ rest)) :=
      ⟨hpc, Or.inr (by show p.type ∉ _; rw [hFO, List.append_nil, hp]; exact pauseComma_not_B1)⟩
    have e0 : (te ++ p :: ts) ++ rest = te ++ p :: (ts ++ rest) := by simp
    rw [e0, bind_ok (expr_roundtrip_open (v := v) h (glued_take te hg) p1 _ ho1 hs1 n
      (by simp only [List.length_append, List.length_cons] at hn; omega))]
    obtain ⟨m, rfl⟩ : ∃ m, n = m + 2 := ⟨n - 2, by omega⟩
    show pThrowLoop (layoutOps Y) (m + 1) _ _ _ = _
    unfold pThrowLoop Send
    have hj : Y.jf te.getLast? (Y.peek (p :: (ts ++ rest))) = false := glued_joint te hg
    rw [hj]
    have ho2 : Y.InOrder (p :: (ts ++ rest)) := inOrder_drop te ho1
    rw [bind_ok (tryConsume_hit m _ _ p (ts ++ rest) (by simp [hp]) hpc ho2)]
    have hb2 : Y.brk p (Y.peek (ts ++ rest)) = false := by
      rw [peek_append hne]
      have := glued_drop te hg
      cases ts with
      | nil => exact absurd rfl hne
      | cons u r => exact glued_head this
    rw [hb2]
    have el : (te ++ p :: ts).getLast? = ts.getLast? := getLast?_append_ne _ (by simp : p :: ts ≠ []) ▸
      (getLast?_append_ne [p] hne)
    have hs' : Stop Y (cTypePauseCommaSep :: F1) ts rest := by unfold Stop at hs ⊢; rw [el] at hs; exact hs
    have := ih (some p) rest (acc ++ [e]) (glued_tail (glued_drop te hg)) (inOrder_tail ho2) hs' (m + 1)
      (by simp only [List.length_append, List.length_cons] at hn; omega)
    dsimp only
    rw [this]
    simp only [Send, el, List.append_assoc, List.singleton_append]

-- ---- the simple statements -----------------------------------------------------------------------------------------------

theorem head_of_expr {e : Expr} {ts : List Token} (h : LinE Y 1 e ts) : StmtFacts Y ts := by
  have hf := linE_facts h
  exact ⟨hf.1, (exprHeads_stmtHeads _ hf.2).1⟩

/-- the expression statement -/
theorem stmt_expr {e : Expr} {ts : List Token} (h : LinE Y 1 e ts) (hg : Y.Glued ts) (h1 : (Y.peek ts).type ≠ cTypeVarOneW) :
    CSimple v Y (.expr e) ts := by
  intro p1 rest fl ho ha n' hn
  obtain ⟨m, rfl⟩ : ∃ m, n' = m + 1 := ⟨n' - 1, by unfold fS at hn; omega⟩
  show pStatement v (layoutOps Y) m _ _ = _
  rw [pStatement_eq]
  have hf := linE_facts h
  have hpk : Y.peek (ts ++ rest) = Y.peek ts := peek_append hf.1 rest
  have hn1 : (Y.peek (ts ++ rest)).type ∉ stmtValidTypes ∧ (Y.peek (ts ++ rest)).type ≠ cTypeCommaSep := by
    rw [hpk]; exact ⟨(exprHeads_stmtHeads _ hf.2).2 h1, (exprHeads_spec _ hf.2).2.1⟩
  rw [bind_ok (unsetFlag_S p1 _ fl), bind_ok (tryConsume_miss m _ p1 _ false (Or.inr hn1.1) hn1.2)]
  show (parse v (layoutOps Y) m (.expr true) >>= _) _ = _
  rw [bind_ok (expr_roundtrip (v := v) h hg p1 rest ho (ha.stop F1 (by decide)) m (by unfold fS at hn; omega))]
  unfold Send
  rw [bind_ok (endOfStmt_fin _ rest _ ha.fin)]
  rfl

/-- 结束循环 -/
theorem stmt_break {kw : Token} (hk : kw.type = cTypeBreakW) : CSimple v Y (.break (Y.sl kw)) [kw] := by
  intro p1 rest fl ho ha n' hn
  obtain ⟨m, rfl⟩ : ∃ m, n' = m + 2 := ⟨n' - 2, by unfold fS at hn; omega⟩
  exact statement_kw' (Y := Y) (v := v) m p1 fl kw rest (.break 0) (some kw) rest _ (by rw [hk]; decide) (by rw [hk]; decide) ho
    ha.fin (by rw [stmtBody_break _ _ _ _ _ hk]; rfl)

/-- 继续循环 -/
theorem stmt_continue {kw : Token} (hk : kw.type = cTypeContinueW) : CSimple v Y (.continue (Y.sl kw)) [kw] := by
  intro p1 rest fl ho ha n' hn
  obtain ⟨m, rfl⟩ : ∃ m, n' = m + 2 := ⟨n' - 2, by unfold fS at hn; omega⟩
  exact statement_kw' (Y := Y) (v := v) m p1 fl kw rest (.continue 0) (some kw) rest _ (by rw [hk]; decide) (by rw [hk]; decide) ho
    ha.fin (by rw [stmtBody_continue _ _ _ _ _ hk]; rfl)

/-- 输出 e -/
theorem stmt_ret {kw : Token} {e : Expr} {te : List Token} (hk : kw.type = cTypeReturnW) (h : LinE Y 1 e te)
    (hg : Y.Glued (kw :: te)) : CSimple v Y (.ret (Y.sl kw) e) (kw :: te) := by
  intro p1 rest fl ho ha n' hn
  obtain ⟨m, rfl⟩ : ∃ m, n' = m + 2 := ⟨n' - 2, by unfold fS at hn; omega⟩
  have hf := linE_facts h
  have el : (kw :: te).getLast? = te.getLast? := getLast?_append_ne [kw] hf.1
  rw [el] at ha ⊢
  have ho' : Y.InOrder (kw :: (te ++ rest)) := ho
  refine statement_kw' (Y := Y) (v := v) m p1 fl kw (te ++ rest) (.ret 0 e) _ rest _ (by rw [hk]; decide) (by rw [hk]; decide) ho'
    ha.fin ?_
  rw [stmtBody_ret _ _ _ _ _ hk]
  have hb : Y.brk kw (Y.peek (te ++ rest)) = false := by
    rw [peek_append hf.1]
    cases te with
    | nil => exact absurd rfl hf.1
    | cons u r => exact glued_head hg
  rw [hb, bind_ok (expr_roundtrip (v := v) h (glued_tail hg) (some kw) rest (inOrder_tail ho') (ha.stop F1 (by decide)) (m + 1)
    (by unfold fS at hn; simp only [List.length_cons] at hn; omega))]
  rfl

/-- 令 a、b 设为 e -/
theorem stmt_decl {kw asg : Token} {ids : List Ident} {ti : List Token} {e : Expr} {te : List Token}
    (hk : kw.type = cTypeDeclareW) (hi : LinIds Y ids ti) (hasg : asg.type ∈ vdAssignKeywords) (h : LinE Y 1 e te)
    (hg : Y.Glued (kw :: ti ++ asg :: te)) :
    CSimple v Y (.varDecl (Y.sl kw) [(vdTypeOf asg, ids, e)]) (kw :: ti ++ asg :: te) := by
  intro p1 rest fl ho ha n' hn
  obtain ⟨m, rfl⟩ : ∃ m, n' = m + 4 := ⟨n' - 4, by unfold fS at hn; omega⟩
  have hf := linE_facts h
  have hfi := linIds_facts hi
  have el : (kw :: ti ++ asg :: te).getLast? = te.getLast? := by
    have : kw :: ti ++ asg :: te = (kw :: ti ++ [asg]) ++ te := by simp
    rw [this]; exact getLast?_append_ne _ hf.1
  rw [el] at ha ⊢
  have e0 : (kw :: ti ++ asg :: te) ++ rest = kw :: (ti ++ (asg :: (te ++ rest))) := by simp
  rw [e0] at ho ⊢
  have hasgc : asg.type ≠ cTypeCommaSep := by
    intro hh; rw [hh] at hasg; revert hasg; decide
  have hasgp : asg.type ∉ [cTypePauseCommaSep] := by
    intro hh; simp only [List.mem_cons, List.not_mem_nil, or_false] at hh; rw [hh] at hasg; revert hasg; decide
  refine statement_kw' (Y := Y) (v := v) (m + 2) p1 fl kw _ (.varDecl 0 [(vdTypeOf asg, ids, e)]) _ rest _ (by rw [hk]; decide)
    (by rw [hk]; decide) ho ha.fin ?_
  rw [stmtBody_decl _ _ _ _ _ hk]
  have hg1 : Y.Glued (kw :: (ti ++ asg :: te)) := hg
  have hb : Y.brk kw (Y.peek (ti ++ asg :: (te ++ rest))) = false := by
    rw [peek_append hfi.1]
    cases ti with
    | nil => exact absurd rfl hfi.1
    | cons u r => exact glued_head hg1
  rw [hb]
  show pVarDecl v (layoutOps Y) (m + 2) _ _ = _
  unfold pVarDecl
  have hpk : (Y.peek (ti ++ asg :: (te ++ rest))).type = cTypeIdentifier := by rw [peek_append hfi.1]; exact hfi.2
  rw [bind_ok (tryConsume_miss (m + 2) _ _ _ false (Or.inr (by rw [hpk]; decide)) (by rw [hpk]; decide))]
  show (parse v (layoutOps Y) (m + 2) .vdPair >>= _) _ = _
  have hpair : parse v (layoutOps Y) (m + 2) .vdPair (S Y (some kw) (ti ++ asg :: (te ++ rest)) false) =
      .ok (vdTypeOf asg, ids, e) (S Y te.getLast? rest (Y.jf te.getLast? (Y.peek rest))) := by
    show pVdPair v (layoutOps Y) (m + 1) _ _ = _
    unfold pVdPair
    have hgi : Y.Glued (ti ++ asg :: te) := glued_tail hg1
    have hoi : Y.InOrder (ti ++ asg :: (te ++ rest)) := inOrder_tail ho
    have hsi : Stop Y [cTypePauseCommaSep] ti (asg :: (te ++ rest)) := ⟨hasgc, Or.inr hasgp⟩
    have := ids_roundtrip (v := v) hi (some kw) (asg :: (te ++ rest)) [] (glued_take ti hgi) hoi hsi (m + 1)
      (by unfold fS at hn; simp only [List.length_cons, List.length_append] at hn; omega)
    rw [bind_ok this]
    unfold Send
    have hj : Y.jf ti.getLast? (Y.peek (asg :: (te ++ rest))) = false := glued_joint ti hgi
    rw [hj]
    have hoa : Y.InOrder (asg :: (te ++ rest)) := inOrder_drop ti hoi
    rw [bind_ok (tryConsume_hit m _ _ asg (te ++ rest) hasg hasgc hoa)]
    dsimp only
    have hb2 : Y.brk asg (Y.peek (te ++ rest)) = false := by
      rw [peek_append hf.1]
      have := glued_drop ti hgi
      cases te with
      | nil => exact absurd rfl hf.1
      | cons u r => exact glued_head this
    rw [hb2, bind_ok (expr_roundtrip (v := v) h (glued_tail (glued_drop ti hgi)) (some asg) rest (inOrder_tail hoa) (ha.stop F1 (by decide))
      (m + 1) (by unfold fS at hn; simp only [List.length_cons, List.length_append] at hn; omega))]
    rfl
  rw [bind_ok hpair]
  rfl

/-- 抛出 类：e1、e2！ -/
theorem stmt_throw {kw cls colon bang : Token} {es : List Expr} {tes : List Token}
    (hk : kw.type = cTypeThrowErrorW) (hcls : cls.type = cTypeIdentifier) (hcol : colon.type = cTypeFuncCall)
    (hes : LinArgs Y es tes) (hbang : bang.type = cTypeExceptionT) (hg : Y.Glued (kw :: cls :: colon :: tes ++ [bang])) :
    CSimple v Y (.throw (Y.sl kw) (some (Y.idOf cls)) es) (kw :: cls :: colon :: tes ++ [bang]) := by
  intro p1 rest fl ho ha n' hn
  obtain ⟨m, rfl⟩ : ∃ m, n' = m + 4 := ⟨n' - 4, by unfold fS at hn; omega⟩
  have hfa := linArgs_facts hes
  have el : (kw :: cls :: colon :: tes ++ [bang]).getLast? = some bang := by
    have : kw :: cls :: colon :: tes ++ [bang] = (kw :: cls :: colon :: tes) ++ [bang] := by simp
    rw [this, List.getLast?_append]; rfl
  rw [el] at ha ⊢
  have e0 : (kw :: cls :: colon :: tes ++ [bang]) ++ rest = kw :: cls :: colon :: (tes ++ (bang :: rest)) := by simp
  rw [e0] at ho ⊢
  have hbc : bang.type ≠ cTypeCommaSep := by rw [hbang]; decide
  refine statement_kw' (Y := Y) (v := v) (m + 2) p1 fl kw _ (.throw 0 (some (Y.idOf cls)) es) _ rest _ (by rw [hk]; decide)
    (by rw [hk]; decide) ho ha.fin ?_
  rw [stmtBody_throw _ _ _ _ _ hk]
  have hb : Y.brk kw (Y.peek (cls :: colon :: (tes ++ bang :: rest))) = false := glued_head hg
  rw [hb]
  show pThrow v (layoutOps Y) (m + 2) _ _ = _
  unfold pThrow
  have ho1 := inOrder_tail ho
  rw [bind_ok (parseID_hit (m + 1) _ cls _ hcls ho1)]
  have hg1 := glued_tail hg
  have hb1 : Y.brk cls (Y.peek (colon :: (tes ++ bang :: rest))) = false := glued_head hg1
  rw [hb1]
  have ho2 := inOrder_tail ho1
  rw [bind_ok (consume_hit (m + 1) _ _ colon _ (by simp [hcol]) (by rw [hcol]; decide) ho2)]
  have hg2 : Y.Glued (colon :: (tes ++ [bang])) := glued_tail hg1
  have hb2 : Y.brk colon (Y.peek (tes ++ bang :: rest)) = false := by
    rw [peek_append hfa.1]
    cases tes with
    | nil => exact absurd rfl hfa.1
    | cons u r => exact glued_head hg2
  rw [hb2]
  have hg3 : Y.Glued (tes ++ [bang]) := glued_tail hg2
  have hs3 : Stop Y (cTypePauseCommaSep :: F1) tes (bang :: rest) :=
    ⟨hbc, Or.inr (by show bang.type ∉ _; rw [hbang]; decide)⟩
  have hlen : 16 * tes.length + 17 ≤ m + 2 := by
    unfold fS at hn; simp only [List.length_cons, List.length_append, List.length_nil] at hn; omega
  have harg := args_roundtrip (v := v) hes (some colon) (bang :: rest) [] (glued_take tes hg3) (inOrder_tail ho2) hs3 (m + 2) hlen
  -- `e ← expr; es ← throwLoop [e]` is the bind `args_roundtrip` speaks of
  have hb3 := bind_ok2 (k := fun es => do
      consume v (layoutOps Y) (m + 2) [cTypeExceptionT]
      pure (Stmt.throw 0 (some (Y.idOf cls)) es)) harg

  refine hb3.trans ?_
  unfold Send
  have hj : Y.jf tes.getLast? (Y.peek (bang :: rest)) = false := glued_joint tes hg3
  rw [hj]
  have ho3 : Y.InOrder (bang :: rest) := inOrder_drop tes (inOrder_tail ho2)
  rw [bind_ok (consume_hit (m + 1) _ _ bang rest (by simp [hbang]) hbc ho3)]
  rfl

/-- `以 x（m：a）、（n）`, optionally `得到 X`, as a statement -/
theorem stmt_mcall {kw l : Token} {root : Expr} {tr : List Token} {n : Ident} {ps : List Expr} {tc : List Token}
    {cs : List Expr} {tcs : List Token} {yl : Option (Token × Token)} (hk : kw.type = cTypeVarOneW) (hr : LinE Y 1 root tr)
    (hl : l.type = cTypeFuncQuoteL) (hf : LinX Y true 0 (.fcall n ps) tc) (hc : LinX Y true 0 (.chain cs) tcs) (hy : YieldOK yl)
    (hg : Y.Glued (kw :: tr ++ l :: tc ++ tcs ++ yieldToks yl)) :
    CSimple v Y (.expr (.mcall (Y.sl kw) root (.call 0 (some n) ps none :: cs) (Y.yieldId yl)))
      (kw :: tr ++ l :: tc ++ tcs ++ yieldToks yl) := by
  intro p1 rest fl ho ha n' hn
  obtain ⟨m, rfl⟩ : ∃ m, n' = m + 3 := ⟨n' - 3, by unfold fS at hn; omega⟩
  have hfr := linE_facts hr
  obtain ⟨⟨hne, _⟩, Cf⟩ := fcall_claim (v := v) hf
  have Cc := chain_claim (v := v) hc
  have hlc : l.type ≠ cTypeCommaSep := by rw [hl]; decide
  have esh : kw :: tr ++ l :: tc ++ tcs ++ yieldToks yl = (kw :: tr) ++ (l :: (tc ++ (tcs ++ yieldToks yl))) := by simp
  have el : (kw :: tr ++ l :: tc ++ tcs ++ yieldToks yl).getLast? = (l :: (tc ++ tcs) ++ yieldToks yl).getLast? := by
    rw [esh, getLast?_append_ne _ (by simp)]
    congr 1; simp
  have el2 : (tc ++ (tcs ++ (yieldToks yl ++ []))).getLast? = (l :: (tc ++ tcs) ++ yieldToks yl).getLast? := by
    have : l :: (tc ++ tcs) ++ yieldToks yl = [l] ++ (tc ++ (tcs ++ (yieldToks yl ++ []))) := by simp
    rw [this, getLast?_append_ne [l] (by intro h; exact hne (List.append_eq_nil_iff.mp h).1)]
  rw [el] at ha ⊢
  have e0 : (kw :: tr ++ l :: tc ++ tcs ++ yieldToks yl) ++ rest = kw :: (tr ++ l :: (tc ++ (tcs ++ (yieldToks yl ++ rest)))) := by
    simp
  rw [e0] at ho ⊢
  rw [esh] at hg
  have hg' : Y.Glued (kw :: (tr ++ l :: (tc ++ (tcs ++ yieldToks yl)))) := hg
  refine statement_kw' (Y := Y) (v := v) (m + 1) p1 fl kw _
    (.expr (.mcall 0 root (.call 0 (some n) ps none :: cs) (Y.yieldId yl))) _ rest _ (by rw [hk]; decide) (by rw [hk]; decide) ho
    ha.fin ?_
  rw [stmtBody_varOne _ _ _ _ _ hk]
  have hb : Y.brk kw (Y.peek (tr ++ l :: (tc ++ (tcs ++ (yieldToks yl ++ rest))))) = false := by
    rw [peek_append hfr.1]
    cases tr with
    | nil => exact absurd rfl hfr.1
    | cons u r => exact glued_head hg'
  rw [hb]
  show pVarOneLead v (layoutOps Y) (m + 1) _ _ = _
  unfold pVarOneLead
  have ho1 := inOrder_tail ho
  have hgr : Y.Glued (tr ++ l :: (tc ++ (tcs ++ yieldToks yl))) := glued_tail hg'
  have hsr : Stop Y F1 tr (l :: (tc ++ (tcs ++ (yieldToks yl ++ rest)))) :=
    ⟨hlc, Or.inr (by show l.type ∉ F1; rw [hl]; decide)⟩
  have h1 := expr_roundtrip (v := v) hr (glued_take tr hgr) (some kw) _ ho1 hsr (m + 1)
    (by unfold fS at hn; simp only [List.length_cons, List.length_append] at hn; omega)
  show (parse v (layoutOps Y) (m + 1) (.expr true) >>= _) _ = _
  rw [bind_ok h1, Send_joint tr l _ (glued_joint tr hgr)]
  have ho2 : Y.InOrder (l :: (tc ++ (tcs ++ (yieldToks yl ++ rest)))) := inOrder_drop tr ho1
  rw [bind_ok (tryConsume_hit m _ _ l _ (by simp [hl]) hlc ho2)]
  dsimp only
  have hn1 : ¬ l.type = cTypeIteratorW := by rw [hl]; decide
  simp only [hn1, hl, if_false, if_true]
  have hgl : Y.Glued (l :: (tc ++ (tcs ++ yieldToks yl))) := glued_drop tr hgr
  have hb2 : Y.brk l (Y.peek (tc ++ (tcs ++ (yieldToks yl ++ rest)))) = false := brk_mid hne (glued_take (l :: tc) hgl) _
  rw [hb2]
  have hst : Stop Y [cTypeGetResultW, cTypePauseCommaSep] (tc ++ (tcs ++ (yieldToks yl ++ []))) rest :=
    (ha.stop _ (by decide)).last el2
  have := mcall_tail (v := v) (α := Stmt) hne Cf Cc hy l [] (Or.inl rfl) rest (inOrder_tail ho2)
    (by rw [List.append_nil]; exact hgl) hst m
    (by unfold fS at hn; unfold fN; simp only [List.length_cons, List.length_append] at hn; omega)
    (fun chain y => pure (.expr (.mcall 0 root chain y)))
  refine this.trans ?_
  rw [ySt_nil]
  rfl

theorem kwFacts {kw : Token} {r : List Token} (h : kw.type ∈ stmtHeads) : StmtFacts Y (kw :: r) := ⟨by simp, h⟩

/-- every simple statement -/
theorem linSimple_claim {s : Stmt} {ts : List Token} (h : LinSimple Y s ts) : StmtFacts Y ts ∧ CSimple v Y s ts := by
  cases h with
  | exprStmt e ts he hg h1 => exact ⟨head_of_expr he, stmt_expr he hg h1⟩
  | mcallStmt kw l root tr n ps tc cs tcs yl hk hr hl hf hc hy hg =>
    exact ⟨kwFacts (by rw [hk]; decide), stmt_mcall hk hr hl hf hc hy hg⟩
  | declStmt kw asg ids ti e te hk hi hasg he hg => exact ⟨kwFacts (by rw [hk]; decide), stmt_decl hk hi hasg he hg⟩
  | retStmt kw e te hk he hg => exact ⟨kwFacts (by rw [hk]; decide), stmt_ret hk he hg⟩
  | throwStmt kw cls colon bang es tes hk hcls hcol hes hbang hg =>
    exact ⟨kwFacts (by rw [hk]; decide), stmt_throw hk hcls hcol hes hbang hg⟩
  | breakStmt kw hk => exact ⟨kwFacts (by rw [hk]; decide), stmt_break hk⟩
  | continueStmt kw hk => exact ⟨kwFacts (by rw [hk]; decide), stmt_continue hk⟩

end ZnVerif.Proofs.StmtRT
