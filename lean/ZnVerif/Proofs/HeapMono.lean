/-
The whole evaluator never shrinks the heap: no run of any expression, statement, call or block — whatever its
outcome — ends with fewer cells than it started with.  Mutual induction on the fuel over the functions of the
evaluator (HeapMonoBase / HeapMonoExpr / HeapMonoStmt hold the successor steps).
-/
import ZnVerif.Proofs.HeapMonoBase
import ZnVerif.Proofs.HeapMonoExpr
import ZnVerif.Proofs.HeapMonoStmt
set_option linter.unusedSectionVars false
set_option linter.unusedVariables false

namespace ZnVerif.Model

variable {ν : Type} [NumOps ν]

theorem evalMono_succ (n : Nat) (ih : EvalMono ν n) : EvalMono ν (n+1) :=
  ⟨mono_succ_expr n ih, mono_succ_member n ih, mono_succ_execFn n ih, mono_succ_execDirect n ih,
   mono_succ_execMethod n ih, mono_succ_constr n ih, mono_succ_execBlock n ih, mono_succ_handle n ih,
   mono_succ_stmtBlock n ih, mono_succ_pureBlock n ih, mono_succ_stmt n ih, mono_succ_classDecl n ih,
   mono_succ_funcDecl n, mono_succ_ctorDecl n⟩

theorem evalMono : ∀ n, EvalMono ν n := by
  intro n
  induction n with
  | zero => exact evalMono_zero
  | succ n ih => exact evalMono_succ n ih

end ZnVerif.Model
