/-
C03 at character level, parser part 4: the parser model driven by the real lexer along a `Run` answers exactly what it answers on
the run's token list read against the final layout.

`parseAST_run`: `parseAST v realOps n (R.st 0) = parseLaidOut v Y n R.toks`, for every fuel `n` (the same on both sides: both lexers
hand out the same tokens, comments included, so `next()` spends the same fuel).
-/
import ZnVerif.Proofs.LexSimStmt

namespace ZnVerif.Proofs.LexSim
open ZnVerif.Model ZnVerif.Model.Parser ZnVerif.Generated.Tokens ZnVerif.Generated.ParserTables
open ZnVerif.Spec.StmtSyntax ZnVerif.Proofs.LexRun

variable {Y : Layout} {R : Run Y}

/-- one unfolding of every production -/
theorem S_step (v : Variant) (m : Nat) {rec1 : Rec Lexer} {rec2 : Rec (List Token)} (hrec : RecOK R rec1 rec2) :
    RecOK R (step v realOps m rec1) (step v (layoutOps Y) m rec2) := by
  intro nt j s
  cases nt with
  | program => exact S_pProgram hrec j s
  | programLoop i x im e => exact S_pProgramLoop m hrec i x im e j s
  | statement => exact S_pStatement v m hrec j s
  | expr cfg => exact S_pLv1 hrec cfg j s
  | lv1Tail cfg el => exact S_pLv1Tail m hrec cfg el j s
  | lv2 cfg => exact S_pLv2 hrec cfg j s
  | lv2Tail cfg el => exact S_pLv2Tail m hrec cfg el j s
  | lv3 cfg => exact S_pLv3 m hrec cfg j s
  | lv4 cfg => exact S_pLv4 v m hrec cfg j s
  | arith => exact S_pArith hrec j s
  | arithTail el => exact S_pArithTail m hrec el j s
  | mulDiv => exact S_pMulDiv hrec j s
  | mulDivTail el => exact S_pMulDivTail m hrec el j s
  | member => exact S_pMember v m hrec j s
  | memberTail e => exact S_pMemberTail v m hrec e j s
  | basic => exact S_pBasic v m hrec j s
  | array => exact S_pArray v m hrec j s
  | arrayLoop items => exact S_pArrayLoop m hrec items j s
  | hashLoop kvs => exact S_pHashLoop v m hrec kvs j s
  | funcCall y => exact S_pFuncCall v m hrec y j s
  | commaExprs acc => exact S_pCommaExprs m hrec acc j s
  | commaIds acc => exact S_pCommaIds v m hrec acc j s
  | memberFuncCall => exact S_pMemberFuncCall v m hrec j s
  | chainLoop c => exact S_pChainLoop v m hrec c j s
  | varDecl => exact S_pVarDecl v m hrec j s
  | varDeclLoop i ps => exact S_pVarDeclLoop v m hrec i ps j s
  | vdPair => exact S_pVdPair v m hrec j s
  | objNew => exact S_pObjNew v m hrec j s
  | whileLoop => exact S_pWhileLoop v m hrec j s
  | block i => exact S_pBlock hrec i j s
  | blockLoop i acc => exact S_pBlockLoop hrec i acc j s
  | branch => exact S_pBranch hrec j s
  | branchLoop mi st acc => exact S_pBranchLoop v m hrec mi st acc j s
  | functionBlock => exact S_pFunctionBlock v m hrec j s
  | execBlock i => exact S_pExecBlock hrec i j s
  | execLoop i st ins ss cs => exact S_pExecLoop v m hrec i st ins ss cs j s
  | varOneLead => exact S_pVarOneLead v m hrec j s
  | iteratorRest ids => exact S_pIteratorRest v m hrec ids j s
  | throwStmt => exact S_pThrow v m hrec j s
  | throwLoop acc => exact S_pThrowLoop m hrec acc j s
  | catchStmt => exact S_pCatchStmt v m hrec j s
  | importStmt => exact S_pImportStmt v m hrec j s
  | classDecl => exact S_pClassDecl v m hrec j s
  | classLoop i ps ms gs => exact S_pClassLoop v m hrec i ps ms gs j s
  | propertyDecl => exact S_pPropertyDecl v m hrec j s

/-- the tagged parser on both sides, same fuel -/
theorem S_parse (v : Variant) : ∀ m : Nat, RecOK R (parse v realOps m) (parse v (layoutOps Y) m)
  | 0 => fun _ _ _ _ => trivial
  | m + 1 => S_step v m (S_parse v m)

/-- `ParseAST`'s first `next()` -/
theorem initState_both (n : Nat) :
    (initState realOps n (R.st 0) = .fuel ∧ initState (layoutOps Y) n R.toks = .fuel) ∨
    ∃ j s, OK R j s ∧ initState realOps n (R.st 0) = .ok () s ∧
      initState (layoutOps Y) n R.toks = .ok () (toL s (rest R (j + 1))) := by
  rw [← rest_zero R]
  rcases fetch_both R n 0 with ⟨a, b⟩ | ⟨i', _, a, b⟩
  · left; unfold initState; rw [a, b]; exact ⟨rfl, rfl⟩
  · right
    obtain ⟨hs_r, hs_l⟩ := known_start R (Nat.le_refl i') 0 (Nat.zero_le _)
    obtain ⟨he_r, he_l⟩ := known_end R (Nat.le_refl i') 0 (Nat.zero_le _)
    have hslt := R.sline_lt i'
    have hp := nl_pos R i'
    refine ⟨i', ⟨R.st (i' + 1), none, R.tk i', 0, 0, findLineIdx (R.st (i' + 1)).lines (R.tk i').startIdx 0,
      findLineIdx (R.st (i' + 1)).lines (R.tk i').endIdx 0, false⟩, ⟨rfl, hp, ?_, ?_, ⟨i', Nat.le_refl _, rfl⟩⟩, ?_, ?_⟩
    · show findLineIdx (R.st (i' + 1)).lines (R.tk i').startIdx 0 < nl R i'
      rw [hs_r]; exact hslt
    · show findLineIdx (R.st (i' + 1)).lines (R.tk i').endIdx 0 < nl R i'
      rw [he_r]; omega
    · unfold initState; rw [a]; rfl
    · unfold initState; rw [b]
      show Res.ok () _ = Res.ok () _
      unfold toL
      show Res.ok () (⟨rest R (i' + 1), none, R.tk i', 0, 0, findLineIdx Y.lines (R.tk i').startIdx 0,
        findLineIdx Y.lines (R.tk i').endIdx 0, false⟩ : S2) = Res.ok () ⟨rest R (i' + 1), none, R.tk i', 0, 0,
        findLineIdx (R.st (i' + 1)).lines (R.tk i').startIdx 0, findLineIdx (R.st (i' + 1)).lines (R.tk i').endIdx 0, false⟩
      rw [hs_r, hs_l, he_r, he_l]

/-- **the parser on the real lexer = the parser on the token list read against the final layout** -/
theorem parseAST_run (R : Run Y) (v : Variant) (n : Nat) :
    parseAST v realOps n (R.st 0) = parseLaidOut v Y n R.toks := by
  unfold parseLaidOut parseAST
  rcases initState_both (R := R) n with ⟨a, b⟩ | ⟨j, s, hok, a, b⟩
  · rw [a, b]
  · rw [a, b]
    dsimp only
    have h1 := S_parse (R := R) v n .program j s hok
    generalize parse v realOps n .program s = q1 at h1 ⊢
    generalize parse v (layoutOps Y) n .program (toL s (rest R (j + 1))) = q2 at h1 ⊢
    cases q1 <;> cases q2 <;> simp only [Out] at h1 ⊢
    case ok.ok p1 t1 p2 t2 =>
      obtain ⟨rfl, j', _, hok', rfl, _⟩ := h1
      by_cases hc : t1.p2.type ≠ cTypeEOF
      · have hc' : (toL t1 (rest R (j' + 1))).p2.type ≠ cTypeEOF := hc
        rw [if_pos hc, if_pos hc']
        -- the error for left-over tokens, whichever builder the variant picks
        first
          | (have ht := S_errCurr (β := Unit) v hok'
             generalize (errCurr v : PM Lexer Unit) t1 = r1 at ht ⊢
             generalize (errCurr v : PM (List Token) Unit) (toL t1 (rest R (j' + 1))) = r2 at ht ⊢
             cases r1 <;> cases r2 <;> simp only [Out] at ht ⊢ <;> first | rfl | (rw [ht]) | exact ht.elim)
          | (have ht := (S_ite (c := v.leftoverFix = true) (fun _ => S_errPeek (β := Unit) v 20) (fun _ => S_errCurr v)) hok'
             generalize ((if v.leftoverFix = true then errPeek v 20 else errCurr v) : PM Lexer Unit) t1 = r1 at ht ⊢
             generalize ((if v.leftoverFix = true then errPeek v 20 else errCurr v) : PM (List Token) Unit)
               (toL t1 (rest R (j' + 1))) = r2 at ht ⊢
             cases r1 <;> cases r2 <;> simp only [Out] at ht ⊢ <;> first | rfl | (rw [ht]) | exact ht.elim)
      · have hc' : ¬ (toL t1 (rest R (j' + 1))).p2.type ≠ cTypeEOF := hc
        rw [if_neg hc, if_neg hc']
    all_goals first | (subst h1; rfl) | trivial | exact h1.elim

end ZnVerif.Proofs.LexSim
