/-
Output is append-only: `OutGrows s s'` (the displayed lines of `s'` are those of `s` with new ones in front) is
preserved by every function of the evaluator (instance of `ScopePrims`, so `allPres` applies); and the trace of an
argument list is the concatenation of the arguments' traces in order.
-/
import ZnVerif.Proofs.BalanceMutual
import ZnVerif.Proofs.Handlers
set_option linter.unusedSectionVars false
set_option linter.unusedSimpArgs false
set_option linter.unusedVariables false

namespace ZnVerif.Proofs.Balance
open ZnVerif.Model ZnVerif.Proofs.Calls

variable {ν : Type} [NumOps ν]

/-- `out` is most-recent-first: the new lines are a prefix -/
def OutGrows (s s' : VM ν) : Prop := ∃ l, s'.out = l ++ s.out

theorem OutGrows.of_out_eq {s s' : VM ν} (h : s'.out = s.out) : OutGrows s s' := ⟨[], by simp [h]⟩

instance : PreRel (OutGrows (ν := ν)) where
  refl s := ⟨[], rfl⟩
  trans := by
    rintro a b c ⟨l1, h1⟩ ⟨l2, h2⟩
    exact ⟨l2 ++ l1, by rw [h2, h1, List.append_assoc]⟩

instance : Stable (OutGrows (ν := ν)) where
  heap s h := .of_out_eq rfl
  stack s st cs := .of_out_eq rfl
  exports s i md e _ := .of_out_eq rfl

theorem setElement_out (name : String) (v : Addr) (s : VM ν) : (setElement name v s).2.out = s.out := by
  unfold setElement
  have hcs : currentScope s = (.ok (getScope s.csModuleID s), s) := rfl
  rw [bind_ok hcs]
  cases getScope s.csModuleID s with
  | none => rfl
  | some sc =>
    simp only
    cases sc.set name v with
    | error e => rfl
    | ok sc' => exact putScope_out _ _ _

theorem declareElement_out (name : String) (v : Addr) (c : Bool) (ext : Option Int) (s : VM ν) :
    (declareElement name v c ext s).2.out = s.out := by
  rcases declareElement_cases name v c ext s with ⟨e, he⟩ | ⟨sc, sc', _, _, h3⟩
  · rw [he]
  · rw [h3]; exact putScope_out _ _ _

instance : ScopePrims (OutGrows (ν := ν)) where
  emit l := ⟨fun s => ⟨[l], rfl⟩⟩
  pushFrame fr := ⟨fun s => .of_out_eq (pushFrame_run fr s).2.2.2.2.1⟩
  declareElement name v c ext := ⟨fun s => .of_out_eq (declareElement_out name v c ext s)⟩
  setElement name v := ⟨fun s => .of_out_eq (setElement_out name v s)⟩
  withScope body hb := ⟨fun s => by
    rw [withScope_run]
    simp only
    have h1 : OutGrows s (enterScope s) := .of_out_eq (enterScope_frame s).2.2.2.1
    have h2 := hb.run (enterScope s)
    have h3 : OutGrows (body (enterScope s)).2 (exitScope s (body (enterScope s)).2) :=
      .of_out_eq (exitScope_frame s _).2.2.2
    exact PreRel.trans h1 (PreRel.trans h2 h3)⟩

/-- like `RunsInOrder`, recording what each element displayed -/
inductive RunsInOrderT {α β} (f : α → M ν β) : List α → VM ν → List β → VM ν → List (List String) → Prop where
  | nil (s : VM ν) : RunsInOrderT f [] s [] s []
  | cons {a l s b s1 bs s2 t ts} : f a s = (.ok b, s1) → s1.out = t ++ s.out → RunsInOrderT f l s1 bs s2 ts →
      RunsInOrderT f (a :: l) s (b :: bs) s2 (t :: ts)

theorem RunsInOrder.withTraces {α β} {f : α → M ν β} (hf : ∀ a s, OutGrows s (f a s).2) :
    ∀ {l : List α} {s : VM ν} {bs : List β} {s2 : VM ν}, RunsInOrder f l s bs s2 →
      ∃ ts, RunsInOrderT f l s bs s2 ts
  | _, _, _, _, .nil s => ⟨[], .nil s⟩
  | _, _, _, _, .cons (a := a) (s := s) h hrest => by
    obtain ⟨ts, hts⟩ := RunsInOrder.withTraces hf hrest
    obtain ⟨t, ht⟩ := hf a s
    rw [h] at ht
    exact ⟨t :: ts, .cons h ht hts⟩

/-- the output after the list = the elements' outputs, first element's oldest (i.e. last in the most-recent-first list) -/
theorem RunsInOrderT.out {α β} {f : α → M ν β} :
    ∀ {l : List α} {s : VM ν} {bs : List β} {s2 : VM ν} {ts : List (List String)},
      RunsInOrderT f l s bs s2 ts → s2.out = ts.reverse.flatten ++ s.out ∧ ts.length = l.length
  | _, _, _, _, _, .nil s => ⟨by simp, rfl⟩
  | _, _, _, _, _, .cons h ht hrest => by
    obtain ⟨h1, h2⟩ := RunsInOrderT.out hrest
    refine ⟨?_, by simp [h2]⟩
    rw [h1, ht]
    simp [List.append_assoc]

end ZnVerif.Proofs.Balance
