/-
Induction step of `allPres` for statements and declarations (see Proofs/Balance.lean).
-/
import ZnVerif.Proofs.Balance
set_option linter.unusedSectionVars false
set_option linter.unusedSimpArgs false
set_option linter.unusedVariables false

namespace ZnVerif.Proofs.Balance
open ZnVerif.Model ZnVerif.Proofs.Calls

variable {ν : Type} [NumOps ν]

section mutualBlock
variable {R : VM ν → VM ν → Prop} [ScopePrims0 R]

set_option maxHeartbeats 1000000 in
theorem evalStmt_succ (n : Nat) (ih : AllPres R n) (st : Stmt) : Pres R (evalStmt (ν := ν) (n+1) st) := by
  cases st with
  | varDecl => rw [Model.evalStmt]; pres_ih ih
  | «while» => rw [Model.evalStmt]; pres_ih ih
  | branch => rw [Model.evalStmt]; pres_ih ih
  | empty => rw [Model.evalStmt]; pres_ih ih
  | funcDecl => rw [Model.evalStmt]; pres_ih ih
  | classDecl => rw [Model.evalStmt]; pres_ih ih
  | iterate ln e ns b =>
    -- the four shapes of the name list first: the do-block repeats the loop code in every arm
    rw [Model.evalStmt]
    rcases ns with _ | ⟨v, _ | ⟨k, _ | ⟨x, y⟩⟩⟩
    · dsimp only; pres_ih ih
    · dsimp only; pres_ih ih
    · dsimp only; pres_ih ih
    · dsimp only; pres_ih ih
  | ret => rw [Model.evalStmt]; pres_ih ih
  | throw => rw [Model.evalStmt]; pres_ih ih
  | «continue» => rw [Model.evalStmt]; pres_ih ih
  | «break» => rw [Model.evalStmt]; pres_ih ih
  | expr => rw [Model.evalStmt]; pres_ih ih
  | nil => rw [Model.evalStmt]; pres_ih ih

theorem evalClassDecl_succ (n : Nat) (ih : AllPres R n) (st : Stmt) : Pres R (evalClassDecl (ν := ν) (n+1) st) := by
  cases st <;> rw [Model.evalClassDecl] <;> pres_ih ih <;> contradiction

theorem evalFuncDecl_succ (n : Nat) (st : Stmt) : Pres R (evalFuncDecl (ν := ν) (n+1) st) := by
  cases st <;> rw [Model.evalFuncDecl] <;> pres_tac <;> contradiction

theorem evalCtorDecl_succ (n : Nat) (st : Stmt) : Pres R (evalCtorDecl (ν := ν) (n+1) st) :=
  ScopePrims0.evalCtorDecl (n+1) st

end mutualBlock

end ZnVerif.Proofs.Balance
