/-
Call-stack balance: induction step for statements and blocks.
-/
import ZnVerif.Proofs.StackBalMutual
set_option linter.unusedSectionVars false
set_option linter.unusedSimpArgs false
set_option linter.unusedVariables false

namespace ZnVerif.Proofs.StackBal
open ZnVerif.Model ZnVerif.Proofs.Calls

variable {ν : Type} [NumOps ν]

theorem bal_evalStmtBlock_succ (n : Nat) (ih : AllBal (ν := ν) n) (b : Option (List Stmt)) :
    Bal (evalStmtBlock (ν := ν) (n+1) b) := by
  cases b <;> rw [Model.evalStmtBlock] <;> bal_ih ih <;> contradiction

theorem bal_evalPureStmtBlock_succ (n : Nat) (ih : AllBal (ν := ν) n) (b : Option (List Stmt)) :
    Bal (evalPureStmtBlock (ν := ν) (n+1) b) := by
  cases b <;> rw [Model.evalPureStmtBlock] <;> bal_ih ih <;> contradiction

set_option maxHeartbeats 1000000 in
theorem bal_evalStmt_succ (n : Nat) (ih : AllBal (ν := ν) n) (st : Stmt) : Bal (evalStmt (ν := ν) (n+1) st) := by
  cases st with
  | varDecl => rw [Model.evalStmt]; bal_ih ih
  | «while» => rw [Model.evalStmt]; bal_ih ih
  | branch => rw [Model.evalStmt]; bal_ih ih
  | empty => rw [Model.evalStmt]; bal_ih ih
  | funcDecl => rw [Model.evalStmt]; bal_ih ih
  | classDecl => rw [Model.evalStmt]; bal_ih ih
  | iterate ln e ns b =>
    rw [Model.evalStmt]
    rcases ns with _ | ⟨v, _ | ⟨k, _ | ⟨x, y⟩⟩⟩
    · dsimp only; bal_ih ih
    · dsimp only; bal_ih ih
    · dsimp only; bal_ih ih
    · dsimp only; bal_ih ih
  | ret => rw [Model.evalStmt]; bal_ih ih
  | throw => rw [Model.evalStmt]; bal_ih ih
  | «continue» => rw [Model.evalStmt]; bal_ih ih
  | «break» => rw [Model.evalStmt]; bal_ih ih
  | expr => rw [Model.evalStmt]; bal_ih ih
  | nil => rw [Model.evalStmt]; bal_ih ih

end ZnVerif.Proofs.StackBal
