/-
C02 refinement: the statement fragment, and the model-only steps (`dup`, `display`, frame updates) on
scalar values.
-/
import ZnVerif.Proofs.StmtRefineState
set_option linter.unusedSectionVars false
set_option linter.unusedSimpArgs false

namespace ZnVerif.Proofs
open ZnVerif.Model ZnVerif.Spec

variable {ν : Type} [NumOps ν]

/-! ### the fragment -/

/-- The control-flow fragment: declarations and assignments of top-scalar pure expressions, pure expression
statements, the display call `（显示：…）` on top-scalar arguments, 如果 / 每当 / 遍历 (0–2 loop variables, over a
top-scalar expression or a list / dictionary literal of top-scalar items), 输出, 结束循环, 继续循环, the empty statement. -/
inductive PureStmt : Stmt → Prop
  | varDecl (ln : Nat) (pairs : List (Nat × List Ident × Expr)) :
      (∀ p ∈ pairs, PureExpr p.2.2 ∧ TopScalar p.2.2) → PureStmt (.varDecl ln pairs)
  | expr (e : Expr) : PureExpr e → PureStmt (.expr e)
  | assign (ln : Nat) (i : Ident) (rhs : Expr) : PureExpr rhs → TopScalar rhs → PureStmt (.expr (.assign ln (.id i) rhs))
  | display (ln : Nat) (nm : Ident) (params : List Expr) : nm.lit = "显示" → (∀ p ∈ params, PureExpr p ∧ TopScalar p) →
      PureStmt (.expr (.call ln (some nm) params none))
  | branch (ln : Nat) (ifE : Expr) (ifB : Option (List Stmt)) (others : List (Expr × Option (List Stmt)))
      (hasElse : Bool) (elseB : Option (List Stmt)) :
      PureExpr ifE → (∀ l, ifB = some l → ∀ st ∈ l, PureStmt st) →
      (∀ o ∈ others, PureExpr o.1) → (∀ o ∈ others, ∀ l, o.2 = some l → ∀ st ∈ l, PureStmt st) →
      (∀ l, elseB = some l → ∀ st ∈ l, PureStmt st) → PureStmt (.branch ln ifE ifB others hasElse elseB)
  | while (ln : Nat) (cond : Expr) (body : Option (List Stmt)) :
      PureExpr cond → (∀ l, body = some l → ∀ st ∈ l, PureStmt st) → PureStmt (.while ln cond body)
  | iterate (ln : Nat) (e : Expr) (names : List Ident) (body : Option (List Stmt)) :
      IterTarget e → names.length ≤ 2 → (∀ l, body = some l → ∀ st ∈ l, PureStmt st) → PureStmt (.iterate ln e names body)
  | ret (ln : Nat) (e : Expr) : PureExpr e → PureStmt (.ret ln e)
  | break (ln : Nat) : PureStmt (.break ln)
  | continue (ln : Nat) : PureStmt (.continue ln)
  | empty (ln : Nat) : PureStmt (.empty ln)

/-- a block of the fragment (`none` = a nil block of a Go tree, which the spec leaves unspecified) -/
def PureBlock (b : Option (List Stmt)) : Prop := ∀ l, b = some l → ∀ st ∈ l, PureStmt st

/-! ### values that read within fuel 1 -/

/-- the cells that read within fuel 1: scalars, empty containers, and non-plain cells through `ω` -/
theorem content1_cases {ω : Addr → Option (SVal ν)} {h : Array (Cell ν)} {a : Addr} {v : SVal ν}
    (hv : contentW ω 1 h a = some v) :
    ∃ c, h[a]? = some c ∧
      ((∃ x, c = .num x ∧ v = .num x) ∨ (∃ t, c = .str t ∧ v = .str t) ∨ (∃ b, c = .bool b ∧ v = .bool b) ∨
       (c = .null ∧ v = .null) ∨ (c = .arr [] ∧ v = .list []) ∨ (c = .hm [] [] ∧ v = .dict []) ∨
       (ω a = some v ∧ isOpaque v = true ∧
         ((∃ k p, c = .obj k p) ∨ (∃ f, c = .fn f) ∨ (∃ nm ct p m, c = .cls nm ct p m) ∨ (∃ m, c = .exc m)))) := by
  obtain ⟨c, hc, hl⟩ := (contentW_succ_iff ω 0 h a v).1 hv
  refine ⟨c, hc, ?_⟩
  cases c <;> simp only [Layer] at hl
  case num x => exact .inl ⟨x, rfl, hl⟩
  case str t => exact .inr (.inl ⟨t, rfl, hl⟩)
  case bool b => exact .inr (.inr (.inl ⟨b, rfl, hl⟩))
  case null => exact .inr (.inr (.inr (.inl ⟨rfl, hl⟩)))
  case arr items =>
    obtain ⟨vs, rfl, hf⟩ := hl
    cases hf with
    | nil => exact .inr (.inr (.inr (.inr (.inl ⟨rfl, rfl⟩))))
    | cons h1 _ => simp [contentW] at h1
  case hm vals order =>
    obtain ⟨ho, kvs, rfl, hf⟩ := hl
    cases hf with
    | nil =>
      have : vals = [] := by
        cases vals with
        | nil => rfl
        | cons p l => simp at ho
      subst this
      exact .inr (.inr (.inr (.inr (.inr (.inl ⟨rfl, rfl⟩)))))
    | cons h1 _ =>
      obtain ⟨_, _, _, h3⟩ := h1
      simp [contentW] at h3
  case obj k p => exact .inr (.inr (.inr (.inr (.inr (.inr ⟨hl.1, hl.2, .inl ⟨k, p, rfl⟩⟩)))))
  case fn f => exact .inr (.inr (.inr (.inr (.inr (.inr ⟨hl.1, hl.2, .inr (.inl ⟨f, rfl⟩)⟩)))))
  case cls nm ct p m => exact .inr (.inr (.inr (.inr (.inr (.inr ⟨hl.1, hl.2, .inr (.inr (.inl ⟨nm, ct, p, m, rfl⟩))⟩)))))
  case exc m => exact .inr (.inr (.inr (.inr (.inr (.inr ⟨hl.1, hl.2, .inr (.inr (.inr ⟨m, rfl⟩))⟩)))))

/-- `DuplicateValue` of a value that reads within fuel 1: a cell (fresh, or the same one) that reads the same -/
theorem dup_shallow {ω : Addr → Option (SVal ν)} {s : VM ν} {a : Addr} {v : SVal ν} (n : Nat)
    (hv : contentW ω 1 s.heap a = some v) :
    ∃ a' s', dup (n+1) a s = (.ok a', s') ∧ Frame s s' ∧ contentW ω 1 s'.heap a' = some v := by
  obtain ⟨c, hc, hcase⟩ := content1_cases hv
  have hpush : ∀ (c' : Cell ν), Layer ω (contentW ω 0 (s.heap.push c')) s.heap.size c' v →
      ∃ a' s', alloc c' s = (.ok a', s') ∧ Frame s s' ∧ contentW ω 1 s'.heap a' = some v := fun c' hl =>
    ⟨_, _, rfl, Frame.push s c', contentW_push_new 0 s.heap c' v hl⟩
  rcases hcase with ⟨x, rfl, rfl⟩ | ⟨t, rfl, rfl⟩ | ⟨b, rfl, rfl⟩ | ⟨rfl, rfl⟩ | ⟨rfl, rfl⟩ | ⟨rfl, rfl⟩ | ⟨hω, hop, hk⟩
  · simp only [dup, getCell_bind _ hc, newNum]; exact hpush _ rfl
  · simp only [dup, getCell_bind _ hc, newStr]; exact hpush _ rfl
  · simp only [dup, getCell_bind _ hc, newBool]; exact hpush _ rfl
  · simp only [dup, getCell_bind _ hc]; exact ⟨a, s, rfl, Frame.refl s, hv⟩
  · simp only [dup, getCell_bind _ hc, List.mapM_nil, pure_bind]
    exact hpush _ ⟨[], rfl, .nil⟩
  · simp only [dup, getCell_bind _ hc, List.mapM_nil, pure_bind]
    exact hpush _ ⟨rfl, [], rfl, .nil⟩
  · rcases hk with ⟨k, p, rfl⟩ | ⟨f, rfl⟩ | ⟨nm, ct, p, m, rfl⟩ | ⟨m, rfl⟩ <;>
      (simp only [dup, getCell_bind _ hc]; exact ⟨a, s, rfl, Frame.refl s, hv⟩)

theorem joinWith_eq (sep : String) : ∀ (l : List String), Model.joinWith sep l = Spec.joinWith sep l
  | [] => rfl
  | [_] => rfl
  | x :: y :: rest => by
    simp only [Model.joinWith, Spec.joinWith]
    rw [joinWith_eq sep (y :: rest)]

/-- the displayed form of a value that reads within fuel 1 is the spec's `showV` -/
theorem display_shallow {ω : Addr → Option (SVal ν)} {s : VM ν} {a : Addr} {v : SVal ν} (n : Nat)
    (objs : Array (String × List (String × SVal ν)))
    (hω : ∀ a v, ω a = some v → isOpaque v = true → ∃ c, s.heap[a]? = some c ∧ OpaqueShow c v)
    (hv : contentW ω 1 s.heap a = some v) :
    display (n+1) a s = (.ok (showV objs 64 v), s) := by
  obtain ⟨c, hc, hcase⟩ := content1_cases hv
  rcases hcase with ⟨x, rfl, rfl⟩ | ⟨t, rfl, rfl⟩ | ⟨b, rfl, rfl⟩ | ⟨rfl, rfl⟩ | ⟨rfl, rfl⟩ | ⟨rfl, rfl⟩ | ⟨hw, hop, hk⟩
  · simp only [display, getCell_bind _ hc]; rfl
  · simp only [display, getCell_bind _ hc]; rfl
  · simp only [display, getCell_bind _ hc]; rfl
  · simp only [display, getCell_bind _ hc]; rfl
  · simp only [display, getCell_bind _ hc, List.mapM_nil, pure_bind, List.map_nil]; rfl
  · simp only [display, getCell_bind _ hc, List.mapM_nil, pure_bind, List.map_nil]; rfl
  · obtain ⟨c', hc', hshow⟩ := hω a v hw hop
    rw [hc] at hc'; cases hc'
    rcases hk with ⟨k, p, rfl⟩ | ⟨f, rfl⟩ | ⟨nm, ct, p, m, rfl⟩ | ⟨m, rfl⟩
    · cases v <;> simp [OpaqueShow] at hshow
    · cases v <;> simp only [OpaqueShow] at hshow <;> (simp only [display, getCell_bind _ hc]; rfl)
    · cases v <;> simp only [OpaqueShow] at hshow
      subst hshow
      simp only [display, getCell_bind _ hc]; rfl
    · cases v <;> simp only [OpaqueShow] at hshow
      subst hshow
      simp only [display, getCell_bind _ hc]; rfl

theorem display_mapM {ω : Addr → Option (SVal ν)} {s : VM ν} (n : Nat) (objs : Array (String × List (String × SVal ν)))
    (hω : ∀ a v, ω a = some v → isOpaque v = true → ∃ c, s.heap[a]? = some c ∧ OpaqueShow c v) :
    ∀ {vals : List Addr} {args : List (SVal ν)}, Forall2 (fun a v => contentW ω 1 s.heap a = some v) vals args →
      vals.mapM (display (n+1)) s = (.ok (args.map (showV objs 64)), s)
  | _, _, .nil => rfl
  | _, _, .cons h rest => by
    rw [List.mapM_cons, M.bind_def, display_shallow n objs hω h]
    simp only
    rw [M.bind_def, display_mapM n objs hω rest]
    rfl

/-! ### the top frame -/

/-- the state after `setTopFrame f` -/
def topS (f : Model.Frame → Model.Frame) (s : VM ν) : VM ν :=
  match s.stack with
  | [] => s
  | fr :: rest => { s with stack := f fr :: rest }

theorem setTopFrame_bind {α} (f : Model.Frame → Model.Frame) (K : Unit → M ν α) (s : VM ν) :
    (setTopFrame f >>= K) s = K () (topS f s) := by
  simp only [M.bind_def, setTopFrame, modifyVM, topS]
  cases s.stack <;> rfl

theorem topS_heap (f : Model.Frame → Model.Frame) (s : VM ν) : (topS f s).heap = s.heap := by
  unfold topS; cases s.stack <;> rfl

theorem StRel.topS {ω : Addr → Option (SVal ν)} {mid : Int} {D ds} {s : VM ν} {σ : SState ν} (h : StRel ω mid D ds s σ)
    (f : Model.Frame → Model.Frame) (hf : ∀ fr, (f fr).moduleId = fr.moduleId) : StRel ω mid D ds (topS f s) σ := by
  obtain ⟨fr, rest, hst, hm⟩ := h.stack
  have e : ZnVerif.Proofs.topS f s = { s with stack := f fr :: rest } := by simp only [ZnVerif.Proofs.topS, hst]
  rw [e]
  exact ⟨h.cs, h.globals, h.scope, ⟨f fr, rest, rfl, by rw [hf]; exact hm⟩, h.out, h.display, h.ωok⟩

theorem slot_topS_line (s : VM ν) (l : Nat) : slot (topS (fun fr => { fr with line := l, started := true }) s) = slot s := by
  unfold topS slot
  cases h : s.stack <;> simp [h]

theorem slot_topS_ret {ω : Addr → Option (SVal ν)} {mid : Int} {D ds} {s : VM ν} {σ : SState ν} (h : StRel ω mid D ds s σ) (a : Addr) :
    slot (topS (fun fr => { fr with ret := some a }) s) = some a := by
  obtain ⟨fr, rest, hst, _⟩ := h.stack
  simp only [topS, slot, hst]

/-! ### small steps -/

theorem simS_idName {s : VM ν} {σ : SState ν} {T B} (lit : String) :
    SimS (fun s' σ' (x y : String) => s' = s ∧ σ' = σ ∧ x = y) T B s σ (matchIDName lit) (idName lit) := by
  unfold SimS matchIDName idName matchIDType classifyId
  have : Spec.strCps lit = Model.strCps lit := rfl
  rw [this]
  cases tryParseNumber (Model.strCps lit)
  · exact .inr (.inr (.inr (.ok ⟨rfl, rfl, rfl⟩)))
  · exact .inr (.inr (.inr (.sem 32)))
  · exact .inr (.inr (.inr (.sem 30)))

/-- the invariant between statements of the fragment -/
def Inv (ω : Addr → Option (SVal ν)) (mid : Int) (D : Int) (ds : List Int) (h0 : Array (Cell ν)) (s : VM ν) (σ : SState ν) : Prop :=
  StRel ω mid D ds s σ ∧ HeapLe h0 s.heap ∧ slot s = none

theorem Inv.frame {ω : Addr → Option (SVal ν)} {mid : Int} {D ds h0} {s s' : VM ν} {σ : SState ν}
    (h : Inv ω mid D ds h0 s σ) (hF : Frame s s') : Inv ω mid D ds h0 s' σ :=
  ⟨h.1.frame hF, h.2.1.trans hF.le, by rw [slot_frame hF]; exact h.2.2⟩

/-- the value of a statement: some cell that reads (within some fuel) as the spec value -/
def PVal (ω : Addr → Option (SVal ν)) : Array (Cell ν) → Addr → SVal ν → Prop := fun h a v => ∃ k, contentW ω k h a = some v

/-- `newNull` against `pure .null` -/
theorem simS_newNull {ω : Addr → Option (SVal ν)} {mid : Int} {D ds h0} {s : VM ν} {σ : SState ν} {T B}
    (h : Inv ω mid D ds h0 s σ) : SimS (VRel ω mid D ds h0 (PVal ω)) T B s σ newNull (pure SVal.null) := by
  have hF := Frame.push s (Cell.null (ν := ν))
  have h' := h.frame hF
  exact .inr (.inr (.inr (.ok ⟨h'.1, h'.2.1, h'.2.2, 1, contentW_push_new 0 s.heap .null .null rfl⟩)))

end ZnVerif.Proofs
