/-
C18, line table — the scanners that never consume a line break (punctuation, operators, keywords, identifiers,
back-tick quoted names, EOF), the dispatcher `NextToken`, and the induction over the token sequence (`lexAll`).
Invariant: `LinesInv.Good` (Proofs/LinesInv.lean).  Core Lean only.
-/
import ZnVerif.Proofs.LinesString

namespace ZnVerif.Model
open ZnVerif.Generated ZnVerif.Generated.Tokens
open Spec.Lines

namespace LinesInv
variable {S : Array Nat}

/-! ### punctuation, operators -/

theorem lookup_snd_mem {β : Type} (xs : List (Nat × β)) (c : Nat) (v : β) (h : xs.lookup c = some v) :
    v ∈ xs.map (·.2) := by
  have := lookup_some_mem h
  exact List.mem_map.mpr ⟨(c, v), this, rfl⟩

theorem punctuation_types : ∀ v ∈ punctuationTypeMap.map (·.2), v ≠ cTypeEOF := by decide

theorem parsePunctuations_good (l : Lexer) (h0 : isBreak l.cur = false) (tk : Token) (l' : Lexer)
    (h : parsePunctuations l = (.ok tk, l')) : Frame 0 l l' ∧ tk.type ≠ cTypeEOF := by
  unfold parsePunctuations at h
  split at h
  · rename_i ty hl
    cases h
    exact ⟨Frame.adv0 h0, punctuation_types ty (lookup_snd_mem _ _ _ hl)⟩
  · cases h

theorem two_frame (l : Lexer) (h0 : isBreak l.cur = false) (h1 : (l.peek == cEqualOp) = true) :
    Frame 0 l l.adv.adv :=
  (Frame.adv0 h0).trans (Frame.adv0 (nb_of_eq (c := l.adv.cur) h1 (by decide)))

/-- what `parseOperators` can do: nothing (no token), one `Next()`, or two when the second character is `=` -/
def OpShape (l : Lexer) (r : LexRes (Option Token) × Lexer) : Prop :=
    (r.2 = l ∧ ∀ tk, r.1 ≠ .ok (some tk)) ∨
    (∃ tk, r.1 = .ok (some tk) ∧ tk.type ≠ cTypeEOF ∧
      (r.2 = l.adv ∨ (r.2 = l.adv.adv ∧ (l.peek == cEqualOp) = true)))

theorem parseOperators_shape (l : Lexer) : OpShape l (parseOperators l) := by
  have one : ∀ ty, ty ≠ cTypeEOF →
      OpShape l (.ok (some { type := ty, startIdx := l.cursor, endIdx := l.cursor + 1 }), l.adv) :=
    fun ty h => Or.inr ⟨_, rfl, h, Or.inl rfl⟩
  have two : ∀ ty, ty ≠ cTypeEOF → (l.peek == cEqualOp) = true →
      OpShape l (.ok (some { type := ty, startIdx := l.cursor, endIdx := l.cursor + 2 }), l.adv.adv) :=
    fun ty h hp => Or.inr ⟨_, rfl, h, Or.inr ⟨rfl, hp⟩⟩
  unfold parseOperators
  dsimp only
  by_cases h1 : (l.cur == cRefOp) = true
  · rw [if_pos h1]; exact one _ (by decide)
  rw [if_neg h1]
  by_cases h2 : (l.cur == cAnnotationOp) = true
  · rw [if_pos h2]; exact one _ (by decide)
  rw [if_neg h2]
  by_cases h3 : (l.cur == cHashOp) = true
  · rw [if_pos h3]; exact one _ (by decide)
  rw [if_neg h3]
  by_cases h4 : (l.cur == cEqualOp) = true
  · rw [if_pos h4]
    by_cases p : (l.peek == cEqualOp) = true
    · rw [if_pos p]; exact two _ (by decide) p
    · rw [if_neg p]; exact one _ (by decide)
  rw [if_neg h4]
  by_cases h5 : (l.cur == cLessThanOp) = true
  · rw [if_pos h5]
    by_cases p : (l.peek == cEqualOp) = true
    · rw [if_pos p]; exact two _ (by decide) p
    · rw [if_neg p]; exact one _ (by decide)
  rw [if_neg h5]
  by_cases h6 : (l.cur == cGreaterThanOp) = true
  · rw [if_pos h6]
    by_cases p : (l.peek == cEqualOp) = true
    · rw [if_pos p]; exact two _ (by decide) p
    · rw [if_neg p]; exact one _ (by decide)
  rw [if_neg h6]
  by_cases h7 : (l.cur == cIntDivOp) = true
  · rw [if_pos h7]; exact one _ (by decide)
  rw [if_neg h7]
  by_cases h8 : (l.cur == cRemainderOp) = true
  · rw [if_pos h8]; exact one _ (by decide)
  rw [if_neg h8]
  by_cases h9 : (l.cur == cPlusOp || l.cur == cMinusOp || l.cur == cMultiplyOp || l.cur == cSlashOp) = true
  · rw [if_pos h9]
    by_cases p : (l.cur == cSlashOp && l.peek == cEqualOp) = true
    · rw [if_pos p]
      exact two _ (by decide) (by simp only [Bool.and_eq_true] at p; exact p.2)
    · rw [if_neg p]
      by_cases d : (isWhiteSpace l.peek || markPunctuations.contains l.peek || markQuotes.contains l.peek) = true
      · rw [if_pos d]
        refine one _ ?_
        repeat' split
        all_goals decide
      · rw [if_neg d]
        exact Or.inl ⟨rfl, fun _ h => by cases h⟩
  · rw [if_neg h9]
    exact Or.inl ⟨rfl, fun _ h => by cases h⟩

theorem parseOperators_some (l : Lexer) (h0 : isBreak l.cur = false) (tk : Token) (l' : Lexer)
    (h : parseOperators l = (.ok (some tk), l')) : Frame 0 l l' ∧ tk.type ≠ cTypeEOF := by
  have sh := parseOperators_shape l
  rw [h] at sh
  rcases sh with ⟨_, hn⟩ | ⟨tk', htk, hty, hl⟩
  · exact absurd rfl (hn tk)
  · dsimp only at htk hl
    cases htk
    refine ⟨?_, hty⟩
    rcases hl with e | ⟨e, hp⟩
    · rw [e]; exact Frame.adv0 h0
    · rw [e]; exact two_frame l h0 hp

theorem parseOperators_none (l : Lexer) (l' : Lexer) (h : parseOperators l = (.ok none, l')) : l' = l := by
  have sh := parseOperators_shape l
  rw [h] at sh
  rcases sh with ⟨e, _⟩ | ⟨tk', htk, _, _⟩
  · exact e
  · cases htk

/-! ### keywords -/

set_option maxRecDepth 100000 in
/-- table facts: no keyword glyph is a line break, token types are non-zero, the recorded word length is the
number of glyphs -/
theorem keywordTable_nb :
    ∀ e ∈ keywordTable, ∀ a ∈ e.2, (∀ g ∈ a.1, isBreak g = false) ∧ a.2.2 ≠ 0 ∧ a.2.1 = a.1.length + 1 := by
  decide

theorem lookahead_plain (l : Lexer) (gs : List Nat) (hgs : ∀ g ∈ gs, isBreak g = false) :
    ∀ k, lookaheadMatches l k gs = true → Plain l.src (l.cursor + k) (l.cursor + k + gs.length) := by
  induction gs with
  | nil => intro k _; exact Plain.empty _ _
  | cons g gs ih =>
    intro k h
    unfold lookaheadMatches at h
    simp only [Bool.and_eq_true] at h
    have h1 : Plain l.src (l.cursor + k) (l.cursor + k + 1) :=
      Plain.one (nb_of_eq (c := charAt l.src (l.cursor + k)) h.1 (hgs g List.mem_cons_self))
    have h2 := ih (fun x hx => hgs x (List.mem_cons_of_mem _ hx)) (k + 1) h.2
    have e : l.cursor + k + (g :: gs).length = l.cursor + (k + 1) + gs.length := by
      simp only [List.length_cons]; omega
    rw [e]
    exact h1.append h2

theorem matchKeyword_plain (l : Lexer) (wordLen ty : Nat) (h : matchKeyword l = some (wordLen, ty)) :
    ty ≠ cTypeEOF ∧ 1 ≤ wordLen ∧ Plain l.src (l.cursor + 1) (l.cursor + wordLen) := by
  unfold matchKeyword at h
  split at h
  · cases h
  · rename_i alts hl
    have hrow := keywordTable_nb _ (lookup_some_mem hl)
    split at h
    · cases h
    · rename_i gs wl ty' hf
      have hmem := List.mem_of_find?_eq_some hf
      have hp := List.find?_some hf
      obtain ⟨hnb, hty, hlen⟩ := hrow _ hmem
      dsimp only at hnb hty hlen hp
      split at h
      · cases h
        refine ⟨hty, by omega, ?_⟩
        have := lookahead_plain l gs hnb 1 hp
        rw [hlen]
        have e : l.cursor + (gs.length + 1) = l.cursor + 1 + gs.length := by omega
        rw [e]; exact this
      · cases h

theorem parseKeyword_good (l : Lexer) (h0 : isBreak l.cur = false) (tk : Token) (l' : Lexer)
    (h : parseKeyword l true = (some tk, l')) : Frame 0 l l' ∧ tk.type ≠ cTypeEOF := by
  unfold parseKeyword at h
  split at h
  · cases h
  · rename_i wordLen ty hm
    obtain ⟨hty, hlen, hp⟩ := matchKeyword_plain l wordLen ty hm
    cases h
    refine ⟨⟨rfl, rfl, rfl, ?_, ?_⟩, hty⟩
    · show l.cursor ≤ l.cursor + wordLen; omega
    · show Plain l.src (l.cursor + 0) (l.cursor + wordLen + 0)
      exact (Plain.one (a := l.cursor) h0).append hp

theorem parseKeyword_none (l : Lexer) (l' : Lexer) (h : parseKeyword l true = (none, l')) : l' = l := by
  unfold parseKeyword at h
  split at h
  · cases h; rfl
  · cases h

/-! ### identifiers -/

theorem identEnd_type (s : Nat) (l : Lexer) (lit : List Nat) (tk : Token) (h : identEnd s l lit = .ok tk) :
    tk.type = cTypeIdentifier := by
  unfold identEnd at h
  split at h
  · cases h
  · cases h; rfl

theorem parseIdentifierStep_cont (s : Nat) (l : Lexer) (lit lit' : List Nat) (l' : Lexer) (g : Good S 1 l)
    (hs : parseIdentifierStep s l lit = (.cont lit', l')) : Good S 1 l' := by
  unfold parseIdentifierStep at hs
  dsimp only at hs
  repeat' split at hs
  all_goals first | (cases hs; done) | skip
  rename_i ht _
  cases hs
  exact g.adv1 (nb_of_pred_false terminateMarkers.contains (by decide) (by decide) (by simpa using ht))

theorem parseIdentifierStep_done (s : Nat) (l : Lexer) (lit : List Nat) (tk : Token) (l' : Lexer) (g : Good S 1 l)
    (hs : parseIdentifierStep s l lit = (.done (.ok tk), l')) : Good S 0 l' ∧ tk.type = cTypeIdentifier := by
  unfold parseIdentifierStep at hs
  dsimp only at hs
  repeat' split at hs
  all_goals first
    | (cases hs; done)
    | (injection hs with h1 h2; injection h1 with h1; subst h2; exact ⟨g.adv, identEnd_type _ _ _ _ h1⟩)

theorem parseIdentifier_good (l : Lexer) (g : Good S 0 l) (h0 : isBreak l.cur = false) (tk : Token) (l' : Lexer)
    (h : parseIdentifier l = (.ok tk, l')) : Good S 0 l' ∧ tk.type ≠ cTypeEOF := by
  unfold parseIdentifier at h
  split at h
  · cases h
  · have := iterate_inv (step := parseIdentifierStep l.cursor) (hc := parseIdentifierStep_consumes l.cursor)
      (I := fun l _ => Good S 1 l) (Q := fun r l' => ∀ tk, r = .ok tk → Good S 0 l' ∧ tk.type = cTypeIdentifier)
      (fun l lit lit' l' g hs => parseIdentifierStep_cont _ l lit lit' l' g hs)
      (fun l lit r l' g hs tk hr => by subst hr; exact parseIdentifierStep_done _ l lit tk l' g hs)
      l [l.cur] (g.to1 h0) tk (by rw [h])
    rw [h] at this
    exact ⟨this.1, by rw [this.2]; decide⟩

set_option maxRecDepth 100000 in
theorem isIdentifierChar_cr : isIdentifierChar 0x0D = false := by decide +kernel
set_option maxRecDepth 100000 in
theorem isIdentifierChar_lf : isIdentifierChar 0x0A = false := by decide +kernel

theorem idchar_nb {c : Nat} (h : (isIdentifierChar c || IdRange.idContinue.contains c) = true) :
    isBreak c = false :=
  nb_of_pred (fun c => isIdentifierChar c || IdRange.idContinue.contains c)
    (by rw [isIdentifierChar_cr]; decide) (by rw [isIdentifierChar_lf]; decide) h

theorem parseVarQuote_good (l : Lexer) (g : Good S 0 l) (h0 : isBreak l.cur = false) (tk : Token) (l' : Lexer)
    (h : parseVarQuote l = (.ok tk, l')) : Good S 0 l' ∧ tk.type ≠ cTypeEOF := by
  unfold parseVarQuote at h
  have := iterate_inv (step := parseVarQuoteStep l.cursor) (hc := parseVarQuoteStep_consumes l.cursor)
    (I := fun l _ => Good S 1 l) (Q := fun r l' => ∀ tk, r = .ok tk → Good S 0 l' ∧ tk.type = cTypeIdentifier)
    ?_ ?_ l [] (g.to1 h0) tk (by rw [h])
  · rw [h] at this
    exact ⟨this.1, by rw [this.2]; decide⟩
  · intro l lit lit' l' g hs
    unfold parseVarQuoteStep at hs
    dsimp only at hs
    split at hs
    · rename_i hc
      cases hs
      exact g.adv1 (idchar_nb hc)
    · split at hs <;> cases hs
  · intro l lit r l' g hs tk hr
    subst hr
    unfold parseVarQuoteStep at hs
    dsimp only at hs
    split at hs
    · cases hs
    · split at hs
      · rename_i hb
        cases hs
        exact ⟨(g.adv1 (nb_of_eq hb (by decide))).adv, rfl⟩
      · cases hs

/-! ### `NextToken` -/

theorem keywordOrIdentifier_good (l : Lexer) (g : Good S 0 l) (h0 : isBreak l.cur = false) (tk : Token)
    (l' : Lexer) (h : keywordOrIdentifier l = (.ok tk, l')) : Good S 0 l' ∧ tk.type ≠ cTypeEOF := by
  unfold keywordOrIdentifier at h
  split at h
  · rename_i tk' l2 hk
    cases h
    have := parseKeyword_good l h0 tk l' hk
    exact ⟨this.1.good g, this.2⟩
  · rename_i l2 hk
    have := parseKeyword_none l l2 hk
    subst this
    exact parseIdentifier_good l2 g h0 tk l' h

theorem nextTokenTail_good (l : Lexer) (g : Good S 0 l) (h0 : isBreak l.cur = false) (tk : Token)
    (l' : Lexer) (h : nextTokenTail l = (.ok tk, l')) : Good S 0 l' ∧ tk.type ≠ cTypeEOF := by
  unfold nextTokenTail at h
  dsimp only at h
  split at h
  · have := parsePunctuations_good l h0 tk l' h
    exact ⟨this.1.good g, this.2⟩
  · split at h
    · split at h
      · rename_i tk' l2 ho
        cases h
        have := parseOperators_some l h0 tk l' ho
        exact ⟨this.1.good g, this.2⟩
      · rename_i l2 ho
        have := parseOperators_none l l2 ho
        subst this
        exact keywordOrIdentifier_good l2 g h0 tk l' h
      · cases h
      · cases h
    · exact keywordOrIdentifier_good l g h0 tk l' h

/-- `NextToken` after `PreNextToken`: every scanner keeps the invariant; only `parseEOF` answers an EOF token, and
only with the cursor at (or past) the end of the text -/
theorem dispatchToken_good (l : Lexer) (g : Good S 0 l) (h0 : isBreak l.cur = false) (tk : Token)
    (l' : Lexer) (h : dispatchToken l = (.ok tk, l')) :
    Good S 0 l' ∧ (tk.type = cTypeEOF → l'.src.size ≤ l'.cursor) := by
  have wrap : Good S 0 l' ∧ tk.type ≠ cTypeEOF → Good S 0 l' ∧ (tk.type = cTypeEOF → l'.src.size ≤ l'.cursor) :=
    fun ⟨a, b⟩ => ⟨a, fun e => absurd e b⟩
  unfold dispatchToken at h
  dsimp only at h
  split at h
  · split at h
    · cases h
    · rename_i hlt
      unfold parseEOF at h
      split at h
      · cases h
      · rename_i l2 hs
        cases h
        obtain ⟨f, hc⟩ := sliceLastLine_frame hs
        refine ⟨f.good g, fun _ => ?_⟩
        rw [f.src, hc]; omega
  · split at h
    · have hc := parseComment_good l g h0
      split at h
      · rename_i tk' l2 hp
        cases h
        have := hc.1 tk l' hp
        exact wrap ⟨this.1, by rw [this.2]; decide⟩
      · rename_i l2 hp
        have f := hc.2 l2 hp
        have g2 : Good S 0 (l2.setCursor l.cursor) :=
          ⟨by rw [Lexer.setCursor_src, f.src]; exact g.src, by show l2.beginLex = false; rw [f.bl]; exact g.bl,
            g.inv.same f.src f.sts⟩
        have h2 : isBreak (l2.setCursor l.cursor).cur = false := by
          have : (l2.setCursor l.cursor).cur = l.cur := by
            show charAt l2.src l.cursor = charAt l.src l.cursor
            rw [f.src]
          rw [this]; exact h0
        exact wrap (nextTokenTail_good _ g2 h2 tk l' h)
    · split at h
      · exact wrap (parseString_good l g h0 tk l' h)
      · split at h
        · exact wrap (parseVarQuote_good l g h0 tk l' h)
        · exact wrap (nextTokenTail_good l g h0 tk l' h)

theorem dispatchToken_nul (l : Lexer) (hc : l.cur = 0) (hlt : l.cursor < l.src.size) :
    dispatchToken l = (.err ⟨25, l.cursor⟩, l) := by
  unfold dispatchToken
  simp [hc, runeEOF, hlt]

/-- one `NextToken` from the fresh state or between tokens -/
theorem nextToken_good (l : Lexer) (hS : l.src = S) (hl : Fresh l ∨ Good S 0 l) (tk : Token) (l' : Lexer)
    (h : nextToken l = (.ok tk, l')) :
    Good S 0 l' ∧ (tk.type = cTypeEOF → l'.src.size ≤ l'.cursor) := by
  unfold nextToken at h
  dsimp only at h
  split at h
  · cases h
  · cases h
  · rename_i u hp
    rcases preNextToken_good l hS hl u (preNextToken l).2 (by rw [← hp]) with ⟨g1, hs⟩ | ⟨hc, hlt⟩
    · exact dispatchToken_good _ g1 (solid_nb hs) tk l' h
    · rw [dispatchToken_nul _ hc hlt] at h
      cases h

/-- the induction over the token sequence -/
theorem lexAll_good : ∀ (fuel : Nat) (l : Lexer) (acc toks : List Token) (lf : Lexer), l.src = S →
    (Fresh l ∨ Good S 0 l) → lexAll fuel l acc = (toks, some (.ok ()), lf) →
    lf.src = S ∧ starts lf = physicalLineStarts S.toList := by
  intro fuel
  induction fuel with
  | zero => intro l acc toks lf _ _ h; simp [lexAll] at h
  | succ fuel ih =>
    intro l acc toks lf hS hl h
    rw [lexAll_succ] at h
    split at h
    · rename_i tk l' hn
      obtain ⟨g, he⟩ := nextToken_good l hS hl tk l' hn
      split at h
      · rename_i hty
        cases h
        have := g.inv.complete (by have := he (by simpa using hty); omega)
        rw [g.src] at this
        exact ⟨g.src, this⟩
      · exact ih l' _ toks lf g.src (Or.inr g) h
    · cases h
    · cases h

end LinesInv
end ZnVerif.Model
