/-
Helper lemmas for the input-variable theorems (Properties/C05VarInput.lean, Properties/C10VarInput.lean), part 1.

The invariant `VI s` of a VM in which input-variable texts are evaluated:
  * the heap is well-formed (`HeapOk`, Proofs/Builtins.lean);
  * every cell is `Plain`: no user-defined method, no type with a user-defined constructor or with methods — an
    input-variable text cannot define any (definitions are statements), so the evaluator never enters `evalExecBlock`;
  * every root — predefined name, symbol of any scope, `this` of any frame — is the address of a cell.
and the Hoare judgment `VPost s Q (m s)`: the run does not panic, ends in a state that satisfies `VI`, the heap only
grew / classes stayed classes (`Ext`), a value satisfies `Q`.

The existing totality results for the built-in members (Proofs/BuiltinMembers.lean: `post_builtinMethod`, `post_getProperty`,
`post_reduceRHS`, …) speak about the heap only.  `KR` — "everything but heap and output is unchanged, and a plain heap stays
plain" — is proved for the same functions with the `Pres` calculus of Proofs/Balance.lean, and `VPost.ofPost` puts the two
together.
-/
import ZnVerif.Proofs.BuiltinMembers
import ZnVerif.Proofs.Balance
set_option linter.unusedSectionVars false
set_option linter.unusedVariables false
set_option linter.unusedSimpArgs false

namespace ZnVerif.Proofs.VarInput
open ZnVerif.Model ZnVerif.Proofs.Builtins ZnVerif.Proofs.Balance ZnVerif.Proofs.Calls

variable {ν : Type} [NumOps ν]

/-! ## plain cells -/

/-- a cell that an input-variable text can meet: not a user-defined method, not a type with a user-defined constructor or
    with methods -/
def Plain : Cell ν → Prop
  | .fn (.user _) => False
  | .cls _ (.user _ _) _ _ => False
  | .cls _ _ _ methods => methods = []
  | _ => True

def PlainHeap (h : Heap ν) : Prop := ∀ (a : Nat) (c : Cell ν), h[a]? = some c → Plain c

theorem plainHeap_push {h : Heap ν} (hp : PlainHeap h) {c : Cell ν} (hc : Plain c) : PlainHeap (h.push c) := by
  intro a c' hc'
  rw [Array.getElem?_push] at hc'
  split at hc'
  · cases hc'; exact hc
  · exact hp a c' hc'

theorem plainHeap_set {h : Heap ν} (hp : PlainHeap h) (a : Nat) {c : Cell ν} (hc : Plain c) : PlainHeap (h.set! a c) := by
  intro b c' hc'
  by_cases hab : a = b
  · subst hab
    by_cases hlt : a < h.size
    · simp [hlt] at hc'; subst hc'; exact hc
    · have : (h.set! a c)[a]? = none := by simp [hlt]
      rw [this] at hc'; cases hc'
  · simp [hab] at hc'
    exact hp b c' hc'

theorem plain_newHashMapCell (kvs : List (String × Addr)) : Plain (newHashMapCell kvs : Cell ν) := by
  unfold newHashMapCell
  split
  trivial

/-! ## `KR`: nothing but heap (and output, module table) changes; a plain heap stays plain -/

def KR (s s' : VM ν) : Prop :=
  s'.globals = s.globals ∧ s'.scopes = s.scopes ∧ s'.stack = s.stack ∧ s'.csModuleID = s.csModuleID ∧
  (PlainHeap s.heap → PlainHeap s'.heap)

theorem KR.refl (s : VM ν) : KR s s := ⟨rfl, rfl, rfl, rfl, id⟩

instance : PreRel (KR (ν := ν)) where
  refl := KR.refl
  trans := by
    intro a b c h1 h2
    exact ⟨h2.1.trans h1.1, h2.2.1.trans h1.2.1, h2.2.2.1.trans h1.2.2.1, h2.2.2.2.1.trans h1.2.2.2.1,
      fun hp => h2.2.2.2.2 (h1.2.2.2.2 hp)⟩

theorem kr_alloc {c : Cell ν} (hc : Plain c) : Pres KR (alloc c) :=
  ⟨fun s => ⟨rfl, rfl, rfl, rfl, fun hp => plainHeap_push hp hc⟩⟩

theorem kr_getCell (a : Addr) : Pres KR (getCell (ν := ν) a) := by
  constructor; intro s; unfold Model.getCell; split <;> exact KR.refl _

theorem kr_setCell (a : Addr) {c : Cell ν} (hc : Plain c) : Pres KR (setCell a c) := by
  constructor; intro s; unfold Model.setCell; split
  · exact ⟨rfl, rfl, rfl, rfl, fun hp => plainHeap_set hp a hc⟩
  · exact KR.refl _

theorem kr_newNull : Pres KR (newNull (ν := ν)) := kr_alloc trivial
theorem kr_newBool (b : Bool) : Pres KR (newBool (ν := ν) b) := kr_alloc trivial
theorem kr_newNum (x : ν) : Pres KR (newNum x) := kr_alloc trivial
theorem kr_newStr (x : String) : Pres KR (newStr (ν := ν) x) := kr_alloc trivial
theorem kr_emit (l : String) : Pres KR (emit (ν := ν) l) := ⟨fun s => ⟨rfl, rfl, rfl, rfl, id⟩⟩

macro_rules | `(tactic| pres_prim) => `(tactic| with_reducible (first
  | apply kr_alloc | apply kr_getCell | apply kr_setCell | apply kr_newNull | apply kr_newBool
  | apply kr_newNum | apply kr_newStr | apply kr_emit))

/-- `pres_tac` plus the side goals `Plain …` of allocations and writes -/
macro "kr_tac" : tactic => `(tactic| repeat' (first
  | assumption | exact trivial | exact plain_newHashMapCell _ | pres_prim | intro _ | split | dsimp only))

theorem kr_validateOne (a : Addr) (ty : String) : Pres KR (validateOne (ν := ν) a ty) := by
  unfold Model.validateOne; kr_tac
macro_rules | `(tactic| pres_prim) => `(tactic| with_reducible (apply kr_validateOne))
theorem kr_validateExact (vals : List Addr) (tys : List String) : Pres KR (validateExact (ν := ν) vals tys) := by
  unfold Model.validateExact; kr_tac
theorem kr_validateAll (vals : List Addr) (ty : String) : Pres KR (validateAll (ν := ν) vals ty) := by
  unfold Model.validateAll; kr_tac

theorem kr_dup : ∀ (n : Nat) (a : Addr), Pres KR (dup (ν := ν) n a)
  | 0, a => Pres.outOfFuel
  | n+1, a => by
    unfold Model.dup
    have ih : ∀ a, Pres KR (Model.dup (ν := ν) n a) := kr_dup n
    kr_tac <;> exact ih _

theorem kr_display : ∀ (n : Nat) (a : Addr), Pres KR (display (ν := ν) n a)
  | 0, a => Pres.outOfFuel
  | n+1, a => by
    unfold Model.display
    have ih : ∀ a, Pres KR (Model.display (ν := ν) n a) := kr_display n
    kr_tac <;> exact ih _

theorem kr_compareXEQ : ∀ (n : Nat) (a b : Addr), Pres KR (compareXEQ (ν := ν) n a b)
  | 0, a, b => Pres.outOfFuel
  | n+1, a, b => by
    unfold Model.compareXEQ
    have ih : ∀ a b, Pres KR (Model.compareXEQ (ν := ν) n a b) := kr_compareXEQ n
    kr_tac <;> exact ih _ _

macro_rules | `(tactic| pres_prim) => `(tactic| with_reducible (first
  | apply kr_validateExact | apply kr_validateAll | apply kr_dup | apply kr_display | apply kr_compareXEQ))

theorem kr_getProperty (n : Nat) (a : Addr) (name : String) : Pres KR (getProperty (ν := ν) n a name) := by
  unfold Model.getProperty; kr_tac

theorem kr_setProperty (a : Addr) (name : String) (v : Addr) : Pres KR (setProperty (ν := ν) a name v) := by
  unfold Model.setProperty; kr_tac

theorem kr_goContains (n : Nat) (x : Addr) : ∀ l : List Addr, Pres KR (builtinMethod.goContains (ν := ν) n x l)
  | [] => by unfold builtinMethod.goContains; exact Pres.pure _
  | i :: rest => by
    unfold builtinMethod.goContains
    have ih := kr_goContains n x rest
    kr_tac

theorem kr_goFind (n : Nat) (x : Addr) : ∀ (l : List Addr) (k : Int), Pres KR (builtinMethod.goFind (ν := ν) n x l k)
  | [], k => by unfold builtinMethod.goFind; exact Pres.pure _
  | i :: rest, k => by
    unfold builtinMethod.goFind
    have ih := kr_goFind n x rest
    kr_tac
    exact ih _

theorem kr_goGet : ∀ (l : List Addr) (cur : Addr), Pres KR (builtinMethod.goGet (ν := ν) cur l)
  | [], cur => by unfold builtinMethod.goGet; exact Pres.pure _
  | k :: rest, cur => by
    unfold builtinMethod.goGet
    have ih : ∀ c, Pres KR (builtinMethod.goGet (ν := ν) c rest) := kr_goGet rest
    kr_tac
    exact ih _

theorem kr_goArith (op : ν → ν → ν) (cz : Bool) : ∀ (l : List Addr) (acc : ν), Pres KR (builtinMethod.goArith op cz acc l)
  | [], acc => by unfold builtinMethod.goArith; exact Pres.pure _
  | v :: rest, acc => by
    unfold builtinMethod.goArith
    have ih := kr_goArith op cz rest
    kr_tac
    exact ih _

macro_rules | `(tactic| pres_prim) => `(tactic| with_reducible (first
  | apply kr_getProperty | apply kr_setProperty | apply kr_goContains | apply kr_goFind | apply kr_goGet | apply kr_goArith))

theorem kr_builtinMethod (n : Nat) (a : Addr) (name : String) (vals : List Addr) :
    Pres KR (builtinMethod (ν := ν) n a name vals) := by
  unfold Model.builtinMethod
  kr_tac

theorem kr_reduceRHS (n : Nat) (iv : Nat × Addr × String × Int) : Pres KR (reduceRHS (ν := ν) n iv) := by
  obtain ⟨k, r, nm, i⟩ := iv
  simp only [Model.reduceRHS]
  kr_tac

theorem kr_reduceLHS (iv : Nat × Addr × String × Int) (v : Addr) : Pres KR (reduceLHS (ν := ν) iv v) := by
  obtain ⟨k, r, nm, i⟩ := iv
  simp only [Model.reduceLHS]
  kr_tac

end ZnVerif.Proofs.VarInput
