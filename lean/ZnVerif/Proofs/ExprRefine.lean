/-
C01: the model evaluator refines the spec semantics on the pure expression fragment
(induction on fuel; the cases are in ExprLogic / ExprArith / ExprLits).
-/
import ZnVerif.Proofs.ExprLogic
import ZnVerif.Proofs.ExprArith
import ZnVerif.Proofs.ExprLits
set_option linter.unusedSectionVars false
set_option linter.unusedSimpArgs false

namespace ZnVerif.Proofs
open ZnVerif.Model ZnVerif.Spec

variable {ν : Type} [NumOps ν]

/-- the simulation: for every fuel, pure expression and related pair of states -/
theorem sim_eval (ω : Addr → Option (SVal ν)) (d : Nat) : ∀ (n : Nat) (e : Expr) (s : VM ν) (σ : SState ν),
    PureExpr e → EnvRel ω d s σ → Sim d (Reads ω (n + d)) s σ (evalExpr n e) (evalE n e)
  | 0, e, s, σ, _, _ => by
    have h1 : evalExpr (ν := ν) 0 e = outOfFuel := by simp only [evalExpr]
    have h2 : evalE (ν := ν) 0 e = sfail .fuel := by simp only [evalE]
    rw [h1, h2]; exact sim_fuel
  | n+1, e, s, σ, he, henv => by
    have ih : IH ω d n := sim_eval ω d n
    cases he with
    | id i =>
      simp only [evalExpr, evalE]
      refine sim_bind (sim_matchID i.lit) fun s1 x y hF hxy => ?_
      cases hxy with
      | name t =>
        exact sim_weaken (fun _ _ _ h => h.mono (by omega)) (sim_find (henv.frame hF) t)
      | number x =>
        exact sim_alloc_scalar _ _ (by omega) (fun _ _ => rfl)
    | str ln t =>
      simp only [evalExpr, evalE]
      exact sim_alloc_scalar _ _ (by omega) (fun _ _ => rfl)
    | arr ln items hitems => exact sim_arr ih ln items hitems s σ henv
    | hm ln kvs hitems => exact sim_hm ih ln kvs hitems s σ henv
    | logic ln ty l r hty hl hr =>
      simp only [logicTys, List.mem_cons, List.not_mem_nil, or_false] at hty
      rcases hty with h | h | h | h | h | h | h | h | h | h
      · exact sim_logic_andor ih ln ty l r (.inr h) hl hr s σ henv
      · exact sim_logic_andor ih ln ty l r (.inl h) hl hr s σ henv
      · exact sim_logic_eq ih ln ty l r (.inl h) hl hr s σ henv
      · exact sim_logic_eq ih ln ty l r (.inr (.inr (.inl h))) hl hr s σ henv
      · exact sim_logic_order ih ln ty l r (.inl h) hl hr s σ henv
      · exact sim_logic_order ih ln ty l r (.inr (.inl h)) hl hr s σ henv
      · exact sim_logic_order ih ln ty l r (.inr (.inr (.inl h))) hl hr s σ henv
      · exact sim_logic_order ih ln ty l r (.inr (.inr (.inr h))) hl hr s σ henv
      · exact sim_logic_eq ih ln ty l r (.inr (.inl h)) hl hr s σ henv
      · exact sim_logic_eq ih ln ty l r (.inr (.inr (.inr h))) hl hr s σ henv
    | arith ln ty l r hty hl hr =>
      simp only [arithTys, List.mem_cons, List.not_mem_nil, or_false] at hty
      rcases hty with h | h | h | h | h | h
      · exact sim_arith_basic ih ln ty l r (.inl h) hl hr s σ henv
      · exact sim_arith_basic ih ln ty l r (.inr (.inl h)) hl hr s σ henv
      · exact sim_arith_basic ih ln ty l r (.inr (.inr (.inl h))) hl hr s σ henv
      · exact sim_arith_basic ih ln ty l r (.inr (.inr (.inr (.inl h)))) hl hr s σ henv
      · exact sim_arith_basic ih ln ty l r (.inr (.inr (.inr (.inr h)))) hl hr s σ henv
      · subst h; exact sim_arith_mod ih ln l r hl hr s σ henv

end ZnVerif.Proofs
