/-
C01: the model evaluator refines the spec semantics on the pure expression fragment
(induction on fuel; the cases are in ExprLogic / ExprArith / ExprLits).
-/
import ZnVerif.Proofs.ExprLogic
import ZnVerif.Proofs.ExprArith
import ZnVerif.Proofs.ExprLits
set_option linter.unusedSectionVars false
set_option linter.unusedSimpArgs false

namespace ZnVerif.Proofs
open ZnVerif.Model ZnVerif.Spec

variable {ν : Type} [NumOps ν]

/-- the simulation: for every fuel, pure expression and related pair of states -/
theorem sim_eval (ω : Addr → Option (SVal ν)) (d : Nat) : ∀ (n : Nat) (e : Expr) (s : VM ν) (σ : SState ν),
    PureExpr e → EnvRel ω d s σ → Sim d (Reads ω (n + d)) s σ (evalExpr n e) (evalE n e)
  | 0, e, s, σ, _, _ => by
    have h1 : evalExpr (ν := ν) 0 e = outOfFuel := by simp only [evalExpr]
    have h2 : evalE (ν := ν) 0 e = sfail .fuel := by simp only [evalE]
    rw [h1, h2]; exact sim_fuel
  | n+1, e, s, σ, he, henv => by
    have ih : IH ω d n := sim_eval ω d n
    cases he with
    | id i =>
      simp only [evalExpr, evalE]
      refine sim_bind (sim_matchID i.lit) fun s1 x y hF hxy => ?_
      cases hxy with
      | name t =>
        exact sim_weaken (fun _ _ _ h => h.mono (by omega)) (sim_find (henv.frame hF) t)
      | number x =>
        exact sim_alloc_scalar _ _ (by omega) (fun _ _ => rfl)
    | str ln t =>
      simp only [evalExpr, evalE]
      exact sim_alloc_scalar _ _ (by omega) (fun _ _ => rfl)
    | arr ln items hitems => exact sim_arr ih ln items hitems s σ henv
    | hm ln kvs hitems => exact sim_hm ih ln kvs hitems s σ henv
    | logic ln ty l r hty hl hr =>
      simp only [logicTys, List.mem_cons, List.not_mem_nil, or_false] at hty
      rcases hty with h | h | h | h | h | h | h | h | h | h
      · exact sim_logic_andor ih ln ty l r (.inr h) hl hr s σ henv (by omega)
      · exact sim_logic_andor ih ln ty l r (.inl h) hl hr s σ henv (by omega)
      · exact sim_logic_eq ih ln ty l r (.inl h) hl hr s σ henv (by omega)
      · exact sim_logic_eq ih ln ty l r (.inr (.inr (.inl h))) hl hr s σ henv (by omega)
      · exact sim_logic_order ih ln ty l r (.inl h) hl hr s σ henv (by omega)
      · exact sim_logic_order ih ln ty l r (.inr (.inl h)) hl hr s σ henv (by omega)
      · exact sim_logic_order ih ln ty l r (.inr (.inr (.inl h))) hl hr s σ henv (by omega)
      · exact sim_logic_order ih ln ty l r (.inr (.inr (.inr h))) hl hr s σ henv (by omega)
      · exact sim_logic_eq ih ln ty l r (.inr (.inl h)) hl hr s σ henv (by omega)
      · exact sim_logic_eq ih ln ty l r (.inr (.inr (.inr h))) hl hr s σ henv (by omega)
    | arith ln ty l r hty hl hr =>
      simp only [arithTys, List.mem_cons, List.not_mem_nil, or_false] at hty
      rcases hty with h | h | h | h | h | h
      · exact sim_arith_basic ih ln ty l r (.inl h) hl hr s σ henv (by omega)
      · exact sim_arith_basic ih ln ty l r (.inr (.inl h)) hl hr s σ henv (by omega)
      · exact sim_arith_basic ih ln ty l r (.inr (.inr (.inl h))) hl hr s σ henv (by omega)
      · exact sim_arith_basic ih ln ty l r (.inr (.inr (.inr (.inl h)))) hl hr s σ henv (by omega)
      · exact sim_arith_basic ih ln ty l r (.inr (.inr (.inr (.inr h)))) hl hr s σ henv (by omega)
      · subst h; exact sim_arith_mod ih ln l r hl hr s σ henv (by omega)

/-! ### results that read within a fixed small fuel (used by the statement-level refinement, where
stored values must stay scalar for the environment relation `EnvRel ω 0` to be kept) -/

/-- expressions whose top node is not a list / dictionary literal: their value is a scalar, or whatever a name holds -/
inductive TopScalar : Expr → Prop
  | id (i : Ident) : TopScalar (.id i)
  | str (ln : Nat) (t : String) : TopScalar (.str ln t)
  | logic (ln ty : Nat) (l r : Expr) : TopScalar (.logic ln ty l r)
  | arith (ln ty : Nat) (l r : Expr) : TopScalar (.arith ln ty l r)

theorem sim_eval_top (ω : Addr → Option (SVal ν)) : ∀ (n : Nat) (e : Expr) (s : VM ν) (σ : SState ν),
    PureExpr e → TopScalar e → EnvRel ω 0 s σ → Sim 0 (Reads ω 1) s σ (evalExpr n e) (evalE n e)
  | 0, e, s, σ, _, _, _ => by
    have h1 : evalExpr (ν := ν) 0 e = outOfFuel := by simp only [evalExpr]
    have h2 : evalE (ν := ν) 0 e = sfail .fuel := by simp only [evalE]
    rw [h1, h2]; exact sim_fuel
  | n+1, e, s, σ, he, ht, henv => by
    have ih : IH ω 0 n := sim_eval ω 0 n
    cases ht with
    | id i =>
      simp only [evalExpr, evalE]
      refine sim_bind (sim_matchID i.lit) fun s1 x y hF hxy => ?_
      cases hxy with
      | name t => exact sim_find (henv.frame hF) t
      | number x => exact sim_alloc_scalar _ _ (by omega) (fun _ _ => rfl)
    | str ln t =>
      simp only [evalExpr, evalE]
      exact sim_alloc_scalar _ _ (by omega) (fun _ _ => rfl)
    | logic ln ty l r =>
      cases he with
      | logic _ _ _ _ hty hl hr =>
      simp only [logicTys, List.mem_cons, List.not_mem_nil, or_false] at hty
      rcases hty with h | h | h | h | h | h | h | h | h | h
      · exact sim_logic_andor ih ln ty l r (.inr h) hl hr s σ henv (by omega)
      · exact sim_logic_andor ih ln ty l r (.inl h) hl hr s σ henv (by omega)
      · exact sim_logic_eq ih ln ty l r (.inl h) hl hr s σ henv (by omega)
      · exact sim_logic_eq ih ln ty l r (.inr (.inr (.inl h))) hl hr s σ henv (by omega)
      · exact sim_logic_order ih ln ty l r (.inl h) hl hr s σ henv (by omega)
      · exact sim_logic_order ih ln ty l r (.inr (.inl h)) hl hr s σ henv (by omega)
      · exact sim_logic_order ih ln ty l r (.inr (.inr (.inl h))) hl hr s σ henv (by omega)
      · exact sim_logic_order ih ln ty l r (.inr (.inr (.inr h))) hl hr s σ henv (by omega)
      · exact sim_logic_eq ih ln ty l r (.inr (.inl h)) hl hr s σ henv (by omega)
      · exact sim_logic_eq ih ln ty l r (.inr (.inr (.inr h))) hl hr s σ henv (by omega)
    | arith ln ty l r =>
      cases he with
      | arith _ _ _ _ hty hl hr =>
      simp only [arithTys, List.mem_cons, List.not_mem_nil, or_false] at hty
      rcases hty with h | h | h | h | h | h
      · exact sim_arith_basic ih ln ty l r (.inl h) hl hr s σ henv (by omega)
      · exact sim_arith_basic ih ln ty l r (.inr (.inl h)) hl hr s σ henv (by omega)
      · exact sim_arith_basic ih ln ty l r (.inr (.inr (.inl h))) hl hr s σ henv (by omega)
      · exact sim_arith_basic ih ln ty l r (.inr (.inr (.inr (.inl h)))) hl hr s σ henv (by omega)
      · exact sim_arith_basic ih ln ty l r (.inr (.inr (.inr (.inr h)))) hl hr s σ henv (by omega)
      · subst h; exact sim_arith_mod ih ln l r hl hr s σ henv (by omega)

/-- what a loop may iterate over with scalar loop variables: a top-scalar expression (a name holding an
empty container, …) or a list / dictionary literal of top-scalar items -/
inductive IterTarget : Expr → Prop
  | top (e : Expr) : PureExpr e → TopScalar e → IterTarget e
  | arr (ln : Nat) (items : List Expr) : (∀ e ∈ items, PureExpr e ∧ TopScalar e) → IterTarget (.arr ln items)
  | hm (ln : Nat) (kvs : List (Expr × Expr)) : (∀ kv ∈ kvs, PureExpr kv.2 ∧ TopScalar kv.2) → IterTarget (.hm ln kvs)

theorem IterTarget.pure {e : Expr} (h : IterTarget e) : PureExpr e := by
  cases h with
  | top _ hp _ => exact hp
  | arr ln items hi => exact .arr _ _ fun e he => (hi e he).1
  | hm ln kvs hi => exact .hm _ _ fun kv hkv => (hi kv hkv).1

theorem sim_eval_target (ω : Addr → Option (SVal ν)) (n : Nat) (e : Expr) (s : VM ν) (σ : SState ν)
    (he : IterTarget e) (henv : EnvRel ω 0 s σ) : Sim 0 (Reads ω 2) s σ (evalExpr n e) (evalE n e) := by
  cases he with
  | top _ hp ht => exact sim_weaken (fun _ _ _ h => h.mono (by omega)) (sim_eval_top ω n e s σ hp ht henv)
  | arr ln items hi =>
    cases n with
    | zero =>
      have h1 : evalExpr (ν := ν) 0 (.arr ln items) = outOfFuel := by simp only [evalExpr]
      have h2 : evalE (ν := ν) 0 (.arr ln items) = sfail .fuel := by simp only [evalE]
      rw [h1, h2]; exact sim_fuel
    | succ n =>
      exact sim_arr' (k := 1) ln items s σ fun e he s1 hF1 =>
        sim_eval_top ω n e s1 σ (hi e he).1 (hi e he).2 (henv.frame hF1)
  | hm ln kvs hi =>
    cases n with
    | zero =>
      have h1 : evalExpr (ν := ν) 0 (.hm ln kvs) = outOfFuel := by simp only [evalExpr]
      have h2 : evalE (ν := ν) 0 (.hm ln kvs) = sfail .fuel := by simp only [evalE]
      rw [h1, h2]; exact sim_fuel
    | succ n =>
      exact sim_hm' (k := 1) ln kvs s σ fun kv hkv s1 hF1 =>
        sim_eval_top ω n kv.2 s1 σ (hi kv hkv).1 (hi kv hkv).2 (henv.frame hF1)

end ZnVerif.Proofs
