/-
Helper lemmas for C17: the `readRune` loop of pkg/io (Model/Decode.lean) against the chunk-free spec decoder.

* `decodeBuf_eof`     at the end of the stream the loop is the spec's strict decoder,
* `decodeBuf_stream`  before the end: what the loop has decoded is a prefix of what the spec decodes from the
                      whole stream, what it carries is exactly what still has to be looked at, and an error it
                      reports is an error of the whole stream — whatever bytes follow,
* `plainLoop_eq` / `fileLoop_eq`  the `ReadAll` loops over any read script.
-/
import ZnVerif.Proofs.Utf8

namespace ZnVerif.Proofs.Decode
open ZnVerif ZnVerif.Model ZnVerif.Spec ZnVerif.Proofs.Utf8


theorem decodeStrict_nil : decodeStrict [] = .ok [] := by
  rw [decodeStrict]; simp

theorem decodeStrict_none {bytes : List Nat} (hne : bytes ≠ []) (h : decodeOne bytes = none) :
    decodeStrict bytes = .error .invalidUtf8 := by
  rw [decodeStrict]
  simp only [hne, if_false]
  split
  · rfl
  · rename_i h'; rw [h] at h'; cases h'

theorem decodeStrict_some {bytes : List Nat} {c : Nat} {r : List Nat} (h : decodeOne bytes = some (c, r)) :
    decodeStrict bytes = match decodeStrict r with
      | .ok cs => .ok (c :: cs)
      | .error e => .error e := by
  have hne : bytes ≠ [] := by
    intro e; subst e; simp [decodeOne] at h
  rw [decodeStrict]
  simp only [hne, if_false]
  split
  · rename_i h'; rw [h] at h'; cases h'
  · rename_i c' r' h'
    rw [h] at h'
    cases h'
    rfl

theorem decodeBuf_nil (eof : Bool) : decodeBuf eof [] = .ok ([], []) := by
  rw [decodeBuf]

theorem decodeBuf_incomplete (eof : Bool) {buf : List Nat} (hne : buf ≠ []) (h : fullRune buf = false) :
    decodeBuf eof buf = if eof then .error .invalidEncoding else .ok ([], buf) := by
  match buf, hne with
  | p0 :: rest, _ => rw [decodeBuf]; simp [h]

theorem decodeBuf_invalid (eof : Bool) {buf : List Nat} (h : fullRune buf = true)
    (hd : (utf8DecodeRune buf).1 = runeError ∧ (utf8DecodeRune buf).2 = 1) :
    decodeBuf eof buf = .error .invalidEncoding := by
  match buf, h with
  | p0 :: rest, h => rw [decodeBuf]; simp [h, hd]

theorem decodeBuf_step (eof : Bool) {buf : List Nat} (h : fullRune buf = true)
    (hd : ¬ ((utf8DecodeRune buf).1 = runeError ∧ (utf8DecodeRune buf).2 = 1)) :
    decodeBuf eof buf = match decodeBuf eof (buf.drop (utf8DecodeRune buf).2) with
      | .ok (rs, rem) => .ok ((utf8DecodeRune buf).1 :: rs, rem)
      | .error e => .error e := by
  match buf, h with
  | p0 :: rest, h => rw [decodeBuf]; simp [h, hd]; rfl

theorem fullRune_ne_nil {buf : List Nat} (h : fullRune buf = true) : buf ≠ [] := by
  intro e; subst e; simp [fullRune] at h

/-- a model error seen as a spec error -/
def specErr : Model.IOError → Spec.DecodeError
  | .invalidEncoding => .invalidUtf8

/-- a model result seen as a spec result -/
def asSpec {α : Type} : Except Model.IOError α → Except Spec.DecodeError α
  | .ok a => .ok a
  | .error e => .error (specErr e)

/-- with `eof` the loop is the strict decoder of the spec (nothing can be carried any more) -/
theorem decodeBuf_eof (buf : List Nat) :
    decodeBuf true buf = match decodeStrict buf with
      | .ok cs => .ok (cs, [])
      | .error _ => .error .invalidEncoding := by
  induction h : buf.length using Nat.strongRecOn generalizing buf with
  | _ n ih =>
    match buf, h with
    | [], _ => rw [decodeBuf_nil, decodeStrict_nil]
    | p0 :: rest, h =>
      have hm := decodeOne_model p0 rest
      by_cases hf : fullRune (p0 :: rest) = true
      · by_cases hd : (utf8DecodeRune (p0 :: rest)).1 = runeError ∧ (utf8DecodeRune (p0 :: rest)).2 = 1
        · rw [decodeBuf_invalid true hf hd]
          rw [if_pos hd] at hm
          rw [decodeStrict_none (by simp) hm]
        · rw [decodeBuf_step true hf hd]
          rw [if_neg hd] at hm
          rw [decodeStrict_some hm]
          have hlt := decodeOne_length hm
          rw [ih _ (by omega) _ rfl]
          cases decodeStrict (List.drop (utf8DecodeRune (p0 :: rest)).snd (p0 :: rest)) <;> rfl
      · have hf' : fullRune (p0 :: rest) = false := by simpa using hf
        rw [decodeBuf_incomplete true (by simp) hf']
        have hd := not_full_decode hf'
        rw [hd] at hm
        simp only [and_self, if_true] at hm
        rw [decodeStrict_none (by simp) hm]
        rfl

/-- before the end of the stream: decoded runes are a stable prefix, the carried bytes are exactly what is left
to decode, and an error is final — for every continuation `more` of the stream -/
theorem decodeBuf_stream (buf more : List Nat) :
    match decodeBuf false buf with
    | .ok (rs, rem) => decodeStrict (buf ++ more) =
        (match decodeStrict (rem ++ more) with
          | .ok cs => .ok (rs ++ cs)
          | .error e => .error e)
    | .error _ => decodeStrict (buf ++ more) = .error .invalidUtf8 := by
  induction h : buf.length using Nat.strongRecOn generalizing buf with
  | _ n ih =>
    match buf, h with
    | [], _ =>
      rw [decodeBuf_nil]
      simp only [List.nil_append]
      cases decodeStrict more <;> rfl
    | p0 :: rest, h =>
      by_cases hf : fullRune (p0 :: rest) = true
      · obtain ⟨hf2, hd2, hle⟩ := fullRune_append (p0 :: rest) more hf
        have hm := decodeOne_model p0 (rest ++ more)
        rw [← List.cons_append, hd2] at hm
        by_cases hd : (utf8DecodeRune (p0 :: rest)).1 = runeError ∧ (utf8DecodeRune (p0 :: rest)).2 = 1
        · rw [decodeBuf_invalid false hf hd]
          rw [if_pos hd] at hm
          exact decodeStrict_none (by simp) hm
        · rw [decodeBuf_step false hf hd]
          rw [if_neg hd] at hm
          have hpos := utf8DecodeRune_size_pos p0 rest
          have hih := ih ((p0 :: rest).drop (utf8DecodeRune (p0 :: rest)).2).length
            (by simp only [List.length_drop, List.length_cons] at hle h ⊢; omega) _ rfl
          rw [List.drop_append_of_le_length hle] at hm
          rw [decodeStrict_some hm]
          revert hih
          cases decodeBuf false (List.drop (utf8DecodeRune (p0 :: rest)).snd (p0 :: rest)) with
          | error e => intro hih; simp only [] at hih ⊢; rw [hih]
          | ok v =>
            obtain ⟨rs, rem⟩ := v
            intro hih
            simp only [] at hih ⊢
            rw [hih]
            cases decodeStrict (rem ++ more) <;> rfl
      · have hf' : fullRune (p0 :: rest) = false := by simpa using hf
        rw [decodeBuf_incomplete false (by simp) hf']
        simp only [Bool.false_eq_true, if_false, List.nil_append]
        cases decodeStrict (p0 :: rest ++ more) <;> rfl

/-! ### the `ReadAll` loops over an arbitrary read script -/

theorem byteLoop_eq (rem : List Nat) (chunks : List (List Nat)) (last : List Nat) :
    asSpec (ByteStream.readAllLoop { encBuffer := rem } chunks last) =
      decodeStrict (rem ++ chunks.flatten ++ last) := by
  induction chunks generalizing rem with
  | nil =>
    simp only [ByteStream.readAllLoop, ByteStream.read, readRune, List.flatten_nil, List.append_nil]
    rw [decodeBuf_eof]
    cases decodeStrict (rem ++ last) <;> rfl
  | cons c cs ih =>
    have hs := decodeBuf_stream (rem ++ c) (cs.flatten ++ last)
    simp only [ByteStream.readAllLoop, ByteStream.read, readRune, List.flatten_cons]
    have e : rem ++ (c ++ cs.flatten) ++ last = rem ++ c ++ (cs.flatten ++ last) := by simp
    rw [e]
    revert hs
    cases decodeBuf false (rem ++ c) with
    | error e => intro hs; simp only [] at hs ⊢; rw [hs]; cases e; rfl
    | ok v =>
      obtain ⟨rs, rem'⟩ := v
      intro hs
      simp only [] at hs ⊢
      have := ih rem'
      rw [hs, ← List.append_assoc, ← this]
      cases ByteStream.readAllLoop { encBuffer := rem' } cs last <;> rfl

theorem fileLoop_read (rem : List Nat) (chunks : List (List Nat)) (last : List Nat) :
    asSpec (FileStream.readAllLoop { encBuffer := rem, hasRead := true } chunks last) =
      decodeStrict (rem ++ chunks.flatten ++ last) := by
  induction chunks generalizing rem with
  | nil =>
    simp only [FileStream.readAllLoop, FileStream.read, readRune, List.flatten_nil, List.append_nil]
    rw [decodeBuf_eof]
    cases decodeStrict (rem ++ last) <;> rfl
  | cons c cs ih =>
    have hs := decodeBuf_stream (rem ++ c) (cs.flatten ++ last)
    simp only [FileStream.readAllLoop, FileStream.read, readRune, List.flatten_cons]
    have e : rem ++ (c ++ cs.flatten) ++ last = rem ++ c ++ (cs.flatten ++ last) := by simp
    rw [e]
    revert hs
    cases decodeBuf false (rem ++ c) with
    | error e => intro hs; simp only [] at hs ⊢; rw [hs]; cases e; rfl
    | ok v =>
      obtain ⟨rs, rem'⟩ := v
      intro hs
      simp only [] at hs ⊢
      have := ih rem'
      rw [hs, ← List.append_assoc, ← this]
      simp only [Bool.not_true, Bool.false_eq_true, if_false]
      cases FileStream.readAllLoop { encBuffer := rem', hasRead := true } cs last <;> rfl

theorem fileLoop_fresh (rem : List Nat) (chunks : List (List Nat)) (last : List Nat) :
    asSpec (FileStream.readAllLoop { encBuffer := rem, hasRead := false } chunks last) =
      decodeAll (rem ++ chunks.flatten ++ last) := by
  induction chunks generalizing rem with
  | nil =>
    simp only [FileStream.readAllLoop, FileStream.read, readRune, List.flatten_nil, List.append_nil, decodeAll]
    rw [decodeBuf_eof]
    cases decodeStrict (rem ++ last) with
    | error e => cases e; rfl
    | ok cps =>
      cases cps with
      | nil => rfl
      | cons d ds =>
        simp only [Bool.not_false, if_true, BOM, bom]
        by_cases hd : d = 65279 <;> simp [hd, asSpec]
  | cons c cs ih =>
    have hs := decodeBuf_stream (rem ++ c) (cs.flatten ++ last)
    simp only [FileStream.readAllLoop, FileStream.read, readRune, List.flatten_cons]
    have e : rem ++ (c ++ cs.flatten) ++ last = rem ++ c ++ (cs.flatten ++ last) := by simp
    rw [e]
    revert hs
    cases decodeBuf false (rem ++ c) with
    | error e => intro hs; simp only [decodeAll] at hs ⊢; rw [hs]; cases e; rfl
    | ok v =>
      obtain ⟨rs, rem'⟩ := v
      intro hs
      simp only [Bool.not_false, if_true] at hs ⊢
      cases rs with
      | nil =>
        simp only [] at hs ⊢
        have := ih rem'
        rw [List.append_assoc] at this
        simp only [decodeAll] at this ⊢
        rw [hs]
        revert this
        cases FileStream.readAllLoop { encBuffer := rem', hasRead := false } cs last <;>
          cases decodeStrict (rem' ++ (cs.flatten ++ last)) <;> intro this <;>
          simp_all [asSpec]
      | cons d ds =>
        simp only [] at hs ⊢
        have hr := fileLoop_read rem' cs last
        rw [List.append_assoc] at hr
        simp only [decodeAll]
        rw [hs, ← hr]
        cases FileStream.readAllLoop { encBuffer := rem', hasRead := true } cs last with
        | error e => cases e; rfl
        | ok more =>
          simp only [asSpec, List.cons_append, BOM, bom]
          by_cases hd : d = 65279 <;> simp [hd]

/-! ### the spec oracle against the Prop-level reading: "the bytes are the encoding of these scalar values" -/

theorem decodeOne_sound {bytes : List Nat} {c : Nat} {rest : List Nat} (h : decodeOne bytes = some (c, rest)) :
    IsScalar c ∧ bytes = encode c ++ rest := by
  unfold decodeOne at h
  split at h
  · cases h
  · simp only [] at h
    split at h
    · rename_i hc
      cases h
      refine ⟨hc.2.1, ?_⟩
      rw [hc.2.2, List.take_append_drop]
    · cases h

theorem payload_encode {c : Nat} (h : IsScalar c) : payload (encode c) = c := by
  unfold IsScalar at h
  unfold encode
  repeat' split
  all_goals simp only [payload]
  all_goals omega

theorem seqLen_encode {c : Nat} (h : IsScalar c) :
    ∃ b0 tl, encode c = b0 :: tl ∧ seqLen b0 = tl.length + 1 := by
  unfold IsScalar at h
  unfold encode
  repeat' split
  all_goals refine ⟨_, _, rfl, ?_⟩
  all_goals unfold seqLen
  all_goals repeat' split
  all_goals first | rfl | (simp only [List.length_cons, List.length_nil]; omega) | omega

theorem decodeOne_encode {c : Nat} (h : IsScalar c) (rest : List Nat) :
    decodeOne (encode c ++ rest) = some (c, rest) := by
  obtain ⟨b0, tl, he, hl⟩ := seqLen_encode h
  have hlen : (encode c).length = tl.length + 1 := by rw [he]; rfl
  have ht : List.take (seqLen b0) (encode c ++ rest) = encode c := by
    rw [hl, ← hlen]; exact List.take_left' rfl
  have hd : List.drop (seqLen b0) (encode c ++ rest) = rest := by
    rw [hl, ← hlen]; exact List.drop_left' rfl
  have hp := payload_encode h
  have e : encode c ++ rest = b0 :: (tl ++ rest) := by rw [he]; rfl
  rw [e] at ht hd ⊢
  simp only [decodeOne, ht, hd, hp]
  have : 0 < seqLen b0 := by omega
  simp [this, h]

theorem decodeStrict_sound (bytes : List Nat) : ∀ cps, decodeStrict bytes = .ok cps →
    (∀ c ∈ cps, IsScalar c) ∧ encodeAll cps = bytes := by
  induction h : bytes.length using Nat.strongRecOn generalizing bytes with
  | _ n ih =>
    intro cps hd
    by_cases hne : bytes = []
    · subst hne
      rw [decodeStrict_nil] at hd
      cases hd
      exact ⟨by simp, rfl⟩
    · cases ho : decodeOne bytes with
      | none => rw [decodeStrict_none hne ho] at hd; cases hd
      | some v =>
        obtain ⟨c, rest⟩ := v
        rw [decodeStrict_some ho] at hd
        have hlt := decodeOne_length ho
        obtain ⟨hsc, hb⟩ := decodeOne_sound ho
        cases hr : decodeStrict rest with
        | error e => rw [hr] at hd; cases hd
        | ok cs =>
          rw [hr] at hd
          cases hd
          obtain ⟨h1, h2⟩ := ih rest.length (by omega) rest rfl cs hr
          refine ⟨?_, ?_⟩
          · intro x hx
            rcases List.mem_cons.mp hx with rfl | hx
            · exact hsc
            · exact h1 x hx
          · rw [hb, ← h2]; simp [encodeAll]

theorem encode_ne_nil (c : Nat) : encode c ≠ [] := by
  unfold encode
  repeat' split
  all_goals simp

theorem decodeStrict_complete (cps : List Nat) (h : ∀ c ∈ cps, IsScalar c) :
    decodeStrict (encodeAll cps) = .ok cps := by
  induction cps with
  | nil => exact decodeStrict_nil
  | cons c cs ih =>
    have hc : IsScalar c := h c (by simp)
    have e : encodeAll (c :: cs) = encode c ++ encodeAll cs := by simp [encodeAll]
    rw [e, decodeStrict_some (decodeOne_encode hc _), ih (fun x hx => h x (by simp [hx]))]

/-- the executable oracle decides exactly the Prop-level spec -/
theorem decodeStrict_iff (bytes cps : List Nat) :
    decodeStrict bytes = .ok cps ↔ (∀ c ∈ cps, IsScalar c) ∧ encodeAll cps = bytes := by
  constructor
  · exact decodeStrict_sound bytes cps
  · rintro ⟨h1, rfl⟩
    exact decodeStrict_complete cps h1

end ZnVerif.Proofs.Decode
