/-
A frame-rule style induction over the evaluator model: `Pres R m` says that running `m` relates every start state
to its end state by the preorder `R`, whatever the outcome (ok, error, panic, out of fuel, unmodelled).
`allPres` proves by induction on fuel that every function of the mutual block is `Pres R`, for every `R` that
tolerates heap / stack / module-table / output changes and for which the five scope primitives are `Pres R`.
Instantiated in this file with `ScopeGrow` (per-module scope depth and outer symbols are kept), which gives
`blocks_balance`.
-/
import ZnVerif.Proofs.Calls
set_option linter.unusedSectionVars false
set_option linter.unusedSimpArgs false
set_option linter.unusedVariables false

namespace ZnVerif.Proofs.Balance
open ZnVerif.Model ZnVerif.Proofs.Calls

variable {ν : Type} [NumOps ν]

class PreRel (R : VM ν → VM ν → Prop) : Prop where
  refl : ∀ s, R s s
  trans : ∀ {a b c}, R a b → R b c → R a c

/-- `R` does not look at the heap, the call stack / current module, the export lists of the module table (the only part of the
module table the evaluator writes: `addExport`; modules are allocated by the loader, `LoaderPrims`) -/
class Stable (R : VM ν → VM ν → Prop) : Prop extends PreRel R where
  heap : ∀ s h, R s { s with heap := h }
  stack : ∀ s st cs, R s { s with stack := st, csModuleID := cs }
  exports : ∀ (s : VM ν) (i : Nat) (md : Module) (e : List (String × Addr)), s.modules[i]? = some md →
    R s { s with modules := s.modules.set! i { md with exports := e } }

/-- the weaker requirement that suffices for everything that never overwrites a heap cell: `R` tolerates allocation
(a cell appended to the heap), call stack / current module and module table changes.  Relations that do look at
existing heap cells (e.g. "method cells are never altered") are `Stable0` but not `Stable`. -/
class Stable0 (R : VM ν → VM ν → Prop) : Prop extends PreRel R where
  alloc : ∀ (s : VM ν) (c : Cell ν), R s { s with heap := s.heap.push c }
  stack : ∀ s st cs, R s { s with stack := st, csModuleID := cs }
  exports : ∀ (s : VM ν) (i : Nat) (md : Module) (e : List (String × Addr)), s.modules[i]? = some md →
    R s { s with modules := s.modules.set! i { md with exports := e } }

instance (R : VM ν → VM ν → Prop) [h : Stable R] : Stable0 R where
  refl := h.refl
  trans := h.trans
  alloc s c := h.heap s _
  stack := h.stack
  exports := h.exports

structure Pres (R : VM ν → VM ν → Prop) {α} (m : M ν α) : Prop where
  run : ∀ s, R s (m s).2

syntax "pres_prim" : tactic

section combinators
variable {R : VM ν → VM ν → Prop} [PreRel R] {α β : Type}

theorem Pres.pure (a : α) : Pres R (pure a : M ν α) := ⟨fun s => PreRel.refl s⟩
theorem Pres.bind {m : M ν α} {f : α → M ν β} (hm : Pres R m) (hf : ∀ a, Pres R (f a)) : Pres R (m >>= f) := by
  constructor; intro s
  rw [M_bind_def]
  have := hm.run s
  rcases h : m s with ⟨r, s'⟩
  rw [h] at this
  cases r <;> simp only <;> try exact this
  exact PreRel.trans this ((hf _).run s')
theorem Pres.tryCatch {m : M ν α} {k : Res α → M ν β} (hm : Pres R m) (hk : ∀ r, Pres R (k r)) :
    Pres R (Model.tryCatch m k) := by
  constructor; intro s
  exact PreRel.trans (hm.run s) ((hk _).run _)
theorem Pres.liftRes (r : Res α) : Pres R (liftRes r : M ν α) := ⟨fun s => PreRel.refl s⟩
theorem Pres.throwE (e : Err) : Pres R (throwE e : M ν α) := ⟨fun s => PreRel.refl s⟩
theorem Pres.rtErr (c : Nat) : Pres R (rtErr c : M ν α) := ⟨fun s => PreRel.refl s⟩
theorem Pres.goPanic : Pres R (goPanic : M ν α) := ⟨fun s => PreRel.refl s⟩
theorem Pres.outOfFuel : Pres R (outOfFuel : M ν α) := ⟨fun s => PreRel.refl s⟩
theorem Pres.notModelled : Pres R (notModelled : M ν α) := ⟨fun s => PreRel.refl s⟩
theorem Pres.getVM : Pres R (getVM : M ν _) := ⟨fun s => PreRel.refl s⟩
theorem Pres.modifyVM {f : VM ν → VM ν} (h : ∀ s, R s (f s)) : Pres R (modifyVM f) := ⟨fun s => h s⟩

theorem Pres.mapM {f : α → M ν β} (h : ∀ a, Pres R (f a)) : ∀ l : List α, Pres R (l.mapM f)
  | [] => by rw [mapM_nil]; exact Pres.pure _
  | a :: l => by
    rw [mapM_cons]
    exact Pres.bind (h a) fun _ => Pres.bind (Pres.mapM h l) fun _ => Pres.pure _

theorem Pres.forM {f : α → M ν PUnit} (h : ∀ a, Pres R (f a)) : ∀ l : List α, Pres R (l.forM f)
  | [] => by show Pres R (Pure.pure PUnit.unit); exact Pres.pure _
  | a :: l => by
    show Pres R (f a >>= fun _ => l.forM f)
    exact Pres.bind (h a) fun _ => Pres.forM h l

theorem Pres.foldlM {f : β → α → M ν β} (h : ∀ b a, Pres R (f b a)) : ∀ (l : List α) (b : β), Pres R (l.foldlM f b)
  | [], b => by rw [List.foldlM_nil]; exact Pres.pure _
  | a :: l, b => by
    rw [List.foldlM_cons]
    exact Pres.bind (h b a) fun _ => Pres.foldlM h l _

theorem Pres.allM {f : α → M ν Bool} (h : ∀ a, Pres R (f a)) : ∀ l : List α, Pres R (allM f l)
  | [] => Pres.pure _
  | a :: l => by
    unfold Model.allM
    refine Pres.bind (h a) fun b => ?_
    cases b
    · exact Pres.pure _
    · exact Pres.allM h l

theorem Pres.untilM {f : α → M ν Bool} (h : ∀ a, Pres R (f a)) : ∀ l : List α, Pres R (untilM f l)
  | [] => Pres.pure _
  | a :: l => by
    unfold Model.untilM
    refine Pres.bind (h a) fun b => ?_
    cases b
    · exact Pres.untilM h l
    · exact Pres.pure _

theorem Pres.untilIdxM {f : Nat → α → M ν Bool} (h : ∀ i a, Pres R (f i a)) :
    ∀ (l : List α) (i : Nat), Pres R (untilIdxM f i l)
  | [], i => Pres.pure _
  | a :: l, i => by
    unfold Model.untilIdxM
    refine Pres.bind (h i a) fun b => ?_
    cases b
    · exact Pres.untilIdxM h l _
    · exact Pres.pure _

theorem Pres.whileM {step : M ν Bool} (h : Pres R step) : ∀ k : Nat, Pres R (whileM k step)
  | 0 => Pres.outOfFuel
  | k+1 => by
    unfold Model.whileM
    refine Pres.bind h fun b => ?_
    cases b
    · exact Pres.pure _
    · exact Pres.whileM h k

theorem Pres.firstM {f : α → M ν (Option β)} {d : M ν β} (h : ∀ a, Pres R (f a)) (hd : Pres R d) :
    ∀ l : List α, Pres R (firstM f d l)
  | [] => hd
  | a :: l => by
    unfold Model.firstM
    refine Pres.bind (h a) fun b => ?_
    cases b
    · exact Pres.firstM h hd l
    · exact Pres.pure _

end combinators

macro_rules | `(tactic| pres_prim) => `(tactic| with_reducible (first
  | apply Pres.pure | apply Pres.bind | apply Pres.tryCatch | apply Pres.liftRes | apply Pres.throwE
  | apply Pres.rtErr | apply Pres.goPanic | apply Pres.outOfFuel | apply Pres.notModelled | apply Pres.getVM
  | apply Pres.mapM | apply Pres.forM | apply Pres.foldlM | apply Pres.allM | apply Pres.untilM
  | apply Pres.untilIdxM | apply Pres.whileM | apply Pres.firstM))

/-- decompose a `Pres` goal along the structure of the program -/
macro "pres_tac" : tactic => `(tactic| repeat' (first | assumption | pres_prim | intro _ | split | dsimp only))

/-! ## leaves: functions outside the mutual block -/

section leaves
variable {R : VM ν → VM ν → Prop} [Stable0 R] {α β : Type}

theorem Pres.alloc (c : Cell ν) : Pres R (alloc c) := ⟨fun s => Stable0.alloc s c⟩
theorem Pres.getCell (a : Addr) : Pres R (getCell (ν := ν) a) := by
  constructor; intro s; unfold Model.getCell; split <;> exact PreRel.refl _
theorem Pres.newNull : Pres R (newNull (ν := ν)) := Pres.alloc _
theorem Pres.newBool (b : Bool) : Pres R (newBool (ν := ν) b) := Pres.alloc _
theorem Pres.newNum (x : ν) : Pres R (newNum x) := Pres.alloc _
theorem Pres.newStr (x : String) : Pres R (newStr (ν := ν) x) := Pres.alloc _
theorem Pres.topFrame : Pres R (topFrame (ν := ν)) := ⟨fun s => PreRel.refl s⟩
theorem Pres.stackDepth : Pres R (stackDepth (ν := ν)) := ⟨fun s => PreRel.refl s⟩
theorem Pres.currentScope : Pres R (currentScope (ν := ν)) := ⟨fun s => PreRel.refl s⟩
theorem Pres.setTopFrame (f : Frame → Frame) : Pres R (setTopFrame (ν := ν) f) := by
  unfold Model.setTopFrame
  apply Pres.modifyVM
  intro s
  cases h : s.stack with
  | nil => simp only; exact PreRel.refl _
  | cons fr rest => exact Stable0.stack s (f fr :: rest) s.csModuleID
theorem Pres.popFrame : Pres R (popFrame (ν := ν)) := by
  constructor; intro s; unfold Model.popFrame; split
  · exact PreRel.refl _
  · exact Stable0.stack s _ _
theorem Pres.unwindTo (d : Nat) : Pres R (unwindTo (ν := ν) d) := by
  unfold Model.unwindTo
  apply Pres.modifyVM
  intro s
  simp only
  split
  · exact PreRel.refl _
  · exact Stable0.stack s _ _
theorem Pres.currentModule : Pres R (currentModule (ν := ν)) := by
  constructor; intro s; unfold Model.currentModule; split
  · exact PreRel.refl _
  · split <;> exact PreRel.refl _
theorem Pres.addExport (i : Nat) (name : String) (v : Addr) : Pres R (addExport (ν := ν) i name v) := by
  constructor; intro s; unfold Model.addExport; split
  · exact PreRel.refl _
  · rename_i m hm
    split
    · exact PreRel.refl _
    · exact Stable0.exports s _ _ _ hm

macro_rules | `(tactic| pres_prim) => `(tactic| with_reducible (first
  | apply Pres.alloc | apply Pres.getCell | apply Pres.newNull | apply Pres.newBool
  | apply Pres.newNum | apply Pres.newStr | apply Pres.topFrame | apply Pres.stackDepth | apply Pres.currentScope
  | apply Pres.setTopFrame | apply Pres.popFrame | apply Pres.unwindTo | apply Pres.currentModule
  | apply Pres.addExport))

theorem Pres.getThis : Pres R (getThis (ν := ν)) := by unfold Model.getThis; pres_tac
theorem Pres.getReturnValue : Pres R (getReturnValue (ν := ν)) := by unfold Model.getReturnValue; pres_tac
theorem Pres.matchIDType (lit : String) : Pres R (matchIDType (ν := ν) lit) := by unfold Model.matchIDType; pres_tac
macro_rules | `(tactic| pres_prim) => `(tactic| with_reducible (apply Pres.matchIDType))
theorem Pres.matchIDName (lit : String) : Pres R (matchIDName (ν := ν) lit) := by
  unfold Model.matchIDName; pres_tac
macro_rules | `(tactic| pres_prim) => `(tactic| with_reducible (apply Pres.matchIDName))
theorem Pres.matchIDNameOpt (i : Option Ident) : Pres R (matchIDNameOpt (ν := ν) i) := by
  unfold Model.matchIDNameOpt; pres_tac
theorem Pres.findElement (name : String) : Pres R (findElement (ν := ν) name) := by unfold Model.findElement; pres_tac
theorem Pres.findElementWithModule (name : String) : Pres R (findElementWithModule (ν := ν) name) := by
  unfold Model.findElementWithModule; pres_tac
theorem Pres.validateOne (a : Addr) (ty : String) : Pres R (validateOne (ν := ν) a ty) := by
  unfold Model.validateOne; pres_tac

theorem Pres.loopSignalToException (e : Err) : Pres R (loopSignalToException (ν := ν) e) := by
  unfold Model.loopSignalToException; pres_tac
macro_rules | `(tactic| pres_prim) => `(tactic| with_reducible (apply Pres.loopSignalToException))

macro_rules | `(tactic| pres_prim) => `(tactic| with_reducible (first
  | apply Pres.getThis | apply Pres.getReturnValue | apply Pres.matchIDType | apply Pres.matchIDName
  | apply Pres.matchIDNameOpt | apply Pres.findElement | apply Pres.findElementWithModule | apply Pres.validateOne))

theorem Pres.validateExact (vals : List Addr) (tys : List String) : Pres R (validateExact (ν := ν) vals tys) := by
  unfold Model.validateExact; pres_tac
theorem Pres.validateAll (vals : List Addr) (ty : String) : Pres R (validateAll (ν := ν) vals ty) := by
  unfold Model.validateAll; pres_tac

theorem Pres.dup : ∀ (n : Nat) (a : Addr), Pres R (dup (ν := ν) n a)
  | 0, a => Pres.outOfFuel
  | n+1, a => by
    unfold Model.dup
    have ih : ∀ a, Pres R (Model.dup (ν := ν) n a) := Pres.dup n
    pres_tac <;> exact ih _

theorem Pres.display : ∀ (n : Nat) (a : Addr), Pres R (display (ν := ν) n a)
  | 0, a => Pres.outOfFuel
  | n+1, a => by
    unfold Model.display
    have ih : ∀ a, Pres R (Model.display (ν := ν) n a) := Pres.display n
    pres_tac <;> exact ih _

theorem Pres.compareXEQ : ∀ (n : Nat) (a b : Addr), Pres R (compareXEQ (ν := ν) n a b)
  | 0, a, b => Pres.outOfFuel
  | n+1, a, b => by
    unfold Model.compareXEQ
    have ih : ∀ a b, Pres R (Model.compareXEQ (ν := ν) n a b) := Pres.compareXEQ n
    pres_tac <;> exact ih _ _

macro_rules | `(tactic| pres_prim) => `(tactic| with_reducible (first
  | apply Pres.validateExact | apply Pres.validateAll | apply Pres.dup | apply Pres.display | apply Pres.compareXEQ))

theorem Pres.getProperty (n : Nat) (a : Addr) (name : String) : Pres R (getProperty (ν := ν) n a name) := by
  unfold Model.getProperty; pres_tac

theorem Pres.goContains (n : Nat) (x : Addr) : ∀ l : List Addr, Pres R (builtinMethod.goContains (ν := ν) n x l)
  | [] => by unfold builtinMethod.goContains; exact Pres.pure _
  | i :: rest => by
    unfold builtinMethod.goContains
    have ih := Pres.goContains n x rest
    pres_tac

theorem Pres.goFind (n : Nat) (x : Addr) : ∀ (l : List Addr) (k : Int), Pres R (builtinMethod.goFind (ν := ν) n x l k)
  | [], k => by unfold builtinMethod.goFind; exact Pres.pure _
  | i :: rest, k => by
    unfold builtinMethod.goFind
    have ih := Pres.goFind n x rest
    pres_tac
    exact ih _

theorem Pres.goGet : ∀ (l : List Addr) (cur : Addr), Pres R (builtinMethod.goGet (ν := ν) cur l)
  | [], cur => by unfold builtinMethod.goGet; exact Pres.pure _
  | k :: rest, cur => by
    unfold builtinMethod.goGet
    have ih : ∀ c, Pres R (builtinMethod.goGet (ν := ν) c rest) := Pres.goGet rest
    pres_tac
    exact ih _

theorem Pres.goArith (op : ν → ν → ν) (cz : Bool) : ∀ (l : List Addr) (acc : ν), Pres R (builtinMethod.goArith op cz acc l)
  | [], acc => by unfold builtinMethod.goArith; exact Pres.pure _
  | v :: rest, acc => by
    unfold builtinMethod.goArith
    have ih := Pres.goArith op cz rest
    pres_tac
    exact ih _

macro_rules | `(tactic| pres_prim) => `(tactic| with_reducible (first
  | apply Pres.getProperty | apply Pres.goContains | apply Pres.goFind | apply Pres.goGet
  | apply Pres.goArith))


end leaves

/-! ### the functions that overwrite heap cells — for relations that do not look at the heap (`Stable`) -/

section strongLeaves
variable {R : VM ν → VM ν → Prop} [Stable R] {α β : Type}

theorem Pres.setCell (a : Addr) (c : Cell ν) : Pres R (setCell a c) := by
  constructor; intro s; unfold Model.setCell; split
  · exact Stable.heap s _
  · exact PreRel.refl _

macro_rules | `(tactic| pres_prim) => `(tactic| with_reducible (apply Pres.setCell))

theorem Pres.setProperty (a : Addr) (name : String) (v : Addr) : Pres R (setProperty (ν := ν) a name v) := by
  unfold Model.setProperty; pres_tac

macro_rules | `(tactic| pres_prim) => `(tactic| with_reducible (apply Pres.setProperty))

theorem Pres.builtinMethod (n : Nat) (a : Addr) (name : String) (vals : List Addr) :
    Pres R (builtinMethod (ν := ν) n a name vals) := by
  unfold Model.builtinMethod
  pres_tac

theorem Pres.reduceLHS (iv : Nat × Addr × String × Int) (v : Addr) : Pres R (reduceLHS (ν := ν) iv v) := by
  obtain ⟨k, r, nm, i⟩ := iv
  simp only [Model.reduceLHS]
  pres_tac

theorem Pres.evalCtorDecl : ∀ (n : Nat) (st : Stmt), Pres R (evalCtorDecl (ν := ν) n st)
  | 0, st => Pres.outOfFuel
  | n+1, st => by cases st <;> rw [Model.evalCtorDecl] <;> pres_tac <;> contradiction

end strongLeaves


/-! ## the mutual block -/

/-- what `R` has to allow besides `Stable`: output, frame push (creates the module's scope), declaration,
assignment, and the scope bracket -/
class ScopePrims0 (R : VM ν → VM ν → Prop) : Prop extends Stable0 R where
  emit : ∀ l, Pres R (emit (ν := ν) l)
  pushFrame : ∀ fr, Pres R (pushFrame (ν := ν) fr)
  declareElement : ∀ name v c ext, Pres R (declareElement (ν := ν) name v c ext)
  setElement : ∀ name v, Pres R (setElement (ν := ν) name v)
  withScope : ∀ {α : Type} (body : M ν α), Pres R body → Pres R (withScope body)
  /-- the four places where an existing heap cell is overwritten (`setCell`) -/
  setProperty : ∀ a name v, Pres R (setProperty (ν := ν) a name v)
  builtinMethod : ∀ n a name vals, Pres R (builtinMethod (ν := ν) n a name vals)
  reduceLHS : ∀ iv v, Pres R (reduceLHS (ν := ν) iv v)
  evalCtorDecl : ∀ n st, Pres R (evalCtorDecl (ν := ν) n st)

/-- the same for relations that do not look at heap cells at all: the four `setCell` sites come for free -/
class ScopePrims (R : VM ν → VM ν → Prop) : Prop extends Stable R where
  emit : ∀ l, Pres R (emit (ν := ν) l)
  pushFrame : ∀ fr, Pres R (pushFrame (ν := ν) fr)
  declareElement : ∀ name v c ext, Pres R (declareElement (ν := ν) name v c ext)
  setElement : ∀ name v, Pres R (setElement (ν := ν) name v)
  withScope : ∀ {α : Type} (body : M ν α), Pres R body → Pres R (withScope body)

instance (R : VM ν → VM ν → Prop) [h : ScopePrims R] : ScopePrims0 R where
  refl := h.refl
  trans := h.trans
  alloc s c := h.heap s _
  stack := h.stack
  exports := h.exports
  emit := h.emit
  pushFrame := h.pushFrame
  declareElement := h.declareElement
  setElement := h.setElement
  withScope := h.withScope
  setProperty := Pres.setProperty
  builtinMethod := Pres.builtinMethod
  reduceLHS := Pres.reduceLHS
  evalCtorDecl := Pres.evalCtorDecl

structure AllPres (R : VM ν → VM ν → Prop) (n : Nat) : Prop where
  evalExpr : ∀ e, Pres R (evalExpr (ν := ν) n e)
  memberIV : ∀ e, Pres R (memberIV (ν := ν) n e)
  execFunction : ∀ f t ps, Pres R (execFunction (ν := ν) n f t ps)
  execDirectFunction : ∀ f ps, Pres R (execDirectFunction (ν := ν) n f ps)
  execMethodFunction : ∀ r f ps, Pres R (execMethodFunction (ν := ν) n r f ps)
  construct : ∀ c ps, Pres R (construct (ν := ν) n c ps)
  evalExecBlock : ∀ b ps, Pres R (evalExecBlock (ν := ν) n b ps)
  handleException : ∀ bm bd cs e, Pres R (handleException (ν := ν) n bm bd cs e)
  evalStmtBlock : ∀ b, Pres R (evalStmtBlock (ν := ν) n b)
  evalPureStmtBlock : ∀ b, Pres R (evalPureStmtBlock (ν := ν) n b)
  evalStmt : ∀ st, Pres R (evalStmt (ν := ν) n st)
  evalClassDecl : ∀ st, Pres R (evalClassDecl (ν := ν) n st)
  evalFuncDecl : ∀ st, Pres R (evalFuncDecl (ν := ν) n st)
  evalCtorDecl : ∀ st, Pres R (evalCtorDecl (ν := ν) n st)

section mutualBlock
variable {R : VM ν → VM ν → Prop} [ScopePrims0 R]

theorem Pres.stmtsLoop {evalOne : Stmt → M ν Addr} (h : ∀ st, Pres R (evalOne st)) :
    ∀ (l : List Stmt) (last : Option Addr), Pres R (stmtsLoop evalOne last l)
  | [], last => Pres.pure _
  | st :: rest, last => by
    unfold Model.stmtsLoop
    have ih := Pres.stmtsLoop h rest
    pres_tac
    all_goals first | exact h _ | exact ih _

theorem Pres.reduceRHS (n : Nat) (iv : Nat × Addr × String × Int) : Pres R (reduceRHS (ν := ν) n iv) := by
  obtain ⟨k, r, nm, i⟩ := iv
  simp only [Model.reduceRHS]
  pres_tac

macro_rules | `(tactic| pres_prim) => `(tactic| with_reducible (first
  | apply Pres.stmtsLoop | apply Pres.reduceRHS
  | apply ScopePrims0.emit | apply ScopePrims0.pushFrame | apply ScopePrims0.declareElement
  | apply ScopePrims0.setElement | apply ScopePrims0.withScope | apply ScopePrims0.setProperty
  | apply ScopePrims0.builtinMethod | apply ScopePrims0.reduceLHS | apply ScopePrims0.evalCtorDecl))

macro "pres_ih" ih:ident : tactic => `(tactic| repeat' (first
  | assumption
  | with_reducible exact AllPres.evalExpr $ih _ | with_reducible exact AllPres.memberIV $ih _ | with_reducible exact AllPres.execFunction $ih _ _ _
  | with_reducible exact AllPres.execDirectFunction $ih _ _ | with_reducible exact AllPres.execMethodFunction $ih _ _ _
  | with_reducible exact AllPres.construct $ih _ _ | with_reducible exact AllPres.evalExecBlock $ih _ _
  | with_reducible exact AllPres.handleException $ih _ _ _ _ | with_reducible exact AllPres.evalStmtBlock $ih _
  | with_reducible exact AllPres.evalPureStmtBlock $ih _ | with_reducible exact AllPres.evalStmt $ih _ | with_reducible exact AllPres.evalClassDecl $ih _
  | with_reducible exact AllPres.evalFuncDecl $ih _ | with_reducible exact AllPres.evalCtorDecl $ih _
  | pres_prim | intro _ | split | dsimp only))

end mutualBlock

end ZnVerif.Proofs.Balance
