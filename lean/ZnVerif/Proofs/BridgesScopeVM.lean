/-
Bridge (A) ↔ (B), symbol table, at the level the evaluator actually calls: `findElement`, `findElementWithModule`,
`declareElement`, `setElement`, `beginBoundScope` / `endBoundScope` of `Model/Interp.lean` against the wrappers of
pkg/runtime/vm.go modelled in `Model/Scope.lean` (`VMScope.findElement`, …).  Core Lean only.
-/
import ZnVerif.Proofs.BridgesScopeRun
import ZnVerif.Proofs.Calls

namespace ZnVerif.Proofs.Bridges
open ZnVerif ZnVerif.Model ZnVerif.Proofs.Scope ZnVerif.Proofs.Calls
open ZnVerif.SymTab (GoRes VMScope globalLookup)

set_option linter.unusedSectionVars false

variable {ν : Type} [NumOps ν]

/-- (B)'s `GoRes` read as an outcome of the evaluator monad: Go `error` by code = runtime error of that code -/
def ofGo {β : Type} : GoRes β → Model.Res β
  | .ok v => .ok v
  | .err c => .err (.rt c)
  | .panic => .panic

/-- the current module's scope on both sides: both absent (no frame pushed yet), or related with (B)'s invariant -/
def ScopeRel : Option Model.Scope → Option (SymTab.Scope Addr) → Prop
  | some sc, some σ => R sc σ ∧ ∃ d, Sim σ d
  | none, none => True
  | _, _ => False

/-- evaluator state `s` and VM view `vm`: same predefined names, same current module, related current scope -/
structure RV (s : VM ν) (vm : VMScope Addr) : Prop where
  globals : s.globals = vm.globals
  mid : s.csModuleID = (vm.moduleID : Int)
  scope : ScopeRel (getScope s.csModuleID s) vm.scope

theorem lookup_eq_globalLookup (name : String) : ∀ g : List (String × Addr), lookup name g = globalLookup g name
  | [] => rfl
  | (k, v) :: rest => by
    by_cases h : name = k
    · simp [lookup, globalLookup, h]
    · have h' : ¬ k = name := fun e => h e.symm
      simp only [lookup, globalLookup, h, h', if_false]
      exact lookup_eq_globalLookup name rest

/-- `vm.FindElement` -/
theorem vm_find {s : VM ν} {vm : VMScope Addr} (h : RV s vm) (name : String) :
    findElement name s = (ofGo (vm.findElement name), s) := by
  have hg := lookup_eq_globalLookup name s.globals
  rw [h.globals] at hg
  unfold findElement VMScope.findElement
  simp only [bind, getVM, currentScope, h.globals, hg]
  cases globalLookup vm.globals name with
  | some a => rfl
  | none =>
    simp only
    have hsc := h.scope
    cases hI : getScope s.csModuleID s with
    | none =>
      cases hB : vm.scope with
      | none => rfl
      | some σ => rw [hI, hB] at hsc; exact hsc.elim
    | some sc =>
      cases hB : vm.scope with
      | none => rw [hI, hB] at hsc; exact hsc.elim
      | some σ =>
        rw [hI, hB] at hsc
        obtain ⟨hR, d, hsim⟩ := hsc
        simp only [sim_find hR hsim.wf name]
        cases sc.find name <;> rfl

/-- `vm.FindElementWithModule`: value and the id of the module it belongs to -/
theorem vm_findM {s : VM ν} {vm : VMScope Addr} (h : RV s vm) (name : String) :
    findElementWithModule name s = (ofGo (vm.findElementWithModuleID name), s) := by
  have hg := lookup_eq_globalLookup name s.globals
  rw [h.globals] at hg
  unfold findElementWithModule VMScope.findElementWithModuleID
  simp only [bind, getVM, currentScope, h.globals, hg]
  cases globalLookup vm.globals name with
  | some a => rfl
  | none =>
    simp only
    have hsc := h.scope
    cases hI : getScope s.csModuleID s with
    | none =>
      cases hB : vm.scope with
      | none => rfl
      | some σ => rw [hI, hB] at hsc; exact hsc.elim
    | some sc =>
      cases hB : vm.scope with
      | none => rw [hI, hB] at hsc; exact hsc.elim
      | some σ =>
        rw [hI, hB] at hsc
        obtain ⟨hR, d, hsim⟩ := hsc
        simp only [sim_findM hR hsim.wf name]
        unfold findM
        cases hf : sc.find name with
        | none => rfl
        | some sy =>
          obtain ⟨nm, dp, cst, x, vl⟩ := sy
          cases x with
          | none => simp [symModule, h.mid, ofGo, pure]
          | some m => simp [symModule, h.mid, ofGo, pure]

/-- outcome of a state-changing wrapper: success with related states, or the same error code and (A) unchanged;
(B) never panics on related states -/
def RelVM (s : VM ν) (r : Model.Res Unit × VM ν) (g : GoRes (VMScope Addr)) : Prop :=
  match g with
  | .ok vm' => r.1 = .ok () ∧ RV r.2 vm'
  | .err c => r = (.err (.rt c), s)
  | .panic => False

theorem RV.put {s : VM ν} {vm : VMScope Addr} (h : RV s vm) {sc' : Model.Scope} {σ' : SymTab.Scope Addr}
    (hR : R sc' σ') {d : Nat} (hs : Sim σ' d) :
    RV (putScope s.csModuleID sc' s) { vm with scope := some σ' } := by
  refine ⟨?_, ?_, ?_⟩
  · rw [putScope_globals]; exact h.globals
  · rw [putScope_cs]; exact h.mid
  · rw [putScope_cs, getScope_putScope_same]; exact ⟨hR, d, hs⟩

/-- the shared shape of `DeclareElement` / `DeclareConstElement` / `DeclareExternalElement` / `SetElement` on a
running module: once the scope-level results are related, the wrappers' results are -/
def afterI (r : Except Err Model.Scope) : M ν Unit :=
  match r with
  | .error e => throwE e
  | .ok sc' => putCurrentScope sc'

def afterB (vm : VMScope Addr) (g : GoRes (SymTab.Scope Addr)) : GoRes (VMScope Addr) :=
  match g with
  | .ok sp' => .ok { vm with scope := some sp' }
  | .err c => .err c
  | .panic => .panic

theorem relVM_of_relRes {s : VM ν} {vm : VMScope Addr} (h : RV s vm)
    (r : Except Err Model.Scope) (g : GoRes (SymTab.Scope Addr)) (hr : RelRes r g)
    (hsim : ∀ σ', g = .ok σ' → ∃ d, Sim σ' d) :
    RelVM s (afterI r s) (afterB vm g) := by
  cases r with
  | ok sc' =>
    cases g with
    | ok σ' =>
      obtain ⟨d, hd⟩ := hsim σ' rfl
      exact ⟨rfl, h.put hr.1 hd⟩
    | err c => exact hr.elim
    | panic => exact hr.elim
  | error e =>
    cases g with
    | ok σ' => exact hr.elim
    | err c => have he : e = .rt c := hr; subst he; rfl
    | panic => exact hr.elim

/-- the same, for any two terms that are case by case `afterI` / `afterB` (Lean does not identify two stuck `match`es
compiled in different declarations, so the use sites discharge `hx`, `hy` by `cases … <;> rfl`) -/
theorem relVM_finish {s : VM ν} {vm : VMScope Addr} (h : RV s vm)
    {r : Except Err Model.Scope} {g : GoRes (SymTab.Scope Addr)} (hr : RelRes r g)
    (hsim : ∀ σ', g = .ok σ' → ∃ d, Sim σ' d) {x : Model.Res Unit × VM ν} {y : GoRes (VMScope Addr)}
    (hx : x = afterI r s) (hy : y = afterB vm g) : RelVM s x y := by
  rw [hx, hy]; exact relVM_of_relRes h r g hr hsim

/-- `vm.DeclareElement` (`c = false`) and `vm.DeclareConstElement` (`c = true`) -/
theorem vm_declare {s : VM ν} {vm : VMScope Addr} (h : RV s vm) (name : String) (v : Addr) (c : Bool) :
    RelVM s (declareElement name v c none s) (vm.declareWith name (·.declareValueC name v c)) := by
  have hg := lookup_eq_globalLookup name s.globals
  rw [h.globals] at hg
  unfold declareElement VMScope.declareWith
  simp only [bind, getVM, currentScope]
  have hsc := h.scope
  cases hI : getScope s.csModuleID s with
  | none =>
    cases hB : vm.scope with
    | none => rfl
    | some σ => rw [hI, hB] at hsc; exact hsc.elim
  | some sc =>
    cases hB : vm.scope with
    | none => rw [hI, hB] at hsc; exact hsc.elim
    | some σ =>
      rw [hI, hB] at hsc
      obtain ⟨hR, d, hsim⟩ := hsc
      simp only [h.globals, hg]
      cases globalLookup vm.globals name with
      | some a => rfl
      | none =>
        simp only
        refine relVM_finish h (sim_declare hR hsim.wf hsim.refs name v c) ?_
          (by cases sc.declare name v c none <;> rfl) (by cases σ.declareValueC name v c <;> rfl)
        intro σ' hσ'
        obtain ⟨σ₁, r₁, h1, h2, _⟩ := Proofs.Scope.sim_declare hsim name v c
        rw [hσ'] at h1
        simp only [SymTab.Scope.ofErr, GoRes.ok.injEq, Prod.mk.injEq] at h1
        exact ⟨d, h1.1 ▸ h2⟩

/-- `vm.DeclareExternalElement` at the top level of a module (the only place the parser allows an import) -/
theorem vm_declareExt {s : VM ν} {vm : VMScope Addr} (h : RV s vm) (name : String) (v : Addr) (m : Nat)
    (htop : ∀ σ, vm.scope = some σ → σ.currentDepth = 0) :
    RelVM s (declareElement name v true (some (m : Int)) s) (vm.declareExternalElement name v m) := by
  have hg := lookup_eq_globalLookup name s.globals
  rw [h.globals] at hg
  unfold declareElement VMScope.declareExternalElement VMScope.declareWith
  simp only [bind, getVM, currentScope]
  have hsc := h.scope
  cases hI : getScope s.csModuleID s with
  | none =>
    cases hB : vm.scope with
    | none => rfl
    | some σ => rw [hI, hB] at hsc; exact hsc.elim
  | some sc =>
    cases hB : vm.scope with
    | none => rw [hI, hB] at hsc; exact hsc.elim
    | some σ =>
      rw [hI, hB] at hsc
      obtain ⟨hR, d, hsim⟩ := hsc
      simp only [h.globals, hg]
      cases globalLookup vm.globals name with
      | some a => rfl
      | none =>
        simp only
        refine relVM_finish h (sim_declareExt hR hsim.wf name v m) ?_
          (by cases sc.declare name v true (some (m : Int)) <;> rfl) (by cases σ.declareExternalValue name v m <;> rfl)
        intro σ' hσ'
        have hd0 : d = 0 := by
          have h0 := htop σ hB
          have hd := hsim.depth
          omega
        obtain ⟨σ₁, r₁, h1, h2, _⟩ := Proofs.Scope.sim_declareExt hsim hd0 name v m
        rw [hσ'] at h1
        simp only [SymTab.Scope.ofErr, GoRes.ok.injEq, Prod.mk.injEq] at h1
        exact ⟨d, h1.1 ▸ h2⟩

/-- `vm.SetElement` -/
theorem vm_set {s : VM ν} {vm : VMScope Addr} (h : RV s vm) (name : String) (v : Addr) :
    RelVM s (setElement name v s) (vm.setElement name v) := by
  unfold setElement VMScope.setElement
  simp only [bind, currentScope]
  have hsc := h.scope
  cases hI : getScope s.csModuleID s with
  | none =>
    cases hB : vm.scope with
    | none => rfl
    | some σ => rw [hI, hB] at hsc; exact hsc.elim
  | some sc =>
    cases hB : vm.scope with
    | none => rw [hI, hB] at hsc; exact hsc.elim
    | some σ =>
      rw [hI, hB] at hsc
      obtain ⟨hR, d, hsim⟩ := hsc
      simp only
      refine relVM_finish h (sim_set hR hsim.wf name v) ?_
        (by cases sc.set name v <;> rfl) (by cases σ.setValue name v <;> rfl)
      intro σ' hσ'
      obtain ⟨σ₁, r₁, h1, h2, _⟩ := Proofs.Scope.sim_assign hsim name v
      rw [hσ'] at h1
      simp only [SymTab.Scope.ofErr, GoRes.ok.injEq, Prod.mk.injEq] at h1
      exact ⟨d, h1.1 ▸ h2⟩

/-- `vm.BeginBoundScope` (the evaluator's `BeginScope` on the current module) -/
theorem vm_begin {s : VM ν} {vm : VMScope Addr} (h : RV s vm) :
    ∃ hnd s', beginBoundScope s = (.ok hnd, s') ∧ RV s' vm.beginScope ∧
      (hnd = if vm.scope.isSome then some s.csModuleID else none) := by
  unfold beginBoundScope VMScope.beginScope
  have hsc := h.scope
  cases hI : getScope s.csModuleID s with
  | none =>
    cases hB : vm.scope with
    | none => exact ⟨none, s, rfl, ⟨h.globals, h.mid, by rw [hI, hB]; trivial⟩, rfl⟩
    | some σ => rw [hI, hB] at hsc; exact hsc.elim
  | some sc =>
    cases hB : vm.scope with
    | none => rw [hI, hB] at hsc; exact hsc.elim
    | some σ =>
      rw [hI, hB] at hsc
      obtain ⟨hR, d, hsim⟩ := hsc
      exact ⟨some s.csModuleID, _, rfl, h.put (sim_beginScope hR) (sim_begin hsim).1, rfl⟩

/-- the deferred `EndScope` of a block opened on the current module, below depth 0 excluded (the evaluator pairs every
`EndScope` with a `BeginScope`) -/
theorem vm_end {s : VM ν} {vm : VMScope Addr} (h : RV s vm)
    (hopen : ∀ σ, vm.scope = some σ → 0 < σ.currentDepth) :
    ∃ vm' s', vm.endScope = .ok vm' ∧ endBoundScope (some s.csModuleID) s = (.ok (), s') ∧ RV s' vm' := by
  unfold VMScope.endScope
  have hsc := h.scope
  cases hI : getScope s.csModuleID s with
  | none =>
    cases hB : vm.scope with
    | none =>
      exact ⟨vm, s, rfl, by simp only [endBoundScope, modifyVM, hI], ⟨h.globals, h.mid, by rw [hI, hB]; trivial⟩⟩
    | some σ => rw [hI, hB] at hsc; exact hsc.elim
  | some sc =>
    cases hB : vm.scope with
    | none => rw [hI, hB] at hsc; exact hsc.elim
    | some σ =>
      rw [hI, hB] at hsc
      obtain ⟨hR, d, hsim⟩ := hsc
      have hpos := hopen σ hB
      have hd := hsim.depth
      obtain ⟨d', rfl⟩ : ∃ d', d = d' + 1 := ⟨d - 1, by omega⟩
      obtain ⟨σ', he, hs', _⟩ := sim_end hsim
      obtain ⟨σ'', he', hR', _⟩ := sim_endScope hR hsim.wf
      rw [he] at he'
      cases he'
      exact ⟨{ vm with scope := some σ' }, putScope s.csModuleID sc.endScope s, by simp only [he],
        by simp only [endBoundScope, modifyVM, hI], h.put hR' hs'⟩

end ZnVerif.Proofs.Bridges
