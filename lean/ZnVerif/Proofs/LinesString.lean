/-
C18, line table — the string scanner `parseString` with the back-tick machine `unescapeBackTickSpecialStr`:
every line break inside a text literal is recorded (also right after a back-tick group: the back-tick machine stops
before a line break), for arbitrary contents — nested quotes, back-tick escapes, undocumented back-tick groups.
Invariant: `LinesInv.Good` (Proofs/LinesInv.lean).  Core Lean only.
-/
import ZnVerif.Proofs.LinesComment

namespace ZnVerif.Model
open ZnVerif.Generated ZnVerif.Generated.Tokens
open Spec.Lines

namespace LinesInv
variable {S : Array Nat}

/-- a character outside a class that contains CR and LF is no line break -/
theorem nb_of_pred_false (P : Nat → Bool) (h13 : P 0x0D = true) (h10 : P 0x0A = true) {c : Nat}
    (h : P c = false) : isBreak c = false := by
  cases hb : isBreak c with
  | false => rfl
  | true =>
    rcases isBreak_cases hb with e | e
    · rw [e, h13] at h; cases h
    · rw [e, h10] at h; cases h

theorem quote_nb {c : Nat} (h : isQuoteChar c = true) : isBreak c = false :=
  nb_of_pred isQuoteChar (by decide) (by decide) h

/-! ### the back-tick machine never consumes a line break -/

theorem unescConsume_snd (src : List Nat) (l : Lexer) (u : UState) : (unescConsume src l u).2 = l.adv := by
  unfold unescConsume
  dsimp only
  repeat' split
  all_goals rfl

theorem unescStep_frame1 (src : List Nat) (l : Lexer) (u : UState) : Frame 1 l (unescStep src l u).2 := by
  unfold unescStep
  dsimp only
  split
  · rename_i hq
    split
    · rename_i hc
      simp only [Bool.and_eq_true] at hc
      have h1 : Frame 1 l l.adv := Frame.adv1 (quote_nb hq)
      have h2 : Frame 1 l.adv l.adv.adv := Frame.adv1 (nb_of_eq (c := l.adv.peek) hc.2 (by decide))
      exact h1.trans h2
    · exact Frame.refl 1 l
  · split
    · exact Frame.refl 1 l
    · rename_i he
      rw [unescConsume_snd]
      exact Frame.adv1 (nb_of_pred_false endsBackTickText (by decide) (by decide) (by simpa using he))

theorem groupStep_frame1 (l : Lexer) (buf : List Nat) : Frame 1 l (groupStep l buf).2 := by
  unfold groupStep
  dsimp only
  split
  · exact Frame.refl 1 l
  · rename_i hg
    have : Frame 1 l l.adv :=
      Frame.adv1 (nb_of_pred_false isGroupStop (by decide) (by decide) (by simpa using hg))
    split <;> exact this

theorem unescapeBackTick_frame1 (l : Lexer) (src : List Nat) : Frame 1 l (unescapeBackTick l src).2 := by
  unfold unescapeBackTick
  have h1 := iterate_rel (step := unescStep src) (hc := unescStep_consumes src) (Frame 1)
    (fun _ _ _ => Frame.trans) (unescStep_frame1 src) l ⟨csBegin, 0, [l.cur]⟩
  dsimp only
  split
  · exact h1
  · unfold keepGroup
    split
    · exact h1.trans (iterate_rel (step := groupStep) (hc := groupStep_consumes) (Frame 1)
        (fun _ _ _ => Frame.trans) groupStep_frame1 _ _)
    · exact h1

/-! ### `parseString` -/

theorem parseStringStep_cont (sch s ty : Nat) (l : Lexer) (st st' : List Nat × Nat) (l' : Lexer) (g : Good S 1 l)
    (hs : parseStringStep sch s ty l st = (.cont st', l')) : Good S 1 l' := by
  unfold parseStringStep at hs
  dsimp only at hs
  split at hs
  · cases hs
  · split at hs
    · rename_i hbr
      rw [pair_eq] at hs
      cases hs
      exact g.break1 hbr _ rfl
    · rename_i hnb
      have g1 : Good S 1 l.adv := g.adv1 (nb_of_not' hnb)
      have gb : ∀ lit, Good S 1 (unescapeBackTick l.adv lit).2 := fun lit =>
        (unescapeBackTick_frame1 l.adv lit).good g1
      repeat' split at hs
      all_goals first | (cases hs; done) | (cases hs; exact g1) | (cases hs; exact gb _)

theorem parseStringStep_done (sch s ty : Nat) (l : Lexer) (st : List Nat × Nat) (tk : Token) (l' : Lexer)
    (g : Good S 1 l) (hs : parseStringStep sch s ty l st = (.done (.ok tk), l')) :
    Good S 0 l' ∧ tk.type = ty := by
  unfold parseStringStep at hs
  dsimp only at hs
  split at hs
  · cases hs
  · split at hs
    · cases hs
    · rename_i hnb
      have g1 : Good S 1 l.adv := g.adv1 (nb_of_not' hnb)
      repeat' split at hs
      all_goals first | (cases hs; done) | (cases hs; exact ⟨g1.adv, rfl⟩)

theorem parseStringLoop_good (sch s ty : Nat) (l : Lexer) (st : List Nat × Nat) (g : Good S 1 l)
    (tk : Token) (h : (parseStringLoop sch s ty l st).1 = .ok tk) :
    Good S 0 (parseStringLoop sch s ty l st).2 ∧ tk.type = ty := by
  unfold parseStringLoop at h ⊢
  exact iterate_inv (step := parseStringStep sch s ty) (hc := parseStringStep_consumes sch s ty)
    (I := fun l _ => Good S 1 l) (Q := fun r l' => ∀ tk, r = .ok tk → Good S 0 l' ∧ tk.type = ty)
    (fun l st st' l' g hs => parseStringStep_cont sch s ty l st st' l' g hs)
    (fun l st r l' g hs tk hr => by subst hr; exact parseStringStep_done sch s ty l st tk l' g hs) l st g tk h

theorem stringTokenType_ne_eof (c : Nat) : stringTokenType c ≠ cTypeEOF := by
  unfold stringTokenType
  split
  · decide
  · split <;> decide

/-- `parseString` at an opening quote: a text token, every line break of the literal recorded -/
theorem parseString_good (l : Lexer) (g : Good S 0 l) (h0 : isBreak l.cur = false) (tk : Token) (l' : Lexer)
    (h : parseString l = (.ok tk, l')) : Good S 0 l' ∧ tk.type ≠ cTypeEOF := by
  unfold parseString at h
  have := parseStringLoop_good l.cur l.cursor (stringTokenType l.cur) l ([], 1) (g.to1 h0) tk (by rw [h])
  rw [h] at this
  exact ⟨this.1, by rw [this.2]; exact stringTokenType_ne_eof _⟩

end LinesInv
end ZnVerif.Model
