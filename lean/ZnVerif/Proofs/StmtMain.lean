/-
Token-level round trip with layout, part 7: the induction over the rendering relation `LinN`, and the program.
-/
import ZnVerif.Proofs.StmtExtra

namespace ZnVerif.Proofs.StmtRT
open ZnVerif.Model ZnVerif.Model.Parser ZnVerif.Generated.Tokens ZnVerif.Generated.ParserTables
open ZnVerif.Spec.StmtSyntax

variable {Y : Layout} {v : Variant}

/-- token types a body can start with -/
def execHeads : List Nat := cTypeInputW :: cTypeCatchErrorW :: stmtHeads

theorem execHeads_spec : ∀ ty ∈ execHeads, ty ≠ cTypeEOF ∧ ty ≠ cTypeCommaSep ∧ ty ≠ cTypeImportW ∧ ty ≠ cTypeComment := by decide

/-- what the induction carries for each kind of node: where a rendering starts, and what its production does on it -/
def NodeClaim (v : Variant) (Y : Layout) (d : Nat) : Node → List Token → Prop
  | .stmt s, ts => StmtFacts Y ts ∧ CStmt v Y d s ts
  | .block ss, ts => (ss ≠ [] → ts ≠ []) ∧ Heads Y d stmtHeads ts ∧ CBlockA v Y d ss ts ∧ CBlockB v Y d ss ts
  | .btail os he eb, ts => Heads Y d condKeywords ts ∧ CTail v Y d os he eb ts
  | .handlers cs, ts => Heads Y d [cTypeCatchErrorW] ts ∧ CHandlers v Y d cs ts
  | .exec x, ts => ts ≠ [] ∧ ((Y.peek ts).type ∈ execHeads ∧ Y.ind (Y.peek ts) = d) ∧ CExec v Y d x ts
  | .members ps ms gs, ts => Heads Y d classChildTypes ts ∧ CMembers v Y d ps ms gs ts

theorem exec_hpx {d : Nat} {tx : List Token} (h : (Y.peek tx).type ∈ execHeads ∧ Y.ind (Y.peek tx) = d) :
    (Y.peek tx).type ≠ cTypeEOF ∧ Y.ind (Y.peek tx) = d := ⟨(execHeads_spec _ h.1).1, h.2⟩

theorem linN_claim {d : Nat} {nd : Node} {ts : List Token} (h : LinN Y d nd ts) : NodeClaim v Y d nd ts := by
  induction h with
  | simple d s ts hs => exact ⟨(linSimple_claim (v := v) hs).1, (linSimple_claim hs).2.toCStmt⟩
  | declBlockStmt d kw colon ps tp hk hcol hg hind hne hp =>
    exact ⟨kwFacts (by rw [hk]; decide), stmt_declBlock hk hcol hg hind hne hp⟩
  | whileStmt d kw colon c tc b tb hk hc hcol hg hind hbne _ ih =>
    exact ⟨kwFacts (by rw [hk]; decide), stmt_while hk hc hcol hg hind (ih.1 hbne) ih.2.1 ih.2.2.1⟩
  | iter0Stmt d kw colon e te b tb hk he hcol hg hind hbne _ ih =>
    exact ⟨kwFacts (by rw [hk]; decide), stmt_iter0 hk he hcol hg hind (ih.1 hbne) ih.2.1 ih.2.2.1⟩
  | iter1Stmt d kw a it colon e te b tb hk ha hit he hcol hg hind hbne _ ih =>
    exact ⟨kwFacts (by rw [hk]; decide), stmt_iter1 hk ha hit he hcol hg hind (ih.1 hbne) ih.2.1 ih.2.2.1⟩
  | iter2Stmt d kw a p a2 it colon e te b tb hk ha hp ha2 hit he hcol hg hind hbne _ ih =>
    exact ⟨kwFacts (by rw [hk]; decide), stmt_iter2 hk ha hp ha2 hit he hcol hg hind (ih.1 hbne) ih.2.1 ih.2.2.1⟩
  | branchStmt d kw colon c tc b tb os he eb tt hk hc hcol hg hik hind hbne _ _ hsep ihb iht =>
    exact ⟨kwFacts (by rw [hk]; decide),
      stmt_branch hk hc hcol hg hik hind (ihb.1 hbne) ihb.2.1 ihb.2.2.1 iht.2 iht.1 hsep⟩
  | tailNil d => exact ⟨heads_nil d _, tail_nil d⟩
  | tailElse d kw colon b tb hk hcol hg hik hind hbne _ ih =>
    exact ⟨fun _ => ⟨by show kw.type ∈ _; rw [hk]; decide, hik⟩, tail_else hk hcol hg hik hind (ih.1 hbne) ih.2.1 ih.2.2.1⟩
  | tailOther d kw colon c tc b tb os he eb tt hk hc hcol hg hik hind hbne _ _ hsep ihb iht =>
    exact ⟨fun _ => ⟨by show kw.type ∈ _; rw [hk]; decide, hik⟩,
      tail_other hk hc hcol hg hik hind (ihb.1 hbne) ihb.2.1 ihb.2.2.1 iht.2 iht.1 hsep⟩
  | blockNil d => exact ⟨fun h => absurd rfl h, heads_nil d _, blockA_nil d, blockB_nil d⟩
  | blockCons d s ss t1 t2 _ hind _ hsep ihs ihb =>
    refine ⟨fun _ => by simp [ihs.1.ne], fun _ => ?_, blockA_cons ihs.2 ihs.1 hind ihb.2.2.1 ihb.2.1 hsep,
      blockB_cons ihs.2 ihs.1 hind ihb.2.2.2 ihb.2.1 hsep⟩
    rw [peek_append ihs.1.ne]
    exact ⟨ihs.1.head, hind⟩
  | blockConsSemi d s ss t1 t2 hs hind _ h2 hsemi ihb =>
    have hc := linSimple_claim (v := v) hs
    refine ⟨fun _ => by simp [hc.1.ne], fun _ => ?_, blockA_consSemi hc.2 hc.1 hind ihb.2.2.1 h2 hsemi,
      blockB_consSemi hc.2 hc.1 hind ihb.2.2.2 h2 hsemi⟩
    rw [peek_append hc.1.ne]
    exact ⟨hc.1.head, hind⟩
  | blockEmpty d semi ss t2 hs hind _ ihb =>
    exact ⟨fun _ => by simp, fun _ => ⟨by show semi.type ∈ _; rw [hs]; decide, hind⟩, blockA_empty hs hind ihb.2.2.1,
      blockB_empty hs hind ihb.2.2.2⟩
  | funcStmt d kw name q x tx hk hname hq hg hind _ ih =>
    exact ⟨kwFacts (by rw [hk]; decide), stmt_func hk hname hq hg hind ih.1 (exec_hpx ih.2.1) ih.2.2⟩
  | ctorStmt d kw nw name q x tx hk hnw hname hq hg hind _ ih =>
    exact ⟨kwFacts (by rw [hk]; decide), stmt_ctor hk hnw hname hq hg hind ih.1 (exec_hpx ih.2.1) ih.2.2⟩
  | classStmt d kw name colon ps ms gs tm hk hname hcol hg hind hne _ ih =>
    exact ⟨kwFacts (by rw [hk]; decide), stmt_class hk hname hcol hg hind hne ih.2 ih.1⟩
  | execPlain d body tb cs tc _ _ hsep hne ihb ihc =>
    have hh := body_head ihb.2.1 ihc.1 hne
    exact ⟨hne, ⟨List.mem_cons_of_mem _ hh.1, hh.2⟩, exec_plain ihb.2.2.2 ihb.2.1 ihc.2 ihc.1 hsep hne⟩
  | execInput d kw ids ti body tb cs tc hk hi hg hik _ _ hsep0 hsep hne ihb ihc =>
    exact ⟨by simp, ⟨by show kw.type ∈ _; rw [hk]; decide, hik⟩,
      exec_input hk hi hg hik ihb.2.2.2 ihb.2.1 ihc.2 ihc.1 hsep0 hsep hne⟩
  | handNil d => exact ⟨heads_nil d _, hand_nil d⟩
  | handCons d kw cls colon b tb cs tc hk hcls hcol hg hik hind hbne _ _ hsep ihb ihc =>
    exact ⟨fun _ => ⟨by show kw.type ∈ _; rw [hk]; decide, hik⟩,
      hand_cons hk hcls hcol hg hik hind (ihb.1 hbne) ihb.2.1 ihb.2.2.1 ihc.2 ihc.1 hsep⟩
  | memNil d => exact ⟨heads_nil d _, mem_nil d⟩
  | memProp d kw name asg e te ps ms gs tm hk hname hasg he hg hik _ hsep ih =>
    exact ⟨fun _ => ⟨by show kw.type ∈ _; rw [hk]; decide, hik⟩, mem_prop hk hname hasg he hg hik ih.2 ih.1 hsep⟩
  | memMethod d kw name q x tx ps ms gs tm hk hname hq hg hik hind _ _ hsep ihx ihm =>
    exact ⟨fun _ => ⟨by show kw.type ∈ _; rw [hk]; decide, hik⟩,
      mem_method hk hname hq hg hik hind ihx.1 (exec_hpx ihx.2.1) ihx.2.2 ihm.2 ihm.1 hsep⟩
  | memGetter d kw name q x tx ps ms gs tm hk hname hq hg hik hind _ _ hsep ihx ihm =>
    exact ⟨fun _ => ⟨by show kw.type ∈ _; rw [hk]; decide, hik⟩,
      mem_getter hk hname hq hg hik hind ihx.1 (exec_hpx ihx.2.1) ihx.2.2 ihm.2 ihm.1 hsep⟩

-- ---- the program ----------------------------------------------------------------------------------------------------------

theorem initState_S (n : Nat) (ts : List Token) (ho : Y.InOrder ts) :
    initState (layoutOps Y) (n + 1) ts = .ok () (S Y none ts false) := by
  unfold initState
  rw [fetch_tok n ts (inOrder_peek_nc ho)]
  rfl

theorem afterB_eof {d : Nat} {ts : List Token} (hne : ts ≠ []) : AfterB Y d ts.getLast? [] := by
  obtain ⟨t, ht⟩ := getLast?_isSome hne
  refine ⟨?_, by show cTypeEOF ≠ cTypeCommaSep; decide, Or.inl rfl⟩
  rw [ht]
  exact brk_eof t _ rfl

/-- fuel that suffices for a program of this many tokens -/
def fP (ts : List Token) : Nat := 16 * ts.length + 52

/-- `ParseProgram`'s loop from the first token of the body on (the imports are in) -/
theorem programLoop_exec {d : Nat} {x : ExecBlock} {tx : List Token} (hx : LinN Y d (.exec x) tx) (p1 : Option Token)
    (fl : Bool) (ims : List Import) (ho : Y.InOrder tx) (m : Nat) (hm : fE tx ≤ m + 1) :
    parse v (layoutOps Y) (m + 3) (.programLoop d false ims none) (S Y p1 tx fl) =
      .ok { imports := ims, exec := some x } (S Y tx.getLast? [] true) := by
  obtain ⟨hne, hhd, hX⟩ := linN_claim (v := v) hx
  have hhs := execHeads_spec _ hhd.1
  have hbc : ∀ fl, blockCond (layoutOps Y) d (S Y p1 tx fl) = true := fun fl => blockCond_true d p1 tx fl hhs.1 hhd.2
  have hexec := hX p1 [] (by simpa using ho) (afterB_eof hne) (m + 1) hm
  rw [List.append_nil] at hexec
  have hend : blockCond (layoutOps Y) d (S Y tx.getLast? [] true) = false := blockCond_false d _ [] true (Or.inl rfl)
  have hpl2 : parse v (layoutOps Y) (m + 2) (.programLoop d true ims none) (S Y p1 tx false) =
      .ok { imports := ims, exec := some x } (S Y tx.getLast? [] true) := by
    show pProgramLoop (layoutOps Y) (m + 1) _ d true ims none _ = _
    unfold pProgramLoop
    rw [bind_ok (getS_S _)]
    simp only [hbc, if_true]
    rw [bind_ok (unsetFlag_S p1 tx false)]
    show (parse v (layoutOps Y) (m + 1) (.execBlock d) >>= _) _ = _
    rw [bind_ok hexec]
    show pProgramLoop (layoutOps Y) m _ d true ims (some x) _ = _
    unfold pProgramLoop
    rw [bind_ok (getS_S _)]
    simp only [hend, Bool.false_eq_true, if_false]
    rfl
  show pProgramLoop (layoutOps Y) (m + 2) _ d false ims none _ = _
  unfold pProgramLoop
  rw [bind_ok (getS_S _)]
  simp only [hbc, if_true]
  rw [bind_ok (unsetFlag_S p1 tx fl)]
  simp only [Bool.false_eq_true, if_false]
  rw [bind_ok (tryConsume_miss (m + 2) _ p1 tx false (Or.inr (by simpa using hhs.2.2.1)) hhs.2.1)]
  exact hpl2

theorem execHeads_afterImport : ∀ ty ∈ execHeads, ty ∈ afterImport := by decide

theorem program_roundtrip {p : Program} {ts : List Token} (h : LinProgram Y p ts) (ho : Y.InOrder ts) (n : Nat)
    (hn : fP ts ≤ n) : parseLaidOut v Y n ts = .tree p := by
  obtain ⟨m, rfl⟩ : ∃ m, n = m + 4 := ⟨n - 4, by unfold fP at hn; omega⟩
  unfold parseLaidOut parseAST
  rw [initState_S (m + 3) ts ho]
  dsimp only
  cases h with
  | empty =>
    have hprog : parse v (layoutOps Y) (m + 4) .program (S Y none [] false) =
        .ok { imports := [], exec := none } (S Y none [] false) := by
      show pProgram (layoutOps Y) _ _ = _
      unfold pProgram
      rw [bind_ok (getS_S _)]
      show pProgramLoop (layoutOps Y) (m + 2) _ _ false [] none _ = _
      unfold pProgramLoop
      rw [bind_ok (getS_S _)]
      have : blockCond (layoutOps Y) (peekIndentOf (layoutOps Y) (S Y none [] false)) (S Y none [] false) = false :=
        blockCond_false _ none [] false (Or.inl rfl)
      simp only [this, Bool.false_eq_true, if_false]
      rfl
    rw [hprog]
    rfl
  | body d x ts hx =>
    obtain ⟨hne, hhd, hX⟩ := linN_claim (v := v) hx
    have hprog : parse v (layoutOps Y) (m + 4) .program (S Y none ts false) =
        .ok { imports := [], exec := some x } (S Y ts.getLast? [] true) := by
      show pProgram (layoutOps Y) _ _ = _
      unfold pProgram
      rw [bind_ok (getS_S _), peekIndentOf_S, hhd.2]
      exact programLoop_exec hx none false [] ho m (by unfold fP at hn; unfold fE; omega)
    rw [hprog]
    rfl
  | importsOnly d ims _ hne hi =>
    have hh := linImports_heads hi hne
    have hcont : Stable v Y (.programLoop d false ([] ++ ims) none) (S Y (lastTok none ts) [] (exitI Y false ts []))
        (.ok { imports := ims, exec := none } (S Y (lastTok none ts) [] (exitI Y false ts []))) 1 := by
      intro n' hn'
      obtain ⟨k, rfl⟩ : ∃ k, n' = k + 1 := ⟨n' - 1, by omega⟩
      show pProgramLoop (layoutOps Y) k _ d false ([] ++ ims) none _ = _
      unfold pProgramLoop
      rw [bind_ok (getS_S _)]
      have : blockCond (layoutOps Y) d (S Y (lastTok none ts) [] (exitI Y false ts [])) = false :=
        blockCond_false d _ [] _ (Or.inl rfl)
      simp only [this, Bool.false_eq_true, if_false]
      rfl
    have hloop := imports_roundtrip (v := v) hi none [] false [] _ 1 (by simpa using ho) (by show cTypeEOF ∈ afterImport; decide)
      (fun h => absurd (show cTypeEOF = cTypeStmtSep from h) (by decide)) hcont
      (m + 3) (by unfold fP at hn; omega)
    rw [List.append_nil] at hloop
    have hprog : parse v (layoutOps Y) (m + 4) .program (S Y none ts false) =
        .ok { imports := ims, exec := none } (S Y (lastTok none ts) [] (exitI Y false ts [])) := by
      show pProgram (layoutOps Y) _ _ = _
      unfold pProgram
      rw [bind_ok (getS_S _), peekIndentOf_S, hh.2]
      exact hloop
    rw [hprog]
    rfl
  | importsBody d ims ti x tx hne hi hx hsemi =>
    have hh := linImports_heads hi hne
    obtain ⟨hxne, hhd, _⟩ := linN_claim (v := v) hx
    have hlen : fE tx ≤ m + 1 - 16 * ti.length ∧ 16 * ti.length ≤ m := by
      unfold fP at hn; unfold fE; simp only [List.length_append] at hn; omega
    have hcont : Stable v Y (.programLoop d false ([] ++ ims) none) (S Y (lastTok none ti) tx (exitI Y false ti tx))
        (.ok { imports := ims, exec := some x } (S Y tx.getLast? [] true)) (fE tx + 2) := by
      intro n' hn'
      obtain ⟨k, rfl⟩ : ∃ k, n' = k + 3 := ⟨n' - 3, by unfold fE at hn'; omega⟩
      exact programLoop_exec hx _ _ ims (inOrder_drop ti ho) k (by omega)
    have hloop := imports_roundtrip (v := v) hi none tx false [] _ (fE tx + 2) ho
      (by rw [← peek_append hxne []]; simpa using execHeads_afterImport _ hhd.1)
      (by rw [lastTok_ne none hne]; exact hsemi) hcont (m + 3) (by omega)
    have hpk : Y.peek (ti ++ tx) = Y.peek ti := peek_append hne tx
    have hprog : parse v (layoutOps Y) (m + 4) .program (S Y none (ti ++ tx) false) =
        .ok { imports := ims, exec := some x } (S Y tx.getLast? [] true) := by
      show pProgram (layoutOps Y) _ _ = _
      unfold pProgram
      rw [bind_ok (getS_S _), peekIndentOf_S, hpk, hh.2]
      exact hloop
    rw [hprog]
    rfl

/-- the one-line token lexer of Model/Parser.lean is the layout of one line without indentation -/
def oneLine : Layout := { lines := #[{ indents := 0, startIdx := 0 }], eofIdx := 0, ne := by decide }

theorem tokenOps_eq : tokenOps = layoutOps oneLine := rfl

end ZnVerif.Proofs.StmtRT
