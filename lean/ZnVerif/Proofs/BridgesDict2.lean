/-
Bridge (A) ↔ (C), dictionaries, the evaluator's operations: 读取 写入 移除 (`builtinMethod`), 长度/数目 所有索引 所有值
(`getProperty`), `D#k` / `D#k = v` (`reduceRHS` / `reduceLHS` with kind 2) on a heap cell `.hm vals order`, against
`Model/Containers.lean` on any related `HashMap` (`Rhm`, see `BridgesDict.lean`).
-/
import ZnVerif.Proofs.BridgesDict
import ZnVerif.Proofs.BridgesList
set_option linter.unusedSectionVars false
set_option linter.unusedVariables false

namespace ZnVerif.Proofs.Bridges
open ZnVerif ZnVerif.Model
open ZnVerif.Model.Containers (HashMap mapGet appendKVPair hmDelete)
open ZnVerif.Proofs.Containers (Inv)

variable {ν : Type} [NumOps ν]

/-- lookup of `k` in the value at address `v`, as the 读取 chain does it: only a dictionary cell has keys -/
def subOf (s : VM ν) (v : Addr) (k : String) : Option Addr :=
  match s.heap[v]? with
  | some (.hm cv _) => lookup k cv
  | _ => none

/-- the answer of 读取: the receiver itself (no key), the value found, or a new 空 -/
def answerGet (a : Addr) : Containers.GetRes Addr → M ν Addr
  | .self => pure a
  | .val v => pure v
  | .null => newNull

/-- every value stored in a dictionary cell is an allocated address (part of the evaluator's heap invariant) -/
def DictClosed (s : VM ν) : Prop :=
  ∀ (v : Addr) (cv : List (String × Addr)) (co : List String), s.heap[v]? = some (Cell.hm cv co) →
    ∀ (k : String) (x : Addr), lookup k cv = some x → x < s.heap.size

/-- argument cells holding the key texts -/
abbrev KeysAt (s : VM ν) : List Addr → List String → Prop :=
  Forall2 (fun k key => s.heap[k]? = some (.str key))

theorem validateAll_keys {s : VM ν} : ∀ {ks keys}, KeysAt s ks keys → validateAll ks "string" s = (.ok (), s)
  | _, _, .nil => rfl
  | k :: ks, _ :: _, .cons hk rest => by
    have ih := validateAll_keys rest
    unfold validateAll at ih ⊢
    show (do validateOne k "string"; ks.forM fun a => validateOne a "string") s = _
    simp only [bind, validateOne_string hk]
    exact ih

/-- the 读取 chain below the receiver -/
theorem goGet_chain {s : VM ν} (a : Addr) (hcl : DictClosed s) : ∀ {ks keys}, KeysAt s ks keys →
    ∀ cur, cur < s.heap.size →
      builtinMethod.goGet cur ks s = answerGet a (Containers.chainRest (subOf s) cur keys) s
  | _, _, .nil, cur, _ => rfl
  | k :: ks, key :: keys, .cons hk rest, cur, hcur => by
    unfold builtinMethod.goGet
    simp only [bind, getCell, hk, Containers.chainRest]
    have : ∃ c, s.heap[cur]? = some c := ⟨s.heap[cur], by simp [hcur]⟩
    obtain ⟨c, hc⟩ := this
    rw [hc]
    have hnone : (∀ cv co, c ≠ .hm cv co) → subOf s cur key = none := by
      intro hne
      unfold subOf; rw [hc]
      cases c <;> first | rfl | exact absurd rfl (hne _ _)
    cases c with
    | hm cv co =>
      have hsub : subOf s cur key = lookup key cv := by unfold subOf; rw [hc]
      simp only
      rw [hsub]
      cases hl : lookup key cv with
      | none => rfl
      | some v => exact goGet_chain a hcl rest v (hcl cur cv co hc key v hl)
    | num x => rw [hnone (by intro _ _ e; cases e)]; rfl
    | str x => rw [hnone (by intro _ _ e; cases e)]; rfl
    | bool x => rw [hnone (by intro _ _ e; cases e)]; rfl
    | null => rw [hnone (by intro _ _ e; cases e)]; rfl
    | arr x => rw [hnone (by intro _ _ e; cases e)]; rfl
    | obj x y => rw [hnone (by intro _ _ e; cases e)]; rfl
    | fn x => rw [hnone (by intro _ _ e; cases e)]; rfl
    | cls x y z w => rw [hnone (by intro _ _ e; cases e)]; rfl
    | exc x => rw [hnone (by intro _ _ e; cases e)]; rfl

section ops
variable (n : Nat) (a : Addr) (vals : List (String × Addr)) (order : List String) (s : VM ν)

/-- 读取 with its key chain -/
theorem bm_hm_get {hm : HashMap Addr} (hR : Rhm vals order hm) (ks : List Addr) (keys : List String)
    (hc : s.heap[a]? = some (.hm vals order)) (hks : KeysAt s ks keys) (hcl : DictClosed s) :
    builtinMethod n a "读取" ks s = answerGet a (Containers.hmGet (subOf s) hm keys) s := by
  unfold builtinMethod
  simp only [bind, getCell, hc, validateAll_keys hks]
  cases hks with
  | nil => rfl
  | cons hk rest =>
    rename_i k key ks' keys'
    unfold builtinMethod.goGet
    simp only [bind, getCell, hk, hc, Containers.hmGet, ← hR.get]
    cases hl : lookup key vals with
    | none => rfl
    | some v => exact goGet_chain a hcl rest v (hcl a vals order hc key v hl)

/-- 写入, all outcomes: validate, copy the value, `hmAppend`, store, answer the (uncopied) argument -/
theorem bm_hm_set (k v : Addr) (key : String) (hc : s.heap[a]? = some (.hm vals order))
    (hk : s.heap[k]? = some (.str key)) :
    builtinMethod n a "写入" [k, v] s =
      (do validateExact [k, v] ["string", "any"]
          let v' ← dup n v
          setCell a (.hm (hmAppend vals order key v').1 (hmAppend vals order key v').2)
          pure v) s := by
  obtain ⟨r, hv⟩ := validateExact_run [k, v] ["string", "any"] s
  unfold builtinMethod
  simp only [bind, getCell, hc, hv]
  cases r with
  | ok u => simp only [hk]
  | err e => rfl
  | panic => rfl
  | fuel => rfl
  | unmodelled => rfl

/-- 写入, a successful run, explicitly: the copy `v'` was made, then `hmAppend` on the old contents was stored -/
theorem bm_hm_set_ok' (k v : Addr) (key : String) (r : Addr) (s' : VM ν)
    (hc : s.heap[a]? = some (.hm vals order)) (hk : s.heap[k]? = some (.str key))
    (h : builtinMethod n a "写入" [k, v] s = (.ok r, s')) :
    ∃ v' s1, dup n v s = (.ok v', s1) ∧ a < s1.heap.size ∧
      s' = { s1 with heap := s1.heap.set! a (.hm (hmAppend vals order key v').1 (hmAppend vals order key v').2) } ∧
      r = v := by
  obtain ⟨rv, hv⟩ := validateExact_run [k, v] ["string", "any"] s
  rw [bm_hm_set n a vals order s k v key hc hk] at h
  simp only [bind, hv] at h
  cases rv with
  | ok u =>
    simp only at h
    cases hd : dup n v s with
    | mk rd s1 =>
      rw [hd] at h
      cases rd with
      | ok v' =>
        simp only at h
        cases hs : setCell a (.hm (hmAppend vals order key v').1 (hmAppend vals order key v').2) s1 with
        | mk rs s2 =>
          rw [hs] at h
          cases rs with
          | ok u2 =>
            obtain ⟨hlt, rfl⟩ := setCell_ok_inv hs
            simp only [pure] at h
            injection h with h1 h2; injection h1 with h1
            exact ⟨v', s1, rfl, hlt, h2.symm, h1.symm⟩
          | err e => simp at h
          | panic => simp at h
          | fuel => simp at h
          | unmodelled => simp at h
      | err e => simp at h
      | panic => simp at h
      | fuel => simp at h
      | unmodelled => simp at h
  | err e => simp at h
  | panic => simp at h
  | fuel => simp at h
  | unmodelled => simp at h

/-- 写入, a successful run: the stored pair is (key, copy of the argument), the new cell is related to
`Containers.hmSet` on the copy, the answer is the argument -/
theorem bm_hm_set_ok {hm : HashMap Addr} (hR : Rhm vals order hm) (k v : Addr) (key : String) (r : Addr) (s' : VM ν)
    (hc : s.heap[a]? = some (.hm vals order)) (hk : s.heap[k]? = some (.str key))
    (h : builtinMethod n a "写入" [k, v] s = (.ok r, s')) :
    ∃ v' s1 vals' order', dup n v s = (.ok v', s1) ∧ a < s1.heap.size ∧
      s' = { s1 with heap := s1.heap.set! a (.hm vals' order') } ∧
      Rhm vals' order' (Containers.hmSet hm key v').1 ∧ r = (Containers.hmSet hm key v).2 ∧
      (dictWF vals order → dictWF vals' order') := by
  obtain ⟨v', s1, hd, hlt, hs', hr⟩ := bm_hm_set_ok' n a vals order s k v key r s' hc hk h
  exact ⟨v', s1, _, _, hd, hlt, hs', hmAppend_bridge hR key v', hr, hmAppend_wf key v'⟩

/-- 移除: what (C)'s `hmDelete` answers on a related `HashMap` decides the evaluator's run: a present key is removed
(same value answered, the new cell related to (C)'s new map, invariant kept), an absent key answers a new 空 and
changes nothing; (C) does not panic here -/
theorem bm_hm_delete {hm : HashMap Addr} (hR : Rhm vals order hm) (hwf : dictWF vals order) (k : Addr) (key : String)
    (hc : s.heap[a]? = some (.hm vals order)) (hk : s.heap[k]? = some (.str key)) :
    match hmDelete hm key with
    | .ok (some v, hm') => ∃ vals' order',
        builtinMethod n a "移除" [k] s = (.ok v, { s with heap := s.heap.set! a (.hm vals' order') }) ∧
        Rhm vals' order' hm' ∧ dictWF vals' order'
    | .ok (none, hm') => hm' = hm ∧ builtinMethod n a "移除" [k] s = newNull s
    | _ => False := by
  have hlt := lt_size_of_getElem? hc
  have hv : validateExact [k] ["string"] s = (.ok (), s) := by
    simp [validateExact, bind, validateOne_string hk, pure]
  have hkeys : (vals.map Prod.fst).Nodup := by rw [hwf.1]; exact hwf.2
  have hnd : hm.keyOrder.Nodup := by rw [← hR.order]; exact hwf.2
  cases hl : lookup key vals with
  | none =>
    rw [erase_absent_bridge hR key hl]
    refine ⟨rfl, ?_⟩
    unfold builtinMethod
    simp only [bind, getCell, hc, hv, hk, hl]
  | some v =>
    obtain ⟨hm', hd, hR'⟩ := erase_bridge hR hkeys hnd key v hl
    rw [hd]
    refine ⟨_, _, ?_, hR', erase_wf key hwf⟩
    unfold builtinMethod
    simp only [bind, getCell, hc, hv, hk, hl, setCell, hlt, if_true, pure]

/-- a name that is no dictionary method: MethodNotFound (46) -/
theorem bm_hm_unknown (name : String) (args : List Addr) (hc : s.heap[a]? = some (.hm vals order))
    (hn : name ∉ ["读取", "写入", "移除"]) :
    builtinMethod n a name args s = (.err (.rt 46), s) := by
  simp only [List.mem_cons, List.not_mem_nil, or_false, not_or] at hn
  obtain ⟨h1, h2, h3⟩ := hn
  unfold builtinMethod
  simp only [bind, getCell, hc]
  rfl

/-- 写入 / 移除 with a wrong number of arguments: UnexpectedParamNum (53) -/
theorem bm_hm_param_count (name : String) (k : Nat) (args : List Addr) (hc : s.heap[a]? = some (.hm vals order))
    (hname : (name, k) ∈ [("写入", 2), ("移除", 1)]) (hlen : args.length ≠ k) :
    builtinMethod n a name args s = (.err (.rt 53), s) := by
  have vlen : ∀ tys : List String, args.length ≠ tys.length → validateExact args tys s = (.err (.rt 53), s) := by
    intro tys h
    unfold validateExact
    simp only [h, ne_eq, not_false_eq_true, if_true]
    rfl
  simp only [List.mem_cons, Prod.mk.injEq, List.not_mem_nil, or_false] at hname
  unfold builtinMethod
  rcases hname with ⟨rfl, rfl⟩ | ⟨rfl, rfl⟩ <;>
    simp (disch := simpa using hlen) only [bind, getCell, hc, vlen]

/-! ### properties -/

/-- 长度 / 数目: the evaluator counts the association list, (C) the Go map — equal under the invariants -/
theorem gp_hm_length {hm : HashMap Addr} (hR : Rhm vals order hm) (hwf : dictWF vals order) (hinv : Inv hm)
    (name : String) (hname : name = "长度" ∨ name = "数目") (hc : s.heap[a]? = some (.hm vals order)) :
    getProperty n a name s = newNum (NumOps.ofInt (Containers.hmLength hm)) s := by
  have hlen : vals.length = Containers.hmLength hm := by
    have h1 : vals.length = order.length := by rw [← hwf.1, List.length_map]
    have h2 : Containers.hmLength hm = hm.keyOrder.length := by
      have hl := ZnVerif.Proofs.Containers.length_abs hinv
      have hk := congrArg List.length (ZnVerif.Proofs.Containers.keys_abs hinv)
      simp only [Spec.OrderedMap.keys, List.length_map] at hk
      rw [hl]; exact hk
    rw [h1, h2, hR.order]
  unfold getProperty
  rcases hname with rfl | rfl <;>
  · simp only [bind, getCell, hc, hlen]

/-- 所有索引 -/
theorem gp_hm_keys {hm : HashMap Addr} (hR : Rhm vals order hm) (hc : s.heap[a]? = some (.hm vals order)) :
    getProperty n a "所有索引" s = (do let ks ← (Containers.hmAllIndexes hm).mapM newStr; alloc (.arr ks)) s := by
  unfold getProperty Containers.hmAllIndexes
  simp only [bind, getCell, hc, hR.order]

/-- the value under a listed key (a missing one would be Go's nil element: a panic at the first use) -/
def valueAt (vals : List (String × Addr)) (k : String) : M ν Addr :=
  match lookup k vals with
  | some v => pure v
  | none => goPanic

theorem valueAt_mapM (vals : List (String × Addr)) (s : VM ν) : ∀ (ks : List String) (vs : List Addr),
    ks.map (fun k => lookup k vals) = vs.map some → List.mapM (valueAt vals) ks s = (.ok vs, s)
  | [], [], _ => by simp [pure]
  | [], _ :: _, h => by simp at h
  | _ :: _, [], h => by simp at h
  | k :: ks, v :: vs, h => by
    simp only [List.map_cons, List.cons.injEq] at h
    have ih := valueAt_mapM vals s ks vs h.2
    have hk : valueAt vals k s = (.ok v, s) := by unfold valueAt; rw [h.1]; rfl
    simp only [List.mapM_cons, bind, hk, ih, pure]

/-- 所有值: under the invariant every listed key has a value; a new list cell holds them in key order -/
theorem gp_hm_values {hm : HashMap Addr} (hR : Rhm vals order hm) (hwf : dictWF vals order)
    (hc : s.heap[a]? = some (.hm vals order)) :
    ∃ vs, Containers.hmAllValues hm = vs.map some ∧ getProperty n a "所有值" s = alloc (.arr vs) s := by
  have hkeys : (vals.map Prod.fst).Nodup := by rw [hwf.1]; exact hwf.2
  have hvs : order.map (fun k => lookup k vals) = (vals.map Prod.snd).map some := by
    rw [← hwf.1, List.map_map, List.map_map]
    apply List.map_congr_left
    intro p hp
    exact lookup_of_mem_nodup vals hkeys p hp
  refine ⟨vals.map Prod.snd, ?_, ?_⟩
  · unfold Containers.hmAllValues
    rw [← hR.order, ← hvs]
    apply List.map_congr_left
    intro k _
    exact (hR.get k).symm
  · unfold getProperty
    simp only [bind, getCell, hc]
    rw [mapM_congr_fun (g := valueAt vals), valueAt_mapM vals s order _ hvs]
    intro k s0
    unfold valueAt
    cases lookup k vals <;> rfl

/-! ### `D#k` and `D#k = v` -/

/-- `D#k` (IV.ReduceRHS, IVTypeHashMap): a missing key is IndexKeyNotFound (41) -/
theorem rhs_hm {hm : HashMap Addr} (hR : Rhm vals order hm) (key : String) (idx : Int)
    (hc : s.heap[a]? = some (.hm vals order)) :
    reduceRHS n (2, a, key, idx) s = liftC (Containers.ivMapRead hm key) s := by
  have h21 : ((2 : Nat) == 1) = false := by decide
  simp only [reduceRHS]
  simp only [h21, Bool.false_eq_true, if_false, beq_self_eq_true, if_true]
  simp only [bind, getCell, hc, Containers.ivMapRead, ← hR.get, Containers.errIndexKeyNotFound]
  cases lookup key vals <;> rfl

/-- `D#k = v` (IV.ReduceLHS, IVTypeHashMap): `AppendKVPair`, nothing is copied here (the evaluator copied the right-hand
side before) -/
theorem lhs_hm {hm : HashMap Addr} (hR : Rhm vals order hm) (key : String) (idx : Int) (v : Addr)
    (hc : s.heap[a]? = some (.hm vals order)) :
    ∃ vals' order', reduceLHS (2, a, key, idx) v s = setCell a (.hm vals' order') s ∧
      Rhm vals' order' (Containers.ivMapWrite hm key v) ∧ (dictWF vals order → dictWF vals' order') := by
  refine ⟨(hmAppend vals order key v).1, (hmAppend vals order key v).2, ?_, hmAppend_bridge hR key v, hmAppend_wf key v⟩
  have h21 : ((2 : Nat) == 1) = false := by decide
  simp only [reduceLHS]
  simp only [h21, Bool.false_eq_true, if_false, beq_self_eq_true, if_true]
  simp only [bind, getCell, hc]

end ops

end ZnVerif.Proofs.Bridges
