/- heap monotonicity, successor step for `evalExpr` (split off so that the modules build in parallel) -/
import ZnVerif.Proofs.HeapMonoBase
set_option linter.unusedSectionVars false
set_option linter.unusedVariables false

namespace ZnVerif.Model

variable {ν : Type} [NumOps ν]

section succ
variable (n : Nat) (ih : EvalMono ν n)
include ih

theorem mono_succ_expr (e : Expr) : Pres HeapMono (evalExpr (ν := ν) (n+1) e) := by
  simp only [evalExpr]; pres_auto; use_ih ih

end succ

end ZnVerif.Model
