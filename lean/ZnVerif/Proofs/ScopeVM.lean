/-
Helper lemmas for the VM wrappers (`VMScope`): predefined names first, never declarable, and — because no local
of such a name can ever exist — never assignable although `SetElement` does not look at `vm.globals`.
Core Lean only.
-/
import ZnVerif.Proofs.ScopeBridge

namespace ZnVerif.Proofs.Scope
open ZnVerif.SymTab ZnVerif.Spec.Scopes ZnVerif.Proofs.ScopeSpec

variable {α : Type}

theorem globalLookup_eq (g : List (String × α)) (n : String) : globalLookup g n = gfind g n := by
  induction g with
  | nil => rfl
  | cons p g ih =>
    obtain ⟨k, v⟩ := p
    simp only [globalLookup, gfind, ih]

/-! ### names in the frame stack -/

/-- no frame binds a predefined name -/
def NamesOK (g : List (String × α)) (st : Stack α) : Prop := ∀ f ∈ st, ∀ b ∈ f, gfind g b.name = none

theorem names_set (f : Frame α) (y : String) (v : α) : ∀ b' ∈ f.set y v, ∃ b ∈ f, b.name = b'.name := by
  induction f with
  | nil => intro b' hb'; simp [Frame.set] at hb'
  | cons b f ih =>
    intro b' hb'
    by_cases hb : b.name = y
    · simp only [Frame.set, hb, if_true, List.mem_cons] at hb'
      rcases hb' with rfl | hb'
      · exact ⟨b, by simp, by simp [hb]⟩
      · exact ⟨b', by simp [hb'], rfl⟩
    · simp only [Frame.set, hb, if_false, List.mem_cons] at hb'
      rcases hb' with rfl | hb'
      · exact ⟨b', by simp, rfl⟩
      · obtain ⟨b₀, h1, h2⟩ := ih b' hb'
        exact ⟨b₀, by simp [h1], h2⟩

theorem namesOK_setB (g : List (String × α)) (st : Stack α) (y : String) (v : α) (h : NamesOK g st) :
    NamesOK g (setB st y v) := by
  induction st with
  | nil => intro f hf; simp [setB] at hf
  | cons f st ih =>
    have hst : NamesOK g st := fun f' hf' => h f' (by simp [hf'])
    intro f' hf' b' hb'
    by_cases hb : f.binds y = true
    · simp only [setB, hb, if_true, List.mem_cons] at hf'
      rcases hf' with rfl | hf'
      · obtain ⟨b₀, h1, h2⟩ := names_set f y v b' hb'
        rw [← h2]; exact h f (by simp) b₀ h1
      · exact hst f' hf' b' hb'
    · simp only [setB, hb, Bool.false_eq_true, if_false, List.mem_cons] at hf'
      rcases hf' with rfl | hf'
      · exact h _ (by simp) b' hb'
      · exact ih hst f' hf' b' hb'

/-- one spec step keeps `NamesOK` as long as it does not declare a predefined name -/
theorem step_namesOK (g : List (String × α)) (st : Stack α) (op : Op α) (hst : NamesOK g st)
    (hop : ∀ n, writes op = some n → gfind g n = none) (st' : Stack α) (r : Res α)
    (hs : step st op = some (st', r)) : NamesOK g st' := by
  have hdecl : ∀ bd : Binding α, gfind g bd.name = none → declareB st bd = some (st', r) → NamesOK g st' := by
    intro bd hbd hd
    cases st with
    | nil => simp [declareB] at hd
    | cons f rest =>
      simp only [declareB] at hd
      by_cases hb : f.binds bd.name = true
      · simp only [hb, if_true, Option.some.injEq, Prod.mk.injEq] at hd
        rw [← hd.1]; exact hst
      · simp only [hb, Bool.false_eq_true, if_false, Option.some.injEq, Prod.mk.injEq] at hd
        rw [← hd.1]
        intro f' hf' b' hb'
        simp only [List.mem_cons] at hf'
        rcases hf' with rfl | hf'
        · simp only [List.mem_cons] at hb'
          rcases hb' with rfl | hb'
          · exact hbd
          · exact hst f (by simp) b' hb'
        · exact hst f' (by simp [hf']) b' hb'
  cases op with
  | beginScope =>
    simp only [step, Option.some.injEq, Prod.mk.injEq] at hs
    rw [← hs.1]
    intro f hf b hb
    simp only [List.mem_cons] at hf
    rcases hf with rfl | hf
    · simp at hb
    · exact hst f hf b hb
  | endScope =>
    cases st with
    | nil => simp [step] at hs
    | cons f rest =>
      cases rest with
      | nil => simp [step] at hs
      | cons f' rest' =>
        simp only [step, Option.some.injEq, Prod.mk.injEq] at hs
        rw [← hs.1]
        exact fun f'' hf'' => hst f'' (by simp only [List.mem_cons] at hf'' ⊢; exact Or.inr hf'')
  | declare n v => exact hdecl ⟨n, v, false, none⟩ (hop n rfl) hs
  | declareConst n v => exact hdecl ⟨n, v, true, none⟩ (hop n rfl) hs
  | declareExternal n v m => exact hdecl ⟨n, v, true, some m⟩ (hop n rfl) hs
  | assign n v =>
    simp only [step] at hs
    cases hl : lookupB st n with
    | none => simp only [hl, Option.some.injEq, Prod.mk.injEq] at hs; rw [← hs.1]; exact hst
    | some b =>
      simp only [hl] at hs
      by_cases hc : b.isConst = true
      · simp only [hc, if_true, Option.some.injEq, Prod.mk.injEq] at hs; rw [← hs.1]; exact hst
      · simp only [hc, Bool.false_eq_true, if_false, Option.some.injEq, Prod.mk.injEq] at hs
        rw [← hs.1]; exact namesOK_setB g st n v hst
  | lookup n =>
    simp only [step] at hs
    cases hl : lookupB st n <;> simp only [hl, Option.some.injEq, Prod.mk.injEq] at hs <;> (rw [← hs.1]; exact hst)
  | lookupM n =>
    simp only [step] at hs
    cases hl : lookupB st n <;> simp only [hl, Option.some.injEq, Prod.mk.injEq] at hs <;> (rw [← hs.1]; exact hst)

theorem lookupB_some_mem (st : Stack α) (n : String) (b : Binding α) (h : lookupB st n = some b) :
    b.name = n ∧ ∃ f ∈ st, b ∈ f := by
  induction st with
  | nil => simp [lookupB] at h
  | cons f st ih =>
    simp only [lookupB] at h
    cases hf : Frame.find f n with
    | some b' =>
      simp only [hf, Option.some.injEq] at h
      subst h
      simp only [Frame.find] at hf
      have h1 := List.find?_some hf
      have h2 := List.mem_of_find?_eq_some hf
      exact ⟨by simpa using h1, f, by simp, h2⟩
    | none =>
      simp only [hf] at h
      obtain ⟨h1, f', hf', hb⟩ := ih h
      exact ⟨h1, f', by simp [hf'], hb⟩

theorem lookupB_none_of_global (g : List (String × α)) (st : Stack α) (h : NamesOK g st) (n : String) (gv : α)
    (hg : gfind g n = some gv) : lookupB st n = none := by
  cases hl : lookupB st n with
  | none => rfl
  | some b =>
    obtain ⟨h1, f, hf, hb⟩ := lookupB_some_mem st n b hl
    have := h f hf b hb
    rw [h1, hg] at this
    cases this

/-! ### the simulation through the wrappers -/

/-- the VM is running a module (`getCurrentScope() != nil`), its scope satisfies `Sim`, no local has a predefined name -/
structure VMSim (vm : VMScope α) (σ : Scope α) (d : Nat) : Prop where
  scope : vm.scope = some σ
  sim : Sim σ d
  names : NamesOK vm.globals (abs σ)

def absVM (vm : VMScope α) (σ : Scope α) : VMSpec α := ⟨vm.globals, vm.moduleID, abs σ⟩

/-- the name an operation mentions (declares, assigns or looks up) -/
def mentions : Op α → Option String
  | .declare n _ => some n
  | .declareConst n _ => some n
  | .declareExternal n _ _ => some n
  | .assign n _ => some n
  | .lookup n => some n
  | .lookupM n => some n
  | _ => none

/-- with no predefined name involved, a wrapper is the scope's method (plus 42 for an unbound name and the current
module for an own symbol) -/
theorem vm_step_inner (g : List (String × α)) (mid : Nat) (σ σ' : Scope α) (op : Op α) (r : Res α)
    (hm : ∀ n, mentions op = some n → globalLookup g n = none) (hs : σ.step op = .ok (σ', r)) :
    VMScope.step ⟨g, mid, some σ⟩ op = .ok (⟨g, mid, some σ'⟩, liftRes mid r) := by
  have hofErr : ∀ (n : String) (f : Scope α → GoRes (Scope α)), globalLookup g n = none →
      σ.ofErr (f σ) = .ok (σ', r) →
      VMScope.ofErr ⟨g, mid, some σ⟩ (VMScope.declareWith ⟨g, mid, some σ⟩ n f) = .ok (⟨g, mid, some σ'⟩, liftRes mid r) := by
    intro n f hn hx
    cases hf : f σ with
    | ok sp' =>
      simp only [hf, Scope.ofErr, GoRes.ok.injEq, Prod.mk.injEq] at hx
      simp [VMScope.declareWith, hn, hf, VMScope.ofErr, ← hx.1, ← hx.2, liftRes]
    | err c =>
      simp only [hf, Scope.ofErr, GoRes.ok.injEq, Prod.mk.injEq] at hx
      simp [VMScope.declareWith, hn, hf, VMScope.ofErr, ← hx.1, ← hx.2, liftRes]
    | panic => simp [hf, Scope.ofErr] at hx
  cases op with
  | beginScope =>
    simp only [Scope.step, GoRes.ok.injEq, Prod.mk.injEq] at hs
    simp [VMScope.step, VMScope.beginScope, ← hs.1, ← hs.2, liftRes]
  | endScope =>
    simp only [Scope.step] at hs
    cases he : σ.endScope with
    | ok sp' =>
      simp only [he, GoRes.ok.injEq, Prod.mk.injEq] at hs
      simp [VMScope.step, VMScope.endScope, he, ← hs.1, ← hs.2, liftRes]
    | err c => simp [he] at hs
    | panic => simp [he] at hs
  | declare n v => exact hofErr n _ (hm n rfl) hs
  | declareConst n v => exact hofErr n _ (hm n rfl) hs
  | declareExternal n v m => exact hofErr n _ (hm n rfl) hs
  | assign n v =>
    simp only [Scope.step] at hs
    cases hf : σ.setValue n v with
    | ok sp' =>
      simp only [hf, Scope.ofErr, GoRes.ok.injEq, Prod.mk.injEq] at hs
      simp [VMScope.step, VMScope.setElement, hf, VMScope.ofErr, ← hs.1, ← hs.2, liftRes]
    | err c =>
      simp only [hf, Scope.ofErr, GoRes.ok.injEq, Prod.mk.injEq] at hs
      simp [VMScope.step, VMScope.setElement, hf, VMScope.ofErr, ← hs.1, ← hs.2, liftRes]
    | panic => simp [hf, Scope.ofErr] at hs
  | lookup n =>
    have hn := hm n rfl
    simp only [Scope.step] at hs
    cases hf : σ.getValue n with
    | ok o =>
      cases o with
      | some v =>
        simp only [hf, GoRes.ok.injEq, Prod.mk.injEq] at hs
        simp [VMScope.step, VMScope.findElement, hn, hf, ← hs.1, ← hs.2, liftRes]
      | none =>
        simp only [hf, GoRes.ok.injEq, Prod.mk.injEq] at hs
        simp [VMScope.step, VMScope.findElement, hn, hf, ← hs.1, ← hs.2, liftRes, errNameNotDefined]
    | err c => simp [hf] at hs
    | panic => simp [hf] at hs
  | lookupM n =>
    have hn := hm n rfl
    simp only [Scope.step] at hs
    cases hf : σ.getValueWithModuleID n with
    | ok o =>
      obtain ⟨o1, m⟩ := o
      cases o1 with
      | some v =>
        simp only [hf, GoRes.ok.injEq, Prod.mk.injEq] at hs
        simp [VMScope.step, VMScope.findElementWithModuleID, hn, hf, ← hs.1, ← hs.2, liftRes]
      | none =>
        simp only [hf, GoRes.ok.injEq, Prod.mk.injEq] at hs
        simp [VMScope.step, VMScope.findElementWithModuleID, hn, hf, ← hs.1, ← hs.2, liftRes, errNameNotDefined]
    | err c => simp [hf] at hs
    | panic => simp [hf] at hs

/-- the spec side of the same: with no predefined name involved, `vmStep` is `step` on the module's stack -/
theorem vmStep_inner (s : VMSpec α) (op : Op α) (hm : ∀ n, mentions op = some n → gfind s.globals n = none)
    (st' : Stack α) (r : Res α) (hs : step s.stack op = some (st', r)) :
    vmStep s op = some ({ s with stack := st' }, .res (liftRes s.moduleID r)) := by
  cases op with
  | beginScope => simp [vmStep, hs]
  | endScope => simp [vmStep, hs]
  | declare n v => simp [vmStep, hs, hm n rfl]
  | declareConst n v => simp [vmStep, hs, hm n rfl]
  | declareExternal n v m => simp [vmStep, hs, hm n rfl]
  | assign n v => simp [vmStep, hs, hm n rfl]
  | lookup n => simp [vmStep, hs, hm n rfl]
  | lookupM n => simp [vmStep, hs, hm n rfl]

/-- assigning a predefined name on a scope that has no such local: `SetValue` finds nothing — NameNotDefined -/
theorem setValue_global {σ : Scope α} {d : Nat} (h : Sim σ d) (g : List (String × α)) (hn : NamesOK g (abs σ))
    (n : String) (gv : α) (hg : gfind g n = some gv) (v : α) : σ.setValue n v = .err 42 := by
  have hl := lookupB_none_of_global g (abs σ) hn n gv hg
  have := model_step_err h (.assign n v) True.intro (abs σ) 42 (by simp [step, hl])
  simp only [Scope.step] at this
  cases hf : σ.setValue n v with
  | ok sp' => simp [hf, Scope.ofErr] at this
  | err c => simp only [hf, Scope.ofErr, GoRes.ok.injEq, Prod.mk.injEq, Res.err.injEq, true_and] at this; rw [this]
  | panic => simp [hf, Scope.ofErr] at this

/-- one operation through the wrappers -/
theorem vm_step_sim {vm : VMScope α} {σ : Scope α} {d : Nat} (h : VMSim vm σ d) (op : Op α) (hok : opOK d op) :
    ∃ vm' σ' r r', vm.step op = .ok (vm', r) ∧ VMSim vm' σ' (nextDepth d op) ∧
      vmStep (absVM vm σ) op = some (absVM vm' σ', r') ∧ r'.agrees r ∧ vm'.globals = vm.globals := by
  obtain ⟨g, mid, sc⟩ := vm
  have hsc : sc = some σ := h.scope
  subst hsc
  -- is a predefined name involved?
  cases hmn : mentions op with
  | none =>
    obtain ⟨σ', r, hstep, hsim, hspec⟩ := step_sim h.sim op hok
    have hm : ∀ n, mentions op = some n → globalLookup g n = none := by intro n hn; rw [hmn] at hn; cases hn
    have hm' : ∀ n, mentions op = some n → gfind g n = none := by intro n hn; rw [hmn] at hn; cases hn
    have hw : ∀ n, writes op = some n → gfind g n = none := by
      intro n hn; cases op <;> simp_all [writes, mentions]
    refine ⟨⟨g, mid, some σ'⟩, σ', liftRes mid r, .res (liftRes mid r), vm_step_inner g mid σ σ' op r hm hstep,
      ⟨rfl, hsim, step_namesOK g (abs σ) op h.names hw _ r hspec⟩, ?_, rfl, rfl⟩
    exact vmStep_inner (absVM ⟨g, mid, some σ⟩ σ) op hm' _ r hspec
  | some n =>
    cases hg : gfind g n with
    | none =>
      obtain ⟨σ', r, hstep, hsim, hspec⟩ := step_sim h.sim op hok
      have hm' : ∀ n', mentions op = some n' → gfind g n' = none := by
        intro n' hn'; rw [hmn] at hn'; cases hn'; exact hg
      have hm : ∀ n', mentions op = some n' → globalLookup g n' = none := by
        intro n' hn'; rw [globalLookup_eq]; exact hm' n' hn'
      have hw : ∀ n', writes op = some n' → gfind g n' = none := by
        intro n' hn'; apply hm' n'; cases op <;> simp_all [writes, mentions]
      refine ⟨⟨g, mid, some σ'⟩, σ', liftRes mid r, .res (liftRes mid r), vm_step_inner g mid σ σ' op r hm hstep,
        ⟨rfl, hsim, step_namesOK g (abs σ) op h.names hw _ r hspec⟩, ?_, rfl, rfl⟩
      exact vmStep_inner (absVM ⟨g, mid, some σ⟩ σ) op hm' _ r hspec
    | some gv =>
      have hgl : globalLookup g n = some gv := by rw [globalLookup_eq]; exact hg
      have hnd : nextDepth d op = d := by cases op <;> simp_all [mentions, nextDepth]
      rw [hnd]
      cases op with
      | beginScope => simp [mentions] at hmn
      | endScope => simp [mentions] at hmn
      | declare n' v =>
        simp only [mentions, Option.some.injEq] at hmn; subst hmn
        exact ⟨_, σ, .err 43, .res (.err 43),
          by simp [VMScope.step, VMScope.declareElement, VMScope.declareWith, hgl, VMScope.ofErr, errNameRedeclared],
          h, by simp [vmStep, absVM, hg], rfl, rfl⟩
      | declareConst n' v =>
        simp only [mentions, Option.some.injEq] at hmn; subst hmn
        exact ⟨_, σ, .err 43, .res (.err 43),
          by simp [VMScope.step, VMScope.declareConstElement, VMScope.declareWith, hgl, VMScope.ofErr, errNameRedeclared],
          h, by simp [vmStep, absVM, hg], rfl, rfl⟩
      | declareExternal n' v m =>
        simp only [mentions, Option.some.injEq] at hmn; subst hmn
        exact ⟨_, σ, .err 43, .res (.err 43),
          by simp [VMScope.step, VMScope.declareExternalElement, VMScope.declareWith, hgl, VMScope.ofErr, errNameRedeclared],
          h, by simp [vmStep, absVM, hg], rfl, rfl⟩
      | assign n' v =>
        simp only [mentions, Option.some.injEq] at hmn; subst hmn
        have hset := setValue_global h.sim g h.names n' gv hg v
        exact ⟨_, σ, .err 42, .errAny,
          by simp [VMScope.step, VMScope.setElement, hset, VMScope.ofErr],
          h, by simp [vmStep, absVM, hg], ⟨42, rfl⟩, rfl⟩
      | lookup n' =>
        simp only [mentions, Option.some.injEq] at hmn; subst hmn
        exact ⟨_, σ, .val gv, .res (.val gv), by simp [VMScope.step, VMScope.findElement, hgl],
          h, by simp [vmStep, absVM, hg], rfl, rfl⟩
      | lookupM n' =>
        simp only [mentions, Option.some.injEq] at hmn; subst hmn
        exact ⟨_, σ, .valM gv (-1), .res (.valM gv (-1)), by simp [VMScope.step, VMScope.findElementWithModuleID, hgl],
          h, by simp [vmStep, absVM, hg], rfl, rfl⟩

/-- pointwise agreement of answer lists -/
def agreeAll : List (VMRes α) → List (Res α) → Prop
  | [], [] => True
  | r' :: rs', r :: rs => r'.agrees r ∧ agreeAll rs' rs
  | _, _ => False

/-- histories through the wrappers -/
theorem vm_run_sim (ops : List (Op α)) : ∀ (vm : VMScope α) (σ : Scope α) (d d' : Nat), VMSim vm σ d →
    finalDepth d ops = some d' → extAtRoot d ops = true →
    ∃ vm' σ' rs rs', vm.run ops = .ok (vm', rs) ∧ VMSim vm' σ' d' ∧
      vmRun (absVM vm σ) ops = some (absVM vm' σ', rs') ∧ agreeAll rs' rs ∧ vm'.globals = vm.globals := by
  induction ops with
  | nil =>
    intro vm σ d d' h h1 _
    simp only [finalDepth, Option.some.injEq] at h1
    subst h1
    exact ⟨vm, σ, [], [], rfl, h, rfl, True.intro, rfl⟩
  | cons op ops ih =>
    intro vm σ d d' h h1 h2
    obtain ⟨hok, hf, he⟩ := wf_cons h1 h2
    obtain ⟨vm₁, σ₁, r, r', hstep, hs₁, hspec, hag, hg₁⟩ := vm_step_sim h op hok
    obtain ⟨vm₂, σ₂, rs, rs', hrun, hs₂, hspec₂, hag₂, hg₂⟩ := ih vm₁ σ₁ _ d' hs₁ hf he
    exact ⟨vm₂, σ₂, r :: rs, r' :: rs', by simp [VMScope.run, hstep, hrun], hs₂, by simp [vmRun, hspec, hspec₂],
      ⟨hag, hag₂⟩, by rw [hg₂, hg₁]⟩

theorem vmSim_new (g : List (String × α)) (mid : Nat) : VMSim ⟨g, mid, some Scope.new⟩ Scope.new 0 :=
  ⟨rfl, sim_new, by
    intro f hf b hb
    rw [abs_new] at hf
    simp only [initial, List.mem_cons, List.mem_nil_iff, or_false] at hf
    subst hf
    simp at hb⟩

end ZnVerif.Proofs.Scope
