/-
Bridge (A) ↔ (C), lists, the rest: the properties 首项 末项 长度/数目 逆序 (`getProperty`), the setters 首项 末项
(`setProperty`), and `L#i` / `L#i = v` (`reduceRHS` / `reduceLHS` with kind 1) against `Model/Containers.lean`.
-/
import ZnVerif.Proofs.BridgesList
set_option linter.unusedSectionVars false
set_option linter.unusedVariables false

namespace ZnVerif.Proofs.Bridges
open ZnVerif ZnVerif.Model

variable {ν : Type} [NumOps ν]

section props
variable (n : Nat) (a : Addr) (items : List Addr) (s : VM ν)

/-- 首项 -/
theorem gp_first (hc : s.heap[a]? = some (.arr items)) :
    getProperty n a "首项" s = answerOpt (Containers.arrayGetFirst items) s := by
  unfold getProperty
  simp only [bind, getCell, hc, Containers.arrayGetFirst_eq]
  cases items <;> rfl

/-- 末项 -/
theorem gp_last (hc : s.heap[a]? = some (.arr items)) :
    getProperty n a "末项" s = answerOpt (Containers.arrayGetLast items) s := by
  unfold getProperty
  simp only [bind, getCell, hc, Containers.arrayGetLast_eq]
  cases items.getLast? <;> rfl

/-- 长度 / 数目 -/
theorem gp_length (name : String) (hname : name = "长度" ∨ name = "数目") (hc : s.heap[a]? = some (.arr items)) :
    getProperty n a name s = newNum (NumOps.ofInt (Containers.arrayGetLength items)) s := by
  unfold getProperty
  rcases hname with rfl | rfl <;>
  · simp only [bind, getCell, hc]
    rfl

/-- 逆序: the Go loop never fails and a new list cell holds what it built -/
theorem gp_reverse (hc : s.heap[a]? = some (.arr items)) :
    getProperty n a "逆序" s = (do let r ← liftC (Containers.arrayGetReverse items); alloc (.arr r)) s := by
  unfold getProperty
  simp only [bind, getCell, hc, Containers.arrayGetReverse_eq, liftC]
  rfl

/-- a name that is no list property: PropertyNotFound (45) -/
theorem gp_unknown (name : String) (hc : s.heap[a]? = some (.arr items))
    (hn : name ∉ ["文本", "首项", "末项", "数目", "长度", "逆序"]) :
    getProperty n a name s = (.err (.rt 45), s) := by
  simp only [List.mem_cons, List.not_mem_nil, or_false, not_or] at hn
  obtain ⟨h1, h2, h3, h4, h5, h6⟩ := hn
  unfold getProperty
  simp only [bind, getCell, hc]
  rfl

/-- 首项 setter -/
theorem sp_first (v : Addr) (hc : s.heap[a]? = some (.arr items)) :
    setProperty a "首项" v s = setCell a (.arr (Containers.arraySetFirst items v)) s := by
  unfold setProperty
  simp only [bind, getCell, hc, Containers.arraySetFirst_eq]
  cases items <;> rfl

/-- 末项 setter -/
theorem sp_last (v : Addr) (hc : s.heap[a]? = some (.arr items)) :
    setProperty a "末项" v s = setCell a (.arr (Containers.arraySetLast items v)) s := by
  unfold setProperty
  simp only [bind, getCell, hc, Containers.arraySetLast_eq]
  cases items <;> rfl

theorem sp_unknown (name : String) (v : Addr) (hc : s.heap[a]? = some (.arr items))
    (hn : name ∉ ["首项", "末项"]) :
    setProperty a name v s = (.err (.rt 45), s) := by
  simp only [List.mem_cons, List.not_mem_nil, or_false, not_or] at hn
  obtain ⟨h1, h2⟩ := hn
  unfold setProperty
  simp only [bind, getCell, hc]
  rfl

/-- `L#i` (IV.ReduceRHS, IVTypeArray) -/
theorem rhs_arr (name : String) (idx : Int) (hc : s.heap[a]? = some (.arr items)) :
    reduceRHS n (1, a, name, idx) s = liftC (Containers.ivArrayRead items idx) s := by
  simp only [reduceRHS]
  simp only [bind, getCell, hc, beq_self_eq_true, if_true, Containers.ivArrayRead, Containers.errIndexOutOfRange]
  by_cases h : idx - 1 < 0 ∨ idx - 1 ≥ (items.length : Int)
  · simp only [h, if_true]; rfl
  · simp only [h, if_false]
    cases items[(idx - 1).toNat]? <;> rfl

/-- `L#i = v` (IV.ReduceLHS, IVTypeArray) -/
theorem lhs_arr (name : String) (idx : Int) (v : Addr) (hc : s.heap[a]? = some (.arr items)) :
    reduceLHS (1, a, name, idx) v s = storeArr a (Containers.ivArrayWrite items idx v) s := by
  simp only [reduceLHS]
  simp only [bind, getCell, hc, beq_self_eq_true, if_true, Containers.ivArrayWrite, Containers.errIndexOutOfRange]
  by_cases h : idx - 1 < 0 ∨ idx - 1 ≥ (items.length : Int)
  · simp only [h, if_true]; rfl
  · simp only [h, if_false]; rfl

end props

end ZnVerif.Proofs.Bridges
