/-
`step_good`, part 4: loops and blocks (每当, 遍历, 如果, 如何, 定义, 抛出, 拦截, 导入), exec blocks, the program; then `step_good`
and `parse_good`.
-/
import ZnVerif.Proofs.ParserGoodStmt

namespace ZnVerif.Proofs.ParserGood
open ZnVerif.Model ZnVerif.Model.Parser ZnVerif.Generated.Tokens ZnVerif.Generated.ParserTables
open ZnVerif.Spec.Grammar ZnVerif.Proofs.ParserHoare

variable {σ : Type} {ops : LexOps σ} {B : Nat} {μ : σ → Nat} {I : σ → Prop}
variable (hl : LexOK ops B μ I) {n : Nat} {rec : Rec σ} (hg : Good ops B μ I n rec)
include hl hg

theorem pWhileLoop_good (s : PState σ) (hs : Inv ops B I s) :
    Sat (pWhileLoop Variant.fixed ops n rec s) (Post ops B μ I .whileLoop s) (ErrOK B) (n + 1 < need μ .whileLoop s) := by
  unfold pWhileLoop
  simp only [sat_bind]
  apply hg.callS (.expr true) rfl hs trivial
  · intro e s1 hi1 hm1 hq1 hc1
    apply consume_sat hl hi1 (by decide)
    · intro s2 hi2 hm2 hq2
      apply expectBlockIndent_sat hi2 hq2
      intro r
      cases r with
      | none => exact errPeek_sat hi2 (by decide)
      | some bi =>
        simp only [sat_bind]
        apply hg.callN (.block bi) hi2 trivial
        · intro b s3 hi3 hm3 hq3 hc3
          simp only [sat_pure]
          exact post_lt hi3 (by omega) (by omega) (.while _ _ _ hc1 hc3)
        · fuel_tac
    · fuel_tac
  · fuel_tac

omit hl in
theorem pBlock_good (indent : Nat) (s : PState σ) (hs : Inv ops B I s) :
    Sat (pBlock rec indent s) (Post ops B μ I (.block indent) s) (ErrOK B) (n + 1 < need μ (.block indent) s) := by
  unfold pBlock
  apply hg.callN (.blockLoop indent []) hs (by intro x hx; simp at hx)
  · intro b s1 hi1 hm1 hq1 hc1
    exact post_le rfl hi1 hm1 hq1 (fun h => h.elim) hc1
  · fuel_tac

omit hl in
theorem pBlockLoop_good (indent : Nat) (acc : List Stmt) (s : PState σ) (hs : Inv ops B I s) (hpre : ∀ x ∈ acc, CStmt x) :
    Sat (pBlockLoop ops rec indent acc s) (Post ops B μ I (.blockLoop indent acc) s) (ErrOK B)
      (n + 1 < need μ (.blockLoop indent acc) s) := by
  unfold pBlockLoop
  simp only [sat_bind, sat_getS]
  rw [sat_ite]
  refine ⟨fun _ => ?_, fun _ => ?_⟩
  · simp only [sat_bind]
    apply hg.callS .statement rfl hs trivial
    · intro st s1 hi1 hm1 hq1 hc1
      apply hg.callN (.blockLoop indent _) hi1 (mem_snoc hpre hc1)
      · intro r s2 hi2 hm2 hq2 hc2
        exact post_le rfl hi2 (by omega) (by have := q_le_one s; omega) (fun h => h.elim) hc2
      · fuel_tac
    · fuel_tac
  · simp only [sat_pure]
    exact post_le rfl hs (Nat.le_refl _) (Nat.le_refl _) (fun h => h.elim) hpre

omit hl in
theorem pBranch_good (s : PState σ) (hs : Inv ops B I s) :
    Sat (pBranch ops rec s) (Post ops B μ I .branch s) (ErrOK B) (n + 1 < need μ .branch s) := by
  unfold pBranch
  simp only [sat_bind, sat_getS]
  apply hg.callX (.branchLoop _ .init {}) hs
    ⟨rfl, rfl, by intro o ho; simp at ho, by intro h; exact absurd rfl h⟩ trivial
  · intro st s1 hi1 hm1 hq1 hc1
    exact post_lt hi1 hm1 (by omega) hc1
  · fuel_tac


omit hg hl in
theorem condStrict_branch {mi : Nat} {st : BrSt} {acc : BranchAcc} {s : PState σ}
    (h : CondStrict ops (.branchLoop mi st acc) s) : st = .init := by
  cases st <;> simp [CondStrict] at h ⊢

omit hg in
theorem branchHeader_sat {mainIndent : Nat} {st : BrSt} {s : PState σ} {Q : Option BrSt → PState σ → Prop} {F : Prop}
    (hs : Inv ops B I s)
    (hnone : ∀ s', Inv ops B I s' → m μ s' ≤ m μ s → q s ≤ q s' → st ≠ .init → Q none s')
    (hsome : ∀ st' s', Inv ops B I s' → m μ s' ≤ m μ s → q s ≤ q s' → st' ≠ .init → (st = .init → st' = .ifB) →
      (st ≠ .init → m μ s' < m μ s ∧ q s' = 1) → Q (some st') s')
    (hF : n ≤ m μ s → F) :
    Sat (branchHeader ops n mainIndent st s) Q (ErrOK B) F := by
  unfold branchHeader
  have hm0 : m μ ({ s with flag := false } : PState σ) = m μ s := rfl
  have hq0 : q ({ s with flag := false } : PState σ) = q s := rfl
  have keyw : Sat ((do
      let s ← getS
      if peekIndentOf ops s ≠ mainIndent then pure none
      else do
        unsetFlag
        match ← tryConsume ops n condKeywords with
        | some tk => pure (some (if tk.type = cTypeCondOtherW then BrSt.other else BrSt.elseB))
        | none => do
          setFlag
          pure none : PM σ (Option BrSt)) s)
      (fun r s' => Inv ops B I s' ∧ m μ s' ≤ m μ s ∧ q s ≤ q s' ∧
        ∀ st', r = some st' → st' ≠ .init ∧ st' ≠ .ifB ∧ m μ s' < m μ s ∧ q s' = 1) (ErrOK B) F := by
    simp only [sat_bind, sat_getS]
    rw [sat_ite]
    refine ⟨fun _ => ?_, fun _ => ?_⟩
    · simp only [sat_pure]
      exact ⟨hs, Nat.le_refl _, Nat.le_refl _, by intro st' h; cases h⟩
    · simp only [sat_bind, sat_unsetFlag]
      apply tryConsume_sat hl (inv_flag false hs) (by decide)
      · intro s1 hi1 hm1 hq1 _
        simp only [sat_bind, sat_setFlag, sat_pure]
        exact ⟨inv_flag true hi1, by show m μ s1 ≤ m μ s; omega, by show q s ≤ q s1; omega, by intro st' h; cases h⟩
      · intro tk s1 hi1 hm1 hq1 _ _
        simp only [sat_pure]
        refine ⟨hi1, by omega, by have := q_le_one s; omega, ?_⟩
        intro st' h
        simp only [Option.some.injEq] at h
        subst h
        refine ⟨?_, ?_, by omega, hq1⟩ <;> split <;> simp
      · intro h; apply hF; omega
  cases st with
  | init =>
    simp only [sat_pure]
    exact hsome .ifB s hs (Nat.le_refl _) (Nat.le_refl _) (by simp) (fun _ => rfl) (fun h => absurd rfl h)
  | ifB =>
    apply keyw.imp _ id
    intro r s' ⟨hi, hm, hq, hr⟩
    cases r with
    | none => exact hnone s' hi hm hq (by simp)
    | some st' =>
      obtain ⟨h1, _, h3, h4⟩ := hr st' rfl
      exact hsome st' s' hi hm hq h1 (fun h => by cases h) (fun _ => ⟨h3, h4⟩)
  | other =>
    apply keyw.imp _ id
    intro r s' ⟨hi, hm, hq, hr⟩
    cases r with
    | none => exact hnone s' hi hm hq (by simp)
    | some st' =>
      obtain ⟨h1, _, h3, h4⟩ := hr st' rfl
      exact hsome st' s' hi hm hq h1 (fun h => by cases h) (fun _ => ⟨h3, h4⟩)
  | elseB =>
    simp only [sat_bind, sat_getS]
    rw [sat_ite]
    refine ⟨fun _ => ?_, fun _ => ?_⟩
    · simp only [sat_pure]
      exact hnone s hs (Nat.le_refl _) (Nat.le_refl _) (by simp)
    · simp only [sat_bind]
      apply tryConsume_sat hl hs (by decide)
      · intro s1 hi1 hm1 hq1 _
        simp only [sat_pure]
        exact hnone s1 hi1 hm1 hq1 (by simp)
      · intro tk s1 hi1 hm1 hq1 _ _
        simp only [sat_pure]
        exact hsome .elseB s1 hi1 (by omega) (by have := q_le_one s; omega) (by simp) (fun h => by cases h)
          (fun _ => ⟨hm1, hq1⟩)
      · exact hF

theorem pBranchLoop_good (mi : Nat) (st : BrSt) (acc : BranchAcc) (s : PState σ) (hs : Inv ops B I s)
    (hpre : BranchPre st acc) :
    Sat (pBranchLoop Variant.fixed ops n rec mi st acc s) (Post ops B μ I (.branchLoop mi st acc) s) (ErrOK B)
      (n + 1 < need μ (.branchLoop mi st acc) s) := by
  unfold pBranchLoop
  simp only [sat_bind, sat_getS]
  rw [sat_ite]
  refine ⟨fun _ => ?_, fun hc => ?_⟩
  · simp only [sat_bind]
    apply branchHeader_sat hl hs
    · intro s1 hi1 hm1 hq1 hst
      simp only [sat_pure]
      exact post_le rfl hi1 hm1 hq1 (fun h => absurd (condStrict_branch h) hst) (branch_complete hpre hst)
    · intro st' s1 hi1 hm1 hq1 hst' hinit hstrict
      simp only [sat_bind]
      -- `： block` after the condition, then the state switch
      have tail : ∀ cond s2, Inv ops B I s2 → m μ s2 ≤ m μ s1 → (st' ≠ .elseB → CExpr cond) →
          Sat ((do
            consume Variant.fixed ops n [cTypeFuncCall]
            match ← expectBlockIndent ops with
            | none => errPeek Variant.fixed 21
            | some bi => do
              let blk ← rec (.block bi)
              match st' with
              | .ifB => rec (.branchLoop mi .ifB { acc with ifE := cond, ifB := some blk })
              | .other => rec (.branchLoop mi .other { acc with others := acc.others ++ [(cond, some blk)] })
              | .elseB => pure ({ acc with hasElse := true, elseB := some blk } : BranchAcc).toStmt
              | .init => rec (.branchLoop mi .init acc) : PM σ Stmt) s2)
            (Post ops B μ I (.branchLoop mi st acc) s) (ErrOK B) (n + 1 < need μ (.branchLoop mi st acc) s) := by
        intro cond s2 hi2 hm2 hcond
        simp only [sat_bind]
        apply consume_sat hl hi2 (by decide)
        · intro s3 hi3 hm3 hq3
          apply expectBlockIndent_sat hi3 hq3
          intro r
          cases r with
          | none => exact errPeek_sat hi3 (by decide)
          | some bi =>
            simp only [sat_bind]
            apply hg.callN (.block bi) hi3 trivial
            · intro blk s4 hi4 hm4 hq4 hc4
              cases st' with
              | init => exact absurd rfl hst'
              | ifB =>
                simp only
                apply hg.callN (.branchLoop mi .ifB { acc with ifE := cond, ifB := some blk }) hi4
                  ⟨hpre.1, hpre.2.1, hpre.2.2.1, fun _ => ⟨hcond (by simp), _, rfl, hc4⟩⟩
                · intro r s5 hi5 hm5 hq5 hc5
                  exact post_le rfl hi5 (by omega) (by have := q_le_one s; omega)
                    (fun _ => ⟨by omega, by have := q_le_one s5; omega⟩) hc5
                · fuel_tac
              | other =>
                simp only
                have hst : st ≠ .init := fun h => by have := hinit h; cases this
                apply hg.callN (.branchLoop mi .other { acc with others := acc.others ++ [(cond, some blk)] }) hi4
                  ⟨hpre.1, hpre.2.1, mem_snoc hpre.2.2.1 ⟨hcond (by simp), _, rfl, hc4⟩, fun _ => hpre.2.2.2 hst⟩
                · intro r s5 hi5 hm5 hq5 hc5
                  exact post_le rfl hi5 (by omega) (by have := q_le_one s; omega)
                    (fun _ => ⟨by omega, by have := q_le_one s5; omega⟩) hc5
                · fuel_tac
              | elseB =>
                simp only [sat_pure]
                have hst : st ≠ .init := fun h => by have := hinit h; cases this
                exact post_le rfl hi4 (by omega) (by have := q_le_one s; omega)
                  (fun _ => ⟨by omega, by have := q_le_one s4; omega⟩) (branch_complete_else hpre hst hc4)
            · fuel_tac
        · fuel_tac
      simp only [sat_bind] at tail
      rw [sat_ite]
      refine ⟨fun hne => ?_, fun he => ?_⟩
      · apply hg.callS (.expr true) rfl hi1 trivial
        · intro cond s2 hi2 hm2 hq2 hc2
          exact tail cond s2 hi2 (by omega) (fun _ => hc2)
        · fuel_tac
      · simp only [sat_pure]
        exact tail Expr.nil s1 hi1 (Nat.le_refl _) (fun h => absurd h he)
    · fuel_tac
  · -- the loop is not entered: only possible outside the initial state
    simp only [sat_pure]
    have hst : st ≠ .init := by
      intro h
      subst h
      simp [Variant.fixed] at hc
    exact post_le rfl hs (Nat.le_refl _) (Nat.le_refl _) (fun h => absurd (condStrict_branch h) hst)
      (branch_complete hpre hst)

end ZnVerif.Proofs.ParserGood
