/-
C03 at character level, lexer part 1: one lemma per token class.

`dispatch_item`: with the cursor on the first character of the canonical spelling of a well-formed item, followed by a space (or, for
every item but `+ - * /`, by a line feed) and anything, `NextToken`'s dispatch answers exactly the item's token and leaves the cursor
on that space / line feed; nothing else of the lexer changes.
-/
import ZnVerif.Spec.RenderChars
import ZnVerif.Proofs.LexSegment

namespace ZnVerif.Proofs.RenderLex
open ZnVerif.Model ZnVerif.Generated ZnVerif.Generated.Tokens
open ZnVerif.Spec ZnVerif.Spec.RenderChars
open ZnVerif.Spec.Segment (kwAt)
open ZnVerif.Spec.Literal (Quote literalSafe encodeSafe encodeChar)

/-! ### the text from the cursor on -/

/-- the characters from the current one on -/
def here (l : Lexer) : List Nat := l.src.toList.drop l.cursor

theorem here_cons {l : Lexer} {c : Nat} {r : List Nat} (h : here l = c :: r) : l.cur = c ∧ l.rest = r := by
  obtain ⟨h1, h2⟩ := Lexer.drop_cons h
  exact ⟨Lexer.getChar_of_getElem? h1, h2⟩

theorem here_nil {l : Lexer} (h : here l = []) : l.cur = 0 ∧ l.src.size ≤ l.cursor := by
  have : l.src.toList.length ≤ l.cursor := List.drop_eq_nil_iff.mp h
  have h2 : l.src.size ≤ l.cursor := by simpa using this
  exact ⟨Lexer.getChar_of_ge h2, h2⟩

theorem here_setCursor (l : Lexer) (n : Nat) : here (l.setCursor (l.cursor + n)) = (here l).drop n := by
  simp [here, List.drop_drop, Nat.add_comm]

theorem here_append {l : Lexer} {a b : List Nat} (h : here l = a ++ b) : here (l.setCursor (l.cursor + a.length)) = b := by
  rw [here_setCursor, h]; simp

theorem here_adv (l : Lexer) : here l.adv = l.rest := rfl

theorem setCursor_self (l : Lexer) : l.setCursor l.cursor = l := rfl
theorem adv_eq_setCursor (l : Lexer) : l.adv = l.setCursor (l.cursor + 1) := rfl
theorem adv_adv_eq_setCursor (l : Lexer) : l.adv.adv = l.setCursor (l.cursor + 2) := rfl

/-- a delimiter of the rendering: the space between two tokens, or the line feed that ends a line -/
def Delim (d : Nat) : Prop := d = runeSP ∨ d = runeLF

/-! ### keywords and names -/

theorem nameChar_iff (c : Nat) : NameChar c ↔ SegChar c := Iff.rfl

/-- `dispatchToken` on a name character goes straight to keyword-or-identifier -/
theorem dispatch_seg (l : Lexer) (h : SegChar l.cur) : dispatchToken l = keywordOrIdentifier l := by
  obtain ⟨_, h0, hsl⟩ := h.solid
  obtain ⟨-, -, h3, h4, h5, h6, h7, -⟩ := h
  unfold dispatchToken
  have a1 : (l.cur == runeEOF) = false := by simpa [runeEOF] using h0
  have a2 : (l.cur == cCharZHU || l.cur == cSlashOp) = false := by simp [h3, hsl]
  have a3 : (l.cur == cBackTick) = false := by simpa using h7
  simp only [a1, a2, h6, a3, Bool.false_eq_true, ↓reduceIte]
  unfold nextTokenTail
  simp only [h5, h4, Bool.false_eq_true, ↓reduceIte]

set_option maxRecDepth 100000 in
theorem D_same : ∀ x, x ∈ D ↔ x ∈ Keywords.documented := by
  have h : (D.all (Keywords.documented.contains ·) && Keywords.documented.all (D.contains ·)) = true := by decide
  simp only [Bool.and_eq_true, List.all_eq_true, List.contains_iff_mem] at h
  exact fun x => ⟨h.1 x, h.2 x⟩

theorem documented_prefix_free : ∀ a ∈ Keywords.documented, ∀ b ∈ Keywords.documented, a.1 <+: b.1 → a = b := by decide

theorem kwAt_D (s : List Nat) : kwAt D s = kwAt Keywords.documented s :=
  kwAt_congr D Keywords.documented D_same documented_prefix_free s

/-- a keyword of a prefix-free list is found at the head of every text that begins with it -/
theorem kwAt_of_prefix (kws : List (List Nat × Nat)) (hpf : ∀ a ∈ kws, ∀ b ∈ kws, a.1 <+: b.1 → a = b)
    (k : List Nat × Nat) (hk : k ∈ kws) (r : List Nat) : kwAt kws (k.1 ++ r) = some (k.1.length, k.2) := by
  unfold kwAt
  cases hf : kws.find? (fun x => x.1.isPrefixOf (k.1 ++ r)) with
  | none =>
    have := List.find?_eq_none.mp hf k hk
    exact absurd (List.isPrefixOf_iff_prefix.mpr (List.prefix_append _ _)) this
  | some x =>
    have hx := List.mem_of_find?_eq_some hf
    have hp : x.1 <+: k.1 ++ r :=
      List.isPrefixOf_iff_prefix.mp (List.find?_some (p := fun (x : List Nat × Nat) => x.1.isPrefixOf (k.1 ++ r)) hf)
    have : x = k := by
      rcases List.prefix_or_prefix_of_prefix hp (List.prefix_append k.1 r) with h | h
      · exact hpf x hx k hk h
      · exact (hpf k hk x hx h).symm
    rw [this]; rfl

set_option maxRecDepth 100000 in
/-- every glyph of a documented keyword is a name character -/
theorem documented_glyphs : ∀ k ∈ Keywords.documented, ∀ c ∈ k.1, SegChar c := by decide +kernel

theorem documented_nonempty : ∀ k ∈ Keywords.documented, k.1 ≠ [] := by decide

theorem delim_not_seg {d : Nat} (hd : Delim d) : ¬ SegChar d := by
  rcases hd with rfl | rfl
  · intro h; exact absurd h.2.1 (by decide)
  · intro h; exact absurd h.2.2.2.2.2.2.2 (by decide)

/-- no keyword is found where a name that has none inside meets a delimiter -/
theorem kwAt_none_append (s : List Nat) (d : Nat) (r : List Nat) (hd : Delim d)
    (h : kwAt Keywords.documented s = none) : kwAt Keywords.documented (s ++ d :: r) = none := by
  unfold kwAt at h ⊢
  cases hf : Keywords.documented.find? (fun k => k.1.isPrefixOf (s ++ d :: r)) with
  | none => rfl
  | some x =>
    exfalso
    have hx := List.mem_of_find?_eq_some hf
    have hp : x.1 <+: s ++ d :: r :=
      List.isPrefixOf_iff_prefix.mp (List.find?_some (p := fun (x : List Nat × Nat) => x.1.isPrefixOf (s ++ d :: r)) hf)
    have hnone : Keywords.documented.find? (fun k => k.1.isPrefixOf s) = none := by
      cases h' : Keywords.documented.find? (fun k => k.1.isPrefixOf s) with
      | none => rfl
      | some y => rw [h'] at h; simp at h
    have hns := List.find?_eq_none.mp hnone x hx
    rcases List.prefix_or_prefix_of_prefix hp (List.prefix_append s (d :: r)) with h1 | h1
    · exact hns (List.isPrefixOf_iff_prefix.mpr h1)
    · -- `s` is a proper prefix of the keyword, so `d` is one of its glyphs
      obtain ⟨t, ht⟩ := h1
      obtain ⟨u, hu⟩ := hp
      have hlen : s.length < x.1.length ∨ s.length = x.1.length := by
        have := congrArg List.length ht; simp at this; omega
      rcases hlen with hl | hl
      · have hdmem : d ∈ x.1 := by
          rw [← ht] at hu
          rw [List.append_assoc] at hu
          have h2 := List.append_cancel_left hu
          cases t with
          | nil => simp at ht; rw [ht] at hl; omega
          | cons a t' =>
            simp at h2
            rw [← ht, ← h2.1]; simp
        exact delim_not_seg hd (documented_glyphs x hx d hdmem)
      · have : t = [] := by
          have := congrArg List.length ht; simp at this
          exact List.length_eq_zero_iff.mp (by omega)
        subst this
        simp at ht
        apply hns
        rw [ht]
        exact List.isPrefixOf_iff_prefix.mpr (List.prefix_refl _)

theorem matchKeyword_here {l : Lexer} {c : Nat} {r : List Nat} (h : here l = c :: r) :
    matchKeyword l = kwAt Keywords.documented (c :: r) := by
  obtain ⟨h1, h2⟩ := here_cons h
  rw [matchKeyword_eq_kwAt, h1, h2, kwAt_D]

/-- the identifier loop over the rest of a name, up to the delimiter -/
theorem ident_run_delim (s0 : Nat) (d : Nat) (r : List Nat) (hd : Delim d) :
    ∀ (cs : List Nat), (∀ c ∈ cs, SegChar c) → kwFree cs = true → ∀ (l : Lexer) (lit : List Nat),
    l.rest = cs ++ d :: r → lit.getLast? ≠ some cSlashOp →
    iterate (parseIdentifierStep s0) (parseIdentifierStep_consumes s0) l lit =
      (.ok { type := cTypeIdentifier, startIdx := s0, endIdx := l.cursor + 1 + cs.length, literal := lit ++ cs },
        l.setCursor (l.cursor + 1 + cs.length)) := by
  intro cs
  induction cs with
  | nil =>
    intro _ _ l lit h hl
    have h' : l.rest = d :: r := by simpa using h
    obtain ⟨hp, _⟩ := Lexer.rest_cons h'
    have hcur : l.adv.cur = d := hp
    have hstep : parseIdentifierStep s0 l lit = (.done (identEnd s0 l.adv lit), l.adv) := by
      unfold parseIdentifierStep
      rcases hd with rfl | rfl
      · have a1 : isWhiteSpace runeSP = true := by decide
        simp only [hcur, a1, ↓reduceIte]
      · have a1 : isWhiteSpace runeLF = false := by decide
        have a2 : (matchKeyword l.adv).isSome = false := by
          unfold matchKeyword
          rw [hcur]
          have : keywordTable.lookup runeLF = none := by decide
          rw [this]; rfl
        have a3 : (runeLF == cSlashOp) = false := by decide
        have a4 : terminateMarkers.contains runeLF = true := by decide
        simp only [hcur, a1, a2, a3, a4, Bool.false_eq_true, ↓reduceIte, Bool.false_and]
    rw [iterate_done hstep]
    unfold identEnd
    have : (lit.getLast? == some cSlashOp) = false := by simpa using hl
    simp [this, Lexer.setCursor, Lexer.adv]
  | cons c cs ih =>
    intro hcs hkf l lit h hl
    have h' : l.rest = c :: (cs ++ d :: r) := by simpa using h
    obtain ⟨hp, hrest⟩ := Lexer.rest_cons h'
    have hcur : l.adv.cur = c := hp
    have hc := hcs c List.mem_cons_self
    obtain ⟨_, _, hsl⟩ := hc.solid
    obtain ⟨b1, b2, -, -, b5, -, -, b8⟩ := hc
    have hkf' : (kwAt Keywords.documented (c :: cs)).isNone = true ∧ kwFree cs = true := by
      simpa [kwFree] using hkf
    have hkw : matchKeyword l.adv = none := by
      have hh : here l.adv = c :: (cs ++ d :: r) := by rw [here_adv]; exact h'
      rw [matchKeyword_here hh]
      have := kwAt_none_append (c :: cs) d r hd (by simpa using hkf'.1)
      simpa using this
    have hstep : parseIdentifierStep s0 l lit = (.cont (lit ++ [c]), l.adv) := by
      unfold parseIdentifierStep
      have a3 : (c == cSlashOp) = false := by simpa using hsl
      have a4 : terminateMarkers.contains c = false := by
        unfold terminateMarkers
        rw [Bool.eq_false_iff]
        intro hc'
        rw [List.contains_iff_mem, List.mem_append] at hc'
        rcases hc' with hc' | hc'
        · rw [← List.contains_iff_mem, b8] at hc'; exact absurd hc' (by decide)
        · rw [← List.contains_iff_mem, b5] at hc'; exact absurd hc' (by decide)
      simp only [hcur, b2, hkw, a3, a4, b1, Option.isSome_none, Bool.false_eq_true, ↓reduceIte, Bool.false_and,
        Bool.true_or]
    rw [iterate_cont hstep, ih (fun x hx => hcs x (List.mem_cons_of_mem _ hx)) hkf'.2 l.adv (lit ++ [c]) hrest
      (by simp; exact hsl)]
    simp [Lexer.setCursor, Lexer.adv]
    omega

theorem dispatch_kw (sp : List Nat) (ty : Nat) (hw : (sp, ty) ∈ Keywords.documented) (l : Lexer) (r : List Nat)
    (h : here l = sp ++ r) :
    dispatchToken l = (.ok { type := ty, startIdx := l.cursor, endIdx := l.cursor + sp.length },
      l.setCursor (l.cursor + sp.length)) := by
  obtain ⟨c, sp', rfl⟩ : ∃ c sp', sp = c :: sp' := by
    cases sp with
    | nil => exact absurd rfl (documented_nonempty _ hw)
    | cons c sp' => exact ⟨c, sp', rfl⟩
  have h' : here l = c :: (sp' ++ r) := by simpa using h
  obtain ⟨hc, hr⟩ := here_cons h'
  have hseg : SegChar l.cur := by rw [hc]; exact documented_glyphs _ hw c List.mem_cons_self
  rw [dispatch_seg l hseg, keywordOrIdentifier_eq, hc, hr, kwAt_D]
  have := kwAt_of_prefix Keywords.documented documented_prefix_free (c :: sp', ty) hw r
  simp only [List.cons_append] at this
  rw [this]

theorem dispatch_name (cs : List Nat) (hne : cs ≠ []) (hcs : ∀ c ∈ cs, NameChar c) (hkf : kwFree cs = true)
    (l : Lexer) (d : Nat) (r : List Nat) (hd : Delim d) (h : here l = cs ++ d :: r) :
    dispatchToken l = (.ok { type := cTypeIdentifier, literal := cs, startIdx := l.cursor, endIdx := l.cursor + cs.length },
      l.setCursor (l.cursor + cs.length)) := by
  obtain ⟨c, cs', rfl⟩ : ∃ c cs', cs = c :: cs' := by
    cases cs with
    | nil => exact absurd rfl hne
    | cons c cs' => exact ⟨c, cs', rfl⟩
  have h' : here l = c :: (cs' ++ d :: r) := by simpa using h
  obtain ⟨hc, hr⟩ := here_cons h'
  have hcseg : SegChar c := hcs c List.mem_cons_self
  have hseg : SegChar l.cur := by rw [hc]; exact hcseg
  have hkf' : (kwAt Keywords.documented (c :: cs')).isNone = true ∧ kwFree cs' = true := by
    simpa [kwFree] using hkf
  rw [dispatch_seg l hseg, keywordOrIdentifier_eq, hc, hr, kwAt_D]
  have hk := kwAt_none_append (c :: cs') d r hd (by simpa using hkf'.1)
  simp only [List.cons_append] at hk
  rw [hk]
  dsimp only
  unfold parseIdentifier
  have hid : isIdentifierChar l.cur = true := hseg.1
  simp only [hid, Bool.not_true, Bool.false_eq_true, ↓reduceIte]
  rw [ident_run_delim l.cursor d r hd cs' (fun x hx => hcs x (List.mem_cons_of_mem _ hx)) hkf'.2 l [l.cur] hr
    (by simp; rw [hc]; exact hcseg.solid.2.2)]
  simp [hc, Lexer.setCursor]
  omega

/-! ### punctuation -/

theorem punct_facts : ∀ p ∈ punctuationTypeMap,
    markPunctuations.contains p.1 = true ∧ punctuationTypeMap.lookup p.1 = some p.2 ∧ p.1 ≠ 0 ∧ p.1 ≠ cCharZHU ∧
    p.1 ≠ cSlashOp ∧ leftQuotes.contains p.1 = false ∧ p.1 ≠ cBackTick := by decide

theorem dispatch_punct (ch ty : Nat) (hw : (ch, ty) ∈ punctuationTypeMap) (l : Lexer) (r : List Nat)
    (h : here l = ch :: r) :
    dispatchToken l = (.ok { type := ty, startIdx := l.cursor, endIdx := l.cursor + 1 }, l.setCursor (l.cursor + 1)) := by
  obtain ⟨hc, _⟩ := here_cons h
  obtain ⟨f1, f2, f3, f4, f5, f6, f7⟩ := punct_facts _ hw
  dsimp only at f1 f2 f3 f4 f5 f6 f7
  unfold dispatchToken
  have a1 : (l.cur == runeEOF) = false := by rw [hc]; simpa [runeEOF] using f3
  have a2 : (l.cur == cCharZHU || l.cur == cSlashOp) = false := by rw [hc]; simp [f4, f5]
  have a3 : (l.cur == cBackTick) = false := by rw [hc]; simpa using f7
  have a4 : leftQuotes.contains l.cur = false := by rw [hc]; exact f6
  simp only [a1, a2, a3, a4, Bool.false_eq_true, ↓reduceIte]
  unfold nextTokenTail
  have a5 : markPunctuations.contains l.cur = true := by rw [hc]; exact f1
  simp only [a5, ↓reduceIte]
  unfold parsePunctuations
  rw [hc, f2]
  rfl

/-! ### operator marks -/

theorem dispatch_op (sp : List Nat) (ty : Nat) (hw : (sp, ty) ∈ operatorTable) (l : Lexer) (d : Nat) (r : List Nat)
    (hd : d = runeSP ∨ (d = runeLF ∧ tightMarks.contains sp = false)) (h : here l = sp ++ d :: r) :
    dispatchToken l = (.ok { type := ty, startIdx := l.cursor, endIdx := l.cursor + sp.length },
      l.setCursor (l.cursor + sp.length)) := by
  simp only [operatorTable, List.mem_cons, Prod.mk.injEq, List.not_mem_nil, or_false] at hw
  rcases hw with ⟨rfl, rfl⟩ | ⟨rfl, rfl⟩ | ⟨rfl, rfl⟩ | ⟨rfl, rfl⟩ | ⟨rfl, rfl⟩ | ⟨rfl, rfl⟩ | ⟨rfl, rfl⟩ | ⟨rfl, rfl⟩ |
    ⟨rfl, rfl⟩ | ⟨rfl, rfl⟩ | ⟨rfl, rfl⟩ | ⟨rfl, rfl⟩ | ⟨rfl, rfl⟩ | ⟨rfl, rfl⟩ | ⟨rfl, rfl⟩ | ⟨rfl, rfl⟩
  all_goals
    simp only [List.cons_append, List.nil_append] at h
    obtain ⟨hc, hr⟩ := here_cons h
    obtain ⟨hp, _⟩ := Lexer.rest_cons hr
    rcases hd with rfl | ⟨rfl, ht⟩
  all_goals first
    | (exfalso; revert ht; decide)
    | simp [dispatchToken, parseComment, nextTokenTail, parseOperators, hc, hp, runeEOF, runeSP, runeLF, cCharZHU, cSlashOp,
        cMultiplyOp, leftQuotes, markPunctuations, markOperators, cBackTick, cRefOp, cAnnotationOp, cHashOp, cEqualOp,
        cLessThanOp, cGreaterThanOp, cIntDivOp, cRemainderOp, cPlusOp, cMinusOp, isWhiteSpace, whiteSpaces, markQuotes,
        cLeftDoubleQuoteI, cLeftDoubleQuoteII, cLeftSingleQuoteI, cLeftSingleQuoteII, cLeftLibQuoteI, Lexer.setCursor,
        Lexer.adv, cTypeObjRef, cTypeAnnotationT, cTypeMapHash, cTypeAssignMark, cTypeEqualMark, cTypeLTMark, cTypeLTEMark,
        cTypeGTMark, cTypeGTEMark, cTypeIntDivMark, cTypeModuloMark, cTypePlus, cTypeMinus, cTypeMultiply, cTypeDivision,
        cTypeNEMark]

/-! ### identifiers between back-ticks -/

theorem dispatch_quoted (cs : List Nat) (hw : ∀ c ∈ cs, isIdentifierChar c = true ∨ c ∈ IdRange.idContinue) (l : Lexer)
    (r : List Nat) (h : here l = cBackTick :: (cs ++ [cBackTick]) ++ r) :
    dispatchToken l = (.ok { type := cTypeIdentifier, literal := cs, startIdx := l.cursor, endIdx := l.cursor + (cs.length + 2) },
      l.setCursor (l.cursor + (cs.length + 2))) := by
  have h' : here l = cBackTick :: (cs ++ cBackTick :: r) := by simpa using h
  obtain ⟨hc, hr⟩ := here_cons h'
  unfold dispatchToken
  have a1 : (cBackTick == runeEOF) = false := by decide
  have a2 : (cBackTick == cCharZHU || cBackTick == cSlashOp) = false := by decide
  have a3 : leftQuotes.contains cBackTick = false := by decide
  simp only [hc, a1, a2, a3, Bool.false_eq_true, ↓reduceIte, beq_self_eq_true]
  unfold parseVarQuote
  rw [varQuote_run _ cs r hw l [] hr]
  simp [Nat.add_assoc]

/-! ### text literals -/

theorem loop_congr {o s ty : Nat} {a b : Lexer} {x y : List Nat × Nat} (h1 : a = b) (h2 : x = y) :
    parseStringLoop o s ty a x = parseStringLoop o s ty b y := by subst h1 h2; rfl

theorem setCursor_congr (l : Lexer) {a b : Nat} (h : a = b) : l.setCursor a = l.setCursor b := by rw [h]

/-- the loop of `parseString` over `encodeSafe q t` for a text without line breaks: every character of `t` is appended, and nothing
but the cursor changes -/
theorem safe_run_flat (q : Quote) (s ty : Nat) (post : List Nat) :
    ∀ (t : List Nat), (∀ c ∈ t, c ≠ runeCR ∧ c ≠ runeLF) → ∀ (l : Lexer) (lit : List Nat) (n : Nat),
      l.rest = encodeSafe q t ++ q.closer :: post →
      parseStringLoop q.opener s ty l (lit, n) =
        parseStringLoop q.opener s ty (l.setCursor (l.cursor + (encodeSafe q t).length)) (lit ++ t, n) := by
  intro t
  induction t with
  | nil => intro _ l lit n _; simp [encodeSafe, Lexer.setCursor]
  | cons c t' ih =>
    intro ht l lit n h
    have ht' : ∀ c ∈ t', c ≠ runeCR ∧ c ≠ runeLF := fun x hx => ht x (List.mem_cons_of_mem _ hx)
    obtain ⟨hcr, hlf⟩ := ht c List.mem_cons_self
    rw [encodeSafe_cons] at h ⊢
    by_cases hb : c = Spec.Literal.backTick
    · subst hb
      have he : encodeChar q Spec.Literal.backTick = [0x60, 0x42, 0x4B, 0x60] := by simp [encodeChar]
      rw [he] at h ⊢
      have h' : l.rest = cBackTick :: 0x42 :: 0x4B :: cBackTick :: (encodeSafe q t' ++ q.closer :: post) := by
        simpa [cBackTick] using h
      have h1 := Lexer.rest_cons h'
      have hu := unesc_BK (src := lit) (l := l.adv) h1.1 h1.2
      have h2 := (Lexer.rest_cons h1.2).2
      have h3 := (Lexer.rest_cons h2).2
      have h4 := (Lexer.rest_cons h3).2
      rw [parseStringLoop_cont (strStep_backtick h'), hu, ih ht' l.adv.adv.adv.adv (lit ++ [0x60]) n h4]
      exact loop_congr (setCursor_congr l (by simp [Lexer.adv]; omega)) (by simp [Spec.Literal.backTick])
    · by_cases hq : c = q.opener ∨ c = q.closer
      · have he : encodeChar q c = [0x60, c, 0x60] := by simp [encodeChar, hb, hq]
        rw [he] at h ⊢
        have h' : l.rest = cBackTick :: c :: cBackTick :: (encodeSafe q t' ++ q.closer :: post) := by
          simpa [cBackTick] using h
        have h1 := Lexer.rest_cons h'
        have hqc : isQuoteChar c = true := by
          rcases hq with rfl | rfl
          · exact (quote_facts q).2.2.2.2.2.1
          · exact (quote_facts q).2.2.2.2.2.2
        have hu := unesc_quote (src := lit) (l := l.adv) h1.1 h1.2 hqc
        have h2 := (Lexer.rest_cons h1.2).2
        have h3 := (Lexer.rest_cons h2).2
        rw [parseStringLoop_cont (strStep_backtick h'), hu, ih ht' l.adv.adv.adv (lit ++ [c]) n h3]
        exact loop_congr (setCursor_congr l (by simp [Lexer.adv]; omega)) (by simp)
      · by_cases h0 : c = 0
        · subst h0
          have he : encodeChar q 0 = [0x60, 0x55, 0x2B, 0x30, 0x60] := by
            simp [encodeChar, Spec.Literal.backTick] at hb hq ⊢
            simp [hq.1, hq.2]
          rw [he] at h ⊢
          have h' : l.rest = cBackTick :: 0x55 :: 0x2B :: 0x30 :: ([] ++ cBackTick :: (encodeSafe q t' ++ q.closer :: post)) := by
            simpa [cBackTick] using h
          have h1 := Lexer.rest_cons h'
          have hu := unesc_U (src := lit) (l := l.adv) 0x30 [] (by decide) (by decide) h1.1 h1.2
          have hv2 : Spec.Literal.hexVal [0x30] = 0 := by decide
          have hv : Spec.Literal.validScalar 0 = true := by decide
          simp only [hv2, hv, ↓reduceIte, List.length_nil, Nat.add_zero] at hu
          have h2 := (Lexer.rest_cons h1.2).2
          have h3 := (Lexer.rest_cons h2).2
          have h4 := (Lexer.rest_cons h3).2
          have h5 := (Lexer.rest_cons h4).2
          rw [parseStringLoop_cont (strStep_backtick h'), hu,
            ih ht' (l.adv.setCursor (l.adv.cursor + 4)) (lit ++ [0]) n h5]
          exact loop_congr (setCursor_congr l (by simp [Lexer.adv, Lexer.setCursor]; omega)) (by simp)
        · have hq' : c ≠ q.opener ∧ c ≠ q.closer := by
            constructor <;> intro e <;> exact hq (by simp [e])
          have he : encodeChar q c = [c] := by simp [encodeChar, hb, hq, h0]
          rw [he] at h ⊢
          have h' : l.rest = c :: (encodeSafe q t' ++ q.closer :: post) := by simpa using h
          have hbt : c ≠ cBackTick := hb
          rw [parseStringLoop_cont (str_ordinary h' h0 hbt hcr hlf hq'.1 hq'.2),
            ih ht' l.adv (lit ++ [c]) n (Lexer.rest_cons h').2]
          exact loop_congr (setCursor_congr l (by simp [Lexer.adv]; omega)) (by simp)

theorem quote_dispatch_facts (q : Quote) :
    (q.opener == runeEOF) = false ∧ (q.opener == cCharZHU || q.opener == cSlashOp) = false ∧
    leftQuotes.contains q.opener = true ∧ stringTokenType q.opener = q.type := by
  cases q <;> decide

theorem dispatch_text (q : Quote) (t : List Nat) (hw : ∀ c ∈ t, c ≠ runeCR ∧ c ≠ runeLF) (l : Lexer) (r : List Nat)
    (h : here l = literalSafe q t ++ r) :
    dispatchToken l = (.ok { type := q.type, literal := t, startIdx := l.cursor, endIdx := l.cursor + (literalSafe q t).length },
      l.setCursor (l.cursor + (literalSafe q t).length)) := by
  have h' : here l = q.opener :: (encodeSafe q t ++ q.closer :: r) := by simpa [literalSafe] using h
  obtain ⟨hc, hr⟩ := here_cons h'
  obtain ⟨a1, a2, a3, a4⟩ := quote_dispatch_facts q
  unfold dispatchToken
  simp only [hc, a1, a2, a3, Bool.false_eq_true, ↓reduceIte]
  unfold parseString
  rw [hc, a4, safe_run_flat q l.cursor q.type r t hw l [] 1 hr]
  have hr2 : (l.setCursor (l.cursor + (encodeSafe q t).length)).rest = q.closer :: r := by
    have := Lexer.rest_skip (l := l) (a := encodeSafe q t) (b := q.closer :: r) hr
    exact this
  rw [parseStringLoop_done (by rw [str_closer hr2]; rfl)]
  simp [literalSafe, Lexer.setCursor, Lexer.adv, Nat.add_assoc]

/-! ### all classes -/

/-- **one token of the rendering**: with the cursor on the first character of a well-formed item's spelling, followed by a space — or,
unless the item is one of `+ - * /`, by a line feed — the dispatch of `NextToken` answers exactly the item's token and moves the
cursor to that delimiter -/
theorem dispatch_item (it : Item) (hw : it.WF) (l : Lexer) (d : Nat) (r : List Nat)
    (hd : d = runeSP ∨ (d = runeLF ∧ it.tight = false)) (h : here l = it.spelling ++ d :: r) :
    dispatchToken l = (.ok (it.token l.cursor), l.setCursor (l.cursor + it.spelling.length)) := by
  have hdel : Delim d := hd.imp id (fun x => x.1)
  cases it with
  | kw sp ty => exact dispatch_kw sp ty hw l (d :: r) h
  | punct ch ty => exact dispatch_punct ch ty hw l (d :: r) h
  | op sp ty => exact dispatch_op sp ty hw l d r hd h
  | name cs => exact dispatch_name cs hw.1 hw.2.1 hw.2.2 l d r hdel h
  | quoted cs =>
    have := dispatch_quoted cs hw l (d :: r) h
    simpa [Item.token, Item.spelling, Item.type, Item.literal] using this
  | text q t => exact dispatch_text q t hw l (d :: r) h
  | cmt c => exact hw.elim

instance (c : Nat) : Decidable (Solid c) := by unfold Solid; infer_instance

/-- the first character of a well-formed item's spelling is a solid, non-NUL character -/
theorem spelling_head (it : Item) (hw : it.WF) : ∃ c sp, it.spelling = c :: sp ∧ Solid c ∧ c ≠ 0 ∧ c ≠ runeTAB := by
  cases it with
  | kw sp ty =>
    obtain ⟨c, sp', rfl⟩ : ∃ c sp', sp = c :: sp' := by
      cases sp with
      | nil => exact absurd rfl (documented_nonempty _ hw)
      | cons c sp' => exact ⟨c, sp', rfl⟩
    have hs := documented_glyphs _ hw c List.mem_cons_self
    exact ⟨c, sp', rfl, hs.solid.1, hs.solid.2.1, by intro e; have := hs.2.1; rw [e] at this; revert this; decide⟩
  | punct ch ty =>
    have : ∀ p ∈ punctuationTypeMap, Solid p.1 ∧ p.1 ≠ 0 ∧ p.1 ≠ runeTAB := by decide
    exact ⟨ch, [], rfl, this _ hw⟩
  | op sp ty =>
    have : ∀ p ∈ operatorTable, p.1 ≠ [] ∧ Solid (p.1.headD 0) ∧ p.1.headD 0 ≠ 0 ∧ p.1.headD 0 ≠ runeTAB := by decide
    obtain ⟨h1, h2⟩ := this _ hw
    cases sp with
    | nil => exact absurd rfl h1
    | cons c sp' => exact ⟨c, sp', rfl, h2⟩
  | name cs =>
    obtain ⟨hne, hcs, _⟩ := hw
    obtain ⟨c, cs', rfl⟩ : ∃ c cs', cs = c :: cs' := by
      cases cs with
      | nil => exact absurd rfl hne
      | cons c cs' => exact ⟨c, cs', rfl⟩
    have hs : SegChar c := hcs c List.mem_cons_self
    exact ⟨c, cs', rfl, hs.solid.1, hs.solid.2.1, by intro e; have := hs.2.1; rw [e] at this; revert this; decide⟩
  | quoted cs => exact ⟨cBackTick, cs ++ [cBackTick], rfl, by decide, by decide, by decide⟩
  | text q t =>
    refine ⟨q.opener, encodeSafe q t ++ [q.closer], rfl, ?_⟩
    cases q <;> decide
  | cmt c => exact hw.elim

end ZnVerif.Proofs.RenderLex
