/-
Loop signals at statement level: a statement (block) can end with `.err .sigBreak` / `.err .sigContinue` only if
a 结束循环 / 继续循环 stands *lexically* in it, outside every loop of that statement (`FreeSig`): loops consume the
signals of their bodies, expressions and calls never produce one (Proofs/LoopSignals.lean).
-/
import ZnVerif.Proofs.LoopSignalsEval
set_option linter.unusedSectionVars false
set_option linter.unusedVariables false

namespace ZnVerif.Proofs.LoopSignals
open ZnVerif.Model ZnVerif.Proofs.ControlFlow

variable {ν : Type} [NumOps ν]

/-- `SigOnly P m`: if `m` ends with a loop signal `e` then `P e` -/
structure SigOnly {α} (P : Err → Prop) (m : M ν α) : Prop where
  out : ∀ s e s', m s = (.err e, s') → Err.isLoopSignal e = true → P e

theorem NoSig.sigOnly {α} {m : M ν α} (h : NoSig m) (P : Err → Prop) : SigOnly P m :=
  ⟨fun s e s' he hs => by rw [h.out s e s' he] at hs; cases hs⟩

theorem SigOnly.mono {α} {P Q : Err → Prop} {m : M ν α} (h : SigOnly P m) (hpq : ∀ e, P e → Q e) : SigOnly Q m :=
  ⟨fun s e s' he hs => hpq e (h.out s e s' he hs)⟩

theorem SigOnly.bind {α β} {P : Err → Prop} {m : M ν α} {f : α → M ν β} (hm : SigOnly P m) (hf : ∀ a, SigOnly P (f a)) :
    SigOnly P (m >>= f) := by
  constructor; intro s e s' h hs
  simp only [Bind.bind] at h
  rcases hms : m s with ⟨r, s1⟩
  rw [hms] at h
  cases r with
  | ok a => exact (hf a).out s1 e s' h hs
  | err e1 => simp at h; obtain ⟨rfl, rfl⟩ := h; exact hm.out s _ _ hms hs
  | panic => simp at h
  | fuel => simp at h
  | unmodelled => simp at h

theorem SigOnly.withScope {α} {P : Err → Prop} {m : M ν α} (hm : SigOnly P m) : SigOnly P (Model.withScope m) := by
  constructor; intro s e s' h hs
  rw [withScope_eq] at h
  have : m (enterScope s) = (.err e, (m (enterScope s)).2) := by
    rcases hms : m (enterScope s) with ⟨r, s1⟩
    rw [hms] at h; simp at h; rw [h.1]
  exact hm.out _ _ _ this hs

theorem NoSig.setTopFrame (f : Frame → Frame) : NoSig (setTopFrame f : M ν Unit) := NoSig.modifyVM _
macro_rules | `(tactic| nosig_leaf) => `(tactic| exact NoSig.setTopFrame _)

/-! ### loops consume the signals of their bodies -/

theorem NoSig.whileM {step : M ν Bool} (h : NoSig step) : ∀ k, NoSig (whileM k step)
  | 0 => NoSig.outOfFuel
  | k+1 => by
    unfold Model.whileM
    refine NoSig.bind h fun b => ?_
    split
    · exact NoSig.whileM h k
    · exact NoSig.pure _

theorem NoSig.untilM {α} {f : α → M ν Bool} (h : ∀ a, NoSig (f a)) : ∀ xs : List α, NoSig (untilM f xs)
  | [] => NoSig.pure _
  | x :: xs => by
    unfold Model.untilM
    refine NoSig.bind (h x) fun b => ?_
    split
    · exact NoSig.pure _
    · exact NoSig.untilM h xs

theorem NoSig.untilIdxM {α} {f : Nat → α → M ν Bool} (h : ∀ i a, NoSig (f i a)) : ∀ (i : Nat) (xs : List α), NoSig (untilIdxM f i xs)
  | _, [] => NoSig.pure _
  | i, x :: xs => by
    unfold Model.untilIdxM
    refine NoSig.bind (h i x) fun b => ?_
    split
    · exact NoSig.pure _
    · exact NoSig.untilIdxM h (i+1) xs

/-- one turn of 每当: whatever the body does, the turn does not end with a loop signal -/
theorem NoSig.whileStep (n : Nat) (c : Expr) (body : Option (List Stmt)) : NoSig (whileStep n c body : M ν Bool) := by
  unfold ControlFlow.whileStep
  refine NoSig.bind (NoSig.evalExpr _ _) fun a => NoSig.bind (NoSig.getCell _) fun cell => ?_
  split
  · refine NoSig.tryCatch _ fun r => ?_
    rcases r with _ | e | _ | _ | _
    · nosig
    · cases e <;> first | exact NoSig.pure _ | exact NoSig.throwE rfl
    · exact NoSig.goPanic
    · exact NoSig.outOfFuel
    · exact NoSig.notModelled
  · exact NoSig.pure _
  · exact NoSig.rtErr _

theorem NoSig.whileTurn (n ln : Nat) (c : Expr) (body : Option (List Stmt)) :
    NoSig (whileTurn n ln c body : M ν Bool) := by
  unfold ControlFlow.whileTurn
  exact NoSig.bind (NoSig.setTopFrame _) fun _ => NoSig.whileStep n c body

/-- one pass of 遍历 likewise -/
theorem NoSig.iterPass (n nameLen : Nat) (slots : Option String × Option String) (body : Option (List Stmt))
    (key v : Addr) : NoSig (iterPass n nameLen slots body key v : M ν Bool) := by
  unfold ControlFlow.iterPass
  refine NoSig.tryCatch _ fun r => ?_
  rcases r with _ | e | _ | _ | _
  · nosig
  · cases e <;> first | exact NoSig.pure _ | exact NoSig.throwE rfl
  · exact NoSig.goPanic
  · exact NoSig.outOfFuel
  · exact NoSig.notModelled

theorem NoSig.iterSlots (names : List Ident) : NoSig (iterSlots names : M ν (Option String × Option String)) := by
  unfold ControlFlow.iterSlots; nosig

theorem NoSig.iterLoop (n nameLen : Nat) (slots : Option String × Option String) (body : Option (List Stmt))
    (target : Addr) : NoSig (iterLoop n nameLen slots body target : M ν Unit) := by
  unfold ControlFlow.iterLoop
  refine NoSig.bind (NoSig.getCell _) fun cell => ?_
  split
  · refine NoSig.untilIdxM (fun i v => ?_) _ _
    unfold ControlFlow.iterListStep
    exact NoSig.bind (NoSig.newNum _) fun _ => NoSig.iterPass _ _ _ _ _ _
  · refine NoSig.untilM (fun k => ?_) _
    unfold ControlFlow.iterDictStep
    refine NoSig.bind (NoSig.getCell _) fun c2 => ?_
    split
    · split
      · exact NoSig.bind (NoSig.newStr _) fun _ => NoSig.iterPass _ _ _ _ _ _
      · exact NoSig.pure _
    · exact NoSig.goPanic
  · exact NoSig.rtErr _

/-- **a 每当 statement never ends with a loop signal**, whatever its body is -/
theorem NoSig.whileStmt (n ln : Nat) (c : Expr) (body : Option (List Stmt)) :
    NoSig (evalStmt (n+1) (.while ln c body) : M ν Addr) := by
  constructor; intro s e s' h
  rw [evalStmt_while] at h
  exact (NoSig.bind (NoSig.whileM (NoSig.whileTurn n ln c body) n) fun _ => NoSig.newNull).out _ _ _ h

/-- **nor does a 遍历 statement** -/
theorem NoSig.iterateStmt (n ln : Nat) (e : Expr) (names : List Ident) (body : Option (List Stmt)) :
    NoSig (evalStmt (n+1) (.iterate ln e names body) : M ν Addr) := by
  constructor; intro s er s' h
  rw [evalStmt_iterate] at h
  exact (NoSig.bind (NoSig.withScope (NoSig.bind (NoSig.evalExpr _ _) fun t => NoSig.bind (NoSig.iterSlots _) fun sl =>
    NoSig.iterLoop _ _ _ _ _)) fun _ => NoSig.newNull).out _ _ _ h

/-! ### definitions -/

theorem NoSig.evalClassDecl (n : Nat) (st : Stmt) : NoSig (evalClassDecl n st : M ν Unit) := by
  cases n with
  | zero => unfold Model.evalClassDecl; exact NoSig.outOfFuel
  | succ n => unfold Model.evalClassDecl; nosig
theorem NoSig.evalFuncDecl (n : Nat) (st : Stmt) : NoSig (evalFuncDecl n st : M ν Unit) := by
  cases n with
  | zero => unfold Model.evalFuncDecl; exact NoSig.outOfFuel
  | succ n => unfold Model.evalFuncDecl; nosig
theorem NoSig.evalCtorDecl (n : Nat) (st : Stmt) : NoSig (evalCtorDecl n st : M ν Unit) := by
  cases n with
  | zero => unfold Model.evalCtorDecl; exact NoSig.outOfFuel
  | succ n => unfold Model.evalCtorDecl; nosig
macro_rules | `(tactic| nosig_leaf) => `(tactic| first
  | exact NoSig.evalClassDecl _ _ | exact NoSig.evalFuncDecl _ _ | exact NoSig.evalCtorDecl _ _)

/-! ### where a signal can come from, lexically -/

/-- `FreeSig e st`: the statement `st` contains, outside every loop of `st` (and outside method bodies, which
are not part of `st`'s control flow), a 结束循环 (`e = sigBreak`) resp. 继续循环 (`e = sigContinue`): it *is* one, or it
is a 如果 statement one of whose blocks contains such a statement. -/
inductive FreeSig : Err → Stmt → Prop
  | brk (ln : Nat) : FreeSig .sigBreak (.break ln)
  | cont (ln : Nat) : FreeSig .sigContinue (.continue ln)
  | inIf {e : Err} {st : Stmt} {ln : Nat} {c : Expr} {ifB : List Stmt} {others : List (Expr × Option (List Stmt))}
      {he : Bool} {elseB : Option (List Stmt)} :
      st ∈ ifB → FreeSig e st → FreeSig e (.branch ln c (some ifB) others he elseB)
  | inOther {e : Err} {st : Stmt} {ln : Nat} {c oc : Expr} {ifB elseB : Option (List Stmt)} {ob : List Stmt}
      {others : List (Expr × Option (List Stmt))} {he : Bool} :
      (oc, some ob) ∈ others → st ∈ ob → FreeSig e st → FreeSig e (.branch ln c ifB others he elseB)
  | inElse {e : Err} {st : Stmt} {ln : Nat} {c : Expr} {ifB : Option (List Stmt)} {elseB : List Stmt}
      {others : List (Expr × Option (List Stmt))} :
      st ∈ elseB → FreeSig e st → FreeSig e (.branch ln c ifB others true (some elseB))

/-- a block contains a free signal statement -/
def BlockFreeSig (e : Err) (b : Option (List Stmt)) : Prop := ∃ stmts st, b = some stmts ∧ st ∈ stmts ∧ FreeSig e st

theorem SigOnly.stmtsLoop {ev : Stmt → M ν Addr} :
    ∀ (stmts : List Stmt) (last : Option Addr), (∀ st ∈ stmts, SigOnly (fun e => FreeSig e st) (ev st)) →
      SigOnly (fun e => ∃ st ∈ stmts, FreeSig e st) (stmtsLoop ev last stmts)
  | [], last, _ => (NoSig.pure (ν := ν) last).sigOnly _
  | st :: rest, last, h => by
    unfold Model.stmtsLoop
    have hjp : ∀ last' : Option Addr, SigOnly (fun e => ∃ x ∈ st :: rest, FreeSig e x)
        (getReturnValue >>= fun o => match o with
          | some rv => (Pure.pure (some rv) : M ν (Option Addr))
          | none => Model.stmtsLoop ev last' rest) := fun last' => by
      refine SigOnly.bind ((NoSig.getReturnValue (ν := ν)).sigOnly _) fun o => ?_
      split
      · exact (NoSig.pure _).sigOnly _
      · exact (SigOnly.stmtsLoop rest last' fun x hx => h x (by simp [hx])).mono
          fun e ⟨x, hx, hf⟩ => ⟨x, by simp [hx], hf⟩
    dsimp only
    split
    · exact hjp _
    · exact SigOnly.bind ((h st (by simp)).mono fun e he => ⟨st, by simp, he⟩) fun _ => hjp _

theorem SigOnly.firstM {α β} {P : Err → Prop} {f : α → M ν (Option β)} {d : M ν β} (hd : SigOnly P d) :
    ∀ xs : List α, (∀ a ∈ xs, SigOnly P (f a)) → SigOnly P (firstM f d xs)
  | [], _ => hd
  | x :: xs, h => by
    unfold Model.firstM
    refine SigOnly.bind (h x (by simp)) fun o => ?_
    split
    · exact (NoSig.pure _).sigOnly _
    · exact SigOnly.firstM hd xs fun a ha => h a (by simp [ha])

/-- **loop signals are lexical.**  If a statement ends with `.err .sigBreak` (`.err .sigContinue`), a 结束循环
(继续循环) stands in it outside every loop of that statement; for a block: in one of its statements. -/
theorem sig_lexical : ∀ n : Nat,
    (∀ st : Stmt, SigOnly (fun e => FreeSig e st) (evalStmt n st : M ν Addr)) ∧
    (∀ b : Option (List Stmt), SigOnly (fun e => BlockFreeSig e b) (evalPureStmtBlock n b : M ν (Option Addr)))
  | 0 => ⟨fun st => by unfold Model.evalStmt; exact NoSig.outOfFuel.sigOnly _,
          fun b => by unfold Model.evalPureStmtBlock; exact NoSig.outOfFuel.sigOnly _⟩
  | n+1 => by
    obtain ⟨ihS, ihB⟩ := sig_lexical n
    constructor
    · intro st
      cases st with
      | «while» ln c body => exact (NoSig.whileStmt n ln c body).sigOnly _
      | iterate ln e names body => exact (NoSig.iterateStmt n ln e names body).sigOnly _
      | «break» ln =>
        constructor; intro s e s' h hs
        simp [Model.evalStmt, bind, setTopFrame, Model.modifyVM, Model.throwE] at h
        rw [← h.1]; exact .brk ln
      | «continue» ln =>
        constructor; intro s e s' h hs
        simp [Model.evalStmt, bind, setTopFrame, Model.modifyVM, Model.throwE] at h
        rw [← h.1]; exact .cont ln
      | branch ln c ifB others he elseB =>
        constructor; intro s e s' h hs
        rw [evalStmt_branch] at h
        have hblk : ∀ (b : Option (List Stmt)) (Q : Err → Prop), (∀ e, BlockFreeSig e b → Q e) → ∀ {γ} (k : M ν γ), NoSig k →
            SigOnly Q (evalPureStmtBlock n b >>= fun _ => k) := fun b Q hq γ k hk =>
          SigOnly.bind ((ihB b).mono hq) fun _ => hk.sigOnly _
        refine (SigOnly.bind ((NoSig.evalExpr n c).sigOnly _) fun a => SigOnly.bind ((NoSig.getCell a).sigOnly _)
          fun cell => ?_ : SigOnly (fun e => FreeSig e (.branch ln c ifB others he elseB)) _).out _ _ _ h hs
        split
        · exact hblk ifB _ (fun e ⟨stmts, st, hb, hm, hf⟩ => by subst hb; exact .inIf hm hf) _ NoSig.newNull
        · refine SigOnly.bind (SigOnly.firstM ?_ others fun o ho => ?_) fun _ => NoSig.newNull.sigOnly _
          · unfold ControlFlow.branchElse
            split
            · rename_i hhe
              exact hblk elseB _ (fun e ⟨stmts, st, hb, hm, hf⟩ => by subst hb; subst hhe; exact .inElse hm hf) _ (NoSig.pure _)
            · exact (NoSig.pure _).sigOnly _
          · unfold ControlFlow.branchOther
            refine SigOnly.bind ((NoSig.evalExpr n o.1).sigOnly _) fun a => SigOnly.bind ((NoSig.getCell a).sigOnly _)
              fun cell => ?_
            split
            · exact hblk o.2 _ (fun e ⟨stmts, st, hb, hm, hf⟩ =>
                .inOther (oc := o.1) (ob := stmts) (by rw [← hb]; exact ho) hm hf) _ (NoSig.pure _)
            · exact (NoSig.pure _).sigOnly _
            · exact (NoSig.rtErr _).sigOnly _
        · exact (NoSig.rtErr _).sigOnly _
      | varDecl ln pairs => refine NoSig.sigOnly ?_ _; unfold Model.evalStmt; nosig
      | empty ln => refine NoSig.sigOnly ?_ _; unfold Model.evalStmt; nosig
      | funcDecl ln name dt exec => refine NoSig.sigOnly ?_ _; unfold Model.evalStmt; nosig
      | classDecl ln name props methods getters => refine NoSig.sigOnly ?_ _; unfold Model.evalStmt; nosig
      | ret ln e => refine NoSig.sigOnly ?_ _; unfold Model.evalStmt; nosig
      | throw ln cls params => refine NoSig.sigOnly ?_ _; unfold Model.evalStmt; nosig
      | expr e => refine NoSig.sigOnly ?_ _; unfold Model.evalStmt; nosig
      | nil => refine NoSig.sigOnly ?_ _; unfold Model.evalStmt; nosig
    · intro b
      cases b with
      | none => unfold Model.evalPureStmtBlock; exact NoSig.goPanic.sigOnly _
      | some stmts =>
        constructor; intro s e s' h hs
        rw [evalPureStmtBlock_eq] at h
        obtain ⟨st, hm, hf⟩ := (SigOnly.withScope (SigOnly.stmtsLoop stmts none fun st _ => ihS st)).out _ _ _ h hs
        exact ⟨stmts, st, rfl, hm, hf⟩

end ZnVerif.Proofs.LoopSignals
