/-
Helper lemmas for C12 (container core): the list algorithms of array.go / iv.go against `Spec.Seq`, the Go-map
association list, the in-place delete loop, the HashMap invariant and its abstraction to `Spec.OrderedMap`.
Property theorems are in Properties/C12.lean.  Core Lean only.
-/
import ZnVerif.Model.Containers
import ZnVerif.Spec.CollHistory

namespace ZnVerif.Proofs.Containers
open ZnVerif.Model.Containers
open ZnVerif.Spec

variable {α : Type}

/-! ## lists -/

theorem insertNth_eq (x : α) : ∀ (n : Nat) (l : List α), Seq.insertNth x n l = l.take n ++ x :: l.drop n
  | 0, l => by simp [Seq.insertNth]
  | n + 1, [] => by simp [Seq.insertNth]
  | n + 1, h :: t => by simp [Seq.insertNth, insertNth_eq x n t]

theorem insertNth_ge (x : α) (n : Nat) (l : List α) (h : l.length ≤ n) : Seq.insertNth x n l = l ++ [x] := by
  rw [insertNth_eq, List.take_of_length_le h, List.drop_eq_nil_of_le h]

/-- the raw helper: where it answers, and that it panics exactly before the first item -/
theorem insertArrayValue_ok (v : List α) (idx : Int) (x : α) (h : 0 ≤ (v.length : Int) + idx ∨ 0 ≤ idx) :
    insertArrayValue v idx x = .ok (Seq.insertNth x (if idx < 0 then (v.length : Int) + idx else idx).toNat v) := by
  unfold insertArrayValue
  by_cases h1 : idx ≥ (v.length : Int)
  · have : ¬ idx < 0 := by omega
    simp only [h1, if_true, this, if_false]
    rw [insertNth_ge]; omega
  · simp only [h1, if_false]
    by_cases h2 : idx < 0
    · have h3 : ¬ ((v.length : Int) + idx < 0) := by omega
      simp only [h2, if_true, h3, if_false]
      rw [insertNth_eq]; simp
    · have h3 : ¬ (idx < 0) := h2
      simp only [h3, if_false]
      rw [insertNth_eq]; simp

theorem insertArrayValue_panic_iff (v : List α) (idx : Int) (x : α) :
    insertArrayValue v idx x = .panic ↔ (idx < 0 ∧ (v.length : Int) + idx < 0) := by
  constructor
  · intro h
    by_cases hc : idx < 0 ∧ (v.length : Int) + idx < 0
    · exact hc
    · have := insertArrayValue_ok v idx x (by omega)
      rw [this] at h; cases h
  · intro ⟨h1, h2⟩
    unfold insertArrayValue
    have : ¬ idx ≥ (v.length : Int) := by omega
    simp [this, h1, h2]

theorem arrayInsert_eq (v : List α) (x : α) (idx : Int) :
    arrayInsert v x idx = match Seq.insertAt v idx x with
      | some l => .ok l
      | none => .err errIndexOutOfRange := by
  unfold arrayInsert Seq.insertAt
  by_cases h0 : 0 ≤ idx
  · have : ¬ (idx < 0 ∧ (v.length : Int) + idx < 0) := by omega
    have h1 : ¬ idx < 0 := by omega
    simp only [this, if_false, h0, if_true]
    rw [insertArrayValue_ok v idx x (Or.inr h0)]; simp [h1]
  · by_cases h2 : 0 ≤ (v.length : Int) + idx
    · have : ¬ (idx < 0 ∧ (v.length : Int) + idx < 0) := by omega
      have h1 : idx < 0 := by omega
      simp only [this, if_false, h0, h2, if_true]
      rw [insertArrayValue_ok v idx x (Or.inl h2)]; simp [h1]
    · have : (idx < 0 ∧ (v.length : Int) + idx < 0) := by omega
      simp [this, h0, h2]

theorem arrayPrepend_eq (v : List α) (x : α) : arrayPrepend v x = .ok (x :: v) := by
  unfold arrayPrepend
  rw [insertArrayValue_ok v 0 x (Or.inr (by omega))]
  simp [Seq.insertNth]

theorem arrayAppend_eq (v : List α) (x : α) : arrayAppend v x = .ok (v ++ [x]) := by
  unfold arrayAppend
  rw [insertArrayValue_ok v _ x (Or.inr (by omega))]
  have : ¬ ((v.length : Int) < 0) := by omega
  simp only [this, if_false]
  rw [insertNth_ge]; simp

theorem arrayGetFirst_eq (v : List α) : arrayGetFirst v = v.head? := by
  unfold arrayGetFirst
  cases v <;> simp

theorem arrayGetLast_eq (v : List α) : arrayGetLast v = v.getLast? := by
  unfold arrayGetLast
  cases v with
  | nil => simp
  | cons h t => rw [List.getLast?_eq_getElem?]; simp

theorem reverse_fold (v : List α) : ∀ n, n ≤ v.length →
    (List.range n).foldl (reverseStep v) (Res.ok []) = .ok ((v.drop (v.length - n)).reverse)
  | 0, _ => by simp
  | n + 1, h => by
    rw [List.range_succ, List.foldl_append, reverse_fold v n (by omega)]
    have hlt : v.length - 1 - n < v.length := by omega
    have hd : v.drop (v.length - (n + 1)) = v[v.length - 1 - n] :: v.drop (v.length - n) := by
      have : v.length - (n + 1) = v.length - 1 - n := by omega
      rw [this, List.drop_eq_getElem_cons hlt]
      congr 2; omega
    simp only [List.foldl_cons, List.foldl_nil, reverseStep, List.getElem?_eq_getElem hlt, hd, List.reverse_cons]

theorem arrayGetReverse_eq (v : List α) : arrayGetReverse v = .ok v.reverse := by
  unfold arrayGetReverse
  rw [reverse_fold v v.length (Nat.le_refl _)]
  simp

theorem arraySetFirst_eq (v : List α) (x : α) : arraySetFirst v x = Seq.setFirst v x := by
  unfold arraySetFirst
  cases v <;> simp [Seq.setFirst]

theorem set_last (x : α) : ∀ (l : List α), l ≠ [] → l.set (l.length - 1) x = l.dropLast ++ [x]
  | [], h => absurd rfl h
  | [a], _ => by simp
  | a :: b :: t, _ => by
    have := set_last x (b :: t) (by simp)
    simp only [List.length_cons, Nat.add_sub_cancel] at this ⊢
    simp [this]

theorem arraySetLast_eq (v : List α) (x : α) : arraySetLast v x = Seq.setLast v x := by
  unfold arraySetLast
  cases v with
  | nil => simp [Seq.setLast]
  | cons h t =>
    have := set_last x (h :: t) (by simp)
    simp only [List.length_cons, Nat.add_sub_cancel] at this
    simp [Seq.setLast, this]

theorem shiftLeft_eq (v : List α) : shiftArrayValue v true = Seq.shiftLeft v := by
  cases v <;> simp [shiftArrayValue, Seq.shiftLeft]

theorem shiftRight_eq (v : List α) : shiftArrayValue v false = Seq.shiftRight v := by
  cases v with
  | nil => simp [shiftArrayValue, Seq.shiftRight]
  | cons h t =>
    simp only [shiftArrayValue, Seq.shiftRight, Bool.false_eq_true, if_false]
    rw [List.getLast?_eq_getElem?, List.dropLast_eq_take]

theorem foldl_append_flatten (args : List (List α)) : ∀ acc : List α,
    args.foldl (fun acc a => acc ++ a) acc = acc ++ args.flatten := by
  induction args with
  | nil => simp
  | cons a rest ih => intro acc; simp [ih]

theorem arrayMerge_eq (v : List α) (args : List (List α)) : arrayMerge v args = Seq.merge v args := by
  unfold arrayMerge Seq.merge
  rw [foldl_append_flatten]; simp

theorem arrayContains_eq (eq : α → α → Bool) (x : α) (v : List α) :
    arrayContains eq x v = Seq.contains eq v x := by
  induction v with
  | nil => simp [arrayContains, Seq.contains]
  | cons h t ih =>
    simp only [arrayContains, Seq.contains, List.any_cons] at ih ⊢
    cases hx : eq h x <;> simp [ih]

theorem arrayFindFrom_eq (eq : α → α → Bool) (x : α) (v : List α) : ∀ i : Nat,
    arrayFindFrom eq x i v = match v.findIdx? (fun item => eq item x) with
      | some j => ((i + j : Nat) : Int)
      | none => -1 := by
  induction v with
  | nil => intro i; simp [arrayFindFrom]
  | cons h t ih =>
    intro i
    simp only [arrayFindFrom, List.findIdx?_cons]
    cases hx : eq h x
    · simp only [Bool.false_eq_true, if_false, ih (i + 1)]
      cases t.findIdx? (fun item => eq item x) with
      | none => simp
      | some j => simp only [Option.map_some]; congr 1; omega
    · simp

theorem arrayFind_eq (eq : α → α → Bool) (x : α) (v : List α) : arrayFind eq x v = Seq.find eq v x := by
  unfold arrayFind Seq.find
  rw [arrayFindFrom_eq]
  cases v.findIdx? (fun item => eq item x) <;> simp

theorem inRange_toNat {v : List α} {i : Int} (h : Seq.InRange v i) : (i - 1).toNat < v.length := by
  unfold Seq.InRange at h; omega

theorem ivArrayRead_eq (v : List α) (i : Int) :
    ivArrayRead v i = match Seq.get1 v i with
      | some x => .ok x
      | none => .err errIndexOutOfRange := by
  unfold ivArrayRead Seq.get1
  by_cases h : Seq.InRange v i
  · have hlt := inRange_toNat h
    have h' : ¬ (i - 1 < 0 ∨ i - 1 ≥ (v.length : Int)) := by unfold Seq.InRange at h; omega
    simp only [h, h', if_true, if_false, List.getElem?_eq_getElem hlt]
  · have h' : (i - 1 < 0 ∨ i - 1 ≥ (v.length : Int)) := by unfold Seq.InRange at h; omega
    simp [h, h']

theorem ivArrayWrite_eq (v : List α) (i : Int) (x : α) :
    ivArrayWrite v i x = match Seq.set1 v i x with
      | some l => .ok l
      | none => .err errIndexOutOfRange := by
  unfold ivArrayWrite Seq.set1
  by_cases h : Seq.InRange v i
  · have h' : ¬ (i - 1 < 0 ∨ i - 1 ≥ (v.length : Int)) := by unfold Seq.InRange at h; omega
    simp [h, h']
  · have h' : (i - 1 < 0 ∨ i - 1 ≥ (v.length : Int)) := by unfold Seq.InRange at h; omega
    simp [h, h']

theorem arraySwap_eq (v : List α) (i j : Int) :
    arraySwap v i j = match Seq.swap v i j with
      | some l => .ok l
      | none => .err errIndexOutOfRange := by
  unfold arraySwap Seq.swap Seq.get1
  by_cases hi : Seq.InRange v i
  · by_cases hj : Seq.InRange v j
    · have hi' : ¬ (i - 1 < 0 ∨ i - 1 ≥ (v.length : Int)) := by unfold Seq.InRange at hi; omega
      have hj' : ¬ (j - 1 < 0 ∨ j - 1 ≥ (v.length : Int)) := by unfold Seq.InRange at hj; omega
      simp only [hi, hj, hi', hj', and_self, if_true, if_false, List.getElem?_eq_getElem (inRange_toNat hi),
        List.getElem?_eq_getElem (inRange_toNat hj)]
    · have hi' : ¬ (i - 1 < 0 ∨ i - 1 ≥ (v.length : Int)) := by unfold Seq.InRange at hi; omega
      have hj' : (j - 1 < 0 ∨ j - 1 ≥ (v.length : Int)) := by unfold Seq.InRange at hj; omega
      simp [hi, hj, hi', hj']
  · have hi' : (i - 1 < 0 ∨ i - 1 ≥ (v.length : Int)) := by unfold Seq.InRange at hi; omega
    simp [hi, hi']

/-- every list operation: the algorithm of array.go / iv.go answers what the sequence spec answers, and never panics -/
theorem listStep_eq (eq : α → α → Bool) (v : List α) (op : ListOp α) :
    listStep eq v op = .ok (CollHistory.listStep eq v op) := by
  cases op with
  | getFirst => simp [listStep, CollHistory.listStep, arrayGetFirst_eq, Seq.first]; rfl
  | getLast => simp [listStep, CollHistory.listStep, arrayGetLast_eq, Seq.last]; rfl
  | getLength => simp [listStep, CollHistory.listStep, arrayGetLength]
  | getReverse => simp [listStep, CollHistory.listStep, arrayGetReverse_eq, Seq.reverse]
  | setFirst x => simp [listStep, CollHistory.listStep, arraySetFirst_eq]
  | setLast x => simp [listStep, CollHistory.listStep, arraySetLast_eq]
  | insert x idx =>
    simp only [listStep, CollHistory.listStep, arrayInsert_eq]
    cases Seq.insertAt v idx x <;> rfl
  | prepend x => simp [listStep, CollHistory.listStep, arrayPrepend_eq, Seq.prepend]
  | append x => simp [listStep, CollHistory.listStep, arrayAppend_eq, Seq.append]
  | shiftLeft => simp [listStep, CollHistory.listStep, shiftLeft_eq]; rfl
  | shiftRight => simp [listStep, CollHistory.listStep, shiftRight_eq]; rfl
  | merge args => simp [listStep, CollHistory.listStep, arrayMerge_eq]
  | contains x => simp [listStep, CollHistory.listStep, arrayContains_eq]
  | find x => simp [listStep, CollHistory.listStep, arrayFind_eq]
  | swap i j =>
    simp only [listStep, CollHistory.listStep, arraySwap_eq]
    cases Seq.swap v i j <;> rfl
  | ivRead i =>
    simp only [listStep, CollHistory.listStep, ivArrayRead_eq]
    cases Seq.get1 v i <;> rfl
  | ivWrite i x =>
    simp only [listStep, CollHistory.listStep, ivArrayWrite_eq]
    cases Seq.set1 v i x <;> rfl

/-! ## the Go map (association list, unordered semantics) -/

/-- key set of the Go map -/
def dom (m : List (String × α)) : List String := m.map (·.1)

theorem mapGet_none_iff (m : List (String × α)) (k : String) : mapGet m k = none ↔ k ∉ dom m := by
  induction m with
  | nil => simp [mapGet, dom]
  | cons p rest ih =>
    obtain ⟨k', v⟩ := p
    by_cases h : k' = k
    · simp [mapGet, dom, h]
    · have h' : ¬ k = k' := fun e => h e.symm
      simp only [mapGet, h, if_false, ih, dom, List.map_cons, List.mem_cons, h', false_or]

theorem mapGet_some_of_mem {m : List (String × α)} {k : String} (h : k ∈ dom m) : ∃ v, mapGet m k = some v := by
  cases hg : mapGet m k with
  | none => exact absurd h ((mapGet_none_iff m k).mp hg)
  | some v => exact ⟨v, rfl⟩

theorem mem_dom_of_mapGet {m : List (String × α)} {k : String} {v : α} (h : mapGet m k = some v) : k ∈ dom m := by
  by_cases hm : k ∈ dom m
  · exact hm
  · rw [(mapGet_none_iff m k).mpr hm] at h; cases h

theorem mapGet_mapDelete (m : List (String × α)) (k k' : String) :
    mapGet (mapDelete m k) k' = if k' = k then none else mapGet m k' := by
  induction m with
  | nil => simp [mapGet, mapDelete]
  | cons p rest ih =>
    obtain ⟨a, v⟩ := p
    unfold mapDelete at ih ⊢
    by_cases ha : a = k
    · subst ha
      simp only [List.filter_cons, ne_eq, not_true_eq_false, decide_false, Bool.false_eq_true, if_false, ih, mapGet]
      by_cases hk : k' = a
      · simp [hk]
      · have : ¬ a = k' := fun e => hk e.symm
        simp [hk, this]
    · simp only [List.filter_cons, ne_eq, ha, not_false_eq_true, decide_true, if_true, mapGet, ih]
      by_cases hk : a = k'
      · subst hk; simp [ha]
      · simp [hk]

theorem mapGet_mapSet (m : List (String × α)) (k : String) (v : α) (k' : String) :
    mapGet (mapSet m k v) k' = if k' = k then some v else mapGet m k' := by
  unfold mapSet
  simp only [mapGet, mapGet_mapDelete]
  by_cases h : k = k'
  · subst h; simp
  · have : ¬ k' = k := fun e => h e.symm
    simp [h, this]

theorem dom_mapDelete (m : List (String × α)) (k : String) : dom (mapDelete m k) = (dom m).filter (fun x => x ≠ k) := by
  unfold dom mapDelete
  rw [List.filter_map]; rfl

theorem mem_dom_mapDelete (m : List (String × α)) (k k' : String) : k' ∈ dom (mapDelete m k) ↔ k' ∈ dom m ∧ k' ≠ k := by
  rw [dom_mapDelete, List.mem_filter]; simp

theorem nodup_dom_mapDelete {m : List (String × α)} (k : String) (h : (dom m).Nodup) : (dom (mapDelete m k)).Nodup := by
  rw [dom_mapDelete]; exact List.Sublist.nodup List.filter_sublist h

theorem dom_mapSet (m : List (String × α)) (k : String) (v : α) : dom (mapSet m k v) = k :: dom (mapDelete m k) := rfl

theorem mem_dom_mapSet (m : List (String × α)) (k : String) (v : α) (k' : String) :
    k' ∈ dom (mapSet m k v) ↔ k' = k ∨ k' ∈ dom m := by
  rw [dom_mapSet, List.mem_cons, mem_dom_mapDelete]
  by_cases h : k' = k <;> simp [h]

theorem nodup_dom_mapSet {m : List (String × α)} (k : String) (v : α) (h : (dom m).Nodup) : (dom (mapSet m k v)).Nodup := by
  rw [dom_mapSet, List.nodup_cons]
  refine ⟨?_, nodup_dom_mapDelete k h⟩
  rw [mem_dom_mapDelete]; simp

/-! ## the delete loop that edits the slice it ranges over -/

theorem deleteLoopFrom_nomatch (k : String) : ∀ (fuel idx : Nat) (buf : List String) (len : Nat),
    idx + fuel ≤ buf.length → (∀ x ∈ buf.drop idx, x ≠ k) → deleteLoopFrom k fuel idx buf len = .ok (buf.take len)
  | 0, _, _, _, _, _ => rfl
  | fuel + 1, idx, buf, len, hlen, hne => by
    have hlt : idx < buf.length := by omega
    have hd := List.drop_eq_getElem_cons hlt
    have h1 : buf[idx] ≠ k := hne _ (by rw [hd]; exact List.mem_cons_self)
    simp only [deleteLoopFrom, List.getElem?_eq_getElem hlt, h1, if_false]
    apply deleteLoopFrom_nomatch k fuel (idx + 1) buf len (by omega)
    intro x hx
    exact hne x (by rw [hd]; exact List.mem_cons_of_mem _ hx)

theorem deleteLoopFrom_skip (k : String) : ∀ (pre done rest : List String) (fuel len : Nat), k ∉ pre →
    deleteLoopFrom k (pre.length + fuel) done.length (done ++ pre ++ rest) len
      = deleteLoopFrom k fuel (done.length + pre.length) (done ++ pre ++ rest) len
  | [], done, rest, fuel, len, _ => by simp
  | p :: ps, done, rest, fuel, len, hk => by
    have hp : p ≠ k := fun e => hk (by simp [e])
    have hps : k ∉ ps := fun h => hk (List.mem_cons_of_mem _ h)
    have hfuel : (p :: ps).length + fuel = (ps.length + fuel) + 1 := by simp; omega
    have hget : (done ++ (p :: ps) ++ rest)[done.length]? = some p := by simp
    rw [hfuel]
    simp only [deleteLoopFrom, hget, hp, if_false]
    have := deleteLoopFrom_skip k ps (done ++ [p]) rest fuel len hps
    simp only [List.length_append, List.length_cons, List.length_nil, List.append_assoc, List.cons_append,
      List.nil_append] at this ⊢
    rw [this]
    congr 1; omega

theorem spliceOut_at (pre post : List String) (k : String) :
    spliceOut (pre ++ k :: post) (pre.length + (post.length + 1)) pre.length
      = .ok (pre ++ post ++ (k :: post).drop post.length, pre.length + post.length) := by
  unfold spliceOut
  have h1 : ¬ (pre.length + 1 > pre.length + (post.length + 1)) := by omega
  have e1 : pre.length + (post.length + 1) - (pre.length + 1) = post.length := by omega
  have e2 : pre.length + (post.length + 1) - 1 = pre.length + post.length := by omega
  have t1 : (pre ++ k :: post).take pre.length = pre := List.take_left' rfl
  have t2 : (pre ++ k :: post).drop (pre.length + 1) = post := by
    have : pre ++ k :: post = (pre ++ [k]) ++ post := by simp
    rw [this]; exact List.drop_left' (by simp)
  have t3 : (pre ++ k :: post).drop (pre.length + post.length) = (k :: post).drop post.length := by
    rw [List.drop_append]; simp
  simp only [h1, if_false, e1, e2, t1, t2, t3, List.take_length]

/-- the loop is correct *because* keyOrder has no duplicates -/
theorem deleteLoop_eq_erase (ks : List String) (k : String) (hnd : ks.Nodup) : deleteLoop ks k = .ok (ks.erase k) := by
  by_cases hmem : k ∈ ks
  · obtain ⟨pre, post, rfl⟩ := List.append_of_mem hmem
    have hnd' := List.nodup_append.mp hnd
    have hpre : k ∉ pre := fun h => hnd'.2.2 k h k List.mem_cons_self rfl
    have hpost : k ∉ post := (List.nodup_cons.mp hnd'.2.1).1
    have herase : (pre ++ k :: post).erase k = pre ++ post := by
      rw [List.erase_append_right _ hpre, List.erase_cons_head]
    unfold deleteLoop
    have hlen : (pre ++ k :: post).length = pre.length + (post.length + 1) := by simp
    rw [hlen]
    have hskip := deleteLoopFrom_skip k pre [] (k :: post) (post.length + 1) (pre.length + (post.length + 1)) hpre
    simp only [List.length_nil, List.nil_append, Nat.zero_add] at hskip
    rw [hskip]
    have hget : (pre ++ k :: post)[pre.length]? = some k := by simp
    simp only [deleteLoopFrom, hget, if_true, spliceOut_at]
    rw [herase]
    cases post with
    | nil => simp [deleteLoopFrom]
    | cons p ps =>
      have hT : ∀ x ∈ (k :: p :: ps).drop (p :: ps).length, x ≠ k := by
        intro x hx
        have : x ∈ p :: ps := by
          have : (k :: p :: ps).drop (p :: ps).length = (p :: ps).drop ps.length := by simp
          rw [this] at hx; exact List.mem_of_mem_drop hx
        exact fun e => hpost (e ▸ this)
      rw [deleteLoopFrom_nomatch]
      · have : pre.length + (p :: ps).length = (pre ++ p :: ps).length := by simp
        rw [this, List.take_left' rfl]
      · simp; omega
      · intro x hx
        have hx' : x ∈ (p :: ps) ++ (k :: p :: ps).drop (p :: ps).length := by
          have : (pre ++ (p :: ps) ++ (k :: p :: ps).drop (p :: ps).length).drop (pre.length + 1)
              = ((p :: ps) ++ (k :: p :: ps).drop (p :: ps).length).drop 1 := by
            rw [List.append_assoc, List.drop_append]; simp
          rw [this] at hx; exact List.mem_of_mem_drop hx
        rcases List.mem_append.mp hx' with h | h
        · exact fun e => hpost (e ▸ h)
        · exact hT x h
  · unfold deleteLoop
    rw [deleteLoopFrom_nomatch k ks.length 0 ks ks.length (by omega) (by
      intro x hx e; exact hmem (e ▸ (by simpa using hx)))]
    rw [List.take_length, List.erase_of_not_mem hmem]

/-! ## invariant and abstraction -/

/-- what `hm_inv` maintains: keyOrder has no duplicates, holds exactly the keys of the Go map, and the association
list standing for the Go map has one entry per key (so that its length is Go's `len`) -/
def Inv (hm : HashMap α) : Prop :=
  hm.keyOrder.Nodup ∧ (∀ k, k ∈ hm.keyOrder ↔ k ∈ dom hm.value) ∧ (dom hm.value).Nodup

def absOf (value : List (String × α)) (ks : List String) : OrderedMap.OMap α :=
  ks.filterMap (fun k => (mapGet value k).map (fun v => (k, v)))

/-- the ordered map a HashMap stands for: its keys in keyOrder, each with the value the Go map holds -/
def abs (hm : HashMap α) : OrderedMap.OMap α := absOf hm.value hm.keyOrder

theorem absOf_cons (value : List (String × α)) (k : String) (ks : List String) :
    absOf value (k :: ks) = match mapGet value k with
      | some v => (k, v) :: absOf value ks
      | none => absOf value ks := by
  unfold absOf
  rw [List.filterMap_cons]
  cases mapGet value k <;> rfl

theorem absOf_append (value : List (String × α)) (ks ks' : List String) :
    absOf value (ks ++ ks') = absOf value ks ++ absOf value ks' := by
  unfold absOf; exact List.filterMap_append

theorem keys_absOf (value : List (String × α)) : ∀ ks : List String, (∀ k ∈ ks, k ∈ dom value) →
    OrderedMap.keys (absOf value ks) = ks
  | [], _ => rfl
  | k :: ks, h => by
    obtain ⟨v, hv⟩ := mapGet_some_of_mem (h k List.mem_cons_self)
    rw [absOf_cons, hv]
    have := keys_absOf value ks (fun k' hk' => h k' (List.mem_cons_of_mem _ hk'))
    simp only [OrderedMap.keys, List.map_cons] at this ⊢
    rw [this]

theorem vals_absOf (value : List (String × α)) : ∀ ks : List String, (∀ k ∈ ks, k ∈ dom value) →
    (OrderedMap.vals (absOf value ks)).map some = ks.map (mapGet value)
  | [], _ => rfl
  | k :: ks, h => by
    obtain ⟨v, hv⟩ := mapGet_some_of_mem (h k List.mem_cons_self)
    rw [absOf_cons, hv]
    have := vals_absOf value ks (fun k' hk' => h k' (List.mem_cons_of_mem _ hk'))
    simp only [OrderedMap.vals, List.map_cons, List.map_map] at this ⊢
    rw [this, hv]

theorem display_absOf (value : List (String × α)) : ∀ ks : List String, (∀ k ∈ ks, k ∈ dom value) →
    ks.foldr (displayStep value) (.ok []) = .ok (absOf value ks)
  | [], _ => rfl
  | k :: ks, h => by
    obtain ⟨v, hv⟩ := mapGet_some_of_mem (h k List.mem_cons_self)
    rw [List.foldr_cons, display_absOf value ks (fun k' hk' => h k' (List.mem_cons_of_mem _ hk')), absOf_cons, hv]
    simp [displayStep, hv]

theorem lookup_absOf (value : List (String × α)) (k : String) : ∀ ks : List String,
    OrderedMap.lookup (absOf value ks) k = if k ∈ ks then mapGet value k else none
  | [] => by simp [absOf, OrderedMap.lookup]
  | k' :: ks => by
    have ih := lookup_absOf value k ks
    rw [absOf_cons]
    by_cases h : k' = k
    · subst h
      cases hv : mapGet value k' with
      | none => simp only [ih, hv]; simp
      | some v => simp [OrderedMap.lookup]
    · have h' : ¬ k = k' := fun e => h e.symm
      cases hv : mapGet value k' with
      | none => simp only [ih, List.mem_cons, h', false_or]
      | some v =>
        simp only [OrderedMap.lookup, List.find?_cons, h, decide_false, List.mem_cons, h', false_or] at ih ⊢
        exact ih

theorem absOf_overwrite (value : List (String × α)) (k : String) (v old : α) (hold : mapGet value k = some old) :
    ∀ ks : List String, absOf (mapSet value k v) ks = (absOf value ks).map (fun p => if p.1 = k then (k, v) else p)
  | [] => rfl
  | k' :: ks => by
    rw [absOf_cons, absOf_cons, mapGet_mapSet, absOf_overwrite value k v old hold ks]
    by_cases h : k' = k
    · subst h; simp [hold]
    · simp only [h, if_false]
      cases mapGet value k' with
      | none => rfl
      | some w => simp [h]

theorem absOf_other (value : List (String × α)) (k : String) (v : α) :
    ∀ ks : List String, (∀ k' ∈ ks, k' ≠ k) → absOf (mapSet value k v) ks = absOf value ks
  | [], _ => rfl
  | k' :: ks, h => by
    have hk : k' ≠ k := h k' List.mem_cons_self
    rw [absOf_cons, absOf_cons, mapGet_mapSet, absOf_other value k v ks (fun x hx => h x (List.mem_cons_of_mem _ hx))]
    simp [hk]

theorem absOf_delete (value : List (String × α)) (k : String) :
    ∀ ks : List String, absOf (mapDelete value k) (ks.filter (fun x => x != k)) = (absOf value ks).filter (fun p => p.1 ≠ k)
  | [] => rfl
  | k' :: ks => by
    have ih := absOf_delete value k ks
    by_cases h : k' = k
    · subst h
      rw [absOf_cons]
      cases mapGet value k' <;> simp [ih]
    · have hb : (k' != k) = true := by simp [h]
      rw [List.filter_cons, hb, if_pos rfl, absOf_cons, absOf_cons, mapGet_mapDelete, ih]
      simp only [h, if_false]
      cases mapGet value k' <;> simp [h]

/-! ### every operation keeps the invariant and is the spec's operation on the abstraction -/

theorem keys_abs {hm : HashMap α} (h : Inv hm) : OrderedMap.keys (abs hm) = hm.keyOrder :=
  keys_absOf hm.value hm.keyOrder (fun k hk => (h.2.1 k).mp hk)

theorem lookup_abs {hm : HashMap α} (h : Inv hm) (k : String) : OrderedMap.lookup (abs hm) k = mapGet hm.value k := by
  unfold abs
  rw [lookup_absOf]
  by_cases hk : k ∈ hm.keyOrder
  · simp [hk]
  · have : k ∉ dom hm.value := fun hd => hk ((h.2.1 k).mpr hd)
    simp [hk, (mapGet_none_iff _ _).mpr this]

theorem inv_empty : Inv (emptyHashMap : HashMap α) := by
  simp [Inv, emptyHashMap, dom]

theorem abs_empty : abs (emptyHashMap : HashMap α) = [] := rfl

theorem appendKVPair_spec {hm : HashMap α} (h : Inv hm) (k : String) (v : α) :
    Inv (appendKVPair hm k v) ∧ abs (appendKVPair hm k v) = OrderedMap.insert (abs hm) k v := by
  obtain ⟨hnd, hmem, hdn⟩ := h
  have hkeys := keys_abs ⟨hnd, hmem, hdn⟩
  unfold appendKVPair OrderedMap.insert
  cases hg : mapGet hm.value k with
  | some old =>
    have hk : k ∈ hm.keyOrder := (hmem k).mpr (mem_dom_of_mapGet hg)
    refine ⟨⟨hnd, ?_, nodup_dom_mapSet k v hdn⟩, ?_⟩
    · intro k'
      show k' ∈ hm.keyOrder ↔ k' ∈ dom (mapSet hm.value k v)
      rw [mem_dom_mapSet, hmem]
      constructor
      · exact Or.inr
      · rintro (e | e)
        · exact e ▸ mem_dom_of_mapGet hg
        · exact e
    · show absOf (mapSet hm.value k v) hm.keyOrder = _
      rw [hkeys, if_pos hk]
      exact absOf_overwrite hm.value k v old hg hm.keyOrder
  | none =>
    have hkd : k ∉ dom hm.value := (mapGet_none_iff _ _).mp hg
    have hk : k ∉ hm.keyOrder := fun hk => hkd ((hmem k).mp hk)
    have hne : ∀ k' ∈ hm.keyOrder, k' ≠ k := fun k' hk' e => hk (e ▸ hk')
    refine ⟨⟨?_, ?_, nodup_dom_mapSet k v hdn⟩, ?_⟩
    · show (hm.keyOrder ++ [k]).Nodup
      rw [List.nodup_append]
      refine ⟨hnd, by simp, ?_⟩
      intro a ha b hb
      have : b = k := by simpa using hb
      exact this ▸ hne a ha
    · intro k'
      show k' ∈ hm.keyOrder ++ [k] ↔ k' ∈ dom (mapSet hm.value k v)
      rw [mem_dom_mapSet, List.mem_append, hmem]
      simp only [List.mem_singleton]
      exact Or.comm
    · show absOf (mapSet hm.value k v) (hm.keyOrder ++ [k]) = _
      rw [hkeys, if_neg hk, absOf_append, absOf_other _ _ _ _ hne, absOf_cons, mapGet_mapSet]
      simp [abs, absOf]

theorem newHashMapStep_eq (hm : HashMap α) (kv : String × α) : newHashMapStep hm kv = appendKVPair hm kv.1 kv.2 := by
  unfold newHashMapStep appendKVPair
  cases mapGet hm.value kv.1 <;> rfl

theorem newHashMap_fold_spec : ∀ (kvs : List (String × α)) (hm : HashMap α), Inv hm →
    Inv (kvs.foldl newHashMapStep hm) ∧
      abs (kvs.foldl newHashMapStep hm) = kvs.foldl (fun m kv => OrderedMap.insert m kv.1 kv.2) (abs hm)
  | [], _, h => ⟨h, rfl⟩
  | kv :: kvs, hm, h => by
    have hs := appendKVPair_spec h kv.1 kv.2
    rw [List.foldl_cons, List.foldl_cons, newHashMapStep_eq, ← hs.2]
    exact newHashMap_fold_spec kvs _ hs.1

theorem newHashMap_spec (kvs : List (String × α)) :
    Inv (newHashMap kvs) ∧ abs (newHashMap kvs) = OrderedMap.ofList kvs :=
  newHashMap_fold_spec kvs emptyHashMap inv_empty

theorem hmDelete_spec {hm : HashMap α} (h : Inv hm) (k : String) :
    ∃ hm', hmDelete hm k = .ok (mapGet hm.value k, hm') ∧ Inv hm' ∧ abs hm' = OrderedMap.erase (abs hm) k ∧
      hm'.keyOrder = hm.keyOrder.erase k := by
  obtain ⟨hnd, hmem, hdn⟩ := h
  unfold hmDelete
  cases hg : mapGet hm.value k with
  | none =>
    have hkd : k ∉ dom hm.value := (mapGet_none_iff _ _).mp hg
    have hk : k ∉ hm.keyOrder := fun hk => hkd ((hmem k).mp hk)
    refine ⟨hm, rfl, ⟨hnd, hmem, hdn⟩, ?_, (List.erase_of_not_mem hk).symm⟩
    have hkk : k ∉ OrderedMap.keys (abs hm) := by rw [keys_abs ⟨hnd, hmem, hdn⟩]; exact hk
    unfold OrderedMap.erase
    symm
    rw [List.filter_eq_self]
    intro p hp
    have : p.1 ∈ OrderedMap.keys (abs hm) := List.mem_map_of_mem hp
    have : p.1 ≠ k := fun e => hkk (e ▸ this)
    simp [this]
  | some old =>
    rw [deleteLoop_eq_erase _ _ hnd]
    refine ⟨_, rfl, ⟨List.Nodup.erase k hnd, ?_, nodup_dom_mapDelete k hdn⟩, ?_, rfl⟩
    · intro k'
      show k' ∈ hm.keyOrder.erase k ↔ k' ∈ dom (mapDelete hm.value k)
      rw [List.Nodup.mem_erase_iff hnd, mem_dom_mapDelete, hmem]
      exact And.comm
    · show absOf (mapDelete hm.value k) (hm.keyOrder.erase k) = _
      rw [List.Nodup.erase_eq_filter hnd, absOf_delete]
      rfl

/-! ### observations -/

/-- what the spec's ordered map shows -/
def specObs (m : OrderedMap.OMap α) : DictObs α :=
  { display := .ok m, length := OrderedMap.size m, allIndexes := OrderedMap.keys m,
    allValues := (OrderedMap.vals m).map some }

theorem length_abs {hm : HashMap α} (h : Inv hm) : hmLength hm = OrderedMap.size (abs hm) := by
  have h1 : (OrderedMap.keys (abs hm)).length = hm.keyOrder.length := by rw [keys_abs h]
  have hp : hm.keyOrder.Perm (dom hm.value) := (List.perm_ext_iff_of_nodup h.1 h.2.2).mpr h.2.1
  have h2 := hp.length_eq
  simp only [OrderedMap.keys, List.length_map, dom] at h1 h2
  simp only [hmLength, mapLen, OrderedMap.size]
  omega

theorem observe_abs {hm : HashMap α} (h : Inv hm) : observe hm = specObs (abs hm) := by
  have hsub : ∀ k ∈ hm.keyOrder, k ∈ dom hm.value := fun k hk => (h.2.1 k).mp hk
  unfold observe specObs
  congr 1
  · exact display_absOf hm.value hm.keyOrder hsub
  · exact length_abs h
  · exact (keys_abs h).symm
  · exact (vals_absOf hm.value hm.keyOrder hsub).symm

theorem chainRest_eq (sub : α → String → Option α) : ∀ (ks : List String) (v : α),
    getResult (chainRest sub v ks) = CollHistory.optResult (CollHistory.descend sub v ks)
  | [], _ => rfl
  | k :: ks, v => by
    simp only [chainRest, CollHistory.descend]
    cases sub v k with
    | none => rfl
    | some v' => exact chainRest_eq sub ks v'

/-- every dictionary operation on a state with the invariant: no panic, the invariant again, and exactly the spec's
step on the abstraction -/
theorem dictStep_spec (sub : α → String → Option α) {hm : HashMap α} (h : Inv hm) (op : DictOp α) :
    ∃ hm' r, dictStep sub hm op = .ok (hm', r) ∧ Inv hm' ∧ CollHistory.dictStep sub (abs hm) op = (abs hm', r) := by
  cases op with
  | get keys =>
    refine ⟨hm, _, rfl, h, ?_⟩
    cases keys with
    | nil => rfl
    | cons k ks =>
      simp only [CollHistory.dictStep, hmGet, lookup_abs h]
      cases mapGet hm.value k with
      | none => rfl
      | some v => simp only [chainRest_eq]
  | set k v =>
    have hs := appendKVPair_spec h k v
    exact ⟨_, _, rfl, hs.1, by simp only [CollHistory.dictStep, hmSet, hs.2]⟩
  | delete k =>
    obtain ⟨hm', he, hi, ha, _⟩ := hmDelete_spec h k
    refine ⟨hm', optResult (mapGet hm.value k), by simp only [dictStep, he], hi, ?_⟩
    simp only [CollHistory.dictStep, lookup_abs h, ha]
    cases mapGet hm.value k <;> rfl
  | ivRead k =>
    simp only [dictStep, ivMapRead, CollHistory.dictStep, lookup_abs h]
    cases mapGet hm.value k with
    | none => exact ⟨hm, _, rfl, h, rfl⟩
    | some v => exact ⟨hm, _, rfl, h, rfl⟩
  | ivWrite k v =>
    have hs := appendKVPair_spec h k v
    exact ⟨_, _, rfl, hs.1, by simp only [CollHistory.dictStep, ivMapWrite, hs.2]⟩

/-- the dictionary after an operation; the fall-back for `.panic` is never taken on a state with the invariant
(`dictStep_spec`) -/
def dictNext (sub : α → String → Option α) (hm : HashMap α) (op : DictOp α) : HashMap α :=
  match dictStep sub hm op with
  | .ok (hm', _) => hm'
  | _ => hm

theorem dictNext_inv (sub : α → String → Option α) {hm : HashMap α} (h : Inv hm) (op : DictOp α) :
    Inv (dictNext sub hm op) := by
  obtain ⟨hm', r, hs, hi, _⟩ := dictStep_spec sub h op
  simp only [dictNext, hs]; exact hi

theorem appendKVPair_value (hm : HashMap α) (k : String) (v : α) :
    (appendKVPair hm k v).value = mapSet hm.value k v := by
  unfold appendKVPair
  cases mapGet hm.value k <;> rfl

theorem ivMapRead_write (hm : HashMap α) (k : String) (v : α) (k' : String) :
    ivMapRead (ivMapWrite hm k v) k' = if k' = k then .ok v else ivMapRead hm k' := by
  simp only [ivMapRead, ivMapWrite, appendKVPair_value, mapGet_mapSet]
  by_cases h : k' = k <;> simp [h]

/-! ### more list helpers -/

theorem get1_eq (w : List α) (q : Int) : Seq.get1 w q = if 1 ≤ q then w[(q - 1).toNat]? else none := by
  unfold Seq.get1 Seq.InRange
  by_cases h1 : 1 ≤ q
  · by_cases h2 : q ≤ (w.length : Int)
    · simp [h1, h2]
    · have : w.length ≤ (q - 1).toNat := by omega
      simp only [h1, h2, and_false, if_false, if_true, List.getElem?_eq_none this]
  · simp [h1]

theorem swap_getElem? (v : List α) (a b : Nat) (ha : a < v.length) (hb : b < v.length) (p : Nat) :
    ((v.set a v[b]).set b v[a])[p]? = if p = b then some v[a] else if p = a then some v[b] else v[p]? := by
  rw [List.getElem?_set, List.getElem?_set]
  by_cases h1 : b = p
  · subst h1; simp [hb]
  · have h1' : ¬ p = b := fun e => h1 e.symm
    by_cases h2 : a = p
    · subst h2; simp [h1, h1', ha]
    · have h2' : ¬ p = a := fun e => h2 e.symm
      simp [h1, h1', h2, h2']

theorem findFrom_spec (eq : α → α → Bool) (x : α) : ∀ (v : List α) (i : Nat),
    (arrayFindFrom eq x i v = -1 ∧ arrayContains eq x v = false ∧ ∀ y ∈ v, eq y x = false) ∨
    (∃ n : Nat, arrayFindFrom eq x i v = ((i + n : Nat) : Int) ∧ arrayContains eq x v = true ∧ n < v.length ∧
      ∃ y, v[n]? = some y ∧ eq y x = true ∧ ∀ m, m < n → ∀ z, v[m]? = some z → eq z x = false)
  | [], _ => Or.inl ⟨rfl, rfl, by simp⟩
  | h :: t, i => by
    cases hx : eq h x with
    | true =>
      refine Or.inr ⟨0, by simp [arrayFindFrom, hx], by simp [arrayContains, hx], by simp, h, by simp, hx, ?_⟩
      intro m hm; omega
    | false =>
      rcases findFrom_spec eq x t (i + 1) with ⟨h1, h2, h3⟩ | ⟨n, h1, h2, hn, y, hy, hyx, hmin⟩
      · refine Or.inl ⟨by simp [arrayFindFrom, hx, h1], by simp [arrayContains, hx, h2], ?_⟩
        intro y hy
        rcases List.mem_cons.mp hy with e | e
        · exact e ▸ hx
        · exact h3 y e
      · refine Or.inr ⟨n + 1, ?_, by simp [arrayContains, hx, h2], by simp; omega, y, by simpa using hy, hyx, ?_⟩
        · simp only [arrayFindFrom, hx, Bool.false_eq_true, if_false, h1]; congr 1; omega
        · intro m hm z hz
          cases m with
          | zero => simp at hz; exact hz ▸ hx
          | succ m' => exact hmin m' (by omega) z (by simpa using hz)

/-- an indexed read answers the element or index error 40 -/
def readRes : Option α → Res α
  | some x => .ok x
  | none => .err errIndexOutOfRange

theorem ivArrayRead_pos (w : List α) (q : Int) (hq : 1 ≤ q) : ivArrayRead w q = readRes w[(q - 1).toNat]? := by
  rw [ivArrayRead_eq, get1_eq, if_pos hq]
  cases w[(q - 1).toNat]? <;> rfl

theorem ivArrayRead_neg (w : List α) (q : Int) (hq : ¬ 1 ≤ q) : ivArrayRead w q = .err errIndexOutOfRange := by
  rw [ivArrayRead_eq, get1_eq, if_neg hq]

theorem swap_reads (v : List α) (a b : Nat) (ha : a < v.length) (hb : b < v.length) :
    ((v.set a v[b]).set b v[a])[a]? = v[b]? ∧ ((v.set a v[b]).set b v[a])[b]? = v[a]? ∧
    ∀ p, p ≠ a → p ≠ b → ((v.set a v[b]).set b v[a])[p]? = v[p]? := by
  refine ⟨?_, ?_, ?_⟩
  · rw [swap_getElem? v a b ha hb, List.getElem?_eq_getElem hb]
    by_cases e : a = b
    · subst e; simp
    · simp [e]
  · rw [swap_getElem? v a b ha hb, List.getElem?_eq_getElem ha]; simp
  · intro p h1 h2
    rw [swap_getElem? v a b ha hb]; simp [h1, h2]

end ZnVerif.Proofs.Containers
