/-
Bridge (A) ↔ (C), lists: what a *successful* run of the storing methods (后增 前增 新增/添加 合并) did, read off the
equations of `BridgesList.lean` / `BridgesList2.lean`: the stored elements are the `dup` results, the new item list is
the `Containers` operation applied to the old one.
-/
import ZnVerif.Proofs.BridgesList2
set_option linter.unusedSectionVars false
set_option linter.unusedVariables false

namespace ZnVerif.Proofs.Bridges
open ZnVerif ZnVerif.Model

variable {ν : Type} [NumOps ν]

/-- a successful "copy, apply `f`, store, answer the receiver" -/
theorem copy_store_inv (n : Nat) (a x : Addr) (f : Addr → Containers.Res (List Addr)) (s s' : VM ν) (r : Addr)
    (h : (do let x' ← dup n x; storeArr a (f x'); pure a : M ν Addr) s = (.ok r, s')) :
    ∃ x' s1 l, dup n x s = (.ok x', s1) ∧ f x' = .ok l ∧ a < s1.heap.size ∧
      s' = { s1 with heap := s1.heap.set! a (.arr l) } ∧ r = a := by
  obtain ⟨x', s1, hd, h⟩ := bind_ok_inv _ _ _ _ _ h
  obtain ⟨u, s2, hs, h⟩ := bind_ok_inv _ _ _ _ _ h
  obtain ⟨l, hl, hlt, rfl⟩ := storeArr_ok_inv hs
  obtain ⟨rfl, rfl⟩ := pure_ok_inv h
  exact ⟨x', s1, l, hd, hl, hlt, rfl, rfl⟩

theorem validated_inv {vals : List Addr} {tys : List String} {β : Type} {m : M ν β} {s s' : VM ν} {r : β}
    (h : (do validateExact vals tys; m) s = (.ok r, s')) : m s = (.ok r, s') := by
  obtain ⟨u, s1, hv, h⟩ := bind_ok_inv _ _ _ _ _ h
  have := (validateExact_same (ν := ν) vals tys).run s _ s1 hv
  unfold Same at this
  rw [this] at h; exact h

section
variable (n : Nat) (a : Addr) (items : List Addr) (s s' : VM ν) (r : Addr)

/-- 后增 -/
theorem bm_append_ok (x : Addr) (hc : s.heap[a]? = some (.arr items))
    (h : builtinMethod n a "后增" [x] s = (.ok r, s')) :
    ∃ x' s1 items', dup n x s = (.ok x', s1) ∧ Containers.arrayAppend items x' = .ok items' ∧ a < s1.heap.size ∧
      s' = { s1 with heap := s1.heap.set! a (.arr items') } ∧ r = a := by
  rw [bm_append n a items s x hc] at h
  exact copy_store_inv n a x _ s s' r (validated_inv h)

/-- 前增 -/
theorem bm_prepend_ok (x : Addr) (hc : s.heap[a]? = some (.arr items))
    (h : builtinMethod n a "前增" [x] s = (.ok r, s')) :
    ∃ x' s1 items', dup n x s = (.ok x', s1) ∧ Containers.arrayPrepend items x' = .ok items' ∧ a < s1.heap.size ∧
      s' = { s1 with heap := s1.heap.set! a (.arr items') } ∧ r = a := by
  rw [bm_prepend n a items s x hc] at h
  exact copy_store_inv n a x _ s s' r (validated_inv h)

/-- 新增 / 添加 -/
theorem bm_insert_ok (name : String) (hname : name = "新增" ∨ name = "添加") (x p : Addr) (pv : ν)
    (hc : s.heap[a]? = some (.arr items)) (hp : s.heap[p]? = some (.num pv))
    (h : builtinMethod n a name [x, p] s = (.ok r, s')) :
    ∃ x' s1 items', dup n x s = (.ok x', s1) ∧ Containers.arrayInsert items x' (NumOps.toInt pv) = .ok items' ∧
      a < s1.heap.size ∧ s' = { s1 with heap := s1.heap.set! a (.arr items') } ∧ r = a := by
  rw [bm_insert n a items s name hname x p pv hc hp] at h
  have h := validated_inv h
  unfold insertCore at h
  cases hi : Containers.arrayInsert items x (NumOps.toInt pv) with
  | err c => rw [hi] at h; simp [rtErr, throwE] at h
  | ok l => rw [hi] at h; exact copy_store_inv n a x _ s s' r h
  | panic => rw [hi] at h; exact copy_store_inv n a x _ s s' r h

/-- 新增 / 添加 before the first item: IndexOutOfRange (40), nothing copied, nothing changed -/
theorem bm_insert_range (name : String) (hname : name = "新增" ∨ name = "添加") (x p : Addr) (pv : ν) (cx : Cell ν)
    (hc : s.heap[a]? = some (.arr items)) (hx : s.heap[x]? = some cx) (hp : s.heap[p]? = some (.num pv)) (c : Nat)
    (h : Containers.arrayInsert items x (NumOps.toInt pv) = .err c) :
    builtinMethod n a name [x, p] s = (.err (.rt c), s) := by
  have hv : validateExact [x, p] ["any", "number"] s = (.ok (), s) := by
    simp [validateExact, bind, validateOne_any hx, validateOne_number hp, pure]
  rw [bm_insert n a items s name hname x p pv hc hp]
  simp only [bind, hv, insertCore, h]
  rfl

/-- 合并 -/
theorem bm_merge_ok (vals : List Addr) (hc : s.heap[a]? = some (.arr items))
    (h : builtinMethod n a "合并" vals s = (.ok r, s')) :
    ∃ extra s1, vals.mapM (copyItems n) s = (.ok extra, s1) ∧ a < s1.heap.size ∧
      s' = { s1 with heap := (Array.push (s1.heap.set! a (.arr (Containers.arrayMerge items extra)))
                (.arr (Containers.arrayMerge items extra))) } ∧
      r = s1.heap.size := by
  rw [bm_merge n a items s vals hc] at h
  obtain ⟨u, s0, hv, h1⟩ := bind_ok_inv _ _ _ _ _ h
  have hs0 := (validateAll_same (ν := ν) vals "array").run s _ s0 hv
  unfold Same at hs0
  rw [hs0] at h1
  obtain ⟨extra, s1, hm, h2⟩ := bind_ok_inv _ _ _ _ _ h1
  obtain ⟨u2, s2, hs, h3⟩ := bind_ok_inv _ _ _ _ _ h2
  obtain ⟨hlt, rfl⟩ := setCell_ok_inv hs
  simp only [alloc] at h3
  injection h3 with h4 h5
  injection h4 with h4
  refine ⟨extra, s1, hm, hlt, h5.symm, ?_⟩
  rw [← h4]
  simp [Array.set!]

end

end ZnVerif.Proofs.Bridges
