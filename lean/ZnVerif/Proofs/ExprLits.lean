/-
C01 refinement: list and dictionary literals.
-/
import ZnVerif.Proofs.ExprBase
import ZnVerif.Proofs.HashMapCell
set_option linter.unusedSectionVars false
set_option linter.unusedSimpArgs false

namespace ZnVerif.Proofs
open ZnVerif.Model ZnVerif.Spec

variable {ν : Type} [NumOps ν]

/-- a list literal whose items read within `k` reads within `k+1` -/
theorem sim_arr' {ω : Addr → Option (SVal ν)} {d n k : Nat} (ln : Nat) (items : List Expr) (s : VM ν) (σ : SState ν)
    (hitem : ∀ e ∈ items, ∀ s1, Frame s s1 → Sim d (Reads ω k) s1 σ (evalExpr n e) (evalE n e)) :
    Sim d (Reads ω (k + 1)) s σ (evalExpr (n+1) (.arr ln items)) (evalE (n+1) (.arr ln items)) := by
  simp only [evalExpr, evalE]
  refine sim_bind (sim_mapM (Q := Reads ω k) (fun _ _ _ _ hF h => h.frame hF) items s hitem) fun s1 as vs hF hall => ?_
  refine sim_alloc (k := k) _ _ ?_
  exact ⟨vs, rfl, hall.imp fun a v h => contentW_heap (HeapLe.push _ _) h⟩

theorem sim_arr {ω : Addr → Option (SVal ν)} {d n : Nat} (ih : IH ω d n) (ln : Nat) (items : List Expr)
    (hitems : ∀ e ∈ items, PureExpr e) (s : VM ν) (σ : SState ν) (henv : EnvRel ω d s σ) :
    Sim d (Reads ω (n + 1 + d)) s σ (evalExpr (n+1) (.arr ln items)) (evalE (n+1) (.arr ln items)) :=
  sim_weaken (fun _ _ _ h => h.mono (by omega))
    (sim_arr' (k := n + d) ln items s σ fun e he s1 hF1 => ih e s1 σ (hitems e he) (henv.frame hF1))

/-- a dictionary literal whose values read within `k` reads within `k+1` -/
theorem sim_hm' {ω : Addr → Option (SVal ν)} {d n k : Nat} (ln : Nat) (kvs : List (Expr × Expr)) (s : VM ν) (σ : SState ν)
    (hitem : ∀ kv ∈ kvs, ∀ s1, Frame s s1 → Sim d (Reads ω k) s1 σ (evalExpr n kv.2) (evalE n kv.2)) :
    Sim d (Reads ω (k + 1)) s σ (evalExpr (n+1) (.hm ln kvs)) (evalE (n+1) (.hm ln kvs)) := by
  simp only [evalExpr, evalE]
  refine sim_bind (sim_mapM (Q := fun s (p : String × Addr) (p' : String × SVal ν) => p.1 = p'.1 ∧ Reads ω k s p.2 p'.2)
    (fun _ _ _ _ hF h => ⟨h.1, h.2.frame hF⟩) kvs s fun kv hkv s1 hF1 => ?_) fun s1 ps ps' hF hall => ?_
  · obtain ⟨key, e⟩ := kv
    have hv : ∀ (key : String) s2, Frame s1 s2 →
        Sim d (fun s (p : String × Addr) (p' : String × SVal ν) => p.1 = p'.1 ∧ Reads ω k s p.2 p'.2) s2 σ
          (do let v ← evalExpr n e; pure (key, v)) (do let v ← evalE n e; pure (key, v)) := fun key s2 hF2 =>
      sim_bind (hitem _ hkv s2 (hF1.trans hF2)) fun s3 a v hF3 hq => sim_pure ⟨rfl, hq⟩
    cases key
    case str ln t =>
      exact sim_bind (sim_pure (Q := fun _ (x y : String) => x = y) rfl) fun s2 k k' hF2 hk => by
        subst hk; exact hv _ s2 hF2
    case id i =>
      refine sim_bind (sim_matchID i.lit) fun s2 _ _ hF2 _ => ?_
      exact sim_bind (sim_pure (Q := fun _ (x y : String) => x = y) rfl) fun s3 k k' hF3 hk => by
        subst hk; exact hv _ s3 (hF2.trans hF3)
    all_goals
      exact sim_bind (Q := fun _ (_ _ : String) => False) (sim_rt' 80 80 rfl) fun _ _ _ _ h => h.elim
  · refine sim_alloc (k := k) _ _ ?_
    exact newHashMapCell_layer ω _ _ ps ps' (hall.imp fun p p' h => ⟨h.1, contentW_heap (HeapLe.push _ _) h.2⟩)

theorem sim_hm {ω : Addr → Option (SVal ν)} {d n : Nat} (ih : IH ω d n) (ln : Nat) (kvs : List (Expr × Expr))
    (hitems : ∀ kv ∈ kvs, PureExpr kv.2) (s : VM ν) (σ : SState ν) (henv : EnvRel ω d s σ) :
    Sim d (Reads ω (n + 1 + d)) s σ (evalExpr (n+1) (.hm ln kvs)) (evalE (n+1) (.hm ln kvs)) :=
  sim_weaken (fun _ _ _ h => h.mono (by omega))
    (sim_hm' (k := n + d) ln kvs s σ fun kv hkv s1 hF1 => ih kv.2 s1 σ (hitems kv hkv) (henv.frame hF1))

end ZnVerif.Proofs
