/- C10 helper lemmas about Model/Validate.lean: the repaired validators never panic. -/
import ZnVerif.Model.Validate

namespace ZnVerif.Proofs.Validate
open ZnVerif.Model.Validate

theorem validateOne_guarded (v : VKind) (ty : String) : validateOne true v ty ≠ .panic := by
  unfold validateOne
  dsimp only
  split
  · split
    · split <;> simp
    · simp
  · split <;> simp

theorem validateAllFrom_guarded (ty : String) : ∀ vs : List VKind, validateAllFrom true ty vs ≠ .panic
  | [] => by simp [validateAllFrom]
  | v :: rest => by
    unfold validateAllFrom
    have h1 := validateOne_guarded v ty
    cases h : validateOne true v ty with
    | ok => exact validateAllFrom_guarded ty rest
    | err c => simp
    | panic => exact absurd h h1

theorem validateExact_go_guarded : ∀ (vs : List VKind) (ts : List String), validateExact.go true vs ts ≠ .panic
  | [], _ => by simp [validateExact.go]
  | _ :: _, [] => by simp [validateExact.go]
  | v :: vs, t :: ts => by
    unfold validateExact.go
    have h1 := validateOne_guarded v t
    cases h : validateOne true v t with
    | ok => exact validateExact_go_guarded vs ts
    | err c => simp
    | panic => exact absurd h h1

theorem validateExact_guarded (vs : List VKind) (ts : List String) : validateExact true vs ts ≠ .panic := by
  unfold validateExact
  split
  · simp
  · exact validateExact_go_guarded vs ts

/-- the repaired `ValidateLeastParams` (index guard and cast guard present) never panics, for every list of
    values, every start index and every list of patterns that contain a word character -/
theorem validateLeastFrom_guarded (values : List VKind) :
    ∀ (pats : List String) (idx : Nat), (∀ p ∈ pats, (parsePat p).isSome = true) →
      validateLeastFrom true true values idx pats ≠ .panic
  | [], idx, _ => by simp [validateLeastFrom]
  | t :: rest, idx, hp => by
    have ht := hp t (by simp)
    have ih := fun i => validateLeastFrom_guarded values rest i (fun p h => hp p (by simp [h]))
    unfold validateLeastFrom
    cases hpp : parsePat t with
    | none => rw [hpp] at ht; cases ht
    | some ns =>
      obtain ⟨name, suffix⟩ := ns
      dsimp only
      split
      · split
        · simp
        · exact validateAllFrom_guarded _ _
      · split
        · split
          · simp
          · split
            · next hlen =>
              have hlen' : idx + 1 = values.length := by simpa using hlen
              have : idx < values.length := by omega
              rw [List.getElem?_eq_getElem this]
              dsimp only
              have h1 := validateOne_guarded values[idx] name
              cases h : validateOne true values[idx] name with
              | ok => exact ih _
              | err c => simp
              | panic => exact absurd h h1
            · simp
        · cases hv : values[idx]? with
          | none => simp
          | some v =>
            dsimp only
            have h1 := validateOne_guarded v t
            cases h : validateOne true v t with
            | ok => exact ih _
            | err c => simp
            | panic => exact absurd h h1

end ZnVerif.Proofs.Validate
