/-
Token-level round trip with layout, part 2a: expressions — follow sets, claims, and the operator levels.

Claims `C1 … C7`, one per precedence level, for the rendering relation `LinX Y cfg` (`cfg` = the parser's `AsVarAssign`); every
claim is "stable" (it holds for every fuel from a bound on).  The tokens of an expression are `Glued`, the whole token list is
`InOrder`, and what follows the expression `Stop`s it: it is not a comma and either the statement is complete there or the next
token is not in the follow set `Bk cfg ++ FO e` (`FO e` adds `、` when `e` ends with an open method-call chain).

Level 7 (member chains and basic forms) is stated in continuation style and with an optional trailing comma `cm`: the comma after
an operand is swallowed by whatever the parser probes next (the member tail, 得到, the `、` of a chain); after it the parser is in
`Send (ts ++ cm) rest` whichever production swallowed it.
-/
import ZnVerif.Proofs.StmtBase

namespace ZnVerif.Proofs.StmtRT
open ZnVerif.Model ZnVerif.Model.Parser ZnVerif.Generated.Tokens ZnVerif.Generated.ParserTables
open ZnVerif.Spec.StmtSyntax

variable {Y : Layout} {v : Variant}

-- ---- follow sets ---------------------------------------------------------------------------------------------------------

-- token types that would continue an expression of the given level (or be swallowed / skipped)
def B7 : List Nat := [cTypeMapHash, cTypeObjDotW, cTypeObjDotIIW, cTypeCommaSep, cTypeComment, cTypeGetResultW]
def B6 : List Nat := B7 ++ mulDivTypes
def B5 : List Nat := B6 ++ addSubTypes
def B4 (cfg : Bool) : List Nat := B5 ++ lv4Types cfg
def B3 (cfg : Bool) : List Nat := B4 cfg ++ lv3ValidTypes
def B2 (cfg : Bool) : List Nat := B3 cfg ++ [cTypeLogicAndW]
def B1 (cfg : Bool) : List Nat := B2 cfg ++ [cTypeLogicOrW]

/-- `、` continues an expression that ends with an open method-call chain -/
def FO (e : Expr) : List Nat := if openEnd e then [cTypePauseCommaSep] else []

/-- the follow set of a whole expression (where `=` assigns), whatever its right edge -/
def F1 : List Nat := B1 true ++ [cTypePauseCommaSep]

/-- what follows the tokens `ts` stops an expression of follow set `F`: it is not a comma, and either the statement is complete
(a statement line break after the last token of `ts`) or the next token is not in `F` -/
def Stop (Y : Layout) (F : List Nat) (ts rest : List Token) : Prop :=
  (Y.peek rest).type ≠ cTypeCommaSep ∧ (Y.jf ts.getLast? (Y.peek rest) = true ∨ (Y.peek rest).type ∉ F)

theorem Stop.mono {F F' : List Nat} {ts rest : List Token} (hs : Stop Y F ts rest) (h : ∀ ty, ty ∉ F → ty ∉ F') :
    Stop Y F' ts rest :=
  ⟨hs.1, hs.2.imp id (h _)⟩

/-- the premise of the `*_now` lemmas in the state `Send Y ts rest` -/
theorem Stop.fl {F tys : List Nat} {ts rest : List Token} (hs : Stop Y F ts rest) (h : ∀ ty, ty ∉ F → ty ∉ tys) :
    Y.jf ts.getLast? (Y.peek rest) = true ∨ (Y.peek rest).type ∉ tys :=
  hs.2.imp id (h _)

theorem Stop.sub {F F' : List Nat} {ts rest : List Token} (hs : Stop Y F ts rest) (h : ∀ ty, ty ∈ F' → ty ∈ F) :
    Stop Y F' ts rest := hs.mono fun _ hn hm => hn (h _ hm)

theorem Stop.last {F : List Nat} {ts ts' rest : List Token} (hs : Stop Y F ts rest) (h : ts'.getLast? = ts.getLast?) :
    Stop Y F ts' rest := by
  unfold Stop at hs ⊢; rw [h]; exact hs

theorem not_mem_of_append_left {a : Nat} {l1 l2 : List Nat} (h : a ∉ l1 ++ l2) : a ∉ l1 :=
  fun h' => h (List.mem_append_left _ h')
theorem not_mem_of_append_right {a : Nat} {l1 l2 : List Nat} (h : a ∉ l1 ++ l2) : a ∉ l2 :=
  fun h' => h (List.mem_append_right _ h')

theorem FO_logic (l ty : Nat) (a b : Expr) : FO (.logic l ty a b) = FO b := by unfold FO; rw [openEnd]
theorem FO_arith (l ty : Nat) (a b : Expr) : FO (.arith l ty a b) = FO b := by unfold FO; rw [openEnd]
theorem FO_assign (l : Nat) (a b : Expr) : FO (.assign l a b) = FO b := by unfold FO; rw [openEnd]

theorem openEnd_setLine (l : Nat) (e : Expr) : openEnd (e.setLine l) = openEnd e := by
  cases e <;> first | (simp [Expr.setLine, openEnd]; done) | (rename_i y; cases y <;> simp [Expr.setLine, openEnd])

theorem FO_setLine (l : Nat) (e : Expr) : FO (e.setLine l) = FO e := by unfold FO; rw [openEnd_setLine]

theorem FO_sub (e : Expr) : ∀ ty, ty ∈ FO e → ty = cTypePauseCommaSep := by
  intro ty h
  unfold FO at h
  split at h
  · simpa using h
  · simp at h

/-- a token type that is neither in `B` nor `、` is not in `B ++ FO e` -/
theorem not_mem_BFO {B : List Nat} {e : Expr} {ty : Nat} (h1 : ty ∉ B) (h2 : ty ≠ cTypePauseCommaSep) : ty ∉ B ++ FO e := by
  intro h
  rcases List.mem_append.mp h with h | h
  · exact h1 h
  · exact h2 (FO_sub e ty h)

-- ---- the tails that end here -----------------------------------------------------------------------------------------------

section tails
variable (e : Expr) (p1 : Option Token) (rest : List Token) (fl : Bool) (cfg : Bool)

theorem lv1Tail_now (h : fl = true ∨ (Y.peek rest).type ∉ [cTypeLogicOrW]) (hc : (Y.peek rest).type ≠ cTypeCommaSep) :
    Stable v Y (.lv1Tail cfg e) (S Y p1 rest fl) (.ok e (S Y p1 rest fl)) 1 := by
  intro n' hn
  obtain ⟨m, rfl⟩ : ∃ m, n' = m + 1 := ⟨n' - 1, by omega⟩
  show pLv1Tail (layoutOps Y) m _ cfg e _ = _
  unfold pLv1Tail
  rw [bind_ok (tryConsume_miss m _ p1 rest fl h hc)]
  rfl

theorem lv2Tail_now (h : fl = true ∨ (Y.peek rest).type ∉ [cTypeLogicAndW]) (hc : (Y.peek rest).type ≠ cTypeCommaSep) :
    Stable v Y (.lv2Tail cfg e) (S Y p1 rest fl) (.ok e (S Y p1 rest fl)) 1 := by
  intro n' hn
  obtain ⟨m, rfl⟩ : ∃ m, n' = m + 1 := ⟨n' - 1, by omega⟩
  show pLv2Tail (layoutOps Y) m _ cfg e _ = _
  unfold pLv2Tail
  rw [bind_ok (tryConsume_miss m _ p1 rest fl h hc)]
  rfl

theorem arithTail_now (h : fl = true ∨ (Y.peek rest).type ∉ addSubTypes) (hc : (Y.peek rest).type ≠ cTypeCommaSep) :
    Stable v Y (.arithTail e) (S Y p1 rest fl) (.ok e (S Y p1 rest fl)) 1 := by
  intro n' hn
  obtain ⟨m, rfl⟩ : ∃ m, n' = m + 1 := ⟨n' - 1, by omega⟩
  show pArithTail (layoutOps Y) m _ e _ = _
  unfold pArithTail
  rw [bind_ok (tryConsume_miss m _ p1 rest fl h hc)]
  rfl

theorem mulDivTail_now (h : fl = true ∨ (Y.peek rest).type ∉ mulDivTypes) (hc : (Y.peek rest).type ≠ cTypeCommaSep) :
    Stable v Y (.mulDivTail e) (S Y p1 rest fl) (.ok e (S Y p1 rest fl)) 1 := by
  intro n' hn
  obtain ⟨m, rfl⟩ : ∃ m, n' = m + 1 := ⟨n' - 1, by omega⟩
  show pMulDivTail (layoutOps Y) m _ e _ = _
  unfold pMulDivTail
  rw [bind_ok (tryConsume_miss m _ p1 rest fl h hc)]
  rfl

theorem memberTail_now (h : fl = true ∨ (Y.peek rest).type ∉ [cTypeMapHash, cTypeObjDotW, cTypeObjDotIIW])
    (hc : (Y.peek rest).type ≠ cTypeCommaSep) :
    Stable v Y (.memberTail e) (S Y p1 rest fl) (.ok e (S Y p1 rest fl)) 1 := by
  intro n' hn
  obtain ⟨m, rfl⟩ : ∃ m, n' = m + 1 := ⟨n' - 1, by omega⟩
  show pMemberTail v (layoutOps Y) m _ e _ = _
  unfold pMemberTail
  rw [bind_ok (tryConsume_miss m _ p1 rest fl h hc)]
  rfl

end tails

-- ---- claims ----------------------------------------------------------------------------------------------------------------

/-- fuel bound of level `k` on `ts`: looser levels sit higher in the call chain -/
def D (k : Nat) (ts : List Token) : Nat := 16 * ts.length + 2 * (8 - k)

/-- nothing, or one comma -/
def CommaOpt (cm : List Token) : Prop := cm = [] ∨ ∃ c : Token, c.type = cTypeCommaSep ∧ cm = [c]

def C7 (v : Variant) (Y : Layout) (e : Expr) (ts : List Token) : Prop :=
  ∀ cm, CommaOpt cm → ∀ p1 rest r n, 1 ≤ n → Y.InOrder (ts ++ (cm ++ rest)) → Y.Glued (ts ++ cm) →
    Stop Y (cTypeGetResultW :: FO e) (ts ++ cm) rest →
    Stable v Y (.memberTail e) (Send Y (ts ++ cm) rest) r n → Stable v Y .member (S Y p1 (ts ++ (cm ++ rest)) false) r (n + D 7 ts)
def C6 (v : Variant) (Y : Layout) (e : Expr) (ts : List Token) : Prop :=
  ∀ p1 rest r n, 1 ≤ n → Y.InOrder (ts ++ rest) → Y.Glued ts → Stop Y (B7 ++ FO e) ts rest →
    Stable v Y (.mulDivTail e) (Send Y ts rest) r n → Stable v Y .mulDiv (S Y p1 (ts ++ rest) false) r (n + D 6 ts)
def C5 (v : Variant) (Y : Layout) (e : Expr) (ts : List Token) : Prop :=
  ∀ p1 rest r n, 1 ≤ n → Y.InOrder (ts ++ rest) → Y.Glued ts → Stop Y (B6 ++ FO e) ts rest →
    Stable v Y (.arithTail e) (Send Y ts rest) r n → Stable v Y .arith (S Y p1 (ts ++ rest) false) r (n + D 5 ts)
def C4 (v : Variant) (Y : Layout) (cfg : Bool) (e : Expr) (ts : List Token) : Prop :=
  ∀ p1 rest, Y.InOrder (ts ++ rest) → Y.Glued ts → Stop Y (B4 cfg ++ FO e) ts rest →
    Stable v Y (.lv4 cfg) (S Y p1 (ts ++ rest) false) (.ok e (Send Y ts rest)) (D 4 ts)
def C3 (v : Variant) (Y : Layout) (cfg : Bool) (e : Expr) (ts : List Token) : Prop :=
  ∀ p1 rest, Y.InOrder (ts ++ rest) → Y.Glued ts → Stop Y (B3 cfg ++ FO e) ts rest →
    Stable v Y (.lv3 cfg) (S Y p1 (ts ++ rest) false) (.ok e (Send Y ts rest)) (D 3 ts)
def C2 (v : Variant) (Y : Layout) (cfg : Bool) (e : Expr) (ts : List Token) : Prop :=
  ∀ p1 rest r n, 1 ≤ n → Y.InOrder (ts ++ rest) → Y.Glued ts → Stop Y (B3 cfg ++ FO e) ts rest →
    Stable v Y (.lv2Tail cfg e) (Send Y ts rest) r n → Stable v Y (.lv2 cfg) (S Y p1 (ts ++ rest) false) r (n + D 2 ts)
def C1 (v : Variant) (Y : Layout) (cfg : Bool) (e : Expr) (ts : List Token) : Prop :=
  ∀ p1 rest r n, 1 ≤ n → Y.InOrder (ts ++ rest) → Y.Glued ts → Stop Y (B2 cfg ++ FO e) ts rest →
    Stable v Y (.lv1Tail cfg e) (Send Y ts rest) r n → Stable v Y (.expr cfg) (S Y p1 (ts ++ rest) false) r (n + D 1 ts)

def Claim (v : Variant) (Y : Layout) (cfg : Bool) : Nat → Expr → List Token → Prop
  | 1 => C1 v Y cfg | 2 => C2 v Y cfg | 3 => C3 v Y cfg | 4 => C4 v Y cfg | 5 => C5 v Y | 6 => C6 v Y | 7 => C7 v Y
  | _ => fun _ _ => False

/-- level 7 without a trailing comma -/
theorem C7.nil {e : Expr} {ts : List Token} (h : C7 v Y e ts) (p1 : Option Token) (rest : List Token)
    (r : Res (List Token) Expr) (n : Nat) (hn : 1 ≤ n) (ho : Y.InOrder (ts ++ rest)) (hg : Y.Glued ts)
    (hs : Stop Y (cTypeGetResultW :: FO e) ts rest) (K : Stable v Y (.memberTail e) (Send Y ts rest) r n) :
    Stable v Y .member (S Y p1 (ts ++ rest) false) r (n + D 7 ts) :=
  h [] (Or.inl rfl) p1 rest r n hn ho (by rwa [List.append_nil]) (by rwa [List.append_nil]) (by rwa [List.append_nil])

/-- token types an expression can start with -/
def exprHeads : List Nat :=
  [cTypeIdentifier, cTypeString, cTypeStmtQuoteL, cTypeArrayQuoteL, cTypeFuncQuoteL, cTypeVarOneW, cTypeObjThisW]

/-- token types a basic expression (`ParseBasicExpr`) can start with -/
def basicHeads : List Nat :=
  [cTypeIdentifier, cTypeString, cTypeStmtQuoteL, cTypeArrayQuoteL, cTypeFuncQuoteL, cTypeVarOneW]

theorem exprHeads_spec : ∀ ty ∈ exprHeads, ty ≠ cTypeEOF ∧ ty ≠ cTypeCommaSep ∧ ty ≠ cTypeComment ∧ ty ∉ B1 false ∧ ty ∉ B1 true ∧
    ty ≠ cTypePauseCommaSep ∧ ty ≠ cTypeArrayQuoteR ∧ ty ≠ cTypeAssignMark ∧ ty ≠ cTypeFuncQuoteR := by decide

theorem basicHeads_sub : ∀ ty ∈ basicHeads, ty ∈ exprHeads := by decide
theorem basicHeads_spec : ∀ ty ∈ basicHeads, ty ≠ cTypeCommaSep ∧ ty ∉ [cTypeObjThisW] ∧ ty ∈ basicValidTypes := by decide

structure Facts (Y : Layout) (ts : List Token) : Prop where
  ne : ts ≠ []
  first : (Y.peek ts).type ∈ exprHeads

theorem facts_append {ta tb : List Token} (ha : Facts Y ta) : Facts Y (ta ++ tb) where
  ne := by simp [ha.ne]
  first := by rw [peek_append ha.ne]; exact ha.first

theorem facts_cons {t : Token} {r : List Token} (h : t.type ∈ exprHeads) : Facts Y (t :: r) := ⟨by simp, h⟩

theorem Facts.nc {ts : List Token} (h : Facts Y ts) (rest : List Token) : (Y.peek (ts ++ rest)).type ≠ cTypeCommaSep := by
  rw [peek_append h.ne]; exact (exprHeads_spec _ h.first).2.1

theorem Facts.neof {ts : List Token} (h : Facts Y ts) (rest : List Token) : (Y.peek (ts ++ rest)).type ≠ cTypeEOF := by
  rw [peek_append h.ne]; exact (exprHeads_spec _ h.first).1

-- ---- lists -------------------------------------------------------------------------------------------------------------------

theorem getLast?_binop (ta tb : List Token) (t : Token) (h : tb ≠ []) : (ta ++ t :: tb).getLast? = tb.getLast? := by
  rw [List.append_cons, getLast?_append_ne _ h]

theorem getLast?_snoc (ts : List Token) (c : Token) : (ts ++ [c]).getLast? = some c := by
  rw [List.getLast?_append]; rfl

theorem Send_binop (ta tb rest : List Token) (t : Token) (h : tb ≠ []) : Send Y (ta ++ t :: tb) rest = Send Y tb rest := by
  unfold Send
  rw [getLast?_binop ta tb t h]

theorem Send_last {ts ts' : List Token} (h : ts'.getLast? = ts.getLast?) (rest : List Token) : Send Y ts' rest = Send Y ts rest := by
  unfold Send; rw [h]

theorem Send_append (ta : List Token) {tb : List Token} (h : tb ≠ []) (rest : List Token) :
    Send Y (ta ++ tb) rest = Send Y tb rest := Send_last (getLast?_append_ne ta h) rest

theorem stop_binop {F : List Nat} (ta tb rest : List Token) (t : Token) (h : tb ≠ []) (hs : Stop Y F (ta ++ t :: tb) rest) :
    Stop Y F tb rest := hs.last (getLast?_binop ta tb t h).symm

/-- state after the tokens of `ta`, when the token `t` follows and is glued to them: the flag is unset -/
theorem Send_mid (ta tb rest : List Token) (t : Token) (hg : Y.Glued (ta ++ t :: tb)) :
    Send Y ta (t :: tb ++ rest) = S Y ta.getLast? (t :: (tb ++ rest)) false := by
  show S Y ta.getLast? (t :: (tb ++ rest)) (Y.jf ta.getLast? t) = _
  rw [glued_joint ta hg]

theorem Send_joint (ta : List Token) (t : Token) (r : List Token) (hj : Y.jf ta.getLast? t = false) :
    Send Y ta (t :: r) = S Y ta.getLast? (t :: r) false := by
  show S Y ta.getLast? (t :: r) (Y.jf ta.getLast? t) = _
  rw [hj]

/-- flag after consuming a token when a glued token follows -/
theorem brk_mid {t : Token} {tb : List Token} (hne : tb ≠ []) (hg : Y.Glued (t :: tb)) (rest : List Token) :
    Y.brk t (Y.peek (tb ++ rest)) = false := by
  cases tb with
  | nil => exact absurd rfl hne
  | cons u r => exact hg.1

theorem commaOpt_cases {cm : List Token} (h : CommaOpt cm) : cm = [] ∨ ∃ c : Token, c.type = cTypeCommaSep ∧ cm = [c] := h

theorem bind_congr {α β : Type} {x : PM (List Token) α} {f : α → PM (List Token) β} {s s' : PState (List Token)}
    (h : x s = x s') : (x >>= f) s = (x >>= f) s' := by
  show PM.bind x f s = PM.bind x f s'
  unfold PM.bind
  rw [h]

-- ---- a comma after an operand ----------------------------------------------------------------------------------------------

/-- a probe in the state before a glued comma = the same probe in the state after it (`comma_is_optional`) -/
theorem tryConsume_swallow (m : Nat) (tys : List Nat) (ts : List Token) (c : Token) (rest : List Token)
    (hc : c.type = cTypeCommaSep) (hj : Y.jf ts.getLast? c = false) (ho : Y.InOrder (c :: rest))
    (hnc : (Y.peek rest).type ≠ cTypeCommaSep) :
    tryConsume (layoutOps Y) (m + 1) tys (Send Y ts (c :: rest)) = tryConsume (layoutOps Y) (m + 1) tys (Send Y (ts ++ [c]) rest) := by
  rw [Send_joint ts c rest hj]
  have hR : Send Y (ts ++ [c]) rest = S Y (some c) rest (Y.brk c (Y.peek rest)) := by
    unfold Send; rw [getLast?_snoc]; rfl
  rw [hR]
  conv => lhs; unfold tryConsume
  have h1 : (S Y ts.getLast? (c :: rest) false).p2.type = cTypeCommaSep := hc
  simp only [Bind.bind, PM.bind, getS, h1, if_true, next_S m ts.getLast? c rest false ho, Bool.false_or]
  conv => rhs; unfold tryConsume
  have h2 : (S Y (some c) rest (Y.brk c (Y.peek rest))).p2.type ≠ cTypeCommaSep := hnc
  simp only [Bind.bind, PM.bind, getS, h2, if_false]

theorem memberTail_swallow (m : Nat) (e : Expr) (ts : List Token) (c : Token) (rest : List Token)
    (hc : c.type = cTypeCommaSep) (hj : Y.jf ts.getLast? c = false) (ho : Y.InOrder (c :: rest))
    (hnc : (Y.peek rest).type ≠ cTypeCommaSep) :
    parse v (layoutOps Y) (m + 2) (.memberTail e) (Send Y ts (c :: rest)) =
      parse v (layoutOps Y) (m + 2) (.memberTail e) (Send Y (ts ++ [c]) rest) := by
  show pMemberTail v (layoutOps Y) (m + 1) _ e _ = pMemberTail v (layoutOps Y) (m + 1) _ e _
  unfold pMemberTail
  exact bind_congr (tryConsume_swallow m _ ts c rest hc hj ho hnc)

/-- the member tail after `ts`, when an optional comma and then `rest` follow, is the member tail after `ts ++ cm` -/
theorem tail_comma {e : Expr} {ts cm rest : List Token} {r : Res (List Token) Expr} {n : Nat} (hcm : CommaOpt cm)
    (hg : Y.Glued (ts ++ cm)) (ho : Y.InOrder (cm ++ rest)) (hnc : (Y.peek rest).type ≠ cTypeCommaSep) (hn : 1 ≤ n)
    (K : Stable v Y (.memberTail e) (Send Y (ts ++ cm) rest) r n) :
    Stable v Y (.memberTail e) (Send Y ts (cm ++ rest)) r (n + 1) := by
  rcases hcm with rfl | ⟨c, hc, rfl⟩
  · rw [List.append_nil] at K
    exact Stable.mono K (Nat.le_succ _)
  · intro n' hn'
    obtain ⟨m, rfl⟩ : ∃ m, n' = m + 2 := ⟨n' - 2, by omega⟩
    have hj : Y.jf ts.getLast? c = false := glued_joint ts hg
    show parse v (layoutOps Y) (m + 2) (.memberTail e) (Send Y ts (c :: rest)) = r
    rw [memberTail_swallow m e ts c rest hc hj ho hnc]
    exact K (m + 2) (by omega)

-- ---- a tighter expression where a looser one is expected ---------------------------------------------------------------

theorem B7_member {ty : Nat} (h : ty ∉ B7) : ty ∉ [cTypeMapHash, cTypeObjDotW, cTypeObjDotIIW] := by
  simp only [B7, List.mem_cons, List.not_mem_nil, or_false, not_or] at h ⊢
  exact ⟨h.1, h.2.1, h.2.2.1⟩

theorem B7_yield {ty : Nat} (h : ty ∉ B7) : ty ≠ cTypeGetResultW := by
  simp only [B7, List.mem_cons, List.not_mem_nil, or_false, not_or] at h
  exact h.2.2.2.2.2

/-- `Bk ++ FO e` is at least `得到 :: FO e` and at least `B7` -/
theorem stop7 {B : List Nat} {e : Expr} {ts rest : List Token} (hB : ∀ ty, ty ∉ B → ty ∉ B7)
    (hs : Stop Y (B ++ FO e) ts rest) : Stop Y (cTypeGetResultW :: FO e) ts rest ∧ Stop Y B7 ts rest :=
  ⟨hs.mono fun ty h hm => by
      rcases List.mem_cons.mp hm with hm | hm
      · exact B7_yield (hB ty (not_mem_of_append_left h)) hm
      · exact not_mem_of_append_right h hm,
   hs.mono fun ty h => hB ty (not_mem_of_append_left h)⟩

theorem sub_app {B B' : List Nat} {e : Expr} (h : ∀ ty, ty ∉ B → ty ∉ B') : ∀ ty, ty ∉ B ++ FO e → ty ∉ B' ++ FO e := by
  intro ty hn hm
  rcases List.mem_append.mp hm with hm | hm
  · exact h ty (not_mem_of_append_left hn) hm
  · exact not_mem_of_append_right hn hm

theorem B21 (cfg : Bool) {ty : Nat} : ty ∉ B1 cfg → ty ∉ B2 cfg := not_mem_of_append_left
theorem B32 (cfg : Bool) {ty : Nat} : ty ∉ B2 cfg → ty ∉ B3 cfg := not_mem_of_append_left
theorem B43 (cfg : Bool) {ty : Nat} : ty ∉ B3 cfg → ty ∉ B4 cfg := not_mem_of_append_left
theorem B54 (cfg : Bool) {ty : Nat} : ty ∉ B4 cfg → ty ∉ B5 := not_mem_of_append_left
theorem B65 {ty : Nat} : ty ∉ B5 → ty ∉ B6 := not_mem_of_append_left
theorem B76 {ty : Nat} : ty ∉ B6 → ty ∉ B7 := not_mem_of_append_left

theorem up6 (e : Expr) (ts : List Token) (h : C7 v Y e ts) : C6 v Y e ts := by
  intro p1 rest r n hn1 ho hg hs hstab n' hn
  obtain ⟨m, rfl⟩ : ∃ m, n' = m + 1 := ⟨n' - 1, by unfold D at hn; omega⟩
  obtain ⟨hs1, hs2⟩ := stop7 (fun _ h => h) hs
  show pMulDiv _ _ = r
  unfold pMulDiv
  have hm := h.nil p1 rest (.ok e (Send Y ts rest)) 1 (Nat.le_refl _) ho hg hs1
    (memberTail_now e _ rest _ (hs2.fl fun _ => B7_member) hs.1) m (by unfold D at hn ⊢; omega)
  rw [bind_ok hm]
  exact hstab m (by unfold D at hn; omega)

/-- an operand followed by a comma -/
theorem comma6 (c : Token) (e : Expr) (ts : List Token) (hc : c.type = cTypeCommaSep) (h : C7 v Y e ts) :
    C6 v Y e (ts ++ [c]) := by
  intro p1 rest r n hn1 ho hg hs hstab n' hn
  obtain ⟨m, rfl⟩ : ∃ m, n' = m + 1 := ⟨n' - 1, by unfold D at hn; omega⟩
  obtain ⟨hs1, hs2⟩ := stop7 (fun _ h => h) hs
  show pMulDiv _ _ = r
  unfold pMulDiv
  rw [List.append_assoc] at ho ⊢
  have hm := h [c] (Or.inr ⟨c, hc, rfl⟩) p1 rest (.ok e (Send Y (ts ++ [c]) rest)) 1 (Nat.le_refl _) ho hg hs1
    (memberTail_now e _ rest _ (hs2.fl fun _ => B7_member) hs.1) m
    (by unfold D at hn ⊢; simp only [List.length_append, List.length_cons, List.length_nil] at hn; omega)
  rw [bind_ok hm]
  exact hstab m (by unfold D at hn; omega)

theorem up5 (e : Expr) (ts : List Token) (h : C6 v Y e ts) : C5 v Y e ts := by
  intro p1 rest r n hn1 ho hg hs hstab n' hn
  obtain ⟨m, rfl⟩ : ∃ m, n' = m + 1 := ⟨n' - 1, by unfold D at hn; omega⟩
  show pArith _ _ = r
  unfold pArith
  rw [bind_ok (h p1 rest (.ok e (Send Y ts rest)) 1 (Nat.le_refl _) ho hg (hs.mono (sub_app fun _ => B76))
    (mulDivTail_now e _ rest _ (hs.fl fun _ h => not_mem_of_append_right (not_mem_of_append_left h)) hs.1) m
    (by unfold D at hn ⊢; omega))]
  exact hstab m (by unfold D at hn; omega)

theorem up4 (cfg : Bool) (e : Expr) (ts : List Token) (h : C5 v Y e ts) : C4 v Y cfg e ts := by
  intro p1 rest ho hg hs n' hn
  obtain ⟨m, rfl⟩ : ∃ m, n' = m + 1 := ⟨n' - 1, by unfold D at hn; omega⟩
  have hs5 : Stop Y (B5 ++ FO e) ts rest := hs.mono (sub_app fun _ => B54 cfg)
  show pLv4 v (layoutOps Y) m _ cfg _ = _
  unfold pLv4
  rw [bind_ok (h p1 rest (.ok e (Send Y ts rest)) 1 (Nat.le_refl _) ho hg (hs5.mono (sub_app fun _ => B65))
    (arithTail_now e _ rest _ (hs5.fl fun _ h => not_mem_of_append_right (not_mem_of_append_left h)) hs.1) m
    (by unfold D at hn ⊢; omega))]
  unfold Send
  have hl : (if cfg = true then lv4ValidTypes ++ lv4VarAssignExtra else lv4ValidTypes) = lv4Types cfg := rfl
  rw [hl, bind_ok (tryConsume_miss m _ _ rest _ (hs.fl fun _ h => not_mem_of_append_right (not_mem_of_append_left h)) hs.1)]
  rfl

theorem up3 (cfg : Bool) (e : Expr) (ts : List Token) (h : C4 v Y cfg e ts) : C3 v Y cfg e ts := by
  intro p1 rest ho hg hs n' hn
  obtain ⟨m, rfl⟩ : ∃ m, n' = m + 1 := ⟨n' - 1, by unfold D at hn; omega⟩
  show pLv3 (layoutOps Y) m _ cfg _ = _
  unfold pLv3
  rw [bind_ok (h p1 rest ho hg (hs.mono (sub_app fun _ => B43 cfg)) m (by unfold D at hn ⊢; omega))]
  unfold Send
  rw [bind_ok (tryConsume_miss m _ _ rest _ (hs.fl fun _ h => not_mem_of_append_right (not_mem_of_append_left h)) hs.1)]
  rfl

theorem up2 (cfg : Bool) (e : Expr) (ts : List Token) (h : C3 v Y cfg e ts) : C2 v Y cfg e ts := by
  intro p1 rest r n hn1 ho hg hs hstab n' hn
  obtain ⟨m, rfl⟩ : ∃ m, n' = m + 1 := ⟨n' - 1, by unfold D at hn; omega⟩
  show pLv2 _ cfg _ = r
  unfold pLv2
  rw [bind_ok (h p1 rest ho hg hs m (by unfold D at hn ⊢; omega))]
  exact hstab m (by unfold D at hn; omega)

theorem up1 (cfg : Bool) (e : Expr) (ts : List Token) (h : C2 v Y cfg e ts) : C1 v Y cfg e ts := by
  intro p1 rest r n hn1 ho hg hs hstab n' hn
  obtain ⟨m, rfl⟩ : ∃ m, n' = m + 1 := ⟨n' - 1, by unfold D at hn; omega⟩
  show pLv1 _ cfg _ = r
  unfold pLv1
  rw [bind_ok (h p1 rest (.ok e (Send Y ts rest)) 1 (Nat.le_refl _) ho hg (hs.mono (sub_app fun _ => B32 cfg))
    (lv2Tail_now e _ rest _ cfg (hs.fl fun _ h => not_mem_of_append_right (not_mem_of_append_left h)) hs.1) m
    (by unfold D at hn ⊢; omega))]
  exact hstab m (by unfold D at hn; omega)

/-- a whole expression, in direct style -/
theorem c1_done {cfg : Bool} {e : Expr} {ts : List Token} (C : C1 v Y cfg e ts) (p1 : Option Token) (rest : List Token)
    (ho : Y.InOrder (ts ++ rest)) (hg : Y.Glued ts) (hs : Stop Y (B1 cfg ++ FO e) ts rest) :
    Stable v Y (.expr cfg) (S Y p1 (ts ++ rest) false) (.ok e (Send Y ts rest)) (16 * ts.length + 16) := by
  have := C p1 rest (.ok e (Send Y ts rest)) 1 (Nat.le_refl _) ho hg (hs.mono (sub_app fun _ => B21 cfg))
    (lv1Tail_now e _ rest _ cfg (hs.fl fun _ h => not_mem_of_append_right (not_mem_of_append_left h)) hs.1)
  refine this.mono ?_
  unfold D
  omega

-- ---- binary operators --------------------------------------------------------------------------------------------------------

theorem opTok_nc {t : Token} {l : List Nat} (hl : ∀ ty ∈ l, ty ≠ cTypeCommaSep ∧ ty ≠ cTypePauseCommaSep) (h : t.type ∈ l) :
    t.type ≠ cTypeCommaSep ∧ t.type ≠ cTypePauseCommaSep := hl _ h

theorem lv3_nc : ∀ ty ∈ lv3ValidTypes, ty ≠ cTypeCommaSep ∧ ty ≠ cTypePauseCommaSep := by decide
theorem addSub_nc : ∀ ty ∈ addSubTypes, ty ≠ cTypeCommaSep ∧ ty ≠ cTypePauseCommaSep := by decide
theorem mulDiv_nc : ∀ ty ∈ mulDivTypes, ty ≠ cTypeCommaSep ∧ ty ≠ cTypePauseCommaSep := by decide
theorem lv4_nc : ∀ cfg, ∀ ty ∈ lv4Types cfg, ty ≠ cTypeCommaSep ∧ ty ≠ cTypePauseCommaSep := by decide

theorem addSub_not_B6 : ∀ ty ∈ addSubTypes, ty ∉ B6 := by decide
theorem mulDiv_not_B7 : ∀ ty ∈ mulDivTypes, ty ∉ B7 := by decide
theorem lv3_not_B4 : ∀ cfg, ∀ ty ∈ lv3ValidTypes, ty ∉ B4 cfg := by decide
theorem lv4_not_B5 : ∀ cfg, ∀ ty ∈ lv4Types cfg, ty ∉ B5 := by decide
theorem or_not_B2 : ∀ cfg, cTypeLogicOrW ∉ B2 cfg := by decide
theorem and_not_B3 : ∀ cfg, cTypeLogicAndW ∉ B3 cfg := by decide

/-- `a 或 b` -/
theorem case_or (cfg : Bool) (t : Token) (a b : Expr) (ta tb : List Token) (ht : t.type = cTypeLogicOrW)
    (Ca : C1 v Y cfg a ta) (Fb : Facts Y tb) (Cb : C2 v Y cfg b tb) :
    C1 v Y cfg (.logic (Y.sl t) cLogicOR a b) (ta ++ t :: tb) := by
  intro p1 rest r n hn1 ho hg hs hstab
  have htc : t.type ≠ cTypeCommaSep ∧ t.type ≠ cTypePauseCommaSep := by rw [ht]; decide
  rw [FO_logic] at hs
  rw [List.append_assoc] at ho
  have hob : Y.InOrder (t :: (tb ++ rest)) := inOrder_drop ta ho
  have hgb : Y.Glued (t :: tb) := glued_drop ta hg
  have hsb : Stop Y (B2 cfg ++ FO b) tb rest := stop_binop ta tb rest t Fb.ne hs
  have key : Stable v Y (.lv1Tail cfg a) (Send Y ta (t :: tb ++ rest)) r (max n (1 + D 2 tb) + 1) := by
    intro n' hn
    obtain ⟨m, rfl⟩ : ∃ m, n' = m + 2 := ⟨n' - 2, by unfold D at hn; omega⟩
    rw [Send_mid ta tb rest t hg]
    show pLv1Tail (layoutOps Y) (m + 1) _ cfg a _ = r
    unfold pLv1Tail
    rw [bind_ok (tryConsume_hit m _ _ t (tb ++ rest) (by simp [ht]) htc.1 hob)]
    simp only [brk_mid Fb.ne hgb rest]
    have hb := Cb (some t) rest (.ok b (Send Y tb rest)) 1 (Nat.le_refl _) (inOrder_tail hob) (glued_tail hgb)
      (hsb.mono (sub_app fun _ => B32 cfg))
      (lv2Tail_now b _ rest _ cfg (hsb.fl fun _ h => not_mem_of_append_right (not_mem_of_append_left h)) hsb.1) (m + 1) (by omega)
    rw [bind_ok hb, bind_ok (lineOf_S t _)]
    rw [Send_binop ta tb rest t Fb.ne] at hstab
    exact hstab (m + 1) (by omega)
  have hhead : Stop Y (B2 cfg ++ FO a) ta (t :: tb ++ rest) :=
    ⟨htc.1, Or.inr (not_mem_BFO (by show t.type ∉ _; rw [ht]; exact or_not_B2 cfg) htc.2)⟩
  have := Ca p1 (t :: tb ++ rest) r _ (by omega) ho (glued_take ta hg) hhead key
  rw [List.append_assoc]
  refine this.mono ?_
  unfold D
  simp only [List.length_append, List.length_cons]
  omega

/-- `a 且 b` -/
theorem case_and (cfg : Bool) (t : Token) (a b : Expr) (ta tb : List Token) (ht : t.type = cTypeLogicAndW)
    (Ca : C2 v Y cfg a ta) (Fb : Facts Y tb) (Cb : C3 v Y cfg b tb) :
    C2 v Y cfg (.logic (Y.sl t) cLogicAND a b) (ta ++ t :: tb) := by
  intro p1 rest r n hn1 ho hg hs hstab
  have htc : t.type ≠ cTypeCommaSep ∧ t.type ≠ cTypePauseCommaSep := by rw [ht]; decide
  rw [FO_logic] at hs
  rw [List.append_assoc] at ho
  have hob : Y.InOrder (t :: (tb ++ rest)) := inOrder_drop ta ho
  have hgb : Y.Glued (t :: tb) := glued_drop ta hg
  have hsb : Stop Y (B3 cfg ++ FO b) tb rest := stop_binop ta tb rest t Fb.ne hs
  have key : Stable v Y (.lv2Tail cfg a) (Send Y ta (t :: tb ++ rest)) r (max n (D 3 tb) + 1) := by
    intro n' hn
    obtain ⟨m, rfl⟩ : ∃ m, n' = m + 2 := ⟨n' - 2, by unfold D at hn; omega⟩
    rw [Send_mid ta tb rest t hg]
    show pLv2Tail (layoutOps Y) (m + 1) _ cfg a _ = r
    unfold pLv2Tail
    rw [bind_ok (tryConsume_hit m _ _ t (tb ++ rest) (by simp [ht]) htc.1 hob)]
    simp only [brk_mid Fb.ne hgb rest]
    have hb := Cb (some t) rest (inOrder_tail hob) (glued_tail hgb) hsb (m + 1) (by omega)
    rw [bind_ok hb, bind_ok (lineOf_S t _)]
    rw [Send_binop ta tb rest t Fb.ne] at hstab
    exact hstab (m + 1) (by omega)
  have hhead : Stop Y (B3 cfg ++ FO a) ta (t :: tb ++ rest) :=
    ⟨htc.1, Or.inr (not_mem_BFO (by show t.type ∉ _; rw [ht]; exact and_not_B3 cfg) htc.2)⟩
  have := Ca p1 (t :: tb ++ rest) r _ (by omega) ho (glued_take ta hg) hhead key
  rw [List.append_assoc]
  refine this.mono ?_
  unfold D
  simp only [List.length_append, List.length_cons]
  omega

/-- `a + b`, `a - b` -/
theorem case_add (t : Token) (a b : Expr) (ta tb : List Token) (ht : t.type ∈ addSubTypes)
    (Ca : C5 v Y a ta) (Fb : Facts Y tb) (Cb : C6 v Y b tb) :
    C5 v Y (.arith (Y.sl t) (lookupD addSubOverride t.type addSubDefault) a b) (ta ++ t :: tb) := by
  intro p1 rest r n hn1 ho hg hs hstab
  have htc := opTok_nc addSub_nc ht
  rw [FO_arith] at hs
  rw [List.append_assoc] at ho
  have hob : Y.InOrder (t :: (tb ++ rest)) := inOrder_drop ta ho
  have hgb : Y.Glued (t :: tb) := glued_drop ta hg
  have hsb : Stop Y (B6 ++ FO b) tb rest := stop_binop ta tb rest t Fb.ne hs
  have key : Stable v Y (.arithTail a) (Send Y ta (t :: tb ++ rest)) r (max n (1 + D 6 tb) + 1) := by
    intro n' hn
    obtain ⟨m, rfl⟩ : ∃ m, n' = m + 2 := ⟨n' - 2, by unfold D at hn; omega⟩
    rw [Send_mid ta tb rest t hg]
    show pArithTail (layoutOps Y) (m + 1) _ a _ = r
    unfold pArithTail
    rw [bind_ok (tryConsume_hit m _ _ t (tb ++ rest) ht htc.1 hob)]
    simp only [brk_mid Fb.ne hgb rest]
    have hb := Cb (some t) rest (.ok b (Send Y tb rest)) 1 (Nat.le_refl _) (inOrder_tail hob) (glued_tail hgb)
      (hsb.mono (sub_app fun _ => B76))
      (mulDivTail_now b _ rest _ (hsb.fl fun _ h => not_mem_of_append_right (not_mem_of_append_left h)) hsb.1) (m + 1) (by omega)
    rw [bind_ok hb, bind_ok (lineOf_S t _)]
    rw [Send_binop ta tb rest t Fb.ne] at hstab
    exact hstab (m + 1) (by omega)
  have hhead : Stop Y (B6 ++ FO a) ta (t :: tb ++ rest) := ⟨htc.1, Or.inr (not_mem_BFO (addSub_not_B6 _ ht) htc.2)⟩
  have := Ca p1 (t :: tb ++ rest) r _ (by omega) ho (glued_take ta hg) hhead key
  rw [List.append_assoc]
  refine this.mono ?_
  unfold D
  simp only [List.length_append, List.length_cons]
  omega

/-- `a * b`, `a / b`, `a | b`, `a % b` -/
theorem case_mul (t : Token) (a b : Expr) (ta tb : List Token) (ht : t.type ∈ mulDivTypes)
    (Ca : C6 v Y a ta) (Fb : Facts Y tb) (Cb : C7 v Y b tb) :
    C6 v Y (.arith (Y.sl t) (lookupD mulDivTypeMap t.type 0) a b) (ta ++ t :: tb) := by
  intro p1 rest r n hn1 ho hg hs hstab
  have htc := opTok_nc mulDiv_nc ht
  rw [FO_arith] at hs
  rw [List.append_assoc] at ho
  have hob : Y.InOrder (t :: (tb ++ rest)) := inOrder_drop ta ho
  have hgb : Y.Glued (t :: tb) := glued_drop ta hg
  have hsb : Stop Y (B7 ++ FO b) tb rest := stop_binop ta tb rest t Fb.ne hs
  obtain ⟨hsb1, hsb2⟩ := stop7 (fun _ h => h) hsb
  have key : Stable v Y (.mulDivTail a) (Send Y ta (t :: tb ++ rest)) r (max n (1 + D 7 tb) + 1) := by
    intro n' hn
    obtain ⟨m, rfl⟩ : ∃ m, n' = m + 2 := ⟨n' - 2, by unfold D at hn; omega⟩
    rw [Send_mid ta tb rest t hg]
    show pMulDivTail (layoutOps Y) (m + 1) _ a _ = r
    unfold pMulDivTail
    rw [bind_ok (tryConsume_hit m _ _ t (tb ++ rest) ht htc.1 hob)]
    simp only [brk_mid Fb.ne hgb rest]
    have hb := Cb.nil (some t) rest (.ok b (Send Y tb rest)) 1 (Nat.le_refl _) (inOrder_tail hob)
      (glued_tail hgb) hsb1 (memberTail_now b _ rest _ (hsb2.fl fun _ => B7_member) hsb.1) (m + 1) (by omega)
    rw [bind_ok hb, bind_ok (lineOf_S t _)]
    rw [Send_binop ta tb rest t Fb.ne] at hstab
    exact hstab (m + 1) (by omega)
  have hhead : Stop Y (B7 ++ FO a) ta (t :: tb ++ rest) := ⟨htc.1, Or.inr (not_mem_BFO (mulDiv_not_B7 _ ht) htc.2)⟩
  have := Ca p1 (t :: tb ++ rest) r _ (by omega) ho (glued_take ta hg) hhead key
  rw [List.append_assoc]
  refine this.mono ?_
  unfold D
  simp only [List.length_append, List.length_cons]
  omega

/-- `a < b` and the other comparisons: exactly one -/
theorem case_cmp (cfg : Bool) (t : Token) (a b : Expr) (ta tb : List Token) (ht : t.type ∈ lv3ValidTypes)
    (Ca : C4 v Y cfg a ta) (Fb : Facts Y tb) (Cb : C4 v Y cfg b tb) :
    C3 v Y cfg (.logic (Y.sl t) (lookupD logicTypeMap t.type 0) a b) (ta ++ t :: tb) := by
  intro p1 rest ho hg hs n' hn
  have htc := opTok_nc lv3_nc ht
  rw [FO_logic] at hs
  rw [List.append_assoc] at ho
  have hob : Y.InOrder (t :: (tb ++ rest)) := inOrder_drop ta ho
  have hgb : Y.Glued (t :: tb) := glued_drop ta hg
  have hsb : Stop Y (B3 cfg ++ FO b) tb rest := stop_binop ta tb rest t Fb.ne hs
  obtain ⟨m, rfl⟩ : ∃ m, n' = m + 2 := ⟨n' - 2, by unfold D at hn; omega⟩
  have hlen : D 3 (ta ++ t :: tb) = 16 * (ta.length + (tb.length + 1)) + 10 := by
    unfold D; simp only [List.length_append, List.length_cons]
  rw [hlen] at hn
  show pLv3 (layoutOps Y) (m + 1) _ cfg _ = _
  unfold pLv3
  rw [List.append_assoc]
  have hhead : Stop Y (B4 cfg ++ FO a) ta (t :: tb ++ rest) := ⟨htc.1, Or.inr (not_mem_BFO (lv3_not_B4 cfg _ ht) htc.2)⟩
  have ha := Ca p1 (t :: tb ++ rest) ho (glued_take ta hg) hhead (m + 1) (by unfold D; omega)
  rw [bind_ok ha, Send_mid ta tb rest t hg]
  rw [bind_ok (tryConsume_hit m _ _ t (tb ++ rest) ht htc.1 hob)]
  simp only [brk_mid Fb.ne hgb rest]
  have hb := Cb (some t) rest (inOrder_tail hob) (glued_tail hgb) (hsb.mono (sub_app fun _ => B43 cfg)) (m + 1) (by unfold D; omega)
  rw [bind_ok hb, bind_ok (lineOf_S t _), Send_binop ta tb rest t Fb.ne]
  rfl

/-- `a = b`, `a 为 b`: one assignment, the target assignable -/
theorem case_assign (cfg : Bool) (t : Token) (a b : Expr) (ta tb : List Token) (ht : t.type ∈ lv4Types cfg)
    (hassn : a.isAssignable = true) (Ca : C5 v Y a ta) (Fb : Facts Y tb) (Cb : C5 v Y b tb) :
    C4 v Y cfg (.assign (Y.sl t) a b) (ta ++ t :: tb) := by
  intro p1 rest ho hg hs n' hn
  have htc := opTok_nc (lv4_nc cfg) ht
  rw [FO_assign] at hs
  rw [List.append_assoc] at ho
  have hob : Y.InOrder (t :: (tb ++ rest)) := inOrder_drop ta ho
  have hgb : Y.Glued (t :: tb) := glued_drop ta hg
  have hsb : Stop Y (B4 cfg ++ FO b) tb rest := stop_binop ta tb rest t Fb.ne hs
  have hsb5 : Stop Y (B5 ++ FO b) tb rest := hsb.mono (sub_app fun _ => B54 cfg)
  obtain ⟨m, rfl⟩ : ∃ m, n' = m + 2 := ⟨n' - 2, by unfold D at hn; omega⟩
  have hlen : D 4 (ta ++ t :: tb) = 16 * (ta.length + (tb.length + 1)) + 8 := by
    unfold D; simp only [List.length_append, List.length_cons]
  rw [hlen] at hn
  show pLv4 v (layoutOps Y) (m + 1) _ cfg _ = _
  unfold pLv4
  rw [List.append_assoc]
  have hhead5 : Stop Y (B5 ++ FO a) ta (t :: tb ++ rest) := ⟨htc.1, Or.inr (not_mem_BFO (lv4_not_B5 cfg _ ht) htc.2)⟩
  have ha := Ca p1 (t :: tb ++ rest) (.ok a (Send Y ta (t :: tb ++ rest))) 1 (Nat.le_refl _) ho (glued_take ta hg)
    (hhead5.mono (sub_app fun _ => B65))
    (arithTail_now a _ _ _ (hhead5.fl fun _ h => not_mem_of_append_right (not_mem_of_append_left h)) htc.1) (m + 1)
    (by unfold D; omega)
  rw [bind_ok ha, Send_mid ta tb rest t hg]
  have hl : (if cfg = true then lv4ValidTypes ++ lv4VarAssignExtra else lv4ValidTypes) = lv4Types cfg := rfl
  rw [hl, bind_ok (tryConsume_hit m _ _ t (tb ++ rest) ht htc.1 hob)]
  simp only [brk_mid Fb.ne hgb rest, hassn, if_true]
  have hb := Cb (some t) rest (.ok b (Send Y tb rest)) 1 (Nat.le_refl _) (inOrder_tail hob) (glued_tail hgb)
    (hsb5.mono (sub_app fun _ => B65))
    (arithTail_now b _ rest _ (hsb5.fl fun _ h => not_mem_of_append_right (not_mem_of_append_left h)) hsb.1) (m + 1)
    (by unfold D; omega)
  rw [bind_ok hb, bind_ok (lineOf_S t _), Send_binop ta tb rest t Fb.ne]
  rfl

-- ---- level 7 from a basic expression, and one more step of a member chain --------------------------------------------------

/-- the member tail in state `st` does what it does in state `st'` -/
def TailEq (v : Variant) (Y : Layout) (e : Expr) (st st' : PState (List Token)) : Prop :=
  ∀ (r : Res (List Token) Expr) n, 1 ≤ n → Stable v Y (.memberTail e) st' r n → Stable v Y (.memberTail e) st r (n + 1)

theorem TailEq.refl (e : Expr) (st : PState (List Token)) : TailEq v Y e st st := fun _ _ _ h => Stable.mono h (Nat.le_succ _)

/-- a basic expression is a member expression: `ParseMemberExpr` = `ParseBasicExpr`, then the member tail -/
theorem c7_of_basic (e : Expr) (ts : List Token) (hne : ts ≠ []) (hfirst : (Y.peek ts).type ∈ basicHeads) (B : Nat)
    (hB : B + 2 ≤ D 7 ts)
    (hb : ∀ cm, CommaOpt cm → ∀ p1 rest, Y.InOrder (ts ++ (cm ++ rest)) → Y.Glued (ts ++ cm) →
      Stop Y (cTypeGetResultW :: FO e) (ts ++ cm) rest →
      ∃ st, Stable v Y .basic (S Y p1 (ts ++ (cm ++ rest)) false) (.ok e st) B ∧ TailEq v Y e st (Send Y (ts ++ cm) rest)) :
    C7 v Y e ts := by
  intro cm hcm p1 rest r n hn1 ho hg hs K n' hn
  obtain ⟨m, rfl⟩ : ∃ m, n' = m + 1 := ⟨n' - 1, by omega⟩
  obtain ⟨st, hbasic, hte⟩ := hb cm hcm p1 rest ho hg hs
  have hsp := basicHeads_spec _ hfirst
  have hpk : Y.peek (ts ++ (cm ++ rest)) = Y.peek ts := peek_append hne _
  show pMember v (layoutOps Y) m _ _ = _
  unfold pMember
  rw [bind_ok (tryConsume_miss m _ p1 _ false (Or.inr (by rw [hpk]; exact hsp.2.1)) (by rw [hpk]; exact hsp.1))]
  show (parse v (layoutOps Y) m .basic >>= fun e => parse v (layoutOps Y) m (.memberTail e)) _ = _
  rw [bind_ok (hbasic m (by omega))]
  exact hte r n hn1 K m (by omega)

/-- … in the common case that the basic expression ends with its last token (nothing is probed after it) -/
theorem c7_of_basic_plain (e : Expr) (ts : List Token) (hne : ts ≠ []) (hfirst : (Y.peek ts).type ∈ basicHeads) (B : Nat)
    (hB : B + 2 ≤ D 7 ts)
    (hb : ∀ p1 rest', Y.InOrder (ts ++ rest') → Y.Glued ts →
      Stable v Y .basic (S Y p1 (ts ++ rest') false) (.ok e (Send Y ts rest')) B) :
    C7 v Y e ts := by
  refine c7_of_basic e ts hne hfirst B hB ?_
  intro cm hcm p1 rest ho hg hs
  refine ⟨Send Y ts (cm ++ rest), hb p1 (cm ++ rest) ho (glued_take ts hg), ?_⟩
  intro r n hn K
  exact tail_comma hcm hg (inOrder_drop ts ho) hs.1 hn K

/-- one more step `tstep` (`之 p`, `# i`, `# { e }`) of a member chain -/
theorem c7_step (r e' : Expr) (tr tstep : List Token) (Cr : C7 v Y r tr) (hne : tstep ≠ [])
    (hfirst : (Y.peek tstep).type ∈ [cTypeMapHash, cTypeObjDotW, cTypeObjDotIIW]) (c : Nat) (hc : c + 1 ≤ 16 * tstep.length)
    (hstep : ∀ rest' (R : Res (List Token) Expr) n, 1 ≤ n → Y.InOrder (tstep ++ rest') → Y.Glued (tr ++ tstep) →
      Stable v Y (.memberTail e') (Send Y (tr ++ tstep) rest') R n →
      Stable v Y (.memberTail r) (Send Y tr (tstep ++ rest')) R (n + c)) :
    C7 v Y e' (tr ++ tstep) := by
  intro cm hcm p1 rest R n hn1 ho hg hs K
  rw [List.append_assoc] at ho
  have hg' : Y.Glued (tr ++ tstep) := by
    have : tr ++ tstep ++ cm = (tr ++ tstep) ++ cm := rfl
    exact glued_take (tr ++ tstep) hg
  have K' := tail_comma hcm hg (inOrder_drop tstep (inOrder_drop tr ho)) hs.1 hn1 K
  have K2 := hstep (cm ++ rest) R (n + 1) (by omega) (inOrder_drop tr ho) hg' K'
  have hpk : Y.peek (tstep ++ (cm ++ rest)) = Y.peek tstep := peek_append hne _
  have hty : (Y.peek tstep).type ≠ cTypeCommaSep ∧ (Y.peek tstep).type ≠ cTypeGetResultW ∧
      (Y.peek tstep).type ≠ cTypePauseCommaSep := by
    simp only [List.mem_cons, List.not_mem_nil, or_false] at hfirst
    rcases hfirst with h | h | h <;> rw [h] <;> decide
  have hsr : Stop Y (cTypeGetResultW :: FO r) tr (tstep ++ (cm ++ rest)) := by
    refine ⟨by rw [hpk]; exact hty.1, Or.inr ?_⟩
    rw [hpk]
    intro hm
    rcases List.mem_cons.mp hm with hm | hm
    · exact hty.2.1 hm
    · exact hty.2.2 (FO_sub r _ hm)
  have := Cr.nil p1 (tstep ++ (cm ++ rest)) R (n + 1 + c) (by omega) ho (glued_take tr hg') hsr K2
  rw [List.append_assoc]
  refine Stable.mono this ?_
  unfold D
  simp only [List.length_append]
  omega

-- ---- the other nodes: claims -------------------------------------------------------------------------------------------------

/-- fuel for the list-like nodes -/
def fN (ts : List Token) : Nat := 16 * ts.length + 20

/-- `parsePauseCommaList(ParseExpression)` on `e1、e2、…` -/
def CArgs (v : Variant) (Y : Layout) (es : List Expr) (ts : List Token) : Prop :=
  ∀ p1 rest acc, Y.InOrder (ts ++ rest) → Y.Glued ts → Stop Y (cTypePauseCommaSep :: B1 true) ts rest →
    Stable v Y (.commaExprs acc) (S Y p1 (ts ++ rest) false) (.ok (acc ++ es) (Send Y ts rest)) (fN ts)

/-- `ParseFuncCallExpr` on `f：a、b）` / `f）`: it comes to its optional 得到 after the `）`; and `ParseObjNewExpr` on the same tokens -/
def CFcall (v : Variant) (Y : Layout) (n : Ident) (ps : List Expr) (tc : List Token) : Prop :=
  (∀ (yr : Bool) p1 rest j, fN tc ≤ j + 1 → Y.InOrder (tc ++ rest) → Y.Glued tc →
    parse v (layoutOps Y) (j + 1) (.funcCall yr) (S Y p1 (tc ++ rest) false) =
      ((if yr then optYield v (layoutOps Y) j else pure none) >>= fun y => pure (Expr.call 0 (some n) ps y)) (Send Y tc rest)) ∧
  (∀ p1 rest, Y.InOrder (tc ++ rest) → Y.Glued tc →
    Stable v Y .objNew (S Y p1 (tc ++ rest) false) (.ok (.new 0 (some n) ps) (Send Y tc rest)) (fN tc))

/-- the loop `{ 、（ call }` of a method-call chain after the tokens `tp`; an optional comma after the chain is swallowed -/
def CChain (v : Variant) (Y : Layout) (cs : List Expr) (tcs : List Token) : Prop :=
  ∀ tp cm rest acc, tp ≠ [] → CommaOpt cm → Y.InOrder (tcs ++ (cm ++ rest)) → Y.Glued (tp ++ (tcs ++ cm)) →
    Stop Y [cTypePauseCommaSep] (tp ++ (tcs ++ cm)) rest →
    Stable v Y (.chainLoop acc) (Send Y tp (tcs ++ (cm ++ rest))) (.ok (acc ++ cs) (Send Y (tp ++ (tcs ++ cm)) rest)) (fN tcs)

/-- the loop of a list literal on the items after the first one, up to and including `】` -/
def CItems (v : Variant) (Y : Layout) (es : List Expr) (ts : List Token) : Prop :=
  ts ≠ [] → ∀ p1 (rb : Token) rest acc, rb.type = cTypeArrayQuoteR → Y.InOrder (ts ++ rb :: rest) → Y.Glued (ts ++ [rb]) →
    Stable v Y (.arrayLoop acc) (S Y p1 (ts ++ rb :: rest) false) (.ok (.arr 0 (acc ++ es)) (Send Y [rb] rest)) (fN ts)

/-- the loop of a dictionary literal on the pairs after the first one, up to and including `】` -/
def CKvs (v : Variant) (Y : Layout) (kvs : List (Expr × Expr)) (ts : List Token) : Prop :=
  ∀ p1 (rb : Token) rest acc, rb.type = cTypeArrayQuoteR → Y.InOrder (ts ++ rb :: rest) → Y.Glued (ts ++ [rb]) →
    Stable v Y (.hashLoop acc) (S Y p1 (ts ++ rb :: rest) false) (.ok (.hm 0 (acc ++ kvs)) (Send Y [rb] rest)) (fN ts)

end ZnVerif.Proofs.StmtRT
