/-
`newHashMapCell` (value.NewHashMap: first occurrence fixes the place, last value wins) builds a
well-formed dictionary cell that reads as the spec's `foldl dictSet []` of the read pairs.
-/
import ZnVerif.Proofs.Content
set_option linter.unusedSectionVars false

namespace ZnVerif.Proofs
open ZnVerif.Model ZnVerif.Spec

variable {ν : Type}

theorem Forall2.imp_mem {α β} {R S : α → β → Prop} : ∀ {as bs}, (∀ a b, a ∈ as → R a b → S a b) →
    Forall2 R as bs → Forall2 S as bs
  | _, _, _, .nil => .nil
  | _, _, h, .cons r rest =>
    .cons (h _ _ (List.mem_cons_self) r) (Forall2.imp_mem (fun a b ha => h a b (List.mem_cons_of_mem _ ha)) rest)

theorem Forall2.map_left {α β γ} {S : γ → β → Prop} (f : α → γ) : ∀ {as bs},
    Forall2 (fun a b => S (f a) b) as bs → Forall2 S (as.map f) bs
  | _, _, .nil => .nil
  | _, _, .cons r rest => .cons r (Forall2.map_left f rest)

theorem lookup_of_mem_nodup {β} : ∀ (l : List (String × β)), (l.map Prod.fst).Nodup → ∀ p ∈ l, lookup p.1 l = some p.2
  | [], _, _, hp => by cases hp
  | (k', v') :: rest, hnd, p, hp => by
    simp only [List.map_cons, List.nodup_cons] at hnd
    rcases List.mem_cons.1 hp with rfl | hp
    · simp [lookup]
    · have hne : p.1 ≠ k' := by
        intro h; apply hnd.1; rw [← h]; exact List.mem_map_of_mem hp
      simp [lookup, hne, lookup_of_mem_nodup rest hnd.2 p hp]

/-- the related pairs: same key, the cell's address reads as the value -/
abbrev PairRel (child : Addr → Option (SVal ν)) : String × Addr → String × SVal ν → Prop :=
  fun p p' => p.1 = p'.1 ∧ child p.2 = some p'.2

theorem lookup_none_iff_any {child : Addr → Option (SVal ν)} (key : String) : ∀ {vals acc}, Forall2 (PairRel child) vals acc →
    (lookup key vals = none ↔ acc.any (·.1 == key) = false)
  | _, _, .nil => by simp [lookup]
  | (k, a) :: vals, (k', v) :: acc, .cons ⟨h1, _⟩ rest => by
    simp only at h1; subst h1
    by_cases h : key = k
    · subst h; simp [lookup]
    · have h' : ¬ k = key := fun e => h e.symm
      simp [lookup, h, h', lookup_none_iff_any key rest]

theorem assocSet_keys {β} (key : String) (v : β) : ∀ (l : List (String × β)), lookup key l ≠ none →
    (assocSet key v l).map Prod.fst = l.map Prod.fst
  | [], h => by simp [lookup] at h
  | (k', v') :: rest, h => by
    by_cases e : key = k'
    · simp [assocSet, e]
    · simp only [lookup, e, if_false] at h
      simp [assocSet, e, assocSet_keys key v rest h]

theorem assocSet_rel {child : Addr → Option (SVal ν)} (key : String) (a : Addr) (v : SVal ν) (hav : child a = some v) :
    ∀ {vals acc}, Forall2 (PairRel child) vals acc → (vals.map Prod.fst).Nodup → lookup key vals ≠ none →
      Forall2 (PairRel child) (assocSet key a vals) (acc.map fun kv => if kv.1 == key then (key, v) else kv)
  | _, _, .nil, _, h => by simp [lookup] at h
  | (k, a0) :: vals, (k', v0) :: acc, .cons ⟨h1, h2⟩ rest, hnd, h => by
    simp only at h1; subst h1
    simp only [List.map_cons, List.nodup_cons] at hnd
    by_cases e : key = k
    · subst e
      simp only [assocSet, if_true, List.map_cons, beq_self_eq_true]
      refine .cons ⟨rfl, hav⟩ ?_
      -- no other entry has this key
      have : ∀ kv ∈ acc, (if (kv.1 == key) = true then (key, v) else kv) = kv := by
        intro kv hkv
        have hne : kv.1 ≠ key := by
          intro e; apply hnd.1
          have : ∀ {vals acc}, Forall2 (PairRel child) vals acc → kv ∈ acc → kv.1 ∈ vals.map Prod.fst := by
            intro vals acc hf
            induction hf with
            | nil => intro h; cases h
            | cons hab _ ih =>
              intro hm
              rcases List.mem_cons.1 hm with rfl | hm
              · simp [hab.1]
              · simp [ih hm]
          rw [← e]; exact this rest hkv
        simp [hne]
      rw [List.map_congr_left this, List.map_id']
      exact rest
    · have e' : ¬ k = key := fun x => e x.symm
      simp only [lookup, e, if_false] at h
      have e'' : (k == key) = false := by simp [e']
      simp only [assocSet, e, if_false, List.map_cons, e'', Bool.false_eq_true]
      exact .cons ⟨rfl, h2⟩ (assocSet_rel key a v hav rest hnd.2 h)

/-- the invariant of the two folds -/
structure HmInv (child : Addr → Option (SVal ν)) (st : List (String × Addr) × List String) (acc : List (String × SVal ν)) : Prop where
  order : st.2 = st.1.map Prod.fst
  rel : Forall2 (PairRel child) st.1 acc
  nodup : (st.1.map Prod.fst).Nodup

def hmStep (acc : List (String × Addr) × List String) (kv : String × Addr) : List (String × Addr) × List String :=
  match lookup kv.1 acc.1 with
  | some _ => (assocSet kv.1 kv.2 acc.1, acc.2)
  | none => (acc.1 ++ [kv], acc.2 ++ [kv.1])

theorem newHashMapCell_eq (kvs : List (String × Addr)) :
    newHashMapCell (ν := ν) kvs = .hm (kvs.foldl hmStep ([], [])).1 (kvs.foldl hmStep ([], [])).2 := rfl

theorem HmInv.step {child : Addr → Option (SVal ν)} {st acc} (h : HmInv child st acc) (p : String × Addr) (p' : String × SVal ν)
    (hp : PairRel child p p') : HmInv child (hmStep st p) (dictSet acc p'.1 p'.2) := by
  obtain ⟨vals, order⟩ := st
  obtain ⟨h1, h2, h3⟩ := h
  simp only at h1 h2 h3
  obtain ⟨hk, hv⟩ := hp
  have hiff := lookup_none_iff_any p.1 h2
  unfold hmStep dictSet
  cases hl : lookup p.1 vals with
  | some _ =>
    have hany : acc.any (·.1 == p'.1) = true := by
      rw [← hk]; cases hb : acc.any (·.1 == p.1) with
      | true => rfl
      | false => rw [hiff.2 hb] at hl; cases hl
    simp only [hany, if_true]
    have hne : lookup p.1 vals ≠ none := by rw [hl]; simp
    refine ⟨?_, ?_, ?_⟩
    · simp only; rw [assocSet_keys _ _ _ hne]; exact h1
    · simp only; rw [← hk]; exact assocSet_rel p.1 p.2 p'.2 hv h2 h3 hne
    · simp only; rw [assocSet_keys _ _ _ hne]; exact h3
  | none =>
    have hany : acc.any (·.1 == p'.1) = false := by rw [← hk]; exact hiff.1 hl
    simp only [hany, Bool.false_eq_true, if_false]
    refine ⟨?_, ?_, ?_⟩
    · simp only [h1, List.map_append, List.map_cons, List.map_nil]
    · exact h2.append (.cons ⟨hk, hv⟩ .nil)
    · simp only [List.map_append, List.map_cons, List.map_nil]
      rw [List.nodup_append]
      refine ⟨h3, by simp, ?_⟩
      intro x hx y hy
      simp only [List.mem_singleton] at hy; subst hy
      intro e; subst e
      exact (lookup_eq_none_iff _ vals).1 hl hx

theorem HmInv.fold {child : Addr → Option (SVal ν)} : ∀ {pairs pairs'}, Forall2 (PairRel child) pairs pairs' →
    ∀ {st acc}, HmInv child st acc →
    HmInv child (pairs.foldl hmStep st) (pairs'.foldl (fun acc kv => dictSet acc kv.1 kv.2) acc)
  | _, _, .nil, _, _, h => h
  | _, _, .cons hp rest, _, _, h => HmInv.fold rest (h.step _ _ hp)

theorem newHashMapCell_layer (ω : Addr → Option (SVal ν)) (child : Addr → Option (SVal ν)) (a : Addr)
    (pairs : List (String × Addr)) (pairs' : List (String × SVal ν)) (h : Forall2 (PairRel child) pairs pairs') :
    Layer ω child a (newHashMapCell pairs) (.dict (pairs'.foldl (fun acc kv => dictSet acc kv.1 kv.2) [])) := by
  rw [newHashMapCell_eq]
  have inv : HmInv child (pairs.foldl hmStep ([], [])) _ := HmInv.fold h (acc := []) ⟨rfl, .nil, List.nodup_nil⟩
  obtain ⟨h1, h2, h3⟩ := inv
  refine ⟨h1, _, rfl, ?_⟩
  rw [h1]
  refine Forall2.map_left Prod.fst (h2.imp_mem fun p p' hmem ⟨hk, hv⟩ => ⟨hk.symm, p.2, ?_, hv⟩)
  exact lookup_of_mem_nodup _ h3 p hmem

end ZnVerif.Proofs
