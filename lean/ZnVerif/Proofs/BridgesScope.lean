/-
Bridge (A) ↔ (B), symbol table: the evaluator model's embedded scope (`Model.Scope` of `Model/Interp.lean`: a list of
symbols, newest first, and a depth) against the array/counter model of pkg/runtime/scope.go (`SymTab.Scope` of
`Model/Scope.lean`).  Both are read as the list of live symbols; the lemmas below show that every operation of (A) is
the list reading of the corresponding operation of (B).  Core Lean only.
-/
import ZnVerif.Model.Interp
import ZnVerif.Proofs.Scope

namespace ZnVerif.Proofs.Bridges
open ZnVerif ZnVerif.Model ZnVerif.Proofs.Scope
open ZnVerif.SymTab (GoRes LocalSymbol refLookup)

/-! ## abstractions and the relation -/

/-- a live symbol of (B) — `locals[i]`, `values[i]`, `externalRefs[i]` — written as a symbol of (A) -/
def toSym (e : Entry Addr) : Sym :=
  { name := e.sym.name, depth := e.sym.depth, isConst := e.sym.isConst, ext := e.ext.map Int.ofNat, val := e.value }

/-- what both models are compared on: the live symbols, newest first (name, depth, const, module of origin, value)
and the current depth -/
structure ScopeView where
  syms : List Sym
  depth : Int

/-- (A): the state is its own view -/
def absI (sc : Model.Scope) : ScopeView := ⟨sc.syms, sc.depth⟩

/-- (B): the symbols `localCount-1 … 0` with their values and `externalRefs` entries -/
def absB (σ : SymTab.Scope Addr) : ScopeView := ⟨(live σ).map toSym, σ.currentDepth⟩

/-- same live symbols in the same order with the same name / depth / const / ext / value, same current depth -/
def R (sc : Model.Scope) (σ : SymTab.Scope Addr) : Prop := absI sc = absB σ

theorem R.syms {sc : Model.Scope} {σ : SymTab.Scope Addr} (h : R sc σ) : sc.syms = (live σ).map toSym :=
  congrArg ScopeView.syms h

theorem R.depth {sc : Model.Scope} {σ : SymTab.Scope Addr} (h : R sc σ) : sc.depth = σ.currentDepth :=
  congrArg ScopeView.depth h

theorem R.mk' {sc : Model.Scope} {σ : SymTab.Scope Addr} (h1 : sc.syms = (live σ).map toSym)
    (h2 : sc.depth = σ.currentDepth) : R sc σ := by
  unfold R absI absB; rw [h1, h2]

theorem R_new : R ({} : Model.Scope) (SymTab.Scope.new : SymTab.Scope Addr) := rfl

/-! ## list readings of (A)'s loops -/

theorem find_map (L : List (Entry Addr)) (name : String) :
    (L.map toSym).find? (·.name == name) = (L.find? (nameIs name)).map toSym := by
  induction L with
  | nil => rfl
  | cons e L ih =>
    by_cases hn : e.sym.name = name
    · simp [List.find?, nameIs, toSym, hn]
    · have h1 : ((toSym e).name == name) = false := by simp [toSym, hn]
      have h2 : nameIs name e = false := by simp [nameIs, hn]
      simp only [List.map_cons, List.find?, h1, h2]
      exact ih

theorem dropWhile_map (L : List (Entry Addr)) (d : Int) :
    (L.map toSym).dropWhile (fun sy => decide (sy.depth > d)) =
      (L.dropWhile (fun e => decide (e.sym.depth > d))).map toSym := by
  induction L with
  | nil => rfl
  | cons e L ih =>
    by_cases hd : e.sym.depth > d
    · have h1 : decide ((toSym e).depth > d) = true := by simpa [toSym] using hd
      have h2 : decide (e.sym.depth > d) = true := by simpa using hd
      simp only [List.map_cons, List.dropWhile, h1, h2]
      exact ih
    · have h1 : decide ((toSym e).depth > d) = false := by simpa [toSym] using hd
      have h2 : decide (e.sym.depth > d) = false := by simpa using hd
      simp only [List.map_cons, List.dropWhile, h1, h2]

/-- the redeclaration scan of (A) is the redeclaration loop of (B) on the live list -/
theorem scan_map (sc : Model.Scope) (name : String) (L : List (Entry Addr)) :
    Model.Scope.declare.scan sc name (L.map toSym) = declClash name sc.depth L := by
  induction L with
  | nil => rfl
  | cons e L ih =>
    simp only [List.map_cons, Model.Scope.declare.scan, declClash]
    by_cases hd : e.sym.depth < sc.depth
    · simp [toSym, hd]
    · by_cases hn : e.sym.name = name ∧ e.sym.depth = sc.depth
      · simp [toSym, hn.1, hn.2]
      · have hb : ((toSym e).name == name && (toSym e).depth == sc.depth) = false := by
          simp only [toSym, Bool.and_eq_false_iff, beq_eq_false_iff_ne, ne_eq]
          by_cases h1 : e.sym.name = name
          · exact .inr (fun h2 => hn ⟨h1, h2⟩)
          · exact .inl h1
        have hd' : ¬ (toSym e).depth < sc.depth := hd
        simp only [hd', hd, hn, hb, if_false, Bool.false_eq_true]
        exact ih

/-- `Scope.set`'s recursion, on the live list: not found / constant / overwrite the first symbol of that name -/
theorem setGo_map (name : String) (v : Addr) (L : List (Entry Addr)) :
    Model.Scope.set.go name v (L.map toSym) =
      match L.find? (nameIs name) with
      | none => none
      | some e => if e.sym.isConst then some (.error (.rt 44)) else some (.ok ((setFirst L name v).map toSym)) := by
  induction L with
  | nil => rfl
  | cons e L ih =>
    simp only [List.map_cons, Model.Scope.set.go]
    by_cases hn : e.sym.name = name
    · have h1 : ((toSym e).name == name) = true := by simp [toSym, hn]
      have h2 : nameIs name e = true := by simp [nameIs, hn]
      simp only [h1, if_true, List.find?, h2, setFirst, hn]
      by_cases hc : e.sym.isConst = true
      · simp [toSym, hc]
      · simp [toSym, hc]
    · have h1 : ((toSym e).name == name) = false := by simp [toSym, hn]
      have h2 : nameIs name e = false := by simp [nameIs, hn]
      simp only [h1, Bool.false_eq_true, if_false, List.find?, h2, setFirst, hn, ih]
      cases L.find? (nameIs name) with
      | none => rfl
      | some e' =>
        by_cases hc : e'.sym.isConst = true
        · simp [hc]
        · simp [hc]

/-! ## one operation: same answer, related states

Hypotheses are the parts of (B)'s invariant `Sim` that each lemma really uses: `WF` (the two slices are at least
`localCount` long — without it (B) indexes out of range and panics, (A) has no such state), and for a plain
declaration `RefsOK` (no `externalRefs` entry at or above `localCount`: scope.go never deletes entries, so a popped
import would otherwise lend its module id to the next symbol declared at that index — see
`stale_ref_disagreement` in `Properties/Bridges.lean`). -/

theorem sim_beginScope {sc : Model.Scope} {σ : SymTab.Scope Addr} (h : R sc σ) : R sc.beginScope σ.beginScope := by
  apply R.mk'
  · exact h.syms
  · show sc.depth + 1 = σ.currentDepth + 1
    rw [h.depth]

/-- `EndScope` needs no depth guard to agree: below depth 0 both models go to −1 and drop every symbol -/
theorem sim_endScope {sc : Model.Scope} {σ : SymTab.Scope Addr} (h : R sc σ) (hwf : WF σ) :
    ∃ σ', σ.endScope = .ok σ' ∧ R sc.endScope σ' ∧ WF σ' := by
  obtain ⟨n', hn', hp, hlive⟩ :=
    popLoop_spec σ.locals σ.values σ.externalRefs (σ.currentDepth - 1) σ.localCount hwf.1 hwf.2
  refine ⟨{ σ with currentDepth := σ.currentDepth - 1, localCount := n' }, by simp [SymTab.Scope.endScope, hp], ?_, ?_⟩
  · apply R.mk'
    · show sc.syms.dropWhile (fun sy => decide (sy.depth > sc.depth - 1)) = (liveAux σ.locals σ.values σ.externalRefs n').map toSym
      rw [hlive, h.syms, h.depth, dropWhile_map]; rfl
    · show sc.depth - 1 = σ.currentDepth - 1
      rw [h.depth]
  · exact ⟨by show n' ≤ σ.locals.size; have := hwf.1; omega, by show n' ≤ σ.values.size; have := hwf.2; omega⟩

/-- `GetValue` -/
theorem sim_find {sc : Model.Scope} {σ : SymTab.Scope Addr} (h : R sc σ) (hwf : WF σ) (name : String) :
    σ.getValue name = .ok ((sc.find name).map (·.val)) := by
  unfold Model.Scope.find
  rw [h.syms, find_map]
  unfold live
  rcases findLoop_spec σ.locals σ.values σ.externalRefs name σ.localCount hwf.1 hwf.2 with
    ⟨i, _, hf, _, hv, hfind⟩ | ⟨hf, hfind⟩
  · rw [hfind]
    simp [SymTab.Scope.getValue, SymTab.Scope.getSymbolID, hf, hv, toSym]
  · rw [hfind]
    simp [SymTab.Scope.getValue, SymTab.Scope.getSymbolID, hf]

/-- what `GetValueWithModuleID` answers for a symbol of (A): its value and its module of origin, −1 when it has none -/
def symModule (sy : Sym) : Int := match sy.ext with | some m => m | none => -1

def findM (sc : Model.Scope) (name : String) : Option Addr × Int :=
  match sc.find name with
  | some sy => (some sy.val, symModule sy)
  | none => (none, -1)

/-- `GetValueWithModuleID` -/
theorem sim_findM {sc : Model.Scope} {σ : SymTab.Scope Addr} (h : R sc σ) (hwf : WF σ) (name : String) :
    σ.getValueWithModuleID name = .ok (findM sc name) := by
  unfold findM Model.Scope.find
  rw [h.syms, find_map]
  unfold live
  rcases findLoop_spec σ.locals σ.values σ.externalRefs name σ.localCount hwf.1 hwf.2 with
    ⟨i, _, hf, _, hv, hfind⟩ | ⟨hf, hfind⟩
  · rw [hfind]
    cases hr : refLookup σ.externalRefs i <;>
      simp [SymTab.Scope.getValueWithModuleID, SymTab.Scope.getSymbolID, hf, hv, hr, toSym, symModule]
  · rw [hfind]
    simp [SymTab.Scope.getValueWithModuleID, SymTab.Scope.getSymbolID, hf]

/-- (A)'s `Except Err` answers and (B)'s `GoRes` answers, compared by error code -/
def RelRes (r : Except Err Model.Scope) (g : GoRes (SymTab.Scope Addr)) : Prop :=
  match r, g with
  | .ok sc', .ok σ' => R sc' σ' ∧ WF σ'
  | .error e, .err c => e = .rt c
  | _, _ => False

/-- `DeclareValue` / `DeclareConstValue` -/
theorem sim_declare {sc : Model.Scope} {σ : SymTab.Scope Addr} (h : R sc σ) (hwf : WF σ) (hrefs : RefsOK σ)
    (name : String) (v : Addr) (c : Bool) :
    RelRes (sc.declare name v c none) (σ.declareValueC name v c) := by
  have hspec := declareValueC_spec σ name v c hwf
  unfold Model.Scope.declare
  rw [h.syms, scan_map, h.depth]
  by_cases hcl : declClash name σ.currentDepth (live σ) = true
  · simp only [hcl, if_true] at hspec ⊢
    rw [hspec]; rfl
  · simp only [hcl] at hspec ⊢
    simp only [Bool.false_eq_true, if_false] at hspec ⊢
    obtain ⟨σ', hdecl, hwf', hdep', hrefs', hcnt', hl, hv, hs, hx⟩ := hspec
    rw [hdecl]
    refine ⟨?_, hwf'⟩
    have hlive : live σ' = ⟨⟨name, σ.currentDepth, c⟩, v, none⟩ :: live σ := by
      unfold live
      rw [hcnt', hrefs']
      have := declare_live (σ := σ) (σ' := σ') σ.externalRefs hl hv hs hx
      rw [this, refLookup_fresh hrefs]
    apply R.mk'
    · show _ :: (live σ).map toSym = (live σ').map toSym
      rw [hlive]; rfl
    · exact hdep'.symm

/-- `DeclareExternalValue` -/
theorem sim_declareExt {sc : Model.Scope} {σ : SymTab.Scope Addr} (h : R sc σ) (hwf : WF σ)
    (name : String) (v : Addr) (m : Nat) :
    RelRes (sc.declare name v true (some (m : Int))) (σ.declareExternalValue name v m) := by
  have hspec := declareValueC_spec σ name v true hwf
  unfold Model.Scope.declare SymTab.Scope.declareExternalValue
  rw [h.syms, scan_map, h.depth]
  by_cases hcl : declClash name σ.currentDepth (live σ) = true
  · simp only [hcl, if_true] at hspec ⊢
    rw [hspec]; rfl
  · simp only [hcl] at hspec ⊢
    simp only [Bool.false_eq_true, if_false] at hspec ⊢
    obtain ⟨σ', hdecl, hwf', hdep', hrefs', hcnt', hl, hv, hs, hx⟩ := hspec
    rw [hdecl]
    refine ⟨?_, hwf'⟩
    have hkey : σ'.localCount - 1 = σ.localCount := by omega
    have hlive : live ({ σ' with externalRefs := (σ'.localCount - 1, m) :: σ'.externalRefs } : SymTab.Scope Addr) =
        ⟨⟨name, σ.currentDepth, true⟩, v, some m⟩ :: live σ := by
      show liveAux σ'.locals σ'.values ((σ'.localCount - 1, m) :: σ'.externalRefs) σ'.localCount = _
      rw [hkey, hcnt', hrefs']
      have := declare_live (σ := σ) (σ' := σ') ((σ.localCount, m) :: σ.externalRefs) hl hv hs hx
      rw [this]
      congr 1
      · simp [refLookup]
      · apply liveAux_congr
        · intro _ _; rfl
        · intro _ _; rfl
        · intro k hk
          have : ¬ σ.localCount = k := by omega
          simp [refLookup, this]
    apply R.mk'
    · show _ :: (live σ).map toSym = (live _).map toSym
      rw [hlive]; rfl
    · exact hdep'.symm

/-- `SetValue` -/
theorem sim_set {sc : Model.Scope} {σ : SymTab.Scope Addr} (h : R sc σ) (hwf : WF σ) (name : String) (v : Addr) :
    RelRes (sc.set name v) (σ.setValue name v) := by
  have hspec := setLoop_spec σ name v σ.localCount hwf.1 hwf.2
  unfold Model.Scope.set SymTab.Scope.setValue
  rw [h.syms, setGo_map]
  unfold live
  cases hfind : (liveAux σ.locals σ.values σ.externalRefs σ.localCount).find? (nameIs name) with
  | none =>
    rw [hfind] at hspec
    simp only [hspec]; rfl
  | some e =>
    rw [hfind] at hspec
    by_cases hc : e.sym.isConst = true
    · simp only [hc, if_true] at hspec ⊢
      rw [hspec]; rfl
    · simp only [hc] at hspec ⊢
      simp only [Bool.false_eq_true, if_false] at hspec ⊢
      obtain ⟨σ', hs, hloc, hcnt, hdep, hrefs, hsize, _, hlive⟩ := hspec
      rw [hs]
      refine ⟨?_, ?_⟩
      · apply R.mk'
        · show (setFirst _ name v).map toSym = (live σ').map toSym
          unfold live; rw [hloc, hcnt, hrefs, hlive]
        · show sc.depth = σ'.currentDepth
          rw [hdep, h.depth]
      · unfold WF at hwf ⊢; rw [hloc, hcnt, hsize]; exact hwf

end ZnVerif.Proofs.Bridges
