/-
Token-level round trip with layout, part 4: blocks and the statements that carry one (每当, 遍历, 以 … 遍历, 如果 / 再如 / 否则).

Every lemma here is one production: "if the claims hold for the parts, the claim holds for the whole".  The induction over the
rendering relation is in Proofs/StmtMain.lean.
-/
import ZnVerif.Proofs.StmtSimple

namespace ZnVerif.Proofs.StmtRT
open ZnVerif.Model ZnVerif.Model.Parser ZnVerif.Generated.Tokens ZnVerif.Generated.ParserTables
open ZnVerif.Spec.StmtSyntax

variable {Y : Layout} {v : Variant}

-- ---- what may follow a run of items ---------------------------------------------------------------------------------------

/-- a statement line break after the last token of `ts` (if there is one) -/
def Brk (Y : Layout) (ts rest : List Token) : Prop := ts ≠ [] → Y.jf ts.getLast? (Y.peek rest) = true

/-- `After` without the line break -/
structure Foll (Y : Layout) (d : Nat) (rest : List Token) : Prop where
  nc : (Y.peek rest).type ≠ cTypeCommaSep
  dedent : (Y.peek rest).type = cTypeEOF ∨ Y.ind (Y.peek rest) < d ∨
    (Y.ind (Y.peek rest) = d ∧ (Y.peek rest).type ∉ condKeywords)

/-- `AfterB` without the line break -/
structure FollB (Y : Layout) (d : Nat) (rest : List Token) : Prop where
  nc : (Y.peek rest).type ≠ cTypeCommaSep
  dedent : (Y.peek rest).type = cTypeEOF ∨ Y.ind (Y.peek rest) < d

theorem FollB.toFoll {d : Nat} {rest : List Token} (h : FollB Y d rest) : Foll Y d rest :=
  ⟨h.nc, h.dedent.elim Or.inl (fun h => Or.inr (Or.inl h))⟩

theorem Foll.inner {d : Nat} {rest : List Token} (h : Foll Y d rest) : FollB Y (d + 1) rest :=
  ⟨h.nc, h.dedent.elim Or.inl (fun h => Or.inr (h.elim (fun h => by omega) (fun h => by omega)))⟩

theorem FollB.ends {d : Nat} {rest : List Token} (h : FollB Y d rest) :
    (Y.peek rest).type = cTypeEOF ∨ Y.ind (Y.peek rest) ≠ d :=
  h.dedent.elim Or.inl (fun h => Or.inr (by omega))

theorem After.foll {d : Nat} {a : Option Token} {rest : List Token} (h : After Y d a rest) : Foll Y d rest := ⟨h.nc, h.dedent⟩

theorem Foll.after {d : Nat} {a : Option Token} {rest : List Token} (h : Foll Y d rest) (hb : Y.jf a (Y.peek rest) = true) :
    After Y d a rest := ⟨hb, h.nc, h.dedent⟩

/-- the first token of a non-empty run has one of the types `H` and starts a line indented by `d` -/
def Heads (Y : Layout) (d : Nat) (H : List Nat) (ts : List Token) : Prop :=
  ts ≠ [] → (Y.peek ts).type ∈ H ∧ Y.ind (Y.peek ts) = d

theorem heads_nil (d : Nat) (H : List Nat) : Heads Y d H [] := fun h => absurd rfl h

theorem Brk.right {t1 t2 rest : List Token} (h : Brk Y (t1 ++ t2) rest) : Brk Y t2 rest := by
  intro hne
  have := h (by simp [hne])
  rwa [getLast?_append_ne t1 hne] at this

theorem brk_of_last {ts rest : List Token} (h : Y.jf ts.getLast? (Y.peek rest) = true) : Brk Y ts rest := fun _ => h

/-- flag after a run of items: untouched if the run is empty, set otherwise -/
def exitFl (fl : Bool) (ts : List Token) : Bool := if ts = [] then fl else true

theorem exitFl_nil (fl : Bool) : exitFl fl [] = fl := rfl
theorem exitFl_ne (fl : Bool) {ts : List Token} (h : ts ≠ []) : exitFl fl ts = true := by simp [exitFl, h]
theorem exitFl_append (fl : Bool) {t1 : List Token} (t2 : List Token) (h : t1 ≠ []) :
    exitFl fl (t1 ++ t2) = exitFl true t2 := by
  by_cases h2 : t2 = []
  · subst h2; simp [exitFl, h]
  · simp [exitFl, h, h2]

/-- what follows the item `t1` when the items `t2` and then `rest` come next -/
theorem after_mid {d : Nat} {H : List Nat} {t1 t2 rest : List Token} (h1 : t1 ≠ []) (hsep : Y.Sep t1 t2)
    (hb : Brk Y (t1 ++ t2) rest) (hf : Foll Y d rest) (hH : Heads Y d H t2)
    (hHs : ∀ ty ∈ H, ty ≠ cTypeCommaSep ∧ ty ∉ condKeywords) : After Y d t1.getLast? (t2 ++ rest) := by
  by_cases h2 : t2 = []
  · subst h2
    have := hb (by simpa using h1)
    simp only [List.append_nil, List.nil_append] at this ⊢
    exact hf.after this
  · have hp := hH h2
    rw [← peek_append h2 rest] at hp
    rcases hsep with hsep | hsep
    · exact absurd hsep h2
    · rw [← peek_append h2 rest] at hsep
      exact ⟨hsep, (hHs _ hp.1).1, Or.inr (Or.inr ⟨hp.2, (hHs _ hp.1).2⟩)⟩

/-- the same for blocks (the next item is indented like this one, so it ends a block one step deeper) -/
theorem afterB_mid {d : Nat} {H : List Nat} {t1 t2 rest : List Token} (h1 : t1 ≠ []) (hsep : Y.Sep t1 t2)
    (hb : Brk Y (t1 ++ t2) rest) (hf : FollB Y (d + 1) rest) (hH : Heads Y d H t2)
    (hHs : ∀ ty ∈ H, ty ≠ cTypeCommaSep) : AfterB Y (d + 1) t1.getLast? (t2 ++ rest) := by
  by_cases h2 : t2 = []
  · subst h2
    have := hb (by simpa using h1)
    simp only [List.append_nil, List.nil_append] at this ⊢
    exact ⟨this, hf.nc, hf.dedent⟩
  · have hp := hH h2
    rw [← peek_append h2 rest] at hp
    rcases hsep with hsep | hsep
    · exact absurd hsep h2
    · rw [← peek_append h2 rest] at hsep
      exact ⟨hsep, hHs _ hp.1, Or.inr (by omega)⟩

-- ---- claims --------------------------------------------------------------------------------------------------------------

/-- `ParseBlockStmt`'s loop on a rendering of the statements `ss` -/
def CBlockA (v : Variant) (Y : Layout) (d : Nat) (ss : List Stmt) (ts : List Token) : Prop :=
  ∀ p1 rest fl acc, Y.InOrder (ts ++ rest) → Brk Y ts rest → FollB Y d rest →
    Stable v Y (.blockLoop d acc) (S Y p1 (ts ++ rest) fl) (.ok (acc ++ ss) (S Y (lastTok p1 ts) rest (exitFl fl ts))) (fB ts)

/-- `ParseExecBlock`'s loop in its statement state on a rendering of the statements `ss`: it comes to the same loop after them -/
def CBlockB (v : Variant) (Y : Layout) (d : Nat) (ss : List Stmt) (ts : List Token) : Prop :=
  ∀ p1 rest fl inputs stmts (r : Res (List Token) ExecBlock) n, Y.InOrder (ts ++ rest) → Brk Y ts rest → Foll Y d rest →
    Stable v Y (.execLoop d .stmt inputs (stmts ++ ss) []) (S Y (lastTok p1 ts) rest (exitFl fl ts)) r n →
    Stable v Y (.execLoop d .stmt inputs stmts []) (S Y p1 (ts ++ rest) fl) r (n + fB ts)

/-- `ParseBranchStmt`'s loop after a block, on a rendering of the 再如 / 否则 tail -/
def CTail (v : Variant) (Y : Layout) (d : Nat) (os : List (Expr × Option (List Stmt))) (he : Bool) (eb : Option (List Stmt))
    (ts : List Token) : Prop :=
  ∀ p1 rest st (acc : BranchAcc), (st = .ifB ∨ st = .other) → acc.hasElse = false → acc.elseB = none →
    Y.InOrder (ts ++ rest) → Brk Y ts rest → Foll Y d rest →
    Stable v Y (.branchLoop d st acc) (S Y p1 (ts ++ rest) true)
      (.ok (BranchAcc.toStmt { acc with others := acc.others ++ os, hasElse := he, elseB := eb })
        (S Y (lastTok p1 ts) rest true)) (fB ts)

-- ---- blocks ----------------------------------------------------------------------------------------------------------------

theorem blockA_nil (d : Nat) : CBlockA v Y d [] [] := by
  intro p1 rest fl acc ho hb hf n' hn
  obtain ⟨m, rfl⟩ : ∃ m, n' = m + 1 := ⟨n' - 1, by unfold fB at hn; omega⟩
  show pBlockLoop (layoutOps Y) _ d acc _ = _
  unfold pBlockLoop
  rw [bind_ok (getS_S _)]
  simp only [List.nil_append, blockCond_false d p1 rest fl hf.ends, Bool.false_eq_true, if_false, List.append_nil,
    lastTok_nil, exitFl_nil]
  rfl

theorem blockA_cons {d : Nat} {s : Stmt} {ss : List Stmt} {t1 t2 : List Token} (hs : CStmt v Y d s t1) (F1 : StmtFacts Y t1)
    (hind : Y.ind (Y.peek t1) = d) (hB : CBlockA v Y d ss t2) (F2 : Heads Y d stmtHeads t2) (hsep : Y.Sep t1 t2) :
    CBlockA v Y d (s :: ss) (t1 ++ t2) := by
  intro p1 rest fl acc ho hb hf n' hn
  obtain ⟨m, rfl⟩ : ∃ m, n' = m + 1 := ⟨n' - 1, by unfold fB at hn; omega⟩
  have e0 : (t1 ++ t2) ++ rest = t1 ++ (t2 ++ rest) := List.append_assoc ..
  rw [e0] at ho ⊢
  show pBlockLoop (layoutOps Y) _ d acc _ = _
  unfold pBlockLoop
  rw [bind_ok (getS_S _)]
  have hh := stmtHeads_spec _ F1.head
  have hbc : blockCond (layoutOps Y) d (S Y p1 (t1 ++ (t2 ++ rest)) fl) = true :=
    blockCond_true d p1 _ fl (by rw [peek_append F1.ne]; exact hh.1) (by rw [peek_append F1.ne]; exact hind)
  simp only [hbc, if_true]
  have ha : After Y d t1.getLast? (t2 ++ rest) :=
    after_mid F1.ne hsep hb hf.toFoll F2 (fun ty h => ⟨(stmtHeads_spec ty h).2.1, (stmtHeads_spec ty h).2.2.2.1⟩)
  have hlen : fS t1 ≤ m ∧ fB t2 ≤ m := by
    have := List.length_pos_iff.mpr F1.ne
    unfold fB at hn; unfold fS fB; simp only [List.length_append] at hn; omega
  show (parse v (layoutOps Y) m .statement >>= _) _ = _
  rw [bind_ok (hs p1 (t2 ++ rest) fl ho ha m hlen.1)]
  have := hB t1.getLast? rest true (acc ++ [s]) (inOrder_drop t1 ho) hb.right hf m hlen.2
  show parse v (layoutOps Y) m (.blockLoop d (acc ++ [s])) _ = _
  rw [this, lastTok_append, lastTok_ne p1 F1.ne, exitFl_append fl t2 F1.ne]
  simp

theorem blockB_nil (d : Nat) : CBlockB v Y d [] [] := by
  intro p1 rest fl inputs stmts r n ho hb hf h
  simp only [List.nil_append, lastTok_nil, exitFl_nil] at h ⊢
  rw [List.append_nil] at h
  exact Stable.mono h (Nat.le_add_right _ _)

theorem blockB_cons {d : Nat} {s : Stmt} {ss : List Stmt} {t1 t2 : List Token} (hs : CStmt v Y d s t1) (F1 : StmtFacts Y t1)
    (hind : Y.ind (Y.peek t1) = d) (hB : CBlockB v Y d ss t2) (F2 : Heads Y d stmtHeads t2) (hsep : Y.Sep t1 t2) :
    CBlockB v Y d (s :: ss) (t1 ++ t2) := by
  intro p1 rest fl inputs stmts r n ho hb hf h n' hn
  obtain ⟨m, rfl⟩ : ∃ m, n' = m + 1 := ⟨n' - 1, by unfold fB at hn; omega⟩
  have e0 : (t1 ++ t2) ++ rest = t1 ++ (t2 ++ rest) := List.append_assoc ..
  rw [e0] at ho ⊢
  show pExecLoop v (layoutOps Y) m _ d .stmt inputs stmts [] _ = _
  unfold pExecLoop
  rw [bind_ok (getS_S _)]
  have hh := stmtHeads_spec _ F1.head
  have hpk : Y.peek (t1 ++ (t2 ++ rest)) = Y.peek t1 := peek_append F1.ne _
  have hbc : blockCond (layoutOps Y) d (S Y p1 (t1 ++ (t2 ++ rest)) fl) = true :=
    blockCond_true d p1 _ fl (by rw [hpk]; exact hh.1) (by rw [hpk]; exact hind)
  simp only [hbc, if_true]
  rw [bind_ok (unsetFlag_S p1 _ fl),
    bind_ok (tryConsume_miss m _ p1 _ false (Or.inr (by rw [hpk]; simpa using hh.2.2.2.2.1)) (by rw [hpk]; exact hh.2.1))]
  have ha : After Y d t1.getLast? (t2 ++ rest) :=
    after_mid F1.ne hsep hb hf F2 (fun ty h => ⟨(stmtHeads_spec ty h).2.1, (stmtHeads_spec ty h).2.2.2.1⟩)
  have hlen : fS t1 ≤ m ∧ n + fB t2 ≤ m := by
    have := List.length_pos_iff.mpr F1.ne
    unfold fB at hn; unfold fS fB; simp only [List.length_append] at hn; omega
  show (parse v (layoutOps Y) m .statement >>= _) _ = _
  rw [bind_ok (hs p1 (t2 ++ rest) false ho ha m hlen.1)]
  rw [lastTok_append, lastTok_ne p1 F1.ne, exitFl_append fl t2 F1.ne] at h
  have h' : Stable v Y (.execLoop d .stmt inputs ((stmts ++ [s]) ++ ss) []) (S Y (lastTok t1.getLast? t2) rest (exitFl true t2)) r n := by
    rw [List.append_assoc]; exact h
  exact hB t1.getLast? rest true inputs (stmts ++ [s]) r n (inOrder_drop t1 ho) hb.right hf h' m hlen.2

-- ---- `；` ------------------------------------------------------------------------------------------------------------------

theorem lastTok_cons (p1 : Option Token) (t : Token) (ts : List Token) : lastTok p1 (t :: ts) = lastTok (some t) ts := by
  have : t :: ts = [t] ++ ts := rfl
  rw [this, lastTok_append]; rfl

/-- `ParseStatement` on a `；` -/
theorem statement_semi (p1 : Option Token) (fl : Bool) (semi : Token) (r : List Token)
    (hs : semi.type = cTypeStmtSep) (ho : Y.InOrder (semi :: r)) :
    Stable v Y .statement (S Y p1 (semi :: r) fl) (.ok (.empty 0) (S Y (some semi) r (Y.brk semi (Y.peek r)))) 2 := by
  intro n' hn
  obtain ⟨m, rfl⟩ : ∃ m, n' = m + 2 := ⟨n' - 2, by omega⟩
  show pStatement v (layoutOps Y) (m + 1) _ _ = _
  rw [pStatement_eq]
  rw [bind_ok (unsetFlag_S p1 (semi :: r) fl),
    bind_ok (tryConsume_hit m _ p1 semi r (by rw [hs]; decide) (by rw [hs]; decide) ho)]
  simp only [hs, if_true]
  rfl

/-- flag after a `；` and the statements `t2`, when a statement line break follows the last token -/
theorem exitFl_semi (semi : Token) (t2 rest : List Token) (hb : Brk Y (semi :: t2) rest) (fl : Bool) :
    exitFl (Y.brk semi (Y.peek (t2 ++ rest))) t2 = exitFl fl (semi :: t2) := by
  rw [exitFl_ne fl (by simp : semi :: t2 ≠ [])]
  by_cases h : t2 = []
  · subst h
    have := hb (by simp)
    rw [exitFl_nil]
    exact this
  · rw [exitFl_ne _ h]

theorem blockA_empty {d : Nat} {semi : Token} {ss : List Stmt} {t2 : List Token} (hs : semi.type = cTypeStmtSep)
    (hind : Y.ind semi = d) (hB : CBlockA v Y d ss t2) : CBlockA v Y d (.empty 0 :: ss) (semi :: t2) := by
  intro p1 rest fl acc ho hb hf n' hn
  obtain ⟨m, rfl⟩ : ∃ m, n' = m + 1 := ⟨n' - 1, by unfold fB at hn; omega⟩
  have e0 : (semi :: t2) ++ rest = semi :: (t2 ++ rest) := rfl
  rw [e0] at ho ⊢
  have hbc : blockCond (layoutOps Y) d (S Y p1 (semi :: (t2 ++ rest)) fl) = true :=
    blockCond_true d p1 _ fl (by show semi.type ≠ _; rw [hs]; decide) hind
  have hb2 : Brk Y t2 rest := Brk.right (t1 := [semi]) hb
  have hst := statement_semi (v := v) p1 fl semi _ hs ho m (by unfold fB at hn; simp only [List.length_cons] at hn; omega)
  have hrest := hB (some semi) rest (Y.brk semi (Y.peek (t2 ++ rest))) (acc ++ [.empty 0]) (inOrder_tail ho) hb2 hf m
    (by unfold fB at hn ⊢; simp only [List.length_cons] at hn; omega)
  show pBlockLoop (layoutOps Y) _ d acc _ = _
  unfold pBlockLoop
  rw [bind_ok (getS_S _)]
  simp only [hbc, if_true]
  show (parse v (layoutOps Y) m .statement >>= _) _ = _
  rw [bind_ok hst]
  show parse v (layoutOps Y) m (.blockLoop d (acc ++ [.empty 0])) _ = _
  rw [hrest, lastTok_cons, exitFl_semi semi t2 rest hb fl, List.append_assoc]
  rfl

theorem blockB_empty {d : Nat} {semi : Token} {ss : List Stmt} {t2 : List Token} (hs : semi.type = cTypeStmtSep)
    (hind : Y.ind semi = d) (hB : CBlockB v Y d ss t2) : CBlockB v Y d (.empty 0 :: ss) (semi :: t2) := by
  intro p1 rest fl inputs stmts r n ho hb hf h n' hn
  obtain ⟨m, rfl⟩ : ∃ m, n' = m + 1 := ⟨n' - 1, by unfold fB at hn; omega⟩
  have e0 : (semi :: t2) ++ rest = semi :: (t2 ++ rest) := rfl
  rw [e0] at ho ⊢
  have hst := statement_semi (v := v) p1 false semi _ hs ho m (by unfold fB at hn; simp only [List.length_cons] at hn; omega)
  show pExecLoop v (layoutOps Y) m _ d .stmt inputs stmts [] _ = _
  unfold pExecLoop
  rw [bind_ok (getS_S _)]
  have hbc : blockCond (layoutOps Y) d (S Y p1 (semi :: (t2 ++ rest)) fl) = true :=
    blockCond_true d p1 _ fl (by show semi.type ≠ _; rw [hs]; decide) hind
  simp only [hbc, if_true]
  rw [bind_ok (unsetFlag_S p1 _ fl),
    bind_ok (tryConsume_miss m _ p1 _ false (Or.inr (by show semi.type ∉ _; rw [hs]; decide))
      (by show semi.type ≠ _; rw [hs]; decide))]
  show (parse v (layoutOps Y) m .statement >>= _) _ = _
  rw [bind_ok hst]
  have hb2 : Brk Y t2 rest := Brk.right (t1 := [semi]) hb
  rw [lastTok_cons, ← exitFl_semi semi t2 rest hb fl] at h
  have h' : Stable v Y (.execLoop d .stmt inputs ((stmts ++ [.empty 0]) ++ ss) [])
      (S Y (lastTok (some semi) t2) rest (exitFl (Y.brk semi (Y.peek (t2 ++ rest))) t2)) r n := by
    rw [List.append_assoc]; exact h
  exact hB (some semi) rest _ inputs (stmts ++ [.empty 0]) r n (inOrder_tail ho) hb2 hf h' m
    (by unfold fB at hn ⊢; simp only [List.length_cons] at hn; omega)

/-- what follows a simple statement when the next statement starts with `；` -/
theorem afterS_semi {t1 t2 rest : List Token} (h2 : t2 ≠ []) (hsemi : (Y.peek t2).type = cTypeStmtSep) :
    AfterS Y t1.getLast? (t2 ++ rest) := by
  rw [← peek_append h2 rest] at hsemi
  exact ⟨by rw [hsemi]; decide, Or.inr hsemi⟩

theorem blockA_consSemi {d : Nat} {s : Stmt} {ss : List Stmt} {t1 t2 : List Token} (hs : CSimple v Y s t1) (F1 : StmtFacts Y t1)
    (hind : Y.ind (Y.peek t1) = d) (hB : CBlockA v Y d ss t2) (h2 : t2 ≠ []) (hsemi : (Y.peek t2).type = cTypeStmtSep) :
    CBlockA v Y d (s :: ss) (t1 ++ t2) := by
  intro p1 rest fl acc ho hb hf n' hn
  obtain ⟨m, rfl⟩ : ∃ m, n' = m + 1 := ⟨n' - 1, by unfold fB at hn; omega⟩
  have e0 : (t1 ++ t2) ++ rest = t1 ++ (t2 ++ rest) := List.append_assoc ..
  rw [e0] at ho ⊢
  show pBlockLoop (layoutOps Y) _ d acc _ = _
  unfold pBlockLoop
  rw [bind_ok (getS_S _)]
  have hh := stmtHeads_spec _ F1.head
  have hbc : blockCond (layoutOps Y) d (S Y p1 (t1 ++ (t2 ++ rest)) fl) = true :=
    blockCond_true d p1 _ fl (by rw [peek_append F1.ne]; exact hh.1) (by rw [peek_append F1.ne]; exact hind)
  simp only [hbc, if_true]
  have hlen : fS t1 ≤ m ∧ fB t2 ≤ m := by
    have := List.length_pos_iff.mpr F1.ne
    unfold fB at hn; unfold fS fB; simp only [List.length_append] at hn; omega
  show (parse v (layoutOps Y) m .statement >>= _) _ = _
  rw [bind_ok (hs p1 (t2 ++ rest) fl ho (afterS_semi h2 hsemi) m hlen.1)]
  have := hB t1.getLast? rest (Y.jf t1.getLast? (Y.peek (t2 ++ rest))) (acc ++ [s]) (inOrder_drop t1 ho) hb.right hf m hlen.2
  show parse v (layoutOps Y) m (.blockLoop d (acc ++ [s])) _ = _
  rw [this, lastTok_append, lastTok_ne p1 F1.ne, exitFl_ne _ h2, exitFl_ne fl (by simp [h2] : t1 ++ t2 ≠ [])]
  simp

theorem blockB_consSemi {d : Nat} {s : Stmt} {ss : List Stmt} {t1 t2 : List Token} (hs : CSimple v Y s t1) (F1 : StmtFacts Y t1)
    (hind : Y.ind (Y.peek t1) = d) (hB : CBlockB v Y d ss t2) (h2 : t2 ≠ []) (hsemi : (Y.peek t2).type = cTypeStmtSep) :
    CBlockB v Y d (s :: ss) (t1 ++ t2) := by
  intro p1 rest fl inputs stmts r n ho hb hf h n' hn
  obtain ⟨m, rfl⟩ : ∃ m, n' = m + 1 := ⟨n' - 1, by unfold fB at hn; omega⟩
  have e0 : (t1 ++ t2) ++ rest = t1 ++ (t2 ++ rest) := List.append_assoc ..
  rw [e0] at ho ⊢
  show pExecLoop v (layoutOps Y) m _ d .stmt inputs stmts [] _ = _
  unfold pExecLoop
  rw [bind_ok (getS_S _)]
  have hh := stmtHeads_spec _ F1.head
  have hpk : Y.peek (t1 ++ (t2 ++ rest)) = Y.peek t1 := peek_append F1.ne _
  have hbc : blockCond (layoutOps Y) d (S Y p1 (t1 ++ (t2 ++ rest)) fl) = true :=
    blockCond_true d p1 _ fl (by rw [hpk]; exact hh.1) (by rw [hpk]; exact hind)
  simp only [hbc, if_true]
  rw [bind_ok (unsetFlag_S p1 _ fl),
    bind_ok (tryConsume_miss m _ p1 _ false (Or.inr (by rw [hpk]; simpa using hh.2.2.2.2.1)) (by rw [hpk]; exact hh.2.1))]
  have hlen : fS t1 ≤ m ∧ n + fB t2 ≤ m := by
    have := List.length_pos_iff.mpr F1.ne
    unfold fB at hn; unfold fS fB; simp only [List.length_append] at hn; omega
  show (parse v (layoutOps Y) m .statement >>= _) _ = _
  rw [bind_ok (hs p1 (t2 ++ rest) false ho (afterS_semi h2 hsemi) m hlen.1)]
  rw [lastTok_append, lastTok_ne p1 F1.ne, exitFl_ne fl (by simp [h2] : t1 ++ t2 ≠ [])] at h
  have h' : Stable v Y (.execLoop d .stmt inputs ((stmts ++ [s]) ++ ss) [])
      (S Y (lastTok t1.getLast? t2) rest (exitFl (Y.jf t1.getLast? (Y.peek (t2 ++ rest))) t2)) r n := by
    rw [List.append_assoc, exitFl_ne _ h2]; exact h
  exact hB t1.getLast? rest _ inputs (stmts ++ [s]) r n (inOrder_drop t1 ho) hb.right hf h' m hlen.2

-- ---- `：` and the block after it -----------------------------------------------------------------------------------------

/-- the header expression of a compound statement, up to its `：` -/
theorem header_expr {c : Expr} {tc : List Token} {colon : Token} (hc : LinE Y 1 c tc) (hcol : colon.type = cTypeFuncCall)
    (hg : Y.Glued (tc ++ [colon])) (p1 : Option Token) (r : List Token) (ho : Y.InOrder (tc ++ colon :: r)) (m : Nat)
    (hm : 16 * tc.length + 16 ≤ m) :
    parse v (layoutOps Y) m (.expr true) (S Y p1 (tc ++ colon :: r) false) =
      .ok c (S Y tc.getLast? (colon :: r) false) := by
  have hs : Stop Y F1 tc (colon :: r) :=
    ⟨by show colon.type ≠ _; rw [hcol]; decide, Or.inr (by show colon.type ∉ F1; rw [hcol]; decide)⟩
  have := expr_roundtrip (v := v) hc (glued_take tc hg) p1 (colon :: r) ho hs m hm
  rw [this]
  unfold Send
  have hj : Y.jf tc.getLast? (Y.peek (colon :: r)) = false := glued_joint tc hg
  rw [hj]

/-- `：`, the indentation check, and the block -/
theorem colon_block {d : Nat} {colon : Token} {b : List Stmt} {tb : List Token} (hcol : colon.type = cTypeFuncCall)
    (hind : Y.ind colon = d) (hne : tb ≠ []) (hH : Heads Y (d + 1) stmtHeads tb) (hB : CBlockA v Y (d + 1) b tb)
    (a : Option Token) (rest : List Token) (ho : Y.InOrder (colon :: (tb ++ rest)))
    (hb : Y.jf tb.getLast? (Y.peek rest) = true) (hf : FollB Y (d + 1) rest) (m : Nat) (hm : fB tb + 1 ≤ m) :
    consume v (layoutOps Y) m [cTypeFuncCall] (S Y a (colon :: (tb ++ rest)) false) =
        .ok () (S Y (some colon) (tb ++ rest) false) ∧
    expectBlockIndent (layoutOps Y) (S Y (some colon) (tb ++ rest) false) =
        .ok (some (d + 1)) (S Y (some colon) (tb ++ rest) false) ∧
    parse v (layoutOps Y) m (.block (d + 1)) (S Y (some colon) (tb ++ rest) false) =
        .ok b (S Y tb.getLast? rest true) := by
  obtain ⟨m, rfl⟩ : ∃ k, m = k + 1 := ⟨m - 1, by unfold fB at hm; omega⟩
  have hp := hH hne
  have hh := stmtHeads_spec _ hp.1
  have hpk : Y.peek (tb ++ rest) = Y.peek tb := peek_append hne rest
  refine ⟨?_, ?_, ?_⟩
  · rw [consume_hit m _ a colon _ (by simp [hcol]) (by rw [hcol]; decide) ho]
    have : Y.brk colon (Y.peek (tb ++ rest)) = false :=
      brk_after_open (by rw [hcol]; decide) (by rw [hpk]; exact hh.1)
    rw [this]
  · exact expectBlockIndent_S colon _ false d hind (by rw [hpk]; exact hp.2)
  · show pBlock _ (d + 1) _ = _
    unfold pBlock
    have := hB (some colon) rest false [] (inOrder_tail ho) (brk_of_last hb) hf m (by omega)
    rw [this, lastTok_ne _ hne, exitFl_ne _ hne]
    rfl

-- ---- 每当 ------------------------------------------------------------------------------------------------------------------

theorem getLast?_hdr (pre : List Token) (colon : Token) {tb : List Token} (hne : tb ≠ []) :
    (pre ++ colon :: tb).getLast? = tb.getLast? := by
  have : pre ++ colon :: tb = (pre ++ [colon]) ++ tb := by simp
  rw [this]; exact getLast?_append_ne _ hne

theorem stmt_while {d : Nat} {kw colon : Token} {c : Expr} {tc : List Token} {b : List Stmt} {tb : List Token}
    (hk : kw.type = cTypeWhileLoopW) (hc : LinE Y 1 c tc) (hcol : colon.type = cTypeFuncCall)
    (hg : Y.Glued (kw :: tc ++ [colon])) (hind : Y.ind colon = d) (hne : tb ≠ []) (hH : Heads Y (d + 1) stmtHeads tb)
    (hB : CBlockA v Y (d + 1) b tb) :
    CStmt v Y d (.while (Y.sl kw) c (some b)) (kw :: tc ++ colon :: tb) := by
  intro p1 rest fl ho ha n' hn
  obtain ⟨m, rfl⟩ : ∃ m, n' = m + 3 := ⟨n' - 3, by unfold fS at hn; omega⟩
  have hf := linE_facts hc
  have el : (kw :: tc ++ colon :: tb).getLast? = tb.getLast? := getLast?_hdr (kw :: tc) colon hne
  rw [el] at ha ⊢
  have e0 : (kw :: tc ++ colon :: tb) ++ rest = kw :: (tc ++ colon :: (tb ++ rest)) := by simp
  rw [e0] at ho ⊢
  refine statement_kw (Y := Y) (v := v) (m + 1) p1 fl kw _ (.while 0 c (some b)) _ rest (by rw [hk]; decide) (by rw [hk]; decide) ho ?_
  rw [stmtBody_while _ _ _ _ _ hk]
  have hb : Y.brk kw (Y.peek (tc ++ colon :: (tb ++ rest))) = false := by
    have hg' : Y.Glued (kw :: (tc ++ [colon])) := hg
    rw [peek_append hf.1]
    cases tc with
    | nil => exact absurd rfl hf.1
    | cons u r => exact glued_head hg'
  rw [hb]
  show pWhileLoop v (layoutOps Y) (m + 1) _ _ = _
  unfold pWhileLoop
  have hlen : 16 * tc.length + 16 ≤ m + 1 ∧ fB tb + 1 ≤ m + 1 := by
    unfold fS at hn; unfold fB; simp only [List.length_cons, List.length_append] at hn; omega
  have ho1 := inOrder_tail ho
  have h1 := header_expr (v := v) hc hcol (glued_tail (t := kw) hg) (some kw) (tb ++ rest) ho1 (m + 1) hlen.1
  obtain ⟨h2, h3, h4⟩ := colon_block (v := v) hcol hind hne hH hB tc.getLast? rest (inOrder_drop tc ho1) ha.brk ha.foll.inner (m + 1) hlen.2
  show (parse v (layoutOps Y) (m + 1) (.expr true) >>= _) _ = _
  rw [bind_ok h1, bind_ok h2, bind_ok h3]
  dsimp only
  show (parse v (layoutOps Y) (m + 1) (.block (d + 1)) >>= _) _ = _
  rw [bind_ok h4]
  rfl

-- ---- 遍历 ------------------------------------------------------------------------------------------------------------------

/-- `parseIteratorStmtRest` -/
theorem iterRest {d : Nat} {colon : Token} {e : Expr} {te : List Token} {b : List Stmt} {tb : List Token}
    (he : LinE Y 1 e te) (hcol : colon.type = cTypeFuncCall) (hg : Y.Glued (te ++ [colon])) (hind : Y.ind colon = d)
    (hne : tb ≠ []) (hH : Heads Y (d + 1) stmtHeads tb) (hB : CBlockA v Y (d + 1) b tb)
    (ids : List Ident) (p1 : Option Token) (rest : List Token) (ho : Y.InOrder (te ++ colon :: (tb ++ rest)))
    (hb : Y.jf tb.getLast? (Y.peek rest) = true) (hf : FollB Y (d + 1) rest) (m : Nat)
    (hm : 16 * te.length + 16 ≤ m) (hm2 : fB tb + 1 ≤ m) :
    parse v (layoutOps Y) (m + 1) (.iteratorRest ids) (S Y p1 (te ++ colon :: (tb ++ rest)) false) =
      .ok (.iterate 0 e ids (some b)) (S Y tb.getLast? rest true) := by
  show pIteratorRest v (layoutOps Y) m _ ids _ = _
  unfold pIteratorRest
  have h1 := header_expr (v := v) he hcol hg p1 (tb ++ rest) ho m hm
  obtain ⟨h2, h3, h4⟩ := colon_block (v := v) hcol hind hne hH hB te.getLast? rest (inOrder_drop te ho) hb hf m hm2
  show (parse v (layoutOps Y) m (.expr true) >>= _) _ = _
  rw [bind_ok h1, bind_ok h2, bind_ok h3]
  dsimp only
  show (parse v (layoutOps Y) m (.block (d + 1)) >>= _) _ = _
  rw [bind_ok h4]
  rfl

theorem stmt_iter0 {d : Nat} {kw colon : Token} {e : Expr} {te : List Token} {b : List Stmt} {tb : List Token}
    (hk : kw.type = cTypeIteratorW) (he : LinE Y 1 e te) (hcol : colon.type = cTypeFuncCall)
    (hg : Y.Glued (kw :: te ++ [colon])) (hind : Y.ind colon = d) (hne : tb ≠ []) (hH : Heads Y (d + 1) stmtHeads tb)
    (hB : CBlockA v Y (d + 1) b tb) :
    CStmt v Y d (.iterate (Y.sl kw) e [] (some b)) (kw :: te ++ colon :: tb) := by
  intro p1 rest fl ho ha n' hn
  obtain ⟨m, rfl⟩ : ∃ m, n' = m + 3 := ⟨n' - 3, by unfold fS at hn; omega⟩
  have hf := linE_facts he
  have el : (kw :: te ++ colon :: tb).getLast? = tb.getLast? := getLast?_hdr (kw :: te) colon hne
  rw [el] at ha ⊢
  have e0 : (kw :: te ++ colon :: tb) ++ rest = kw :: (te ++ colon :: (tb ++ rest)) := by simp
  rw [e0] at ho ⊢
  refine statement_kw (Y := Y) (v := v) (m + 1) p1 fl kw _ (.iterate 0 e [] (some b)) _ rest (by rw [hk]; decide) (by rw [hk]; decide) ho ?_
  rw [stmtBody_iter _ _ _ _ _ hk]
  have hb : Y.brk kw (Y.peek (te ++ colon :: (tb ++ rest))) = false := by
    have hg' : Y.Glued (kw :: (te ++ [colon])) := hg
    rw [peek_append hf.1]
    cases te with
    | nil => exact absurd rfl hf.1
    | cons u r => exact glued_head hg'
  rw [hb]
  have hlen : 16 * te.length + 16 ≤ m + 1 ∧ fB tb + 1 ≤ m + 1 := by
    unfold fS at hn; unfold fB; simp only [List.length_cons, List.length_append] at hn; omega
  exact iterRest he hcol (glued_tail (t := kw) hg) hind hne hH hB [] (some kw) rest (inOrder_tail ho) ha.brk ha.foll.inner
    (m + 1) hlen.1 hlen.2

/-- an identifier is an expression of every level -/
theorem linE_id1 (a : Token) (ha : a.type = cTypeIdentifier) : LinE Y 1 (.id (Y.idOf a)) [a] :=
  .up 1 _ _ (by decide) (.up 2 _ _ (by decide) (.up 3 _ _ (by decide) (.up 4 _ _ (by decide) (.up 5 _ _ (by decide)
    (.up 6 _ _ (by decide) (.id a ha))))))

theorem stmt_iter1 {d : Nat} {kw a it colon : Token} {e : Expr} {te : List Token} {b : List Stmt} {tb : List Token}
    (hk : kw.type = cTypeVarOneW) (hat : a.type = cTypeIdentifier) (hit : it.type = cTypeIteratorW) (he : LinE Y 1 e te)
    (hcol : colon.type = cTypeFuncCall) (hg : Y.Glued (kw :: a :: it :: te ++ [colon])) (hind : Y.ind colon = d)
    (hne : tb ≠ []) (hH : Heads Y (d + 1) stmtHeads tb) (hB : CBlockA v Y (d + 1) b tb) :
    CStmt v Y d (.iterate (Y.sl kw) e [Y.idOf a] (some b)) (kw :: a :: it :: te ++ colon :: tb) := by
  intro p1 rest fl ho ha n' hn
  obtain ⟨m, rfl⟩ : ∃ m, n' = m + 20 := ⟨n' - 20, by unfold fS at hn; simp only [List.length_cons, List.length_append] at hn; omega⟩
  have hf := linE_facts he
  have el : (kw :: a :: it :: te ++ colon :: tb).getLast? = tb.getLast? := getLast?_hdr (kw :: a :: it :: te) colon hne
  rw [el] at ha ⊢
  have e0 : (kw :: a :: it :: te ++ colon :: tb) ++ rest = kw :: a :: it :: (te ++ colon :: (tb ++ rest)) := by simp
  rw [e0] at ho ⊢
  refine statement_kw (Y := Y) (v := v) (m + 18) p1 fl kw _ (.iterate 0 e [Y.idOf a] (some b)) _ rest (by rw [hk]; decide)
    (by rw [hk]; decide) ho ?_
  rw [stmtBody_varOne _ _ _ _ _ hk]
  have hb : Y.brk kw (Y.peek (a :: it :: (te ++ colon :: (tb ++ rest)))) = false := glued_head hg
  rw [hb]
  show pVarOneLead v (layoutOps Y) (m + 18) _ _ = _
  unfold pVarOneLead
  have ho1 := inOrder_tail ho
  have hg1 : Y.Glued (a :: it :: (te ++ [colon])) := glued_tail hg
  have hitc : it.type ≠ cTypeCommaSep := by rw [hit]; decide
  have hs : Stop Y F1 [a] (it :: (te ++ colon :: (tb ++ rest))) :=
    ⟨hitc, Or.inr (by show it.type ∉ F1; rw [hit]; decide)⟩
  have hm0 : 14 ≤ m := by unfold fS at hn; simp only [List.length_cons, List.length_append] at hn; omega
  have h1 := expr_roundtrip (v := v) (linE_id1 (Y := Y) a hat) trivial (some kw) _ ho1 hs (m + 18) (by show 16 * 1 + 16 ≤ _; omega)
  show (parse v (layoutOps Y) (m + 18) (.expr true) >>= _) (S Y (some kw) ([a] ++ _) false) = _
  rw [bind_ok h1]
  unfold Send
  have hj : Y.jf [a].getLast? (Y.peek (it :: (te ++ colon :: (tb ++ rest)))) = false := glued_head hg1
  rw [hj]
  have ho2 := inOrder_tail ho1
  rw [bind_ok (tryConsume_hit (m + 17) _ _ it _ (by simp [hit]) hitc ho2)]
  dsimp only
  simp only [hit, if_true]
  have hg2 : Y.Glued (it :: (te ++ [colon])) := glued_tail hg1
  have hb2 : Y.brk it (Y.peek (te ++ colon :: (tb ++ rest))) = false := by
    rw [peek_append hf.1]
    cases te with
    | nil => exact absurd rfl hf.1
    | cons u r => exact glued_head hg2
  rw [hb2]
  have hlen : 16 * te.length + 16 ≤ m + 17 ∧ fB tb + 1 ≤ m + 17 := by
    unfold fS at hn; unfold fB; simp only [List.length_cons, List.length_append] at hn; omega
  exact iterRest he hcol (glued_tail hg2) hind hne hH hB [Y.idOf a] (some it) rest (inOrder_tail ho2) ha.brk ha.foll.inner
    (m + 17) hlen.1 hlen.2

theorem stmt_iter2 {d : Nat} {kw a p a2 it colon : Token} {e : Expr} {te : List Token} {b : List Stmt} {tb : List Token}
    (hk : kw.type = cTypeVarOneW) (hat : a.type = cTypeIdentifier) (hp : p.type = cTypePauseCommaSep)
    (hat2 : a2.type = cTypeIdentifier) (hit : it.type = cTypeIteratorW) (he : LinE Y 1 e te)
    (hcol : colon.type = cTypeFuncCall) (hg : Y.Glued (kw :: a :: p :: a2 :: it :: te ++ [colon])) (hind : Y.ind colon = d)
    (hne : tb ≠ []) (hH : Heads Y (d + 1) stmtHeads tb) (hB : CBlockA v Y (d + 1) b tb) :
    CStmt v Y d (.iterate (Y.sl kw) e [Y.idOf a, Y.idOf a2] (some b)) (kw :: a :: p :: a2 :: it :: te ++ colon :: tb) := by
  intro p1 rest fl ho ha n' hn
  obtain ⟨m, rfl⟩ : ∃ m, n' = m + 36 := ⟨n' - 36, by unfold fS at hn; simp only [List.length_cons, List.length_append] at hn; omega⟩
  have hf := linE_facts he
  have el : (kw :: a :: p :: a2 :: it :: te ++ colon :: tb).getLast? = tb.getLast? :=
    getLast?_hdr (kw :: a :: p :: a2 :: it :: te) colon hne
  rw [el] at ha ⊢
  have e0 : (kw :: a :: p :: a2 :: it :: te ++ colon :: tb) ++ rest =
      kw :: a :: p :: a2 :: it :: (te ++ colon :: (tb ++ rest)) := by simp
  rw [e0] at ho ⊢
  refine statement_kw (Y := Y) (v := v) (m + 34) p1 fl kw _ (.iterate 0 e [Y.idOf a, Y.idOf a2] (some b)) _ rest (by rw [hk]; decide)
    (by rw [hk]; decide) ho ?_
  rw [stmtBody_varOne _ _ _ _ _ hk]
  have hb : Y.brk kw (Y.peek (a :: p :: a2 :: it :: (te ++ colon :: (tb ++ rest)))) = false := glued_head hg
  rw [hb]
  show pVarOneLead v (layoutOps Y) (m + 34) _ _ = _
  unfold pVarOneLead
  have ho1 := inOrder_tail ho
  have hg1 : Y.Glued (a :: p :: a2 :: it :: (te ++ [colon])) := glued_tail hg
  have hpc : p.type ≠ cTypeCommaSep := by rw [hp]; decide
  have hitc : it.type ≠ cTypeCommaSep := by rw [hit]; decide
  have hFO : FO (Expr.id (Y.idOf a)) = [] := rfl
  have hs : Stop Y (B1 true ++ FO (Expr.id (Y.idOf a))) [a] (p :: a2 :: it :: (te ++ colon :: (tb ++ rest))) :=
    ⟨hpc, Or.inr (by show p.type ∉ _; rw [hFO, hp]; decide)⟩
  have hm0 : 14 ≤ m := by unfold fS at hn; simp only [List.length_cons, List.length_append] at hn; omega
  have h1 := expr_roundtrip_open (v := v) (linE_id1 (Y := Y) a hat) trivial (some kw) _ ho1 hs (m + 34) (by show 16 * 1 + 16 ≤ _; omega)
  show (parse v (layoutOps Y) (m + 34) (.expr true) >>= _) (S Y (some kw) ([a] ++ _) false) = _
  rw [bind_ok h1]
  unfold Send
  have hj : Y.jf [a].getLast? (Y.peek (p :: a2 :: it :: (te ++ colon :: (tb ++ rest)))) = false := glued_head hg1
  rw [hj]
  rw [bind_ok (tryConsume_miss (m + 34) _ [a].getLast? (p :: a2 :: it :: (te ++ colon :: (tb ++ rest))) false
    (Or.inr (by show p.type ∉ _; rw [hp]; decide)) hpc)]
  dsimp only
  unfold pVarOneSecond
  have ho2 := inOrder_tail ho1
  rw [bind_ok (consume_hit (m + 33) _ _ p _ (by simp [hp]) hpc ho2)]
  have hg2 : Y.Glued (p :: a2 :: it :: (te ++ [colon])) := glued_tail hg1
  have hb2 : Y.brk p (Y.peek (a2 :: it :: (te ++ colon :: (tb ++ rest)))) = false := glued_head hg2
  rw [hb2]
  have ho3 := inOrder_tail ho2
  have hs2 : Stop Y F1 [a2] (it :: (te ++ colon :: (tb ++ rest))) :=
    ⟨hitc, Or.inr (by show it.type ∉ F1; rw [hit]; decide)⟩
  have h2 := expr_roundtrip (v := v) (linE_id1 (Y := Y) a2 hat2) trivial (some p) _ ho3 hs2 (m + 34) (by show 16 * 1 + 16 ≤ _; omega)
  show (parse v (layoutOps Y) (m + 34) (.expr true) >>= _) (S Y (some p) ([a2] ++ _) false) = _
  rw [bind_ok h2]
  unfold Send
  have hg3 : Y.Glued (a2 :: it :: (te ++ [colon])) := glued_tail hg2
  have hj2 : Y.jf [a2].getLast? (Y.peek (it :: (te ++ colon :: (tb ++ rest)))) = false := glued_head hg3
  rw [hj2]
  have ho4 := inOrder_tail ho3
  rw [bind_ok (tryConsume_hit (m + 33) _ _ it _ (by simp [hit]) hitc ho4)]
  dsimp only
  have hg4 : Y.Glued (it :: (te ++ [colon])) := glued_tail hg3
  have hb4 : Y.brk it (Y.peek (te ++ colon :: (tb ++ rest))) = false := by
    rw [peek_append hf.1]
    cases te with
    | nil => exact absurd rfl hf.1
    | cons u r => exact glued_head hg4
  rw [hb4]
  have hlen : 16 * te.length + 16 ≤ m + 33 ∧ fB tb + 1 ≤ m + 33 := by
    unfold fS at hn; unfold fB; simp only [List.length_cons, List.length_append] at hn; omega
  exact iterRest he hcol (glued_tail hg4) hind hne hH hB [Y.idOf a, Y.idOf a2] (some it) rest (inOrder_tail ho4) ha.brk
    ha.foll.inner (m + 33) hlen.1 hlen.2

end ZnVerif.Proofs.StmtRT
