/-
What `parse_good` means for `Parser.Parse` (`parseAST`): one statement covering all four outcomes.
-/
import ZnVerif.Proofs.ParserGoodTop

namespace ZnVerif.Proofs.ParserGood
open ZnVerif.Model ZnVerif.Model.Parser ZnVerif.Generated.Tokens ZnVerif.Generated.ParserTables
open ZnVerif.Spec.Grammar ZnVerif.Proofs.ParserHoare

variable {σ : Type} {ops : LexOps σ} {B : Nat} {μ : σ → Nat} {I : σ → Prop}

/-- fuel that suffices for a whole source: linear in the measure of the input -/
def fuelFor (k : Nat) : Nat := 24 * k + 19

theorem initState_spec (hl : LexOK ops B μ I) (n : Nat) (l : σ) (hI : I l) :
    Sat (initState ops n l) (fun _ s => Inv ops B I s ∧ m μ s ≤ μ l) (ErrOK B) (n ≤ μ l) := by
  unfold initState
  have hf := fetch_spec hl n l hI
  generalize fetch ops n l = r at hf ⊢
  cases r with
  | err e => exact hf
  | panic => exact hf
  | fuel => exact hf
  | ok tk l' =>
    simp only at hf ⊢
    show Inv ops B I _ ∧ _
    refine ⟨⟨hf.1, hf.2.1, (by intro t ht; cases ht), ?_, ?_⟩, ?_⟩
    · simp only
      have hb := findLineIdx_bound (ops.lines l') tk.startIdx 0
      by_cases hz : (ops.lines l').size = 0
      · right; exact ⟨hz, trivial, hb.2 (by omega)⟩
      · left; exact ⟨by omega, hb.1 (by omega)⟩
    · intro h
      rcases h with h | h
      · exact (hf.2.2.2.1 h).2
      · cases h
    · simp only [m]
      by_cases he : tk.type = cTypeEOF
      · simp only [he, if_true]; omega
      · simp only [he, if_false]; have := (hf.2.2.2.1 he).1; omega

/-- `Parser.Parse` on the repaired tree: a returned tree is complete, an error is a syntax error inside the source, there is no
Go run-time panic, and `fuelFor (μ l)` units of fuel are enough -/
theorem parseAST_spec (hl : LexOK ops B μ I) (n : Nat) (l : σ) (hI : I l) :
    match parseAST Variant.fixed ops n l with
    | .tree t => Complete t
    | .synErr e => ErrOK B e
    | .otherErr => False
    | .outOfFuel => n < fuelFor (μ l) := by
  unfold parseAST
  have hi := initState_spec hl n l hI
  generalize initState ops n l = r0 at hi ⊢
  cases r0 with
  | err e => exact hi
  | panic => exact hi
  | fuel => simp only [Sat] at hi ⊢; unfold fuelFor; omega
  | ok u s0 =>
    obtain ⟨hs0, hm0⟩ := hi
    simp only
    have hp := parse_good hl n .program s0 hs0 trivial
    generalize parse Variant.fixed ops n .program s0 = r1 at hp ⊢
    cases r1 with
    | err e => exact hp
    | panic => exact hp
    | fuel =>
      simp only [Sat, need, rank] at hp ⊢
      unfold fuelFor
      omega
    | ok pg s1 =>
      simp only [Sat] at hp ⊢
      by_cases he : s1.p2.type ≠ cTypeEOF
      · rw [if_pos he]
        -- the repaired tree reports the first left-over token (`getInvalidSyntaxPeek`)
        have hv : ((if Variant.fixed.leftoverFix then errPeek Variant.fixed 20 else errCurr Variant.fixed) : PM σ Unit) =
            errPeek Variant.fixed 20 := rfl
        rw [hv]
        have hc := errPeek_sat (α := Unit) (code := 20) (Q := fun _ _ => False) (F := False) hp.1 (by decide)
        generalize (errPeek Variant.fixed 20 : PM σ Unit) s1 = r2 at hc ⊢
        cases r2 with
        | err e => exact hc
        | panic => exact hc
        | fuel => exact hc
        | ok a s => exact hc
      · rw [if_neg he]
        exact hp.2.2.2.2.2

/-- the token-level lexer meets the assumptions made of a lexer -/
theorem tokenOps_ok (B : Nat) : LexOK tokenOps B List.length (fun l => ∀ t ∈ l, t.startIdx ≤ B) where
  tok := by
    intro l t l' hI h
    cases l with
    | nil =>
      simp only [tokenOps, Prod.mk.injEq, TokRes.tok.injEq] at h
      obtain ⟨rfl, rfl⟩ := h
      exact ⟨hI, Nat.zero_le _, Nat.le_refl _, fun h => absurd rfl h, Nat.le_refl _⟩
    | cons a r =>
      simp only [tokenOps, Prod.mk.injEq, TokRes.tok.injEq] at h
      obtain ⟨rfl, rfl⟩ := h
      refine ⟨fun t ht => hI t (List.mem_cons_of_mem _ ht), hI _ (List.mem_cons_self ..), ?_, fun _ => ⟨?_, ?_⟩, ?_⟩
      · simp
      · simp
      · simp [tokenOps]
      · simp [tokenOps]
  err := by
    intro l e l' _ h
    cases l <;> simp [tokenOps] at h
  nopanic := by
    intro l l' _ h
    cases l <;> simp [tokenOps] at h

end ZnVerif.Proofs.ParserGood
