/-
C03 at character level, the interface between the lexer part and the parser part.

A `Run Y` is a complete account of what the lexer model does on ONE source text, read against the layout `Y` (the FINAL line table of
that text and its length): the sequence of lexer states `st 0, st 1, …` between tokens, the token `tk j` that `NextToken` answers in
state `st j` (after the last token of the text: the EOF token, for ever), and the facts about the line table AS IT GROWS that the
parser relies on:

 * the table known after token `j` (`(st (j+1)).lines`) is a prefix of the final table as far as start indices and indentations
   go (`LineText` of the last known line is still nil at that moment, which the parser never reads);
 * token `j` ENDS on the LAST line known at that moment (before the next line of the final table starts) and STARTS on line
   `sline j` (the same line, unless the token is a text literal that spans lines), at or after the last line known before it;
 * line starts increase strictly.

Proofs/RenderLex*.lean builds the `Run` of a canonical rendering; Proofs/LexSim*.lean proves that the parser model driven by the
real lexer along a `Run` answers what it answers on the token list read against `Y`.
-/
import ZnVerif.Model.ParserLex
import ZnVerif.Spec.StmtSyntax

namespace ZnVerif.Proofs.LexRun
open ZnVerif.Model ZnVerif.Model.Parser ZnVerif.Generated.Tokens
open ZnVerif.Spec.StmtSyntax

structure Run (Y : Layout) where
  /-- the lexer between tokens: `st 0` is the lexer on the fresh source -/
  st : Nat → Lexer
  /-- the token answered in state `st j` -/
  tk : Nat → Token
  /-- number of tokens before EOF -/
  N : Nat
  step : ∀ j, nextToken (st j) = (.ok (tk j), st (j + 1))
  eof : ∀ j, N ≤ j → tk j = Y.eof
  /-- line starts of the final table increase strictly -/
  sorted : ∀ (i j : Nat) (a b : LineInfo), i < j → Y.lines[i]? = some a → Y.lines[j]? = some b → a.startIdx < b.startIdx
  size_pos : ∀ j, 0 < (st (j + 1)).lines.size
  size_mono : ∀ j, (st (j + 1)).lines.size ≤ (st (j + 2)).lines.size
  /-- the table known after token `j` agrees with the final one on start index and indentation of every known line -/
  pre : ∀ j i, i < (st (j + 1)).lines.size →
    (st (j + 1)).lines[i]?.map (·.startIdx) = Y.lines[i]?.map (·.startIdx) ∧
    (st (j + 1)).lines[i]?.map (·.indents) = Y.lines[i]?.map (·.indents)
  /-- the line token `j` starts on -/
  sline : Nat → Nat
  sline_lt : ∀ j, sline j < (st (j + 1)).lines.size
  /-- a token starts at or after the last line known when the token before it had been read -/
  sline_ge : ∀ j, (st (j + 1)).lines.size - 1 ≤ sline (j + 1)
  onStart : ∀ j (a : LineInfo), Y.lines[sline j]? = some a → a.startIdx ≤ (tk j).startIdx
  beforeNextStart : ∀ j (b : LineInfo), Y.lines[sline j + 1]? = some b → (tk j).startIdx < b.startIdx
  /-- token `j` ends on the last line known after it has been read -/
  onLast : ∀ j (a : LineInfo), Y.lines[(st (j + 1)).lines.size - 1]? = some a → a.startIdx ≤ (tk j).endIdx
  span : ∀ j, (tk j).startIdx ≤ (tk j).endIdx
  beforeNext : ∀ j (b : LineInfo), Y.lines[(st (j + 1)).lines.size]? = some b → (tk j).endIdx < b.startIdx

/-- the tokens of the text (without EOF) -/
def Run.toks {Y : Layout} (R : Run Y) : List Token := (List.range R.N).map R.tk

end ZnVerif.Proofs.LexRun
