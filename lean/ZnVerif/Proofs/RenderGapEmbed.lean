/-
C03 at character level: the canonical rendering (`renderTokens`: one space between tokens, LF + TABs between lines, LF at the end) is
a document (`renderDoc .tab`), with the same tokens, the same line table, and well-formed when the token list is — so the theorems
about canonical renderings are corollaries of the theorems about documents.
-/
import ZnVerif.Proofs.RenderGapRun

namespace ZnVerif.Proofs.RenderLex
open ZnVerif.Model ZnVerif.Generated ZnVerif.Generated.Tokens
open ZnVerif.Spec ZnVerif.Spec.RenderChars
open ZnVerif.Spec.Segment (kwAt)

theorem units_tab (k : Nat) : units .tab k = List.replicate k runeTAB := by simp [units, Indent.width, Indent.char]

theorem closedLineI_tab (s k e : Nat) : closedLineI .tab s k e = closedLine s k e := by
  simp [closedLineI, closedLine, Indent.width]

theorem renderFrom_eq : ∀ rs : List RTok, renderFrom false rs = renderEls .tab (ofRToks rs) := by
  intro rs
  induction rs with
  | nil => simp [renderFrom, ofRToks, renderEls, El.chars, Break.chars, units_tab]
  | cons r rs ih =>
    cases hnl : r.nl with
    | none => simp [renderFrom, ofRToks, hnl, renderEls, El.chars, lead, ih]
    | some k => simp [renderFrom, ofRToks, hnl, renderEls, El.chars, lead, ih, Break.chars, units_tab]

theorem toksFrom_eq : ∀ (rs : List RTok) (pos : Nat), toksFrom false pos rs = elToks .tab pos (ofRToks rs) := by
  intro rs
  induction rs with
  | nil => intro pos; simp [toksFrom, ofRToks, elToks]
  | cons r rs ih =>
    intro pos
    cases hnl : r.nl with
    | none => simp [toksFrom, ofRToks, hnl, elToks, El.chars, lead, ih]
    | some k =>
      simp [toksFrom, ofRToks, hnl, elToks, El.chars, lead, ih, Break.chars, units_tab]

theorem linesFrom_eq : ∀ (rs : List RTok) (pos s k : Nat), linesFrom pos s k rs = elLines .tab pos s k (ofRToks rs) := by
  intro rs
  induction rs with
  | nil => intro pos s k; simp [linesFrom, ofRToks, elLines, closedLineI_tab, Break.chars, Indent.width]
  | cons r rs ih =>
    intro pos s k
    cases hnl : r.nl with
    | none =>
      simp only [linesFrom, hnl, ofRToks, List.cons_append, List.nil_append, elLines, El.chars, List.length_singleton]
      rw [ih]
    | some k' =>
      simp only [linesFrom, hnl, ofRToks, List.cons_append, List.nil_append, elLines, El.chars, closedLineI_tab, Break.chars,
        List.length_singleton, Indent.width, Nat.one_mul]
      rw [ih]

/-- a canonical token list as a document: the first token's indentation, then the token, then the rest -/
def docOf : List RTok → Nat × List El
  | [] => (0, [])
  | r0 :: rs => (r0.nl.getD 0, .tok r0.item :: ofRToks rs)

theorem renderTokens_eq (r0 : RTok) (rs : List RTok) (k0 : Nat) (h : r0.nl = some k0) :
    renderTokens (r0 :: rs) = renderDoc .tab k0 (.tok r0.item :: ofRToks rs) := by
  simp [renderTokens, renderFrom, lead, h, renderDoc, renderEls, El.chars, units_tab, renderFrom_eq]

theorem tokensOf_eq (r0 : RTok) (rs : List RTok) (k0 : Nat) (h : r0.nl = some k0) :
    tokensOf (r0 :: rs) = docTokens .tab k0 (.tok r0.item :: ofRToks rs) := by
  simp [tokensOf, toksFrom, lead, h, docTokens, elToks, toksFrom_eq, Indent.width]

theorem lineTable_eq (r0 : RTok) (rs : List RTok) (k0 : Nat) (h : r0.nl = some k0) :
    lineTable (r0 :: rs) = docLines .tab k0 (.tok r0.item :: ofRToks rs) := by
  simp [lineTable, h, docLines, elLines, El.chars, linesFrom_eq, Indent.width]

/-- the text after a canonical item begins with a space or a line feed -/
theorem renderEls_ofRToks_head (rs : List RTok) : ∃ d t, renderEls .tab (ofRToks rs) = d :: t ∧ (d = runeSP ∨ d = runeLF) ∧
    ((∃ r' rs', rs = r' :: rs' ∧ r'.nl = none) → d = runeSP) := by
  rw [← renderFrom_eq]
  exact renderFrom_head rs

theorem item_ends_canonical (it : Item) (hw : it.WF) (d : Nat) (t : List Nat)
    (hd : d = runeSP ∨ (d = runeLF ∧ it.tight = false)) : it.WF0 ∧ it.Ends (d :: t) := by
  have hdel : Delim d := hd.imp id (·.1)
  cases it with
  | kw sp ty => exact ⟨hw, trivial⟩
  | punct ch ty => exact ⟨hw, trivial⟩
  | quoted cs => exact ⟨hw, trivial⟩
  | text q x => exact ⟨hw, trivial⟩
  | cmt c => exact hw.elim
  | op sp ty =>
    refine ⟨hw, ?_, ?_⟩
    · show tightMarks.contains sp = true → isDelim d = true
      intro ht
      rcases hd with rfl | ⟨_, h2⟩
      · decide
      · simp only [Item.tight] at h2
        rw [ht] at h2; cases h2
    · show eqLeaders.contains sp = true → d ≠ cEqualOp
      intro _
      rcases hdel with rfl | rfl <;> decide
  | name cs =>
    obtain ⟨hne, hcs, hkf⟩ := hw
    clear hd
    refine ⟨⟨hne, hcs⟩, ?_, ?_⟩
    · rw [kwFreeBefore_iff]
      intro i hi
      apply kwAt_none_append _ d t hdel
      -- `kwFree` says it of every suffix
      clear hne hcs
      induction cs generalizing i with
      | nil => simp at hi
      | cons c cs ih =>
        have hkf' : (kwAt Keywords.documented (c :: cs)).isNone = true ∧ kwFree cs = true := by simpa [kwFree] using hkf
        cases i with
        | zero => simpa using hkf'.1
        | succ i => exact ih hkf'.2 i (by simpa using hi)
    · unfold nameStop
      simp only [List.headD_cons]
      rcases hdel with rfl | rfl
      · have : isWhiteSpace runeSP = true := by decide
        simp [this]
      · have : terminateMarkers.contains runeLF = true := by decide
        rw [this]; simp

theorem wfEls_ofRToks : ∀ rs : List RTok, WFFrom rs → WFEls .tab (ofRToks rs) ∧
    ∀ (it : Item), it.WF → (it.tight = true → ∃ r' rs', rs = r' :: rs' ∧ r'.nl = none) →
      it.WF0 ∧ it.Ends (renderEls .tab (ofRToks rs)) := by
  intro rs
  induction rs with
  | nil =>
    intro _
    refine ⟨⟨by simp [PairOK, units, renderEls]; decide, by simp [IndentOK, renderEls]; decide, trivial⟩, ?_⟩
    intro it hw ht
    have : renderEls .tab (ofRToks []) = runeLF :: [] := by simp [ofRToks, renderEls, El.chars, Break.chars, units_tab]
    rw [this]
    apply item_ends_canonical it hw
    right
    refine ⟨rfl, ?_⟩
    cases h : it.tight
    · rfl
    · obtain ⟨_, _, e, _⟩ := ht h; cases e
  | cons r rs ih =>
    intro hw
    obtain ⟨ihw, ihe⟩ := ih hw.2.2
    obtain ⟨hwf0, hends⟩ := ihe r.item hw.1 hw.2.1
    obtain ⟨c, sp, hsp, hsolid, h0, htab⟩ := spelling_head r.item hw.1
    have hspc : c ≠ runeSP := by intro e; have := hsolid.1; rw [e] at this; revert this; decide
    constructor
    · cases hnl : r.nl with
      | none =>
        simp only [ofRToks, hnl, List.cons_append, List.nil_append]
        exact ⟨by decide, hwf0, hends, ihw⟩
      | some k =>
        simp only [ofRToks, hnl, List.cons_append, List.nil_append]
        refine ⟨?_, ?_, hwf0, hends, ihw⟩
        · show (units .tab k ++ renderEls .tab (.tok r.item :: ofRToks rs)).headD 0 ≠ runeCR
          rw [units_tab]
          cases k with
          | zero => simp [renderEls, El.chars, hsp]; exact hsolid.2.1
          | succ k => simp [List.replicate_succ]; decide
        · refine ⟨?_, fun _ => ⟨?_, ?_⟩⟩ <;> simp [renderEls, El.chars, hsp, Indent.char] <;> assumption
    · intro it hwi hti
      obtain ⟨d, t, h1, h2, h3⟩ := renderEls_ofRToks_head (r :: rs)
      rw [h1]
      apply item_ends_canonical it hwi
      rcases h2 with h2 | h2
      · exact Or.inl h2
      · by_cases ht : it.tight = true
        · exact Or.inl (h3 (hti ht))
        · exact Or.inr ⟨h2, by simpa using ht⟩

/-- a well-formed canonical token list is a well-formed document -/
theorem docWF_of_WF (r0 : RTok) (rs : List RTok) (k0 : Nat) (hw : WFFrom (r0 :: rs)) :
    DocWF .tab k0 (.tok r0.item :: ofRToks rs) := by
  obtain ⟨ihw, ihe⟩ := wfEls_ofRToks rs hw.2.2
  obtain ⟨hwf0, hends⟩ := ihe r0.item hw.1 hw.2.1
  obtain ⟨c, sp, hsp, hsolid, h0, htab⟩ := spelling_head r0.item hw.1
  have hspc : c ≠ runeSP := by intro e; have := hsolid.1; rw [e] at this; revert this; decide
  refine ⟨?_, ?_, hwf0, hends, ihw⟩
  · simp [renderDoc, renderEls, El.chars, hsp]
  · refine ⟨?_, fun _ => ⟨?_, ?_⟩⟩ <;> simp [renderEls, El.chars, hsp, Indent.char] <;> assumption

end ZnVerif.Proofs.RenderLex
