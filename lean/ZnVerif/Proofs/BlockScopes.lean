/-
Consequences of `allPres` for the relation `ScopeGrow` / `WellScopedRel`: what blocks do to scopes.
-/
import ZnVerif.Proofs.ScopeGrow
import ZnVerif.Proofs.Handlers
set_option linter.unusedSectionVars false
set_option linter.unusedSimpArgs false
set_option linter.unusedVariables false

namespace ZnVerif.Proofs.Balance
open ZnVerif.Model ZnVerif.Proofs.Calls

variable {ν : Type} [NumOps ν]

section
variable {R : VM ν → VM ν → Prop} [ScopePrims R]

theorem Pres.ofState {α : Type} {f : VM ν → M ν α} (h : ∀ v, Pres R (f v)) : Pres R (fun s => f s s) :=
  ⟨fun s => (h s).run s⟩

theorem Pres.bindThis (vm : VM ν) : Pres R (bindThis vm) := by
  unfold Calls.bindThis; pres_tac

theorem Pres.bindInputs (inputs : List Ident) (params : List Addr) : Pres R (bindInputs (ν := ν) inputs params) := by
  unfold Calls.bindInputs; pres_tac

theorem Pres.finishBlock (n : Nat) (bm : Int) (bd : Nat) (catches : List (Option Ident × Option (List Stmt)))
    (r : Res (Option Addr)) : Pres R (finishBlock (ν := ν) n bm bd catches r) := by
  unfold Calls.finishBlock
  have := (allPres (R := R) n).handleException
  pres_tac
  exact this _ _ _ _

theorem Pres.execBlockBody (n : Nat) (inputs : List Ident) (body : Option (List Stmt))
    (catches : List (Option Ident × Option (List Stmt))) (params : List Addr) :
    Pres R (execBlockBody (ν := ν) n inputs body catches params) := by
  unfold Calls.execBlockBody
  apply Pres.ofState
  intro v
  have h1 := Pres.bindThis (R := R) v
  have h2 := Pres.bindInputs (R := R) inputs params
  have h3 := (allPres (R := R) n).evalStmtBlock body
  have h4 := Pres.finishBlock (R := R) n v.csModuleID v.stack.length catches
  pres_tac

end

/-- the scope of module `mid` keeps its depth from `s` to `s'` -/
def KeepsDepths (s s' : VM ν) : Prop :=
  ∀ mid sc, getScope mid s = some sc → ∃ sc', getScope mid s' = some sc' ∧ sc'.depth = sc.depth

theorem ScopeGrow.keepsDepths {s s' : VM ν} (h : ScopeGrow s s') : KeepsDepths s s' := by
  intro mid sc hsc
  obtain ⟨sc', h1, h2⟩ := h mid sc hsc
  exact ⟨sc', h1, h2.1⟩

/-- the scope of the module current in `s` has in `s'` the same depth and — if it was well-formed — exactly the same
symbols (names, depths, constness, order): nothing declared since remains, nothing was removed -/
def EntryScopeRestored (s s' : VM ν) : Prop :=
  ∀ sc, getScope s.csModuleID s = some sc → ∃ sc', getScope s.csModuleID s' = some sc' ∧
    sc'.depth = sc.depth ∧ (SortedDepths sc → SortedDepths sc' ∧ allKeys sc' = allKeys sc)

theorem evalPureStmtBlock_restores (n : Nat) (stmts : List Stmt) (s : VM ν) :
    EntryScopeRestored s (evalPureStmtBlock (n+1) (some stmts) s).2 := by
  simp only [evalPureStmtBlock]
  exact (scopeGrow_withScope_strong _ (Pres.stmtsLoop (allPres n).evalStmt stmts none) s).2

theorem evalExecBlock_restores (n : Nat) (inputs : List Ident) (body : Option (List Stmt))
    (catches : List (Option Ident × Option (List Stmt))) (params : List Addr) (s : VM ν) :
    EntryScopeRestored s (evalExecBlock (n+1) (some (.mk inputs body catches)) params s).2 := by
  rw [evalExecBlock_eq]
  exact (scopeGrow_withScope_strong _ (Pres.execBlockBody n inputs body catches params) s).2

end ZnVerif.Proofs.Balance
