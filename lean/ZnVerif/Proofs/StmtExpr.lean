/-
Token-level round trip with layout, part 2: expressions.

The port of Proofs/ParserRoundtrip.lean (one-line lexer `tokenOps`, relation `Lin`) to the layout-aware lexer `layoutOps Y` and the
relation `LinE Y`.  The structure is the same: claims `C1 … C7`, one per precedence level, proved by induction on `LinE`
(`linE_claim`); every claim is "stable" (it holds for every fuel from a bound on).

What is new: the tokens of the expression are `Glued` (no statement line break inside), the whole token list is `InOrder`
(that is what `next` needs to compute the lines), and what follows the expression `Stop`s it: it is not a comma and either the
statement is complete there (a statement line break after the last token) or the next token is not in the follow set.
-/
import ZnVerif.Proofs.StmtBase

namespace ZnVerif.Proofs.StmtRT
open ZnVerif.Model ZnVerif.Model.Parser ZnVerif.Generated.Tokens ZnVerif.Generated.ParserTables
open ZnVerif.Spec.StmtSyntax

variable {Y : Layout} {v : Variant}

-- follow sets: token types that would continue an expression of the given level (or be swallowed / skipped)
def F7 : List Nat := [cTypeMapHash, cTypeObjDotW, cTypeObjDotIIW, cTypeCommaSep, cTypeComment]
def F6 : List Nat := F7 ++ mulDivTypes
def F5 : List Nat := F6 ++ addSubTypes
def F4 : List Nat := F5 ++ (lv4ValidTypes ++ lv4VarAssignExtra)
def F3 : List Nat := F4 ++ lv3ValidTypes
def F2 : List Nat := F3 ++ [cTypeLogicAndW]
def F1 : List Nat := F2 ++ [cTypeLogicOrW]

/-- what follows the tokens `ts` stops an expression of follow set `F`: it is not a comma, and either the statement is complete
(a statement line break after the last token of `ts`) or the next token is not in `F` -/
def Stop (Y : Layout) (F : List Nat) (ts rest : List Token) : Prop :=
  (Y.peek rest).type ≠ cTypeCommaSep ∧ (Y.jf ts.getLast? (Y.peek rest) = true ∨ (Y.peek rest).type ∉ F)

theorem Stop.mono {F F' : List Nat} {ts rest : List Token} (hs : Stop Y F ts rest) (h : ∀ ty, ty ∉ F → ty ∉ F') :
    Stop Y F' ts rest :=
  ⟨hs.1, hs.2.imp id (h _)⟩

/-- the premise of the `*_now` lemmas in the state `Send Y ts rest` -/
theorem Stop.fl {F tys : List Nat} {ts rest : List Token} (hs : Stop Y F ts rest) (h : ∀ ty, ty ∉ F → ty ∉ tys) :
    Y.jf ts.getLast? (Y.peek rest) = true ∨ (Y.peek rest).type ∉ tys :=
  hs.2.imp id (h _)

section tails
variable (e : Expr) (p1 : Option Token) (rest : List Token) (fl : Bool)

theorem lv1Tail_now (h : fl = true ∨ (Y.peek rest).type ∉ [cTypeLogicOrW]) (hc : (Y.peek rest).type ≠ cTypeCommaSep) :
    Stable v Y (.lv1Tail true e) (S Y p1 rest fl) (.ok e (S Y p1 rest fl)) 1 := by
  intro n' hn
  obtain ⟨m, rfl⟩ : ∃ m, n' = m + 1 := ⟨n' - 1, by omega⟩
  show pLv1Tail (layoutOps Y) m _ true e _ = _
  unfold pLv1Tail
  rw [bind_ok (tryConsume_miss m _ p1 rest fl h hc)]
  rfl

theorem lv2Tail_now (h : fl = true ∨ (Y.peek rest).type ∉ [cTypeLogicAndW]) (hc : (Y.peek rest).type ≠ cTypeCommaSep) :
    Stable v Y (.lv2Tail true e) (S Y p1 rest fl) (.ok e (S Y p1 rest fl)) 1 := by
  intro n' hn
  obtain ⟨m, rfl⟩ : ∃ m, n' = m + 1 := ⟨n' - 1, by omega⟩
  show pLv2Tail (layoutOps Y) m _ true e _ = _
  unfold pLv2Tail
  rw [bind_ok (tryConsume_miss m _ p1 rest fl h hc)]
  rfl

theorem arithTail_now (h : fl = true ∨ (Y.peek rest).type ∉ addSubTypes) (hc : (Y.peek rest).type ≠ cTypeCommaSep) :
    Stable v Y (.arithTail e) (S Y p1 rest fl) (.ok e (S Y p1 rest fl)) 1 := by
  intro n' hn
  obtain ⟨m, rfl⟩ : ∃ m, n' = m + 1 := ⟨n' - 1, by omega⟩
  show pArithTail (layoutOps Y) m _ e _ = _
  unfold pArithTail
  rw [bind_ok (tryConsume_miss m _ p1 rest fl h hc)]
  rfl

theorem mulDivTail_now (h : fl = true ∨ (Y.peek rest).type ∉ mulDivTypes) (hc : (Y.peek rest).type ≠ cTypeCommaSep) :
    Stable v Y (.mulDivTail e) (S Y p1 rest fl) (.ok e (S Y p1 rest fl)) 1 := by
  intro n' hn
  obtain ⟨m, rfl⟩ : ∃ m, n' = m + 1 := ⟨n' - 1, by omega⟩
  show pMulDivTail (layoutOps Y) m _ e _ = _
  unfold pMulDivTail
  rw [bind_ok (tryConsume_miss m _ p1 rest fl h hc)]
  rfl

theorem memberTail_now (h : fl = true ∨ (Y.peek rest).type ∉ [cTypeMapHash, cTypeObjDotW, cTypeObjDotIIW])
    (hc : (Y.peek rest).type ≠ cTypeCommaSep) :
    Stable v Y (.memberTail e) (S Y p1 rest fl) (.ok e (S Y p1 rest fl)) 1 := by
  intro n' hn
  obtain ⟨m, rfl⟩ : ∃ m, n' = m + 1 := ⟨n' - 1, by omega⟩
  show pMemberTail v (layoutOps Y) m _ e _ = _
  unfold pMemberTail
  rw [bind_ok (tryConsume_miss m _ p1 rest fl h hc)]
  rfl

end tails

/-- fuel bound of level `k` on `ts`: looser levels sit higher in the call chain -/
def D (k : Nat) (ts : List Token) : Nat := 16 * ts.length + 2 * (8 - k)

def C7 (v : Variant) (Y : Layout) (e : Expr) (ts : List Token) : Prop :=
  ∀ p1 rest, Y.InOrder (ts ++ rest) → Y.Glued ts → Stop Y F7 ts rest →
    Stable v Y .member (S Y p1 (ts ++ rest) false) (.ok e (Send Y ts rest)) (D 7 ts)
def C6 (v : Variant) (Y : Layout) (e : Expr) (ts : List Token) : Prop :=
  ∀ p1 rest r n, 1 ≤ n → Y.InOrder (ts ++ rest) → Y.Glued ts → Stop Y F7 ts rest →
    Stable v Y (.mulDivTail e) (Send Y ts rest) r n → Stable v Y .mulDiv (S Y p1 (ts ++ rest) false) r (n + D 6 ts)
def C5 (v : Variant) (Y : Layout) (e : Expr) (ts : List Token) : Prop :=
  ∀ p1 rest r n, 1 ≤ n → Y.InOrder (ts ++ rest) → Y.Glued ts → Stop Y F6 ts rest →
    Stable v Y (.arithTail e) (Send Y ts rest) r n → Stable v Y .arith (S Y p1 (ts ++ rest) false) r (n + D 5 ts)
def C4 (v : Variant) (Y : Layout) (e : Expr) (ts : List Token) : Prop :=
  ∀ p1 rest, Y.InOrder (ts ++ rest) → Y.Glued ts → Stop Y F4 ts rest →
    Stable v Y (.lv4 true) (S Y p1 (ts ++ rest) false) (.ok e (Send Y ts rest)) (D 4 ts)
def C3 (v : Variant) (Y : Layout) (e : Expr) (ts : List Token) : Prop :=
  ∀ p1 rest, Y.InOrder (ts ++ rest) → Y.Glued ts → Stop Y F3 ts rest →
    Stable v Y (.lv3 true) (S Y p1 (ts ++ rest) false) (.ok e (Send Y ts rest)) (D 3 ts)
def C2 (v : Variant) (Y : Layout) (e : Expr) (ts : List Token) : Prop :=
  ∀ p1 rest r n, 1 ≤ n → Y.InOrder (ts ++ rest) → Y.Glued ts → Stop Y F3 ts rest →
    Stable v Y (.lv2Tail true e) (Send Y ts rest) r n → Stable v Y (.lv2 true) (S Y p1 (ts ++ rest) false) r (n + D 2 ts)
def C1 (v : Variant) (Y : Layout) (e : Expr) (ts : List Token) : Prop :=
  ∀ p1 rest r n, 1 ≤ n → Y.InOrder (ts ++ rest) → Y.Glued ts → Stop Y F2 ts rest →
    Stable v Y (.lv1Tail true e) (Send Y ts rest) r n → Stable v Y (.expr true) (S Y p1 (ts ++ rest) false) r (n + D 1 ts)

def Claim (v : Variant) (Y : Layout) : Nat → Expr → List Token → Prop
  | 1 => C1 v Y | 2 => C2 v Y | 3 => C3 v Y | 4 => C4 v Y | 5 => C5 v Y | 6 => C6 v Y | 7 => C7 v Y
  | _ => fun _ _ => False

structure Facts (Y : Layout) (ts : List Token) : Prop where
  ne : ts ≠ []
  plain : ∀ t ∈ ts, Plain t
  first : (Y.peek ts).type ∈ [cTypeIdentifier, cTypeString, cTypeStmtQuoteL]

theorem plain_of_mem {l : List Nat} (hl : ∀ ty ∈ l, ty ≠ cTypeEOF ∧ ty ≠ cTypeCommaSep ∧ ty ≠ cTypeComment) {t : Token}
    (h : t.type ∈ l) : Plain t := hl _ h

theorem lv3_plain : ∀ ty ∈ lv3ValidTypes, ty ≠ cTypeEOF ∧ ty ≠ cTypeCommaSep ∧ ty ≠ cTypeComment := by decide
theorem addSub_plain : ∀ ty ∈ addSubTypes, ty ≠ cTypeEOF ∧ ty ≠ cTypeCommaSep ∧ ty ≠ cTypeComment := by decide
theorem mulDiv_plain : ∀ ty ∈ mulDivTypes, ty ≠ cTypeEOF ∧ ty ≠ cTypeCommaSep ∧ ty ≠ cTypeComment := by decide

theorem facts_binop {ta tb : List Token} {t : Token} (ha : Facts Y ta) (hb : Facts Y tb) (ht : Plain t) :
    Facts Y (ta ++ t :: tb) where
  ne := by simp
  plain := by
    intro x hx
    simp only [List.mem_append, List.mem_cons] at hx
    rcases hx with hx | rfl | hx
    · exact ha.plain x hx
    · exact ht
    · exact hb.plain x hx
  first := by rw [peek_append ha.ne]; exact ha.first

theorem getLast?_binop (ta tb : List Token) (t : Token) (h : tb ≠ []) : (ta ++ t :: tb).getLast? = tb.getLast? := by
  rw [List.append_cons, getLast?_append_ne _ h]

theorem Send_binop (ta tb rest : List Token) (t : Token) (h : tb ≠ []) : Send Y (ta ++ t :: tb) rest = Send Y tb rest := by
  unfold Send
  rw [getLast?_binop ta tb t h]

theorem stop_binop {F : List Nat} (ta tb rest : List Token) (t : Token) (h : tb ≠ []) (hs : Stop Y F (ta ++ t :: tb) rest) :
    Stop Y F tb rest := by
  unfold Stop at hs ⊢
  rwa [getLast?_binop ta tb t h] at hs

/-- state after the tokens of `ta`, when the operator `t` and the right operand follow: no break before the operator -/
theorem Send_mid (ta tb rest : List Token) (t : Token) (hg : Y.Glued (ta ++ t :: tb)) :
    Send Y ta (t :: tb ++ rest) = S Y ta.getLast? (t :: (tb ++ rest)) false := by
  show S Y ta.getLast? (t :: (tb ++ rest)) (Y.jf ta.getLast? t) = _
  rw [glued_joint ta hg]

/-- flag after consuming a token when a glued token follows -/
theorem brk_mid {t : Token} {tb : List Token} (hne : tb ≠ []) (hg : Y.Glued (t :: tb)) (rest : List Token) :
    Y.brk t (Y.peek (tb ++ rest)) = false := by
  cases tb with
  | nil => exact absurd rfl hne
  | cons u r => exact hg.1

theorem not_mem_of_append_left {a : Nat} {l1 l2 : List Nat} (h : a ∉ l1 ++ l2) : a ∉ l1 :=
  fun h' => h (List.mem_append_left _ h')
theorem not_mem_of_append_right {a : Nat} {l1 l2 : List Nat} (h : a ∉ l1 ++ l2) : a ∉ l2 :=
  fun h' => h (List.mem_append_right _ h')

theorem F7_member {ty : Nat} (h : ty ∉ F7) : ty ∉ [cTypeMapHash, cTypeObjDotW, cTypeObjDotIIW] := by
  simp only [F7, List.mem_cons, List.not_mem_nil, or_false, not_or] at h ⊢
  exact ⟨h.1, h.2.1, h.2.2.1⟩

theorem F21 {ty : Nat} : ty ∉ F1 → ty ∉ F2 := not_mem_of_append_left
theorem F32 {ty : Nat} : ty ∉ F2 → ty ∉ F3 := not_mem_of_append_left
theorem F43 {ty : Nat} : ty ∉ F3 → ty ∉ F4 := not_mem_of_append_left
theorem F54 {ty : Nat} : ty ∉ F4 → ty ∉ F5 := not_mem_of_append_left
theorem F65 {ty : Nat} : ty ∉ F5 → ty ∉ F6 := not_mem_of_append_left
theorem F76 {ty : Nat} : ty ∉ F6 → ty ∉ F7 := not_mem_of_append_left

/-- `a 或 b` -/
theorem case_or (t : Token) (a b : Expr) (ta tb : List Token) (ht : t.type = cTypeLogicOrW)
    (Ca : C1 v Y a ta) (Fb : Facts Y tb) (Cb : C2 v Y b tb) :
    C1 v Y (.logic (Y.sl t) cLogicOR a b) (ta ++ t :: tb) := by
  intro p1 rest r n hn1 ho hg hs hstab
  have htp : Plain t := by unfold Plain; rw [ht]; decide
  rw [List.append_assoc] at ho
  have hob : Y.InOrder (t :: (tb ++ rest)) := inOrder_drop ta ho
  have hgb : Y.Glued (t :: tb) := glued_drop ta hg
  have hsb : Stop Y F2 tb rest := stop_binop ta tb rest t Fb.ne hs
  have key : Stable v Y (.lv1Tail true a) (Send Y ta (t :: tb ++ rest)) r (max n (1 + D 2 tb) + 1) := by
    intro n' hn
    obtain ⟨m, rfl⟩ : ∃ m, n' = m + 2 := ⟨n' - 2, by unfold D at hn; omega⟩
    rw [Send_mid ta tb rest t hg]
    show pLv1Tail (layoutOps Y) (m + 1) _ true a _ = r
    unfold pLv1Tail
    rw [bind_ok (tryConsume_hit m _ _ t (tb ++ rest) (by simp [ht]) htp.2.1 hob)]
    simp only [brk_mid Fb.ne hgb rest]
    have hb := Cb (some t) rest (.ok b (Send Y tb rest)) 1 (Nat.le_refl _) (inOrder_tail hob) (glued_tail hgb)
      (hsb.mono fun _ => F32)
      (lv2Tail_now b _ rest _ (hsb.fl fun _ => not_mem_of_append_right) hsb.1) (m + 1) (by omega)
    rw [bind_ok hb, bind_ok (lineOf_S t _)]
    rw [Send_binop ta tb rest t Fb.ne] at hstab
    exact hstab (m + 1) (by omega)
  have hhead : Stop Y F2 ta (t :: tb ++ rest) := ⟨htp.2.1, Or.inr (by show t.type ∉ F2; rw [ht]; decide)⟩
  have := Ca p1 (t :: tb ++ rest) r _ (by omega) ho (glued_take ta hg) hhead key
  rw [List.append_assoc]
  refine this.mono ?_
  unfold D
  simp only [List.length_append, List.length_cons]
  omega

/-- `a 且 b` -/
theorem case_and (t : Token) (a b : Expr) (ta tb : List Token) (ht : t.type = cTypeLogicAndW)
    (Ca : C2 v Y a ta) (Fb : Facts Y tb) (Cb : C3 v Y b tb) :
    C2 v Y (.logic (Y.sl t) cLogicAND a b) (ta ++ t :: tb) := by
  intro p1 rest r n hn1 ho hg hs hstab
  have htp : Plain t := by unfold Plain; rw [ht]; decide
  rw [List.append_assoc] at ho
  have hob : Y.InOrder (t :: (tb ++ rest)) := inOrder_drop ta ho
  have hgb : Y.Glued (t :: tb) := glued_drop ta hg
  have hsb : Stop Y F3 tb rest := stop_binop ta tb rest t Fb.ne hs
  have key : Stable v Y (.lv2Tail true a) (Send Y ta (t :: tb ++ rest)) r (max n (D 3 tb) + 1) := by
    intro n' hn
    obtain ⟨m, rfl⟩ : ∃ m, n' = m + 2 := ⟨n' - 2, by unfold D at hn; omega⟩
    rw [Send_mid ta tb rest t hg]
    show pLv2Tail (layoutOps Y) (m + 1) _ true a _ = r
    unfold pLv2Tail
    rw [bind_ok (tryConsume_hit m _ _ t (tb ++ rest) (by simp [ht]) htp.2.1 hob)]
    simp only [brk_mid Fb.ne hgb rest]
    have hb := Cb (some t) rest (inOrder_tail hob) (glued_tail hgb) hsb (m + 1) (by omega)
    rw [bind_ok hb, bind_ok (lineOf_S t _)]
    rw [Send_binop ta tb rest t Fb.ne] at hstab
    exact hstab (m + 1) (by omega)
  have hhead : Stop Y F3 ta (t :: tb ++ rest) := ⟨htp.2.1, Or.inr (by show t.type ∉ F3; rw [ht]; decide)⟩
  have := Ca p1 (t :: tb ++ rest) r _ (by omega) ho (glued_take ta hg) hhead key
  rw [List.append_assoc]
  refine this.mono ?_
  unfold D
  simp only [List.length_append, List.length_cons]
  omega

theorem addSub_not_F6 : ∀ ty ∈ addSubTypes, ty ∉ F6 := by decide
theorem mulDiv_not_F7 : ∀ ty ∈ mulDivTypes, ty ∉ F7 := by decide
theorem lv3_not_F4 : ∀ ty ∈ lv3ValidTypes, ty ∉ F4 := by decide

/-- `a + b`, `a - b` -/
theorem case_add (t : Token) (a b : Expr) (ta tb : List Token) (ht : t.type ∈ addSubTypes)
    (Ca : C5 v Y a ta) (Fb : Facts Y tb) (Cb : C6 v Y b tb) :
    C5 v Y (.arith (Y.sl t) (lookupD addSubOverride t.type addSubDefault) a b) (ta ++ t :: tb) := by
  intro p1 rest r n hn1 ho hg hs hstab
  have htp : Plain t := plain_of_mem addSub_plain ht
  rw [List.append_assoc] at ho
  have hob : Y.InOrder (t :: (tb ++ rest)) := inOrder_drop ta ho
  have hgb : Y.Glued (t :: tb) := glued_drop ta hg
  have hsb : Stop Y F6 tb rest := stop_binop ta tb rest t Fb.ne hs
  have key : Stable v Y (.arithTail a) (Send Y ta (t :: tb ++ rest)) r (max n (1 + D 6 tb) + 1) := by
    intro n' hn
    obtain ⟨m, rfl⟩ : ∃ m, n' = m + 2 := ⟨n' - 2, by unfold D at hn; omega⟩
    rw [Send_mid ta tb rest t hg]
    show pArithTail (layoutOps Y) (m + 1) _ a _ = r
    unfold pArithTail
    rw [bind_ok (tryConsume_hit m _ _ t (tb ++ rest) ht htp.2.1 hob)]
    simp only [brk_mid Fb.ne hgb rest]
    have hb := Cb (some t) rest (.ok b (Send Y tb rest)) 1 (Nat.le_refl _) (inOrder_tail hob) (glued_tail hgb)
      (hsb.mono fun _ => F76)
      (mulDivTail_now b _ rest _ (hsb.fl fun _ => not_mem_of_append_right) hsb.1) (m + 1) (by omega)
    rw [bind_ok hb, bind_ok (lineOf_S t _)]
    rw [Send_binop ta tb rest t Fb.ne] at hstab
    exact hstab (m + 1) (by omega)
  have hhead : Stop Y F6 ta (t :: tb ++ rest) := ⟨htp.2.1, Or.inr (addSub_not_F6 _ ht)⟩
  have := Ca p1 (t :: tb ++ rest) r _ (by omega) ho (glued_take ta hg) hhead key
  rw [List.append_assoc]
  refine this.mono ?_
  unfold D
  simp only [List.length_append, List.length_cons]
  omega

/-- `a * b`, `a / b`, `a | b`, `a % b` -/
theorem case_mul (t : Token) (a b : Expr) (ta tb : List Token) (ht : t.type ∈ mulDivTypes)
    (Ca : C6 v Y a ta) (Fb : Facts Y tb) (Cb : C7 v Y b tb) :
    C6 v Y (.arith (Y.sl t) (lookupD mulDivTypeMap t.type 0) a b) (ta ++ t :: tb) := by
  intro p1 rest r n hn1 ho hg hs hstab
  have htp : Plain t := plain_of_mem mulDiv_plain ht
  rw [List.append_assoc] at ho
  have hob : Y.InOrder (t :: (tb ++ rest)) := inOrder_drop ta ho
  have hgb : Y.Glued (t :: tb) := glued_drop ta hg
  have hsb : Stop Y F7 tb rest := stop_binop ta tb rest t Fb.ne hs
  have key : Stable v Y (.mulDivTail a) (Send Y ta (t :: tb ++ rest)) r (max n (D 7 tb) + 1) := by
    intro n' hn
    obtain ⟨m, rfl⟩ : ∃ m, n' = m + 2 := ⟨n' - 2, by unfold D at hn; omega⟩
    rw [Send_mid ta tb rest t hg]
    show pMulDivTail (layoutOps Y) (m + 1) _ a _ = r
    unfold pMulDivTail
    rw [bind_ok (tryConsume_hit m _ _ t (tb ++ rest) ht htp.2.1 hob)]
    simp only [brk_mid Fb.ne hgb rest]
    have hb := Cb (some t) rest (inOrder_tail hob) (glued_tail hgb) hsb (m + 1) (by omega)
    rw [bind_ok hb, bind_ok (lineOf_S t _)]
    rw [Send_binop ta tb rest t Fb.ne] at hstab
    exact hstab (m + 1) (by omega)
  have hhead : Stop Y F7 ta (t :: tb ++ rest) := ⟨htp.2.1, Or.inr (mulDiv_not_F7 _ ht)⟩
  have := Ca p1 (t :: tb ++ rest) r _ (by omega) ho (glued_take ta hg) hhead key
  rw [List.append_assoc]
  refine this.mono ?_
  unfold D
  simp only [List.length_append, List.length_cons]
  omega

/-- `a < b` and the other comparisons: exactly one -/
theorem case_cmp (t : Token) (a b : Expr) (ta tb : List Token) (ht : t.type ∈ lv3ValidTypes)
    (Ca : C4 v Y a ta) (Fb : Facts Y tb) (Cb : C4 v Y b tb) :
    C3 v Y (.logic (Y.sl t) (lookupD logicTypeMap t.type 0) a b) (ta ++ t :: tb) := by
  intro p1 rest ho hg hs n' hn
  have htp : Plain t := plain_of_mem lv3_plain ht
  rw [List.append_assoc] at ho
  have hob : Y.InOrder (t :: (tb ++ rest)) := inOrder_drop ta ho
  have hgb : Y.Glued (t :: tb) := glued_drop ta hg
  have hsb : Stop Y F3 tb rest := stop_binop ta tb rest t Fb.ne hs
  obtain ⟨m, rfl⟩ : ∃ m, n' = m + 2 := ⟨n' - 2, by unfold D at hn; omega⟩
  have hlen : D 3 (ta ++ t :: tb) = 16 * (ta.length + (tb.length + 1)) + 10 := by
    unfold D; simp only [List.length_append, List.length_cons]
  rw [hlen] at hn
  show pLv3 (layoutOps Y) (m + 1) _ true _ = _
  unfold pLv3
  rw [List.append_assoc]
  have hhead : Stop Y F4 ta (t :: tb ++ rest) := ⟨htp.2.1, Or.inr (lv3_not_F4 _ ht)⟩
  have ha := Ca p1 (t :: tb ++ rest) ho (glued_take ta hg) hhead (m + 1) (by unfold D; omega)
  rw [bind_ok ha, Send_mid ta tb rest t hg]
  rw [bind_ok (tryConsume_hit m _ _ t (tb ++ rest) ht htp.2.1 hob)]
  simp only [brk_mid Fb.ne hgb rest]
  have hb := Cb (some t) rest (inOrder_tail hob) (glued_tail hgb) (hsb.mono fun _ => F43) (m + 1) (by unfold D; omega)
  rw [bind_ok hb, bind_ok (lineOf_S t _), Send_binop ta tb rest t Fb.ne]
  rfl

-- ---- a tighter expression where a looser one is expected ---------------------------------------------------------------

theorem up6 (e : Expr) (ts : List Token) (h : C7 v Y e ts) : C6 v Y e ts := by
  intro p1 rest r n hn1 ho hg hs hstab n' hn
  obtain ⟨m, rfl⟩ : ∃ m, n' = m + 1 := ⟨n' - 1, by unfold D at hn; omega⟩
  show pMulDiv _ _ = r
  unfold pMulDiv
  rw [bind_ok (h p1 rest ho hg hs m (by unfold D at hn ⊢; omega))]
  exact hstab m (by unfold D at hn; omega)

theorem up5 (e : Expr) (ts : List Token) (h : C6 v Y e ts) : C5 v Y e ts := by
  intro p1 rest r n hn1 ho hg hs hstab n' hn
  obtain ⟨m, rfl⟩ : ∃ m, n' = m + 1 := ⟨n' - 1, by unfold D at hn; omega⟩
  show pArith _ _ = r
  unfold pArith
  rw [bind_ok (h p1 rest (.ok e (Send Y ts rest)) 1 (Nat.le_refl _) ho hg (hs.mono fun _ => F76)
    (mulDivTail_now e _ rest _ (hs.fl fun _ => not_mem_of_append_right) hs.1) m (by unfold D at hn ⊢; omega))]
  exact hstab m (by unfold D at hn; omega)

theorem up4 (e : Expr) (ts : List Token) (h : C5 v Y e ts) : C4 v Y e ts := by
  intro p1 rest ho hg hs n' hn
  obtain ⟨m, rfl⟩ : ∃ m, n' = m + 1 := ⟨n' - 1, by unfold D at hn; omega⟩
  have hs5 : Stop Y F5 ts rest := hs.mono fun _ => F54
  show pLv4 v (layoutOps Y) m _ true _ = _
  unfold pLv4
  rw [bind_ok (h p1 rest (.ok e (Send Y ts rest)) 1 (Nat.le_refl _) ho hg (hs5.mono fun _ => F65)
    (arithTail_now e _ rest _ (hs5.fl fun _ => not_mem_of_append_right) hs.1) m (by unfold D at hn ⊢; omega))]
  simp only [if_true]
  unfold Send
  rw [bind_ok (tryConsume_miss m _ _ rest _ (hs.fl fun _ => not_mem_of_append_right) hs.1)]
  rfl

theorem up3 (e : Expr) (ts : List Token) (h : C4 v Y e ts) : C3 v Y e ts := by
  intro p1 rest ho hg hs n' hn
  obtain ⟨m, rfl⟩ : ∃ m, n' = m + 1 := ⟨n' - 1, by unfold D at hn; omega⟩
  show pLv3 (layoutOps Y) m _ true _ = _
  unfold pLv3
  rw [bind_ok (h p1 rest ho hg (hs.mono fun _ => F43) m (by unfold D at hn ⊢; omega))]
  unfold Send
  rw [bind_ok (tryConsume_miss m _ _ rest _ (hs.fl fun _ => not_mem_of_append_right) hs.1)]
  rfl

theorem up2 (e : Expr) (ts : List Token) (h : C3 v Y e ts) : C2 v Y e ts := by
  intro p1 rest r n hn1 ho hg hs hstab n' hn
  obtain ⟨m, rfl⟩ : ∃ m, n' = m + 1 := ⟨n' - 1, by unfold D at hn; omega⟩
  show pLv2 _ true _ = r
  unfold pLv2
  rw [bind_ok (h p1 rest ho hg hs m (by unfold D at hn ⊢; omega))]
  exact hstab m (by unfold D at hn; omega)

theorem up1 (e : Expr) (ts : List Token) (h : C2 v Y e ts) : C1 v Y e ts := by
  intro p1 rest r n hn1 ho hg hs hstab n' hn
  obtain ⟨m, rfl⟩ : ∃ m, n' = m + 1 := ⟨n' - 1, by unfold D at hn; omega⟩
  show pLv1 _ true _ = r
  unfold pLv1
  rw [bind_ok (h p1 rest (.ok e (Send Y ts rest)) 1 (Nat.le_refl _) ho hg (hs.mono fun _ => F32)
    (lv2Tail_now e _ rest _ (hs.fl fun _ => not_mem_of_append_right) hs.1) m (by unfold D at hn ⊢; omega))]
  exact hstab m (by unfold D at hn; omega)

-- ---- level 7: identifiers, strings, braces -----------------------------------------------------------------------------

theorem Send_single (t : Token) (rest : List Token) : Send Y [t] rest = S Y (some t) rest (Y.brk t (Y.peek rest)) := rfl

theorem basic_id (m : Nat) (p1 : Option Token) (t : Token) (rest : List Token) (ht : t.type = cTypeIdentifier)
    (ho : Y.InOrder (t :: rest)) :
    parse v (layoutOps Y) (m + 2) .basic (S Y p1 (t :: rest) false) =
      .ok (.id (Y.idOf t)) (Send Y [t] rest) := by
  have htp : Plain t := by unfold Plain; rw [ht]; decide
  show pBasic v (layoutOps Y) (m + 1) _ _ = _
  unfold pBasic
  rw [bind_ok (tryConsume_hit m _ p1 t rest (by rw [ht]; decide) htp.2.1 ho)]
  simp only [ht, if_true]
  rfl

theorem basic_str (m : Nat) (p1 : Option Token) (t : Token) (rest : List Token) (ht : t.type = cTypeString)
    (ho : Y.InOrder (t :: rest)) :
    parse v (layoutOps Y) (m + 2) .basic (S Y p1 (t :: rest) false) =
      .ok (.str (Y.sl t) (runesToString t.literal)) (Send Y [t] rest) := by
  have htp : Plain t := by unfold Plain; rw [ht]; decide
  show pBasic v (layoutOps Y) (m + 1) _ _ = _
  unfold pBasic
  rw [bind_ok (tryConsume_hit m _ p1 t rest (by rw [ht]; decide) htp.2.1 ho)]
  have h1 : ¬ cTypeString = cTypeIdentifier := by decide
  simp only [ht, h1, if_true, if_false]
  rfl

/-- an expression whose first token can start a basic expression: ParseMemberExpr = ParseBasicExpr, then the member tail -/
theorem member_of_basic (m : Nat) (p1 : Option Token) (ts rest : List Token) (e : Expr) (hne : ts ≠ [])
    (hfirst : (Y.peek ts).type ∈ [cTypeIdentifier, cTypeString, cTypeStmtQuoteL])
    (hs : Stop Y F7 ts rest)
    (hb : parse v (layoutOps Y) (m + 1) .basic (S Y p1 (ts ++ rest) false) = .ok e (Send Y ts rest)) :
    parse v (layoutOps Y) (m + 2) .member (S Y p1 (ts ++ rest) false) = .ok e (Send Y ts rest) := by
  show pMember v (layoutOps Y) (m + 1) _ _ = _
  unfold pMember
  have hp : (Y.peek (ts ++ rest)).type ∈ [cTypeIdentifier, cTypeString, cTypeStmtQuoteL] := by
    rw [peek_append hne]; exact hfirst
  have h1 : (Y.peek (ts ++ rest)).type ∉ [cTypeObjThisW] := by
    intro h
    simp only [List.mem_cons, List.not_mem_nil, or_false] at h hp
    rw [h] at hp
    revert hp; decide
  have h2 : (Y.peek (ts ++ rest)).type ≠ cTypeCommaSep := by
    intro h
    simp only [List.mem_cons, List.not_mem_nil, or_false] at hp
    rw [h] at hp
    revert hp; decide
  rw [bind_ok (tryConsume_miss (m + 1) _ p1 (ts ++ rest) false (Or.inr h1) h2)]
  show (parse v (layoutOps Y) (m + 1) .basic >>= fun e => parse v (layoutOps Y) (m + 1) (.memberTail e)) _ = _
  rw [bind_ok hb]
  exact memberTail_now e _ rest _ (hs.fl fun _ => F7_member) hs.1 (m + 1) (by omega)

theorem case_id (t : Token) (ht : t.type = cTypeIdentifier) : C7 v Y (.id (Y.idOf t)) [t] := by
  intro p1 rest ho hg hs n' hn
  obtain ⟨m, rfl⟩ : ∃ m, n' = m + 3 := ⟨n' - 3, by unfold D at hn; simp at hn; omega⟩
  exact member_of_basic (m + 1) p1 [t] rest _ (by simp) (by simp [Layout.peek, ht]) hs
    (basic_id m p1 t rest ht ho)

theorem case_str (t : Token) (ht : t.type = cTypeString) : C7 v Y (.str (Y.sl t) (runesToString t.literal)) [t] := by
  intro p1 rest ho hg hs n' hn
  obtain ⟨m, rfl⟩ : ∃ m, n' = m + 3 := ⟨n' - 3, by unfold D at hn; simp at hn; omega⟩
  exact member_of_basic (m + 1) p1 [t] rest _ (by simp) (by simp [Layout.peek, ht]) hs
    (basic_str m p1 t rest ht ho)

theorem getLast?_brace (l r : Token) (ts : List Token) : (l :: ts ++ [r]).getLast? = some r := by
  have : l :: ts ++ [r] = (l :: ts) ++ [r] := rfl
  rw [this, List.getLast?_append]
  rfl

/-- `{ e }` -/
theorem case_brace (l r : Token) (e : Expr) (ts : List Token) (hl : l.type = cTypeStmtQuoteL) (hr : r.type = cTypeStmtQuoteR)
    (Fe : Facts Y ts) (Ce : C1 v Y e ts) : C7 v Y (e.setLine (Y.sl l)) (l :: ts ++ [r]) := by
  intro p1 rest ho hg hs n' hn
  have hlen : D 7 (l :: ts ++ [r]) = 16 * (ts.length + 2) + 2 := by
    unfold D; simp only [List.length_append, List.length_cons, List.length_nil]
  rw [hlen] at hn
  obtain ⟨m, rfl⟩ : ∃ m, n' = m + 3 := ⟨n' - 3, by omega⟩
  have hlp : Plain l := by unfold Plain; rw [hl]; decide
  have hrp : Plain r := by unfold Plain; rw [hr]; decide
  refine member_of_basic (m + 1) p1 (l :: ts ++ [r]) rest _ (by simp) (by simp [Layout.peek, hl]) hs ?_
  have hshape : (l :: ts ++ [r]) ++ rest = l :: (ts ++ r :: rest) := by simp
  rw [hshape] at ho ⊢
  have hgl : Y.Glued (l :: ts) := glued_take (l :: ts) (b := [r]) hg
  have hgr : Y.Glued (ts ++ r :: []) := glued_tail (t := l) hg
  have hoi : Y.InOrder (ts ++ r :: rest) := inOrder_tail ho
  have hor : Y.InOrder (r :: rest) := inOrder_drop ts hoi
  show pBasic v (layoutOps Y) (m + 1) _ _ = _
  unfold pBasic
  rw [bind_ok (tryConsume_hit m _ p1 l (ts ++ r :: rest) (by rw [hl]; decide) hlp.2.1 ho), brk_mid Fe.ne hgl]
  have h1 : ¬ cTypeStmtQuoteL = cTypeIdentifier := by decide
  have h2 : ¬ cTypeStmtQuoteL = cTypeString := by decide
  have h3 : ¬ cTypeStmtQuoteL = cTypeArrayQuoteL := by decide
  simp only [hl, h1, h2, h3, if_true, if_false]
  -- the inner expression, then the closing brace
  have hin := Ce (some l) (r :: rest) (.ok e (Send Y ts (r :: rest))) 1 (Nat.le_refl _) hoi (glued_tail hgl)
    ⟨hrp.2.1, Or.inr (by show r.type ∉ F2; rw [hr]; decide)⟩
    (lv1Tail_now e _ (r :: rest) _ (Or.inr (by show r.type ∉ [cTypeLogicOrW]; rw [hr]; decide)) hrp.2.1)
    (m + 1) (by unfold D; omega)
  have hsend : Send Y ts (r :: rest) = S Y ts.getLast? (r :: rest) false := by
    show S Y ts.getLast? (r :: rest) (Y.jf ts.getLast? r) = _
    rw [glued_joint ts hgr]
  rw [hsend] at hin
  have hcons := consume_hit (Y := Y) (v := v) m [cTypeStmtQuoteR] ts.getLast? r rest (by simp [hr]) hrp.2.1 hor
  have hfin : Send Y (l :: ts ++ [r]) rest = S Y (some r) rest (Y.brk r (Y.peek rest)) := by
    unfold Send
    rw [getLast?_brace]
    rfl
  rw [hfin]
  simp only [Bind.bind, PM.bind, hin, hcons, lineOf_S, Pure.pure, PM.pure]

theorem facts_brace (l r : Token) (ts : List Token) (hl : l.type = cTypeStmtQuoteL) (hr : r.type = cTypeStmtQuoteR)
    (Fe : Facts Y ts) : Facts Y (l :: ts ++ [r]) where
  ne := by simp
  plain := by
    intro x hx
    simp only [List.cons_append, List.mem_cons, List.mem_append, List.not_mem_nil, or_false] at hx
    rcases hx with rfl | hx | rfl
    · unfold Plain; rw [hl]; decide
    · exact Fe.plain x hx
    · unfold Plain; rw [hr]; decide
  first := by simp [Layout.peek, hl]

theorem facts_single (t : Token) (hp : Plain t) (hf : t.type ∈ [cTypeIdentifier, cTypeString, cTypeStmtQuoteL]) : Facts Y [t] where
  ne := by simp
  plain := by
    intro x hx
    simp only [List.mem_cons, List.not_mem_nil, or_false] at hx
    subst hx
    exact hp
  first := hf

/-- the claim of its level holds for every linearisation -/
theorem linE_claim {k : Nat} {e : Expr} {ts : List Token} (h : LinE Y k e ts) : Facts Y ts ∧ Claim v Y k e ts := by
  induction h with
  | id t ht =>
    exact ⟨facts_single t (by unfold Plain; rw [ht]; decide) (by rw [ht]; decide), case_id t ht⟩
  | str t ht =>
    exact ⟨facts_single t (by unfold Plain; rw [ht]; decide) (by rw [ht]; decide), case_str t ht⟩
  | brace l r e ts hl hr _ ih => exact ⟨facts_brace l r ts hl hr ih.1, case_brace l r e ts hl hr ih.1 ih.2⟩
  | up k e ts hk _ ih =>
    refine ⟨ih.1, ?_⟩
    match k, hk, ih.2 with
    | 1, _, c => exact up1 e ts c
    | 2, _, c => exact up2 e ts c
    | 3, _, c => exact up3 e ts c
    | 4, _, c => exact up4 e ts c
    | 5, _, c => exact up5 e ts c
    | 6, _, c => exact up6 e ts c
    | (n + 7), _, c => exact c.elim
  | or t a b ta tb ht _ _ iha ihb =>
    exact ⟨facts_binop iha.1 ihb.1 (by unfold Plain; rw [ht]; decide), case_or t a b ta tb ht iha.2 ihb.1 ihb.2⟩
  | and t a b ta tb ht _ _ iha ihb =>
    exact ⟨facts_binop iha.1 ihb.1 (by unfold Plain; rw [ht]; decide), case_and t a b ta tb ht iha.2 ihb.1 ihb.2⟩
  | cmp t a b ta tb ht _ _ iha ihb =>
    exact ⟨facts_binop iha.1 ihb.1 (plain_of_mem lv3_plain ht), case_cmp t a b ta tb ht iha.2 ihb.1 ihb.2⟩
  | add t a b ta tb ht _ _ iha ihb =>
    exact ⟨facts_binop iha.1 ihb.1 (plain_of_mem addSub_plain ht), case_add t a b ta tb ht iha.2 ihb.1 ihb.2⟩
  | mul t a b ta tb ht _ _ iha ihb =>
    exact ⟨facts_binop iha.1 ihb.1 (plain_of_mem mulDiv_plain ht), case_mul t a b ta tb ht iha.2 ihb.1 ihb.2⟩

-- ---- the interface -----------------------------------------------------------------------------------------------------

theorem linE_facts {k : Nat} {e : Expr} {ts : List Token} (h : LinE Y k e ts) :
    ts ≠ [] ∧ (∀ t ∈ ts, Plain t) ∧ (Y.peek ts).type ∈ [cTypeIdentifier, cTypeString, cTypeStmtQuoteL] :=
  let F := (linE_claim (v := Variant.fixed) h).1
  ⟨F.ne, F.plain, F.first⟩

/-- the round trip of an expression inside a longer token list -/
theorem expr_roundtrip {e : Expr} {ts : List Token} (h : LinE Y 1 e ts) (hg : Y.Glued ts) (p1 : Option Token) (rest : List Token)
    (ho : Y.InOrder (ts ++ rest)) (hs : Stop Y F1 ts rest) :
    Stable v Y (.expr true) (S Y p1 (ts ++ rest) false) (.ok e (Send Y ts rest)) (16 * ts.length + 16) := by
  have C : C1 v Y e ts := (linE_claim h).2
  have := C p1 rest (.ok e (Send Y ts rest)) 1 (Nat.le_refl _) ho hg (hs.mono fun _ => F21)
    (lv1Tail_now e _ rest _ (hs.fl fun _ => not_mem_of_append_right) hs.1)
  refine this.mono ?_
  unfold D
  omega

end ZnVerif.Proofs.StmtRT
