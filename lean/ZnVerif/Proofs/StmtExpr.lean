/-
Token-level round trip with layout, part 2: expressions — the induction over the rendering relation `LinX`, and the interface the
statement proofs use.

The cases are in Proofs/StmtExprBase.lean (operators, assignment, the trailing comma), StmtExprMember.lean (leaves, `{ e }`, `其 p`,
member chains), StmtExprCall.lean (calls, 新建, method-call chains, 得到) and StmtExprArr.lean (list and dictionary literals).
-/
import ZnVerif.Proofs.StmtExprCall
import ZnVerif.Proofs.StmtExprArr

namespace ZnVerif.Proofs.StmtRT
open ZnVerif.Model ZnVerif.Model.Parser ZnVerif.Generated.Tokens ZnVerif.Generated.ParserTables
open ZnVerif.Spec.StmtSyntax

variable {Y : Layout} {v : Variant}

/-- what the induction over `LinX` carries -/
def NodeClaimX (v : Variant) (Y : Layout) (cfg : Bool) (k : Nat) : ENode → List Token → Prop
  | .expr e, ts => Facts Y ts ∧ Claim v Y cfg k e ts
  | .args es, ts => Facts Y ts ∧ CArgs v Y es ts
  | .fcall n ps, ts => (ts ≠ [] ∧ (Y.peek ts).type = cTypeIdentifier) ∧ CFcallT v Y n ps ts
  | .chain cs, ts => CChain v Y cs ts
  | .items es, ts => (ts ≠ [] → Facts Y ts) ∧ CItems v Y es ts
  | .kvs kvs, ts => (ts ≠ [] → Facts Y ts) ∧ CKvs v Y kvs ts

/-- the claim of its kind and level holds for every rendering -/
theorem linX_claim {cfg : Bool} {k : Nat} {nd : ENode} {ts : List Token} (h : LinX Y cfg k nd ts) :
    NodeClaimX v Y cfg k nd ts := by
  induction h with
  | id t ht => exact ⟨facts_cons (by rw [ht]; decide), case_id t ht⟩
  | str t ht => exact ⟨facts_cons (by rw [ht]; decide), case_str t ht⟩
  | brace l r e ts hl hr _ ih => exact ⟨facts_cons (by rw [hl]; decide), case_brace l r e ts hl hr ih.1 ih.2⟩
  | @up cfg k e ts hk _ ih =>
    refine ⟨ih.1, ?_⟩
    match k, hk, ih.2 with
    | 1, _, c => exact up1 cfg e ts c
    | 2, _, c => exact up2 cfg e ts c
    | 3, _, c => exact up3 cfg e ts c
    | 4, _, c => exact up4 cfg e ts c
    | 5, _, c => exact up5 e ts c
    | 6, _, c => exact up6 e ts c
    | (n + 7), _, c => exact c.elim
  | @or cfg t a b ta tb ht _ _ iha ihb => exact ⟨facts_append iha.1, case_or cfg t a b ta tb ht iha.2 ihb.1 ihb.2⟩
  | @and cfg t a b ta tb ht _ _ iha ihb => exact ⟨facts_append iha.1, case_and cfg t a b ta tb ht iha.2 ihb.1 ihb.2⟩
  | @cmp cfg t a b ta tb ht _ _ iha ihb => exact ⟨facts_append iha.1, case_cmp cfg t a b ta tb ht iha.2 ihb.1 ihb.2⟩
  | add t a b ta tb ht _ _ iha ihb => exact ⟨facts_append iha.1, case_add t a b ta tb ht iha.2 ihb.1 ihb.2⟩
  | mul t a b ta tb ht _ _ iha ihb => exact ⟨facts_append iha.1, case_mul t a b ta tb ht iha.2 ihb.1 ihb.2⟩
  | @assign cfg t a b ta tb ht hassn _ _ iha ihb =>
    exact ⟨facts_append iha.1, case_assign cfg t a b ta tb ht hassn iha.2 ihb.1 ihb.2⟩
  | commaAfter c e ts hc _ ih => exact ⟨facts_append ih.1, comma6 c e ts hc ih.2⟩
  | this kw p hk hp => exact ⟨facts_cons (by rw [hk]; decide), case_this kw p hk hp⟩
  | dot d p r tr hd hp _ ih => exact ⟨facts_append ih.1, case_dot d p r tr hd hp ih.2⟩
  | idxId h i r tr hh hi _ ih => exact ⟨facts_append ih.1, case_idxTok h i r tr _ hh (Or.inl ⟨hi, rfl⟩) ih.2⟩
  | idxStr h i r tr hh hi _ ih => exact ⟨facts_append ih.1, case_idxTok h i r tr _ hh (Or.inr ⟨hi, rfl⟩) ih.2⟩
  | idxExpr h l rb r tr e te hh hl hr _ _ ihr ihe =>
    refine ⟨?_, case_idxExpr h l rb r tr e te hh hl hr ihr.2 ihe.1 ihe.2⟩
    have : tr ++ h :: l :: te ++ [rb] = tr ++ (h :: l :: te ++ [rb]) := by simp
    rw [this]; exact facts_append ihr.1
  | call l n ps tc yl hl _ hy ih => exact ⟨facts_cons (by rw [hl]; decide), case_call hl ih.1.1 ih.1.2 ih.2 hy⟩
  | new l nw n ps tc hl hnw _ ih => exact ⟨facts_cons (by rw [hl]; decide), case_new hl hnw ih.1.1 ih.1.2 ih.2.loose⟩
  | mcall kw l root tr n ps tc cs tcs yl hk _ hl _ _ hy ihr ihf ihc =>
    exact ⟨facts_cons (by rw [hk]; decide), case_mcall hk ihr.1 ihr.2 hl ihf.1.1 ihf.1.2 ihf.2.loose ihc hy⟩
  | arrEmpty l r hl hr => exact ⟨facts_cons (by rw [hl]; decide), case_arrEmpty l r hl hr⟩
  | hmEmpty l eq r hl heq hr => exact ⟨facts_cons (by rw [hl]; decide), case_hmEmpty l eq r hl heq hr⟩
  | arr l r e1 t1 es ts hl hr _ hit ih1 ihs =>
    exact ⟨facts_cons (by rw [hl]; decide), case_arr l r e1 t1 es ts hl hr ih1.1 ih1.2 ihs.1 (linX_items_nil hit) ihs.2⟩
  | hm l eq r k tk vl tv kvs ts hl heq hr _ _ _ ihk ihv ihs =>
    exact ⟨facts_cons (by rw [hl]; decide), case_hm l eq r k tk vl tv kvs ts hl heq hr ihk.1 ihk.2 ihv.1 ihv.2 ihs.1 ihs.2⟩
  | argsOne e te _ ih => exact ⟨ih.1, args_one ih.1 ih.2⟩
  | argsCons p e te es ts _ hopen hp _ ihe ihs => exact ⟨facts_append ihe.1, args_cons ihe.1 ihe.2 hopen hp ihs.1 ihs.2⟩
  | fcall0 f rp hf hr => exact ⟨⟨by simp, hf⟩, fcall_zero_t hf hr⟩
  | fcallArgs f colon rp es ta hf hc hr _ ih => exact ⟨⟨by simp, hf⟩, fcall_args_t hf hc hr ih.1 ih.2⟩
  | chainNil => exact chain_nil
  | chainCons p l n ps tc cs tcs hp hl _ _ ihf ihc => exact chain_cons hp hl ihf.1.1 ihf.1.2 ihf.2.loose ihc
  | itemsNil => exact ⟨fun h => absurd rfl h, items_nil⟩
  | itemsCons e te es ts _ hit ihe ihs =>
    exact ⟨fun _ => facts_append ihe.1, items_cons ihe.1 ihe.2 ihs.1 (linX_items_nil hit) ihs.2⟩
  | kvsNil => exact ⟨fun h => absurd rfl h, kvs_nil⟩
  | kvsCons eq k tk vl tv kvs ts heq _ _ _ ihk ihv ihs =>
    refine ⟨fun _ => ?_, kvs_cons heq ihk.1 ihk.2 ihv.1 ihv.2 ihs.1 ihs.2⟩
    have : tk ++ eq :: tv ++ ts = tk ++ (eq :: tv ++ ts) := by simp
    rw [this]; exact facts_append ihk.1

-- ---- the interface -----------------------------------------------------------------------------------------------------

theorem linE_facts {k : Nat} {e : Expr} {ts : List Token} (h : LinE Y k e ts) :
    ts ≠ [] ∧ (Y.peek ts).type ∈ exprHeads :=
  let F := (linX_claim (v := Variant.fixed) h).1
  ⟨F.ne, F.first⟩

/-- the round trip of an expression inside a longer token list; the follow set takes the right edge of `e` into account -/
theorem expr_roundtrip_open {e : Expr} {ts : List Token} (h : LinE Y 1 e ts) (hg : Y.Glued ts) (p1 : Option Token)
    (rest : List Token) (ho : Y.InOrder (ts ++ rest)) (hs : Stop Y (B1 true ++ FO e) ts rest) :
    Stable v Y (.expr true) (S Y p1 (ts ++ rest) false) (.ok e (Send Y ts rest)) (16 * ts.length + 16) :=
  c1_done (linX_claim h).2 p1 rest ho hg hs

theorem F1_open (e : Expr) : ∀ ty, ty ∉ F1 → ty ∉ B1 true ++ FO e := by
  intro ty h hm
  rcases List.mem_append.mp hm with hm | hm
  · exact h (List.mem_append_left _ hm)
  · exact h (List.mem_append_right _ (by rw [FO_sub e ty hm]; simp))

/-- the round trip of an expression inside a longer token list -/
theorem expr_roundtrip {e : Expr} {ts : List Token} (h : LinE Y 1 e ts) (hg : Y.Glued ts) (p1 : Option Token) (rest : List Token)
    (ho : Y.InOrder (ts ++ rest)) (hs : Stop Y F1 ts rest) :
    Stable v Y (.expr true) (S Y p1 (ts ++ rest) false) (.ok e (Send Y ts rest)) (16 * ts.length + 16) :=
  expr_roundtrip_open h hg p1 rest ho (hs.mono (F1_open e))

theorem fcall_claim {n : Ident} {ps : List Expr} {tc : List Token} (h : LinX Y true 0 (.fcall n ps) tc) :
    (tc ≠ [] ∧ (Y.peek tc).type = cTypeIdentifier) ∧ CFcall v Y n ps tc :=
  ⟨(linX_claim (v := v) h).1, (linX_claim h).2.loose⟩

theorem chain_claim {cs : List Expr} {tcs : List Token} (h : LinX Y true 0 (.chain cs) tcs) : CChain v Y cs tcs := linX_claim h

end ZnVerif.Proofs.StmtRT
