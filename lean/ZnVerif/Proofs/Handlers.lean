/-
`evalExecBlock` and `handleException` of the evaluator model cut into named pieces (each proved equal to the model
text by unfolding), and what `unwindTo` / `pushFrame` / `popFrame` do to the call stack.
-/
import ZnVerif.Proofs.Calls
set_option linter.unusedSectionVars false
set_option linter.unusedSimpArgs false
set_option linter.unusedVariables false

namespace ZnVerif.Proofs.Calls
open ZnVerif.Model

variable {ν : Type} [NumOps ν]

/-! ## pieces of `evalExecBlock` -/

/-- `vm.DeclareConstElement(此, thisValue)` for method frames; its error is ignored -/
def bindThis (vm : VM ν) : M ν Unit :=
  match vm.stack.head? with
  | some fr =>
    if fr.callType == 2 then
      match fr.this with
      | some t => Model.tryCatch (declareElement "此" t true) fun _ => pure ()
      | none => pure ()
    else pure ()
  | none => pure ()

/-- declare the inputs, in order, as constants -/
def bindInputs (inputs : List Ident) (params : List Addr) : M ν Unit :=
  (inputs.zip params).forM fun p => do
    let name ← matchIDName p.1.lit
    declareElement name p.2 true

/-- what happens with the outcome of the statements of the body -/
def finishBlock (n : Nat) (blockModule : Int) (blockDepth : Nat)
    (catches : List (Option Ident × Option (List Stmt))) (r : Res (Option Addr)) : M ν Addr :=
  match r with
  | .ok (some v) => pure v
  | .ok none => newNull
  | .err e => do
    let e ← loopSignalToException e
    Model.tryCatch (handleException n blockModule blockDepth catches e) fun r =>
      match r with
      | .err e2 => do let e2 ← loopSignalToException e2; throwE e2
      | r => liftRes r
  | .panic => goPanic
  | .fuel => outOfFuel
  | .unmodelled => notModelled

theorem seg_congr {α β γ : Type} (P : M ν Unit) (X : M ν γ) (m : M ν α) (k1 k2 : Res α → M ν β)
    (h : ∀ r, k1 r = k2 r) (s : VM ν) :
    (P >>= fun _ => X >>= fun _ => Model.tryCatch m k1) s = (P >>= fun _ => X >>= fun _ => Model.tryCatch m k2) s := by
  have : k1 = k2 := funext h
  rw [this]

/-- the part of `evalExecBlock` inside the scope bracket; `blockModule` / `blockDepth` are read from the state at entry -/
def execBlockBody (n : Nat) (inputs : List Ident) (body : Option (List Stmt))
    (catches : List (Option Ident × Option (List Stmt))) (params : List Addr) : M ν Addr := fun s =>
  (do
    bindThis s
    if params.length ≠ inputs.length then rtErr 51 else
    bindInputs inputs params
    Model.tryCatch (evalStmtBlock n body) (finishBlock n s.csModuleID s.stack.length catches)) s

theorem evalExecBlock_eq (n : Nat) (inputs : List Ident) (body : Option (List Stmt))
    (catches : List (Option Ident × Option (List Stmt))) (params : List Addr) :
    evalExecBlock (ν := ν) (n+1) (some (.mk inputs body catches)) params =
      withScope (execBlockBody n inputs body catches params) := by
  simp only [evalExecBlock]
  congr 1
  funext s
  unfold execBlockBody bindThis
  rw [bind_ok (rfl : getVM s = (.ok s, s))]
  have hfin : ∀ (k : Res (Option Addr) → M ν Addr), (∀ r, k r = finishBlock n s.csModuleID s.stack.length catches r) →
      ∀ (P : M ν Unit) (t : VM ν),
      (P >>= fun _ => bindInputs inputs params >>= fun _ => Model.tryCatch (evalStmtBlock n body) k) t =
      (P >>= fun _ => bindInputs inputs params >>= fun _ =>
        Model.tryCatch (evalStmtBlock n body) (finishBlock n s.csModuleID s.stack.length catches)) t :=
    fun k hk P t => seg_congr P _ _ _ _ hk t
  by_cases hc : params.length ≠ inputs.length
  · simp only [if_pos hc]
    cases s.stack.head? with
    | none => rfl
    | some fr =>
      simp only
      by_cases hct : (fr.callType == 2) = true
      · simp only [hct, if_true]
        cases fr.this <;> rfl
      · simp only [hct, if_false]
        rfl
  · simp only [if_neg hc]
    cases s.stack.head? with
    | none => exact hfin _ (by intro r; cases r <;> (try rfl) <;> (rename_i x; cases x <;> rfl)) (pure ()) s
    | some fr =>
      simp only
      by_cases hct : (fr.callType == 2) = true
      · simp only [hct, if_true]
        cases fr.this with
        | none => exact hfin _ (by intro r; cases r <;> (try rfl) <;> (rename_i x; cases x <;> rfl)) (pure ()) s
        | some t => exact hfin _ (by intro r; cases r <;> (try rfl) <;> (rename_i x; cases x <;> rfl)) _ s
      · simp only [hct, if_false]
        exact hfin _ (by intro r; cases r <;> (try rfl) <;> (rename_i x; cases x <;> rfl)) (pure ()) s

/-! ## pieces of `handleException` -/

/-- which errors are exceptions for a handler: thrown signals, exceptions that crossed a method boundary, runtime faults -/
def excOf (e : Err) : M ν (Option Addr) :=
  match e with
  | .sigExc a => pure (some a)
  | .excErr a => pure (some a)
  | .rt code => do let a ← alloc (.exc ("‹rt:" ++ toString code ++ "›")); pure (some a)
  | _ => pure none

/-- class name of the exception value (`""` for a value that is neither an exception nor an object) -/
def classNameOf (ex : Addr) : M ν String := do
  match ← getCell ex with
  | .exc _ => pure exceptionClassName
  | .obj c _ => do match ← getCell c with | .cls name _ _ _ => pure name | _ => goPanic
  | _ => pure ""

theorem classNameOf_bind {β : Type} (ex : Addr) (k : String → M ν β) :
    (classNameOf ex >>= k) = (getCell ex >>= fun (c : Cell ν) =>
      match c with
      | .exc _ => k exceptionClassName
      | .obj c _ => getCell c >>= fun (cc : Cell ν) =>
        match cc with
        | .cls name _ _ _ => k name
        | _ => goPanic
      | _ => k "") := by
  funext s
  unfold classNameOf
  simp only [M_bind_def]
  rcases hg : getCell ex s with ⟨r, s1⟩
  cases r <;> simp only <;> try rfl
  rename_i c
  cases c <;> simp only <;> try rfl
  rename_i c props
  simp only [M_bind_def]
  rcases hg2 : getCell c s1 with ⟨r2, s2⟩
  cases r2 <;> simp only <;> try rfl
  rename_i c2
  cases c2 <;> rfl

/-- run one handler block: unwind to the protected block's frame depth, push the exception frame, run, pop -/
def runHandler (n : Nat) (blockModule : Int) (blockDepth : Nat) (ex : Addr) (blk : Option (List Stmt)) :
    M ν (Option Addr) := do
  unwindTo blockDepth
  if blockModule < 0 then goPanic else
  pushFrame { moduleId := blockModule, callType := 3, this := some ex }
  let _ ← evalPureStmtBlock n blk
  let rv ← getReturnValue
  popFrame
  match rv with
  | some v => pure (some v)
  | none => do let nl ← newNull; pure (some nl)

def tryHandler (n : Nat) (blockModule : Int) (blockDepth : Nat) (ex : Addr) (clsName : String)
    (c : Option Ident × Option (List Stmt)) : M ν (Option Addr) := do
  let cname ← matchIDNameOpt c.1
  if clsName ≠ "" && cname == clsName then runHandler n blockModule blockDepth ex c.2 else pure none

theorem handleException_eq (n : Nat) (bm : Int) (bd : Nat) (catches : List (Option Ident × Option (List Stmt)))
    (e : Err) :
    handleException (ν := ν) (n+1) bm bd catches e = (do
      let exc? ← excOf e
      match exc? with
      | none => throwE e
      | some ex => do
        let clsName ← classNameOf ex
        firstM (tryHandler n bm bd ex clsName) (throwE e) catches) := by
  simp only [handleException]
  funext s
  cases e with
  | sigExc a =>
    show _ = (classNameOf a >>= _) s
    rw [classNameOf_bind]; rfl
  | excErr a =>
    show _ = (classNameOf a >>= _) s
    rw [classNameOf_bind]; rfl
  | rt code =>
    show _ = ((alloc _ >>= fun a => pure (some a)) >>= _) s
    rw [bind_assoc]
    simp only [M_bind_def, alloc]
    show _ = (classNameOf _ >>= _) _
    rw [classNameOf_bind]; rfl
  | sem c => rfl
  | sigBreak => rfl
  | sigContinue => rfl
  | other => rfl

/-! ## the call stack -/

def topModule : List Frame → Int
  | [] => -1
  | fr :: _ => fr.moduleId

theorem unwindTo_run (d : Nat) (s : VM ν) :
    unwindTo d s = (.ok (), if s.stack.length ≤ d then s else
      { s with stack := s.stack.drop (s.stack.length - d),
               csModuleID := topModule (s.stack.drop (s.stack.length - d)) }) := by
  unfold unwindTo modifyVM topModule
  simp only
  split <;> rfl

/-- `unwindTo` drops exactly the frames above the given depth -/
theorem unwindTo_stack (d : Nat) (s : VM ν) (extra st0 : List Frame) (hs : s.stack = extra ++ st0)
    (hl : st0.length = d) : (unwindTo d s).2.stack = st0 := by
  rw [unwindTo_run]
  simp only
  split
  · rename_i h
    rw [hs, List.length_append] at h
    have : extra.length = 0 := by omega
    have : extra = [] := List.eq_nil_of_length_eq_zero this
    simp [hs, this]
  · simp only [hs, List.length_append]
    have : extra.length + st0.length - d = extra.length := by omega
    rw [this, List.drop_left]

theorem unwindTo_other (d : Nat) (s : VM ν) :
    (unwindTo d s).1 = .ok () ∧ (unwindTo d s).2.heap = s.heap ∧ (unwindTo d s).2.out = s.out ∧
    (unwindTo d s).2.scopes = s.scopes ∧ (unwindTo d s).2.globals = s.globals ∧
    (unwindTo d s).2.modules = s.modules := by
  rw [unwindTo_run]
  simp only
  split <;> simp

theorem pushFrame_run (fr : Frame) (s : VM ν) :
    (pushFrame fr s).1 = .ok () ∧ (pushFrame fr s).2.stack = fr :: s.stack ∧
    (pushFrame fr s).2.csModuleID = fr.moduleId ∧ (pushFrame fr s).2.heap = s.heap ∧
    (pushFrame fr s).2.out = s.out ∧ (pushFrame fr s).2.globals = s.globals ∧
    (pushFrame fr s).2.modules = s.modules := by
  unfold pushFrame modifyVM
  simp only
  split <;> simp

theorem popFrame_cons (s : VM ν) (fr : Frame) (rest : List Frame) (hs : s.stack = fr :: rest) :
    popFrame s = (.ok (), { s with stack := rest, csModuleID := topModule rest }) := by
  unfold popFrame topModule
  rw [hs]
  rfl

theorem getReturnValue_cons (s : VM ν) (fr : Frame) (rest : List Frame) (hs : s.stack = fr :: rest) :
    getReturnValue s = (.ok fr.ret, s) := by
  simp [getReturnValue, topFrame, bind, hs, pure]

theorem getThis_cons (s : VM ν) (fr : Frame) (rest : List Frame) (hs : s.stack = fr :: rest) :
    getThis s = (.ok fr.this, s) := by
  simp [getThis, topFrame, bind, hs, pure]

/-- the state in which a handler block starts -/
def handlerEntry (bm : Int) (bd : Nat) (ex : Addr) (s : VM ν) : VM ν :=
  (pushFrame { moduleId := bm, callType := 3, this := some ex } (unwindTo bd s).2).2

/-- `runHandler`, step by step -/
theorem runHandler_run (n : Nat) (bm : Int) (bd : Nat) (ex : Addr) (blk : Option (List Stmt)) (s : VM ν)
    (hbm : 0 ≤ bm) :
    runHandler n bm bd ex blk s =
      match evalPureStmtBlock n blk (handlerEntry bm bd ex s) with
      | (.ok _, s3) =>
        (do let rv ← getReturnValue
            popFrame
            match rv with
            | some v => pure (some v)
            | none => do let nl ← newNull; pure (some nl)) s3
      | (.err e, s3) => (.err e, s3)
      | (.panic, s3) => (.panic, s3)
      | (.fuel, s3) => (.fuel, s3)
      | (.unmodelled, s3) => (.unmodelled, s3) := by
  unfold runHandler handlerEntry
  have h1 : unwindTo bd s = (.ok (), (unwindTo bd s).2) := by
    rw [unwindTo_run]
  rw [bind_ok h1]
  have hlt : ¬ bm < 0 := by omega
  simp only [hlt, if_false]
  have h2 : pushFrame { moduleId := bm, callType := 3, this := some ex } (unwindTo bd s).2 =
      (.ok (), (pushFrame { moduleId := bm, callType := 3, this := some ex } (unwindTo bd s).2).2) := by
    unfold pushFrame modifyVM; rfl
  rw [bind_ok h2, M_bind_def]
  rcases evalPureStmtBlock n blk
    (pushFrame { moduleId := bm, callType := 3, this := some ex } (unwindTo bd s).2).2 with ⟨r, s3⟩
  cases r <;> rfl

/-! ## handler selection -/

/-- the exception value `ex` has class `name` in state `s`: a built-in 异常 value, or an object of a user class -/
def HasClass (s : VM ν) (ex : Addr) (name : String) : Prop :=
  (∃ msg, s.heap[ex]? = some (.exc msg) ∧ name = exceptionClassName) ∨
  (∃ c props ct ps ms, s.heap[ex]? = some (.obj c props) ∧ s.heap[c]? = some (.cls name ct ps ms))

theorem classNameOf_of_hasClass {s : VM ν} {ex : Addr} {name : String} (h : HasClass s ex name) :
    classNameOf ex s = (.ok name, s) := by
  unfold classNameOf
  rcases h with ⟨msg, h1, h2⟩ | ⟨c, props, ct, ps, ms, h1, h2⟩
  · simp [bind, getCell, h1, h2, pure]
  · simp [bind, getCell, h1, h2, pure]

/-- `runHandler` with the `some` stripped: the value of the handled block -/
def runHandlerA (n : Nat) (blockModule : Int) (blockDepth : Nat) (ex : Addr) (blk : Option (List Stmt)) :
    M ν Addr := do
  unwindTo blockDepth
  if blockModule < 0 then goPanic else
  pushFrame { moduleId := blockModule, callType := 3, this := some ex }
  let _ ← evalPureStmtBlock n blk
  let rv ← getReturnValue
  popFrame
  match rv with
  | some v => pure v
  | none => newNull

theorem runHandler_eq (n : Nat) (bm : Int) (bd : Nat) (ex : Addr) (blk : Option (List Stmt)) :
    runHandler (ν := ν) n bm bd ex blk = (runHandlerA n bm bd ex blk >>= fun v => pure (some v)) := by
  unfold runHandler runHandlerA
  rw [bind_assoc]
  congr 1; funext _
  by_cases hbm : bm < 0
  · simp only [hbm, if_true]; rfl
  · simp only [hbm, if_false]
    simp only [bind_assoc]
    congr 1; funext _
    congr 1; funext _
    congr 1; funext rv
    congr 1; funext _
    cases rv
    · simp only [bind_pure]
    · simp only [pure_bind]

theorem firstM_cons_hit {α β} {f : α → M ν (Option β)} {d : M ν β} {x : α} {xs : List α} (m : M ν β)
    (h : f x = (m >>= fun v => pure (some v))) : firstM f d (x :: xs) = m := by
  unfold firstM
  rw [h, bind_assoc]
  simp only [pure_bind, bind_pure]

theorem tryHandler_hit (n : Nat) (bm : Int) (bd : Nat) (ex : Addr) (i : Ident) (blk : Option (List Stmt))
    (hi : IsName i.lit) (hne : i.lit ≠ "") :
    tryHandler (ν := ν) n bm bd ex i.lit (some i, blk) = runHandler n bm bd ex blk := by
  funext s
  unfold tryHandler
  rw [bind_ok (matchIDNameOpt_name i hi s)]
  simp [hne]

theorem tryHandler_miss (n : Nat) (bm : Int) (bd : Nat) (ex : Addr) (name : String) (j : Ident)
    (blk : Option (List Stmt)) (hj : IsName j.lit) (hne : j.lit ≠ name) (s : VM ν) :
    tryHandler n bm bd ex name (some j, blk) s = (.ok none, s) := by
  unfold tryHandler
  rw [bind_ok (matchIDNameOpt_name j hj s)]
  simp [hne, pure]

theorem excOf_sigExc (a : Addr) (s : VM ν) : excOf (.sigExc a) s = (.ok (some a), s) := rfl
theorem excOf_excErr (a : Addr) (s : VM ν) : excOf (.excErr a) s = (.ok (some a), s) := rfl
theorem excOf_rt (code : Nat) (s : VM ν) :
    excOf (.rt code) s = (.ok (some s.heap.size),
      { s with heap := s.heap.push (.exc ("‹rt:" ++ toString code ++ "›")) }) := rfl

/-! ## the scope bracket does not touch stack, module, heap, output -/

/-- the state in which the bracketed body starts -/
def enterScope (s : VM ν) : VM ν :=
  match getScope s.csModuleID s with
  | none => s
  | some sc => putScope s.csModuleID sc.beginScope s

/-- the deferred `endScope()` of the bracket opened in state `s`, applied to the body's final state `t` -/
def exitScope (s t : VM ν) : VM ν :=
  match getScope s.csModuleID s with
  | none => t
  | some _ => endScopeOf s.csModuleID t

theorem enterScope_frame (s : VM ν) :
    (enterScope s).stack = s.stack ∧ (enterScope s).csModuleID = s.csModuleID ∧ (enterScope s).heap = s.heap ∧
    (enterScope s).out = s.out ∧ (enterScope s).globals = s.globals ∧ (enterScope s).modules = s.modules := by
  unfold enterScope
  cases getScope s.csModuleID s <;> simp

theorem exitScope_frame (s t : VM ν) :
    (exitScope s t).stack = t.stack ∧ (exitScope s t).csModuleID = t.csModuleID ∧
    (exitScope s t).heap = t.heap ∧ (exitScope s t).out = t.out := by
  unfold exitScope
  cases getScope s.csModuleID s <;> simp

/-- `withScope body` = run `body` from `enterScope s`, then close the scope opened at entry, whatever the outcome -/
theorem withScope_run {α} (body : M ν α) (s : VM ν) :
    withScope body s = ((body (enterScope s)).1, exitScope s (body (enterScope s)).2) := by
  unfold enterScope exitScope
  cases h : getScope s.csModuleID s with
  | none => rw [withScope_none body s h]
  | some sc => rw [withScope_some body s sc h]

theorem excOf_frame (e : Err) (s : VM ν) :
    (excOf e s).2.stack = s.stack ∧ (excOf e s).2.csModuleID = s.csModuleID ∧ (excOf e s).2.scopes = s.scopes ∧
    (excOf e s).2.out = s.out := by
  cases e <;> exact ⟨rfl, rfl, rfl, rfl⟩

/-! ## declarations -/

theorem declareElement_cases (name : String) (v : Addr) (c : Bool) (ext : Option Int) (t : VM ν) :
    (∃ e, declareElement name v c ext t = (.err e, t)) ∨
    (∃ sc sc', getScope t.csModuleID t = some sc ∧ sc.declare name v c ext = .ok sc' ∧
      declareElement name v c ext t = (.ok (), putScope t.csModuleID sc' t)) := by
  unfold declareElement
  have hcs : currentScope t = (.ok (getScope t.csModuleID t), t) := rfl
  rw [bind_ok hcs]
  cases hsc : getScope t.csModuleID t with
  | none => exact Or.inl ⟨_, rfl⟩
  | some sc =>
    simp only
    have hg : getVM t = (.ok t, t) := rfl
    rw [bind_ok hg]
    cases lookup name t.globals with
    | some _ => exact Or.inl ⟨_, rfl⟩
    | none =>
      simp only
      cases hd : sc.declare name v c ext with
      | error e => exact Or.inl ⟨_, rfl⟩
      | ok sc' => exact Or.inr ⟨sc, sc', rfl, hd, rfl⟩

theorem bindThis_cases (t : VM ν) :
    bindThis t t = (.ok (), t) ∨
    (∃ sc sc' v, getScope t.csModuleID t = some sc ∧ sc.declare "此" v true none = .ok sc' ∧
      bindThis t t = (.ok (), putScope t.csModuleID sc' t)) := by
  unfold bindThis
  cases t.stack.head? with
  | none => exact Or.inl rfl
  | some fr =>
    simp only
    by_cases hc : (fr.callType == 2) = true
    · simp only [hc, if_true]
      cases fr.this with
      | none => exact Or.inl rfl
      | some v =>
        simp only
        unfold Model.tryCatch
        rcases declareElement_cases "此" v true none t with ⟨e, he⟩ | ⟨sc, sc', h1, h2, h3⟩
        · rw [he]; exact Or.inl rfl
        · rw [h3]; exact Or.inr ⟨sc, sc', v, h1, h2, rfl⟩
    · simp only [hc, if_false]
      exact Or.inl rfl

/-- a symbol declared constant (输入, 得到, 此, methods, types) cannot be assigned: error 44, nothing changes -/
theorem set_after_const_declare (name : String) (v w : Addr) (ext : Option Int) (s s' : VM ν)
    (h : declareElement name v true ext s = (.ok (), s')) : setElement name w s' = (.err (.rt 44), s') := by
  rcases declareElement_cases name v true ext s with ⟨e, he⟩ | ⟨sc, sc', h1, h2, h3⟩
  · rw [he] at h; cases h
  · rw [h3] at h
    cases h
    unfold setElement
    have hcs : currentScope (putScope s.csModuleID sc' s) = (.ok (some sc'), putScope s.csModuleID sc' s) := by
      unfold currentScope
      rw [putScope_cs, getScope_putScope_same]
    rw [bind_ok hcs]
    simp only
    rw [declare_ok h2]
    simp [Scope.set, Scope.set.go, throwE]

/-! ## inputs are constants -/

theorem set_go_const_prefix (x : String) (w : Addr) (rest : List Sym) :
    ∀ (pre : List Sym), (∀ sy ∈ pre, sy.isConst = true) → (∃ sy ∈ pre, sy.name = x) →
      Scope.set.go x w (pre ++ rest) = some (.error (.rt 44))
  | [], _, h => by obtain ⟨sy, hm, _⟩ := h; cases hm
  | sy :: pre, hc, h => by
    rw [List.cons_append]
    unfold Scope.set.go
    by_cases hn : (sy.name == x) = true
    · simp only [hn, if_true, hc sy List.mem_cons_self]
    · simp only [hn, Bool.false_eq_true, if_false]
      have hrest : ∃ sy' ∈ pre, sy'.name = x := by
        obtain ⟨sy', hm, hx⟩ := h
        rcases List.mem_cons.mp hm with rfl | hm'
        · exact absurd (by simpa using hx) hn
        · exact ⟨sy', hm', hx⟩
      rw [set_go_const_prefix x w rest pre (fun s hs => hc s (List.mem_cons_of_mem _ hs)) hrest]

/-- every name of the list is bound, in the current module's scope, by a symbol that sits in a prefix of constants -/
def ConstBound (names : List String) (s : VM ν) : Prop :=
  ∀ x ∈ names, ∃ sc pre rest, getScope s.csModuleID s = some sc ∧ sc.syms = pre ++ rest ∧
    (∀ sy ∈ pre, sy.isConst = true) ∧ ∃ sy ∈ pre, sy.name = x

theorem ConstBound.declare {names : List String} {s s' : VM ν} {name : String} {v : Addr} {ext : Option Int}
    (hb : ConstBound names s) (h : declareElement name v true ext s = (.ok (), s')) :
    ConstBound (name :: names) s' := by
  rcases declareElement_cases name v true ext s with ⟨e, he⟩ | ⟨sc, sc', h1, h2, h3⟩
  · rw [he] at h; cases h
  · rw [h3] at h; cases h
    have hg : getScope (putScope s.csModuleID sc' s).csModuleID (putScope s.csModuleID sc' s) = some sc' := by
      rw [putScope_cs, getScope_putScope_same]
    have hsy := declare_ok h2
    intro x hx
    rcases List.mem_cons.mp hx with rfl | hx'
    · exact ⟨sc', [{ name := x, depth := sc.depth, isConst := true, ext, val := v }], sc.syms, hg,
        by rw [hsy]; rfl, by intro sy hs; simp at hs; subst hs; rfl, _, List.mem_cons_self, rfl⟩
    · obtain ⟨sc0, pre, rest, g1, g2, g3, sy, g4, g5⟩ := hb x hx'
      rw [h1] at g1; cases g1
      refine ⟨sc', { name := name, depth := sc.depth, isConst := true, ext, val := v } :: pre, rest, hg,
        by rw [hsy, g2]; rfl, ?_, sy, List.mem_cons_of_mem _ g4, g5⟩
      intro sy' hs
      rcases List.mem_cons.mp hs with rfl | hs'
      · rfl
      · exact g3 sy' hs'

theorem ConstBound.set_rejected {names : List String} {s : VM ν} (hb : ConstBound names s) (x : String)
    (hx : x ∈ names) (w : Addr) : setElement x w s = (.err (.rt 44), s) := by
  obtain ⟨sc, pre, rest, g1, g2, g3, g4⟩ := hb x hx
  unfold setElement
  have hcs : currentScope s = (.ok (some sc), s) := by unfold currentScope; rw [g1]
  rw [bind_ok hcs]
  simp only
  have : sc.set x w = .error (.rt 44) := by
    unfold Scope.set
    rw [g2, set_go_const_prefix x w rest pre g3 g4]
  rw [this]; rfl

theorem bindInputs_constBound :
    ∀ (inputs : List Ident) (params : List Addr) (names : List String) (s s' : VM ν),
      (∀ i ∈ inputs, IsName i.lit) → params.length = inputs.length → ConstBound names s →
      bindInputs inputs params s = (.ok (), s') → ConstBound (inputs.reverse.map (·.lit) ++ names) s'
  | [], params, names, s, s', _, _, hb, h => by
    cases h; simpa using hb
  | i :: is, [], names, s, s', _, hl, _, _ => by simp at hl
  | i :: is, p :: ps, names, s, s', hn, hl, hb, h => by
    have hstep : bindInputs (i :: is) (p :: ps) s =
        ((do let name ← matchIDName i.lit; declareElement name p true : M ν Unit) >>= fun _ => bindInputs is ps) s := rfl
    rw [hstep, M_bind_def, bind_ok (matchIDName_name i.lit (hn i List.mem_cons_self) s)] at h
    rcases hd : declareElement i.lit p true none s with ⟨r, s1⟩
    rw [hd] at h
    cases r <;> simp only at h <;> try (cases h)
    have := bindInputs_constBound is ps (i.lit :: names) s1 s'
      (fun j hj => hn j (List.mem_cons_of_mem _ hj)) (by simpa using hl) (hb.declare hd) h
    simpa [List.reverse_cons, List.map_append, List.append_assoc] using this

end ZnVerif.Proofs.Calls
