/-
C02 refinement, the state relation: the model's flat symbol list with depth marks (runtime/scope.go)
against the spec's list of blocks; globals against predefined names; output; the return slot.
-/
import ZnVerif.Proofs.StmtRefineSim
set_option linter.unusedSectionVars false
set_option linter.unusedSimpArgs false

namespace ZnVerif.Proofs
open ZnVerif.Model ZnVerif.Spec

variable {ν : Type} [NumOps ν]

/-- the return slot of the top frame (what `getReturnValue` answers) -/
def slot (s : VM ν) : Option Addr :=
  match s.stack with
  | fr :: _ => fr.ret
  | [] => none

theorem getReturnValue_eq (s : VM ν) : getReturnValue s = (.ok (slot s), s) := by
  simp only [getReturnValue, M.bind_def, topFrame, slot]
  cases s.stack <;> rfl

/-- how a non-plain cell and the non-plain spec value it stands for are displayed alike -/
def OpaqueShow : Cell ν → SVal ν → Prop
  | .fn _, .fn _ => True
  | .fn _, .builtinFn _ => True
  | .cls name _ _ _, .cls name' => name = name'
  | .exc msg, .exc msg' => msg = msg'
  | _, _ => False

/-- a symbol and a binding: same name, same constness, the cell reads (as a scalar) as the value -/
structure SymRel (ω : Addr → Option (SVal ν)) (h : Array (Cell ν)) (sy : Sym) (b : Binding ν) : Prop where
  name : sy.name = b.name
  const : sy.isConst = b.const
  val : contentW ω 1 h sy.val = some b.val
  nopre : predefVal (ν := ν) sy.name = none

/-- the symbol list, cut into runs of equal depth `d :: ds` (strictly decreasing), against the blocks -/
inductive BlocksRel (ω : Addr → Option (SVal ν)) (h : Array (Cell ν)) : List Sym → List Int → List (List (Binding ν)) → Prop
  | nil : BlocksRel ω h [] [] []
  | cons {bs blk d ds rest env} : Forall2 (SymRel ω h) bs blk → (∀ sy ∈ bs, sy.depth = d) → (∀ d' ∈ ds, d' < d) →
      BlocksRel ω h rest ds env → BlocksRel ω h (bs ++ rest) (d :: ds) (blk :: env)

theorem BlocksRel.depth_mem {ω : Addr → Option (SVal ν)} {h : Array (Cell ν)} : ∀ {syms ds env},
    BlocksRel ω h syms ds env → ∀ sy ∈ syms, sy.depth ∈ ds
  | _, _, _, .nil, _, hm => by cases hm
  | _, _, _, .cons _ hd _ rest, sy, hm => by
    rcases List.mem_append.1 hm with h1 | h2
    · rw [hd sy h1]; exact List.mem_cons_self
    · exact List.mem_cons_of_mem _ (rest.depth_mem sy h2)

theorem BlocksRel.heap {ω : Addr → Option (SVal ν)} {h h' : Array (Cell ν)} (hle : HeapLe h h') : ∀ {syms ds env},
    BlocksRel ω h syms ds env → BlocksRel ω h' syms ds env
  | _, _, _, .nil => .nil
  | _, _, _, .cons hf hd hlt rest =>
    .cons (hf.imp fun _ _ r => ⟨r.name, r.const, contentW_heap hle r.val, r.nopre⟩) hd hlt (rest.heap hle)

theorem BlocksRel.inv {ω : Addr → Option (SVal ν)} {h : Array (Cell ν)} {syms d ds env}
    (hb : BlocksRel ω h syms (d :: ds) env) :
    ∃ bs blk rest env', syms = bs ++ rest ∧ env = blk :: env' ∧ Forall2 (SymRel ω h) bs blk ∧
      (∀ sy ∈ bs, sy.depth = d) ∧ (∀ d' ∈ ds, d' < d) ∧ BlocksRel ω h rest ds env' := by
  generalize hl : d :: ds = dl at hb
  cases hb with
  | nil => cases hl
  | cons hf hdep hlt hrest => cases hl; exact ⟨_, _, _, _, rfl, rfl, hf, hdep, hlt, hrest⟩

theorem Forall2.find_sym {ω : Addr → Option (SVal ν)} {h : Array (Cell ν)} (name : String) : ∀ {bs blk},
    Forall2 (SymRel ω h) bs blk →
    match bs.find? (·.name == name), blk.find? (·.name == name) with
    | some sy, some b => SymRel ω h sy b
    | none, none => True
    | _, _ => False
  | _, _, .nil => by simp
  | sy :: bs, b :: blk, .cons r rest => by
    have hn := r.name
    by_cases e : sy.name = name
    · have e' : b.name = name := by rw [← hn]; exact e
      simp [List.find?, e, e']; exact r
    · have e' : ¬ b.name = name := by rw [← hn]; exact e
      have e1 : (sy.name == name) = false := by simp [e]
      have e2 : (b.name == name) = false := by simp [e']
      simp only [List.find?, e1, e2]
      exact Forall2.find_sym name rest

theorem BlocksRel.find {ω : Addr → Option (SVal ν)} {h : Array (Cell ν)} (name : String) : ∀ {syms ds env},
    BlocksRel ω h syms ds env →
    match syms.find? (·.name == name), findB name env with
    | some sy, some b => SymRel ω h sy b
    | none, none => True
    | _, _ => False
  | _, _, _, .nil => by simp [findB]
  | _, _, _, .cons (bs := bs) (blk := blk) (rest := rest) (env := env) hf _ _ hrest => by
    have h1 := Forall2.find_sym name hf
    have h2 := BlocksRel.find name hrest
    rw [List.find?_append]
    simp only [findB]
    cases hb : bs.find? (·.name == name) <;> cases hk : blk.find? (·.name == name) <;> simp only [hb, hk] at h1 ⊢
    · simpa using h2
    · simpa using h1

/-! ### declaring -/

theorem scan_block {ω : Addr → Option (SVal ν)} {h : Array (Cell ν)} (sc : Scope) (name : String) : ∀ {bs blk} (rest : List Sym),
    Forall2 (SymRel ω h) bs blk → (∀ sy ∈ bs, sy.depth = sc.depth) → (∀ sy ∈ rest, sy.depth < sc.depth) →
    Scope.declare.scan sc name (bs ++ rest) = blk.any (·.name == name)
  | _, _, [], .nil, _, _ => by simp [Scope.declare.scan]
  | _, _, sy :: rest, .nil, _, hr => by
    have := hr sy List.mem_cons_self
    simp [Scope.declare.scan, this]
  | sy :: bs, b :: blk, rest, .cons r hf, hd, hr => by
    have hdep : sy.depth = sc.depth := hd sy List.mem_cons_self
    have ih := scan_block sc name rest hf (fun x hx => hd x (List.mem_cons_of_mem _ hx)) hr
    have hn := r.name
    simp only [List.cons_append, Scope.declare.scan, hdep, Int.lt_irrefl, if_false, beq_self_eq_true, Bool.and_true,
      List.any_cons, ih, hn]
    cases (b.name == name) <;> simp

theorem BlocksRel.declare {ω : Addr → Option (SVal ν)} {h : Array (Cell ν)} {sc : Scope} {ds env}
    (hrel : BlocksRel ω h sc.syms (sc.depth :: ds) env) (name : String) (a : Addr) (v : SVal ν) (c : Bool) (ext : Option Int)
    (hv : contentW ω 1 h a = some v) (hpre : predefVal (ν := ν) name = none) :
    ∃ blk rest, env = blk :: rest ∧
      ((blk.any (·.name == name) = true ∧ sc.declare name a c ext = .error (.rt 43)) ∨
       (blk.any (·.name == name) = false ∧ ∃ sc', sc.declare name a c ext = .ok sc' ∧ sc'.depth = sc.depth ∧
          BlocksRel ω h sc'.syms (sc.depth :: ds) (({ name := name, const := c, val := v } :: blk) :: rest))) := by
  generalize hs : sc.syms = syms at hrel
  generalize hd : sc.depth :: ds = dl at hrel
  cases hrel with
  | nil => cases hd
  | cons hf hdep hlt hrest =>
    rename_i bs blk d ds' rest env'
    cases hd
    refine ⟨blk, env', rfl, ?_⟩
    have hscan := scan_block sc name rest hf hdep fun sy hsy => hlt _ (hrest.depth_mem sy hsy)
    unfold Scope.declare
    rw [hs, hscan]
    cases hany : blk.any (·.name == name)
    · refine .inr ⟨rfl, { sc with syms := { name := name, depth := sc.depth, isConst := c, ext := ext, val := a } :: (bs ++ rest) },
        by simp, rfl, ?_⟩
      have : ({ name := name, depth := sc.depth, isConst := c, ext := ext, val := a } : Sym) :: (bs ++ rest) =
          (({ name := name, depth := sc.depth, isConst := c, ext := ext, val := a } : Sym) :: bs) ++ rest := rfl
      rw [this]
      refine .cons (.cons ⟨rfl, rfl, hv, hpre⟩ hf) ?_ hlt hrest
      intro sy hsy
      rcases List.mem_cons.1 hsy with rfl | hsy
      · rfl
      · exact hdep sy hsy
    · exact .inl ⟨rfl, by simp⟩

/-! ### assigning -/

/-- the spec's update function of `assignName` -/
def assignF (v : SVal ν) : Binding ν → Option (Binding ν) := fun b => if b.const then none else some { b with val := v }

def prefixRes (bs : List Sym) : Option (Except Err (List Sym)) → Option (Except Err (List Sym))
  | none => none
  | some (.error e) => some (.error e)
  | some (.ok rest') => some (.ok (bs ++ rest'))

theorem go_skip (name : String) (a : Addr) (rest : List Sym) : ∀ (bs : List Sym), (∀ sy ∈ bs, (sy.name == name) = false) →
    Scope.set.go name a (bs ++ rest) = prefixRes bs (Scope.set.go name a rest)
  | [], _ => by
    simp only [List.nil_append]
    cases Scope.set.go name a rest with
    | none => rfl
    | some r => cases r <;> rfl
  | sy :: bs, h => by
    have e := h sy List.mem_cons_self
    have ih := go_skip name a rest bs fun x hx => h x (List.mem_cons_of_mem _ hx)
    simp only [List.cons_append, Scope.set.go, e, Bool.false_eq_true, if_false, ih]
    cases Scope.set.go name a rest with
    | none => rfl
    | some r => cases r <;> rfl

theorem any_false_syms {ω : Addr → Option (SVal ν)} {h : Array (Cell ν)} (name : String) : ∀ {bs blk},
    Forall2 (SymRel ω h) bs blk → blk.any (·.name == name) = false → ∀ sy ∈ bs, (sy.name == name) = false
  | _, _, .nil, _, _, hm => by cases hm
  | _, _, .cons r rest, hany, sy, hm => by
    simp only [List.any_cons, Bool.or_eq_false_iff] at hany
    rcases List.mem_cons.1 hm with rfl | hm
    · rw [r.name]; exact hany.1
    · exact any_false_syms name rest hany.2 sy hm

theorem go_block {ω : Addr → Option (SVal ν)} {h : Array (Cell ν)} (name : String) (a : Addr) (v : SVal ν)
    (hv : contentW ω 1 h a = some v) (rest : List Sym) (d : Int) : ∀ {bs blk},
    Forall2 (SymRel ω h) bs blk → blk.any (·.name == name) = true → (∀ sy ∈ bs, sy.depth = d) →
    (Scope.set.go name a (bs ++ rest) = some (.error (.rt 44)) ∧ updB.go name (assignF v) blk = none) ∨
    (∃ bs' blk', Scope.set.go name a (bs ++ rest) = some (.ok (bs' ++ rest)) ∧ updB.go name (assignF v) blk = some blk' ∧
      Forall2 (SymRel ω h) bs' blk' ∧ (∀ sy ∈ bs', sy.depth = d))
  | _, _, .nil, hany, _ => by simp at hany
  | sy :: bs, b :: blk, .cons r hf, hany, hd => by
    have hn := r.name
    by_cases e : (b.name == name) = true
    · have e' : (sy.name == name) = true := by rw [hn]; exact e
      by_cases hc : b.const = true
      · have hc' : sy.isConst = true := by rw [r.const]; exact hc
        refine .inl ⟨?_, ?_⟩
        · simp only [List.cons_append, Scope.set.go, e', if_true, hc']
        · simp only [updB.go, e, if_true, assignF, hc]; rfl
      · have hc' : ¬ sy.isConst = true := by rw [r.const]; exact hc
        refine .inr ⟨{ sy with val := a } :: bs, { b with val := v } :: blk, ?_, ?_, ?_, ?_⟩
        · simp only [List.cons_append, Scope.set.go, e', if_true, hc', if_false, Bool.false_eq_true]
        · simp only [updB.go, e, if_true, assignF, hc, if_false, Bool.false_eq_true]; rfl
        · exact .cons ⟨r.name, r.const, hv, r.nopre⟩ hf
        · intro x hx
          rcases List.mem_cons.1 hx with rfl | hx
          · exact hd sy List.mem_cons_self
          · exact hd x (List.mem_cons_of_mem _ hx)
    · have e1 : (b.name == name) = false := by simpa using e
      have e' : (sy.name == name) = false := by rw [hn]; exact e1
      have hany' : blk.any (·.name == name) = true := by simpa [List.any_cons, e1] using hany
      rcases go_block name a v hv rest d hf hany' (fun x hx => hd x (List.mem_cons_of_mem _ hx)) with ⟨h1, h2⟩ | ⟨bs', blk', h1, h2, h3, h4⟩
      · refine .inl ⟨?_, ?_⟩
        · simp only [List.cons_append, Scope.set.go, e', Bool.false_eq_true, if_false, h1]
        · simp only [updB.go, e1, Bool.false_eq_true, if_false, h2]; rfl
      · refine .inr ⟨sy :: bs', b :: blk', ?_, ?_, .cons r h3, ?_⟩
        · simp only [List.cons_append, Scope.set.go, e', Bool.false_eq_true, if_false, h1]
        · simp only [updB.go, e1, Bool.false_eq_true, if_false, h2]; rfl
        · intro x hx
          rcases List.mem_cons.1 hx with rfl | hx
          · exact hd _ List.mem_cons_self
          · exact h4 x hx

/-- `Scope.SetValue` against `updB` of `assignName` -/
inductive SetRel (ω : Addr → Option (SVal ν)) (h : Array (Cell ν)) (ds : List Int) :
    Option (Except Err (List Sym)) → Option (Option (List (List (Binding ν)))) → Prop
  | missing : SetRel ω h ds none none
  | const : SetRel ω h ds (some (.error (.rt 44))) (some none)
  | done {syms env} : BlocksRel ω h syms ds env → SetRel ω h ds (some (.ok syms)) (some (some env))

theorem BlocksRel.set {ω : Addr → Option (SVal ν)} {h : Array (Cell ν)} (name : String) (a : Addr) (v : SVal ν)
    (hv : contentW ω 1 h a = some v) : ∀ {syms ds env}, BlocksRel ω h syms ds env →
    SetRel ω h ds (Scope.set.go name a syms) (updB name (assignF v) env)
  | _, _, _, .nil => by simp only [Scope.set.go, updB]; exact .missing
  | _, _, _, .cons (bs := bs) (blk := blk) (d := d) (ds := ds) (rest := rest) (env := env) hf hd hlt hrest => by
    simp only [updB]
    cases hany : blk.any (·.name == name)
    · simp only [Bool.false_eq_true, if_false]
      rw [go_skip name a rest bs (any_false_syms name hf hany)]
      have ih := BlocksRel.set name a v hv hrest
      generalize Scope.set.go name a rest = r1, updB name (assignF v) env = r2 at ih
      cases ih with
      | missing => exact .missing
      | const => exact .const
      | done hb => exact .done (.cons hf hd hlt hb)
    · simp only [if_true]
      rcases go_block name a v hv rest d hf hany hd with ⟨h1, h2⟩ | ⟨bs', blk', h1, h2, h3, h4⟩
      · rw [h1, h2]; exact .const
      · rw [h1, h2]; exact .done (.cons h3 h4 hlt hrest)

/-! ### the scope table -/

theorem getScope_putScope {s : VM ν} {mid : Int} {sc0 : Scope} (h : getScope mid s = some sc0) (sc : Scope) :
    getScope mid (putScope mid sc s) = some sc := by
  unfold getScope at h ⊢
  unfold putScope
  have key : ∀ (l : List (Int × Scope)), (l.find? (·.1 == mid)).map (·.2) = some sc0 →
      l.any (·.1 == mid) = true ∧
      ((l.map fun p => if p.1 == mid then (mid, sc) else p).find? (·.1 == mid)).map (·.2) = some sc := by
    intro l
    induction l with
    | nil => intro h; simp at h
    | cons p l ih =>
      intro h
      by_cases e : (p.1 == mid) = true
      · have e2 : (((mid, sc) : Int × Scope).1 == mid) = true := by simp
        simp only [List.any_cons, e, Bool.true_or, List.map_cons, if_true, List.find?, e2, Option.map_some, and_self]
      · have e' : (p.1 == mid) = false := by simpa using e
        simp only [List.find?, e'] at h
        obtain ⟨h1, h2⟩ := ih h
        simp only [List.any_cons, e', Bool.false_or, h1, List.map_cons, Bool.false_eq_true, if_false, List.find?, h2,
          and_self]
  obtain ⟨h1, h2⟩ := key s.scopes h
  simp only [h1, if_true]
  exact h2

theorem putScope_fields (s : VM ν) (mid : Int) (sc : Scope) :
    (putScope mid sc s).heap = s.heap ∧ (putScope mid sc s).globals = s.globals ∧ (putScope mid sc s).stack = s.stack ∧
    (putScope mid sc s).csModuleID = s.csModuleID ∧ (putScope mid sc s).out = s.out := by
  unfold putScope; split <;> simp

/-! ### the state relation -/

structure StRel (ω : Addr → Option (SVal ν)) (mid : Int) (D : Int) (ds : List Int) (s : VM ν) (σ : SState ν) : Prop where
  cs : s.csModuleID = mid
  globals : ∀ name, match lookup name s.globals, predefVal (ν := ν) name with
    | some a, some v => contentW ω 1 s.heap a = some v
    | none, none => True
    | _, _ => False
  scope : ∃ sc, getScope s.csModuleID s = some sc ∧ sc.depth = D ∧ BlocksRel ω s.heap sc.syms (D :: ds) σ.env
  stack : ∃ fr rest, s.stack = fr :: rest ∧ fr.moduleId = s.csModuleID
  out : s.out = σ.out
  display : ∃ a, lookup "显示" s.globals = some a ∧ s.heap[a]? = some (.fn .display)
  ωok : ∀ a v, ω a = some v → isOpaque v = true → ∃ c, s.heap[a]? = some c ∧ OpaqueShow c v

theorem StRel.envRel {ω : Addr → Option (SVal ν)} {mid : Int} {D ds} {s : VM ν} {σ : SState ν} (h : StRel ω mid D ds s σ) : EnvRel ω 0 s σ := by
  intro name
  have hg := h.globals name
  obtain ⟨sc, hsc, _, hb⟩ := h.scope
  have hf := BlocksRel.find name hb
  simp only [visible, specVisible, hsc, Scope.find]
  cases h1 : lookup name s.globals <;> cases h2 : predefVal (ν := ν) name <;> simp only [h1, h2] at hg ⊢
  · cases h3 : sc.syms.find? (·.name == name) <;> cases h4 : findB name σ.env <;> simp only [h3, h4] at hf ⊢
    exact hf.val
  · exact hg

/-- a step that leaves everything but heap (extended), output-irrelevant fields alone keeps the relation -/
theorem StRel.frame {ω : Addr → Option (SVal ν)} {mid : Int} {D ds} {s s' : VM ν} {σ : SState ν} (h : StRel ω mid D ds s σ)
    (hF : Frame s s') : StRel ω mid D ds s' σ := by
  have hsame := hF.same
  have hg : s'.globals = s.globals := by rw [hsame]
  have hcs : s'.csModuleID = s.csModuleID := by rw [hsame]
  have hst : s'.stack = s.stack := by rw [hsame]
  have hout : s'.out = s.out := by rw [hsame]
  have hgs : getScope s'.csModuleID s' = getScope s.csModuleID s := by rw [hsame]; rfl
  refine ⟨by rw [hcs]; exact h.cs, ?_, ?_, ?_, ?_, ?_, ?_⟩
  · intro name
    have := h.globals name
    rw [hg]
    cases h1 : lookup name s.globals <;> cases h2 : predefVal (ν := ν) name <;> simp only [h1, h2] at this ⊢
    exact contentW_heap hF.le this
  · obtain ⟨sc, h1, h2, h3⟩ := h.scope
    exact ⟨sc, by rw [hgs]; exact h1, h2, h3.heap hF.le⟩
  · rw [hst, hcs]; exact h.stack
  · rw [hout]; exact h.out
  · obtain ⟨a, h1, h2⟩ := h.display
    exact ⟨a, by rw [hg]; exact h1, hF.le _ _ h2⟩
  · intro a v h1 h2
    obtain ⟨c, h3, h4⟩ := h.ωok a v h1 h2
    exact ⟨c, hF.le _ _ h3, h4⟩

theorem slot_frame {s s' : VM ν} (hF : Frame s s') : slot s' = slot s := by
  have : s'.stack = s.stack := by rw [hF.same]
  simp only [slot, this]

/-! ### predefined names -/

theorem predefined_contains (name : String) : predefined.contains name = (predefVal (ν := ν) name).isSome := by
  unfold predefVal
  split <;> simp_all [predefined]

/-! ### the relations carried through statements -/

/-- normal completion: states related, nothing returned yet, heap only extended since `h0` -/
def VRel {α α' : Type} (ω : Addr → Option (SVal ν)) (mid : Int) (D : Int) (ds : List Int) (h0 : Array (Cell ν))
    (P : Array (Cell ν) → α → α' → Prop) : VM ν → SState ν → α → α' → Prop :=
  fun s σ a v => StRel ω mid D ds s σ ∧ HeapLe h0 s.heap ∧ slot s = none ∧ P s.heap a v

/-- 输出 executed: the slot holds a cell that reads as the returned value -/
def TRel {α : Type} (ω : Addr → Option (SVal ν)) (mid : Int) (D : Int) (ds : List Int) (h0 : Array (Cell ν)) :
    VM ν → SState ν → α → SVal ν → Prop :=
  fun s σ _ v => StRel ω mid D ds s σ ∧ HeapLe h0 s.heap ∧ ∃ a, slot s = some a ∧ ∃ k, contentW ω k s.heap a = some v

/-- after 结束循环 / 继续循环 -/
def BRel (ω : Addr → Option (SVal ν)) (mid : Int) (D : Int) (ds : List Int) (h0 : Array (Cell ν)) : VM ν → SState ν → Prop :=
  fun s σ => StRel ω mid D ds s σ ∧ HeapLe h0 s.heap ∧ slot s = none

/-! ### declaring and assigning, as computations -/

theorem simS_declare {ω : Addr → Option (SVal ν)} {mid : Int} {D ds} {s : VM ν} {σ : SState ν} {T B}
    (hst : StRel ω mid D ds s σ) (name : String) (a : Addr) (v : SVal ν) (c : Bool)
    (hv : contentW ω 1 s.heap a = some v) :
    SimS (fun s' σ' (_ _ : Unit) => StRel ω mid D ds s' σ' ∧ s'.heap = s.heap ∧ s'.stack = s.stack ∧
        predefined.contains name = false) T B s σ
      (declareElement name a c) (declare name v c) := by
  obtain ⟨sc, hsc, hD, hb⟩ := hst.scope
  have hg := hst.globals name
  have hcon := predefined_contains (ν := ν) name
  unfold SimS declareElement Spec.declare
  simp only [M.bind_def, currentScope, hsc, getVM]
  cases h1 : lookup name s.globals <;> cases h2 : predefVal (ν := ν) name <;> simp only [h1, h2] at hg
  · -- not predefined
    simp only [h2, Option.isSome_none] at hcon
    simp only [hcon, Bool.false_eq_true, if_false, SM.bind_def, getS]
    subst hD
    obtain ⟨blk, rest, henv, hcase⟩ := hb.declare name a v c none hv h2
    rw [henv]
    simp only
    rcases hcase with ⟨hany, hdecl⟩ | ⟨hany, sc', hdecl, hdep, hrel⟩
    · rw [hdecl, hany]
      exact .inr (.inr (.inr (.rt 43)))
    · rw [hdecl, hany]
      simp only [Bool.false_eq_true, if_false, putCurrentScope, modifyVM, modS]
      refine .inr (.inr (.inr (.ok ⟨?_, (putScope_fields s _ _).1, (putScope_fields s _ _).2.2.1, trivial⟩)))
      obtain ⟨f1, f2, f3, f4, f5⟩ := putScope_fields s s.csModuleID sc'
      refine ⟨by rw [f4]; exact hst.cs, ?_, ?_, ?_, ?_, ?_, ?_⟩
      · intro nm; rw [f2, f1]; exact hst.globals nm
      · refine ⟨sc', ?_, hdep, ?_⟩
        · rw [f4]; exact getScope_putScope hsc sc'
        · rw [f1]; exact hrel
      · rw [f3, f4]; exact hst.stack
      · rw [f5]; exact hst.out
      · rw [f2, f1]; exact hst.display
      · rw [f1]; exact hst.ωok
  · -- predefined
    simp only [h2, Option.isSome_some] at hcon
    simp only [hcon, if_true]
    exact .inr (.inr (.inr (.rt 43)))

theorem Forall2.nopre {ω : Addr → Option (SVal ν)} {h : Array (Cell ν)} : ∀ {bs blk}, Forall2 (SymRel ω h) bs blk →
    ∀ sy ∈ bs, predefVal (ν := ν) sy.name = none
  | _, _, .nil, _, hm => by cases hm
  | _, _, .cons r rest, sy, hm => by
    rcases List.mem_cons.1 hm with rfl | hm
    · exact r.nopre
    · exact Forall2.nopre rest sy hm

theorem BlocksRel.nopre {ω : Addr → Option (SVal ν)} {h : Array (Cell ν)} : ∀ {syms ds env}, BlocksRel ω h syms ds env →
    ∀ sy ∈ syms, predefVal (ν := ν) sy.name = none
  | _, _, _, .nil, _, hm => by cases hm
  | _, _, _, .cons hf _ _ rest, sy, hm => by
    rcases List.mem_append.1 hm with h1 | h2
    · exact Forall2.nopre hf sy h1
    · exact rest.nopre sy h2

theorem simS_assign {ω : Addr → Option (SVal ν)} {mid : Int} {D ds} {s : VM ν} {σ : SState ν} {T B}
    (hst : StRel ω mid D ds s σ) (name : String) (a : Addr) (v : SVal ν)
    (hv : contentW ω 1 s.heap a = some v) :
    SimS (fun s' σ' (_ _ : Unit) => StRel ω mid D ds s' σ' ∧ s'.heap = s.heap ∧ s'.stack = s.stack) T B s σ
      (setElement name a) (if predefined.contains name then fault 42 else assignName name v) := by
  obtain ⟨sc, hsc, hD, hb⟩ := hst.scope
  have hcon := predefined_contains (ν := ν) name
  unfold SimS setElement Spec.assignName
  simp only [M.bind_def, currentScope, hsc, Scope.set]
  cases h2 : predefVal (ν := ν) name
  · simp only [h2, Option.isSome_none] at hcon
    simp only [hcon, Bool.false_eq_true, if_false, SM.bind_def, getS]
    have hset := hb.set name a v hv
    change SetRel ω s.heap (D :: ds) (Scope.set.go name a sc.syms)
      (updB name (fun b => if b.const then none else some { b with val := v }) σ.env) at hset
    generalize Scope.set.go name a sc.syms = r1, updB name (fun b => if b.const then none else some { b with val := v }) σ.env = r2 at hset
    cases hset with
    | missing => exact .inr (.inr (.inr (.rt 42)))
    | const => exact .inr (.inr (.inr (.rt 44)))
    | done hrel =>
      rename_i syms env
      simp only [putCurrentScope, modifyVM, modS]
      obtain ⟨f1, f2, f3, f4, f5⟩ := putScope_fields s s.csModuleID { syms := syms, depth := sc.depth }
      refine .inr (.inr (.inr (.ok ⟨?_, f1, f3⟩)))
      refine ⟨by rw [f4]; exact hst.cs, ?_, ?_, ?_, ?_, ?_, ?_⟩
      · intro nm; rw [f2, f1]; exact hst.globals nm
      · refine ⟨{ syms := syms, depth := sc.depth }, ?_, hD, ?_⟩
        · rw [f4]; exact getScope_putScope hsc _
        · rw [f1]; exact hrel
      · rw [f3, f4]; exact hst.stack
      · rw [f5]; exact hst.out
      · rw [f2, f1]; exact hst.display
      · rw [f1]; exact hst.ωok
  · simp only [h2, Option.isSome_some] at hcon
    simp only [hcon, if_true]
    have hnone : Scope.set.go name a sc.syms = none := by
      have := go_skip name a [] sc.syms fun sy hsy => by
        have hp := hb.nopre sy hsy
        cases e : sy.name == name
        · rfl
        · have : sy.name = name := by simpa using e
          rw [this, h2] at hp; cases hp
      simpa [Scope.set.go, prefixRes] using this
    rw [hnone]
    exact .inr (.inr (.inr (.rt 42)))

/-! ### blocks: `withScope` against `withBlock` -/

/-- the state after `endBoundScope (some mid)` -/
def endS (mid : Int) (s : VM ν) : VM ν :=
  match getScope mid s with
  | none => s
  | some sc => putScope mid sc.endScope s

theorem withScope_eq {α} (body : M ν α) (s : VM ν) (sc : Scope) (hsc : getScope s.csModuleID s = some sc) :
    withScope body s = ((body (putScope s.csModuleID sc.beginScope s)).1,
      endS s.csModuleID (body (putScope s.csModuleID sc.beginScope s)).2) := by
  simp only [withScope, M.bind_def, beginBoundScope, hsc, Model.tryCatch, endBoundScope, modifyVM, liftRes, endS]
  rcases hb : body (putScope s.csModuleID sc.beginScope s) with ⟨r, s2⟩
  simp only
  cases getScope s.csModuleID s2 <;> rfl

theorem withBlock_eq {α} (body : SM ν α) (σ : SState ν) :
    withBlock body σ = ((body { σ with env := [] :: σ.env }).1,
      { (body { σ with env := [] :: σ.env }).2 with env := (body { σ with env := [] :: σ.env }).2.env.drop 1 }) := by
  simp only [withBlock, SM.bind_def, modS, catchR, sfail]

theorem dropWhile_all {α} (p : α → Bool) : ∀ (bs rest : List α), (∀ x ∈ bs, p x = true) → (bs ++ rest).dropWhile p = rest.dropWhile p
  | [], _, _ => rfl
  | b :: bs, rest, h => by
    simp only [List.cons_append, List.dropWhile, h b List.mem_cons_self]
    exact dropWhile_all p bs rest fun x hx => h x (List.mem_cons_of_mem _ hx)

theorem dropWhile_none {α} (p : α → Bool) : ∀ (rest : List α), (∀ x ∈ rest, p x = false) → rest.dropWhile p = rest
  | [], _ => rfl
  | x :: rest, h => by simp only [List.dropWhile, h x List.mem_cons_self]

theorem StRel.push {ω : Addr → Option (SVal ν)} {mid : Int} {D ds} {s : VM ν} {σ : SState ν} (h : StRel ω mid D ds s σ)
    (sc : Scope) (hsc : getScope s.csModuleID s = some sc) :
    StRel ω mid (D+1) (D :: ds) (putScope s.csModuleID sc.beginScope s) { σ with env := [] :: σ.env } := by
  obtain ⟨sc', hsc', hD, hb⟩ := h.scope
  rw [hsc] at hsc'; cases hsc'
  obtain ⟨f1, f2, f3, f4, f5⟩ := putScope_fields s s.csModuleID sc.beginScope
  have hlt : ∀ d' ∈ ds, d' < D := by
    obtain ⟨_, _, _, _, _, _, _, _, hlt, _⟩ := hb.inv
    exact hlt
  refine ⟨by rw [f4]; exact h.cs, ?_, ?_, ?_, ?_, ?_, ?_⟩
  · intro nm; rw [f2, f1]; exact h.globals nm
  · refine ⟨sc.beginScope, ?_, by simp [Scope.beginScope, hD], ?_⟩
    · rw [f4]; exact getScope_putScope hsc _
    · rw [f1]
      have : BlocksRel ω s.heap ([] ++ sc.syms) ((D+1) :: D :: ds) ([] :: σ.env) :=
        .cons .nil (fun _ hm => by cases hm) (fun d' hd' => by
          rcases List.mem_cons.1 hd' with rfl | hd'
          · omega
          · have := hlt d' hd'; omega) hb
      exact this
  · rw [f3, f4]; exact h.stack
  · rw [f5]; exact h.out
  · rw [f2, f1]; exact h.display
  · rw [f1]; exact h.ωok

theorem StRel.pop {ω : Addr → Option (SVal ν)} {mid : Int} {D ds} {s : VM ν} {σ : SState ν} (h : StRel ω mid (D+1) (D :: ds) s σ) :
    StRel ω mid D ds (endS s.csModuleID s) { σ with env := σ.env.drop 1 } := by
  obtain ⟨sc, hsc, hD, hb⟩ := h.scope
  unfold endS
  rw [hsc]
  obtain ⟨f1, f2, f3, f4, f5⟩ := putScope_fields s s.csModuleID sc.endScope
  refine ⟨by rw [f4]; exact h.cs, ?_, ?_, ?_, ?_, ?_, ?_⟩
  · intro nm; rw [f2, f1]; exact h.globals nm
  · refine ⟨sc.endScope, ?_, by simp [Scope.endScope, hD], ?_⟩
    · rw [f4]; exact getScope_putScope hsc _
    · rw [f1]
      obtain ⟨bs, blk, rest, env, hs, henv, hf, hdep, hlt, hrest⟩ := hb.inv
      · rw [henv]
        have hdrop : sc.endScope.syms = rest := by
          simp only [Scope.endScope, hs, hD, Int.add_sub_cancel]
          rw [dropWhile_all _ bs rest fun x hx => by simp [hdep x hx]; omega]
          refine dropWhile_none _ rest fun x hx => ?_
          have := hrest.depth_mem x hx
          have hle : x.depth ≤ D := by
            rcases List.mem_cons.1 this with e | e
            · rw [e]; exact Int.le_refl _
            · obtain ⟨_, _, _, _, _, _, _, _, hlt', _⟩ := hrest.inv
              exact Int.le_of_lt (hlt' _ e)
          simp only [decide_eq_false_iff_not, Int.not_lt]
          exact hle
        rw [hdrop]
        exact hrest
  · rw [f3, f4]; exact h.stack
  · rw [f5]; exact h.out
  · rw [f2, f1]; exact h.display
  · rw [f1]; exact h.ωok

theorem endS_fields (mid : Int) (s : VM ν) : (endS mid s).heap = s.heap ∧ (endS mid s).stack = s.stack := by
  unfold endS
  cases getScope mid s with
  | none => exact ⟨rfl, rfl⟩
  | some sc => exact ⟨(putScope_fields s mid _).1, (putScope_fields s mid _).2.2.1⟩

theorem slot_of_stack {s s' : VM ν} (h : s'.stack = s.stack) : slot s' = slot s := by simp only [slot, h]

theorem simS_withScope {α α' : Type} {ω : Addr → Option (SVal ν)} {mid : Int} {D ds} {h0 : Array (Cell ν)}
    {P : Array (Cell ν) → α → α' → Prop} {s : VM ν} {σ : SState ν} {body : M ν α} {body' : SM ν α'}
    (hst : StRel ω mid D ds s σ)
    (hbody : ∀ s1 σ1, StRel ω mid (D+1) (D :: ds) s1 σ1 → s1.heap = s.heap → s1.stack = s.stack →
      SimS (VRel ω mid (D+1) (D :: ds) h0 P) (TRel ω mid (D+1) (D :: ds) h0) (BRel ω mid (D+1) (D :: ds) h0) s1 σ1 body body') :
    SimS (VRel ω mid D ds h0 P) (TRel ω mid D ds h0) (BRel ω mid D ds h0) s σ (withScope body) (withBlock body') := by
  obtain ⟨sc, hsc, _, _⟩ := hst.scope
  obtain ⟨f1, f2, f3, f4, f5⟩ := putScope_fields s s.csModuleID sc.beginScope
  have hb := hbody _ _ (hst.push sc hsc) f1 f3
  unfold SimS at hb ⊢
  rw [withScope_eq body s sc hsc, withBlock_eq]
  generalize body (putScope s.csModuleID sc.beginScope s) = p, body' { σ with env := [] :: σ.env } = p' at hb
  obtain ⟨r, s2⟩ := p
  obtain ⟨r', σ2⟩ := p'
  simp only at hb ⊢
  rcases hb with hb | hb | hb | hb
  · exact .inl hb
  · exact .inr (.inl hb)
  · exact .inr (.inr (.inl hb))
  · refine .inr (.inr (.inr ?_))
    obtain ⟨e1, e2⟩ := endS_fields s.csModuleID s2
    have hslot : slot (endS s.csModuleID s2) = slot s2 := slot_of_stack e2
    cases hb with
    | ok h =>
      obtain ⟨h1, h2, h3, h4⟩ := h
      exact .ok ⟨by rw [hst.cs.trans h1.cs.symm]; exact h1.pop, by rw [e1]; exact h2, by rw [hslot]; exact h3, by rw [e1]; exact h4⟩
    | ret h =>
      obtain ⟨h1, h2, a, h3, h4⟩ := h
      exact .ret ⟨by rw [hst.cs.trans h1.cs.symm]; exact h1.pop, by rw [e1]; exact h2, a, by rw [hslot]; exact h3, by rw [e1]; exact h4⟩
    | brk h =>
      obtain ⟨h1, h2, h3⟩ := h
      exact .brk ⟨by rw [hst.cs.trans h1.cs.symm]; exact h1.pop, by rw [e1]; exact h2, by rw [hslot]; exact h3⟩
    | cont h =>
      obtain ⟨h1, h2, h3⟩ := h
      exact .cont ⟨by rw [hst.cs.trans h1.cs.symm]; exact h1.pop, by rw [e1]; exact h2, by rw [hslot]; exact h3⟩
    | rt c => exact .rt c
    | sem c => exact .sem c

end ZnVerif.Proofs
