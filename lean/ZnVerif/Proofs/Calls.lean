/-
Lemmas about the evaluator model (Model/Interp.lean) used by the C06 (evaluator part), C08 and C09 theorems:
the monad `M`, scope tables, `Scope` operations and the `SortedDepths` invariant, `withScope`, list loops,
identifier matching, and the pieces of `handleException`.
-/
import ZnVerif.Model.Interp
set_option linter.unusedSectionVars false
set_option linter.unusedSimpArgs false

namespace ZnVerif.Proofs.Calls
open ZnVerif.Model

variable {ν : Type} [NumOps ν]

/-! ## the monad -/

theorem M_bind_def {α β} (m : M ν α) (f : α → M ν β) (s : VM ν) :
    (m >>= f) s = match m s with
      | (.ok a, s') => f a s'
      | (.err e, s') => (.err e, s')
      | (.panic, s') => (.panic, s')
      | (.fuel, s') => (.fuel, s')
      | (.unmodelled, s') => (.unmodelled, s') := rfl

theorem M_pure_def {α} (a : α) (s : VM ν) : (pure a : M ν α) s = (.ok a, s) := rfl

theorem bind_ok {α β} {m : M ν α} {f : α → M ν β} {s s' : VM ν} {a : α} (h : m s = (.ok a, s')) :
    (m >>= f) s = f a s' := by rw [M_bind_def, h]

theorem bind_err {α β} {m : M ν α} {f : α → M ν β} {s s' : VM ν} {e : Err} (h : m s = (.err e, s')) :
    (m >>= f) s = (.err e, s') := by rw [M_bind_def, h]

instance : LawfulMonad (M ν) := LawfulMonad.mk'
  (id_map := by
    intro α x; funext s
    show (x >>= fun a => pure (id a)) s = x s
    rw [M_bind_def]
    rcases h : x s with ⟨r, s'⟩
    cases r <;> rfl)
  (pure_bind := by intros; rfl)
  (bind_assoc := by
    intro α β γ x f g; funext s
    simp only [M_bind_def]
    rcases h : x s with ⟨r, s'⟩
    cases r <;> rfl)

/-- `mapM` runs the function on the head first, then on the tail, and each element once -/
theorem mapM_cons {α β} (f : α → M ν β) (a : α) (l : List α) :
    (a :: l).mapM f = (do let b ← f a; let bs ← l.mapM f; pure (b :: bs)) := by
  simp

theorem mapM_nil {α β} (f : α → M ν β) : ([] : List α).mapM f = pure [] := by simp

/-! ## scope tables -/

/-- the list operation of `putScope` -/
def putL (l : List (Int × Scope)) (mid : Int) (sc : Scope) : List (Int × Scope) :=
  if l.any (·.1 == mid) then l.map (fun p => if p.1 == mid then (mid, sc) else p) else l ++ [(mid, sc)]

theorem find_map_put (l : List (Int × Scope)) (mid mid' : Int) (sc : Scope) :
    (l.map (fun p => if p.1 == mid then (mid, sc) else p)).find? (·.1 == mid') =
      if mid' = mid then (l.find? (·.1 == mid)).map (fun _ => (mid, sc)) else l.find? (·.1 == mid') := by
  induction l with
  | nil => simp
  | cons p l ih =>
    rw [List.map_cons, List.find?_cons, List.find?_cons, List.find?_cons, ih]
    by_cases hp : p.1 = mid
    · by_cases hm : mid' = mid
      · subst hm; simp [hp]
      · have : (mid == mid') = false := by simpa using (Ne.symm hm)
        simp [hp, hm, this]
    · have hp' : (p.1 == mid) = false := by simpa using hp
      by_cases hm : mid' = mid
      · subst hm; simp [hp']
      · simp only [hp', hm, if_false, Bool.false_eq_true]

theorem find_putL_same (l : List (Int × Scope)) (mid : Int) (sc : Scope) :
    (putL l mid sc).find? (·.1 == mid) = some (mid, sc) := by
  unfold putL
  split
  · rename_i h
    rw [find_map_put]
    simp only [if_true]
    obtain ⟨x, hx, hxm⟩ := List.any_eq_true.mp h
    cases hf : l.find? (·.1 == mid) with
    | none =>
      have := List.find?_eq_none.mp hf x hx
      simp [hxm] at this
    | some y => rfl
  · rename_i h
    rw [List.find?_append]
    have : l.find? (·.1 == mid) = none := by
      apply List.find?_eq_none.mpr
      intro x hx hxm
      exact h (List.any_eq_true.mpr ⟨x, hx, hxm⟩)
    simp [this]

theorem find_putL_other (l : List (Int × Scope)) (mid mid' : Int) (sc : Scope) (hne : mid' ≠ mid) :
    (putL l mid sc).find? (·.1 == mid') = l.find? (·.1 == mid') := by
  unfold putL
  split
  · rw [find_map_put]; simp [hne]
  · rw [List.find?_append]
    have : (mid == mid') = false := by simpa using (Ne.symm hne)
    simp [List.find?_cons, this]

theorem putScope_scopes (mid : Int) (sc : Scope) (s : VM ν) : (putScope mid sc s).scopes = putL s.scopes mid sc := by
  unfold putScope putL; split <;> rfl

@[simp] theorem getScope_putScope_same (mid : Int) (sc : Scope) (s : VM ν) :
    getScope mid (putScope mid sc s) = some sc := by
  unfold getScope
  rw [putScope_scopes, find_putL_same]; rfl

theorem getScope_putScope_other (mid mid' : Int) (sc : Scope) (s : VM ν) (hne : mid' ≠ mid) :
    getScope mid' (putScope mid sc s) = getScope mid' s := by
  unfold getScope
  rw [putScope_scopes, find_putL_other _ _ _ _ hne]

@[simp] theorem putScope_heap (mid : Int) (sc : Scope) (s : VM ν) : (putScope mid sc s).heap = s.heap := by
  unfold putScope; split <;> rfl
@[simp] theorem putScope_stack (mid : Int) (sc : Scope) (s : VM ν) : (putScope mid sc s).stack = s.stack := by
  unfold putScope; split <;> rfl
@[simp] theorem putScope_cs (mid : Int) (sc : Scope) (s : VM ν) : (putScope mid sc s).csModuleID = s.csModuleID := by
  unfold putScope; split <;> rfl
@[simp] theorem putScope_out (mid : Int) (sc : Scope) (s : VM ν) : (putScope mid sc s).out = s.out := by
  unfold putScope; split <;> rfl
@[simp] theorem putScope_globals (mid : Int) (sc : Scope) (s : VM ν) : (putScope mid sc s).globals = s.globals := by
  unfold putScope; split <;> rfl
@[simp] theorem putScope_modules (mid : Int) (sc : Scope) (s : VM ν) : (putScope mid sc s).modules = s.modules := by
  unfold putScope; split <;> rfl
@[simp] theorem putScope_graph (mid : Int) (sc : Scope) (s : VM ν) : (putScope mid sc s).graph = s.graph := by
  unfold putScope; split <;> rfl

/-! ## `Scope`: the depth invariant and what `endScope` forgets -/

/-- symbols are stacked by non-increasing depth from the top, none deeper than the scope's current depth -/
def SortedDepths (sc : Scope) : Prop :=
  sc.syms.Pairwise (fun a b => b.depth ≤ a.depth) ∧ ∀ sy ∈ sc.syms, sy.depth ≤ sc.depth

/-- everything about a symbol except its value -/
def symKey (sy : Sym) : String × Int × Bool × Option Int := (sy.name, sy.depth, sy.isConst, sy.ext)

theorem sortedDepths_empty : SortedDepths {} := ⟨List.Pairwise.nil, by intro sy h; cases h⟩

theorem SortedDepths.beginScope {sc : Scope} (h : SortedDepths sc) : SortedDepths sc.beginScope := by
  refine ⟨h.1, ?_⟩
  intro sy hs
  have := h.2 sy hs
  show sy.depth ≤ sc.depth + 1
  omega

theorem declare_ok {sc sc' : Scope} {name : String} {v : Addr} {c : Bool} {ext : Option Int}
    (h : sc.declare name v c ext = .ok sc') :
    sc' = { sc with syms := { name, depth := sc.depth, isConst := c, ext, val := v } :: sc.syms } := by
  unfold Scope.declare at h
  split at h
  · cases h
  · cases h; rfl

theorem declare_depth {sc sc' : Scope} {name : String} {v : Addr} {c : Bool} {ext : Option Int}
    (h : sc.declare name v c ext = .ok sc') : sc'.depth = sc.depth := by
  rw [declare_ok h]

theorem SortedDepths.declare {sc sc' : Scope} {name : String} {v : Addr} {c : Bool} {ext : Option Int}
    (hs : SortedDepths sc) (h : sc.declare name v c ext = .ok sc') : SortedDepths sc' := by
  rw [declare_ok h]
  refine ⟨List.Pairwise.cons ?_ hs.1, ?_⟩
  · intro sy hsy; exact hs.2 sy hsy
  · intro sy hsy
    rcases List.mem_cons.mp hsy with h | h
    · subst h; exact Int.le_refl _
    · exact hs.2 sy h

theorem set_go_keys (name : String) (v : Addr) :
    ∀ (l l' : List Sym), Scope.set.go name v l = some (.ok l') → l'.map symKey = l.map symKey
  | [], l', h => by simp [Scope.set.go] at h
  | sy :: rest, l', h => by
    unfold Scope.set.go at h
    split at h
    · split at h
      · cases h
      · cases h; rfl
    · split at h
      · cases h
      · cases h
      · rename_i rest' hr
        cases h
        simp [set_go_keys name v rest rest' hr]

theorem set_ok {sc sc' : Scope} {name : String} {v : Addr} (h : sc.set name v = .ok sc') :
    sc'.depth = sc.depth ∧ sc'.syms.map symKey = sc.syms.map symKey := by
  unfold Scope.set at h
  split at h
  · cases h
  · cases h
  · rename_i syms hg
    cases h
    exact ⟨rfl, set_go_keys name v _ _ hg⟩

theorem set_depth {sc sc' : Scope} {name : String} {v : Addr} (h : sc.set name v = .ok sc') :
    sc'.depth = sc.depth := (set_ok h).1

theorem sortedDepths_of_keys {sc sc' : Scope} (hd : sc'.depth = sc.depth)
    (hk : sc'.syms.map symKey = sc.syms.map symKey) (hs : SortedDepths sc) : SortedDepths sc' := by
  have hdm : sc'.syms.map (·.depth) = sc.syms.map (·.depth) := by
    have := congrArg (List.map (fun k : String × Int × Bool × Option Int => k.2.1)) hk
    simpa [List.map_map, symKey, Function.comp_def] using this
  constructor
  · have h1 : (sc.syms.map (·.depth)).Pairwise (fun a b => b ≤ a) := List.pairwise_map.mpr hs.1
    rw [← hdm] at h1
    exact List.pairwise_map.mp h1
  · intro sy hsy
    have : sy.depth ∈ sc'.syms.map (·.depth) := List.mem_map.mpr ⟨sy, hsy, rfl⟩
    rw [hdm] at this
    obtain ⟨sy0, h0, he⟩ := List.mem_map.mp this
    rw [hd, ← he]; exact hs.2 sy0 h0

theorem SortedDepths.set {sc sc' : Scope} {name : String} {v : Addr}
    (hs : SortedDepths sc) (h : sc.set name v = .ok sc') : SortedDepths sc' :=
  sortedDepths_of_keys (set_ok h).1 (set_ok h).2 hs

theorem dropWhile_eq_filter_of_sorted (d : Int) :
    ∀ (l : List Sym), l.Pairwise (fun a b => b.depth ≤ a.depth) →
      l.dropWhile (fun sy => sy.depth > d) = l.filter (fun sy => sy.depth ≤ d)
  | [], _ => rfl
  | sy :: rest, h => by
    have hr := List.pairwise_cons.mp h
    by_cases hd : sy.depth > d
    · have h1 : decide (sy.depth > d) = true := by simpa using hd
      have h2 : decide (sy.depth ≤ d) = false := by simp; omega
      rw [List.dropWhile_cons, List.filter_cons]
      simp only [h1, h2, if_true, Bool.false_eq_true, if_false]
      exact dropWhile_eq_filter_of_sorted d rest hr.2
    · have h1 : decide (sy.depth > d) = false := by simpa using hd
      have h2 : decide (sy.depth ≤ d) = true := by simp; omega
      rw [List.dropWhile_cons, List.filter_cons]
      simp only [h1, h2, if_true, Bool.false_eq_true, if_false]
      congr 1
      symm
      apply List.filter_eq_self.mpr
      intro x hx
      have := hr.1 x hx
      simp; omega

/-- on a well-formed scope `EndScope` removes exactly the symbols deeper than the level it returns to -/
theorem endScope_syms {sc : Scope} (hs : SortedDepths sc) :
    sc.endScope.syms = sc.syms.filter (fun sy => sy.depth ≤ sc.depth - 1) :=
  dropWhile_eq_filter_of_sorted _ _ hs.1

theorem endScope_depth (sc : Scope) : sc.endScope.depth = sc.depth - 1 := rfl
theorem beginScope_depth (sc : Scope) : sc.beginScope.depth = sc.depth + 1 := rfl

theorem SortedDepths.endScope {sc : Scope} (hs : SortedDepths sc) : SortedDepths sc.endScope := by
  constructor
  · rw [endScope_syms hs]; exact List.Pairwise.filter _ hs.1
  · intro sy hsy
    rw [endScope_syms hs] at hsy
    have := (List.mem_filter.mp hsy).2
    simpa [endScope_depth] using this

/-- operations a body performs on its scope between `BeginScope` and `EndScope` -/
inductive ScopeOp where
  | declare (name : String) (v : Addr) (isConst : Bool) (ext : Option Int)
  | set (name : String) (v : Addr)

def ScopeOp.apply : ScopeOp → Scope → Except Err Scope
  | .declare name v c ext, sc => sc.declare name v c ext
  | .set name v, sc => sc.set name v

def ScopeOp.isSet : ScopeOp → Bool
  | .set .. => true
  | _ => false

/-- run the operations in order; a failing one (43, 44, 42) leaves the scope as it was and is skipped -/
def applyOps : List ScopeOp → Scope → Scope
  | [], sc => sc
  | op :: rest, sc =>
    match op.apply sc with
    | .ok sc' => applyOps rest sc'
    | .error _ => applyOps rest sc

theorem applyOps_inv (d : Int) (base : Scope) :
    ∀ (ops : List ScopeOp) (sc : Scope), SortedDepths sc → sc.depth = d + 1 →
      (sc.syms.filter (fun sy => sy.depth ≤ d)).map symKey = base.syms.map symKey →
      SortedDepths (applyOps ops sc) ∧ (applyOps ops sc).depth = d + 1 ∧
      ((applyOps ops sc).syms.filter (fun sy => sy.depth ≤ d)).map symKey = base.syms.map symKey
  | [], sc, hs, hd, hk => ⟨hs, hd, hk⟩
  | op :: rest, sc, hs, hd, hk => by
    unfold applyOps
    cases hop : op.apply sc with
    | error e => exact applyOps_inv d base rest sc hs hd hk
    | ok sc' =>
      simp only
      cases op with
      | declare name v c ext =>
        have hop' : sc.declare name v c ext = .ok sc' := hop
        refine applyOps_inv d base rest sc' (hs.declare hop') (by rw [declare_depth hop', hd]) ?_
        rw [declare_ok hop']
        have : decide (sc.depth ≤ d) = false := by simp; omega
        simp only [List.filter_cons, this, Bool.false_eq_true, if_false]
        exact hk
      | set name v =>
        have hop' : sc.set name v = .ok sc' := hop
        refine applyOps_inv d base rest sc' (hs.set hop') (by rw [set_depth hop', hd]) ?_
        have h1 : (sc'.syms.filter (fun sy => sy.depth ≤ d)).map symKey =
            (sc'.syms.map symKey).filter (fun k => decide (k.2.1 ≤ d)) := by
          rw [List.filter_map]; rfl
        have h2 : (sc.syms.filter (fun sy => sy.depth ≤ d)).map symKey =
            (sc.syms.map symKey).filter (fun k => decide (k.2.1 ≤ d)) := by
          rw [List.filter_map]; rfl
        rw [h1, (set_ok hop').2, ← h2]; exact hk

/-- `EndScope` after `BeginScope` and any sequence of declarations and assignments: the depth is back, and the
symbols are those of before — same names, depths, constness, in the same order (assignments may have changed the
values of outer variables, nothing else survives) -/
theorem endScope_forgets (sc : Scope) (hs : SortedDepths sc) (ops : List ScopeOp) :
    (applyOps ops sc.beginScope).endScope.depth = sc.depth ∧
    (applyOps ops sc.beginScope).endScope.syms.map symKey = sc.syms.map symKey ∧
    SortedDepths (applyOps ops sc.beginScope).endScope := by
  have hfil : sc.beginScope.syms.filter (fun sy => sy.depth ≤ sc.depth) = sc.syms := by
    apply List.filter_eq_self.mpr
    intro sy hsy; simpa using hs.2 sy hsy
  obtain ⟨h1, h2, h3⟩ := applyOps_inv sc.depth sc ops sc.beginScope hs.beginScope rfl (by rw [hfil])
  refine ⟨by rw [endScope_depth, h2]; omega, ?_, h1.endScope⟩
  rw [endScope_syms h1, h2]
  have : sc.depth + 1 - 1 = sc.depth := by omega
  rw [this]; exact h3

theorem applyOps_decl_inv (d : Int) (base : List Sym) :
    ∀ (ops : List ScopeOp) (sc : Scope), (∀ op ∈ ops, op.isSet = false) → sc.depth = d + 1 →
      sc.syms.filter (fun sy => sy.depth ≤ d) = base →
      (applyOps ops sc).depth = d + 1 ∧ (applyOps ops sc).syms.filter (fun sy => sy.depth ≤ d) = base
  | [], sc, _, hd, hk => ⟨hd, hk⟩
  | op :: rest, sc, hns, hd, hk => by
    unfold applyOps
    have hrest : ∀ op ∈ rest, op.isSet = false := fun o ho => hns o (List.mem_cons_of_mem _ ho)
    cases hop : op.apply sc with
    | error e => exact applyOps_decl_inv d base rest sc hrest hd hk
    | ok sc' =>
      simp only
      cases op with
      | declare name v c ext =>
        have hop' : sc.declare name v c ext = .ok sc' := hop
        refine applyOps_decl_inv d base rest sc' hrest (by rw [declare_depth hop', hd]) ?_
        rw [declare_ok hop']
        have : decide (sc.depth ≤ d) = false := by simp; omega
        simp only [List.filter_cons, this, Bool.false_eq_true, if_false]
        exact hk
      | set name v =>
        have := hns _ (List.mem_cons_self)
        simp [ScopeOp.isSet] at this

/-- with declarations only, the scope after `EndScope` is literally the scope before `BeginScope` -/
theorem endScope_forgets_declared (sc : Scope) (hs : SortedDepths sc) (ops : List ScopeOp)
    (hdecl : ∀ op ∈ ops, op.isSet = false) :
    (applyOps ops sc.beginScope).endScope = sc := by
  have hfil : sc.beginScope.syms.filter (fun sy => sy.depth ≤ sc.depth) = sc.syms := by
    apply List.filter_eq_self.mpr
    intro sy hsy; simpa using hs.2 sy hsy
  obtain ⟨h2, h3⟩ := applyOps_decl_inv sc.depth sc.syms ops sc.beginScope hdecl rfl hfil
  obtain ⟨h1, _, _⟩ := applyOps_inv sc.depth sc ops sc.beginScope hs.beginScope rfl (by rw [hfil])
  have hd : (applyOps ops sc.beginScope).endScope.depth = sc.depth := by rw [endScope_depth, h2]; omega
  have hsy : (applyOps ops sc.beginScope).endScope.syms = sc.syms := by
    rw [endScope_syms h1, h2]
    have : sc.depth + 1 - 1 = sc.depth := by omega
    rw [this]; exact h3
  cases hx : (applyOps ops sc.beginScope).endScope with
  | mk syms depth =>
    rw [hx] at hd hsy
    cases sc
    simp at hd hsy
    simp [hd, hsy]

/-! ## `withScope` (BeginBoundScope … defer EndScope) -/

/-- the state after the deferred `endScope()` of module `mid` -/
def endScopeOf (mid : Int) (s : VM ν) : VM ν :=
  match getScope mid s with
  | none => s
  | some sc => putScope mid sc.endScope s

theorem endBoundScope_some (mid : Int) (s : VM ν) : endBoundScope (some mid) s = (.ok (), endScopeOf mid s) := by
  unfold endBoundScope modifyVM endScopeOf
  rfl

theorem endBoundScope_none (s : VM ν) : endBoundScope none s = (.ok (), s) := rfl

theorem withScope_some {α} (body : M ν α) (s : VM ν) (sc : Scope) (h : getScope s.csModuleID s = some sc) :
    withScope body s =
      ((body (putScope s.csModuleID sc.beginScope s)).1,
       endScopeOf s.csModuleID (body (putScope s.csModuleID sc.beginScope s)).2) := by
  have hb : beginBoundScope s = (.ok (some s.csModuleID), putScope s.csModuleID sc.beginScope s) := by
    unfold beginBoundScope; rw [h]
  unfold withScope
  rw [bind_ok hb]
  unfold Model.tryCatch
  rcases hbody : body (putScope s.csModuleID sc.beginScope s) with ⟨r, s2⟩
  simp only
  rw [bind_ok (endBoundScope_some _ _)]
  rfl

theorem withScope_none {α} (body : M ν α) (s : VM ν) (h : getScope s.csModuleID s = none) :
    withScope body s = body s := by
  have hb : beginBoundScope s = (.ok none, s) := by
    unfold beginBoundScope; rw [h]
  unfold withScope
  rw [bind_ok hb]
  unfold Model.tryCatch
  rcases hbody : body s with ⟨r, s2⟩
  simp only
  rw [bind_ok (endBoundScope_none _)]
  rfl

@[simp] theorem endScopeOf_heap (mid : Int) (s : VM ν) : (endScopeOf mid s).heap = s.heap := by
  unfold endScopeOf; split <;> simp
@[simp] theorem endScopeOf_stack (mid : Int) (s : VM ν) : (endScopeOf mid s).stack = s.stack := by
  unfold endScopeOf; split <;> simp
@[simp] theorem endScopeOf_cs (mid : Int) (s : VM ν) : (endScopeOf mid s).csModuleID = s.csModuleID := by
  unfold endScopeOf; split <;> simp
@[simp] theorem endScopeOf_out (mid : Int) (s : VM ν) : (endScopeOf mid s).out = s.out := by
  unfold endScopeOf; split <;> simp
@[simp] theorem endScopeOf_globals (mid : Int) (s : VM ν) : (endScopeOf mid s).globals = s.globals := by
  unfold endScopeOf; split <;> simp
@[simp] theorem endScopeOf_modules (mid : Int) (s : VM ν) : (endScopeOf mid s).modules = s.modules := by
  unfold endScopeOf; split <;> simp

theorem getScope_endScopeOf_same (mid : Int) (s : VM ν) :
    getScope mid (endScopeOf mid s) = (getScope mid s).map Scope.endScope := by
  unfold endScopeOf
  cases h : getScope mid s with
  | none => simp [h]
  | some sc => simp

theorem getScope_endScopeOf_other (mid mid' : Int) (s : VM ν) (hne : mid' ≠ mid) :
    getScope mid' (endScopeOf mid s) = getScope mid' s := by
  unfold endScopeOf
  cases h : getScope mid s with
  | none => rfl
  | some sc => exact getScope_putScope_other _ _ _ _ hne

/-! ## identifiers -/

/-- the literal is an identifier (not a number, not a malformed number) for `MatchIDName` -/
def IsName (lit : String) : Prop := tryParseNumber (strCps lit) = .name

instance (lit : String) : Decidable (IsName lit) := by unfold IsName; infer_instance

theorem matchIDName_name (lit : String) (h : IsName lit) (s : VM ν) : matchIDName lit s = (.ok lit, s) := by
  unfold IsName at h
  simp [matchIDName, matchIDType, bind, h, pure]

/-- identifier matching never changes the state -/
theorem matchIDName_state (lit : String) (s : VM ν) : (matchIDName lit s).2 = s := by
  simp only [matchIDName, matchIDType, bind]
  cases tryParseNumber (strCps lit) <;> rfl

theorem matchIDNameOpt_name (i : Ident) (h : IsName i.lit) (s : VM ν) :
    matchIDNameOpt (some i) s = (.ok i.lit, s) := matchIDName_name _ h s

/-! ## list loops -/

theorem firstM_cons_some {α β} {f : α → M ν (Option β)} {d : M ν β} {x : α} {xs : List α} {s s' : VM ν} {b : β}
    (h : f x s = (.ok (some b), s')) : firstM f d (x :: xs) s = (.ok b, s') := by
  unfold firstM; rw [bind_ok h]; rfl

theorem firstM_cons_none {α β} {f : α → M ν (Option β)} {d : M ν β} {x : α} {xs : List α} {s s' : VM ν}
    (h : f x s = (.ok none, s')) : firstM f d (x :: xs) s = firstM f d xs s' := by
  conv => lhs; unfold firstM
  rw [bind_ok h]

theorem firstM_skip {α β} {f : α → M ν (Option β)} {d : M ν β} (s : VM ν) :
    ∀ (pre l : List α), (∀ x ∈ pre, f x s = (.ok none, s)) → firstM f d (pre ++ l) s = firstM f d l s
  | [], l, _ => rfl
  | x :: pre, l, h => by
    rw [List.cons_append, firstM_cons_none (h x List.mem_cons_self)]
    exact firstM_skip s pre l fun y hy => h y (List.mem_cons_of_mem _ hy)

/-- arguments run in list order, each exactly once, every one from the state its predecessor left -/
inductive RunsInOrder {α β} (f : α → M ν β) : List α → VM ν → List β → VM ν → Prop where
  | nil (s : VM ν) : RunsInOrder f [] s [] s
  | cons {a l s b s1 bs s2} : f a s = (.ok b, s1) → RunsInOrder f l s1 bs s2 → RunsInOrder f (a :: l) s (b :: bs) s2

theorem mapM_ok_iff {α β} (f : α → M ν β) :
    ∀ (l : List α) (s : VM ν) (bs : List β) (s2 : VM ν), l.mapM f s = (.ok bs, s2) ↔ RunsInOrder f l s bs s2
  | [], s, bs, s2 => by
    rw [mapM_nil]
    constructor
    · intro h; cases h; exact .nil s
    · intro h; cases h; rfl
  | a :: l, s, bs, s2 => by
    rw [mapM_cons, M_bind_def]
    constructor
    · intro h
      rcases hfa : f a s with ⟨r, s1⟩
      rw [hfa] at h
      cases r <;> simp only at h <;> try (cases h)
      rename_i b
      rw [M_bind_def] at h
      rcases hl : l.mapM f s1 with ⟨r', s1'⟩
      rw [hl] at h
      cases r' <;> simp only at h <;> try (cases h)
      rename_i bs'
      exact .cons hfa ((mapM_ok_iff f l s1 bs' _).mp hl)
    · intro h
      cases h with
      | cons hfa hrest =>
        rw [hfa]; simp only
        rw [M_bind_def, (mapM_ok_iff f l _ _ _).mpr hrest]; rfl

/-- if an element fails, the elements before it have run once, in order, and none after it runs -/
theorem mapM_err {α β} (f : α → M ν β) (post : List α) (a : α) (e : Err) :
    ∀ (pre : List α) (s : VM ν) (bs : List β) (s1 s2 : VM ν), RunsInOrder f pre s bs s1 → f a s1 = (.err e, s2) →
      (pre ++ a :: post).mapM f s = (.err e, s2)
  | [], s, bs, s1, s2, h, hfa => by
    cases h
    rw [List.nil_append, mapM_cons, bind_err hfa]
  | x :: pre, s, bs, s1, s2, h, hfa => by
    cases h with
    | cons hx hrest =>
      rw [List.cons_append, mapM_cons, bind_ok hx, bind_err (mapM_err f post a e pre _ _ _ _ hrest hfa)]

end ZnVerif.Proofs.Calls
