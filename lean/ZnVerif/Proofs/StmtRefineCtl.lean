/-
C02 refinement: statement lists and blocks (the model polls the return slot after every statement, the
spec propagates `.ret`), 如果, 每当, 遍历.
-/
import ZnVerif.Proofs.StmtRefineDisplay
set_option linter.unusedSectionVars false
set_option linter.unusedSimpArgs false

namespace ZnVerif.Proofs
open ZnVerif.Model ZnVerif.Spec

variable {ν : Type} [NumOps ν]

/-- the value of a block: none ↔ 空, some cell ↔ the value it reads as -/
def PBlk (ω : Addr → Option (SVal ν)) : Array (Cell ν) → Option Addr → SVal ν → Prop := fun h oa v =>
  match oa with
  | none => v = .null
  | some a => ∃ k, contentW ω k h a = some v

/-- induction hypotheses of the main theorem -/
def StmtSim (ω : Addr → Option (SVal ν)) (mid : Int) (n m : Nat) : Prop :=
  ∀ (st : Stmt) (s : VM ν) (σ : SState ν) (D : Int) (ds : List Int) (h0 : Array (Cell ν)),
    PureStmt st → Inv ω mid D ds h0 s σ → SSim ω mid D ds h0 s σ (evalStmt n st) (execS m st)

def BlockSim (ω : Addr → Option (SVal ν)) (mid : Int) (n m : Nat) : Prop :=
  ∀ (b : Option (List Stmt)) (s : VM ν) (σ : SState ν) (D : Int) (ds : List Int) (h0 : Array (Cell ν)),
    PureBlock b → Inv ω mid D ds h0 s σ →
    SimS (VRel ω mid D ds h0 (PBlk ω)) (TRel ω mid D ds h0) (BRel ω mid D ds h0) s σ (evalPureStmtBlock n b) (runBlock m b)

theorem PureStmt.not_decl {st : Stmt} (h : PureStmt st) : isDecl st = false := by
  cases h <;> rfl

theorem filter_pure : ∀ (stmts : List Stmt), (∀ st ∈ stmts, PureStmt st) →
    stmts.filter (fun st => match st with | .classDecl .. | .funcDecl .. => false | _ => true) = stmts
  | [], _ => rfl
  | st :: rest, h => by
    have h1 := h st List.mem_cons_self
    have ih := filter_pure rest fun x hx => h x (List.mem_cons_of_mem _ hx)
    rw [List.filter]
    cases h1 <;> simp only [ih]

theorem TRel.frame {α β : Type} {ω : Addr → Option (SVal ν)} {mid : Int} {D ds h0} {s s' : VM ν} {σ : SState ν} {a : α} {a' : β} {v : SVal ν}
    (h : TRel ω mid D ds h0 s σ a v) (hF : Frame s s') : TRel ω mid D ds h0 s' σ a' v := by
  obtain ⟨h1, h2, x, h3, k, h4⟩ := h
  exact ⟨h1.frame hF, h2.trans hF.le, x, by rw [slot_frame hF]; exact h3, k, contentW_heap hF.le h4⟩

section
variable {ω : Addr → Option (SVal ν)} {mid : Int}

/-- statements of a list: the model polls the slot after each, the spec folds -/
theorem sim_stmts {n m : Nat} (hS : StmtSim ω mid n m) {D ds h0} : ∀ (stmts : List Stmt) (s : VM ν) (σ : SState ν)
    (last : Option Addr) (lastv : SVal ν), (∀ st ∈ stmts, PureStmt st) → Inv ω mid D ds h0 s σ → PBlk ω s.heap last lastv →
    SimS (VRel ω mid D ds h0 (PBlk ω)) (fun s σ oa v => TRel ω mid D ds h0 s σ oa v ∧ oa = slot s) (BRel ω mid D ds h0) s σ
      (stmtsLoop (evalStmt n) last stmts) (stmts.foldlM (fun _ st => execS m st) lastv)
  | [], s, σ, last, lastv, _, hinv, hl => by
    simp only [stmtsLoop, List.foldlM_nil]
    exact simS_pure ⟨hinv.1, hinv.2.1, hinv.2.2, hl⟩
  | st :: rest, s, σ, last, lastv, hp, hinv, hl => by
    have hst := hp st List.mem_cons_self
    simp only [stmtsLoop, hst.not_decl, Bool.false_eq_true, if_false, List.foldlM_cons, bind_assoc, pure_bind]
    refine simS_bind (hS st s σ D ds h0 hst hinv) (fun s1 σ1 a v ⟨h1, h2, h3, h4⟩ => ?_) (fun s1 σ1 a v ht => ?_)
      (fun _ _ h => h)
    · rw [show (getReturnValue >>= _ : M ν (Option Addr)) = _ from rfl]
      refine simS_left (m2 := stmtsLoop (evalStmt n) (some a) rest) (by rw [M.bind_def, getReturnValue_eq, h3]) ?_
      exact sim_stmts hS rest s1 σ1 (some a) v (fun x hx => hp x (List.mem_cons_of_mem _ hx)) ⟨h1, h2, h3⟩ h4
    · obtain ⟨h1, h2, x, h3, h4⟩ := ht
      refine .inr ⟨some x, s1, by rw [M.bind_def, getReturnValue_eq, h3]; rfl, ⟨h1, h2, x, h3, h4⟩, h3.symm⟩

/-- a block: its own scope around the statement list -/
theorem sim_block {n m : Nat} (hS : StmtSim ω mid n m) : BlockSim ω mid (n+1) (m+2) := by
  intro b s σ D ds h0 hb hinv
  cases b with
  | none => simp only [runBlock]; exact simS_unspec
  | some stmts =>
    have hp := hb stmts rfl
    simp only [evalPureStmtBlock, runBlock, runStmts]
    rw [List.filter_eq_self.2 (fun st hst => by cases hp st hst <;> rfl)]
    refine simS_withScope hinv.1 fun s1 σ1 hst1 hh hs => ?_
    exact simS_weaken (fun _ _ _ _ h => h) (fun _ _ _ _ h => h.1) (fun _ _ h => h)
      (sim_stmts hS stmts s1 σ1 none .null hp ⟨hst1, by rw [hh]; exact hinv.2.1, by rw [slot_of_stack hs]; exact hinv.2.2⟩ rfl)

theorem blockSim_specFuel (n : Nat) : BlockSim ω mid n 0 := by
  intro b s σ D ds h0 _ _
  simp only [runBlock]; exact simS_specFuel

theorem blockSim_specFuel1 (n : Nat) : BlockSim ω mid n 1 := by
  intro b s σ D ds h0 _ _
  cases b with
  | none => simp only [runBlock]; exact simS_unspec
  | some stmts =>
    simp only [runBlock, runStmts]
    unfold SimS
    rw [withBlock_eq]
    exact .inr (.inl rfl)

theorem blockSim_modelFuel (m : Nat) : BlockSim ω mid 0 m := by
  intro b s σ D ds h0 _ _
  simp only [evalPureStmtBlock]; exact simS_modelFuel

/-- run a block for its effect, then answer `res` (the model goes on after a 输出 inside the block) -/
theorem sim_block_then {α α' : Type} {n m : Nat} (hB : BlockSim ω mid n m) {D ds h0} {s : VM ν} {σ : SState ν}
    (b : Option (List Stmt)) (hb : PureBlock b) (hinv : Inv ω mid D ds h0 s σ) (res : α) (res' : α')
    (P : Array (Cell ν) → α → α' → Prop) (hP : ∀ h, P h res res') :
    SimS (VRel ω mid D ds h0 P) (fun s σ a v => TRel ω mid D ds h0 s σ a v ∧ a = res) (BRel ω mid D ds h0) s σ
      (do let _ ← evalPureStmtBlock n b; pure res) (do let _ ← runBlock m b; pure res') := by
  refine simS_bind (hB b s σ D ds h0 hb hinv) (fun s1 σ1 _ _ ⟨h1, h2, h3, _⟩ => simS_pure ⟨h1, h2, h3, hP _⟩)
    (fun s1 σ1 _ v ht => .inr ⟨res, s1, rfl, ht, rfl⟩) (fun _ _ h => h)

/-- the 再如 chain and the 否则 branch -/
theorem sim_first {n m : Nat} (hle : m ≤ n) (hB : BlockSim ω mid n m) {D ds h0} (hasElse : Bool) (elseB : Option (List Stmt))
    (hE : PureBlock elseB) : ∀ (others : List (Expr × Option (List Stmt))) (s : VM ν) (σ : SState ν),
    (∀ o ∈ others, PureExpr o.1) → (∀ o ∈ others, PureBlock o.2) → Inv ω mid D ds h0 s σ →
    SimS (VRel ω mid D ds h0 (fun _ (_ _ : Unit) => True)) (TRel ω mid D ds h0) (BRel ω mid D ds h0) s σ
      (firstM (fun (o : Expr × Option (List Stmt)) => do
            let oc ← evalExpr n o.1
            match ← getCell oc with
            | .bool true => do let _ ← evalPureStmtBlock n o.2; pure (some ())
            | .bool false => pure none
            | _ => rtErr 80)
          (if hasElse then do let _ ← evalPureStmtBlock n elseB; pure () else pure ()) others)
      (firstS (fun (o : Expr × Option (List Stmt)) => do
            match ← evalE m o.1 with
            | .bool true => do let _ ← runBlock m o.2; pure (some ())
            | .bool false => pure none
            | _ => fault 80)
          (if hasElse then do let _ ← runBlock m elseB; pure () else pure ()) others)
  | [], s, σ, _, _, hinv => by
    simp only [firstM, firstS]
    cases hasElse
    · exact simS_pure ⟨hinv.1, hinv.2.1, hinv.2.2, trivial⟩
    · exact simS_weaken (fun _ _ _ _ h => h) (fun _ _ _ _ h => h.1) (fun _ _ h => h)
        (sim_block_then hB elseB hE hinv () () _ (fun _ => trivial))
  | o :: os, s, σ, h1, h2, hinv => by
    simp only [firstM, firstS]
    have ih := sim_first (D := D) (ds := ds) (h0 := h0) hle hB hasElse elseB hE os
    have step : SimS (VRel ω mid D ds h0 (fun _ (x y : Option Unit) => x = y))
        (fun s σ a v => TRel ω mid D ds h0 s σ a v ∧ a = some ()) (BRel ω mid D ds h0) s σ
        (do let oc ← evalExpr n o.1
            match ← getCell oc with
            | .bool true => do let _ ← evalPureStmtBlock n o.2; pure (some ())
            | .bool false => pure none
            | _ => rtErr 80)
        (do match ← evalE m o.1 with
            | .bool true => do let _ ← runBlock m o.2; pure (some ())
            | .bool false => pure none
            | _ => fault 80) := by
      refine simS_bind (simS_expr_any hinv hle (h1 o List.mem_cons_self)) (fun s1 σ1 a v ⟨hi, hc⟩ => ?_)
        (fun _ _ _ _ h => h.elim) (fun _ _ h => h.elim)
      obtain ⟨k', c, hk, hcell, hlay⟩ := (show Reads ω m s1 a v from hc).cell
      refine simS_getCell hcell ?_
      cases c <;> simp only [Layer] at hlay
      case bool b =>
        subst hlay
        cases b
        · exact simS_pure ⟨hi.1, hi.2.1, hi.2.2, rfl⟩
        · exact sim_block_then hB o.2 (h2 o List.mem_cons_self) hi (some ()) (some ()) _ (fun _ => rfl)
      all_goals reject hlay v with (simS_rt 80 80 rfl)
    refine simS_bind step (fun s1 σ1 x y ⟨g1, g2, g3, g4⟩ => ?_) (fun s1 σ1 x v ht => ?_) (fun _ _ h => h)
    · subst g4
      cases x with
      | some u => exact simS_pure ⟨g1, g2, g3, trivial⟩
      | none =>
        exact ih s1 σ1 (fun q hq => h1 q (List.mem_cons_of_mem _ hq)) (fun q hq => h2 q (List.mem_cons_of_mem _ hq)) ⟨g1, g2, g3⟩
    · obtain ⟨ht, rfl⟩ := ht
      exact .inr ⟨(), s1, rfl, ht⟩

/-- finish a statement with `newNull` / `pure .null`, also after a 输出 inside it -/
theorem sim_then_null {α α' : Type} {D ds h0} {s : VM ν} {σ : SState ν} {m1 : M ν α} {m1' : SM ν α'}
    {P : Array (Cell ν) → α → α' → Prop} {T : VM ν → SState ν → α → SVal ν → Prop} {B : VM ν → SState ν → Prop}
    (h : SimS (VRel ω mid D ds h0 P) T B s σ m1 m1')
    (hT : ∀ s σ a v, T s σ a v → TRel ω mid D ds h0 s σ a v) (hB : ∀ s σ, B s σ → BRel ω mid D ds h0 s σ) :
    SSim ω mid D ds h0 s σ (do let _ ← m1; newNull) (do let _ ← m1'; pure SVal.null) := by
  refine simS_bind h (fun s1 σ1 _ _ ⟨h1, h2, h3, _⟩ => simS_newNull ⟨h1, h2, h3⟩) (fun s1 σ1 a v ht => ?_) hB
  exact .inr ⟨s1.heap.size, _, rfl, (hT _ _ _ _ ht).frame (Frame.push s1 .null)⟩

theorem sim_branch {n m : Nat} (hle : m ≤ n) (hB : BlockSim ω mid n m) {D ds h0} {s : VM ν} {σ : SState ν}
    (ln : Nat) (ifE : Expr) (ifB : Option (List Stmt)) (others : List (Expr × Option (List Stmt))) (hasElse : Bool)
    (elseB : Option (List Stmt)) (h1 : PureExpr ifE) (h2 : PureBlock ifB) (h3 : ∀ o ∈ others, PureExpr o.1)
    (h4 : ∀ o ∈ others, PureBlock o.2) (h5 : PureBlock elseB) (hinv : Inv ω mid D ds h0 s σ) :
    SSim ω mid D ds h0 s σ (evalStmt (n+1) (.branch ln ifE ifB others hasElse elseB))
      (execS (m+1) (.branch ln ifE ifB others hasElse elseB)) := by
  simp only [evalStmt, execS]
  refine sSim_line _ _ _ hinv fun s0 hinv0 => ?_
  refine simS_bind (simS_expr_any hinv0 hle h1) (fun s1 σ1 a v ⟨hi, hc⟩ => ?_)
    (fun _ _ _ _ h => h.elim) (fun _ _ h => h.elim)
  obtain ⟨k', c, hk, hcell, hlay⟩ := (show Reads ω m s1 a v from hc).cell
  refine simS_getCell hcell ?_
  cases c <;> simp only [Layer] at hlay
  case bool b =>
    subst hlay
    cases b
    · exact sim_then_null (sim_first hle hB hasElse elseB h5 others s1 σ1 h3 h4 hi) (fun _ _ _ _ h => h) (fun _ _ h => h)
    · exact sim_then_null (hB ifB s1 σ1 D ds h0 h2 hi) (fun _ _ _ _ h => h) (fun _ _ h => h)
  all_goals reject hlay v with (simS_rt 80 80 rfl)

/-- one pass of 每当: the condition, then the body with its loop signals consumed -/
theorem sim_whileStep {n m : Nat} (hle : m ≤ n) (hB : BlockSim ω mid n m) {D ds h0} {s : VM ν} {σ : SState ν}
    (cond : Expr) (body : Option (List Stmt)) (h1 : PureExpr cond) (h2 : PureBlock body) (hinv : Inv ω mid D ds h0 s σ) :
    SimS (VRel ω mid D ds h0 (fun _ (x y : Bool) => x = y)) (fun s σ a v => TRel ω mid D ds h0 s σ a v ∧ a = false)
      (NoB (ν := ν)) s σ
      (do let c ← evalExpr n cond
          match ← getCell c with
          | .bool true =>
            Model.tryCatch (evalPureStmtBlock n body) fun r =>
              match r with
              | .err .sigContinue => pure true
              | .err .sigBreak => pure false
              | .ok _ => do
                match ← getReturnValue with
                | some _ => pure false
                | none => pure true
              | .err e => throwE e
              | .panic => goPanic
              | .fuel => outOfFuel
              | .unmodelled => notModelled
          | .bool false => pure false
          | _ => rtErr 80)
      (do match ← evalE m cond with
          | .bool true =>
            catchR (runBlock m body) fun r =>
              match r with
              | .ok _ => pure true
              | .cont => pure true
              | .brk => pure false
              | r => do let _ ← (sfail r : SM ν (SVal ν)); pure false
          | .bool false => pure false
          | _ => fault 80) := by
  refine simS_bind (simS_expr_any hinv hle h1) (fun s1 σ1 a v ⟨hi, hc⟩ => ?_)
    (fun _ _ _ _ h => h.elim) (fun _ _ h => h.elim)
  obtain ⟨k', c, hk, hcell, hlay⟩ := (show Reads ω m s1 a v from hc).cell
  refine simS_getCell hcell ?_
  cases c <;> simp only [Layer] at hlay
  case bool b =>
    subst hlay
    cases b
    · exact simS_pure ⟨hi.1, hi.2.1, hi.2.2, rfl⟩
    · -- the body
      have hb := hB body s1 σ1 D ds h0 h2 hi
      obtain ⟨r, s2, r', σ2, e1, e2, hout⟩ := simS_elim hb
      unfold SimS
      simp only [Model.tryCatch, catchR, e1, e2]
      rcases hout with rfl | rfl | rfl | hout
      · exact .inl rfl
      · exact .inr (.inl rfl)
      · exact .inr (.inr (.inl rfl))
      · cases hout with
        | ok hv =>
          obtain ⟨g1, g2, g3, _⟩ := hv
          simp only [M.bind_def, getReturnValue_eq, g3]
          exact .inr (.inr (.inr (.ok ⟨g1, g2, g3, rfl⟩)))
        | ret ht =>
          obtain ⟨g1, g2, x, g3, g4⟩ := ht
          simp only [M.bind_def, getReturnValue_eq, g3]
          exact .inr (.inr (.inr (.ret ⟨⟨g1, g2, x, g3, g4⟩, rfl⟩)))
        | brk hb => exact .inr (.inr (.inr (.ok ⟨hb.1, hb.2.1, hb.2.2, rfl⟩)))
        | cont hb => exact .inr (.inr (.inr (.ok ⟨hb.1, hb.2.1, hb.2.2, rfl⟩)))
        | rt c => exact .inr (.inr (.inr (.rt c)))
        | sem c => exact .inr (.inr (.inr (.sem c)))
  all_goals reject hlay v with (simS_rt 80 80 rfl)

/-- the loop: the spec's fuel may be smaller -/
theorem sim_whileLoop {D ds h0} (step : M ν Bool) (step' : SM ν Bool)
    (hstep : ∀ (s : VM ν) (σ : SState ν), Inv ω mid D ds h0 s σ →
      SimS (VRel ω mid D ds h0 (fun _ (x y : Bool) => x = y)) (fun s σ a v => TRel ω mid D ds h0 s σ a v ∧ a = false)
        (NoB (ν := ν)) s σ step step') :
    ∀ (k' k : Nat), k' ≤ k → ∀ (s : VM ν) (σ : SState ν), Inv ω mid D ds h0 s σ →
      SimS (VRel ω mid D ds h0 (fun _ (_ _ : Unit) => True)) (TRel ω mid D ds h0) (NoB (ν := ν)) s σ
        (whileM k step) (whileS k' step')
  | 0, _, _, _, _, _ => by simp only [whileS]; exact simS_specFuel
  | k'+1, 0, h, _, _, _ => by omega
  | k'+1, k+1, h, s, σ, hinv => by
    simp only [whileM, whileS]
    refine simS_bind (hstep s σ hinv) (fun s1 σ1 x y ⟨g1, g2, g3, g4⟩ => ?_) (fun s1 σ1 x v ⟨ht, hx⟩ => ?_) (fun _ _ h => h)
    · subst g4
      cases x
      · exact simS_pure ⟨g1, g2, g3, trivial⟩
      · exact sim_whileLoop step step' hstep k' k (Nat.le_of_succ_le_succ h) s1 σ1 ⟨g1, g2, g3⟩
    · subst hx
      exact .inr ⟨(), s1, rfl, ht⟩

theorem sim_while {n m : Nat} (hle : m ≤ n) (hB : BlockSim ω mid n m) {D ds h0} {s : VM ν} {σ : SState ν}
    (ln : Nat) (cond : Expr) (body : Option (List Stmt)) (h1 : PureExpr cond) (h2 : PureBlock body)
    (hinv : Inv ω mid D ds h0 s σ) :
    SSim ω mid D ds h0 s σ (evalStmt (n+1) (.while ln cond body)) (execS (m+1) (.while ln cond body)) := by
  simp only [evalStmt, execS]
  refine sSim_line _ _ _ hinv fun s0 hinv0 => ?_
  exact sim_then_null (sim_whileLoop _ _ (fun s σ hi => sSim_line _ _ _ hi fun s1 hi1 => sim_whileStep hle hB cond body h1 h2 hi1) m n hle s0 σ hinv0)
    (fun _ _ _ _ h => h) (fun _ _ h => h.elim)

end

end ZnVerif.Proofs
